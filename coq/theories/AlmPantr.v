(* AlmPantr.v — ALMSolver<PANTRSolver<Direction>>: the ALM outer loop (Alm.v, composed by AlmCompose.v) with the whole-loop PANTR
   model (Pantr.v) as its inner solver; problem view, world threading and statistics as in AlmPanoc.v.
   The trust-region direction oracle returns (q, model value) and is indexed by the global number of apply calls.
   Model only; proofs in AlmPantrProofs.v, theorem in Properties_C01.v. *)
From Coq Require Import List ZArith Bool Arith.
From Alpaqa Require Import Num Vec Prox SolverStatus SolverKernels StopChain AugLag Panoc ZeroFpr Pantr Alm AlmCompose AlmPanoc.
Import ListNotations.

Section AlmPantr.
  Context {T : Type} `{Num T}.
  Local Open Scope num_scope.

  Variable Pb : problem (T:=T).
  Variable prov : fn -> bool.
  Variable wm_supplied : list T -> list T.
  Variables (Clb Cub : list (option T)) (l1 : list T).
  Variable split : nat.
  Variable tr_dir : nat -> iterate (T:=T) -> T -> list T * T.     (* direction.apply(…, Δ, q) -> q_model, by the global apply index *)
  Variable has_initial : bool.
  Variable stop_req : counters -> bool.
  Variable time_up : counters -> bool.
  Variable outer_oot : nat -> bool.
  Variable TP : trparams (T:=T).                (* PANTRParams *)
  Variable AP : alm_params (T:=T).
  Variables (bt_fuel inner_fuel : nat).

  (* InnerSolveOptions{.always_overwrite_results = true, .tolerance = ε} *)
  Definition tr_with_opts (tol : T) : trparams (T:=T) :=
    mkTr (with_opts (tp_base TP) tol) (tp_tr_tol TP) (tp_thr_acc TP) (tp_thr_good TP) (tp_rf_rej TP) (tp_rf_acc TP) (tp_rf_good TP)
         (tp_init_radius TP) (tp_min_radius TP) (tp_ratio_new_step TP) (tp_upd_on_prox TP) (tp_disable_accel TP) (tp_ratio_approx TP).

  (* ir_stop: ALMSolver::stop() sets ALM's own flag and the inner solver's flag in the same call, so the one oracle stop_req serves both:
     the outer loop reads its flag after the inner solve, i.e. at the cumulative counters the solve hands on *)
  Definition tinner (w : counters) (i : nat) (x y Σ : list T) (tol : T) (errz : list T)
      : option (inner_res (T:=T) * list T * tresult (T:=T) * counters) :=
    let r := pantr (o_psi_grad_full Pb prov wm_supplied y Σ) (o_psi_yhat Pb prov y Σ) (o_grad_L Pb prov) (o_grad_psi Pb prov y Σ) Clb Cub l1
                   (fun j px Δ => tr_dir (c_apply w + j)%nat px Δ) has_initial
                   (fun c => stop_req (cadd w c)) (fun c => time_up (cadd w c))
                   (tr_with_opts tol) x y Σ errz bt_fuel inner_fuel in
    match r with
    | TDone o =>
        Some ({| ir_status := alm_status_of (to_status o); ir_eps := to_eps o; ir_err := Some (to_errz o);
                 ir_y := Some (to_y o); ir_iters := to_iterations o; ir_oot := outer_oot i;
                 ir_stop := stop_req (cadd w (to_cnt o)) |},
              to_x o, r, cadd w (to_cnt o))
    | TNotFiniteL L =>
        Some ({| ir_status := NotFinite; ir_eps := ninf; ir_err := None; ir_y := None; ir_iters := 0; ir_oot := outer_oot i;
                 ir_stop := stop_req (cadd w (snd (init_L (o_psi_grad_full Pb prov wm_supplied y Σ) (o_grad_psi Pb prov y Σ) (with_opts (tp_base TP) tol) x))) |},
              x, r, cadd w (snd (init_L (o_psi_grad_full Pb prov wm_supplied y Σ) (o_grad_psi Pb prov y Σ) (with_opts (tp_base TP) tol) x)))
    | TOutOfFuel => None
    end.

  (* ALMSolver<PANTRSolver>::operator()(p, x, y, Σ) *)
  Definition alm_pantr (outer_fuel : nat) (nanv : T) (Σ0 : option (list T)) (y0 x0 : list T)
      : option (cout (T:=T) counters (tresult (T:=T))) :=
    c_run counters (tresult (T:=T)) tinner AP (pb_of Pb split) outer_fuel (pf Pb x0) (pg Pb x0) nanv Σ0 y0 x0 cnt0.
End AlmPantr.
