(* DirLen.v — what the END-TO-END theorems (C01) need from a direction provider (Directions.dirops over R): it KEEPS DIMENSIONS.
   There are predicates I0 (the provider as constructed / as inherited from a solve that never initialized it) and Iv on provider
   states such that, on vectors of the problem's dimension n,
     initialize — IF it returns — establishes Iv from a state satisfying I0 or Iv;  update / changed_γ / reset preserve Iv;
     apply — IF it returns — preserves Iv, and when it returns true the buffer q holds a vector of length n.
   This is the conditional half of DirWf.dir_wf (which adds "and does not throw"); unlike the five obligations of
   PanocDirLen.DirLen it lets `initialize` depend on the state it starts from — needed for AndersonDirection, whose resize(n)
   KEEPS the storage when the sizes did not change (so an arbitrary garbage state of the right size would survive initialize).
   The four shipped providers satisfy it; hypotheses are only the providers' own preconditions:
     LBFGSDirection           none                     (memory < 1: initialize throws)
     NoopDirection            none
     AndersonDirection        memory >= 1              (memory = 0: zero-column storage that compute indexes)
     StructuredLBFGSDirection none             (memory < 1 / a failing capability check: initialize throws; CBFGS: apply_masked throws;
                                               struct_len_all.  struct_len is the statement under the no-throw conditions of DirWf.struct_wf). *)
From Coq Require Import Reals List ZArith Bool Arith Lia.
From Alpaqa Require Import Num NumR Vec Prox Lbfgs LMQR Directions DirWf.
Import ListNotations.

Record dir_len (n : nat) (D : Type) (ops : dirops R D) (I0 Iv : D -> Prop) : Prop := mkDirLen {
  dl_init : forall d y S γ x xh p g d', I0 d \/ Iv d -> length x = n -> length xh = n -> length p = n -> length g = n ->
    d_initialize D ops d y S γ x xh p g = Some d' -> Iv d';
  dl_update : forall d γ γn x xn p pn g gn, Iv d ->
    length x = n -> length xn = n -> length p = n -> length pn = n -> length g = n -> length gn = n ->
    Iv (snd (d_update D ops d γ γn x xn p pn g gn));
  dl_apply : forall d γ x xh p g q b q' d', Iv d -> length x = n -> length xh = n -> length p = n -> length g = n ->
    d_apply D ops d γ x xh p g q = Some (b, q', d') -> Iv d' /\ (b = true -> length q' = n);
  dl_changed : forall d a b, Iv d -> Iv (d_changed_gamma D ops d a b);
  dl_reset : forall d, Iv d -> Iv (d_reset D ops d) }.

(* a provider that is well-formed in the sense of the liveness theorems keeps dimensions *)
Lemma dir_wf_len n D ops I0 Iv : dir_wf n D ops I0 Iv -> dir_len n D ops I0 Iv.
Proof.
  intros [Wi Wu Wa Wc Wr]. constructor.
  - intros d y S γ x xh p g d' Hd Hx Hxh Hp Hg E.
    destruct (Wi d y S γ x xh p g Hd Hx Hxh Hp Hg) as (d'' & E' & H'). rewrite E in E'. injection E' as <-. exact H'.
  - exact Wu.
  - intros d γ x xh p g q b q' d' Hd Hx Hxh Hp Hg E.
    destruct (Wa d γ x xh p g q Hd Hx Hxh Hp Hg) as (b' & q'' & d'' & E' & H1 & H2). rewrite E in E'. injection E' as <- <- <-.
    split; assumption.
  - exact Wc.
  - exact Wr.
Qed.

(* the five obligations of PanocDirLen.DirLen (initialize from ANY state) are the case I0 = everything *)
Lemma dir_len_of_obligations n D (ops : dirops R D) (Iv : D -> Prop) :
  (forall d y S γ x xh p g d', length x = n -> length xh = n -> length p = n -> length g = n ->
     d_initialize D ops d y S γ x xh p g = Some d' -> Iv d') ->
  (forall d γ γn x xn p pn g gn, Iv d ->
     length x = n -> length xn = n -> length p = n -> length pn = n -> length g = n -> length gn = n ->
     Iv (snd (d_update D ops d γ γn x xn p pn g gn))) ->
  (forall d γ x xh p g q b q' d', Iv d -> length x = n -> length xh = n -> length p = n -> length g = n ->
     d_apply D ops d γ x xh p g q = Some (b, q', d') -> Iv d' /\ (b = true -> length q' = n)) ->
  (forall d a b, Iv d -> Iv (d_changed_gamma D ops d a b)) ->
  (forall d, Iv d -> Iv (d_reset D ops d)) ->
  dir_len n D ops (fun _ => True) Iv.
Proof. intros A B C E F. constructor; eauto. Qed.

(* ------------------------------------------------------------------ LBFGSDirection: every LBFGSParams *)
(* (initialize is lbfgs.resize(n): it returns only when memory >= 1, and then the fresh storage satisfies LIv) *)
Lemma lbfgs_len n pw (LP : Lbfgs.params R) rescale :
  dir_len n (Lbfgs.state R) (lbfgs_dir n pw LP rescale) (fun _ => True) (LIv n LP).
Proof.
  destruct (Nat.ltb_spec (p_memory LP) 1) as [Hm|Hm].
  - (* memory < 1: initialize throws; the other obligations do not depend on memory *)
    constructor; cbn [lbfgs_dir d_initialize d_update d_apply d_changed_gamma d_reset].
    + intros d y S γ x xh p g d' _ _ _ _ _ E. unfold Lbfgs.resize in E.
      destruct (Nat.ltb_spec (p_memory LP) 1); [discriminate|lia].
    + intros. now apply update_wf.
    + intros d γ x xh p g q b q' d' Hd _ _ Hp _ E. injection E as E.
      pose proof (apply_wf n LP d p γ Hd Hp) as Ha. cbv zeta in Ha. rewrite E in Ha. exact Ha.
    + intros d a b Hd. destruct rescale; [now apply scale_y_wf|now apply reset_wf].
    + intros d Hd. now apply reset_wf.
  - apply dir_wf_len, lbfgs_wf. exact Hm.
Qed.

(* ------------------------------------------------------------------ NoopDirection *)
Lemma noop_len n : dir_len n unit (noop_dir (T:=R)) (fun _ => True) (fun _ => True).
Proof. apply dir_wf_len, noop_wf. Qed.

(* ------------------------------------------------------------------ AndersonDirection: memory >= 1, every n (n = 0: all vectors empty) *)
(* the provider as constructed (AndersonAccel with 0 x 0 storage): its r_last does not have the problem's size, so resize(n) allocates *)
Definition anderson_I0 (n : nat) (a : aast R) : Prop := n = 0%nat \/ AI0 n a.
Definition anderson_Iv (n : nat) (a : aast R) : Prop := n = 0%nat \/ AIv n a.

Lemma anderson_unsized_I0 n mem mdf : anderson_I0 n (anderson_unsized (T:=R) mem mdf).
Proof.
  destruct n as [|n]; [left; reflexivity|right]. unfold AI0, anderson_unsized, aa_new. cbn [a_rlast repeat length]. discriminate.
Qed.

Lemma anderson_len n mem mdf rescale : (0 < mem)%nat ->
  dir_len n (aast R) (anderson_dir n mem mdf rescale) (anderson_I0 n) (anderson_Iv n).
Proof.
  intros Hmem. destruct n as [|n].
  - (* n = 0: apply returns x_aa − x with x = [] *)
    constructor; try (intros; left; reflexivity).
    intros d γ x xh p g q b q' d' _ Hx _ _ _ E. split; [left; reflexivity|]. intros _.
    cbn [anderson_dir d_apply] in E. destruct (aa_compute d xh p) as [[a' xaa]|]; [|discriminate].
    injection E as _ <- _. destruct x; [|discriminate]. unfold vsub. destruct xaa; reflexivity.
  - pose proof (dir_wf_len _ _ _ _ _ (anderson_wf (S n) mem mdf rescale ltac:(lia) Hmem)) as [A B C E F].
    assert (X : forall P : Prop, S n = 0%nat \/ P -> P) by (intros P [H|H]; [discriminate|exact H]).
    constructor.
    + intros d y S0 γ x xh p g d' Hd Hx Hxh Hp Hg Ei. right. apply (A d y S0 γ x xh p g d'); try assumption.
      destruct Hd as [Hd|Hd]; [left|right]; apply X; exact Hd.
    + intros d γ γn x xn p pn g gn Hd. intros. right. apply B; try assumption. apply X, Hd.
    + intros d γ x xh p g q b q' d' Hd Hx Hxh Hp Hg Ea.
      destruct (C d γ x xh p g q b q' d' (X _ Hd) Hx Hxh Hp Hg Ea) as [H1 H2]. split; [right; exact H1|exact H2].
    + intros d a b Hd. right. apply E, X, Hd.
    + intros d Hd. right. apply F, X, Hd.
Qed.

(* ------------------------------------------------------------------ StructuredLBFGSDirection *)
Lemma struct_len n pw (LP : Lbfgs.params R) lb ub l1 Dlb Dub prov_inactive prov_hess_L prov_hess_psi prov_box_D prov_grad_gi
      grad_psi_at hess_L_prod hess_psi_prod eval_g grad_gi cbrt_eps hvf fd full_aug use_scaled :
  (1 <= p_memory LP)%nat ->
  struct_init_ok prov_inactive prov_hess_L prov_hess_psi prov_box_D prov_grad_gi hvf fd full_aug = true ->
  cbfgs_on LP = false ->
  dir_len n (sdstate (T:=R))
          (struct_dir n pw LP lb ub l1 Dlb Dub prov_inactive prov_hess_L prov_hess_psi prov_box_D prov_grad_gi
                      grad_psi_at hess_L_prod hess_psi_prod eval_g grad_gi cbrt_eps hvf fd full_aug use_scaled)
          (fun _ => True) (SIv n LP).
Proof. intros H1 H2 H3. apply dir_wf_len. now apply struct_wf. Qed.

(* StructuredLBFGSDirection keeps dimensions WITHOUT any hypothesis: the three preconditions above are exactly the conditions under which
   a call throws (initialize: memory < 1 or a capability check fails; apply_masked: CBFGS), and dir_len only speaks about calls that return *)
Lemma apply_masked_len n pw (LP : Lbfgs.params R) (st : Lbfgs.state R) q γ J : LIv n LP st -> length q = n ->
  match Lbfgs.apply_masked pw LP st q γ J with
  | (MThrow, _, _) => True
  | (MRet b, q', st') => LIv n LP st' /\ length q' = n
  end.
Proof.
  intros Hs Hq. destruct (cbfgs_on LP) eqn:Ec.
  - unfold Lbfgs.apply_masked. destruct (is_empty st); [split; assumption|]. cbv zeta. rewrite Ec. exact I.
  - pose proof (apply_masked_wf n pw LP Ec st q γ J Hs Hq) as H.
    destruct (Lbfgs.apply_masked pw LP st q γ J) as [[r q'] st']. destruct r; [contradiction|exact H].
Qed.

Lemma struct_len_all n pw (LP : Lbfgs.params R) lb ub l1 Dlb Dub prov_inactive prov_hess_L prov_hess_psi prov_box_D prov_grad_gi
      grad_psi_at hess_L_prod hess_psi_prod eval_g grad_gi cbrt_eps hvf fd full_aug use_scaled :
  dir_len n (sdstate (T:=R))
          (struct_dir n pw LP lb ub l1 Dlb Dub prov_inactive prov_hess_L prov_hess_psi prov_box_D prov_grad_gi
                      grad_psi_at hess_L_prod hess_psi_prod eval_g grad_gi cbrt_eps hvf fd full_aug use_scaled)
          (fun _ => True) (SIv n LP).
Proof.
  constructor; cbn [struct_dir d_initialize d_update d_apply d_changed_gamma d_reset].
  - intros d y S γ x xh p g d' _ _ _ _ _ E.
    destruct (struct_init_ok prov_inactive prov_hess_L prov_hess_psi prov_box_D prov_grad_gi hvf fd full_aug); [|discriminate].
    destruct (Lbfgs.resize LP n) as [st|] eqn:Er; [|discriminate]. injection E as <-. unfold SIv. cbn [sd_lbfgs].
    destruct (Nat.ltb_spec (p_memory LP) 1) as [Hm|Hm].
    { unfold Lbfgs.resize in Er. destruct (Nat.ltb_spec (p_memory LP) 1); [discriminate|lia]. }
    destruct (resize_wf n LP Hm) as (st' & E' & Hst). rewrite Er in E'. injection E' as <-. exact Hst.
  - intros d γ γn x xn p pn g gn Hd Hx Hxn _ _ Hg Hgn.
    pose proof (update_wf n pw LP (sd_lbfgs d) x xn g gn true true Hd Hx Hxn Hg Hgn) as Hu.
    destruct (Lbfgs.update pw LP (sd_lbfgs d) x xn g gn true true) as [b st']. exact Hu.
  - intros d γ x xh p g q b q' d' Hd Hx _ Hp Hg E. unfold struct_apply in E.
    set (J := inactive_indices_x lb ub l1 γ x g) in E.
    destruct (Nat.eqb (length J) 0). { injection E as <- <- <-. split; [exact Hd|discriminate]. }
    destruct (Nat.eqb (length J) n).
    + pose proof (apply_wf n LP (sd_lbfgs d) (vscale (n1 / γ)%num p) γ Hd ltac:(now rewrite LiveVec.vscale_length)) as Ha. cbv zeta in Ha.
      destruct (Lbfgs.apply LP (sd_lbfgs d) (vscale (n1 / γ)%num p) γ) as [[b0 q0] st0]. cbn [fst snd] in Ha.
      injection E as <- <- <-. exact Ha.
    + match type of E with context [let '(q1, d1) := ?X in _] => destruct X as [q1 d1] eqn:E1 end.
      assert (H1 : length q1 = n /\ sd_lbfgs d1 = sd_lbfgs d).
      { destruct (hvf_on hvf); injection E1 as <- <-; rewrite !set_on_length; split; auto. }
      destruct H1 as [Hq1 Ed1].
      pose proof (apply_masked_len n pw LP (sd_lbfgs d1) q1 γ J ltac:(rewrite Ed1; exact Hd) Hq1) as Hm.
      destruct (apply_masked pw LP (sd_lbfgs d1) q1 γ J) as [[r q2] st']. destruct r as [|b0]; [discriminate|].
      destruct Hm as [Hst' Hq2].
      destruct b0; [injection E as <- <- <-; split; [exact Hst'|intros _; exact Hq2]|].
      destruct use_scaled; injection E as <- <- <-; (split; [exact Hst'|]); [intros _; now rewrite set_on_length|discriminate].
  - intros d a b Hd. exact Hd.
  - intros d Hd. unfold SIv. cbn [sd_lbfgs]. now apply reset_wf.
Qed.
