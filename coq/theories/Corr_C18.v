(* Corr_C18.v — correspondence cases for C18: the model of Params.v, over the GENERATED schemas (gen/ParamTables.v),
   run at binary64 on the option strings the C++ driver was given; the whole structure after the call, the `used`
   counters and the exception class must equal what the implementation produced.
   The decimal->binary conversion of std::from_chars is an oracle: each case carries the table of conversions
   (computed by Python's correctly rounded float()) for the number substrings that can occur. *)
From Coq Require Import Floats List ZArith Bool String Ascii.
From Alpaqa Require Import Num NumF Params ParamsDur ParamTables.
Import ListNotations.
Local Open Scope string_scope.

Definition trunc_f (x : float) : option Z :=
  match Prim2SF x with
  | S754_zero _ => Some 0%Z
  | S754_finite s m e =>
    let z := if (0 <=? e)%Z then (Zpos m * 2 ^ e)%Z else (Zpos m / 2 ^ (- e))%Z in
    let z' := if s then (- z)%Z else z in
    if ((- 2 ^ 63 <=? z') && (z' <? 2 ^ 63))%Z then Some z' else None
  | _ => None
  end.
Definition ticks_f : nat -> nat -> float -> tickres := ticks_model trunc_f.

Definition conv_tbl (tbl : list (string * convres float)) (s : string) : convres float :=
  match assoc s tbl with Some r => r | None => CMissing end.

Definition leaf_eqb (a b : leafval float) : bool :=
  match a, b with
  | VBool x, VBool y => Bool.eqb x y
  | VInt x, VInt y => Z.eqb x y
  | VReal x, VReal y => fexact x y
  | VDur x, VDur y => Z.eqb x y
  | VEnum x, VEnum y => Z.eqb x y
  | _, _ => false
  end.
Fixpoint value_eqb (a b : value float) {struct a} : bool :=
  match a, b with
  | VLeaf x, VLeaf y => leaf_eqb x y
  | VNode xs, VNode ys =>
    (fix go (l1 : list (value float)) (l2 : list (value float)) : bool :=
       match l1, l2 with
       | [], [] => true
       | x :: l1', y :: l2' => value_eqb x y && go l1' l2'
       | _, _ => false
       end) xs ys
  | _, _ => false
  end.
Definition exc_eqb (a b : exc_class) : bool :=
  match a, b with
  | XNone, XNone | XInvalidParam, XInvalidParam | XInvalidArgument, XInvalidArgument | XUndefined, XUndefined => true
  | _, _ => false
  end.
Definition is_ub (e : option err) : bool := match e with Some EDurUB => true | _ => false end.
Definition is_gap (e : option err) : bool := match e with Some EOracle | Some EShape => true | _ => false end.

Inductive c18case :=
| CSet (sname : string) (init : value float) (prefix : string) (opts : list string) (convs : list (string * convres float))
       (after : value float) (used : list nat) (exc : exc_class)
| CLeaf (t : leafty) (init : leafval float) (key val : string) (convs : list (string * convres float))
        (after : leafval float) (exc : exc_class)
| CVec (init : list float) (key val : string) (convs : list (string * convres float)) (after : list float) (exc : exc_class).

Inductive c18out :=
| OSet (v : value float) (used : list nat) (e : option (nat * err))
| OLeaf (l : leafval float) (e : option err)
| OVec (xs : list float) (e : option err)
| ONoSchema.

Definition model18 (c : c18case) : c18out :=
  match c with
  | CSet sname init prefix opts convs _ used _ =>
    match assoc sname schemas with
    | Some sch => let '(v, u, e) := set_params (conv_tbl convs) ticks_f sch init prefix opts (map (fun _ => 0) used) 0 in OSet v u e
    | None => ONoSchema
    end
  | CLeaf t init key val convs _ _ => let (l, e) := set_leaf (conv_tbl convs) ticks_f t init key val in OLeaf l e
  | CVec init key val convs _ _ => let (xs, e) := set_vec (conv_tbl convs) init key val in OVec xs e
  end.

(* cases in which the model says "outside the model" (EDurUB: the range guard passed but the conversion still overflows) are not compared *)
Definition chk18 (c : c18case) : bool :=
  match c, model18 c with
  | CSet _ _ _ _ _ after used exc, OSet v u e =>
    let e' := option_map snd e in
    if is_ub e' then true
    else negb (is_gap e') && value_eqb v after && list_agree Nat.eqb u used && exc_eqb (class_of e') exc
  | CLeaf _ _ _ _ _ after exc, OLeaf l e =>
    if is_ub e then true else negb (is_gap e) && leaf_eqb l after && exc_eqb (class_of e) exc
  | CVec _ _ _ _ after exc, OVec xs e =>
    negb (is_gap e) && vfexact xs after && exc_eqb (class_of e) exc
  | _, _ => false
  end.
