(* Corr_PANOCOCP.v — whole-run correspondence: PanocOcpLoop.panoc_ocp at binary64 against PANOCOCPSolver::operator() as run by
   harness/drv_ocp.cpp.  The oracles of PanocOcpLoop.v are instantiated with
     - the OCP family of drv_ocp (SOCP): polynomial dynamics, quadratic + quartic costs, stage / terminal constraints, operation
       order as in the C++ (explicit loops there);
     - fwd / sim: the forward pass of Ocp.v's shape (stage blocks [x u c], terminal [x c_N]) with the code's accumulation order
       `V += l; V += ½ dist²` (Ocp.forward adds the two stage terms first: it is evaluated too and must agree to 2^-36);
       bwd: Ocp.backward (adjoint sweep, ALM terms from Ocp.pen_grad) on the stored trajectory;
     - L-BFGS: Lbfgs.v (apply_masked / update forced / reset) — NOT teacher-forced;
     - Gauss-Newton step: COMPUTED by the model (o_gn): index sets J_t / K_t from the model's inactive mask (Ocp.build_J / compl), the
       Jacobians of the family at the current (x_t, u_t), the cost blocks Q_t = ∇²l + Jcᵀ diag(μ·[ζ ∉ D]) Jc, R_t (diagonal), S_t = 0,
       Q_N likewise, q_t / r_t / q_N from the shared qr buffer the loop model threads, the fixed components = the active entries
       of q (bound − u); then Ocp.factor_masked + Ocp.solve_masked (C12's verified Riccati model, Ocp.riccati_step) with the dense solve
       lsolve instantiated per lqr_factor_cholesky: Eigen's pivoted LDLT (sizes <= 2 operation by operation: ldlt_solve) or partial-pivot
       LU = Gaussian elimination (Corr_C12.gsolve; gsolve_r for the matrix right-hand side, where Eigen multiplies by reciprocals).
       NOTHING of the Gauss-Newton block is teacher-forced.  With stage constraints (nc > 0)
       OCPEvaluator::Qk adds ∇²l and then JcᵀMJc to P, while Ocp.factor_all adds ONE matrix Q_t: a last-bit difference that
       ill-conditioned runs amplify; there the loop over the stages (factor_code) makes the two additions in the code's order around
       Ocp.factor_step, and with nc = 0 the step is Ocp.riccati_step verbatim.
     - stop_req from the driver's injection points (stop() inside sweep event #E / callback #C); time_up constant.
   The model's whole trajectory (every progress-callback record, final status, outputs, statistics, event counts) must equal the
   implementation's. *)
From Coq Require Import Floats List ZArith Bool Arith.
From Alpaqa Require Import Num NumF Vec Prox SolverStatus SolverKernels Ocp Lbfgs PanocOcp PanocOcpLoop Corr_Run PanocOcpE2E.
From Alpaqa Require Corr_C12.
Import ListNotations.

Section Family.
  Context {T : Type} `{Num T}.
  Local Open Scope num_scope.
  Variable d : dims.
  Variables (A B : list (list T)) (fa fb w ref w4 wN refN wN4 : list T).
  Variables (Cx : list (list T)) (cq : list T) (CN : list (list T)) (cNq : list T).
  Variables (Dlb Dub DNlb DNub : list (option T)).
  Variables (x0 y μ : list T).

  Notation nx := (dnx d). Notation nu := (dnu d). Notation nc := (dnc d). Notation ncN := (dncN d). Notation NN := (dN d).
  Definition at_ (v : list T) (i : nat) : T := nth i v n0.
  Definition row (M : list (list T)) (i : nat) : list T := nth i M [].
  Definition quarter : T := n1 / nofZ 4.
  Definition tau (t : nat) : T := n1 + nofZ (Z.of_nat t) / nofZ 4.
  Definition lin (r x : list T) (s : T) : T := fold_left (fun s ax => s + fst ax * snd ax) (combine r x) s.
  Fixpoint addat (j : nat) (a : T) (v : list T) : list T :=
    match v, j with
    | [], _ => []
    | b :: v', O => (b + a) :: v'
    | b :: v', S j' => b :: addat j' a v'
    end.

  (* eval_f *)
  Definition s_f (t : nat) (x u : list T) : list T :=
    map (fun i => let s := lin (row B i) u (lin (row A i) x n0) in
                  let s := s + tau t * at_ fa i * at_ x i * at_ u (i mod nu) in
                  s + at_ fb i * at_ x (S i mod nx) * at_ x (S i mod nx)) (seq 0 nx).
  (* eval_jac_f: [A B] with the nonlinear terms added entry by entry *)
  Definition s_jacA (t : nat) (x u : list T) : list (list T) :=
    map (fun i => addat (S i mod nx) (n2 * at_ fb i * at_ x (S i mod nx)) (addat i (tau t * at_ fa i * at_ u (i mod nu)) (row A i))) (seq 0 nx).
  Definition s_jacB (t : nat) (x u : list T) : list (list T) :=
    map (fun i => addat (i mod nu) (tau t * at_ fa i * at_ x i) (row B i)) (seq 0 nx).
  (* eval_l / eval_l_N / eval_qr / eval_q_N *)
  Definition cost_term (wk rk w4k z : T) : T := nhalf1 * wk * (z - rk) * (z - rk) + quarter * w4k * z * z * z * z.
  Definition s_l (t : nat) (z : list T) : T :=
    tau t * fold_left (fun s k => s + cost_term (at_ w k) (at_ ref k) (at_ w4 k) (at_ z k)) (seq 0 (nx + nu)) n0.
  Definition s_lN (x : list T) : T :=
    fold_left (fun s k => s + cost_term (at_ wN k) (at_ refN k) (at_ wN4 k) (at_ x k)) (seq 0 nx) n0.
  Definition s_qr (t : nat) (z : list T) : list T :=
    map (fun k => tau t * (at_ w k * (at_ z k - at_ ref k) + at_ w4 k * at_ z k * at_ z k * at_ z k)) (seq 0 (nx + nu)).
  Definition s_qN (x : list T) : list T :=
    map (fun k => at_ wN k * (at_ x k - at_ refN k) + at_ wN4 k * at_ x k * at_ x k * at_ x k) (seq 0 nx).
  (* eval_constr(_N) and their Jacobians *)
  Definition s_c (t : nat) (x : list T) : list T :=
    map (fun k => lin (row Cx k) x n0 + tau t * at_ cq k * at_ x (k mod nx) * at_ x (k mod nx)) (seq 0 nc).
  Definition s_cN (x : list T) : list T :=
    map (fun k => lin (row CN k) x n0 + at_ cNq k * at_ x (k mod nx) * at_ x (k mod nx)) (seq 0 ncN).
  Definition s_jc (t : nat) (x : list T) : list (list T) :=
    map (fun k => addat (k mod nx) (n2 * tau t * at_ cq k * at_ x (k mod nx)) (row Cx k)) (seq 0 nc).
  Definition s_jcN (x : list T) : list (list T) :=
    map (fun k => addat (k mod nx) (n2 * at_ cNq k * at_ x (k mod nx)) (row CN k)) (seq 0 ncN).

  (* stages of a flat input vector *)
  Definition stage (t : nat) (u : list T) : list T := seg (t * nu) nu u.
  Definition stages (u : list T) : list (list T) := map (fun t => stage t u) (seq 0 NN).

  (* OCPEvaluator::forward with the code's accumulation order: V += l; V += ½ dist² *)
  Fixpoint fwd_from (t : nat) (x : list T) (us : list (list T)) (V : T) : list T * T :=
    match us with
    | [] =>
        let V1 := V + s_lN x in
        if Nat.ltb 0 ncN then
          let ck := s_cN x in
          (x ++ ck, V1 + penalty DNlb DNub ck (seg (NN * nc) ncN y) (seg (NN * nc) ncN μ))
        else (x, V1)
    | u :: us' =>
        let V1 := V + s_l t (x ++ u) in
        let ck := if Nat.ltb 0 nc then s_c t x else [] in
        let V2 := if Nat.ltb 0 nc then V1 + penalty Dlb Dub ck (seg (t * nc) nc y) (seg (t * nc) nc μ) else V1 in
        let '(rest, V') := fwd_from (S t) (s_f t x u) us' V2 in
        (x ++ u ++ ck ++ rest, V')
    end.
  Definition o_fwd (u : list T) : T * list T := let r := fwd_from 0 x0 (stages u) n0 in (snd r, fst r).
  Definition o_sim (u : list T) : list T := snd (o_fwd u).
  (* the same through Ocp.forward (stage terms added first) — cross-check only *)
  Definition o_fwd_ocp (u : list T) : list T * T :=
    forward s_f (fun _ _ _ => []) (fun _ => []) s_l s_lN s_c s_cN d Dlb Dub DNlb DNub x0 (stages u) y μ.

  (* OCPEvaluator::backward = Ocp.backward on the stored trajectory: the C13∘C12 instance PanocOcpE2E.e_bwd / e_cvals applied to the
     family's functions (nh = 0: the output of a stage is xu itself) *)
  Definition QRt := (list (list T) * list T)%type.
  Definition o_bwd (u sto : list T) : list T * QRt :=
    e_bwd s_jacA s_jacB (fun t z _ => s_qr t z) (fun x _ => s_qN x) s_jc s_jcN d Dlb Dub DNlb DNub y μ u sto.
  Definition o_cvals (sto : list T) : list T := e_cvals d sto.

  (* ---- Gauss-Newton block: J.update, eval_jac_f, lqr.factor_masked, lqr.solve_masked *)
  (* Eigen LDLT / PartialPivLU solve of the reduced Hessian R̄: lsolve for the vector right-hand side t (ei = R̄LU.solve(ti)), lsolveK for
     the matrix right-hand side S̄ (gain_Ki = R̄LU.solve(S̄)) — Eigen's triangular solver for matrices multiplies by the RECIPROCAL of the
     diagonal entries of U where the one for vectors divides; with LDLT (unit triangular factors, D⁻¹ by division) both coincide *)
  Variables lsolve lsolveK : list (list T) -> list T -> list T.
  Variable same_solve : bool.                               (* lsolveK = lsolve (Cholesky option) *)
  Definition three : T := nofZ 3.
  (* hess_l(t, xu, k) = τ_t (w_k + 3 w4_k xu_k²) *)
  Definition s_hess (t : nat) (z : list T) (k : nat) : T := tau t * (at_ w k + three * at_ w4 k * at_ z k * at_ z k).
  Definition s_hessN (x : list T) (k : nat) : T := at_ wN k + three * at_ wN4 k * at_ x k * at_ x k.
  Definition diagm (n : nat) (f : nat -> T) : list (list T) :=
    map (fun i => map (fun j => if Nat.eqb i j then f i else n0) (seq 0 n)) (seq 0 n).
  Definition zerom (r c : nat) : list (list T) := repeat (repeat n0 c) r.
  (* OCPEvaluator::Qk: work_c(i) = μ_i * (ζ_i < D.lb_i || ζ_i > D.ub_i), ζ = c + μ⁻¹ y *)
  Definition outside (l u : option T) (z : T) : bool :=
    (match l with Some b => z <? b | None => false end) || (match u with Some b => b <? z | None => false end).
  Definition gn_weights (lb ub : list (option T)) (ck yk μk : list T) : list T :=
    map5 (fun l u ci yi mi => mi * (if outside l u (ci + yi / mi) then n1 else n0)) lb ub ck yk μk.
  (* eval_add_gn_hess_constr: Jᵀ diag(M) J, entry (i, j) = Σ_k (J_ki M_k) J_kj *)
  Definition gn_hess (Jc : list (list T)) (M : list T) (n : nat) : list (list T) :=
    map (fun i => map (fun j => match combine Jc M with
                                | [] => n0
                                | (r0, m0) :: rest => fold_left (fun s rm => s + (at_ (fst rm) i * snd rm) * at_ (fst rm) j) rest ((at_ r0 i * m0) * at_ r0 j)
                                end) (seq 0 n)) (seq 0 n).
  Definition o_QN (sto : list T) : list (list T) :=
    let xN := seg (off_x d NN) nx sto in
    let DN := diagm nx (s_hessN xN) in
    if Nat.ltb 0 ncN
    then madd DN (gn_hess (s_jcN xN) (gn_weights DNlb DNub (seg (off_c d NN) ncN sto) (seg (NN * nc) ncN y) (seg (NN * nc) ncN μ)) nx)
    else DN.
  Definition o_gnQ (sto : list T) (t : nat) : list (list T) :=        (* the constraint part JcᵀMJc of Q_t (nc > 0) *)
    gn_hess (s_jc t (seg (off_x d t) nx sto)) (gn_weights Dlb Dub (seg (off_c d t) nc sto) (seg (t * nc) nc y) (seg (t * nc) nc μ)) nx.
  (* stage data with sQ = Qc: the cost part ∇²l of Q_t alone (code-order loop) or the whole Q_t (Ocp.riccati_step) *)
  Definition o_lq_stage (whole : bool) (u sto : list T) (qr : QRt) (mask : list bool) (q0 : list T) (t : nat) : lq_stage T :=
    let xt := seg (off_x d t) nx sto in let ut := stage t u in let z := xt ++ ut in
    let J := build_J (fun i => nth (t * nu + i) mask false) nu in
    let qrt := nth t (fst qr) [] in
    let Dq := diagm nx (s_hess t z) in
    {| sA := s_jacA t xt ut; sB := s_jacB t xt ut;
       sQ := if whole && Nat.ltb 0 nc then madd Dq (o_gnQ sto t) else Dq;
       sS := zerom nu nx; sR := diagm nu (fun i => s_hess t z (nx + i));
       sq := firstn nx qrt; sr := skipn nx qrt; sJ := J; sK := compl J nu; sfix := stage t q0 |}.
  (* factor_masked with the code's order of the two additions in OCPEvaluator::Qk:  P ← ((AᵀPA + S̄ᵀK) + ∇²l) + JcᵀMJc  (None: nc = 0,
     no second addition), and with the two solves of a stage done by the two solvers.  Each stage is Ocp.factor_step (sQ = ∇²l), taken
     once per solver: K and P come from the run with lsolveK, e and s from the run with lsolve (P depends on K only, s on e only).
     With one solver and nc = 0 this IS Ocp.factor_all. *)
  Fixpoint factor_code (sts : list (lq_stage T * option (list (list T)))) (QN : list (list T)) (qN : list T) : list (gain T) * list (list T) * list T :=
    match sts with
    | [] => ([], QN, qN)
    | (st, G) :: sts' =>
        let '(gs, P, s) := factor_code sts' QN qN in
        let oK := factor_step lsolveK nx st P s in
        let oE := factor_step lsolve nx st P s in
        ({| gKT := oKT oK; ge := oe oE |} :: gs, match G with Some g => madd (oP oK) g | None => oP oK end, os oE)
    end.
  (* the Gauss-Newton step: the fixed (active) components keep the values they have in q0, the free ones get the Riccati step.
     Cholesky option and nc = 0: Ocp.riccati_step (= factor_masked + solve_masked) verbatim;  otherwise factor_code + Ocp.solve_masked *)
  Definition o_gn (j : nat) (u sto : list T) (qr : QRt) (mask : list bool) (q0 : list T) : list T :=
    if same_solve && negb (Nat.ltb 0 nc)
    then concat (riccati_step lsolve nx (map (o_lq_stage true u sto qr mask q0) (seq 0 NN)) (o_QN sto) (snd qr))
    else
      let sts := map (o_lq_stage false u sto qr mask q0) (seq 0 NN) in
      let Gs := map (fun t => if Nat.ltb 0 nc then Some (o_gnQ sto t) else None) (seq 0 NN) in
      concat (solve_masked nx sts (fst (fst (factor_code (combine sts Gs) (o_QN sto) (snd qr))))).
  (* the same step through Ocp.riccati_step with the whole Q_t as one matrix (cross-check: last-bit differences only) *)
  Definition o_gn_ocp (u sto : list T) (qr : QRt) (mask : list bool) (q0 : list T) : list T :=
    concat (riccati_step lsolve nx (map (o_lq_stage true u sto qr mask q0) (seq 0 NN)) (o_QN sto) (snd qr)).
End Family.

Local Open Scope float_scope.

(* std::pow is only reached with the CBFGS check enabled (ϵ > 0), which the solver's default L-BFGS parameters never do *)
Definition fpow0 (x e : float) : float := nan.
Definition lbfgs_P (mem : nat) : Lbfgs.params float :=
  {| p_memory := mem; p_min_div_fac := 0x1p-52; p_min_abs_s := 0x1p-104; p_cbfgs_α := 1; p_cbfgs_ϵ := 0;
     p_force_pos_def := true; p_curvature := true |}.
Definition lb_state0 (mem n : nat) : Lbfgs.state float :=
  match resize (lbfgs_P mem) n with Some s => s | None => {| st_n := n; st_idx := 0; st_full := false; st_slots := [] |} end.

(* Eigen::LDLT<rmat>{R̄} (lower triangle, diagonal pivoting: largest |diagonal entry| first, ties keep the first) followed by solve():
   P b, unit-lower solve, D⁻¹ (pseudo-inverse: |d| <= DBL_MIN gives 0), transposed solve, Pᵀ.  Operation by operation for the sizes
   the family produces (nu <= 2); larger systems fall back to Gaussian elimination. *)
Definition dbl_min : float := 0x1p-1022.
Definition dinv (dd v : float) : float := if abs dd <=? dbl_min then 0 else v / dd.
Definition ldlt_solve (M : list (list float)) (b : list float) : list float :=
  match M, b with
  | [], _ => []
  | [r1], [b1] => [dinv (nth 0 r1 0) b1]
  | [r1; r2], [b1; b2] =>
      let a0 := nth 0 r1 0 in let c := nth 0 r2 0 in let d0 := nth 1 r2 0 in
      let sw := abs a0 <? abs d0 in
      let a := if sw then d0 else a0 in let dd := if sw then a0 else d0 in
      let y1 := if sw then b2 else b1 in let y2 := if sw then b1 else b2 in
      if 0 <? abs a then
        let l := c / a in
        let d2 := dd - l * (a * l) in
        let y2' := y2 - y1 * l in
        let z1 := dinv a y1 in let z2 := dinv d2 y2' in
        let x1 := z1 - l * z2 in
        if sw then [z2; x1] else [x1; z2]
      else (* the whole diagonal is zero: nothing is factored, D = 0 *)
        [0; 0]
  | _, _ => Corr_C12.gsolve M b
  end.
(* PartialPivLU::solve with a MATRIX right-hand side: Gaussian elimination with partial pivoting (Corr_C12.gauss) whose back-substitution
   multiplies by 1/u_ii (Eigen's triangular_solve_matrix) instead of dividing by u_ii (triangular_solve_vector = Corr_C12.gsolve) *)
Fixpoint gauss_r (fuel : nat) (rows : list (list float)) : list float :=
  match fuel, rows with
  | S fuel', r0 :: rows' =>
      let '(p, others) := Corr_C12.pick_pivot r0 rows' [] in
      match p with
      | a :: pr =>
          let elim := map (fun r => match r with
                                    | ai :: ri => let m := ai / a in map2 (fun x y => x - m * y) ri pr
                                    | [] => [] end) others in
          let xs := gauss_r fuel' elim in
          let n := length xs in
          let bp := nth n pr 0 in
          let s := fold_left (fun acc xy => acc + fst xy * snd xy) (combine (firstn n pr) xs) 0 in
          ((bp - s) * (1 / a)) :: xs
      | [] => []
      end
  | _, _ => []
  end.
Definition gsolve_r (M : list (list float)) (b : list float) : list float :=
  gauss_r (length M) (map2 (fun r bi => r ++ [bi]) M b).

(* ---------------------------------------------------------------- cases *)
Record xrec := mkX { x_k : nat; x_status : status; x_xu : list float; x_xhu : list float; x_p : list float; x_nsqp : float;
                     x_phi : float; x_psi : float; x_grad : list float; x_psih : float; x_q : list float; x_gn : bool; x_nJ : Z;
                     x_L : float; x_gamma : float; x_tau : float; x_eps : float }.

Inductive ocase :=
| OCase (d : dims) (A B : list (list float)) (fa fb w ref w4 wN refN wN4 : list float)
        (Cx : list (list float)) (cq : list float) (CN : list (list float)) (cNq : list float)
        (Dlb Dub DNlb DNub Ulb Uub x0 u0 y0 mu : list float)
        (prm : PanocOcpLoop.params (T:=float)) (chol : bool) (mem : nat) (stop_eval stop_cb : Z) (time0 : bool) (fuel lsfuel : nat)
        (* what the implementation did *)
        (threw : nat)           (* 0: returned; 1: std::invalid_argument; 2: std::logic_error *)
        (status : status) (iterations : nat) (eps : float) (u_out y_out errz : list float)
        (ist : list nat)        (* stepsize_backtracks linesearch_backtracks linesearch_failures lbfgs_failures lbfgs_rejected tau_1_accepted count_tau *)
        (fst_ : list float)     (* sum_tau final_gamma final_psi final_phi *)
        (events cbs : nat) (recs : list xrec).

Definition after (limit : Z) (count : nat) : bool := (0 <=? limit)%Z && (limit <? Z.of_nat count)%Z.
Definition events_of (c : counters) : nat := (c_fwd c + c_sim c + c_bwd c)%nat.
Definition obs (l : list float) := map lb_of_float l.
Definition oubs (l : list float) := map ub_of_float l.
Definition tileN {A} (n : nat) (l : list A) : list A := concat (repeat l n).

Definition Xf := list float.
Definition run_case (cs : ocase) : result (T:=float) Xf :=
  match cs with
  | OCase d A B fa fb w ref w4 wN refN wN4 Cx cq CN cNq Dlb Dub DNlb DNub Ulb Uub x0 u0 y0 mu prm chol mem se sc time0 fuel lsfuel
          _ _ _ _ _ _ _ _ _ _ _ recs =>
      let n := (dN d * dnu d)%nat in
      let P9 := lbfgs_P mem in
      let en := negb (Nat.eqb (p_gn_interval prm) 1) in
      panoc_ocp Xf (QRt (T:=float)) (Lbfgs.state float)
        (o_fwd d A B fa fb w ref w4 wN refN wN4 Cx cq CN cNq (obs Dlb) (oubs Dub) (obs DNlb) (oubs DNub) x0 y0 mu)
        (o_sim d A B fa fb w ref w4 wN refN wN4 Cx cq CN cNq (obs Dlb) (oubs Dub) (obs DNlb) (oubs DNub) x0 y0 mu)
        (o_bwd d A B fa fb w ref w4 wN refN wN4 Cx cq CN cNq (obs Dlb) (oubs Dub) (obs DNlb) (oubs DNub) y0 mu)
        (o_cvals d)
        (o_gn d A B fa fb w w4 wN wN4 Cx cq CN cNq (obs Dlb) (oubs Dub) (obs DNlb) (oubs DNub) y0 mu
              (if chol then ldlt_solve else Corr_C12.gsolve) (if chol then ldlt_solve else gsolve_r) chol)
        (fun ds q γ J => match apply_masked fpow0 P9 ds q γ J with
                         | (MRet b, q', ds') => (b, q', ds')
                         | (MThrow, q', ds') => (false, q', ds')
                         end)
        (fun ds xk xn pk pn => update fpow0 P9 ds xk xn pk pn true true)
        (fun ds => reset ds)
        (dN d) (dnu d) (obs Ulb) (oubs Uub)
        (tileN (dN d) (obs Dlb) ++ obs DNlb) (tileN (dN d) (oubs Dub) ++ oubs DNub)
        (fun c => after se (events_of c) || after sc (c_cb c))
        (fun _ => time0)
        prm u0 y0 mu (repeat nan (length y0))
        [] (lb_state0 mem (if en then n else 0))
        lsfuel fuel
  end.

Definition rec_of (r : cbrec (T:=float) Xf) : xrec :=
  let i := r_it r in
  mkX (r_k r) (r_status r) (ix i) (ixh i) (ip i) (ipp i) (it_fbe i) (ipsi i) (igrad i) (ipsih i) (r_q r) (r_gn r) (r_nJ r)
      (iL i) (igam i) (r_tau r) (r_eps r).

(* ε of a NaN iterate: std::fmax / std::fmin (the code's projected step) drop a NaN operand where the model's cmax / cmin propagate it
   (PanocOcpLoop.v, conventions), so the implementation may report inf where the model reports NaN: non-finite ε values are not told apart *)
Definition feq_eps (a b : float) : bool := feq a b || (negb (f_finite a) && negb (f_finite b)).
Definition busy (s : status) : bool := match s with StBusy => true | _ => false end.
Definition rec_agree (a b : xrec) : bool :=
  (* the record of an exit with NotFinite holds a NaN iterate: its projected step goes through std::fmax / std::fmin, which drop NaN
     operands (see feq_eps): only the discrete fields and the inputs are compared *)
  if status_eqb (x_status a) StNotFinite && status_eqb (x_status b) StNotFinite
  then Nat.eqb (x_k a) (x_k b) && vfeq (x_xu a) (x_xu b) && Bool.eqb (x_gn a) (x_gn b) && Z.eqb (x_nJ a) (x_nJ b) && feq (x_gamma a) (x_gamma b) && feq (x_L a) (x_L b)
  else
  Nat.eqb (x_k a) (x_k b) && status_eqb (x_status a) (x_status b) && vfeq (x_xu a) (x_xu b) && vfeq (x_xhu a) (x_xhu b) &&
  vfeq (x_p a) (x_p b) && feq (x_nsqp a) (x_nsqp b) && feq (x_phi a) (x_phi b) && feq (x_psi a) (x_psi b) &&
  vfeq (x_grad a) (x_grad b) && feq (x_psih a) (x_psih b) && Bool.eqb (x_gn a) (x_gn b) && Z.eqb (x_nJ a) (x_nJ b) &&
  feq (x_L a) (x_L b) && feq (x_gamma a) (x_gamma b) && feq_eps (x_eps a) (x_eps b) &&
  (* τ is reported as NaN with the final record; q is uninitialised memory until the first direction was computed *)
  (if busy (x_status a) then feq (x_tau a) (x_tau b) && (match x_q a with [] => true | _ => vfeq (x_q a) (x_q b) end) else true).

Definition ist_of (o : outputs (T:=float) Xf) : list nat :=
  let s := out_stats o in [s_stepsize_bt s; s_ls_bt s; s_ls_fail s; s_lbfgs_fail s; s_lbfgs_rej s; s_tau1 s; s_count_tau s].
Definition fst_of (o : outputs (T:=float) Xf) : list float :=
  let f := out_final o in [s_sum_tau (out_stats o); igam f; ipsih f; it_fbe f].

(* err_z cancels (ζ − Πζ − y/μ): absolute tolerance 2^-30 (1 + |y/μ| + |e|) per row; y with the same tolerance scaled by μ *)
Definition errz_close (y0 mu e_model e_impl y_model y_impl : list float) : bool :=
  let te := map3 (fun yi mi ei => 0x1p-30 * (1 + abs (yi / mi) + abs ei)) y0 mu e_impl in
  let ty := map2 (fun t mi => t * (1 + mi)) te mu in
  vabs_close te e_model e_impl && vabs_close ty y_model y_impl.

Definition chkocp (cs : ocase) : bool :=
  match cs with
  | OCase d A B fa fb w ref w4 wN refN wN4 Cx cq CN cNq Dlb Dub DNlb DNub Ulb Uub x0 u0 y0 mu prm chol mem se sc time0 fuel lsfuel
          threw status iterations eps u_out y_out errz ist fst_ events cbs recs =>
      (* Ocp.forward (C12's model) agrees with the instance's forward pass at the initial inputs *)
      let f1 := o_fwd d A B fa fb w ref w4 wN refN wN4 Cx cq CN cNq (obs Dlb) (oubs Dub) (obs DNlb) (oubs DNub) x0 y0 mu u0 in
      let f2 := o_fwd_ocp d A B fa fb w ref w4 wN refN wN4 Cx cq CN cNq (obs Dlb) (oubs Dub) (obs DNlb) (oubs DNub) x0 y0 mu u0 in
      (if f_finite (fst f1) then feq (fst f1) (snd f2) && vfeq (snd f1) (fst f2) else true) &&
      match run_case cs with
      | Done o =>
          Nat.eqb threw 0 &&
          status_eqb (out_status o) status && Nat.eqb (out_iterations o) iterations && feq_eps (out_eps o) eps &&
          vfeq (out_u o) u_out &&
          (if overwrites (out_status o) (o_always prm)
           then errz_close y0 mu (out_errz o) errz (out_y o) y_out
           else vfexact (out_y o) y_out && vfexact (out_errz o) errz) &&
          list_agree Nat.eqb (ist_of o) ist && vfeq (fst_of o) fst_ &&
          Nat.eqb (events_of (out_cnt o)) events && Nat.eqb (c_cb (out_cnt o)) cbs &&
          list_agree rec_agree (map rec_of (out_log o)) recs
      | NotFiniteL _ =>
          (* Stats{} with status NotFinite; nothing written, no callback *)
          Nat.eqb threw 0 && status_eqb StNotFinite status && Nat.eqb 0 iterations &&
          vfexact u0 u_out && vfexact y0 y_out && Nat.eqb 0 cbs && match recs with [] => true | _ => false end
      | ThrewCrit => Nat.eqb threw 1
      | ThrewLogic => Nat.eqb threw 2
      | OutOfFuel => false
      end
  end.

(* printable summary of the model run (dump of the first disagreeing case) *)
Definition modelocp (cs : ocase) :=
  match run_case cs with
  | Done o => (Some (out_status o, out_iterations o, out_eps o, (out_u o, out_y o, out_errz o), (ist_of o, fst_of o)),
               (events_of (out_cnt o), c_cb (out_cnt o), c_polls (out_cnt o)), map rec_of (out_log o))
  | NotFiniteL L => (None, (0, 0, 0)%nat, [mkX 0 StNotFinite [] [] [] L 0 0 [] 0 [] false 0%Z L 0 0 0])
  | ThrewCrit => (None, (1, 0, 0)%nat, [])
  | ThrewLogic => (None, (2, 0, 0)%nat, [])
  | OutOfFuel => (None, (9, 9, 9)%nat, [])
  end.
