(* Properties_C19.v — C19 (partial): stop() interrupts any solver promptly, leaving valid results.
   PROVED NOW
   (1) on the GENERATED status chain a pending stop request never yields Busy; the loop skeleton returns at the first check that sees
       the request; ALM returns at once after an Interrupted inner solve; the exit block treats Interrupted like Converged.
   (2) PROMPTNESS ON THE WHOLE-LOOP MODELS (Panoc.v, ZeroFpr.v, Pantr.v, FistaLoop.v — the models tied to the code by whole-run
       correspondence), for a STICKY request (sticky stop_req: once visible, visible for all later event counters), for every number
       system (R and binary64), every problem / direction / clock oracle, every parameter set, counting oracle calls as the models do
       (eval_ψ_grad_ψ, eval_ψ, eval_grad_L, eval_grad_ψ = 1 each):
         PANOC    a line-search pass costs <= 2 oracle calls + 1 prox step; a line-search test that sees the request returns
                  LsStopped with no further work; FROM ANY POLL THAT SEES THE REQUEST the run returns after <= 1 further poll,
                  <= 2 oracle calls (∇ψ(x̂) for the criterion, eval_ψ of the exit block in eager mode), no direction call, no
                  iterate update, k unchanged, status Interrupted or a higher-ranked one; between two consecutive polls: <= 3 oracle
                  calls; FROM THE REQUEST TO THE RETURN (the poll after pp sees it): <= 3 polls, 5 oracle calls, 2 direction calls,
                  2 callbacks after pp; stop() inside a direction call (k >= 1): no further direction call.
                  Independent of max_iter, fuel, the direction.
         ZeroFPR  the same with <= 1 oracle call after the poll (eval_grad_L of the next stop check); request to return <= 4.
         PANTR    one poll per iteration: a poll that sees the request returns with NO further oracle call; the iteration in
                  progress completes first: <= 5 oracle calls + the halvings of its unpolled backtrack_qub loops.
         FISTA    one poll per iteration: <= 1 oracle call after the poll (late eval_ψ in fixed-step mode); the pass in progress
                  completes first: <= 4 oracle calls + the halvings of its unpolled backtracking loop.
         start-up a request visible before the solve starts: start-up + ONE stop check, no direction call, no iteration:
                  <= 5 (PANOC) / 4 (ZeroFPR, PANTR) / 6 (FISTA) oracle calls + the halvings of the unpolled initial step-size loop.
   (3) VALIDITY: an Interrupted run of each of the four models returns outputs satisfying the exit relations of C03
       (x = x̂ of a consistent iterate, y = ŷ(x), err_z = (ŷ - y)/Σ).
   (4) UNDER ALM (AlmCompose / AlmPanoc, AlmZeroFpr, AlmPantr, AlmFista; cumulative counters; ALMSolver::stop() sets ALM's own flag and
       the inner solver's, so one sticky oracle serves both; the outer loop reads its flag once per outer iteration, after the inner
       solve: Alm.ir_stop):  NO INNER SOLVE IS STARTED AFTER THE REQUEST.  C19_alm_{panoc,zerofpr,pantr,fista}_stop_ends_run: the outer
       iteration at the end of whose inner solve the request is visible is the LAST one of the run (run_ends_at: post = [],
       outer_iterations = its index + 1, status Interrupted if the inner solve said so, else Converged > MaxTime > MaxIter >
       Interrupted); the request is visible there whenever a poll of that inner solve saw it — the solve then returns by (2) — or it
       was already visible when the solve started — the solve is then start-up + one stop check.  So the evaluations after the request
       are those of ONE inner solve's tail.
   FORMER FINDING (known_findings C19:alm-runs-on-after-stop-request, repaired in /repo): ALMSolver::stop() only forwarded to the inner
       solver and the outer loop looked at no flag; while the inner solves ended at their first check with a status ranked above
       Interrupted (Converged because the warm start already meets the inner tolerance) the outer loop ran on.  Counter-run: min -x,
       x in [0,1], x <= 1/2, x0 = 1, Σ0 = 0.01, stop() in evaluation #0: four inner solves followed (C19_alm_one_further_solve_refuted
       in the history of this file); the same run now: one inner solve, Interrupted (C19_alm_stop_ends_run_nonvacuous).
   NOT EXPRESSIBLE in these models (stated, not claimed): true asynchrony (the request is a function of the event counters, i.e. it
   becomes visible between two modelled events, not in the middle of a user function) and the absence of a data race on the
   atomic stop flag (relaxed load / seq_cst store).
   ALSO PROVED: PANOC-OCP (module C19_OCP: a line-search pass <= 3 oracle calls; after a poll that sees the request <= 1 further poll and
   NO oracle call, no Gauss-Newton / L-BFGS call, curr untouched).
   Validity of Interrupted PANOC-OCP outputs: Properties_PANOCOCP.PANOCOCP_exit holds for every completed run (not repeated here). *)
From Coq Require Import Reals List ZArith Bool Arith.
From Alpaqa Require Import Num NumR Vec Prox SolverStatus SolverKernels StopChain StopChainProofs LoopSkeleton SolverKernelsProofs Alm AlmProofs.
From Alpaqa Require Import Panoc ZeroFpr Pantr FistaLoop AlmCompose AlmComposeProofs AlmPanoc AugLag.
From Alpaqa Require Import StopPrompt StopPromptGap StopPromptZfpr StopPromptGapZ StopPromptPantr StopPromptFista StopPromptAlm StopPromptValid StopPromptEx.
From Alpaqa Require PanocProofs ZeroFprProofs PantrProofs FistaLoopProofs.
Import ListNotations.

Section C19.
  Context {T : Type} `{Num T}.

  Theorem C19_stop_request_never_busy : forall opts_tol eps te it mi np mnp,
    stop_status_helpers opts_tol eps te it mi np mnp true <> StBusy.
  Proof. exact stop_request_never_busy. Qed.

  Theorem C19_loop_returns_at_first_check_after_request :
    forall opts_tol max_iter max_no_progress eps_at te_at sr_at same_at fuel k np,
    sr_at k = true ->
    exists st, run opts_tol max_iter max_no_progress eps_at te_at sr_at same_at fuel k np = Some (k, st)
               /\ st <> StBusy
               /\ (st = StInterrupted \/ st = StConverged \/ st = StMaxTime \/ st = StMaxIter \/ st = StNotFinite \/ st = StNoProgress).
  Proof. exact run_stops_at_request. Qed.

  Theorem C19_interrupted_only_after_request :
    forall opts_tol max_iter max_no_progress eps_at te_at sr_at same_at fuel k np r,
    run opts_tol max_iter max_no_progress eps_at te_at sr_at same_at fuel k np = Some (r, StInterrupted) -> sr_at r = true.
  Proof. exact run_interrupted_only_after_request. Qed.

  (* PANOC-OCP's copy of the chain behaves identically *)
  Theorem C19_ocp_chain_same : forall opts_tol eps te it mi np mnp sr,
    stop_status_ocp opts_tol eps te it mi np mnp sr = stop_status_helpers opts_tol eps te it mi np mnp sr.
  Proof. exact ocp_chain_same. Qed.
End C19.
Print Assumptions C19_stop_request_never_busy.
Print Assumptions C19_loop_returns_at_first_check_after_request.
Print Assumptions C19_interrupted_only_after_request.

(* Interrupted exits overwrite the outputs like Converged does (so the C03 relations hold for them) *)
Theorem C19_interrupted_overwrites : forall always, overwrites StInterrupted always = true.
Proof. intros; reflexivity. Qed.

(* ALM (outer-loop model, every history of inner outcomes): an Interrupted inner solve is the last one, and so is an inner solve after
   which ALM's own stop flag is read as set (ir_stop) — no further inner call; the run returns Interrupted exactly when the last inner
   solve was interrupted, or the flag was set after it and none of Converged / MaxTime / MaxIter applies *)
Theorem C19_alm_stops_after_interrupted : forall (P : alm_params (T:=R)) pb f0 g0 nanv Σ0 y0 script,
  Alm.p_max_iter P <> 0%nat -> pb_m pb <> 0%nat ->
  f_exhausted (snd (alm_run P pb f0 g0 nanv Σ0 y0 script)) = false ->
  exists (pre : list iter_rec) (r : iter_rec), fst (alm_run P pb f0 g0 nanv Σ0 y0 script) = pre ++ [r] /\
    Forall (fun a => ir_status (it_res a) <> Interrupted /\ ir_stop (it_res a) = false) pre /\
    (f_status (snd (alm_run P pb f0 g0 nanv Σ0 y0 script)) = Interrupted <->
     ir_status (it_res r) = Interrupted \/
     (ir_stop (it_res r) = true /\ rec_conv P r = false /\ ir_oot (it_res r) = false /\ length (pre ++ [r]) <> Alm.p_max_iter P)).
Proof. exact run_interrupted_immediate. Qed.
Print Assumptions C19_alm_stops_after_interrupted.

(* the outer iteration after whose inner solve ALM's own flag is read as set is the LAST one, whatever that solve returned and whatever
   the history holds after it; status by the ranking Interrupted (inner) / Converged > MaxTime > MaxIter > Interrupted *)
Theorem C19_alm_stop_flag_ends_run : forall (P : alm_params (T:=R)) pb f0 g0 nanv Σ0 y0 script,
  Alm.p_max_iter P <> 0%nat -> pb_m pb <> 0%nat ->
  forall (pre : list iter_rec) (r : iter_rec) (post : list iter_rec),
    fst (alm_run P pb f0 g0 nanv Σ0 y0 script) = pre ++ r :: post -> ir_stop (it_res r) = true ->
    post = [] /\
    let f := snd (alm_run P pb f0 g0 nanv Σ0 y0 script) in
    f_exhausted f = false /\ f_outer f = S (length pre) /\
    f_status f =
      (if is_interrupted (ir_status (it_res r)) then Interrupted
       else if rec_conv P r then Converged else if ir_oot (it_res r) then MaxTime
       else if Nat.eqb (S (length pre)) (Alm.p_max_iter P) then MaxIter else Interrupted) /\
    (f_status f = Converged \/ f_status f = MaxTime \/ f_status f = MaxIter \/ f_status f = Interrupted).
Proof. exact run_stop_request_ends_run. Qed.
Print Assumptions C19_alm_stop_flag_ends_run.

Example C19_nonvacuous :
  stop_status_helpers (T:=R) (1/2)%R 1%R false 4 5 0 10 true = StInterrupted.
Proof.
  unfold stop_status_helpers. numR. rbool; try reflexivity; exfalso; Lra.lra.
Qed.

(* ====================================================================== promptness on the whole-loop models *)
(* what the predicates say, spelled out *)
Theorem C19_sticky_means : forall stop_req, sticky stop_req <->
  (forall c c', (c_polls c <= c_polls c' /\ c_pg c <= c_pg c' /\ c_py c <= c_py c' /\ c_gl c <= c_gl c' /\ c_gpsi c <= c_gpsi c' /\
                 c_dir c <= c_dir c' /\ c_apply c <= c_apply c' /\ c_cb c <= c_cb c')%nat -> stop_req c = true -> stop_req c' = true).
Proof. exact (fun _ => conj (fun H => H) (fun H => H)). Qed.
Theorem C19_adv_means : forall a b p e d ap cb, adv a b p e d ap cb <->
  (cnt_le a b /\ (c_polls b <= c_polls a + p /\ c_pg b + c_py b + c_gl b + c_gpsi b <= c_pg a + c_py a + c_gl a + c_gpsi a + e /\
                  c_dir b <= c_dir a + d /\ c_apply b <= c_apply a + ap /\ c_cb b <= c_cb a + cb)%nat).
Proof. exact (fun _ _ _ _ _ _ _ => conj (fun H => H) (fun H => H)). Qed.

Section C19_PANOC.
  Context {T : Type} `{Num T}.
  Variable psi_grad_full : list T -> T * list T * list T.
  Variable psi_yhat : list T -> T * list T.
  Variable grad_L : list T -> list T -> list T.
  Variable grad_psi : list T -> list T.
  Variables (lb ub : list (option T)) (l1 : list T).
  Variable dir_apply : nat -> iterate (T:=T) -> option (list T).
  Variable has_initial : bool.
  Variable stop_req : counters -> bool.
  Variable time_up : counters -> bool.
  Variable P : params (T:=T).
  Variables (x_in y_in Σ errz_in : list T).
  Variable ls_fuel : nat.
  Notation run := (panoc psi_grad_full psi_yhat grad_L grad_psi lb ub l1 dir_apply has_initial stop_req time_up P x_in y_in Σ errz_in ls_fuel).
  Notation Pass := (Panoc.pass psi_grad_full psi_yhat grad_L grad_psi lb ub l1 dir_apply has_initial stop_req time_up P x_in y_in Σ errz_in ls_fuel).
  Notation Lsloop := (Panoc.ls_loop psi_grad_full psi_yhat grad_L grad_psi lb ub l1 stop_req P).
  Notation Lspass := (ls_pass psi_grad_full psi_yhat grad_L grad_psi lb ub l1 P).
  Notation Polled := (panoc_polled psi_grad_full psi_yhat grad_L grad_psi lb ub l1 dir_apply has_initial stop_req time_up P x_in y_in Σ errz_in ls_fuel).

  (* prompt_after pp o: the run that returned o, seen from the poll pp *)
  Theorem C19_prompt_after_means : forall (pp : pollpt (T:=T)) (o : outputs (T:=T)), prompt_after P pp o <->
    (out_status o <> StBusy /\ exit_statuses (out_status o) /\
     adv (pp_cnt pp) (out_cnt o) 2 2 0 0 1 /\
     c_dir (out_cnt o) = c_dir (pp_cnt pp) /\ c_apply (out_cnt o) = c_apply (pp_cnt pp) /\
     out_iterations o = pp_k pp /\ same_point (pp_curr pp) (out_final o) /\
     (overwrites (out_status o) (o_always P) = true -> out_x o = ixh (pp_curr pp))).
  Proof. exact (fun _ _ => conj (fun H => H) (fun H => H)). Qed.

  (* (a) one pass of `while (!stop_requested())`: one poll, <= 2 oracle calls (+ one prox step), <= 1 direction call, no callback *)
  Theorem C19_panoc_linesearch_pass_bound : forall q τi (s : Panoc.ls_state (T:=T)),
    adv (Panoc.ls_cnt s) (Panoc.ls_cnt (ls_res_state (Lspass q τi s))) 1 2 1 0 0 /\
    c_polls (Panoc.ls_cnt (ls_res_state (Lspass q τi s))) = S (c_polls (Panoc.ls_cnt s)).
  Proof. exact (ls_pass_adv psi_grad_full psi_yhat grad_L grad_psi lb ub l1 P). Qed.
  (* the loop IS: test the flag, run one pass, repeat *)
  Theorem C19_panoc_linesearch_is_test_then_pass : forall fuel q τi (s : Panoc.ls_state (T:=T)),
    Lsloop (S fuel) q τi s = if stop_req (Panoc.ls_cnt s) then Panoc.LsStopped (ls_stopped_at s)
                             else match Lspass q τi s with inl s1 => Lsloop fuel q τi s1 | inr s2 => Panoc.LsDone s2 end.
  Proof. exact (ls_loop_unfold psi_grad_full psi_yhat grad_L grad_psi lb ub l1 stop_req P). Qed.
  (* (a) a test that sees the request: LsStopped, the state untouched, nothing evaluated *)
  Theorem C19_panoc_linesearch_stops_at_next_test : forall fuel q τi (s : Panoc.ls_state (T:=T)), stop_req (Panoc.ls_cnt s) = true ->
    Lsloop (S fuel) q τi s = Panoc.LsStopped (ls_stopped_at s).
  Proof. exact (ls_stops_now psi_grad_full psi_yhat grad_L grad_psi lb ub l1 stop_req P). Qed.
  (* work between polls when nothing is seen: check -> first line-search test: no oracle call; last line-search pass -> top of the
     next pass: no oracle call; top of a pass -> its check: <= 1 (∇ψ(x̂) for the criterion) *)
  Theorem C19_panoc_between_polls : forall (s : lstate (T:=T)) q τi (l : Panoc.ls_state (T:=T)),
    adv (top_cnt P s) (Panoc.ls_cnt (snd (pass_setup grad_L grad_psi dir_apply has_initial P s))) 1 0 2 1 0 /\
    adv (Panoc.ls_cnt l) (st_cnt (pass_finish grad_L grad_psi lb ub l1 P s q τi l)) 0 0 1 0 1 /\
    adv (st_cnt s) (top_cnt P s) 0 1 0 0 0.
  Proof. exact (fun s q τi l => conj (setup_adv grad_L grad_psi dir_apply has_initial P s)
                                (conj (finish_adv grad_L grad_psi lb ub l1 P s q τi l) (top_adv P s))). Qed.
  (* (b) the loop-top check that sees the request leaves the loop; Interrupted unless a higher-ranked condition holds *)
  Theorem C19_panoc_check_exits_at_request : forall s : lstate (T:=T), stop_req (top_cnt P s) = true ->
    Pass s = Panoc.PExit (pass_exit psi_yhat grad_L grad_psi lb ub l1 P x_in y_in Σ errz_in s
                              (top_status grad_L grad_psi lb ub l1 stop_req time_up P s)) /\
    top_status grad_L grad_psi lb ub l1 stop_req time_up P s <> StBusy /\
    exit_statuses (top_status grad_L grad_psi lb ub l1 stop_req time_up P s) /\
    (top_status grad_L grad_psi lb ub l1 stop_req time_up P s = StInterrupted <->
       (nleb (it_eps lb ub l1 P (top_curr grad_L grad_psi P s)) (eff_tol (o_tol P)) = false /\ time_up (top_cnt P s) = false /\
        st_k s <> Panoc.p_max_iter P /\ nfinite (it_eps lb ub l1 P (top_curr grad_L grad_psi P s)) = true /\
        (st_np s <= p_max_no_progress P)%nat)).
  Proof. exact (pass_exit_at_request psi_grad_full psi_yhat grad_L grad_psi lb ub l1 dir_apply has_initial stop_req time_up P x_in y_in Σ errz_in ls_fuel). Qed.

  (* (b)+(c) MAIN *)
  Theorem C19_panoc_stop_is_prompt : sticky stop_req -> forall fuel o, run fuel = Done o ->
    forall pp, Polled pp -> stop_req (pp_cnt pp) = true -> prompt_after P pp o.
  Proof. exact (panoc_stop_prompt psi_grad_full psi_yhat grad_L grad_psi lb ub l1 dir_apply has_initial stop_req time_up P x_in y_in Σ errz_in ls_fuel). Qed.
  Theorem C19_panoc_stop_before_start : sticky stop_req -> forall fuel o, run fuel = Done o -> stop_req cnt0 = true ->
    out_status o <> StBusy /\ exit_statuses (out_status o) /\
    out_iterations o = 0%nat /\ c_polls (out_cnt o) = 1%nat /\ c_dir (out_cnt o) = 0%nat /\ c_apply (out_cnt o) = 0%nat /\
    c_cb (out_cnt o) = 1%nat /\ (evals (out_cnt o) <= 5 + s_stepsize_bt (out_stats o))%nat.
  Proof. exact (panoc_stop_before_start psi_grad_full psi_yhat grad_L grad_psi lb ub l1 dir_apply has_initial stop_req time_up P x_in y_in Σ errz_in ls_fuel). Qed.
  (* FROM THE REQUEST TO THE RETURN.  pp' is the poll following pp in the run; pp need not have seen the request, pp' sees it:
     everything after pp is <= 3 polls, <= 5 oracle calls, <= 2 direction calls (<= 1 apply), <= 2 callbacks *)
  Notation Poll_next := (panoc_poll_next psi_grad_full psi_yhat grad_L grad_psi lb ub l1 dir_apply has_initial stop_req time_up P x_in y_in Σ errz_in ls_fuel).
  Theorem C19_panoc_request_to_return : sticky stop_req -> forall fuel o, run fuel = Done o ->
    forall pp pp', Poll_next pp pp' -> stop_req (pp_cnt pp') = true ->
    adv (pp_cnt pp) (out_cnt o) 3 5 2 1 2 /\ prompt_after P pp' o.
  Proof. exact (panoc_request_to_return psi_grad_full psi_yhat grad_L grad_psi lb ub l1 dir_apply has_initial stop_req time_up P x_in y_in Σ errz_in ls_fuel). Qed.
  (* consecutive polls of any loop state: one poll, <= 3 oracle calls, <= 2 direction calls, <= 1 callback apart *)
  Theorem C19_panoc_consecutive_polls : forall (s : lstate (T:=T)) pp pp',
    poll_next psi_grad_full psi_yhat grad_L grad_psi lb ub l1 dir_apply has_initial stop_req time_up P x_in y_in Σ errz_in ls_fuel s pp pp' ->
    adv (pp_cnt pp) (pp_cnt pp') 1 3 2 1 1 /\ c_polls (pp_cnt pp') = S (c_polls (pp_cnt pp)).
  Proof. exact (poll_next_gap psi_grad_full psi_yhat grad_L grad_psi lb ub l1 dir_apply has_initial stop_req time_up P x_in y_in Σ errz_in ls_fuel). Qed.
  (* stop() issued INSIDE direction call #d at an iteration k >= 1 (visible as soon as c_dir has passed d): no further direction call *)
  Theorem C19_panoc_stop_inside_direction_call : sticky stop_req -> forall fuel (s : lstate (T:=T)) o d, (forall c, stop_req c = (d <? c_dir c)%nat) ->
    Panoc.loop psi_grad_full psi_yhat grad_L grad_psi lb ub l1 dir_apply has_initial stop_req time_up P x_in y_in Σ errz_in ls_fuel fuel s = Done o ->
    forall pp pp', poll_next psi_grad_full psi_yhat grad_L grad_psi lb ub l1 dir_apply has_initial stop_req time_up P x_in y_in Σ errz_in ls_fuel s pp pp' ->
    stop_req (pp_cnt pp) = false -> stop_req (pp_cnt pp') = true -> pp_k pp <> 0%nat -> c_dir (out_cnt o) = S d.
  Proof. exact (fun Hs fuel s o d => loop_stop_inside_direction_call psi_grad_full psi_yhat grad_L grad_psi lb ub l1 dir_apply has_initial stop_req time_up P x_in y_in Σ errz_in ls_fuel Hs fuel s o d). Qed.
End C19_PANOC.

Section C19_ZEROFPR.
  Context {T : Type} `{Num T}.
  Variable psi_grad_full : list T -> T * list T * list T.
  Variable psi_yhat : list T -> T * list T.
  Variable grad_L : list T -> list T -> list T.
  Variable grad_psi : list T -> list T.
  Variables (lb ub : list (option T)) (l1 : list T).
  Variable dir_apply : nat -> iterate (T:=T) -> proxit (T:=T) -> option (list T).
  Variable has_initial : bool.
  Variable stop_req : counters -> bool.
  Variable time_up : counters -> bool.
  Variable P : params (T:=T).
  Variables (x_in y_in Σ errz_in : list T).
  Variable ls_fuel : nat.
  Notation run := (zerofpr psi_grad_full psi_yhat grad_L grad_psi lb ub l1 dir_apply has_initial stop_req time_up P x_in y_in Σ errz_in ls_fuel).
  Notation Polled := (zerofpr_polled psi_grad_full psi_yhat grad_L grad_psi lb ub l1 dir_apply has_initial stop_req time_up P x_in y_in Σ errz_in ls_fuel).

  Theorem C19_zprompt_after_means : forall (pp : pollpt (T:=T)) (o : outputs (T:=T)), zprompt_after P pp o <->
    (out_status o <> StBusy /\ exit_statuses (out_status o) /\
     adv (pp_cnt pp) (out_cnt o) 2 1 0 0 1 /\
     c_dir (out_cnt o) = c_dir (pp_cnt pp) /\ c_apply (out_cnt o) = c_apply (pp_cnt pp) /\
     out_iterations o = pp_k pp /\ out_final o = pp_curr pp /\
     (overwrites (out_status o) (o_always P) = true -> out_x o = ixh (pp_curr pp) /\ out_y o = iyh (pp_curr pp))).
  Proof. exact (fun _ _ => conj (fun H => H) (fun H => H)). Qed.
  Theorem C19_zerofpr_linesearch_pass_bound : forall curr prox q τi (s : ZeroFpr.ls_state (T:=T)),
    adv (ZeroFpr.ls_cnt s) (ZeroFpr.ls_cnt (zls_res_state (zls_pass psi_grad_full psi_yhat lb ub l1 P curr prox q τi s))) 1 2 1 0 0 /\
    c_polls (ZeroFpr.ls_cnt (zls_res_state (zls_pass psi_grad_full psi_yhat lb ub l1 P curr prox q τi s))) = S (c_polls (ZeroFpr.ls_cnt s)).
  Proof. exact (zls_pass_adv psi_grad_full psi_yhat lb ub l1 P). Qed.
  Theorem C19_zerofpr_linesearch_stops_at_next_test : forall fuel curr prox q τi (s : ZeroFpr.ls_state (T:=T)),
    stop_req (ZeroFpr.ls_cnt s) = true ->
    ZeroFpr.ls_loop psi_grad_full psi_yhat lb ub l1 stop_req P (S fuel) curr prox q τi s = ZeroFpr.LsStopped (zls_stopped_at s).
  Proof. exact (zls_stops_now psi_grad_full psi_yhat lb ub l1 stop_req P). Qed.
  Theorem C19_zerofpr_stop_is_prompt : sticky stop_req -> forall fuel o, run fuel = Done o ->
    forall pp, Polled pp -> stop_req (pp_cnt pp) = true -> zprompt_after P pp o.
  Proof. exact (zerofpr_stop_prompt psi_grad_full psi_yhat grad_L grad_psi lb ub l1 dir_apply has_initial stop_req time_up P x_in y_in Σ errz_in ls_fuel). Qed.
  Theorem C19_zerofpr_stop_before_start : sticky stop_req -> forall fuel o, run fuel = Done o -> stop_req cnt0 = true ->
    out_status o <> StBusy /\ exit_statuses (out_status o) /\
    out_iterations o = 0%nat /\ c_polls (out_cnt o) = 1%nat /\ c_dir (out_cnt o) = 0%nat /\ c_apply (out_cnt o) = 0%nat /\
    c_cb (out_cnt o) = 1%nat /\ (evals (out_cnt o) <= 4 + s_stepsize_bt (out_stats o))%nat.
  Proof. exact (zerofpr_stop_before_start psi_grad_full psi_yhat grad_L grad_psi lb ub l1 dir_apply has_initial stop_req time_up P x_in y_in Σ errz_in ls_fuel). Qed.
  Notation Poll_next := (zerofpr_poll_next psi_grad_full psi_yhat grad_L grad_psi lb ub l1 dir_apply has_initial stop_req time_up P x_in y_in Σ errz_in ls_fuel).
  Theorem C19_zerofpr_request_to_return : sticky stop_req -> forall fuel o, run fuel = Done o ->
    forall pp pp', Poll_next pp pp' -> stop_req (pp_cnt pp') = true ->
    adv (pp_cnt pp) (out_cnt o) 3 4 2 1 2 /\ zprompt_after P pp' o.
  Proof. exact (zerofpr_request_to_return psi_grad_full psi_yhat grad_L grad_psi lb ub l1 dir_apply has_initial stop_req time_up P x_in y_in Σ errz_in ls_fuel). Qed.
  Theorem C19_zerofpr_stop_inside_direction_call : sticky stop_req -> forall fuel (s : lstate (T:=T)) o d, (forall c, stop_req c = (d <? c_dir c)%nat) ->
    ZeroFpr.loop psi_grad_full psi_yhat grad_L lb ub l1 dir_apply has_initial stop_req time_up P x_in y_in Σ errz_in ls_fuel fuel s = Done o ->
    forall pp pp', zpoll_next psi_grad_full psi_yhat grad_L lb ub l1 dir_apply has_initial stop_req time_up P x_in y_in Σ errz_in ls_fuel s pp pp' ->
    stop_req (pp_cnt pp) = false -> stop_req (pp_cnt pp') = true -> pp_k pp <> 0%nat -> c_dir (out_cnt o) = S d.
  Proof. exact (fun Hs fuel s o d => zloop_stop_inside_direction_call psi_grad_full psi_yhat grad_L lb ub l1 dir_apply has_initial stop_req time_up P x_in y_in Σ errz_in ls_fuel Hs fuel s o d). Qed.
End C19_ZEROFPR.

Section C19_PANTR.
  Context {T : Type} `{Num T}.
  Variable psi_grad_full : list T -> T * list T * list T.
  Variable psi_yhat : list T -> T * list T.
  Variable grad_L : list T -> list T -> list T.
  Variable grad_psi : list T -> list T.
  Variables (lb ub : list (option T)) (l1 : list T).
  Variable tr_apply : nat -> iterate (T:=T) -> T -> list T * T.
  Variable has_initial : bool.
  Variable stop_req : counters -> bool.
  Variable time_up : counters -> bool.
  Variable TP : trparams (T:=T).
  Variables (x_in y_in Σ errz_in : list T).
  Variable bt_fuel : nat.
  Notation run := (pantr psi_grad_full psi_yhat grad_L grad_psi lb ub l1 tr_apply has_initial stop_req time_up TP x_in y_in Σ errz_in bt_fuel).
  Notation Polled := (pantr_polled psi_grad_full psi_yhat grad_L grad_psi lb ub l1 tr_apply has_initial stop_req time_up TP x_in y_in Σ errz_in bt_fuel).

  Theorem C19_tprompt_after_means : forall (pp : pollpt (T:=T)) (o : toutputs (T:=T)), tprompt_after TP pp o <->
    (to_status o <> StBusy /\ exit_statuses (to_status o) /\ to_cnt o = inc_cb (inc_polls (pp_cnt pp)) /\
     to_iterations o = pp_k pp /\ to_final o = pp_curr pp /\
     (overwrites (to_status o) (o_always (tp_base TP)) = true -> to_x o = ixh (pp_curr pp) /\ to_y o = iyh (pp_curr pp))).
  Proof. exact (fun _ _ => conj (fun H => H) (fun H => H)). Qed.
  (* no stickiness needed: PANTR has one poll per iteration and the poll that sees the request returns *)
  Theorem C19_pantr_stop_is_prompt : forall fuel o, run fuel = TDone o ->
    forall pp, Polled pp -> stop_req (pp_cnt pp) = true -> tprompt_after TP pp o.
  Proof. exact (pantr_stop_prompt psi_grad_full psi_yhat grad_L grad_psi lb ub l1 tr_apply has_initial stop_req time_up TP x_in y_in Σ errz_in bt_fuel). Qed.
  (* the iteration in progress completes: its cost *)
  Theorem C19_pantr_iteration_in_progress_bound : forall s s' : tstate (T:=T),
    tpass psi_grad_full psi_yhat grad_L lb ub l1 tr_apply has_initial stop_req time_up TP x_in y_in Σ errz_in bt_fuel s = TCont s' ->
    cnt_le (ts_cnt s) (ts_cnt s') /\ c_polls (ts_cnt s') = S (c_polls (ts_cnt s)) /\
    (evals (ts_cnt s') + s_stepsize_bt (ts_stats s) <= evals (ts_cnt s) + s_stepsize_bt (ts_stats s') + 5)%nat /\
    (c_dir (ts_cnt s') <= c_dir (ts_cnt s) + 3)%nat /\ (c_apply (ts_cnt s') <= c_apply (ts_cnt s) + 1)%nat /\
    c_cb (ts_cnt s') = S (c_cb (ts_cnt s)).
  Proof. exact (tpass_cont_adv psi_grad_full psi_yhat grad_L lb ub l1 tr_apply has_initial stop_req time_up TP x_in y_in Σ errz_in bt_fuel). Qed.
  Theorem C19_pantr_stop_before_start : sticky stop_req -> forall fuel o, run fuel = TDone o -> stop_req cnt0 = true ->
    to_status o <> StBusy /\ exit_statuses (to_status o) /\
    to_iterations o = 0%nat /\ c_polls (to_cnt o) = 1%nat /\ c_dir (to_cnt o) = 0%nat /\ c_apply (to_cnt o) = 0%nat /\
    c_cb (to_cnt o) = 1%nat /\ (evals (to_cnt o) <= 4 + s_stepsize_bt (to_stats o))%nat.
  Proof. exact (pantr_stop_before_start psi_grad_full psi_yhat grad_L grad_psi lb ub l1 tr_apply has_initial stop_req time_up TP x_in y_in Σ errz_in bt_fuel). Qed.
End C19_PANTR.

Section C19_FISTA.
  Context {T : Type} `{Num T}.
  Variable psi_grad : fcounters -> list T -> T * list T.
  Variable psi_yhat : fcounters -> list T -> T * list T.
  Variable grad_L : fcounters -> list T -> list T -> list T.
  Variable grad_psi : fcounters -> list T -> list T.
  Variables (lb ub : list (option T)) (l1 : list T).
  Variable stop_req : fcounters -> bool.
  Variable time_up : fcounters -> bool.
  Variable P : fparams (T:=T).
  Variables (x_in y_in Σ errz_in : list T).
  Variable bt_fuel : nat.
  Notation run := (fista psi_grad psi_yhat grad_L grad_psi lb ub l1 stop_req time_up P x_in y_in Σ errz_in bt_fuel).
  Notation Polled := (fista_polled psi_grad psi_yhat grad_L grad_psi lb ub l1 stop_req time_up P x_in y_in Σ errz_in bt_fuel).

  Theorem C19_fprompt_after_means : forall (pp : fpollpt (T:=T)) (o : foutputs (T:=T)), fprompt_after P pp o <->
    (fo_status o <> StBusy /\ exit_statuses (fo_status o) /\
     fcnt_le (fpp_cnt pp) (fo_cnt o) /\ fc_polls (fo_cnt o) = S (fc_polls (fpp_cnt pp)) /\
     (fevals (fo_cnt o) <= fevals (fpp_cnt pp) + 1)%nat /\ fc_cb (fo_cnt o) = S (fc_cb (fpp_cnt pp)) /\
     fo_iterations o = fpp_k pp /\ fsame_point (fpp_curr pp) (fo_final o) /\
     (overwrites (fo_status o) (fp_always P) = true -> fo_x o = jxh (fpp_curr pp))).
  Proof. exact (fun _ _ => conj (fun H => H) (fun H => H)). Qed.
  Theorem C19_fista_stop_is_prompt : forall fuel o, run fuel = FDone o ->
    forall pp, Polled pp -> stop_req (fpp_cnt pp) = true -> fprompt_after P pp o.
  Proof. exact (fista_stop_prompt psi_grad psi_yhat grad_L grad_psi lb ub l1 stop_req time_up P x_in y_in Σ errz_in bt_fuel). Qed.
  (* the backtracking loop has no stop poll: the pass in progress completes; its cost *)
  Theorem C19_fista_pass_in_progress_bound : forall s s' : fstate (T:=T),
    fpass psi_grad psi_yhat grad_L grad_psi lb ub l1 stop_req time_up P x_in y_in Σ errz_in bt_fuel s = FCont s' ->
    fcnt_le (fs_cnt s) (fs_cnt s') /\ fc_polls (fs_cnt s') = S (fc_polls (fs_cnt s)) /\ fc_cb (fs_cnt s') = S (fc_cb (fs_cnt s)) /\
    (fevals (fs_cnt s') + fs_bt s <= fevals (fs_cnt s) + fs_bt s' + 4)%nat /\ fs_k s' = S (fs_k s).
  Proof. exact (fpass_cont_adv psi_grad psi_yhat grad_L grad_psi lb ub l1 stop_req time_up P x_in y_in Σ errz_in bt_fuel). Qed.
  Theorem C19_fista_stop_before_start : fsticky stop_req -> forall fuel o, run fuel = FDone o -> stop_req fcnt0 = true ->
    fo_status o <> StBusy /\ exit_statuses (fo_status o) /\ fo_iterations o = 0%nat /\
    fc_polls (fo_cnt o) = 1%nat /\ fc_cb (fo_cnt o) = 1%nat /\ (fevals (fo_cnt o) <= 6 + fo_bt o)%nat.
  Proof. exact (fista_stop_before_start psi_grad psi_yhat grad_L grad_psi lb ub l1 stop_req time_up P x_in y_in Σ errz_in bt_fuel). Qed.
End C19_FISTA.

Print Assumptions C19_panoc_linesearch_pass_bound.
Print Assumptions C19_panoc_linesearch_stops_at_next_test.
Print Assumptions C19_panoc_check_exits_at_request.
Print Assumptions C19_panoc_stop_is_prompt.
Print Assumptions C19_panoc_stop_before_start.
Print Assumptions C19_panoc_request_to_return.
Print Assumptions C19_panoc_stop_inside_direction_call.
Print Assumptions C19_zerofpr_request_to_return.
Print Assumptions C19_zerofpr_stop_inside_direction_call.
Print Assumptions C19_zerofpr_stop_is_prompt.
Print Assumptions C19_zerofpr_stop_before_start.
Print Assumptions C19_pantr_stop_is_prompt.
Print Assumptions C19_pantr_iteration_in_progress_bound.
Print Assumptions C19_pantr_stop_before_start.
Print Assumptions C19_fista_stop_is_prompt.
Print Assumptions C19_fista_pass_in_progress_bound.
Print Assumptions C19_fista_stop_before_start.

(* ====================================================================== validity of Interrupted outputs (over R) *)
Section C19_VALID.
  Local Open Scope R_scope.
  Variable psi_grad_full : list R -> R * list R * list R.
  Variable psi_yhat : list R -> R * list R.
  Variable grad_L : list R -> list R -> list R.
  Variable grad_psi : list R -> list R.
  Variables (lb ub : list (option R)) (l1 : list R).
  Variable has_initial : bool.
  Variable stop_req : counters -> bool.
  Variable time_up : counters -> bool.
  Variables (x_in y_in Σ errz_in : list R).
  Variable ls_fuel : nat.

  Theorem C19_panoc_interrupted_outputs_valid : forall (dir_apply : nat -> iterate (T:=R) -> option (list R)) (P : params (T:=R)) fuel o,
    panoc psi_grad_full psi_yhat grad_L grad_psi lb ub l1 dir_apply has_initial stop_req time_up P x_in y_in Σ errz_in ls_fuel fuel = Done o ->
    out_status o = StInterrupted ->
    exists cf : iterate (T:=R),
      PanocProofs.consistent psi_grad_full psi_yhat grad_L grad_psi lb ub l1 P cf /\ PanocProofs.qub_ok P cf /\
      PanocProofs.glrel0 psi_grad_full grad_psi P x_in cf /\ out_eps o = it_eps lb ub l1 P cf /\
      out_x o = ixh cf /\ ixh cf = vadd (ix cf) (ip cf) /\ out_y o = snd (psi_yhat (out_x o)) /\
      out_errz o = match errz_in with [] => [] | _ => vdiv (vsub (out_y o) y_in) Σ end.
  Proof. exact (fun d P => panoc_interrupted_valid psi_grad_full psi_yhat grad_L grad_psi lb ub l1 d has_initial stop_req time_up P x_in y_in Σ errz_in ls_fuel). Qed.

  Theorem C19_zerofpr_interrupted_outputs_valid : forall (dir_apply : nat -> iterate (T:=R) -> proxit (T:=R) -> option (list R)) (P : params (T:=R)) fuel o,
    zerofpr psi_grad_full psi_yhat grad_L grad_psi lb ub l1 dir_apply has_initial stop_req time_up P x_in y_in Σ errz_in ls_fuel fuel = Done o ->
    out_status o = StInterrupted ->
    exists cf : iterate (T:=R),
      ZeroFprProofs.zconsistent psi_grad_full psi_yhat grad_L lb ub l1 cf /\ PanocProofs.qub_ok P cf /\
      PanocProofs.glrel0 psi_grad_full grad_psi P x_in cf /\
      out_x o = ixh cf /\ ixh cf = vadd (ix cf) (ip cf) /\ out_y o = iyh cf /\ iyh cf = snd (psi_yhat (out_x o)) /\
      out_errz o = match errz_in with [] => [] | _ => vdiv (vsub (out_y o) y_in) Σ end.
  Proof. exact (fun d P => zerofpr_interrupted_valid psi_grad_full psi_yhat grad_L grad_psi lb ub l1 d has_initial stop_req time_up P x_in y_in Σ errz_in ls_fuel). Qed.

  Theorem C19_pantr_interrupted_outputs_valid : forall (tr_apply : nat -> iterate (T:=R) -> R -> list R * R) (TP : trparams (T:=R)) fuel o,
    pantr psi_grad_full psi_yhat grad_L grad_psi lb ub l1 tr_apply has_initial stop_req time_up TP x_in y_in Σ errz_in ls_fuel fuel = TDone o ->
    to_status o = StInterrupted ->
    exists cf : iterate (T:=R),
      PantrProofs.tconsistent psi_grad_full psi_yhat grad_L lb ub l1 cf /\ PanocProofs.qub_ok (tp_base TP) cf /\
      PanocProofs.glrel0 psi_grad_full grad_psi (tp_base TP) x_in cf /\
      to_x o = ixh cf /\ ixh cf = vadd (ix cf) (ip cf) /\ to_y o = iyh cf /\ iyh cf = snd (psi_yhat (to_x o)) /\
      to_errz o = match errz_in with [] => [] | _ => vdiv (vsub (to_y o) y_in) Σ end.
  Proof. exact (fun d TP => pantr_interrupted_valid psi_grad_full psi_yhat grad_L grad_psi lb ub l1 d has_initial stop_req time_up TP x_in y_in Σ errz_in ls_fuel). Qed.
End C19_VALID.
Theorem C19_fista_interrupted_outputs_valid : forall psi_grad psi_yhat grad_L grad_psi lb ub l1 stop_req time_up (P : fparams (T:=R))
    x_in y_in Σ errz_in bt_fuel fuel o,
  fista psi_grad psi_yhat grad_L grad_psi lb ub l1 stop_req time_up P x_in y_in Σ errz_in bt_fuel fuel = FDone o ->
  fo_status o = StInterrupted ->
  exists cf : fiter (T:=R),
    FistaLoopProofs.checked psi_grad psi_yhat grad_L grad_psi lb ub l1 P cf /\ FistaLoopProofs.qub_ok P cf /\
    fo_x o = jxh cf /\ jxh cf = vadd (jx cf) (jp cf) /\ fo_y o = jyh (fo_final o) /\
    (exists c, (jpsih (fo_final o), fo_y o) = psi_yhat c (fo_x o)) /\
    fo_errz o = match errz_in with [] => [] | _ => vdiv (vsub (fo_y o) y_in) Σ end.
Proof. exact fista_interrupted_valid. Qed.
Print Assumptions C19_panoc_interrupted_outputs_valid.
Print Assumptions C19_zerofpr_interrupted_outputs_valid.
Print Assumptions C19_pantr_interrupted_outputs_valid.
Print Assumptions C19_fista_interrupted_outputs_valid.

(* the start-up bound as an explicit constant of the parameters (over R): the unpolled initial step-size loop makes at most nL passes
   when L_init > 0 and L_max <= L_init 2^nL, so a PANOC solve started with the request visible costs at most 5 + nL oracle calls *)
From Alpaqa Require Import StopPromptNbt.
Theorem C19_panoc_stop_before_start_explicit : forall psi_grad_full psi_yhat grad_L grad_psi lb ub l1 dir_apply has_initial stop_req time_up
    (P : params (T:=R)) x_in y_in Σ errz_in ls_fuel, sticky stop_req -> forall (nL fuel : nat) o,
  panoc psi_grad_full psi_yhat grad_L grad_psi lb ub l1 dir_apply has_initial stop_req time_up P x_in y_in Σ errz_in ls_fuel fuel = Done o ->
  stop_req cnt0 = true -> (0 < Linit psi_grad_full grad_psi P x_in)%R -> (p_Lmax P <= Linit psi_grad_full grad_psi P x_in * 2 ^ nL)%R ->
  (evals (out_cnt o) <= 5 + nL)%nat /\ out_iterations o = 0%nat /\ c_polls (out_cnt o) = 1%nat /\ c_dir (out_cnt o) = 0%nat /\
  out_status o <> StBusy.
Proof. exact panoc_stop_before_start_explicit. Qed.
Print Assumptions C19_panoc_stop_before_start_explicit.

(* ====================================================================== under ALM (ALMSolver<PANOCSolver>, composed model; over R) *)
Section C19_ALM.
  Variable Pb : problem (T:=R).
  Variable prov : fn -> bool.
  Variable wm_supplied : list R -> list R.
  Variables (Clb Cub : list (option R)) (l1 : list R).
  Variable split : nat.
  Variable dir : nat -> iterate (T:=R) -> option (list R).
  Variable has_initial : bool.
  Variable stop_req : counters -> bool.
  Variable time_up : counters -> bool.
  Variable outer_oot : nat -> bool.
  Variable PP : params (T:=R).
  Variable AP : alm_params (T:=R).
  Variables (ls_fuel inner_fuel : nat).
  Notation Inner := (inner Pb prov wm_supplied Clb Cub l1 dir has_initial stop_req time_up outer_oot PP ls_fuel inner_fuel).
  Notation Almp := (alm_panoc Pb prov wm_supplied Clb Cub l1 split dir has_initial stop_req time_up outer_oot PP AP ls_fuel inner_fuel).
  Notation Called := (called counters (result (T:=R)) Inner).
  Notation Inner_polled := (inner_polled Pb prov wm_supplied Clb Cub l1 dir has_initial stop_req time_up PP ls_fuel).

  (* an inner solve that is start-up + ONE stop check *)
  Theorem C19_one_check_means : forall (lg : result (T:=R)) (r : inner_res (T:=R)), one_check lg r <->
    match lg with
    | Done o => out_iterations o = 0%nat /\ c_polls (out_cnt o) = 1%nat /\ c_dir (out_cnt o) = 0%nat /\ c_apply (out_cnt o) = 0%nat /\
                c_cb (out_cnt o) = 1%nat /\ (evals (out_cnt o) <= 5 + s_stepsize_bt (out_stats o))%nat /\
                exit_statuses (out_status o) /\ ir_status r = alm_status_of (out_status o) /\ ir_iters r = 0%nat
    | NotFiniteL _ => ir_status r = NotFinite /\ ir_iters r = 0%nat
    | OutOfFuel => False
    end.
  Proof. exact (fun _ _ => conj (fun H => H) (fun H => H)). Qed.

  (* an inner solve started with the request visible is a one-check solve, and hands the request on *)
  Theorem C19_alm_inner_started_after_request : sticky stop_req -> forall w i x y Σ tol e r x' lg w', stop_req w = true ->
    Inner w i x y Σ tol e = Some (r, x', lg, w') -> one_check lg r /\ stop_req w' = true.
  Proof. exact (inner_after_request Pb prov wm_supplied Clb Cub l1 dir has_initial stop_req time_up outer_oot PP ls_fuel inner_fuel). Qed.

  (* what "the run ends at outer iteration rc" says (pre = the outer iterations before it, post = those after it) *)
  Theorem C19_run_ends_at_means : forall (pb : alm_problem (T:=R)) (pre : list (iter_rec (T:=R))) rc post (f : final (T:=R)),
    run_ends_at AP pb pre rc post f <->
    (post = [] /\ f_outer f = S (length pre) /\
     (pb_m pb <> 0%nat ->
        f_status f = (if is_interrupted (ir_status (it_res rc)) then Interrupted
                      else if rec_conv AP rc then Converged else if ir_oot (it_res rc) then MaxTime
                      else if Nat.eqb (S (length pre)) (Alm.p_max_iter AP) then MaxIter else Interrupted)) /\
     (pb_m pb = 0%nat -> f_status f = ir_status (it_res rc))).
  Proof. exact (fun _ _ _ _ _ => conj (fun H => H) (fun H => H)). Qed.

  (* what the outer loop reads from its own flag after an inner solve is the request at the world that solve hands on *)
  Theorem C19_alm_flag_read_after_inner_solve : forall w i x y Σ tol e r x' lg w',
    Inner w i x y Σ tol e = Some (r, x', lg, w') -> ir_stop r = stop_req w'.
  Proof. exact (inner_stop_flag Pb prov wm_supplied Clb Cub l1 dir has_initial stop_req time_up outer_oot PP ls_fuel inner_fuel). Qed.

  (* MAIN.  rc: any outer iteration of the run; w / w': the worlds (cumulative counters) in which its inner solve started / which it
     handed on.  (A) if the request is visible at w', the RUN ENDS at rc: no further inner solve.  (B) it is visible there when a poll
     of this solve saw it, and the solve is then prompt.  (C) it is visible there when it was visible at w, and the solve is then
     start-up + one stop check.  (D) Interrupted from the inner solver is propagated at once. *)
  Theorem C19_alm_panoc_stop_ends_run : sticky stop_req -> forall outer_fuel nanv Σ0 y0 x0 co, Almp outer_fuel nanv Σ0 y0 x0 = Some co ->
    forall pre rc post, co_trace co = pre ++ rc :: post ->
    exists (x : list R) (w : counters) (x' : list R) (lg : result (T:=R)) (w' : counters),
      Called x0 cnt0 pre x w /\
      Inner w (it_i rc) x (it_y rc) (it_Sigma rc) (it_tol rc) (it_err_in rc) = Some (it_res rc, x', lg, w') /\
      (stop_req w' = true -> run_ends_at AP (pb_of Pb split) pre rc post (co_final co)) /\
      (forall pp, Inner_polled w x (it_y rc) (it_Sigma rc) (it_tol rc) (it_err_in rc) pp -> stop_req (cadd w (pp_cnt pp)) = true ->
         (exists o, lg = Done o /\ prompt_after (with_opts PP (it_tol rc)) pp o) /\ stop_req w' = true) /\
      (stop_req w = true -> one_check lg (it_res rc) /\ stop_req w' = true) /\
      (ir_status (it_res rc) = Interrupted -> post = [] /\ f_status (co_final co) = Interrupted).
  Proof. exact (alm_panoc_stop_ends_run Pb prov wm_supplied Clb Cub l1 split dir has_initial stop_req time_up outer_oot PP AP ls_fuel inner_fuel). Qed.
End C19_ALM.
Print Assumptions C19_alm_inner_started_after_request.
Print Assumptions C19_alm_panoc_stop_ends_run.

(* ====================================================================== under ALM: ZeroFPR, PANTR, FISTA as inner solvers (over R) *)
From Alpaqa Require Import AlmZeroFpr AlmPantr AlmFista StopPromptAlmG.
Section C19_ALM_OTHERS.
  Variable Pb : problem (T:=R).
  Variable prov : fn -> bool.
  Variable wm_supplied : list R -> list R.
  Variables (Clb Cub : list (option R)) (l1 : list R).
  Variable split : nat.
  Variable has_initial : bool.
  Variable outer_oot : nat -> bool.
  Variable AP : alm_params (T:=R).
  Variables (ls_fuel inner_fuel : nat).

  (* the statement of C19_alm_panoc_stop_ends_run for the other three inner solvers: (A) request visible when the inner solve of rc
     returns => the run ends at rc, no further inner solve; (B) a poll of that solve saw it => prompt (as stand-alone) and visible at
     the return; (C) visible at the start => start-up + one stop check and visible at the return; (D) Interrupted propagated at once *)
  Theorem C19_alm_zerofpr_stop_ends_run : forall (dir : nat -> iterate (T:=R) -> proxit (T:=R) -> option (list R)) stop_req time_up (PP : params (T:=R)),
    sticky stop_req -> forall outer_fuel nanv Σ0 y0 x0 co,
    alm_zerofpr Pb prov wm_supplied Clb Cub l1 split dir has_initial stop_req time_up outer_oot PP AP ls_fuel inner_fuel outer_fuel nanv Σ0 y0 x0 = Some co ->
    forall pre rc post, co_trace co = pre ++ rc :: post ->
    exists (x : list R) (w : counters) (x' : list R) (lg : result (T:=R)) (w' : counters),
      called counters (result (T:=R)) (zinner Pb prov wm_supplied Clb Cub l1 dir has_initial stop_req time_up outer_oot PP ls_fuel inner_fuel) x0 cnt0 pre x w /\
      zinner Pb prov wm_supplied Clb Cub l1 dir has_initial stop_req time_up outer_oot PP ls_fuel inner_fuel
             w (it_i rc) x (it_y rc) (it_Sigma rc) (it_tol rc) (it_err_in rc) = Some (it_res rc, x', lg, w') /\
      (stop_req w' = true -> run_ends_at AP (pb_of Pb split) pre rc post (co_final co)) /\
      (forall pp o, lg = Done o ->
         zinner_polled Pb prov wm_supplied Clb Cub l1 dir has_initial stop_req time_up PP ls_fuel w x (it_y rc) (it_Sigma rc) (it_tol rc) (it_err_in rc) pp ->
         stop_req (cadd w (pp_cnt pp)) = true -> zprompt_after (with_opts PP (it_tol rc)) pp o /\ stop_req w' = true) /\
      (stop_req w = true -> zone_check lg (it_res rc) /\ stop_req w' = true) /\
      (ir_status (it_res rc) = Interrupted -> post = [] /\ f_status (co_final co) = Interrupted).
  Proof. exact (fun dir stop_req time_up PP => alm_zerofpr_stop_ends_run Pb prov wm_supplied Clb Cub l1 split dir has_initial stop_req time_up outer_oot PP AP ls_fuel inner_fuel). Qed.

  Theorem C19_alm_pantr_stop_ends_run : forall (tr_dir : nat -> iterate (T:=R) -> R -> list R * R) stop_req time_up (TP : trparams (T:=R)),
    sticky stop_req -> forall outer_fuel nanv Σ0 y0 x0 co,
    alm_pantr Pb prov wm_supplied Clb Cub l1 split tr_dir has_initial stop_req time_up outer_oot TP AP ls_fuel inner_fuel outer_fuel nanv Σ0 y0 x0 = Some co ->
    forall pre rc post, co_trace co = pre ++ rc :: post ->
    exists (x : list R) (w : counters) (x' : list R) (lg : tresult (T:=R)) (w' : counters),
      called counters (tresult (T:=R)) (tinner Pb prov wm_supplied Clb Cub l1 tr_dir has_initial stop_req time_up outer_oot TP ls_fuel inner_fuel) x0 cnt0 pre x w /\
      tinner Pb prov wm_supplied Clb Cub l1 tr_dir has_initial stop_req time_up outer_oot TP ls_fuel inner_fuel
             w (it_i rc) x (it_y rc) (it_Sigma rc) (it_tol rc) (it_err_in rc) = Some (it_res rc, x', lg, w') /\
      (stop_req w' = true -> run_ends_at AP (pb_of Pb split) pre rc post (co_final co)) /\
      (forall pp o, lg = TDone o ->
         tinner_polled Pb prov wm_supplied Clb Cub l1 tr_dir has_initial stop_req time_up TP ls_fuel w x (it_y rc) (it_Sigma rc) (it_tol rc) (it_err_in rc) pp ->
         stop_req (cadd w (pp_cnt pp)) = true -> tprompt_after (tr_with_opts TP (it_tol rc)) pp o /\ stop_req w' = true) /\
      (stop_req w = true -> tone_check lg (it_res rc) /\ stop_req w' = true) /\
      (ir_status (it_res rc) = Interrupted -> post = [] /\ f_status (co_final co) = Interrupted).
  Proof. exact (fun tr_dir stop_req time_up TP => alm_pantr_stop_ends_run Pb prov wm_supplied Clb Cub l1 split tr_dir has_initial stop_req time_up outer_oot TP AP ls_fuel inner_fuel). Qed.

  Theorem C19_alm_fista_stop_ends_run : forall stop_req time_up (FP : fparams (T:=R)),
    fsticky stop_req -> forall outer_fuel nanv Σ0 y0 x0 co,
    alm_fista Pb prov Clb Cub l1 split stop_req time_up outer_oot FP AP ls_fuel inner_fuel outer_fuel nanv Σ0 y0 x0 = Some co ->
    forall pre rc post, co_trace co = pre ++ rc :: post ->
    exists (x : list R) (w : fcounters) (x' : list R) (lg : fresult (T:=R)) (w' : fcounters),
      called fcounters (fresult (T:=R)) (finner Pb prov Clb Cub l1 stop_req time_up outer_oot FP ls_fuel inner_fuel) x0 fcnt0 pre x w /\
      finner Pb prov Clb Cub l1 stop_req time_up outer_oot FP ls_fuel inner_fuel
             w (it_i rc) x (it_y rc) (it_Sigma rc) (it_tol rc) (it_err_in rc) = Some (it_res rc, x', lg, w') /\
      (stop_req w' = true -> run_ends_at AP (pb_of Pb split) pre rc post (co_final co)) /\
      (forall pp o, lg = FDone o ->
         finner_polled Pb prov Clb Cub l1 stop_req time_up FP ls_fuel w x (it_y rc) (it_Sigma rc) (it_tol rc) (it_err_in rc) pp ->
         stop_req (fcadd w (fpp_cnt pp)) = true -> fprompt_after (fwith_opts FP (it_tol rc)) pp o /\ stop_req w' = true) /\
      (stop_req w = true -> fone_check lg (it_res rc) /\ stop_req w' = true) /\
      (ir_status (it_res rc) = Interrupted -> post = [] /\ f_status (co_final co) = Interrupted).
  Proof. exact (fun stop_req time_up FP => alm_fista_stop_ends_run Pb prov Clb Cub l1 split stop_req time_up outer_oot FP AP ls_fuel inner_fuel). Qed.

  (* what a one-check solve is, for the three solvers *)
  Theorem C19_one_check_means_others :
    (forall (lg : result (T:=R)) (r : inner_res (T:=R)), zone_check lg r <->
       match lg with
       | Done o => out_iterations o = 0%nat /\ c_polls (out_cnt o) = 1%nat /\ c_dir (out_cnt o) = 0%nat /\ c_apply (out_cnt o) = 0%nat /\
                   c_cb (out_cnt o) = 1%nat /\ (evals (out_cnt o) <= 4 + s_stepsize_bt (out_stats o))%nat /\
                   exit_statuses (out_status o) /\ ir_status r = alm_status_of (out_status o) /\ ir_iters r = 0%nat
       | NotFiniteL _ => ir_status r = NotFinite /\ ir_iters r = 0%nat
       | OutOfFuel => False
       end) /\
    (forall (lg : tresult (T:=R)) (r : inner_res (T:=R)), tone_check lg r <->
       match lg with
       | TDone o => to_iterations o = 0%nat /\ c_polls (to_cnt o) = 1%nat /\ c_dir (to_cnt o) = 0%nat /\ c_apply (to_cnt o) = 0%nat /\
                    c_cb (to_cnt o) = 1%nat /\ (evals (to_cnt o) <= 4 + s_stepsize_bt (to_stats o))%nat /\
                    exit_statuses (to_status o) /\ ir_status r = alm_status_of (to_status o) /\ ir_iters r = 0%nat
       | TNotFiniteL _ => ir_status r = NotFinite /\ ir_iters r = 0%nat
       | TOutOfFuel => False
       end) /\
    (forall (lg : fresult (T:=R)) (r : inner_res (T:=R)), fone_check lg r <->
       match lg with
       | FDone o => fo_iterations o = 0%nat /\ fc_polls (fo_cnt o) = 1%nat /\ fc_cb (fo_cnt o) = 1%nat /\
                    (fevals (fo_cnt o) <= 6 + fo_bt o)%nat /\ exit_statuses (fo_status o) /\
                    ir_status r = alm_status_of (fo_status o) /\ ir_iters r = 0%nat
       | FNotFiniteL _ => ir_status r = NotFinite /\ ir_iters r = 0%nat
       | FOutOfFuel => False
       end).
  Proof. exact (conj (fun _ _ => conj (fun H => H) (fun H => H)) (conj (fun _ _ => conj (fun H => H) (fun H => H)) (fun _ _ => conj (fun H => H) (fun H => H)))). Qed.
End C19_ALM_OTHERS.
Print Assumptions C19_alm_zerofpr_stop_ends_run.
Print Assumptions C19_alm_pantr_stop_ends_run.
Print Assumptions C19_alm_fista_stop_ends_run.

(* ====================================================================== under ALM: the SHIPPED PANTR stack (stateful TR provider) *)
(* C19_alm_pantr_stop_ends_run for ALMSolver<PANTRSolver<DirectionProviderT>> (AlmPantrDir.alm_pantr_dir: any trdirops — NewtonTRDirection
   over SteihaugCG is the instance the library ships —, any initial provider state).  By the whole-run refinement
   AlmPantrDirRefine.alm_pantr_dir_refines the provider run has the trace and final statistics of the oracle-direction run for the oracle
   "j-th apply call of the whole run returned what the provider returned there", so (A)–(D) hold with that oracle's inner solves:
   (A) request visible when the inner solve of rc returns => the run ends at rc, NO further inner solve (in particular no further
   direction call: no Hessian product, no CG iteration); (B) a poll of that solve saw it => prompt as stand-alone (0 further oracle
   calls, 0 direction calls); (C) visible at the start => start-up + one stop check; (D) Interrupted propagated at once. *)
From Alpaqa Require Import DirectionsTR PantrDir PantrDirProofs AlmPantrDir AlmPantrDirRefine.
Theorem C19_alm_pantr_provider_stop_ends_run :
  forall (Pb : problem (T:=R)) (prov : fn -> bool) (wm_supplied : list R -> list R) (Clb Cub : list (option R)) (l1 : list R) (split : nat)
    (D : Type) (ops : trdirops R D) stop_req time_up (outer_oot : nat -> bool) (TP : trparams (T:=R)) (AP : alm_params (T:=R)) (bt_fuel inner_fuel : nat),
  sticky stop_req -> forall (d0 : D) outer_fuel nanv Σ0 y0 x0 coD,
  alm_pantr_dir Pb prov wm_supplied Clb Cub l1 split D ops stop_req time_up outer_oot TP AP bt_fuel inner_fuel d0 outer_fuel nanv Σ0 y0 x0 = Some coD ->
  let tr_dir := oracle_of (tcalls D (co_logs coD)) in
  let has_initial := td_has_initial D ops in
  forall pre rc post, co_trace coD = pre ++ rc :: post ->
  exists (x : list R) (w : counters) (x' : list R) (lg : tresult (T:=R)) (w' : counters),
    AlmComposeProofs.called counters (tresult (T:=R)) (tinner Pb prov wm_supplied Clb Cub l1 tr_dir has_initial stop_req time_up outer_oot TP bt_fuel inner_fuel) x0 cnt0 pre x w /\
    tinner Pb prov wm_supplied Clb Cub l1 tr_dir has_initial stop_req time_up outer_oot TP bt_fuel inner_fuel
           w (it_i rc) x (it_y rc) (it_Sigma rc) (it_tol rc) (it_err_in rc) = Some (it_res rc, x', lg, w') /\
    (stop_req w' = true -> run_ends_at AP (pb_of Pb split) pre rc post (co_final coD)) /\
    (forall pp o, lg = TDone o ->
       tinner_polled Pb prov wm_supplied Clb Cub l1 tr_dir has_initial stop_req time_up TP bt_fuel w x (it_y rc) (it_Sigma rc) (it_tol rc) (it_err_in rc) pp ->
       stop_req (cadd w (pp_cnt pp)) = true -> tprompt_after (tr_with_opts TP (it_tol rc)) pp o /\ stop_req w' = true) /\
    (stop_req w = true -> tone_check lg (it_res rc) /\ stop_req w' = true) /\
    (ir_status (it_res rc) = Interrupted -> post = [] /\ f_status (co_final coD) = Interrupted).
Proof.
  intros Pb prov wm Clb Cub l1 split D ops stop_req time_up outer_oot TP AP bt_fuel inner_fuel Hs d0 outer_fuel nanv Σ0 y0 x0 coD HrunD tr_dir has_initial pre rc post Etr.
  destruct (alm_pantr_dir_refines Pb prov wm Clb Cub l1 split D ops stop_req time_up outer_oot TP AP bt_fuel inner_fuel d0 outer_fuel nanv Σ0 y0 x0 coD HrunD)
    as (co & Hrun & Et & Ef & _).
  rewrite <- Et in Etr. rewrite <- Ef.
  exact (alm_pantr_stop_ends_run Pb prov wm Clb Cub l1 split tr_dir has_initial stop_req time_up outer_oot TP AP bt_fuel inner_fuel Hs outer_fuel nanv Σ0 y0 x0 co Hrun pre rc post Etr).
Qed.
Print Assumptions C19_alm_pantr_provider_stop_ends_run.

(* ====================================================================== PANOC-OCP (PanocOcpLoop.v), every number system *)
From Alpaqa Require PanocOcpLoop StopPromptOcp.
Module C19_OCP.
  Import PanocOcpLoop StopPromptOcp.
  Section S.
    Context {T : Type} `{Num T}.
    Variables X QR DS : Type.
    Variable fwd : list T -> T * X.
    Variable sim : list T -> X.
    Variable bwd : list T -> X -> list T * QR.
    Variable cvals : X -> list T.
    Variable gn_step : nat -> list T -> X -> QR -> list bool -> list T -> list T.
    Variable lb_apply : DS -> list T -> T -> list nat -> bool * list T * DS.
    Variable lb_update : DS -> list T -> list T -> list T -> list T -> bool * DS.
    Variable lb_reset : DS -> DS.
    Variables (N nu : nat).
    Variables (Ulb Uub : list (option T)).
    Variables (Dlb Dub : list (option T)).
    Variable stop_req : counters -> bool.
    Variable time_up : counters -> bool.
    Variable P : params (T:=T).
    Variables (u_in y_in μ errz_in : list T).
    Variables (X0 : X) (ds0 : DS).
    Variable ls_fuel : nat.
    Notation run := (panoc_ocp X QR DS fwd sim bwd cvals gn_step lb_apply lb_update lb_reset N nu Ulb Uub Dlb Dub stop_req time_up P u_in y_in μ errz_in X0 ds0 ls_fuel).
    Notation Polled := (ocp_polled X QR DS fwd sim bwd cvals gn_step lb_apply lb_update lb_reset N nu Ulb Uub Dlb Dub stop_req time_up P u_in y_in μ errz_in X0 ds0 ls_fuel).
    Notation Prompt_after := (oprompt_after X cvals Dlb Dub P u_in y_in μ errz_in).

    Theorem C19_ocp_prompt_after_means : forall (pp : opollpt (T:=T) X) (o : outputs (T:=T) X), Prompt_after pp o <->
      (out_status o <> StBusy /\ exit_statuses (out_status o) /\
       oadv (opp_cnt pp) (out_cnt o) 2 0 0 1 /\
       out_iterations o = opp_k pp /\ out_final o = opp_curr pp /\
       (out_u o, out_y o, out_errz o) = exit_values X cvals Dlb Dub P u_in y_in μ errz_in (out_status o) (opp_curr pp)).
    Proof. exact (fun _ _ => conj (fun H => H) (fun H => H)). Qed.
    Theorem C19_oadv_means : forall a b p e d cb, oadv a b p e d cb <->
      (ocnt_le a b /\ (c_polls b <= c_polls a + p /\ c_fwd b + c_bwd b + c_sim b <= c_fwd a + c_bwd a + c_sim a + e /\
                       c_gn b + c_lb b <= c_gn a + c_lb a + d /\ c_cb b <= c_cb a + cb)%nat).
    Proof. exact (fun _ _ _ _ _ _ => conj (fun H => H) (fun H => H)). Qed.
    (* one pass of the line-search loop: one poll, <= 3 oracle calls (forward + backward of the candidate, forward of û) *)
    Theorem C19_ocp_linesearch_pass_bound : forall q τi dng (s : ls_state (T:=T) X QR DS),
      oadv (ls_cnt s) (ls_cnt (ols_res_state X QR DS (ols_pass X QR DS fwd bwd lb_reset N nu Ulb Uub P q τi dng s))) 1 3 0 0 /\
      c_polls (ls_cnt (ols_res_state X QR DS (ols_pass X QR DS fwd bwd lb_reset N nu Ulb Uub P q τi dng s))) = S (c_polls (ls_cnt s)).
    Proof. exact (ols_pass_adv X QR DS fwd bwd lb_reset N nu Ulb Uub P). Qed.
    Theorem C19_ocp_linesearch_stops_at_next_test : forall fuel q τi dng (s : ls_state (T:=T) X QR DS), stop_req (ls_cnt s) = true ->
      ls_loop X QR DS fwd bwd lb_reset N nu Ulb Uub stop_req P (S fuel) q τi dng s = LsStopped (ols_stopped_at X QR DS s).
    Proof. exact (ols_stops_now X QR DS fwd bwd lb_reset N nu Ulb Uub stop_req P). Qed.
    Theorem C19_ocp_stop_is_prompt : osticky stop_req -> forall fuel o, run fuel = Done o ->
      forall pp, Polled pp -> stop_req (opp_cnt pp) = true -> Prompt_after pp o.
    Proof. exact (ocp_stop_prompt X QR DS fwd sim bwd cvals gn_step lb_apply lb_update lb_reset N nu Ulb Uub Dlb Dub stop_req time_up P u_in y_in μ errz_in X0 ds0 ls_fuel). Qed.
    Theorem C19_ocp_stop_before_start : osticky stop_req -> forall fuel o, run fuel = Done o -> stop_req cnt0 = true ->
      out_status o <> StBusy /\ exit_statuses (out_status o) /\
      out_iterations o = 0%nat /\ c_polls (out_cnt o) = 1%nat /\ c_gn (out_cnt o) = 0%nat /\ c_lb (out_cnt o) = 0%nat /\
      c_cb (out_cnt o) = 1%nat /\ (oevals (out_cnt o) <= 5 + s_stepsize_bt (out_stats o))%nat.
    Proof. exact (ocp_stop_before_start X QR DS fwd sim bwd cvals gn_step lb_apply lb_update lb_reset N nu Ulb Uub Dlb Dub stop_req time_up P u_in y_in μ errz_in X0 ds0 ls_fuel). Qed.
  End S.
End C19_OCP.
Print Assumptions C19_OCP.C19_ocp_linesearch_pass_bound.
Print Assumptions C19_OCP.C19_ocp_stop_is_prompt.
Print Assumptions C19_OCP.C19_ocp_stop_before_start.

(* ====================================================================== non-vacuity and the finding, on concrete binary64 runs *)
From Alpaqa Require Import NumF.
(* a PANOC run (ψ = ½x², x0 = 1) whose FIRST line-search test sees a sticky request: hypotheses of C19_panoc_stop_is_prompt hold,
   and the run returns Interrupted at the next stop check (3 polls in all, k = 0, one direction call = direction.initialize) *)
Example C19_panoc_prompt_nonvacuous :
  sticky ex_stop /\ ex_run 5 = Done ex_out /\
  panoc_polled ex_pgf ex_py ex_gL ex_gp [None] [None] [] (fun _ _ => None) false ex_stop (fun _ => false) ex_P [n1] [] [] [] 5 ex_pp /\
  ex_stop (pp_cnt ex_pp) = true /\
  out_status ex_out = StInterrupted /\ out_iterations ex_out = 0%nat /\ c_polls (out_cnt ex_out) = 3%nat /\
  c_dir (out_cnt ex_out) = 1%nat /\ c_apply (out_cnt ex_out) = 0%nat.
Proof. exact (conj ex_stop_sticky (conj ex_run_done (conj ex_polled (conj ex_pp_sees ex_out_interrupted)))). Qed.
(* and the theorem applied to it *)
Example C19_panoc_prompt_instance : prompt_after ex_P ex_pp ex_out.
Proof. exact (panoc_stop_prompt _ _ _ _ _ _ _ _ _ _ _ _ _ _ _ _ _ ex_stop_sticky 5 ex_out ex_run_done ex_pp ex_polled ex_pp_sees). Qed.

(* under ALM: the former counter-run to "no further inner solve" (known_findings C19:alm-runs-on-after-stop-request), replayed on the
   composed model at binary64: min -x, x in [0,1], x <= 1/2, x0 = 1, y0 = 0, Σ0 = 0.01, ProjGradNorm, stop() inside evaluation #0
   (sticky).  The first inner solve is start-up + one check (polls = 1, direction calls = 0) and returns Converged (the warm start
   meets the inner tolerance; Converged outranks Interrupted in the inner chain); the outer loop reads its own flag as set after it
   ([true]), is not converged itself (slack error 1/2) and returns Interrupted with outer_iterations = 1: ONE inner solve, where the
   code before the repair started three more (Converged, Converged, Interrupted; 41 user-function evaluations after the request). *)
Example C19_alm_stop_ends_run_nonvacuous :
  ex_alm_summary = Some (Interrupted, [(Converged, 0)]%nat, [(1, 0)]%nat) /\ ex_alm_flags = Some ([true], 1%nat).
Proof. exact (conj ex_alm_one_solve ex_alm_flag_read). Qed.
