(* Properties_C19.v — C19 (partial): stop() interrupts any solver promptly, leaving valid results.
   What is proved: (a) on the GENERATED status chain a pending stop request never yields Busy, (b) for every observation sequence
   the loop skeleton returns at the first check that sees the request, with Interrupted or a higher-ranked status, and Interrupted
   is only returned after a request, (c) ALM returns immediately after an Interrupted inner solve without another inner call,
   (d) the exit block writes the outputs for Interrupted exactly as for Converged (so C03's relations apply).
   NOT expressible in this model (stated, not claimed): true asynchrony and the absence of a data race on the atomic stop flag;
   the number of evaluations between the request and the next poll (bounded only empirically by the oracle). *)
From Coq Require Import Reals List ZArith Bool Arith.
From Alpaqa Require Import Num NumR SolverStatus SolverKernels StopChain StopChainProofs LoopSkeleton SolverKernelsProofs Alm AlmProofs.
Import ListNotations.

Section C19.
  Context {T : Type} `{Num T}.

  Theorem C19_stop_request_never_busy : forall opts_tol eps te it mi np mnp,
    stop_status_helpers opts_tol eps te it mi np mnp true <> StBusy.
  Proof. exact stop_request_never_busy. Qed.

  Theorem C19_loop_returns_at_first_check_after_request :
    forall opts_tol max_iter max_no_progress eps_at te_at sr_at same_at fuel k np,
    sr_at k = true ->
    exists st, run opts_tol max_iter max_no_progress eps_at te_at sr_at same_at fuel k np = Some (k, st)
               /\ st <> StBusy
               /\ (st = StInterrupted \/ st = StConverged \/ st = StMaxTime \/ st = StMaxIter \/ st = StNotFinite \/ st = StNoProgress).
  Proof. exact run_stops_at_request. Qed.

  Theorem C19_interrupted_only_after_request :
    forall opts_tol max_iter max_no_progress eps_at te_at sr_at same_at fuel k np r,
    run opts_tol max_iter max_no_progress eps_at te_at sr_at same_at fuel k np = Some (r, StInterrupted) -> sr_at r = true.
  Proof. exact run_interrupted_only_after_request. Qed.

  (* PANOC-OCP's copy of the chain behaves identically *)
  Theorem C19_ocp_chain_same : forall opts_tol eps te it mi np mnp sr,
    stop_status_ocp opts_tol eps te it mi np mnp sr = stop_status_helpers opts_tol eps te it mi np mnp sr.
  Proof. exact ocp_chain_same. Qed.
End C19.
Print Assumptions C19_stop_request_never_busy.
Print Assumptions C19_loop_returns_at_first_check_after_request.
Print Assumptions C19_interrupted_only_after_request.

(* Interrupted exits overwrite the outputs like Converged does (so the C03 relations hold for them) *)
Theorem C19_interrupted_overwrites : forall always, overwrites StInterrupted always = true.
Proof. intros; reflexivity. Qed.

(* ALM: an Interrupted inner solve is the last one — no further inner call, status Interrupted *)
Theorem C19_alm_stops_after_interrupted : forall (P : alm_params) pb f0 g0 nanv Σ0 y0 script,
  p_max_iter P <> 0%nat -> pb_m pb <> 0%nat ->
  f_exhausted (snd (alm_run P pb f0 g0 nanv Σ0 y0 script)) = false ->
  exists (pre : list iter_rec) (r : iter_rec), fst (alm_run P pb f0 g0 nanv Σ0 y0 script) = pre ++ [r] /\
    Forall (fun a => ir_status (it_res a) <> Interrupted) pre /\
    (f_status (snd (alm_run P pb f0 g0 nanv Σ0 y0 script)) = Interrupted <-> ir_status (it_res r) = Interrupted).
Proof. exact run_interrupted_immediate. Qed.
Print Assumptions C19_alm_stops_after_interrupted.

Example C19_nonvacuous :
  stop_status_helpers (T:=R) (1/2)%R 1%R false 4 5 0 10 true = StInterrupted.
Proof.
  unfold stop_status_helpers. numR. rbool; try reflexivity; exfalso; Lra.lra.
Qed.
