(* Corr_LmqrGen.v — translation validation of translator G12 (translate/gen_lmqr.py) at binary64: the GENERATED functions of
   coq/gen/LmqrGen.v (run on the container of LmqrGenInst.v: gq_step / ga_step) against the records of the real
   LimitedMemoryQR / AndersonAccel that drv_C10 produced — the same cases and observables as Corr_C10.chk10, but none of the
   hand-model functions of LMQR.v is involved: operations, ring iteration order (generated begin / end / ++ / == of the
   circular iterators), get_Q are all the generated ones.  The upper triangle of R is read from the container by plain
   indexing (logical column j = storage column (head + j) mod m, as python does from get_raw_R). *)
From Coq Require Import Floats List ZArith Bool Arith.
From Alpaqa Require Import Num NumF Vec LMQR LmqrGenLib LmqrGen LmqrGenInst Corr_C10.
Import ListNotations.

Notation GO := (@lmqr_ops float _).

(* the indices visited by `for (auto [i, c] : ring_iter())` / by the reverse range, with the generated iterator operations *)
Definition g_fwd_list (st : qrst float) : list (nat * nat) :=
  let f := gfN st in
  let rg := g_ring_iter GO gfS f st in
  let e := g_range_end GO gfS f rg in
  rev (snd (while_c (S f) (fun '(it, acc) => negb (g_ci_eq GO gfS f it e))
                    (fun '(it, acc) => (g_cit_incr GO gfS f it, ci_idx it :: acc)) (g_range_begin GO gfS f rg, []))).
Definition g_rev_list (st : qrst float) : list (nat * nat) :=
  let f := gfN st in
  let rg := g_ring_iter GO gfS f st in
  let e := g_rrange_end GO gfS f rg in
  rev (snd (while_c (S f) (fun '(it, acc) => negb (g_ci_eq GO gfS f it e))
                    (fun '(it, acc) => (g_rit_incr GO gfS f it, ci_idx (g_rit_deref GO gfS f it) :: acc)) (g_rrange_begin GO gfS f rg, []))).

Definition gR_upper (st : qrst float) : list (list float) :=
  map (fun j => firstn (S j) (getc (Rs st) ((g_ring_head GO gfS 0 st + j) mod g_m GO gfS 0 st))) (seq 0 (g_num_columns GO gfS 0 st)).

Definition gchk_snap (st : qrst float) (s : snap) : bool :=
  Nat.eqb (g_num_columns GO gfS 0 st) (s_qi s) && Nat.eqb (g_ring_head GO gfS 0 st) (s_head s) && Nat.eqb (g_ring_tail GO gfS 0 st) (s_tail s) &&
  Nat.eqb (g_current_history GO gfS 0 st) (s_qi s) &&
  list_agree vfeqn (g_get_Q GO gfS 0 st) (s_Q s) && list_agree vfeqn (gR_upper st) (s_R s) &&
  oeig (g_get_min_eig GO gfS 0 st) (s_min s) && oeig (g_get_max_eig GO gfS 0 st) (s_max s) && Nat.eqb (reorth st) (s_reorth s) &&
  list_agree pair_eqb (g_fwd_list st) (s_it s) && list_agree pair_eqb (g_rev_list st) (s_rit s).

Definition gsnap_of (st : qrst float) :=
  (q_idx st, r_start st, r_end st, g_get_Q GO gfS 0 st, gR_upper st, min_eig st, max_eig st, reorth st, g_fwd_list st, g_rev_list st).

Definition gop_of (o : qrop) : gqop :=
  match o with OAdd v => GAdd v | ORem => GRem | OReset => GReset | OScale s => GScale s | OSolve b tol _ => GSolve b tol end.

Fixpoint gq_run (stx : qrst float * list float) (steps : list (qrop * snap)) : bool :=
  match steps with
  | [] => true
  | (o, s) :: rest =>
      let '(st', x') := gq_step stx (gop_of o) in
      (match o with OSolve _ _ xi => vfeqn x' xi | _ => true end) && gchk_snap st' s && gq_run (st', x') rest
  end.
Fixpoint gq_trace (stx : qrst float * list float) (steps : list (qrop * snap)) :=
  match steps with
  | [] => []
  | (o, s) :: rest =>
      let '(st', x') := gq_step stx (gop_of o) in
      (gchk_snap st' s, gsnap_of st', x') :: gq_trace (st', x') rest
  end.

Definition gaop_of (o : aaop) : gaop :=
  match o with AInit g r => GAInit g r | ACompute g r _ _ => GACompute g r | AReset => GAReset | AScale s => GAScale s end.

Fixpoint ga_run (mem : nat) (a : aast float) (steps : list (aaop * snap)) : bool :=
  match steps with
  | [] => true
  | (o, s) :: rest =>
      match ga_step mem a (gaop_of o) with
      | Some (a', x) =>
          (match o with ACompute _ _ exc xaa => negb exc && vfeqn x xaa | _ => true end) && gchk_snap (a_qr a') s && ga_run mem a' rest
      | None => (match o with ACompute _ _ exc _ => exc | _ => false end) && gchk_snap (a_qr a) s && ga_run mem a rest
      end
  end.
Fixpoint ga_trace (mem : nat) (a : aast float) (steps : list (aaop * snap)) :=
  match steps with
  | [] => []
  | (o, s) :: rest =>
      match ga_step mem a (gaop_of o) with
      | Some (a', x) => (true, gchk_snap (a_qr a') s, gsnap_of (a_qr a'), x) :: ga_trace mem a' rest
      | None => (false, gchk_snap (a_qr a) s, gsnap_of (a_qr a), []) :: ga_trace mem a rest
      end
  end.

Definition chk10g (c : c10case) : bool :=
  match c with
  | CQR n m steps => gq_run (gqr_new n m, repeat 0%float m) steps
  | CAA n mem mdf steps => ga_run mem (gaa_new n mem mdf) steps
  end.
Definition model10g (c : c10case) :=
  match c with
  | CQR n m steps => (map (fun t => (true, t)) (gq_trace (gqr_new n m, repeat 0%float m) steps), [])
  | CAA n mem mdf steps => ([], ga_trace mem (gaa_new n mem mdf) steps)
  end.
