(* PanocDirLen.v — the LENGTH invariant of PANOC with a STATEFUL direction provider (PanocDir.panocD), over R, for every provider
   (Directions.dirops) that keeps dimensions: given a predicate Iv on provider states such that
     initialize establishes Iv;  update / changed_γ / reset preserve it;  apply preserves it and returns (when it returns true) a vector
     of length n  —  each under the premise that the vectors it is handed have length n,
   every reachable state of the loop has a `good` current iterate (PanocLen.good: x, ∇ψ(x), x̂, p of length n, valid ∇ψ(x̂) buffer), the
   provider satisfies Iv from the first `initialize` on, and every accepted apply result recorded in the trace has length n.
   With the refinement theorem (PanocDirProofs.panocD_refines_R: the run IS the run of the oracle model Panoc.panoc for the oracle
   "j-th apply result of this run") the direction-length hypothesis of PanocLen.panoc_inner_contract_len is thereby DISCHARGED, which
   gives the inner contract with dimensions for PANOC with any such provider.
   LBFGSDirection is such a provider (section LbfgsProvider: Iv = ring-buffer invariant + every stored pair has length n; apply is the
   two-loop recursion over the stored pairs, LbfgsProofs.apply_is_TLrec, hence returns a vector of the length of p). *)
From Coq Require Import Reals List ZArith Lra Lia Bool Arith Psatz.
From Flocq Require Import Raux.
From Alpaqa Require Import Num NumR Vec Prox ProxProofs ProxVec SolverStatus SolverKernels SolverKernelsProofs DescentProofs
                           StopChain StopChainProofs LoopSkeleton KktProofs Panoc PanocProofs PanocLen LiveVec
                           Lbfgs LbfgsProofs Directions PanocDir PanocDirProofs.
Import ListNotations.
Local Open Scope R_scope.

Section DirLen.
  Variable psi_grad_full : list R -> R * list R * list R.
  Variable psi_yhat : list R -> R * list R.
  Variable grad_L : list R -> list R -> list R.
  Variable grad_psi : list R -> list R.
  Variables (lb ub : list (option R)) (l1 : list R).
  Variable D : Type.
  Variable ops : dirops R D.
  Variable stop_req : counters -> bool.
  Variable time_up : counters -> bool.
  Variable P : Panoc.params (T:=R).
  Variables (x_in y_in Σ errz_in : list R).
  Variable ls_fuel : nat.
  Variable d0 : D.

  Variable n : nat.
  Hypothesis Hl1 : l1 = [].
  Hypothesis Hlb : length lb = n.
  Hypothesis Hub : length ub = n.
  Hypothesis Hxin : length x_in = n.
  Hypothesis Hpg : forall x, length x = n -> length (snd (psi_grad psi_grad_full x)) = n.
  Hypothesis HgL : forall x yh, length x = n -> length (grad_L x yh) = n.
  Hypothesis Hgp : forall x, length x = n -> length (grad_psi x) = n.

  (* the provider keeps dimensions *)
  Variable Iv : D -> Prop.
  Hypothesis I_init : forall d y S γ x xh p g d', length x = n -> length xh = n -> length p = n -> length g = n ->
    d_initialize D ops d y S γ x xh p g = Some d' -> Iv d'.
  Hypothesis I_update : forall d γ γn x xn p pn g gn, Iv d ->
    length x = n -> length xn = n -> length p = n -> length pn = n -> length g = n -> length gn = n ->
    Iv (snd (d_update D ops d γ γn x xn p pn g gn)).
  Hypothesis I_apply : forall d γ x xh p g q b q' d', Iv d -> length x = n -> length xh = n -> length p = n -> length g = n ->
    d_apply D ops d γ x xh p g q = Some (b, q', d') -> Iv d' /\ (b = true -> length q' = n).
  Hypothesis I_changed : forall d a b, Iv d -> Iv (d_changed_gamma D ops d a b).
  Hypothesis I_reset : forall d, Iv d -> Iv (d_reset D ops d).

  Notation it := (iterate (T:=R)).
  Notation eprox := (eval_prox lb ub l1).
  Notation epsih := (eval_psih psi_grad_full psi_yhat P).
  Notation lsloop := (ls_loop psi_grad_full psi_yhat grad_L grad_psi lb ub l1 stop_req P).
  Notation lsloopD := (ls_loopD psi_grad_full psi_yhat grad_L grad_psi lb ub l1 D ops stop_req P).
  Notation passD_ := (passD psi_grad_full psi_yhat grad_L grad_psi lb ub l1 D ops stop_req time_up P x_in y_in Σ errz_in ls_fuel).
  Notation loopD_ := (loopD psi_grad_full psi_yhat grad_L grad_psi lb ub l1 D ops stop_req time_up P x_in y_in Σ errz_in ls_fuel).
  Notation panocD_ := (panocD psi_grad_full psi_yhat grad_L grad_psi lb ub l1 D ops stop_req time_up P x_in y_in Σ errz_in ls_fuel d0).
  Notation reachableD_ := (reachableD psi_grad_full psi_yhat grad_L grad_psi lb ub l1 D ops stop_req time_up P x_in y_in Σ errz_in ls_fuel d0).
  Notation hasinit := (d_has_initial D ops).
  Notation Good := (good psi_grad_full grad_L grad_psi P n).
  Notation GoodX := (good_x n).
  Notation LenI_ := (LenI psi_grad_full grad_L grad_psi P n).
  Notation Linit := (L_init psi_grad_full grad_psi P x_in).

  Lemma good_lens (i : it) : Good i -> length (ix i) = n /\ length (igrad i) = n /\ length (ixh i) = n /\ length (ip i) = n.
  Proof. intros ((A & B) & C & E & _). repeat split; assumption. Qed.

  (* eval_prox_grad_step on an iterate with x, ∇ψ(x) of length n *)
  Lemma eprox_lens (i : it) : GoodX i ->
    length (ix (eprox i)) = n /\ length (igrad (eprox i)) = n /\ length (ixh (eprox i)) = n /\ length (ip (eprox i)) = n.
  Proof.
    intros [Hx Hg]. unfold eval_prox. rewrite Hl1. cbn [eval_prox_grad_step].
    destruct (proj_grad_step_length lb ub (igam i) (ix i) (igrad i) n Hlb Hub Hx Hg) as [Lxh Lp].
    cbn [ix ixh igrad ip]. repeat split; assumption.
  Qed.

  Lemma dir_update_I d (a b : it) : Iv d ->
    length (ix a) = n -> length (ip a) = n -> length (igrad a) = n ->
    length (ix b) = n -> length (ip b) = n -> length (igrad b) = n ->
    Iv (snd (dir_update D ops d a b)).
  Proof. intros Hd A1 A2 A3 B1 B2 B3. unfold dir_update. apply I_update; assumption. Qed.

  (* ---- line search: the provider component (the iterate component is PanocLen.ls_len through ls_loopD_fst) *)
  Lemma ls_lenD q τi : (τi = 0 \/ τi = 1) -> (τi = 1 -> length q = n) -> forall fuel s d rej, LenI_ τi s -> Iv d ->
    Iv (snd (fst (lsloopD fuel q τi s d rej))).
  Proof.
    intros Hτi Hq. induction fuel as [|fuel IH]; intros s d rej HI Hd; [exact Hd|].
    cbn [ls_loopD]. destruct (stop_req (ls_cnt s)); [exact Hd|].
    change (@nltb R NumR) with Rlt_bool. change (@neqb R NumR) with Req_bool. change (@nleb R NumR) with Rle_bool.
    change (@n0 R NumR) with 0. change (@n1 R NumR) with 1.
    set (τ := ls_tau s) in *.
    set (ph := if Req_bool τ (ls_tau_prev s) then (ls_curr s, ls_next s, inc_polls (ls_cnt s))
               else if Req_bool τ 0 then take_safe_step grad_L grad_psi P (ls_curr s) (ls_next s) (inc_polls (ls_cnt s))
               else (ls_curr s, take_accel_step psi_grad_full τ q (ls_curr s) (ls_next s), inc_pg (inc_polls (ls_cnt s)))).
    destruct HI as (Hc & Hn & Hz). fold τ in Hn, Hz.
    assert (F : Good (fst (fst ph)) /\ GoodX (snd (fst ph))).
    { subst ph. destruct (Req_bool_spec τ (ls_tau_prev s)) as [Et|Et].
      - cbn [fst snd]. split; [exact Hc|]. destruct Hn as [Hn|[Hp Ht]]; [exact Hn|].
        exfalso. fold τ in Ht. rewrite Ht, Hp in Et. destruct Hτi; lra.
      - destruct (Req_bool_spec τ 0) as [E0|E0].
        + apply (safe_step_good psi_grad_full grad_L grad_psi P n HgL Hgp), Hc.
        + cbn [fst snd]. split; [exact Hc|]. apply (accel_step_good psi_grad_full grad_L grad_psi P n Hpg); [exact Hc|]. apply Hq.
          destruct Hτi as [Ei|Ei]; [|exact Ei]. exfalso. apply E0, Hz, Ei. }
    destruct ph as [[curr next] c1]. cbn [fst snd] in F. destruct F as (Fc & Fn).
    match goal with |- context [if ?b then lsloopD fuel q τi ?s1 ?d1 ?r1 else _] => destruct b eqn:Efail; [apply (IH s1 d1 r1)|] end.
    { unfold LenI; cbn [ls_curr ls_next ls_tau ls_tau_prev]. split; [exact Fc|]. split; [left; exact Fn|]. reflexivity. }
    { apply I_reset, Hd. }
    set (next1 := epsih (eprox next)).
    assert (N1 : Good next1) by (apply (prox_psih_good psi_grad_full psi_yhat grad_L grad_psi lb ub l1 P n Hl1 Hlb Hub Hpg), Fn).
    match goal with |- context [if ?b then lsloopD fuel q τi ?s1 ?d1 ?r1 else _] => destruct b eqn:Equb; [apply (IH s1 d1 r1)|] end.
    { unfold LenI; cbn [ls_curr ls_next ls_tau ls_tau_prev]. split; [exact Fc|]. split; [left; apply halve_good_x, N1|].
      intros Ei. destruct (Rlt_bool_spec 0 τ) as [Hp|Hp]; [exact Ei|apply Hz, Ei]. }
    { exact Hd. }
    destruct (good_lens _ Fc) as (C1 & C2 & _ & C4). destruct (good_lens _ N1) as (M1 & M2 & _ & M4).
    assert (Hu : Iv (snd (if ls_upd s && negb (ls_updated s) then dir_update D ops d curr next1 else (true, d)))).
    { destruct (ls_upd s && negb (ls_updated s)); [apply dir_update_I; assumption|exact Hd]. }
    match goal with |- context [if ?b then lsloopD fuel q τi ?s1 ?d1 ?r1 else _] => destruct b eqn:Els; [apply (IH s1 d1 r1)|] end.
    { unfold LenI; cbn [ls_curr ls_next ls_tau ls_tau_prev]. split; [exact Fc|]. split; [left; apply N1|].
      intros Ei. exfalso. apply andb_prop in Els. destruct Els as [Hpos _]. apply Rlt_bool_iff in Hpos.
      specialize (Hz Ei). lra. }
    { exact Hu. }
    cbn [fst snd]. exact Hu.
  Qed.

  (* ---- the invariant at the top of `while (true)` *)
  Definition oklen (r : option (list R)) : Prop := forall q, r = Some q -> length q = n.
  Definition goodD (sD : lstateD (T:=R) D) : Prop :=
    Good (st_curr (sd_st D sD)) /\ (st_k (sd_st D sD) = 0%nat \/ Iv (sd_dir D sD)) /\ Forall oklen (sd_trace D sD).

  Lemma passD_len sD : goodD sD -> match passD_ sD with PContD _ sD' => goodD sD' | _ => True end.
  Proof.
    destruct sD as [[curr0 next0 k np q0 cnt stats log] d rej tr]. unfold goodD. cbn [sd_st sd_dir sd_trace st_curr st_k].
    intros (Hg & Hk & Htr).
    unfold passD. cbn [sd_st sd_dir sd_rej sd_trace st_curr st_next st_k st_np st_q st_cnt st_stats st_log].
    match goal with |- context [stop_status_helpers ?a ?b ?c ?d ?e ?f ?g ?h] => destruct (stop_status_helpers a b c d e f g h) end.
    2-8: (cbv zeta; match goal with |- context [exit_block ?a ?b ?c ?d ?e ?f ?g ?h] => destruct (exit_block a b c d e f g h) as [[xo yo] eo] end; exact I).
    set (curr := if need_gradh P && negb (ihave curr0) then eval_gradh grad_L grad_psi P curr0 else curr0).
    assert (Cg : Good curr).
    { subst curr. destruct (need_gradh P && negb (ihave curr0)); [apply (egradh_good psi_grad_full grad_L grad_psi P n HgL Hgp), Hg|exact Hg]. }
    destruct (good_lens _ Cg) as (C1 & C2 & C3 & C4).
    destruct (if (k =? 0)%nat then d_initialize D ops d y_in Σ (igam curr) (ix curr) (ixh curr) (ip curr) (igrad curr) else Some d)
      as [d1|] eqn:Ed1; [|exact I].
    assert (H1 : Iv d1).
    { destruct (Nat.eqb_spec k 0) as [Ek|Ek]; [exact (I_init _ _ _ _ _ _ _ _ _ C1 C3 C4 C2 Ed1)|].
      injection Ed1 as <-. destruct Hk as [Hk|Hk]; [contradiction|exact Hk]. }
    change (@n0 R NumR) with 0. change (@n1 R NumR) with 1. change (@nopp R NumR) with Ropp. change (@neqb R NumR) with Req_bool.
    unfold dir_phase.
    destruct ((0 <? k)%nat || hasinit) eqn:Euse.
    - destruct (d_apply D ops d1 (igam curr) (ix curr) (ixh curr) (ip curr) (igrad curr) q0) as [[[b q'] d2]|] eqn:Ea; [|exact I].
      destruct (I_apply _ _ _ _ _ _ _ _ _ _ H1 C1 C3 C4 C2 Ea) as [H2 Hq'].
      set (r := if b then Some q' else None).
      set (τi := match r with Some q'' => if vall_finite q'' then 1 else 0 | None => 0 end).
      assert (Hτ : τi = 0 \/ τi = 1) by (subst τi; destruct r as [q''|]; [destruct (vall_finite q'')|]; auto).
      assert (Hq : τi = 1 -> length q' = n).
      { subst τi r. destruct b; [intros _; apply Hq'; reflexivity|intros; lra]. }
      assert (Hr : oklen r) by (subst r; destruct b; intros q'' E; [injection E as <-; apply Hq'; reflexivity|discriminate]).
      assert (Htr' : Forall oklen (tr ++ [r])) by (apply Forall_app; split; [exact Htr|constructor; [exact Hr|constructor]]).
      match goal with |- context [lsloopD ls_fuel q' τi ?l0 ?d3 ?rj] =>
        set (ls0 := l0);
        assert (H3 : Iv d3) by (destruct (true && negb (Req_bool τi 1)); [apply I_reset, H2|exact H2]);
        assert (HI : LenI_ τi ls0) by
          (subst ls0; unfold LenI; cbn [ls_curr ls_next ls_tau ls_tau_prev]; split; [exact Cg|]; split; [right; split; reflexivity|]; intros E; exact E);
        pose proof (ls_lenD q' τi Hτ Hq ls_fuel ls0 d3 rj HI H3) as H4;
        pose proof (ls_len psi_grad_full psi_yhat grad_L grad_psi lb ub l1 stop_req P n Hl1 Hlb Hub Hpg HgL Hgp q' τi Hτ Hq ls_fuel ls0 HI) as Hls;
        rewrite <- (ls_loopD_fst psi_grad_full psi_yhat grad_L grad_psi lb ub l1 D ops stop_req P ls_fuel q' τi ls0 d3 rj) in Hls;
        destruct (lsloopD ls_fuel q' τi ls0 d3 rj) as [[lr d4] rej4]
      end.
      cbn [fst snd] in H4, Hls. destruct lr as [l|l|]; [| |exact I].
      + (* line search completed *)
        destruct Hls as [Lc Ln]. cbn [sd_st sd_dir sd_trace st_curr st_k].
        split; [exact Ln|]. split; [right|exact Htr'].
        destruct (good_lens _ Lc) as (A1 & A2 & _ & A4). destruct (good_lens _ Ln) as (B1 & B2 & _ & B4).
        destruct (ls_updated l); cbn [negb andb snd]; [exact H4|].
        set (ch := negb (Req_bool (igam (ls_curr l)) (igam (ls_next l)))).
        assert (H5 : Iv (if ch then d_changed_gamma D ops d4 (igam (ls_next l)) (igam (ls_curr l)) else d4))
          by (destruct ch; [apply I_changed, H4|exact H4]).
        destruct (ch && p_recompute P).
        * destruct (eprox_lens (set_gamma_L (ls_curr l) (igam (ls_next l)) (iL (ls_next l)))) as (E1 & E2 & _ & E4); [split; [exact A1|exact A2]|].
          apply dir_update_I; assumption.
        * apply dir_update_I; assumption.
      + (* interrupted *)
        cbn [sd_st sd_dir sd_trace st_curr st_k]. split; [exact Hls|]. split; [right; exact H4|exact Htr'].
    - cbn [andb].
      assert (Hτ : 0 = 0 \/ 0 = 1) by (left; reflexivity).
      assert (Hq : 0 = 1 -> length q0 = n) by (intros; lra).
      match goal with |- context [lsloopD ls_fuel q0 0 ?l0 ?d3 ?rj] =>
        set (ls0 := l0);
        assert (HI : LenI_ 0 ls0) by
          (subst ls0; unfold LenI; cbn [ls_curr ls_next ls_tau ls_tau_prev]; split; [exact Cg|]; split; [right; split; reflexivity|]; intros E; exact E);
        pose proof (ls_lenD q0 0 Hτ Hq ls_fuel ls0 d3 rj HI H1) as H4;
        pose proof (ls_len psi_grad_full psi_yhat grad_L grad_psi lb ub l1 stop_req P n Hl1 Hlb Hub Hpg HgL Hgp q0 0 Hτ Hq ls_fuel ls0 HI) as Hls;
        rewrite <- (ls_loopD_fst psi_grad_full psi_yhat grad_L grad_psi lb ub l1 D ops stop_req P ls_fuel q0 0 ls0 d3 rj) in Hls;
        destruct (lsloopD ls_fuel q0 0 ls0 d3 rj) as [[lr d4] rej4]
      end.
      cbn [fst snd] in H4, Hls. destruct lr as [l|l|]; [| |exact I].
      + destruct Hls as [Lc Ln]. cbn [sd_st sd_dir sd_trace st_curr st_k].
        split; [exact Ln|]. split; [right|exact Htr].
        destruct (good_lens _ Lc) as (A1 & A2 & _ & A4). destruct (good_lens _ Ln) as (B1 & B2 & _ & B4).
        destruct (ls_updated l); cbn [negb andb snd]; [exact H4|].
        set (ch := negb (Req_bool (igam (ls_curr l)) (igam (ls_next l)))).
        assert (H5 : Iv (if ch then d_changed_gamma D ops d4 (igam (ls_next l)) (igam (ls_curr l)) else d4))
          by (destruct ch; [apply I_changed, H4|exact H4]).
        destruct (ch && p_recompute P).
        * destruct (eprox_lens (set_gamma_L (ls_curr l) (igam (ls_next l)) (iL (ls_next l)))) as (E1 & E2 & _ & E4); [split; [exact A1|exact A2]|].
          apply dir_update_I; assumption.
        * apply dir_update_I; assumption.
      + cbn [sd_st sd_dir sd_trace st_curr st_k]. split; [exact Hls|]. split; [right; exact H4|exact Htr].
  Qed.

  Theorem reachableD_goodD sD : reachableD_ sD -> goodD sD.
  Proof.
    induction 1 as [i0 c0 i3 c1 s1 E0 Eq|sD sD' _ IH Ep].
    - unfold goodD. cbn [sd_st sd_dir sd_trace st_curr st_k]. split; [|split; [left; reflexivity|constructor]].
      eapply (init_qub_good psi_grad_full psi_yhat grad_L grad_psi lb ub l1 P n Hl1 Hlb Hub Hpg); [|exact Eq].
      apply (prox_psih_good psi_grad_full psi_yhat grad_L grad_psi lb ub l1 P n Hl1 Hlb Hub Hpg).
      pose proof (initL_good_x psi_grad_full grad_psi P x_in n Hxin Hpg) as H0. rewrite E0 in H0. exact H0.
    - pose proof (passD_len sD IH) as Hp. now rewrite Ep in Hp.
  Qed.

  (* ---- every completed run ends in an exit pass from a reachable state *)
  Lemma loopD_exit : forall fuel sD oD, reachableD_ sD -> loopD_ fuel sD = DoneD D oD -> exists sD', reachableD_ sD' /\ passD_ sD' = PExitD D oD.
  Proof.
    induction fuel as [|fuel IH]; intros sD oD Hr; cbn [loopD]; [discriminate|].
    destruct (passD_ sD) as [o'|sD'| |] eqn:Ep.
    - intros E. inversion E; subst. exists sD. split; assumption.
    - apply IH. eapply reachD_step; eassumption.
    - discriminate.
    - discriminate.
  Qed.
  Theorem panocD_exit_pass fuel oD : panocD_ fuel = DoneD D oD -> exists sD, reachableD_ sD /\ passD_ sD = PExitD D oD.
  Proof.
    unfold panocD. destruct (init_L psi_grad_full grad_psi P x_in) as [i0 c0] eqn:E0.
    destruct (negb (nfinite (iL i0))); [discriminate|].
    destruct (init_qub psi_grad_full psi_yhat lb ub l1 P ls_fuel _ (cnt_psih P c0) stats0) as [[[i3 c1] s1]|] eqn:Eq; [|discriminate].
    apply loopD_exit. eapply reachD_init; eassumption.
  Qed.

  (* every accepted apply result of a completed run has length n *)
  Theorem panocD_trace_len fuel oD : panocD_ fuel = DoneD D oD -> Forall oklen (od_trace D oD).
  Proof.
    intros Hr. destruct (panocD_exit_pass fuel oD Hr) as (sD & Hreach & Hp).
    destruct (reachableD_goodD sD Hreach) as (_ & _ & Htr).
    pose proof (reachableD_inv eq00R lt00R psi_grad_full psi_yhat grad_L grad_psi lb ub l1 D ops stop_req time_up P x_in y_in Σ errz_in ls_fuel d0 sD Hreach) as Hi.
    pose proof (passD_inv eq00R lt00R psi_grad_full psi_yhat grad_L grad_psi lb ub l1 D ops stop_req time_up P x_in y_in Σ errz_in ls_fuel sD Hi) as Hpi.
    rewrite Hp in Hpi. rewrite Hpi. exact Htr.
  Qed.

  (* the oracle read off the trace returns n-vectors: the direction-length hypothesis of PanocLen is discharged *)
  Lemma oracle_len (tr : list (option (list R))) (O : nat -> it -> option (list R)) :
    Forall oklen tr -> (forall j i, O j i = nth j tr None) -> forall j i q, O j i = Some q -> length q = n.
  Proof.
    intros Htr HO j i q E. rewrite HO in E.
    destruct (Nat.lt_ge_cases j (length tr)) as [Hj|Hj].
    - rewrite Forall_forall in Htr. apply (Htr (nth j tr None)); [apply nth_In, Hj|exact E].
    - rewrite nth_overflow in E by exact Hj. discriminate.
  Qed.

  (* ---- the primal buffer after any completed run has length n *)
  Theorem panocD_out_x_length fuel oD : panocD_ fuel = DoneD D oD -> length (out_x (od_out D oD)) = n.
  Proof.
    intros Hr. pose proof (panocD_trace_len fuel oD Hr) as Htr.
    destruct (panocD_refines_R psi_grad_full psi_yhat grad_L grad_psi lb ub l1 D ops stop_req time_up P x_in y_in Σ errz_in ls_fuel d0 fuel oD Hr)
      as (O & o & HO & Eo & (_ & _ & _ & E4 & _)).
    rewrite E4.
    exact (panoc_out_x_length psi_grad_full psi_yhat grad_L grad_psi lb ub l1 O hasinit stop_req time_up P x_in y_in Σ errz_in ls_fuel n
             Hl1 Hlb Hub Hxin Hpg HgL Hgp (oracle_len _ O Htr HO) fuel o Eo).
  Qed.

  (* ---- the inner contract with dimensions, for PANOC with the provider *)
  Theorem panocD_inner_contract_len fuel oD : panocD_ fuel = DoneD D oD ->
    let o := od_out D oD in
    out_status o = StConverged -> p_crit P = ApproxKKT ->
    exists (x grad gradh : list R) (γ : R),
      let step := proj_grad_step lb ub γ x grad in
      length x = n /\ length grad = n /\ length gradh = n /\
      out_x o = fst (fst step) /\ length (out_x o) = n /\
      out_y o = snd (psi_yhat (out_x o)) /\
      (if p_eager P then gradh = snd (psi_grad psi_grad_full (out_x o)) \/ gradh = grad_psi (out_x o) else gradh = grad_L (out_x o) (out_y o)) /\
      out_errz o = match errz_in with [] => [] | _ => vdiv (vsub (out_y o) y_in) Σ end /\
      out_eps o = vnorminf (kkt_residual γ (snd (fst step)) grad gradh) /\
      out_eps o <= eff_tol (o_tol P) /\
      (0 < p_Lgamma P -> 0 < Linit -> 0 < γ).
  Proof.
    intros Hr. pose proof (panocD_trace_len fuel oD Hr) as Htr.
    destruct (panocD_refines_R psi_grad_full psi_yhat grad_L grad_psi lb ub l1 D ops stop_req time_up P x_in y_in Σ errz_in ls_fuel d0 fuel oD Hr)
      as (O & o & HO & Eo & (E1 & _ & E3 & E4 & E5 & E6 & _)).
    cbv zeta. rewrite E1, E3, E4, E5, E6.
    exact (panoc_inner_contract_len psi_grad_full psi_yhat grad_L grad_psi lb ub l1 O hasinit stop_req time_up P x_in y_in Σ errz_in ls_fuel n
             Hl1 Hlb Hub Hxin Hpg HgL Hgp (oracle_len _ O Htr HO) fuel o Eo).
  Qed.
End DirLen.

(* ================================================================ LBFGSDirection keeps dimensions *)
Section LbfgsProvider.
  Variable n : nat.
  Variable pw : R -> R -> R.
  Variable LP : Lbfgs.params R.
  Variable rescale : bool.

  Notation pair3 := (list R * list R * option R)%type.
  Definition pair_len (t : pair3) : Prop := length (fst (fst t)) = n /\ length (snd (fst t)) = n.
  (* ring-buffer invariant (LbfgsProofs.inv) + every stored pair (s, y) has length n *)
  Definition lbfgs_Iv (st : Lbfgs.state R) : Prop := inv LP st /\ Forall pair_len (hist3 st).

  Lemma axmy_length a (x q : list R) : length x = n -> length q = n -> length (axmy a x q) = n.
  Proof. intros Hx Hq. unfold axmy, vsub. apply map2_length; [exact Hq|]. now rewrite vscale_length. Qed.

  Lemma TLrec_length (l : list (slot R)) : Forall (fun sl => pair_len (syρ sl)) l -> forall γ v, length v = n -> length (TLrec l γ v) = n.
  Proof.
    induction 1 as [|sl l [Hs Hy] _ IH]; intros γ v Hv; cbn [TLrec]; [now rewrite vscale_length|].
    cbn zeta. cbn [syρ fst snd] in Hs, Hy. apply axmy_length; [exact Hs|]. apply IH. apply axmy_length; assumption.
  Qed.

  Lemma lbfgs_apply_length st p γ : lbfgs_Iv st -> length p = n ->
    let r := Lbfgs.apply LP st p γ in lbfgs_Iv (snd r) /\ (fst (fst r) = true -> length (snd (fst r)) = n).
  Proof.
    intros [Hinv Hh] Hp r. subst r. destruct (apply_spec LP st p γ) as (Hs & Hh3 & Hemp). split.
    - split; [eapply same_shape_inv; eassumption|]. rewrite Hh3. exact Hh.
    - destruct (is_empty st) eqn:He.
      + rewrite (Hemp eq_refl). cbn [fst snd]. discriminate.
      + intros _. destruct (apply_is_TLrec LP st p γ Hinv He) as [_ E]. rewrite E. apply TLrec_length; [|exact Hp].
        unfold hist3 in Hh. rewrite Forall_map in Hh. apply Forall_rev. exact Hh.
  Qed.

  Lemma lbfgs_update_Iv st x xn p pn sp forced : lbfgs_Iv st -> length x = n -> length xn = n -> length p = n -> length pn = n ->
    lbfgs_Iv (snd (Lbfgs.update pw LP st x xn p pn sp forced)).
  Proof.
    intros [Hinv Hh] Hx Hxn Hp Hpn. unfold Lbfgs.update.
    set (s := vsub xn x). set (y := if sp then vsub pn p else vsub p pn). set (pp := if cbfgs_on LP then vsqnorm pn else n0).
    destruct (update_sy_spec pw LP st s y pp forced Hinv) as (_ & Hi & Hf & Ht). cbv zeta in *.
    split; [exact Hi|].
    destruct (fst (update_sy pw LP st s y pp forced)) eqn:Eb.
    - rewrite (Ht eq_refl). apply Forall_push; [exact Hh|]. unfold pair_len; cbn [fst snd]. split.
      + unfold s, vsub. now apply map2_length.
      + unfold y, vsub. destruct sp; now apply map2_length.
    - rewrite (Hf eq_refl). exact Hh.
  Qed.

  Lemma lbfgs_reset_Iv st : lbfgs_Iv st -> lbfgs_Iv (Lbfgs.reset st).
  Proof. intros [Hinv _]. destruct (reset_spec LP st Hinv) as [A B]. split; [exact A|]. rewrite B. constructor. Qed.

  Lemma lbfgs_scale_Iv st f : lbfgs_Iv st -> lbfgs_Iv (Lbfgs.scale_y st f).
  Proof.
    intros [Hinv Hh]. destruct (scale_y_spec LP st f Hinv) as [A B]. split; [exact A|]. rewrite B.
    rewrite Forall_map. eapply Forall_impl; [|exact Hh]. intros t [H1 H2]. unfold pair_len, scale3; cbn [fst snd].
    split; [exact H1|]. now rewrite map_length.
  Qed.

  (* the five provider obligations of Section DirLen, for LBFGSDirection *)
  Theorem lbfgs_dir_keeps_dimensions :
    let ops := lbfgs_dir n pw LP rescale in
    (forall d y S γ x xh p g d', length x = n -> length xh = n -> length p = n -> length g = n ->
       d_initialize _ ops d y S γ x xh p g = Some d' -> lbfgs_Iv d') /\
    (forall d γ γn x xn p pn g gn, lbfgs_Iv d ->
       length x = n -> length xn = n -> length p = n -> length pn = n -> length g = n -> length gn = n ->
       lbfgs_Iv (snd (d_update _ ops d γ γn x xn p pn g gn))) /\
    (forall d γ x xh p g q b q' d', lbfgs_Iv d -> length x = n -> length xh = n -> length p = n -> length g = n ->
       d_apply _ ops d γ x xh p g q = Some (b, q', d') -> lbfgs_Iv d' /\ (b = true -> length q' = n)) /\
    (forall d a b, lbfgs_Iv d -> lbfgs_Iv (d_changed_gamma _ ops d a b)) /\
    (forall d, lbfgs_Iv d -> lbfgs_Iv (d_reset _ ops d)).
  Proof.
    cbv zeta. unfold lbfgs_dir. cbn [d_initialize d_update d_apply d_changed_gamma d_reset]. split; [|split; [|split; [|split]]].
    - intros d y S γ x xh p g d' _ _ _ _ E. split; [eapply resize_inv; exact E|]. rewrite (resize_hist3 _ _ _ E). constructor.
    - intros d γ γn x xn p pn g gn Hd Hx Hxn Hp Hpn _ _. now apply lbfgs_update_Iv.
    - intros d γ x xh p g q b q' d' Hd _ _ Hp _ E. injection E as E.
      pose proof (lbfgs_apply_length d p γ Hd Hp) as [A B]. rewrite E in A, B. cbn [fst snd] in A, B. split; assumption.
    - intros d a b Hd. destruct rescale; [now apply lbfgs_scale_Iv|now apply lbfgs_reset_Iv].
    - intros d Hd. now apply lbfgs_reset_Iv.
  Qed.
End LbfgsProvider.

(* NoopDirection keeps dimensions trivially (apply always returns false) *)
Lemma noop_dir_keeps_dimensions (n : nat) :
  let ops := noop_dir (T:=R) in let Iv := fun _ : unit => True in
  (forall d y S γ x xh p g d', length x = n -> length xh = n -> length p = n -> length g = n ->
     d_initialize _ ops d y S γ x xh p g = Some d' -> Iv d') /\
  (forall d γ γn x xn p pn g gn, Iv d ->
     length x = n -> length xn = n -> length p = n -> length pn = n -> length g = n -> length gn = n ->
     Iv (snd (d_update _ ops d γ γn x xn p pn g gn))) /\
  (forall d γ x xh p g q b q' d', Iv d -> length x = n -> length xh = n -> length p = n -> length g = n ->
     d_apply _ ops d γ x xh p g q = Some (b, q', d') -> Iv d' /\ (b = true -> length q' = n)) /\
  (forall d a b, Iv d -> Iv (d_changed_gamma _ ops d a b)) /\
  (forall d, Iv d -> Iv (d_reset _ ops d)).
Proof.
  cbv zeta. unfold noop_dir. cbn [d_initialize d_update d_apply d_changed_gamma d_reset]. repeat split; try exact I.
  intros Hb. injection H4 as <- _ _. discriminate.
Qed.
