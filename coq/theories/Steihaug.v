(* Steihaug.v — model of alpaqa::SteihaugCG<Conf>::solve / get_boundaries_intersections
   (src/alpaqa/include/alpaqa/accelerators/steihaugcg.hpp) and of NewtonTRDirection<Conf>::apply
   (inner/directions/pantr/newton-tr.hpp, exact-Hessian path).
   Polymorphic over Num: theorems at R (SteihaugProofs.v), execution at binary64 (Corr_C11.v).
   Operation order follows the C++ expressions (Eigen without vectorisation). NO proofs here. *)
From Coq Require Import List ZArith Bool.
From Alpaqa Require Import Num Vec.
Import ListNotations.

(* how solve() left its loop *)
Inductive cg_exit :=
| ExNegCurvA      (* dBd <= 0, boundary point z + ta d chosen *)
| ExNegCurvB      (* dBd <= 0, boundary point z + tb d chosen *)
| ExNaN           (* alpha not finite: step and value set to NaN *)
| ExBoundary      (* ||z + alpha d|| >= radius: boundary point z + tb d *)
| ExInterior      (* residual test or iteration cap *)
| ExZeroGrad      (* r_sq == 0 before the loop: zero step, value 0 (fix 756d57214) *)
| ExFuel.         (* model artefact: never returned (Theorem C11_terminates) *)

Definition cg_exit_eqb (a b : cg_exit) : bool :=
  match a, b with
  | ExNegCurvA, ExNegCurvA | ExNegCurvB, ExNegCurvB | ExNaN, ExNaN
  | ExBoundary, ExBoundary | ExInterior, ExInterior | ExFuel, ExFuel | ExZeroGrad, ExZeroGrad => true
  | _, _ => false
  end.

Section Steihaug.
  Context {T : Type} `{Num T}.
  Local Open Scope num_scope.

  (* std::copysign(x, s): magnitude of x, sign bit of s.  The sign bit of a zero is observed through 1/s
     (1/-0 = -inf < 0 at binary64; over R, 1/0 = 0 so a zero counts as positive). *)
  Definition nsignbit (s : T) : bool := (s <? n0) || ((s =? n0) && (n1 / s <? n0)).
  Definition ncopysign (x s : T) : T := if nsignbit s then - (nabs x) else nabs x.

  Definition nnan : T := n0 / n0.            (* NaN<config_t> at binary64; dead code over R *)
  Definition n4 : T := n2 + n2.

  (* get_boundaries_intersections(z, d, trust_radius) -> (fmin(ta,tb), fmax(ta,tb)) *)
  Definition bnd_intersections (z d : list T) (Δ : T) : T * T :=
    let a := vsqnorm d in
    let b := n2 * vdot z d in
    let c := vsqnorm z - Δ * Δ in
    let sd := nsqrt (b * b - n4 * a * c) in
    let aux := b + ncopysign sd b in
    let ta := (- aux) / (n2 * a) in
    let tb := ((- n2) * c) / aux in
    (nfmin ta tb, nfmax ta tb).

  (* parameters: tol_scale, tol_scale_root, tol_max (None = +inf), max_iter = (index_t) round(n * max_iter_factor) *)
  Record cg_params := { tol_scale : T; tol_scale_root : T; tol_max : option T; max_iter : Z }.

  Definition fmin_opt (a : option T) (b : T) : T := match a with None => b | Some x => nfmin x b end.

  Definition cg_tolerance (P : cg_params) (g : list T) : T :=
    let grad_mag := vnorm2 g in
    fmin_opt (tol_max P) (tol_scale P * grad_mag * nfmin (tol_scale_root P) (nsqrt grad_mag)).

  Section Solve.
    Variable B : list T -> list T.       (* hess_prod *)
    Variable g : list T.
    Variable Δ : T.
    Variable P : cg_params.

    (* eval(p) = p.dot(g) + 0.5 * p.dot(B p) *)
    Definition cg_eval (p : list T) : T := vdot p g + (n1 / n2) * vdot p (B p).

    Record cg_state := { st_z : list T; st_r : list T; st_d : list T; st_rsq : T }.
    Record cg_result := { res_step : list T; res_val : T; res_exit : cg_exit; res_iter : Z }.

    (* z + t d *)
    Definition axpy (z : list T) (t : T) (d : list T) : list T := vadd z (vscale t d).

    (* one pass through the body of `while (true)`; i = loop counter at the top of the body *)
    Definition cg_step (tol : T) (i : Z) (st : cg_state) : cg_result + cg_state :=
      let z := st_z st in let r := st_r st in let d := st_d st in let r_sq := st_rsq st in
      let Bd := B d in
      let dBd := vdot d Bd in
      if dBd <=? n0 then
        let '(ta, tb) := bnd_intersections z d Δ in
        let pa := axpy z ta d in
        let pb := axpy z tb d in
        let q_a := cg_eval pa in
        let q_b := cg_eval pb in
        let q_min := nfmin q_a q_b in
        if q_a =? q_min then inl {| res_step := pa; res_val := q_a; res_exit := ExNegCurvA; res_iter := i |}
        else inl {| res_step := pb; res_val := q_b; res_exit := ExNegCurvB; res_iter := i |}
      else
        let alpha := r_sq / dBd in
        if negb (nfinite alpha) then
          inl {| res_step := map (fun _ => nnan) z; res_val := nnan; res_exit := ExNaN; res_iter := i |}
        else
          let s := axpy z alpha d in
          if Δ <=? vnorm2 s then
            let '(ta, tb) := bnd_intersections z d Δ in
            let s' := axpy z tb d in
            inl {| res_step := s'; res_val := cg_eval s'; res_exit := ExBoundary; res_iter := i |}
          else
            let r' := axpy r alpha Bd in
            let r_next_sq := vsqnorm r' in
            let r_next := nsqrt r_next_sq in
            if (r_next <? tol) || (r_next =? n0) || (Z.ltb (max_iter P) i) then
              inl {| res_step := s; res_val := cg_eval s; res_exit := ExInterior; res_iter := i |}
            else
              let beta_next := r_next_sq / r_sq in
              inr {| st_z := s; st_r := r'; st_d := vsub (vscale beta_next d) r'; st_rsq := r_next_sq |}.

    Fixpoint cg_loop (fuel : nat) (tol : T) (i : Z) (st : cg_state) : cg_result :=
      match fuel with
      | O => {| res_step := st_z st; res_val := nnan; res_exit := ExFuel; res_iter := i |}
      | S f => match cg_step tol i st with
               | inl res => res
               | inr st' => cg_loop f tol (Z.succ i) st'
               end
      end.

    Definition cg_init : cg_state :=
      {| st_z := map (fun _ => n0) g; st_r := g; st_d := vneg g; st_rsq := vsqnorm g |}.

    (* the loop leaves at the latest when i = max_iter + 1 *)
    Definition cg_fuel : nat := S (S (Z.to_nat (max_iter P))).

    (* if (r_sq == 0) { s.setZero(); return 0; }  -- before the tolerance and the loop *)
    Definition cg_solve : cg_result :=
      if st_rsq cg_init =? n0 then
        {| res_step := map (fun _ => n0) g; res_val := n0; res_exit := ExZeroGrad; res_iter := 0%Z |}
      else cg_loop cg_fuel (cg_tolerance P g) 0%Z cg_init.

    (* number of hess_prod calls made by solve(): one per loop pass + the eval() calls of the exit *)
    Definition cg_hess_calls (r : cg_result) : Z :=
      match res_exit r with
      | ExZeroGrad => 0%Z
      | ExNegCurvA | ExNegCurvB => (res_iter r + 1 + 2)%Z
      | ExNaN | ExFuel => (res_iter r + 1)%Z
      | ExBoundary | ExInterior => (res_iter r + 1 + 1)%Z
      end.
  End Solve.

  (* dense symmetric operator: rows of the matrix; (B p)(i) = row_i . p *)
  Definition mat_vec (M : list (list T)) (p : list T) : list T := map (fun row => vdot row p) M.

  (* ------------------------------------------------------------------ NewtonTRDirection::apply
     exact-Hessian path (finite_diff = false).  J = inactive indices (ascending), given by the problem.
     H = hess_ψ_prod as an operator on full-length vectors. *)
  Definition gather (J : list nat) (v : list T) : list T := map (fun j => nth j v n0) J.          (* v(J) *)
  Fixpoint scatter_from (i : nat) (n : nat) (J : list nat) (p : list T) : list T :=               (* work.setZero(); work(J) = p *)
    match n with
    | O => []
    | S n' => match J, p with
              | j :: J', x :: p' => if Nat.eqb i j then x :: scatter_from (S i) n' J' p'
                                    else n0 :: scatter_from (S i) n' J p
              | _, _ => n0 :: scatter_from (S i) n' J p
              end
    end.
  Definition scatter (n : nat) (J : list nat) (p : list T) : list T := scatter_from 0 n J p.
  Definition memb (i : nat) (J : list nat) : bool := existsb (Nat.eqb i) J.
  (* q(K) = p(K); q(J) = 0 *)
  Definition keep_active (J : list nat) (p : list T) : list T :=
    map (fun ix => if memb (fst ix) J then n0 else snd ix) (combine (seq 0 (length p)) p).
  (* q(K) kept, q(J) = qJ *)
  Definition merge_JK (J : list nat) (qK_full qJ : list T) : list T :=
    map2 (fun ix s => if memb (fst ix) J then s else snd ix)
         (combine (seq 0 (length qK_full)) qK_full) (scatter (length qK_full) J qJ).
  Definition sqnorm_active (J : list nat) (p : list T) : T := vsqnorm (gather (filter (fun i => negb (memb i J)) (seq 0 (length p))) p).

  Record ntr_result := { ntr_q : list T; ntr_val : T; ntr_rJ : list T; ntr_cg : cg_result }.

  Definition newton_tr_apply (Hprod : list T -> list T) (P : cg_params) (hvf : T)
             (γ : T) (J : list nat) (p : list T) (radius : T) : ntr_result :=
    let n := length p in
    let rJ0 := vscale ((- n1) / γ) (gather J p) in
    let q0 := keep_active J p in
    let norm_qK_sq := sqnorm_active J p in
    let rJ := if hvf =? n0 then rJ0
              else vadd rJ0 (map (fun w => w * hvf) (gather J (Hprod q0))) in
    let BJ := fun pJ => gather J (Hprod (scatter n J pJ)) in
    let cg := cg_solve BJ rJ radius P in
    {| ntr_q := merge_JK J q0 (res_step cg);
       ntr_val := res_val cg - norm_qK_sq / (n2 * γ);
       ntr_rJ := rJ; ntr_cg := cg |}.
End Steihaug.

Arguments cg_params T : clear implicits.
Arguments cg_result T : clear implicits.
Arguments cg_state T : clear implicits.
Arguments ntr_result T : clear implicits.
