(* Corr_C09.v — correspondence cases for C09: the SAME model definitions (Lbfgs.v) run at binary64 on the
   operation sequences that were run on the real alpaqa::LBFGS, and every observable is compared:
   return value, the vector q after apply / apply_masked, current_history(), and the stored history
   (s, y, ρ in foreach_fwd order) after every operation — so a ρ written by apply_masked would show up
   at the apply_masked record itself.  The workspace α (and its NaN exclusion mark, `sl_skip`) is not an
   observable: it is only compared through its effect on q. *)
From Coq Require Import Floats List ZArith Bool Arith.
From Alpaqa Require Import Num NumF Vec Lbfgs.
Import ListNotations.
Local Open Scope float_scope.

(* std::pow for the exponents the generators use (α/2 ∈ {0, 1/2, 1, 2}); anything else: NaN (never generated) *)
Definition fpow (x e : float) : float :=
  if PrimFloat.eqb e 1 then x
  else if PrimFloat.eqb e 0x1p-1 then PrimFloat.sqrt x
  else if PrimFloat.eqb e 2 then x * x
  else if PrimFloat.eqb e 0 then 1
  else nan.

Record obs := {
  ob_ret : nat;               (* 0 false, 1 true, 2 void, 3 exception *)
  ob_q : list float;          (* q after apply / apply_masked, [] otherwise *)
  ob_ch : nat;                (* current_history() *)
  ob_S : list (list float);   (* s(i) for i in foreach_fwd order *)
  ob_Y : list (list float);
  ob_R : list float           (* ρ(i) *)
}.

Inductive c09case :=
| CSeq (P : params float) (n : nat) (ctor_ok : bool) (steps : list (op float * obs))
| CValid (P : params float) (yts sts ptp : float) (ret : bool).

Definition observe (st : state float) (o : out float) : obs :=
  let h := hist st in
  {| ob_ret := o_ret o; ob_q := o_q o; ob_ch := current_history st;
     ob_S := map (@sl_s float) h; ob_Y := map (@sl_y float) h; ob_R := map (fun sl => ρval (sl_ρ sl)) h |}.

Definition obs_eq (a b : obs) : bool :=
  Nat.eqb (ob_ret a) (ob_ret b) && vfeq (ob_q a) (ob_q b) && Nat.eqb (ob_ch a) (ob_ch b) &&
  list_agree vfeq (ob_S a) (ob_S b) && list_agree vfeq (ob_Y a) (ob_Y b) && vfeq (ob_R a) (ob_R b).

(* model observations along a sequence *)
Fixpoint trace (P : params float) (st : state float) (ops : list (op float)) : list obs :=
  match ops with
  | [] => []
  | o :: ops' => let '(st', r) := step fpow P st o in observe st' r :: trace P st' ops'
  end.

Definition model09 (c : c09case) : list obs * bool :=
  match c with
  | CSeq P n _ steps =>
      match resize P n with
      | Some st => (trace P st (map fst steps), true)
      | None => ([], false)
      end
  | CValid P yts sts ptp _ => ([], update_valid fpow P yts sts ptp)
  end.

Definition chk09 (c : c09case) : bool :=
  match c with
  | CSeq P n ok steps =>
      match resize P n with
      | Some st => ok && list_agree obs_eq (trace P st (map fst steps)) (map snd steps)
      | None => negb ok                                           (* constructor throws *)
      end
  | CValid P yts sts ptp ret => Bool.eqb (update_valid fpow P yts sts ptp) ret
  end.
