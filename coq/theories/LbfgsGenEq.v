(* LbfgsGenEq.v — tie 1 for C09 (translator G11a): every piece that translate/gen_lbfgs.py regenerates from lbfgs.tpp / lbfgs.hpp
   on every run (coq/gen/LbfgsGen.v, run on the container of LbfgsGenInst.v) EQUALS the corresponding piece of the hand model
   Lbfgs.v — the one all theorems of LbfgsProofs.v / LbfgsAlgebra.v / LbfgsMasked.v / Properties_C09.v are about.
   A change of the source changes LbfgsGen.v and breaks the lemma named after the generated definition here (`g_<name>_eq`),
   which is a proof obligation of Properties_C09.v.
   Proof style: reflexivity / case analysis on the conditions in ANY number system where the terms coincide up to the
   shape of the control flow; over R only where an operand order differs (scale_y: factor * y vs y * factor).
   The generated code reads the store after it wrote it (`α(i) = ..; q -= α(i) * y(i)`), so the per-index lemmas carry the
   in-range hypothesis i < history() (an array cell), which the buffer invariant `inv` provides for every visited index. *)
From Coq Require Import Reals List ZArith Lra Lia Bool Arith.
From Alpaqa Require Import Num NumR Vec Lbfgs LbfgsProofs LbfgsAlgebra LbfgsMasked LbfgsGenLib LbfgsGen LbfgsGenInst.
Import ListNotations.

Section Eq.
  Context {T : Type} `{Num T}.
  Variable pw : T -> T -> T.
  Variable P : params T.
  Notation O := (@lbfgs_ops T _).
  Notation G := (gp_of P).
  Local Open Scope num_scope.

  Ltac split_ifs := repeat (first [ match goal with |- context [negb ?c] => destruct c end
                                  | match goal with |- context [if ?c then _ else _] => destruct c end ]; cbn).

  (* ------------------------------------------------------------------ pure pieces *)
  Lemma g_cbfgs_on_eq : g_cbfgs_on O pw G = cbfgs_on P.
  Proof. reflexivity. Qed.

  Lemma g_update_valid_eq yts sts ptp : g_update_valid O pw G yts sts ptp = update_valid pw P yts sts ptp.
  Proof. unfold g_update_valid, update_valid, g_cbfgs_on, cbfgs_on. cbn. split_ifs; reflexivity. Qed.

  Lemma g_succ_eq st i : g_succ O pw G st i = succ st i.
  Proof. reflexivity. Qed.

  Lemma g_pred_eq st i : g_pred O pw G st i = pred st i.
  Proof. unfold g_pred, pred. cbn. destruct i; cbn; try reflexivity. apply Nat.sub_1_r || (symmetry; apply Nat.sub_1_r). Qed.

  Lemma g_current_history_eq st : g_current_history O pw G st = current_history st.
  Proof. reflexivity. Qed.

  (* the iteration ORDER of foreach_fwd / foreach_rev *)
  Lemma g_foreach_fwd_eq st : g_foreach_fwd O pw G st = fwd_idx st.
  Proof. unfold g_foreach_fwd, fwd_idx. cbn. destruct (st_idx st); reflexivity. Qed.

  Lemma g_foreach_rev_eq st : g_foreach_rev O pw G st = rev_idx st.
  Proof. unfold g_foreach_rev, rev_idx. cbn. destruct (st_idx st); reflexivity. Qed.

  (* ------------------------------------------------------------------ container laws *)
  Lemma history_set_slot (st : state T) i sl : history (set_slot st i sl) = history st.
  Proof. unfold history, set_slot; cbn. apply upd_length. Qed.
  Lemma history_set_α (st : state T) i a : history (set_α st i a) = history st.
  Proof. apply history_set_slot. Qed.
  Lemma history_set_mark (st : state T) i : history (set_mark st i) = history st.
  Proof. apply history_set_slot. Qed.
  Lemma get_set_α_in (st : state T) i a : (i < history st)%nat ->
    get (set_α st i a) i = {| sl_s := sl_s (get st i); sl_y := sl_y (get st i); sl_ρ := sl_ρ (get st i); sl_α := a; sl_skip := false |}.
  Proof. intros Hi. unfold set_α. apply get_set_slot_same; assumption. Qed.
  Lemma in_range_rev_idx st : inv P st -> Forall (fun i => (i < history st)%nat) (rev_idx st).
  Proof.
    intros Hinv. rewrite rev_idx_is_rev_fwd. apply Forall_rev. apply Forall_forall. intros i Hi.
    exact (fwd_idx_bound P st i Hinv Hi).
  Qed.
  Lemma in_range_fwd_idx st : inv P st -> Forall (fun i => (i < history st)%nat) (fwd_idx st).
  Proof. intros Hinv. apply Forall_forall. intros i Hi. exact (fwd_idx_bound P st i Hinv Hi). Qed.
  Lemma eqb_true_r b : Bool.eqb b true = b.
  Proof. destruct b; reflexivity. Qed.

  (* ------------------------------------------------------------------ apply: the bodies of its two loops, the loops, the function *)
  Lemma g_apply_rev_step_eq st q i : (i < history st)%nat ->
    g_apply_rev_step O pw G st q i =
    (let sl := get st i in let α := ρval (sl_ρ sl) * vdot (sl_s sl) q in (set_α st i α, axmy α (sl_y sl) q)).
  Proof.
    intros Hi. unfold g_apply_rev_step. cbn [so_set_alpha so_alpha so_rho so_s so_y lbfgs_ops].
    rewrite (get_set_α_in _ _ _ Hi). reflexivity.
  Qed.

  Lemma g_apply_rev_loop_eq l : forall st q, Forall (fun i => (i < history st)%nat) l ->
    fold_left (fun '(st_in, q_in) i => g_apply_rev_step O pw G st_in q_in i) l (st, q) = rev_loop l st q.
  Proof.
    induction l as [|i l IH]; intros st q Hl; cbn [fold_left rev_loop]; [reflexivity|].
    inversion Hl as [|? ? Hi Hl']; subst. rewrite (g_apply_rev_step_eq _ _ _ Hi). cbv zeta. apply IH.
    rewrite history_set_α. exact Hl'.
  Qed.

  Lemma g_apply_fwd_step_eq st q i :
    g_apply_fwd_step O pw G st q i =
    (let sl := get st i in let β := ρval (sl_ρ sl) * vdot (sl_y sl) q in axmy (β - sl_α sl) (sl_s sl) q).
  Proof. reflexivity. Qed.

  Lemma g_apply_fwd_loop_eq l : forall st q, fold_left (g_apply_fwd_step O pw G st) l q = fwd_loop l st q.
  Proof. induction l as [|i l IH]; intros st q; cbn [fold_left fwd_loop]; [reflexivity|]. rewrite g_apply_fwd_step_eq. apply IH. Qed.

  (* the γ selection of apply() *)
  Lemma g_apply_eq st q γ : inv P st -> g_apply O pw G st q γ = apply P st q γ.
  Proof.
    intros Hinv. unfold g_apply, apply, is_empty, apply_γ. cbn [so_idx so_full so_y so_rho lbfgs_ops gp_curvature gp_of].
    destruct ((st_idx st =? 0)%nat && negb (st_full st)); [reflexivity|].
    rewrite g_foreach_rev_eq, (g_apply_rev_loop_eq _ _ _ (in_range_rev_idx _ Hinv)), g_pred_eq, eqb_true_r.
    pose proof (rev_loop_shape (rev_idx st) st q) as Hs.
    destruct (rev_loop (rev_idx st) st q) as [st1 q1]. cbn [fst] in Hs.
    rewrite g_foreach_fwd_eq, g_apply_fwd_loop_eq, (same_shape_fwd _ _ Hs). reflexivity.
  Qed.


  (* ------------------------------------------------------------------ apply_masked_impl: its local lambdas *)
  Lemma vupd_upd {A} (l : list A) i x : vupd l i x = upd l i x.
  Proof. reflexivity. Qed.       (* the two fixpoints have the same body *)

  Lemma fold_left_ext_eq {A B} (f g : A -> B -> A) l : (forall a b, f a b = g a b) -> forall a, fold_left f l a = fold_left g l a.
  Proof. intros E. induction l as [|b l IH]; intros a; cbn; [reflexivity|]. rewrite E. apply IH. Qed.

  Lemma g_dotJ_eq J fJ a b : g_apply_masked_impl_dotJ O pw G J fJ a b = dotJ J fJ a b.
  Proof. reflexivity. Qed.

  Lemma g_axmyJ_eq J fJ a x y : g_apply_masked_impl_axmyJ O pw G J fJ a x y = axmyJ J fJ a x y.
  Proof.
    unfold g_apply_masked_impl_axmyJ, axmyJ. destruct fJ; [reflexivity|]. cbv zeta.
    apply fold_left_ext_eq. intros y' j. unfold g_apply_masked_impl_axmyJ_for1_step. apply vupd_upd.
  Qed.

  Lemma g_scalJ_eq J fJ a x : g_apply_masked_impl_scalJ O pw G J fJ a x = scalJ J fJ a x.
  Proof.
    unfold g_apply_masked_impl_scalJ, scalJ. destruct fJ; [reflexivity|]. cbv zeta.
    apply fold_left_ext_eq. intros x' j. unfold g_apply_masked_impl_scalJ_for1_step. apply vupd_upd.
  Qed.

  (* ------------------------------------------------------------------ apply_masked_impl: the bodies of its two loops (validity test on J,
     NaN mark, α, q update, γ selection; isnan test, ρJ recomputed, β, q update), the loops, the function *)
  Lemma g_masked_rev_step_eq J fJ st q γ i : (i < history st)%nat ->
    g_apply_masked_impl_rev_step O pw G J fJ st q γ i = mrev_loop pw P J fJ [i] st q γ.
  Proof.
    intros Hi. unfold g_apply_masked_impl_rev_step. cbn [mrev_loop so_set_alpha so_mark_alpha so_alpha so_s so_y lbfgs_ops].
    rewrite !g_dotJ_eq, g_update_valid_eq.
    destruct (update_valid pw P (dotJ J fJ (sl_s (get st i)) (sl_y (get st i))) (dotJ J fJ (sl_s (get st i)) (sl_s (get st i))) n0);
      cbn [negb]; [|reflexivity].
    rewrite g_axmyJ_eq, (get_set_α_in _ _ _ Hi). reflexivity.
  Qed.

  Lemma mrev_loop_cons J fJ i l st q γ :
    mrev_loop pw P J fJ (i :: l) st q γ = (let '(st1, q1, γ1) := mrev_loop pw P J fJ [i] st q γ in mrev_loop pw P J fJ l st1 q1 γ1).
  Proof. cbn [mrev_loop]. destruct (negb _); reflexivity. Qed.

  Lemma g_masked_rev_loop_eq J fJ l : forall st q γ, Forall (fun i => (i < history st)%nat) l ->
    fold_left (fun '(st_in, q_in, γ_in) i => g_apply_masked_impl_rev_step O pw G J fJ st_in q_in γ_in i) l (st, q, γ)
    = mrev_loop pw P J fJ l st q γ.
  Proof.
    induction l as [|i l IH]; intros st q γ Hl; [reflexivity|].
    inversion Hl as [|? ? Hi Hl']; subst. rewrite mrev_loop_cons. cbn [fold_left]. rewrite (g_masked_rev_step_eq _ _ _ _ _ _ Hi).
    pose proof (mrev_loop_shape pw P J fJ [i] st q γ) as Hs.
    destruct (mrev_loop pw P J fJ [i] st q γ) as [[st1 q1] γ1]. cbn [fst] in Hs. apply IH.
    destruct Hs as (_ & _ & _ & Hlen). rewrite Hlen. exact Hl'.
  Qed.

  Lemma g_masked_fwd_step_eq J fJ st q i :
    g_apply_masked_impl_fwd_step O pw G st J fJ q i = mfwd_loop J fJ [i] st q.
  Proof.
    unfold g_apply_masked_impl_fwd_step. cbn [mfwd_loop so_alpha_isnan so_alpha so_s so_y lbfgs_ops]. unfold α_is_nan.
    destruct (sl_skip (get st i) || nisnan (sl_α (get st i))); [reflexivity|].
    rewrite !g_dotJ_eq, g_axmyJ_eq. reflexivity.
  Qed.

  Lemma g_masked_fwd_loop_eq J fJ l : forall st q,
    fold_left (g_apply_masked_impl_fwd_step O pw G st J fJ) l q = mfwd_loop J fJ l st q.
  Proof.
    induction l as [|i l IH]; intros st q; [reflexivity|]. cbn [fold_left]. rewrite g_masked_fwd_step_eq, IH.
    cbn [mfwd_loop]. destruct (α_is_nan (get st i)); reflexivity.
  Qed.

  Definition mres_of (r : gres) : mres := match r with GThrow => MThrow | GRet b => MRet b end.

  Lemma g_apply_masked_impl_eq st q γ J : inv P st ->
    (let '(r, q', st') := g_apply_masked_impl O pw G st q γ J in (mres_of r, q', st')) = apply_masked pw P st q γ J.
  Proof.
    intros Hinv. unfold g_apply_masked_impl, apply_masked, is_empty. cbn [so_idx so_full lbfgs_ops gp_curvature gp_of].
    destruct ((st_idx st =? 0)%nat && negb (st_full st)); [reflexivity|].
    rewrite g_cbfgs_on_eq, eqb_true_r. destruct (cbfgs_on P); [reflexivity|].
    rewrite g_foreach_rev_eq, (g_masked_rev_loop_eq _ _ _ _ _ _ (in_range_rev_idx _ Hinv)).
    pose proof (mrev_loop_shape pw P J (length q =? length J)%nat (rev_idx st) st q (if p_curvature P then - n1 else γ)) as Hs.
    destruct (mrev_loop pw P J (length q =? length J)%nat (rev_idx st) st q (if p_curvature P then - n1 else γ)) as [[st1 q1] γ1].
    cbn [fst] in Hs. destruct (γ1 <? n0); [reflexivity|].
    rewrite g_foreach_fwd_eq, g_scalJ_eq, g_masked_fwd_loop_eq, (same_shape_fwd _ _ Hs). reflexivity.
  Qed.


  (* ------------------------------------------------------------------ update_sy_impl (the stores of s, y, ρ, the index advance, the full flag), update *)
  Lemma upd_upd {A} (l : list A) i a b : upd (upd l i a) i b = upd l i b.
  Proof. revert i; induction l as [|c l IH]; intros [|i]; cbn; try reflexivity. rewrite IH. reflexivity. Qed.
  Lemma set_slot_twice (st : state T) i a b : set_slot (set_slot st i a) i b = set_slot st i b.
  Proof. unfold set_slot; cbn. rewrite upd_upd. reflexivity. Qed.

  Lemma g_stores_eq (st : state T) i s y r : (i < history st)%nat ->
    so_set_rho O (so_set_y O (so_set_s O st i s) i y) i r =
    set_slot st i {| sl_s := s; sl_y := y; sl_ρ := Some r; sl_α := sl_α (get st i); sl_skip := sl_skip (get st i) |}.
  Proof.
    intros Hi. cbn [so_set_rho so_set_y so_set_s lbfgs_ops].
    rewrite (get_set_slot_same st i _ Hi), set_slot_twice.
    rewrite get_set_slot_same by (rewrite history_set_slot; exact Hi).
    rewrite set_slot_twice. reflexivity.
  Qed.

  Lemma g_update_sy_tail_eq (st : state T) s y r : (st_idx st < history st)%nat ->
    (let st_4 := so_set_s O st (so_idx O st) s in
     let st_5 := so_set_y O st_4 (so_idx O st_4) y in
     let st_6 := so_set_rho O st_5 (so_idx O st_5) r in
     let st_7 := so_set_idx O st_6 (g_succ O pw G st_6 (so_idx O st_6)) in
     so_set_full O st_7 (so_full O st_7 || Nat.eqb (so_idx O st_7) 0)) =
    (let i := st_idx st in
     let st1 := set_slot st i {| sl_s := s; sl_y := y; sl_ρ := Some r; sl_α := sl_α (get st i); sl_skip := sl_skip (get st i) |} in
     let i' := succ st i in
     {| st_n := st_n st; st_idx := i'; st_full := st_full st || (i' =? 0)%nat; st_slots := st_slots st1 |}).
  Proof.
    intros Hi. cbv zeta.
    change (so_idx O (so_set_s O st (so_idx O st) s)) with (st_idx st).
    change (so_idx O (so_set_y O (so_set_s O st (so_idx O st) s) (st_idx st) y)) with (st_idx st).
    change (so_idx O st) with (st_idx st).
    rewrite (g_stores_eq st (st_idx st) s y r Hi).
    cbn [so_set_full so_set_idx so_full so_idx lbfgs_ops st_idx st_full st_n st_slots set_slot].
    rewrite g_succ_eq. unfold succ. rewrite history_set_slot. reflexivity.
  Qed.

  Lemma g_update_sy_impl_eq st s y pp forced : inv P st ->
    g_update_sy_impl O pw G st s y pp forced = update_sy pw P st s y pp forced.
  Proof.
    intros (_ & _ & Hi). unfold g_update_sy_impl, update_sy. cbv zeta. rewrite g_update_valid_eq.
    pose proof (g_update_sy_tail_eq st s y (n1 / vdot y s) Hi) as E. cbv zeta in E.
    destruct forced; cbn [negb andb]; [rewrite E; reflexivity|].
    destruct (update_valid pw P (vdot y s) (vsqnorm s) pp); cbn [negb]; [rewrite E; reflexivity|reflexivity].
  Qed.

  Lemma g_update_eq st xk xn pk pn sg forced : inv P st ->
    g_update O pw G st xk xn pk pn sg forced = update pw P st xk xn pk pn sg forced.
  Proof. intros Hinv. unfold g_update, update. cbv zeta. rewrite g_update_sy_impl_eq, g_cbfgs_on_eq, eqb_true_r by exact Hinv. reflexivity. Qed.

  (* ------------------------------------------------------------------ reset / resize *)
  Lemma g_reset_eq st : g_reset O pw G st = reset st.
  Proof. reflexivity. Qed.

  Lemma g_resize_eq st n : g_resize O pw G st n = resize P n.
  Proof. unfold g_resize, resize. cbn [gp_memory gp_of]. destruct (p_memory P <? 1)%nat; reflexivity. Qed.

End Eq.

(* ------------------------------------------------------------------ scale_y: the per-index step and the loops (over R: factor * y vs y * factor) *)
Section ScaleR.
  Variable pw : R -> R -> R.
  Variable P : params R.
  Notation O := (@lbfgs_ops R _).
  Notation G := (gp_of P).

  (* every stored ρ is a number (`None` = 0/0 is never produced by any operation) *)
  Definition ρ_some (st : state R) : Prop := forall j, sl_ρ (get st j) <> None.

  Lemma scale_first_S k f : forall (l : list (slot R)) d, (k < length l)%nat ->
    scale_first (S k) f l = upd (scale_first k f l) k (scale_slot f (nth k l d)).
  Proof. induction k; intros [|sl l] d Hk; cbn in *; try lia; try reflexivity. f_equal. apply IHk. lia. Qed.

  Lemma nth_scale_first_ge k f : forall (l : list (slot R)) i d, (k <= i)%nat -> nth i (scale_first k f l) d = nth i l d.
  Proof. induction k; intros [|sl l] [|i] d Hi; cbn; try reflexivity; try lia. apply IHk. lia. Qed.

  Lemma scale_slot_R f (sl : slot R) r : sl_ρ sl = Some r ->
    with_ρ (with_y sl (vscale f (sl_y sl))) (r * (1 / f))%R = scale_slot f sl.
  Proof.
    intros Hr. unfold scale_slot, with_ρ, with_y; cbn. rewrite Hr; cbn. f_equal.
    unfold vscale. apply map_ext. intros x. cbn. ring.
  Qed.

  Lemma g_scale_y_for1_step_eq f st i r : (i < history st)%nat -> sl_ρ (get st i) = Some r ->
    g_scale_y_for1_step O pw G f st i = set_slot st i (scale_slot f (get st i)).
  Proof.
    intros Hi Hr. unfold g_scale_y_for1_step. cbn [so_set_y so_set_rho so_y so_rho lbfgs_ops].
    rewrite (get_set_slot_same st i _ Hi), set_slot_twice. cbn [sl_ρ with_y]. rewrite Hr. cbn [ρval].
    rewrite <- (scale_slot_R f (get st i) r Hr). reflexivity.
  Qed.
  Lemma g_scale_y_for2_step_eq f st i r : (i < history st)%nat -> sl_ρ (get st i) = Some r ->
    g_scale_y_for2_step O pw G f st i = set_slot st i (scale_slot f (get st i)).
  Proof.
    intros Hi Hr. unfold g_scale_y_for2_step. cbn [so_set_y so_set_rho so_y so_rho lbfgs_ops].
    rewrite (get_set_slot_same st i _ Hi), set_slot_twice. cbn [sl_ρ with_y]. rewrite Hr. cbn [ρval].
    rewrite <- (scale_slot_R f (get st i) r Hr). reflexivity.
  Qed.

  Lemma scale_loop_eq (step : state R -> nat -> state R) f
    (Hstep : forall st i r, (i < history st)%nat -> sl_ρ (get st i) = Some r -> step st i = set_slot st i (scale_slot f (get st i))) :
    forall k st, (k <= history st)%nat -> ρ_some st ->
      fold_left step (seq 0 k) st =
      {| st_n := st_n st; st_idx := st_idx st; st_full := st_full st; st_slots := scale_first k f (st_slots st) |}.
  Proof.
    induction k; intros st Hk Hρ; [destruct st; reflexivity|].
    rewrite seq_S, fold_left_app, IHk by (assumption || lia). cbn [fold_left Nat.add].
    set (stk := {| st_n := st_n st; st_idx := st_idx st; st_full := st_full st; st_slots := scale_first k f (st_slots st) |}).
    assert (Eg : get stk k = get st k) by (unfold get, stk; cbn; apply nth_scale_first_ge; lia).
    assert (Hh : history stk = history st) by (unfold history, stk; cbn; apply scale_first_length).
    destruct (sl_ρ (get st k)) as [r|] eqn:Er.
    - rewrite (Hstep stk k r); [| rewrite Hh; exact Hk | rewrite Eg; exact Er].
      rewrite Eg. unfold set_slot, stk, get; cbn. rewrite <- (scale_first_S k f (st_slots st) (slot0 0)) by exact Hk. reflexivity.
    - exfalso. exact (Hρ k Er).
  Qed.

  Lemma g_scale_y_eq st f : inv P st -> ρ_some st -> g_scale_y O pw G st f = scale_y st f.
  Proof.
    intros (_ & _ & Hi) Hρ. unfold g_scale_y, scale_y, current_history. cbn [so_full so_history so_idx lbfgs_ops].
    destruct (st_full st) eqn:Ef.
    - rewrite (scale_loop_eq _ f (g_scale_y_for1_step_eq f) (history st) st) by (lia || exact Hρ). rewrite Ef. reflexivity.
    - rewrite (scale_loop_eq _ f (g_scale_y_for2_step_eq f) (st_idx st) st) by (lia || exact Hρ). rewrite Ef. reflexivity.
  Qed.

  (* ------------------------------------------------------------------ every public operation: generated = hand model, along whole runs *)
  Lemma ρ_some_set_slot st i sl : ρ_some st -> sl_ρ sl <> None -> ρ_some (set_slot st i sl).
  Proof.
    intros Hρ Hsl j. destruct (Nat.eq_dec i j) as [<-|Hne]; [|rewrite get_set_slot_other by exact Hne; apply Hρ].
    destruct (lt_dec i (history st)) as [Hi|Hi]; [rewrite get_set_slot_same by exact Hi; exact Hsl|].
    rewrite get_out_of_range by (rewrite history_set_slot; lia). discriminate.
  Qed.
  Lemma ρ_some_slots st st' : st_slots st' = st_slots st -> ρ_some st -> ρ_some st'.
  Proof. intros E Hρ j. unfold get. rewrite E. apply Hρ. Qed.
  Lemma ρ_some_syρ st st' : (forall j, syρ (get st' j) = syρ (get st j)) -> ρ_some st -> ρ_some st'.
  Proof. intros E Hρ j Hn. specialize (E j). unfold syρ in E. injection E as _ _ E. rewrite Hn in E. exact (Hρ j (eq_sym E)). Qed.
  Lemma scale_first_ρ k f : forall (l : list (slot R)) j d, sl_ρ (nth j (scale_first k f l) d) = None -> sl_ρ (nth j l d) = None.
  Proof.
    induction k; intros [|sl l] [|j] d Hn; cbn in *; try exact Hn.
    - destruct (sl_ρ sl); [discriminate|reflexivity].
    - apply (IHk l j d Hn).
  Qed.

  Lemma update_sy_ρ_some st s y pp forced : ρ_some st -> ρ_some (snd (update_sy pw P st s y pp forced)).
  Proof.
    intros Hρ. unfold update_sy. cbv zeta. destruct (negb forced && negb _); cbn [snd]; [exact Hρ|].
    match goal with |- ρ_some {| st_n := _; st_idx := _; st_full := _; st_slots := st_slots (set_slot st ?i ?sl) |} =>
      apply (ρ_some_slots (set_slot st i sl) _ eq_refl); apply (ρ_some_set_slot st i sl Hρ) end.
    cbn. discriminate.
  Qed.

  Lemma step_ρ_some st o : inv P st -> ρ_some st -> ρ_some (fst (step pw P st o)).
  Proof.
    intros Hinv Hρ. destruct o as [s y pp forced|xk xn pk pn sg forced|q γ|q γ J| |n|f]; cbn [step].
    - pose proof (update_sy_ρ_some st s y pp forced Hρ) as Hx. destruct (update_sy pw P st s y pp forced). exact Hx.
    - unfold update. cbv zeta.
      pose proof (update_sy_ρ_some st (vsub xn xk) (if sg then vsub pn pk else vsub pk pn) (if cbfgs_on P then vsqnorm pn else n0) forced Hρ) as Hx.
      destruct (update_sy pw P st _ _ _ forced). exact Hx.
    - unfold apply. destruct (is_empty st); [exact Hρ|]. cbv zeta.
      pose proof (rev_loop_syρ (rev_idx st) st q) as Hx. destruct (rev_loop (rev_idx st) st q) as [st1 q1]. cbn [fst] in *.
      exact (ρ_some_syρ _ _ Hx Hρ).
    - pose proof (apply_masked_spec pw P st q γ J) as (_ & Hx & _). cbv zeta in Hx.
      destruct (apply_masked pw P st q γ J) as [[r q'] st']. cbn [fst snd] in *. exact (ρ_some_syρ _ _ Hx Hρ).
    - exact (ρ_some_slots st _ eq_refl Hρ).
    - unfold resize. destruct (p_memory P <? 1)%nat; cbn [fst]; [exact Hρ|].
      intros j. unfold get; cbn [st_slots]. destruct (nth_in_or_default j (repeat (slot0 n) (p_memory P)) (slot0 0)) as [Hin|Hd]; [|rewrite Hd; discriminate].
      apply repeat_spec in Hin. rewrite Hin. discriminate.
    - cbn [fst]. intros j Hn. unfold scale_y, get in Hn. cbn [st_slots] in Hn. apply scale_first_ρ in Hn. exact (Hρ j Hn).
  Qed.

  Lemma gstep_eq st o : inv P st -> ρ_some st -> gstep pw P st o = step pw P st o.
  Proof.
    intros Hinv Hρ. destruct o as [s y pp forced|xk xn pk pn sg forced|q γ|q γ J| |n|f]; cbn [gstep step].
    - rewrite g_update_sy_impl_eq by exact Hinv. reflexivity.
    - rewrite g_update_eq by exact Hinv. reflexivity.
    - rewrite g_apply_eq by exact Hinv. reflexivity.
    - rewrite <- (g_apply_masked_impl_eq pw P st q γ J Hinv).
      destruct (g_apply_masked_impl O pw G st q γ J) as [[r q'] st']. destruct r; reflexivity.
    - reflexivity.
    - rewrite g_resize_eq. reflexivity.
    - rewrite g_scale_y_eq by assumption. reflexivity.
  Qed.

  Lemma grun_eq ops : forall st, inv P st -> ρ_some st ->
    grun pw P ops st = run pw P ops st /\ inv P (run pw P ops st) /\ ρ_some (run pw P ops st).
  Proof.
    induction ops as [|o ops IH]; intros st Hinv Hρ; cbn [grun run fold_left]; [auto|].
    rewrite (gstep_eq st o Hinv Hρ). apply IH; [exact (proj1 (step_refines pw P st o Hinv))|exact (step_ρ_some st o Hinv Hρ)].
  Qed.

  (* the constructor LBFGS(params, n) *)
  Lemma gctor_eq n : gctor pw P n = resize P n.
  Proof. unfold gctor. apply g_resize_eq. Qed.

  Lemma resize_ρ_some n st0 : resize P n = Some st0 -> ρ_some st0.
  Proof.
    unfold resize. destruct (p_memory P <? 1)%nat; [discriminate|]. intros [= <-] j. unfold get; cbn [st_slots].
    destruct (nth_in_or_default j (repeat (slot0 n) (p_memory P)) (slot0 0)) as [Hin|Hd]; [|rewrite Hd; discriminate].
    apply repeat_spec in Hin. rewrite Hin. discriminate.
  Qed.

  (* whole runs of the GENERATED code from construction = whole runs of the hand model *)
  Theorem generated_run_is_model_run n st0 ops : gctor pw P n = Some st0 ->
    resize P n = Some st0 /\ grun pw P ops st0 = run pw P ops st0 /\ inv P (run pw P ops st0) /\ ρ_some (run pw P ops st0).
  Proof.
    intros Hc. rewrite gctor_eq in Hc. split; [exact Hc|].
    apply grun_eq; [exact (resize_inv _ _ _ Hc)|exact (resize_ρ_some _ _ Hc)].
  Qed.
End ScaleR.

(* ------------------------------------------------------------------ the main theorems of C09, restated for the GENERATED code
   (used by Properties_C09.v with `exact`) *)
Section Restated.
  Local Open Scope R_scope.
  Variable pw : R -> R -> R.
  Variable P : params R.
  Notation O := (@lbfgs_ops R _).
  Notation G := (gp_of P).

  (* what the accessors show in the generated foreach_fwd order *)
  Definition gpairs (st : state R) : list (pair R) := map (fun i => (so_s O st i, so_y O st i)) (g_foreach_fwd O pw G st).

  Lemma gpairs_eq st : gpairs st = pairs st.
  Proof. unfold gpairs, pairs, hist. rewrite g_foreach_fwd_eq, map_map. reflexivity. Qed.

  Theorem gen_update_valid_spec yts sts ptp :
    let a := if p_force_pos_def P then yts else Rabs yts in
    g_update_valid O pw G yts sts ptp = true <->
    (p_min_abs_s P < sts /\ p_min_div_fac P * sts < a /\
     (0 < p_cbfgs_ϵ P -> sts * p_cbfgs_ϵ P * pw ptp (p_cbfgs_α P / 2) <= a)).
  Proof. rewrite g_update_valid_eq. apply update_valid_spec. Qed.

  Theorem gen_ring_refinement n st0 ops :
    gctor pw P n = Some st0 ->
    let st := grun pw P ops st0 in
    gpairs st = abs_run pw P ops [] /\
    g_current_history O pw G st = length (abs_run pw P ops []) /\
    (length (abs_run pw P ops []) <= p_memory P)%nat /\
    g_foreach_rev O pw G st = rev (g_foreach_fwd O pw G st) /\ NoDup (g_foreach_fwd O pw G st).
  Proof.
    intros Hc. destruct (generated_run_is_model_run pw P n st0 ops Hc) as (Hr & -> & _ & _). cbv zeta.
    rewrite gpairs_eq, g_current_history_eq, g_foreach_rev_eq, g_foreach_fwd_eq.
    exact (ring_refinement pw P n st0 ops Hr).
  Qed.

  Theorem gen_update_stores_iff_accepted st s y pp forced :
    inv P st ->
    let r := g_update_sy_impl O pw G st s y pp forced in
    fst r = accepted pw P s y pp forced /\
    inv P (snd r) /\
    (fst r = false -> snd r = st) /\
    (fst r = true -> hist3 (snd r) = push (p_memory P) (hist3 st) (s, y, Some (n1 / vdot y s))).
  Proof. intros Hinv. rewrite (g_update_sy_impl_eq pw P st s y pp forced Hinv). exact (update_sy_spec pw P st s y pp forced Hinv). Qed.

  Theorem gen_apply_after_any_history n st0 ops q γ :
    gctor pw P n = Some st0 ->
    let st := grun pw P ops st0 in
    let h := abs_run pw P ops [] in
    let o := snd (gstep pw P st (OApply q γ)) in
    match h with
    | [] => o_ret o = 0%nat /\ o_q o = q
    | _ => o_ret o = 1%nat /\ o_q o = Hbfgs h (doc_γ P h γ) q
    end.
  Proof.
    intros Hc. destruct (generated_run_is_model_run pw P n st0 ops Hc) as (Hr & -> & Hinv & Hρ). cbv zeta.
    rewrite (gstep_eq pw P _ _ Hinv Hρ). exact (apply_after_any_history pw P n st0 ops q γ Hr).
  Qed.

  Theorem gen_apply_is_H st q γ :
    inv P st -> rho_ok st ->
    let r := g_apply O pw G st q γ in
    if is_empty st then r = (false, q, st)
    else fst (fst r) = true /\ snd (fst r) = Hbfgs (pairs st) (doc_γ P (pairs st) γ) q.
  Proof. intros Hinv Hr. rewrite (g_apply_eq pw P st q γ Hinv). exact (apply_is_H P st q γ Hinv Hr). Qed.

  Theorem gen_apply_is_TLrec st q γ :
    inv P st -> is_empty st = false ->
    let r := g_apply O pw G st q γ in
    fst (fst r) = true /\ snd (fst r) = TLrec (rev (hist st)) (apply_γ P st γ) q.
  Proof. intros Hinv He. rewrite (g_apply_eq pw P st q γ Hinv). exact (apply_is_TLrec P st q γ Hinv He). Qed.

  Theorem gen_apply_masked_keeps_history st q γ J :
    inv P st ->
    let st' := snd (g_apply_masked_impl O pw G st q γ J) in
    hist3 st' = hist3 st /\
    (forall j, sl_s (get st' j) = sl_s (get st j) /\ sl_y (get st' j) = sl_y (get st j) /\ sl_ρ (get st' j) = sl_ρ (get st j)) /\
    current_history st' = current_history st /\
    (rho_ok st -> rho_ok st').
  Proof.
    intros Hinv. pose proof (apply_masked_keeps_history pw P st q γ J) as Hx. rewrite <- (g_apply_masked_impl_eq pw P st q γ J Hinv) in Hx.
    destruct (g_apply_masked_impl O pw G st q γ J) as [[r q'] st']. exact Hx.
  Qed.

  Theorem gen_apply_masked_restricted st q γ J :
    inv P st -> is_empty st = false -> cbfgs_on P = false ->
    NoDup J -> (forall j, In j J -> (j < length q)%nat) ->
    (length J = length q -> J = seq 0 (length q)) ->
    (forall sl, In sl (hist st) -> length (sl_s sl) = length q /\ length (sl_y sl) = length q) ->
    let r := g_apply_masked_impl O pw G st q γ J in
    let '(kept, γ', ok) := masked_plan pw P J (rev (hist st)) (if p_curvature P then -1 else γ) in
    (hist3 (snd r) = hist3 st /\ (forall j, sl_ρ (get (snd r) j) = sl_ρ (get st j)) /\ (rho_ok st -> rho_ok (snd r))) /\
    (forall j, ~ In j J -> nth j (snd (fst r)) 0 = nth j q 0) /\
    length (snd (fst r)) = length q /\
    if ok then fst (fst r) = GRet true /\ restr J (snd (fst r)) = Hop kept γ' (restr J q)
    else fst (fst r) = GRet false.
  Proof.
    intros Hinv He Hc Hnd Hb Hf Hl.
    pose proof (apply_masked_restricted pw P st q γ J Hinv He Hc Hnd Hb Hf Hl) as Hx. cbv zeta in Hx |- *.
    rewrite <- (g_apply_masked_impl_eq pw P st q γ J Hinv) in Hx.
    destruct (g_apply_masked_impl O pw G st q γ J) as [[r q'] st']. cbn [fst snd] in *.
    destruct (masked_plan pw P J (rev (hist st)) (if p_curvature P then -1 else γ)) as [[kept γ'] ok].
    destruct Hx as (H1 & H2 & H3 & H4). repeat split; try tauto.
    destruct ok; destruct r as [|b]; cbn [mres_of] in H4; try discriminate; try (destruct H4; discriminate).
    - destruct H4 as [H4 H5]. split; [congruence|exact H5].
    - congruence.
  Qed.

  Theorem gen_scale_y_dense st f : inv P st -> ρ_some st ->
    inv P (g_scale_y O pw G st f) /\ hist3 (g_scale_y O pw G st f) = map (scale3 f) (hist3 st) /\
    (rho_ok st -> rho_ok (g_scale_y O pw G st f)).
  Proof. intros Hinv Hρ. rewrite (g_scale_y_eq pw P st f Hinv Hρ). exact (scale_y_dense P st f Hinv). Qed.
End Restated.
