(* Panoc.v — executable model of the WHOLE of PANOCSolver<Direction>::operator()
   (implementation/inner/panoc.tpp, with panoc-helpers.tpp: initial_lipschitz_estimate, calc_error_stop_crit,
   check_all_stop_conditions [GENERATED gen/StopChain.v]).  Model only; proofs are in PanocProofs.v.

   The outside world enters as Section variables (oracles), nothing is assumed about them here:
     psi_grad_full x = (ψ, ∇ψ, work_m)   problem.eval_ψ_grad_ψ(x, y, Σ, grad, work_n, work_m)   [work_m = ŷ for the default implementation]
     psi_yhat x      = (ψ, ŷ)            problem.eval_ψ(x, y, Σ, ŷ)
     grad_L x ŷ                          problem.eval_grad_L(x, ŷ, grad, work_n)
     grad_psi x                          problem.eval_grad_ψ(x, y, Σ, grad, work_n, work_m)  (only in the initial Lipschitz estimate)
     lb ub l1                            the set C / the l1 weights of BoxConstrProblem::eval_prox_grad_step (Prox.v)
     dir_apply j it = None | Some q      j-th call of direction.apply at iterate it (None: apply returned false)
     has_initial                         direction.has_initial_direction()
     stop_req c / time_up c              stop_signal.stop_requested() / `time_elapsed > max_time`, as functions of the event counters c at
                                         the moment of the test; c_polls c is the index of the poll (every evaluation of
                                         stop_requested() in source order: the one in check_all_stop_conditions at the loop top and
                                         each `while (!stop_requested())` test of the line search).  A stop oracle indexed by the poll
                                         counter alone is the special case  stop_req := fun c => stop_at (c_polls c).
   Loops are structural recursions on explicit fuel (outer loop: `fuel`, line search and initial QUB loop: `ls_fuel`), result OutOfFuel. *)
From Coq Require Import List ZArith Bool Arith.
From Alpaqa Require Import Num Vec Prox SolverStatus SolverKernels StopChain.
Import ListNotations.

Section Panoc.
  Context {T : Type} `{Num T}.
  Local Open Scope num_scope.

  (* struct Iterate *)
  Record iterate := mkIt {
    ix : list T; ixh : list T; igrad : list T; igradh : list T; ip : list T; iyh : list T;
    ipsi : T; ipsih : T; igam : T; iL : T; ipp : T; igp : T; ih : T; ihave : bool }.

  Definition it_fbe (i : iterate) : T := fbe (ipsi i) (ih i) (ipp i) (igam i) (igp i).

  (* PANOCParams (fields used by the loop) + InnerSolveOptions *)
  Record params := mkParams {
    p_max_iter : nat; p_max_no_progress : nat;
    p_L0 : T; p_lip_eps : T; p_lip_delta : T; p_Lgamma : T;     (* Lipschitz.{L_0, ε, δ, Lγ_factor} *)
    p_Lmin : T; p_Lmax : T;
    p_crit : stopcrit;
    p_qub_tol : T; p_ls_tol : T;                                (* quadratic_upperbound_tolerance_factor, linesearch_tolerance_factor *)
    p_beta : T;                                                 (* linesearch_strictness_factor *)
    p_tau_factor : T; p_tau_min : T;                            (* linesearch_coefficient_update_factor, min_linesearch_coefficient *)
    p_force_ls : bool; p_upd_in_cand : bool; p_recompute : bool; p_eager : bool;
    o_always : bool; o_tol : T }.                               (* opts.always_overwrite_results, opts.tolerance *)

  (* event counters: what has happened so far (polls of the stop flag, oracle calls, direction calls, callbacks) *)
  Record counters := mkCnt { c_polls : nat; c_pg : nat; c_py : nat; c_gl : nat; c_gpsi : nat; c_dir : nat; c_apply : nat; c_cb : nat }.
  Definition cnt0 := mkCnt 0 0 0 0 0 0 0 0.
  Definition inc_polls c := mkCnt (S (c_polls c)) (c_pg c) (c_py c) (c_gl c) (c_gpsi c) (c_dir c) (c_apply c) (c_cb c).
  Definition inc_pg c := mkCnt (c_polls c) (S (c_pg c)) (c_py c) (c_gl c) (c_gpsi c) (c_dir c) (c_apply c) (c_cb c).
  Definition inc_py c := mkCnt (c_polls c) (c_pg c) (S (c_py c)) (c_gl c) (c_gpsi c) (c_dir c) (c_apply c) (c_cb c).
  Definition inc_gl c := mkCnt (c_polls c) (c_pg c) (c_py c) (S (c_gl c)) (c_gpsi c) (c_dir c) (c_apply c) (c_cb c).
  Definition inc_gpsi c := mkCnt (c_polls c) (c_pg c) (c_py c) (c_gl c) (S (c_gpsi c)) (c_dir c) (c_apply c) (c_cb c).
  Definition inc_dir c := mkCnt (c_polls c) (c_pg c) (c_py c) (c_gl c) (c_gpsi c) (S (c_dir c)) (c_apply c) (c_cb c).
  Definition inc_apply c := mkCnt (c_polls c) (c_pg c) (c_py c) (c_gl c) (c_gpsi c) (S (c_dir c)) (S (c_apply c)) (c_cb c).
  Definition inc_cb c := mkCnt (c_polls c) (c_pg c) (c_py c) (c_gl c) (c_gpsi c) (c_dir c) (c_apply c) (S (c_cb c)).

  (* PANOCStats (the deterministic part) *)
  Record stats := mkStats {
    s_stepsize_bt : nat; s_ls_bt : nat; s_ls_fail : nat; s_dir_fail : nat; s_tau1 : nat; s_count_tau : nat; s_sum_tau : T }.
  Definition stats0 := mkStats 0 0 0 0 0 0 n0.
  Definition inc_sbt s := mkStats (S (s_stepsize_bt s)) (s_ls_bt s) (s_ls_fail s) (s_dir_fail s) (s_tau1 s) (s_count_tau s) (s_sum_tau s).
  Definition inc_lbt s := mkStats (s_stepsize_bt s) (S (s_ls_bt s)) (s_ls_fail s) (s_dir_fail s) (s_tau1 s) (s_count_tau s) (s_sum_tau s).
  Definition inc_dfail s := mkStats (s_stepsize_bt s) (s_ls_bt s) (s_ls_fail s) (S (s_dir_fail s)) (s_tau1 s) (s_count_tau s) (s_sum_tau s).
  Definition b2n (b : bool) : nat := if b then 1%nat else 0%nat.

  (* one progress-callback record: (k, iterate, q, τ, ε, status) *)
  Record cbrec := mkCb { r_k : nat; r_it : iterate; r_q : list T; r_tau : T; r_eps : T; r_status : status }.

  (* what operator() returns / writes back *)
  Record outputs := mkOut {
    out_status : status; out_iterations : nat; out_eps : T;
    out_x : list T; out_y : list T; out_errz : list T;          (* the in/out arguments x, y, err_z after the call *)
    out_final : iterate;                                        (* *curr at the return statement *)
    out_stats : stats;
    out_log : list cbrec;                                       (* progress callbacks, oldest first *)
    out_cnt : counters }.
  Inductive result := Done (o : outputs) | NotFiniteL (L : T) | OutOfFuel.

  (* ------------------------------------------------------------------ the outside world *)
  Variable psi_grad_full : list T -> T * list T * list T.
  Variable psi_yhat : list T -> T * list T.
  Variable grad_L : list T -> list T -> list T.
  Variable grad_psi : list T -> list T.
  Variables (lb ub : list (option T)) (l1 : list T).
  Variable dir_apply : nat -> iterate -> option (list T).
  Variable has_initial : bool.
  Variable stop_req : counters -> bool.
  Variable time_up : counters -> bool.
  Variable P : params.
  Variables (x_in y_in Σ errz_in : list T).

  Definition psi_grad (x : list T) : T * list T := (fst (fst (psi_grad_full x)), snd (fst (psi_grad_full x))).

  (* ------------------------------------------------------------------ the lambdas of operator() *)
  (* qub_violated(i) *)
  Definition it_qub_violated (i : iterate) : bool :=
    qub_violated (ipsi i) (ipsih i) (igp i) (iL i) (ipp i) (p_qub_tol P).
  (* linesearch_violated(curr, next) *)
  Definition it_ls_violated (curr next : iterate) : bool :=
    ls_violated (p_force_ls P) (p_beta P) (igam curr) (iL curr) (it_fbe curr) (ipp curr) (it_fbe next) (p_ls_tol P).

  (* eval_ψ_grad_ψ(i): i.ψx, i.grad_ψ at i.x *)
  Definition eval_psi_grad (i : iterate) : iterate :=
    let r := psi_grad (ix i) in
    mkIt (ix i) (ixh i) (snd r) (igradh i) (ip i) (iyh i) (fst r) (ipsih i) (igam i) (iL i) (ipp i) (igp i) (ih i) (ihave i).
  (* eval_prox_grad_step(i): hx̂, x̂, p from (γ, x, grad_ψ); pᵀp = p.squaredNorm(); grad_ψᵀp = p.dot(grad_ψ) *)
  Definition eval_prox (i : iterate) : iterate :=
    let r := eval_prox_grad_step lb ub l1 (igam i) (ix i) (igrad i) in
    let xh := fst (fst r) in let p := snd (fst r) in
    mkIt (ix i) xh (igrad i) (igradh i) p (iyh i) (ipsi i) (ipsih i) (igam i) (iL i) (vsqnorm p) (vdot p (igrad i)) (snd r) (ihave i).
  (* eval_ψx̂(i): eager: ψx̂, grad_ψx̂, ŷx̂ (= work_m) from eval_ψ_grad_ψ(x̂); else ψx̂, ŷx̂ from eval_ψ(x̂); have_grad_ψx̂ = eager *)
  Definition eval_psih (i : iterate) : iterate :=
    if p_eager P then
      let r := psi_grad_full (ixh i) in
      mkIt (ix i) (ixh i) (igrad i) (snd (fst r)) (ip i) (snd r) (ipsi i) (fst (fst r)) (igam i) (iL i) (ipp i) (igp i) (ih i) true
    else
      let r := psi_yhat (ixh i) in
      mkIt (ix i) (ixh i) (igrad i) (igradh i) (ip i) (snd r) (ipsi i) (fst r) (igam i) (iL i) (ipp i) (igp i) (ih i) false.
  Definition cnt_psih (c : counters) : counters := if p_eager P then inc_pg c else inc_py c.
  (* exit block with eager_gradient_eval (eval_ψ_grad_ψ does not return ŷ):  curr->ψx̂ = problem.eval_ψ(curr->x̂, y, Σ, curr->ŷx̂) *)
  Definition eval_psih_exit (i : iterate) : iterate :=
    let r := psi_yhat (ixh i) in
    mkIt (ix i) (ixh i) (igrad i) (igradh i) (ip i) (snd r) (ipsi i) (fst r) (igam i) (iL i) (ipp i) (igp i) (ih i) (ihave i).
  (* eval_grad_ψx̂(i): eval_grad_L(x̂, ŷx̂) *)
  Definition eval_gradh (i : iterate) : iterate :=
    mkIt (ix i) (ixh i) (igrad i) (grad_L (ixh i) (iyh i)) (ip i) (iyh i) (ipsi i) (ipsih i) (igam i) (iL i) (ipp i) (igp i) (ih i) true.

  Definition set_gamma_L (i : iterate) (γ L : T) : iterate :=
    mkIt (ix i) (ixh i) (igrad i) (igradh i) (ip i) (iyh i) (ipsi i) (ipsih i) γ L (ipp i) (igp i) (ih i) (ihave i).
  Definition set_have (i : iterate) (b : bool) : iterate :=
    mkIt (ix i) (ixh i) (igrad i) (igradh i) (ip i) (iyh i) (ipsi i) (ipsih i) (igam i) (iL i) (ipp i) (igp i) (ih i) b.
  Definition halve_it (i : iterate) : iterate :=           (* γ /= 2; L *= 2 *)
    let gl := halve_step (igam i, iL i) in set_gamma_L i (fst gl) (snd gl).

  (* ------------------------------------------------------------------ initial Lipschitz estimate (panoc-helpers.tpp, overload with ψ) *)
  Definition std_clamp (v lo hi : T) : T := if v <? lo then lo else if hi <? v then hi else v.
  Definition lipschitz_h (grad : list T) : list T :=
    map (fun g => if n0 <? g then cmax (p_lip_eps P * g) (p_lip_delta P) else cmin (p_lip_eps P * g) (- p_lip_delta P)) grad.
  Definition initial_lipschitz (x grad : list T) : T :=
    let h := lipschitz_h grad in
    let norm_h := vnorm2 h in
    let g2 := grad_psi (vsub x h) in
    std_clamp (vnorm2 (vsub g2 grad) / norm_h) (p_Lmin P) (p_Lmax P).

  Definition it_blank : iterate := mkIt [] [] [] [] [] [] n0 n0 n0 n0 n0 n0 n0 false.   (* uninitialised Iterate: never read *)

  (* curr after "Estimate Lipschitz constant": x, ψx, grad_ψ, L set *)
  Definition init_L : iterate * counters :=
    let r := psi_grad x_in in
    if p_L0 P <=? n0 then
      let L := initial_lipschitz x_in (snd r) in
      (mkIt x_in [] (snd r) [] [] [] (fst r) n0 n0 L n0 n0 n0 false, inc_gpsi (inc_pg cnt0))
    else
      (mkIt x_in [] (snd r) [] [] [] (fst r) n0 n0 (p_L0 P) n0 n0 n0 false, inc_pg cnt0).

  (* initial QUB loop:  while (curr->L < L_max && qub_violated(curr)) { γ/=2; L*=2; prox; ψx̂; ++stepsize_backtracks } *)
  Fixpoint init_qub (fuel : nat) (i : iterate) (c : counters) (s : stats) : option (iterate * counters * stats) :=
    if (iL i <? p_Lmax P) && it_qub_violated i then
      match fuel with
      | O => None
      | S f => init_qub f (eval_psih (eval_prox (halve_it i))) (cnt_psih c) (inc_sbt s)
      end
    else Some (i, c, s).

  (* ------------------------------------------------------------------ line search *)
  Record ls_state := mkLs {
    ls_curr : iterate; ls_next : iterate; ls_tau : T; ls_tau_prev : T;
    ls_upd : bool;        (* update_lbfgs_in_linesearch *)
    ls_updated : bool;    (* updated_lbfgs *)
    ls_cnt : counters; ls_stats : stats }.
  Inductive ls_result := LsDone (s : ls_state) | LsStopped (s : ls_state) | LsFuel.

  (* take_safe_step: ∇ψ(x̂) if missing; next.x = curr.x̂; next.ψx = curr.ψx̂; next.grad_ψ.swap(curr.grad_ψx̂); both have-flags false *)
  Definition take_safe_step (curr next : iterate) (c : counters) : iterate * iterate * counters :=
    let curr1 := if ihave curr then curr else eval_gradh curr in
    let c1 := if ihave curr then c else inc_gl c in
    let next' := mkIt (ixh curr1) (ixh next) (igradh curr1) (igradh next) (ip next) (iyh next) (ipsih curr1) (ipsih next)
                      (igam next) (iL next) (ipp next) (igp next) (ih next) false in
    let curr' := mkIt (ix curr1) (ixh curr1) (igrad curr1) (igrad next) (ip curr1) (iyh curr1) (ipsi curr1) (ipsih curr1)
                      (igam curr1) (iL curr1) (ipp curr1) (igp curr1) (ih curr1) false in
    (curr', next', c1).
  (* take_accelerated_step(τ): next.x = x + q | x + (1-τ) p + τ q; ψ, ∇ψ there; next.have = false *)
  Definition take_accel_step (τ : T) (q : list T) (curr next : iterate) : iterate :=
    let nx := mkIt (panoc_candidate τ (ix curr) (ip curr) q) (ixh next) (igrad next) (igradh next) (ip next) (iyh next)
                   (ipsi next) (ipsih next) (igam next) (iL next) (ipp next) (igp next) (ih next) false in
    eval_psi_grad nx.

  Fixpoint ls_loop (fuel : nat) (q : list T) (tau_init : T) (s : ls_state) : ls_result :=
    match fuel with
    | O => LsFuel
    | S f =>
      (* while (!stop_signal.stop_requested()) *)
      let stop := stop_req (ls_cnt s) in
      let c0 := inc_polls (ls_cnt s) in
      if stop then LsStopped (mkLs (ls_curr s) (ls_next s) (ls_tau s) (ls_tau_prev s) (ls_upd s) (ls_updated s) c0 (ls_stats s))
      else
        let τ := ls_tau s in
        (* if (τ != τ_prev) { τ != 0 ? take_accelerated_step(τ) : take_safe_step(); τ_prev = τ; } *)
        let '(curr, next, c1) :=
          if τ =? ls_tau_prev s then (ls_curr s, ls_next s, c0)
          else if τ =? n0 then take_safe_step (ls_curr s) (ls_next s) c0
          else (ls_curr s, take_accel_step τ q (ls_curr s) (ls_next s), inc_pg c0) in
        let τ_prev := τ in
        (* fail = !isfinite(next.ψx) | (next.L >= L_max && !(curr.L >= L_max)) *)
        let fail := negb (nfinite (ipsi next)) || ((p_Lmax P <=? iL next) && negb (p_Lmax P <=? iL curr)) in
        if (n0 <? τ) && fail then
          ls_loop f q tau_init (mkLs curr (set_gamma_L next (igam curr) (iL curr)) n0 τ_prev false (ls_updated s) c1 (ls_stats s))
        else
          let next1 := eval_psih (eval_prox next) in
          let c2 := cnt_psih c1 in
          if (iL next1 <? p_Lmax P) && it_qub_violated next1 then
            ls_loop f q tau_init (mkLs curr (halve_it next1) (if n0 <? τ then tau_init else τ) τ_prev false (ls_updated s) c2
                                        (inc_sbt (ls_stats s)))
          else
            (* direction.update in the candidate: a no-op for an oracle provider, but it is a direction call *)
            let do_upd := ls_upd s && negb (ls_updated s) in
            let c3 := if do_upd then inc_dir c2 else c2 in
            let upd := if do_upd then false else ls_upd s in
            let updated := if do_upd then true else ls_updated s in
            if (n0 <? τ) && it_ls_violated curr next1 then
              let τ1 := τ * p_tau_factor P in
              let τ2 := if τ1 <? p_tau_min P then n0 else τ1 in
              ls_loop f q tau_init (mkLs curr next1 τ2 τ_prev upd updated c3 (inc_lbt (ls_stats s)))
            else LsDone (mkLs curr next1 τ τ_prev upd updated c3 (ls_stats s))
    end.

  (* ------------------------------------------------------------------ one pass of `while (true)` *)
  Record lstate := mkSt {
    st_curr : iterate; st_next : iterate; st_k : nat; st_np : nat; st_q : list T;
    st_cnt : counters; st_stats : stats; st_log : list cbrec (* newest first *) }.
  Inductive pass_result := PExit (o : outputs) | PCont (s : lstate) | PFuel.

  Definition need_gradh : bool := crit_needs_gradh (p_crit P).
  Definition it_eps (i : iterate) : T :=
    crit_eps (p_crit P) lb ub l1 (ip i) (igam i) (ix i) (ixh i) (iyh i) (igrad i) (igradh i).

  Variable ls_fuel : nat.

  Definition pass (s : lstate) : pass_result :=
    (* ∇ψ(x̂ₖ) if the criterion needs it *)
    let need := need_gradh && negb (ihave (st_curr s)) in
    let curr := if need then eval_gradh (st_curr s) else st_curr s in
    let c0 := if need then inc_gl (st_cnt s) else st_cnt s in
    let ε := it_eps curr in
    let k := st_k s in
    (* check_all_stop_conditions: time test, then ONE poll of the stop flag *)
    let te := time_up c0 in
    let sr := stop_req c0 in
    let c1 := inc_polls c0 in
    let st := stop_status_helpers (o_tol P) ε te k (p_max_iter P) (st_np s) (p_max_no_progress P) sr in
    match st with
    | StBusy =>
        (* k == 0: direction.initialize;  k > 0 || has_initial_direction: direction.apply, q.allFinite() *)
        let c2 := if (k =? 0)%nat then inc_dir c1 else c1 in
        let use_dir := (0 <? k)%nat || has_initial in
        let r := if use_dir then dir_apply (c_apply c2) curr else None in
        let c3 := if use_dir then inc_apply c2 else c2 in
        let q := match r with Some q' => q' | None => st_q s end in
        let tau_init := match r with Some q' => if vall_finite q' then n1 else n0 | None => n0 end in
        let stats1 := if use_dir && negb (tau_init =? n1) then inc_dfail (st_stats s) else st_stats s in
        (* next->γ = curr->γ; next->L = curr->L; τ = τ_init; τ_prev = -1 *)
        let ls0 := mkLs curr (set_gamma_L (st_next s) (igam curr) (iL curr)) tau_init (- n1) (p_upd_in_cand P) false c3 stats1 in
        match ls_loop ls_fuel q tau_init ls0 with
        | LsFuel => PFuel
        | LsStopped l =>      (* !linesearch_completed: continue *)
            PCont (mkSt (ls_curr l) (ls_next l) k (st_np s) q (ls_cnt l) (ls_stats l) (st_log s))
        | LsDone l =>
            let curr := ls_curr l in let next := ls_next l in let τ := ls_tau l in
            let z := ls_stats l in
            let stats2 := mkStats (s_stepsize_bt z) (s_ls_bt z)
                                  (s_ls_fail z + b2n ((τ =? n0) && (n0 <? tau_init)))
                                  (s_dir_fail z)
                                  (s_tau1 z + b2n (τ =? n1))
                                  (s_count_tau z + b2n (n0 <? tau_init))
                                  (s_sum_tau z + τ) in
            let np := match no_progress_update (st_np s) k (p_max_no_progress P) (veqb (ix curr) (ix next)) with
                      | Some v => v | None => st_np s end in
            (* direction update after the search; γ changed + recompute_last_prox_step_after_stepsize_change *)
            let curr2 := if negb (ls_updated l) && negb (igam curr =? igam next) && p_recompute P
                         then eval_prox (set_gamma_L curr (igam next) (iL next)) else curr in
            let c4 := if ls_updated l then ls_cnt l else inc_dir (ls_cnt l) in
            (* do_progress_cb(k, curr, q, τ, εₖ, Busy); swap; ++k *)
            let rec := mkCb k curr2 q τ ε StBusy in
            PCont (mkSt next curr2 (S k) np q (inc_cb c4) stats2 (rec :: st_log s))
        end
    | _ =>
        let rec := mkCb k curr [] (- n1) ε st in
        let c2 := inc_cb c1 in
        (* if (Converged || Interrupted || always_overwrite) { if (eager) ψx̂ = eval_ψ(x̂, y, Σ, ŷx̂); err_z, x, y written } *)
        let ow := overwrites st (o_always P) in
        let curr_f := if ow && p_eager P then eval_psih_exit curr else curr in
        let c3 := if ow && p_eager P then inc_py c2 else c2 in
        let '(xo, yo, eo) := exit_block st (o_always P) x_in y_in errz_in (ixh curr_f) (iyh curr_f) Σ in
        PExit (mkOut st k ε xo yo eo curr_f (st_stats s) (rev (rec :: st_log s)) c3)
    end.

  Fixpoint loop (fuel : nat) (s : lstate) : result :=
    match fuel with
    | O => OutOfFuel
    | S f => match pass s with
             | PExit o => Done o
             | PCont s' => loop f s'
             | PFuel => OutOfFuel
             end
    end.

  (* ------------------------------------------------------------------ operator() *)
  Definition panoc (fuel : nat) : result :=
    let '(i0, c0) := init_L in
    if negb (nfinite (iL i0)) then NotFiniteL (iL i0)       (* s.status = NotFinite; return s;  (nothing written) *)
    else
      let i1 := set_gamma_L i0 (p_Lgamma P / iL i0) (iL i0) in
      let i2 := eval_psih (eval_prox i1) in
      match init_qub ls_fuel i2 (cnt_psih c0) stats0 with
      | None => OutOfFuel
      | Some (i3, c1, s1) => loop fuel (mkSt i3 it_blank 0 0 [] c1 s1 [])
      end.
End Panoc.
