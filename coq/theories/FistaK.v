(* FistaK.v — the kernels record of Fista.v filled with the functions generated from fista.tpp (coq/gen/FistaGen.v).
   Polymorphic over Num: used at R by FistaGenProofs.v / Properties_C08.v and at binary64 by Corr_C08.v. No proofs. *)
From Coq Require Import List ZArith Bool.
From Alpaqa Require Import Num Vec Prox Fista FistaGen.

Definition genK {T : Type} `{Num T} : kernels (T:=T) :=
  {| k_tnext := t_next; k_extrap := extrap1; k_qubv := qub_violated; k_guard := bt_guard;
     k_btgam := bt_gamma; k_btL := bt_L; k_gamofL := gamma_of_L |}.
