(* AlmComposeC07.v — the ALM outer-loop invariants of C07 (AlmProofs.v: penalties positive / monotone / capped, multipliers handed to the
   inner solver bounded and signed, tolerance schedule, outer-iteration bound and accumulated statistics) for every COMPOSED run
   (AlmCompose.c_run: the outer loop calling an inner solver given as an arbitrary function).  By AlmComposeProofs.c_run_spec the trace and
   the final statistics of a composed run ARE Alm.alm_run on the script of inner outcomes the run produced, so every theorem about
   alm_run "for every script" applies; in addition the script is never exhausted and every record is one call of the inner solver. *)
From Coq Require Import Reals List ZArith Lra Lia Bool Arith.
From Alpaqa Require Import Num NumR Vec Prox Alm AlmProofs AlmCompose AlmComposeProofs.
Import ListNotations.
Local Open Scope R_scope.

Section ComposeC07.
  Variables (W Lg : Type).
  Variable inner : W -> nat -> list R -> list R -> list R -> R -> list R -> option (inner_res (T:=R) * list R * Lg * W).
  Variable P : alm_params (T:=R).
  Variable pb : alm_problem (T:=R).

  Definition alm_invariants (f0 : R) (g0 : list R) (Σ0 : option (list R)) (y0 : list R)
             (tr : list (iter_rec (T:=R))) (f : final (T:=R)) : Prop :=
    let S0 := initial_sigma P (pb_m pb) f0 g0 Σ0 in
    (* penalties: positive, of the right size, never decreasing, capped by max(initial, max_penalty) — by max_penalty if the initial ones are *)
    ((length S0 = pb_m pb /\ Forall (fun x => 0 < x) S0 /\ (p_single P = true -> uniform S0)) ->
       Forall (fun r => Forall (fun x => 0 < x) (it_Sigma r) /\ length (it_Sigma r) = pb_m pb) tr /\
       chain (fun a b => Forall2 Rle (it_Sigma a) (it_Sigma b)) tr /\
       Forall (fun r => Forall2 Rle (it_Sigma r) (map (fun s0 => Rmax s0 (p_max_pen P)) S0)) tr /\
       (Forall (fun x => x <= p_max_pen P) S0 -> Forall (fun r => Forall (fun x => x <= p_max_pen P) (it_Sigma r)) tr)) /\
    (* multipliers handed to the inner solver: within ±max_multiplier, sign allowed by one-sided constraints, zero on penalty-only rows *)
    (0 <= p_M P -> length (pb_ub pb) = pb_m pb -> length y0 = pb_m pb ->
       Forall (fun r =>
                 length (it_y r) = pb_m pb /\
                 forall k, (k < pb_m pb)%nat ->
                   let v := nth k (it_y r) 0 in
                   - p_M P <= v <= p_M P /\
                   ((k < pb_split pb)%nat -> v = 0) /\
                   (nth k (pb_lb pb) None = None -> 0 <= v) /\
                   (nth k (pb_ub pb) None = None -> v <= 0)) tr) /\
    (* inner tolerances: never below the final tolerance, non-increasing, ε⁺ = max(ρ ε, tolerance) *)
    (0 <= p_rho P <= 1 -> p_tol P <= p_init_tol P -> 0 <= p_init_tol P ->
       Forall (fun r => p_tol P <= it_tol r) tr /\
       chain (fun a b => it_tol b <= it_tol a /\ it_tol b = Rmax (p_rho P * it_tol a) (p_tol P)) tr) /\
    (* at most max_iter outer iterations = number of inner solves, numbered 0, 1, …; statistics are the sums over exactly those solves *)
    ((f_outer f <= Alm.p_max_iter P)%nat /\ f_outer f = length tr /\
     map it_i tr = seq 0 (length tr) /\
     f_iters f = fold_right Nat.add 0%nat (map (fun r => ir_iters (it_res r)) tr) /\
     f_fails f = length (filter (fun r => negb (is_converged (ir_status (it_res r)))) tr)).

  Theorem compose_alm_invariants fuel f0 g0 nanv Σ0 y0 x0 w0 co :
    c_run W Lg inner P pb fuel f0 g0 nanv Σ0 y0 x0 w0 = Some co ->
    alm_invariants f0 g0 Σ0 y0 (co_trace co) (co_final co) /\
    (* the inner solver was never asked for more than it delivered, and every record of the trace is one call of the inner solver,
       chained through the primal buffer and the world *)
    f_exhausted (co_final co) = false /\
    called W Lg inner x0 w0 (co_trace co) (co_x co) (co_w co).
  Proof.
    intros Hrun. destruct (c_run_spec W Lg inner P pb fuel f0 g0 nanv Σ0 y0 x0 w0 co Hrun) as (script & Htr & Hfin & Hex & Hcalled & _).
    split; [|split; [exact Hex|exact Hcalled]].
    unfold alm_invariants. rewrite Htr, Hfin. cbv zeta. split; [|split; [|split]].
    - intros HS. split; [exact (run_sigma_positive P pb f0 g0 nanv Σ0 y0 script HS)|].
      split; [exact (run_sigma_monotone P pb f0 g0 nanv Σ0 y0 script HS)|].
      split; [exact (run_sigma_bound P pb f0 g0 nanv Σ0 y0 script HS)|].
      exact (run_sigma_le_max P pb f0 g0 nanv Σ0 y0 script HS).
    - exact (run_y P pb f0 g0 nanv Σ0 y0 script).
    - exact (run_tol P pb f0 g0 nanv Σ0 y0 script).
    - destruct (run_counts P pb f0 g0 nanv Σ0 y0 script) as (A & B & _ & C & D & E). cbv zeta in *. repeat split; assumption.
  Qed.
End ComposeC07.
