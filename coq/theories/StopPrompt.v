(* StopPrompt.v — C19 on the WHOLE-LOOP PANOC model (Panoc.v): promptness of stop() for a STICKY request.
   Everything here is about event counters and control flow only, so it is proved for EVERY number system T (R and binary64 alike),
   every problem / direction / clock oracle and every parameter set.

   The model polls the flag exactly where the code does: once in check_all_stop_conditions at the top of `while (true)` and once
   per test of `while (!stop_signal.stop_requested())` in the line search.  A poll is identified by the event counters at the
   moment of the test.  `sticky stop_req`: once stop_requested() is true for some counters it is true for all later (pointwise >=)
   counters — the real flag is only ever set during a solve.

   Results (names used by Properties_C19.v):
     ls_pass_adv            one pass of the line-search loop costs at most 2 oracle calls (one of ψ/∇ψ at the candidate or ∇ψ(x̂) for
                            the safe step, one ψ(x̂)) + one prox step, at most one direction call (update in the candidate), one poll
     ls_stops_now           a line-search test that sees the request returns LsStopped with NO further work
     pass_exit_at_request   a loop-top check that sees the request leaves the loop: status <> Busy, Interrupted unless a
                            higher-ranked condition holds, at most 1 further oracle call (eval_ψ of the exit block, eager mode only)
     loop_stop_prompt       from ANY poll that sees the request: at most ONE further poll, at most 2 further oracle calls,
                            no direction call, no iterate update, exactly the final callback; k unchanged
     panoc_stop_prompt      the same for a run of operator()
     panoc_stop_before_start  request visible before the solve starts: the run is the start-up + one stop check
     setup_adv / finish_adv / top_adv : work between two consecutive polls when no request is seen (<= 3 oracle calls) *)
From Coq Require Import List ZArith Bool Arith Lia.
From Alpaqa Require Import Num Vec Prox SolverStatus SolverKernels StopChain StopChainProofs Panoc.
Import ListNotations.

(* ------------------------------------------------------------------ counters: order, cost, stickiness *)
Definition cnt_le (a b : counters) : Prop :=
  (c_polls a <= c_polls b /\ c_pg a <= c_pg b /\ c_py a <= c_py b /\ c_gl a <= c_gl b /\ c_gpsi a <= c_gpsi b /\
   c_dir a <= c_dir b /\ c_apply a <= c_apply b /\ c_cb a <= c_cb b)%nat.
(* problem-oracle calls: eval_ψ_grad_ψ + eval_ψ + eval_grad_L + eval_grad_ψ *)
Definition evals (c : counters) : nat := (c_pg c + c_py c + c_gl c + c_gpsi c)%nat.
Definition sticky (stop_req : counters -> bool) : Prop :=
  forall c c', cnt_le c c' -> stop_req c = true -> stop_req c' = true.
(* b is a after at most p polls, e oracle calls, d direction calls (a of them apply), cb callbacks *)
Definition adv (a b : counters) (p e d ap cb : nat) : Prop :=
  cnt_le a b /\ (c_polls b <= c_polls a + p /\ evals b <= evals a + e /\ c_dir b <= c_dir a + d /\
                 c_apply b <= c_apply a + ap /\ c_cb b <= c_cb a + cb)%nat.

Ltac cnt_unfold :=
  unfold adv, cnt_le, evals, inc_polls, inc_pg, inc_py, inc_gl, inc_gpsi, inc_dir, inc_apply, inc_cb, cnt0 in *;
  cbn [c_polls c_pg c_py c_gl c_gpsi c_dir c_apply c_cb] in *.
Ltac cnt_solve := cnt_unfold; lia.

Lemma cnt_le_refl c : cnt_le c c. Proof. cnt_solve. Qed.
Lemma cnt_le_trans a b c : cnt_le a b -> cnt_le b c -> cnt_le a c. Proof. cnt_solve. Qed.
Lemma adv_refl c : adv c c 0 0 0 0 0. Proof. cnt_solve. Qed.
Lemma adv_trans a b c p e d ap cb p' e' d' ap' cb' :
  adv a b p e d ap cb -> adv b c p' e' d' ap' cb' -> adv a c (p + p') (e + e') (d + d') (ap + ap') (cb + cb').
Proof. cnt_solve. Qed.
Lemma adv_weaken a b p e d ap cb p' e' d' ap' cb' :
  adv a b p e d ap cb -> (p <= p' -> e <= e' -> d <= d' -> ap <= ap' -> cb <= cb' -> adv a b p' e' d' ap' cb')%nat.
Proof. cnt_solve. Qed.
Lemma adv_le a b p e d ap cb : adv a b p e d ap cb -> cnt_le a b. Proof. intros [A _]; exact A. Qed.

Section Chain.
  Context {T : Type} `{Num T}.
  Definition exit_statuses (st : status) : Prop :=
    st = StInterrupted \/ st = StConverged \/ st = StMaxTime \/ st = StMaxIter \/ st = StNotFinite \/ st = StNoProgress.

  (* the status chain with a pending request: Interrupted unless a higher-ranked condition holds *)
  Lemma chain_with_request opts_tol eps te k mi np mnp :
    let st := stop_status_helpers opts_tol eps te k mi np mnp true in
    st <> StBusy /\ exit_statuses st /\
    (st = StInterrupted <-> (nleb eps (eff_tol opts_tol) = false /\ te = false /\ k <> mi /\ nfinite eps = true /\ (np <= mnp)%nat)).
  Proof.
    cbv zeta. unfold stop_status_helpers, eff_tol, exit_statuses. cbv zeta.
    destruct (nleb eps _); [split; [discriminate|split; [tauto|split; [discriminate|intros (?&_); discriminate]]]|].
    destruct te; [split; [discriminate|split; [tauto|split; [discriminate|intros (_&?&_); discriminate]]]|].
    destruct (Nat.eqb_spec k mi); [split; [discriminate|split; [tauto|split; [discriminate|intros (_&_&?&_); contradiction]]]|].
    destruct (nfinite eps); cbn [negb]; [|split; [discriminate|split; [tauto|split; [discriminate|intros (_&_&_&?&_); discriminate]]]].
    destruct (Nat.ltb_spec mnp np); [split; [discriminate|split; [tauto|split; [discriminate|intros (_&_&_&_&?); lia]]]|].
    split; [discriminate|split; [tauto|split; [intros _; repeat split; auto|reflexivity]]].
  Qed.

End Chain.

Section Prompt.
  Context {T : Type} `{Num T}.
  Local Open Scope num_scope.

  Variable psi_grad_full : list T -> T * list T * list T.
  Variable psi_yhat : list T -> T * list T.
  Variable grad_L : list T -> list T -> list T.
  Variable grad_psi : list T -> list T.
  Variables (lb ub : list (option T)) (l1 : list T).
  Variable dir_apply : nat -> iterate (T:=T) -> option (list T).
  Variable has_initial : bool.
  Variable stop_req : counters -> bool.
  Variable time_up : counters -> bool.
  Variable P : params (T:=T).
  Variables (x_in y_in Σ errz_in : list T).
  Variable ls_fuel : nat.

  Notation it := (iterate (T:=T)).
  Notation eprox := (eval_prox lb ub l1).
  Notation epsih := (eval_psih psi_grad_full psi_yhat P).
  Notation epsihx := (eval_psih_exit psi_yhat).
  Notation egradh := (eval_gradh grad_L grad_psi P).
  Notation lsloop := (ls_loop psi_grad_full psi_yhat grad_L grad_psi lb ub l1 stop_req P).
  Notation pass_ := (pass psi_grad_full psi_yhat grad_L grad_psi lb ub l1 dir_apply has_initial stop_req time_up P x_in y_in Σ errz_in ls_fuel).
  Notation loop_ := (loop psi_grad_full psi_yhat grad_L grad_psi lb ub l1 dir_apply has_initial stop_req time_up P x_in y_in Σ errz_in ls_fuel).
  Notation panoc_ := (panoc psi_grad_full psi_yhat grad_L grad_psi lb ub l1 dir_apply has_initial stop_req time_up P x_in y_in Σ errz_in ls_fuel).
  Notation eps_of := (it_eps lb ub l1 P).
  Notation initL := (init_L psi_grad_full grad_psi P x_in).
  Notation initqub := (init_qub psi_grad_full psi_yhat lb ub l1 P).

  Lemma cnt_psih_adv c : adv c (cnt_psih P c) 0 1 0 0 0.
  Proof. unfold cnt_psih. destruct (p_eager P); cnt_solve. Qed.
  Lemma cnt_gradh_adv c : adv c (cnt_gradh P c) 0 1 0 0 0.
  Proof. unfold cnt_gradh. destruct (p_eager P); cnt_solve. Qed.

  (* ------------------------------------------------------------------ the line search, one pass at a time *)
  (* the body of `while (!stop_requested())` after a test that saw no request: inl = loop again, inr = break *)
  Definition ls_pass (q : list T) (tau_init : T) (s : ls_state (T:=T)) : ls_state (T:=T) + ls_state (T:=T) :=
    let c0 := inc_polls (ls_cnt s) in
    let τ := ls_tau s in
    let '(curr, next, c1) :=
      if τ =? ls_tau_prev s then (ls_curr s, ls_next s, c0)
      else if τ =? n0 then take_safe_step grad_L grad_psi P (ls_curr s) (ls_next s) c0
      else (ls_curr s, take_accel_step psi_grad_full τ q (ls_curr s) (ls_next s), inc_pg c0) in
    let τ_prev := τ in
    let fail := negb (nfinite (ipsi next)) || ((p_Lmax P <=? iL next) && negb (p_Lmax P <=? iL curr)) in
    if (n0 <? τ) && fail then
      inl (mkLs curr (set_gamma_L next (igam curr) (iL curr)) n0 τ_prev false (ls_updated s) c1 (ls_stats s))
    else
      let next1 := epsih (eprox next) in
      let c2 := cnt_psih P c1 in
      if (iL next1 <? p_Lmax P) && it_qub_violated P next1 then
        inl (mkLs curr (halve_it next1) (if n0 <? τ then tau_init else τ) τ_prev false (ls_updated s) c2 (inc_sbt (ls_stats s)))
      else
        let do_upd := ls_upd s && negb (ls_updated s) in
        let c3 := if do_upd then inc_dir c2 else c2 in
        let upd := if do_upd then false else ls_upd s in
        let updated := if do_upd then true else ls_updated s in
        if (n0 <? τ) && it_ls_violated P curr next1 then
          let τ1 := τ * p_tau_factor P in
          let τ2 := if τ1 <? p_tau_min P then n0 else τ1 in
          inl (mkLs curr next1 τ2 τ_prev upd updated c3 (inc_lbt (ls_stats s)))
        else inr (mkLs curr next1 τ τ_prev upd updated c3 (ls_stats s)).

  (* the state LsStopped carries when the test at state s saw the request: s itself, one more poll *)
  Definition ls_stopped_at (s : ls_state (T:=T)) : ls_state (T:=T) :=
    mkLs (ls_curr s) (ls_next s) (ls_tau s) (ls_tau_prev s) (ls_upd s) (ls_updated s) (inc_polls (ls_cnt s)) (ls_stats s).

  Lemma ls_loop_unfold fuel q τi s :
    lsloop (S fuel) q τi s =
      if stop_req (ls_cnt s) then LsStopped (ls_stopped_at s)
      else match ls_pass q τi s with inl s1 => lsloop fuel q τi s1 | inr s2 => LsDone s2 end.
  Proof.
    cbn [ls_loop]. unfold ls_pass, ls_stopped_at. destruct (stop_req (ls_cnt s)); [reflexivity|].
    set (ph := if ls_tau s =? ls_tau_prev s then (ls_curr s, ls_next s, inc_polls (ls_cnt s))
               else if ls_tau s =? n0 then take_safe_step grad_L grad_psi P (ls_curr s) (ls_next s) (inc_polls (ls_cnt s))
               else (ls_curr s, take_accel_step psi_grad_full (ls_tau s) q (ls_curr s) (ls_next s), inc_pg (inc_polls (ls_cnt s)))).
    destruct ph as [[curr next] c1].
    repeat match goal with |- context [if ?b then _ else _] => destruct b end; reflexivity.
  Qed.

  (* (a) a line-search test that sees the request: LsStopped at once, nothing evaluated, nothing changed *)
  Lemma ls_stops_now fuel q τi s : stop_req (ls_cnt s) = true -> lsloop (S fuel) q τi s = LsStopped (ls_stopped_at s).
  Proof. intros E. rewrite ls_loop_unfold, E. reflexivity. Qed.

  Definition ls_res_state (r : ls_state (T:=T) + ls_state (T:=T)) : ls_state (T:=T) := match r with inl s => s | inr s => s end.

  Lemma safe_step_cnt (curr next : it) c : adv c (snd (take_safe_step grad_L grad_psi P curr next c)) 0 1 0 0 0.
  Proof. unfold take_safe_step. cbn [snd]. destruct (ihave curr); [cnt_solve|apply cnt_gradh_adv]. Qed.

  (* (a) the cost of ONE pass of the line-search loop, whatever branch it takes:
     exactly one poll (the test that let it in), at most 2 oracle calls, at most 1 direction call (never apply), no callback *)
  Lemma ls_pass_adv q τi s :
    adv (ls_cnt s) (ls_cnt (ls_res_state (ls_pass q τi s))) 1 2 1 0 0 /\
    c_polls (ls_cnt (ls_res_state (ls_pass q τi s))) = S (c_polls (ls_cnt s)).
  Proof.
    unfold ls_pass. cbv zeta.
    set (ph := if ls_tau s =? ls_tau_prev s then (ls_curr s, ls_next s, inc_polls (ls_cnt s))
               else if ls_tau s =? n0 then take_safe_step grad_L grad_psi P (ls_curr s) (ls_next s) (inc_polls (ls_cnt s))
               else (ls_curr s, take_accel_step psi_grad_full (ls_tau s) q (ls_curr s) (ls_next s), inc_pg (inc_polls (ls_cnt s)))).
    assert (F : adv (inc_polls (ls_cnt s)) (snd ph) 0 1 0 0 0 /\ c_polls (snd ph) = S (c_polls (ls_cnt s))).
    { subst ph. destruct (ls_tau s =? ls_tau_prev s); [cbn [snd]; cnt_solve|].
      destruct (ls_tau s =? n0); [|cbn [snd]; cnt_solve].
      pose proof (safe_step_cnt (ls_curr s) (ls_next s) (inc_polls (ls_cnt s))) as A. split; [exact A|]. cnt_solve. }
    destruct ph as [[curr next] c1]. cbn [snd] in F. destruct F as [F1 F2].
    pose proof (cnt_psih_adv c1) as F3.
    repeat match goal with |- context [if ?b then _ else _] => destruct b end; cbn [ls_res_state ls_cnt]; cnt_solve.
  Qed.

  (* the line-search states at which the flag is tested *)
  Inductive ls_reach (q : list T) (τi : T) : ls_state (T:=T) -> ls_state (T:=T) -> Prop :=
  | lr_refl s : ls_reach q τi s s
  | lr_step s s1 s2 : stop_req (ls_cnt s) = false -> ls_pass q τi s = inl s1 -> ls_reach q τi s1 s2 -> ls_reach q τi s s2.

  Lemma ls_reach_le q τi s s' : ls_reach q τi s s' -> cnt_le (ls_cnt s) (ls_cnt s').
  Proof.
    induction 1 as [s|s s1 s2 _ Ep _ IH]; [apply cnt_le_refl|].
    destruct (ls_pass_adv q τi s) as [A _]. rewrite Ep in A. cbn [ls_res_state] in A.
    eapply cnt_le_trans; [exact (adv_le _ _ _ _ _ _ _ A)|exact IH].
  Qed.

  (* a test that sees the request is the last thing the line search does (unless the model's fuel ran out before reaching it) *)
  Lemma ls_reach_stops q τi s l : ls_reach q τi s l -> stop_req (ls_cnt l) = true ->
    forall fuel, lsloop fuel q τi s = LsFuel \/ lsloop fuel q τi s = LsStopped (ls_stopped_at l).
  Proof.
    induction 1 as [s|s s1 s2 Es Ep _ IH]; intros El [|fuel]; try (left; reflexivity).
    - right. now apply ls_stops_now.
    - rewrite ls_loop_unfold, Es, Ep. apply IH, El.
  Qed.

  (* conversely: LsStopped is only ever returned from a test that saw the request, with the state of that test *)
  Lemma ls_stopped_inv q τi : forall fuel s l, lsloop fuel q τi s = LsStopped l ->
    exists lp, ls_reach q τi s lp /\ stop_req (ls_cnt lp) = true /\ l = ls_stopped_at lp.
  Proof.
    induction fuel as [|fuel IH]; intros s l; [discriminate|]. rewrite ls_loop_unfold.
    destruct (stop_req (ls_cnt s)) eqn:Es.
    - intros E. inversion E. exists s. split; [constructor|split; [exact Es|reflexivity]].
    - destruct (ls_pass q τi s) as [s1|s2] eqn:Ep; [|discriminate]. intros E.
      destruct (IH _ _ E) as (lp & A & B & C). exists lp. split; [econstructor; eassumption|split; assumption].
  Qed.
  Lemma ls_done_inv q τi : forall fuel s l, lsloop fuel q τi s = LsDone l ->
    exists lp, ls_reach q τi s lp /\ stop_req (ls_cnt lp) = false /\ ls_pass q τi lp = inr l.
  Proof.
    induction fuel as [|fuel IH]; intros s l; [discriminate|]. rewrite ls_loop_unfold.
    destruct (stop_req (ls_cnt s)) eqn:Es; [discriminate|].
    destruct (ls_pass q τi s) as [s1|s2] eqn:Ep.
    - intros E. destruct (IH _ _ E) as (lp & A & B & C). exists lp. split; [econstructor; eassumption|split; assumption].
    - intros E. inversion E; subst. exists s. split; [constructor|split; assumption].
  Qed.

  (* ------------------------------------------------------------------ one pass of `while (true)`, in pieces *)
  Definition top_need (s : lstate (T:=T)) : bool := need_gradh P && negb (ihave (st_curr s)).
  (* the iterate / the counters the stop check of this pass looks at *)
  Definition top_curr (s : lstate (T:=T)) : it := if top_need s then egradh (st_curr s) else st_curr s.
  Definition top_cnt (s : lstate (T:=T)) : counters := if top_need s then cnt_gradh P (st_cnt s) else st_cnt s.
  Definition top_status (s : lstate (T:=T)) : status :=
    stop_status_helpers (o_tol P) (eps_of (top_curr s)) (time_up (top_cnt s)) (st_k s) (Panoc.p_max_iter P) (st_np s)
                        (p_max_no_progress P) (stop_req (top_cnt s)).
  (* the exit branch *)
  Definition pass_exit (s : lstate (T:=T)) (st : status) : outputs (T:=T) :=
    let curr := top_curr s in
    let ε := eps_of curr in
    let k := st_k s in
    let c1 := inc_polls (top_cnt s) in
    let rec := mkCb k curr [] (- n1) ε st in
    let c2 := inc_cb c1 in
    let ow := overwrites st (o_always P) in
    let curr_f := if ow && p_eager P then epsihx curr else curr in
    let c3 := if ow && p_eager P then inc_py c2 else c2 in
    let '(xo, yo, eo) := exit_block st (o_always P) x_in y_in errz_in (ixh curr_f) (iyh curr_f) Σ in
    mkOut st k ε xo yo eo curr_f (st_stats s) (rev (rec :: st_log s)) c3.
  (* the Busy branch up to the first line-search test: direction.initialize / apply *)
  Definition pass_setup (s : lstate (T:=T)) : list T * T * ls_state (T:=T) :=
    let curr := top_curr s in
    let k := st_k s in
    let c1 := inc_polls (top_cnt s) in
    let c2 := if (k =? 0)%nat then inc_dir c1 else c1 in
    let use_dir := (0 <? k)%nat || has_initial in
    let r := if use_dir then dir_apply (c_apply c2) curr else None in
    let c3 := if use_dir then inc_apply c2 else c2 in
    let q := match r with Some q' => q' | None => st_q s end in
    let tau_init := match r with Some q' => if vall_finite q' then n1 else n0 | None => n0 end in
    let stats1 := if use_dir && negb (tau_init =? n1) then inc_dfail (st_stats s) else st_stats s in
    (q, tau_init, mkLs curr (set_gamma_L (st_next s) (igam curr) (iL curr)) tau_init (- n1) (p_upd_in_cand P) false c3 stats1).
  (* !linesearch_completed: continue *)
  Definition pass_stopped (s : lstate (T:=T)) (q : list T) (l : ls_state (T:=T)) : lstate (T:=T) :=
    mkSt (ls_curr l) (ls_next l) (st_k s) (st_np s) q (ls_cnt l) (ls_stats l) (st_log s).
  (* after a completed line search *)
  Definition pass_finish (s : lstate (T:=T)) (q : list T) (tau_init : T) (l : ls_state (T:=T)) : lstate (T:=T) :=
    let k := st_k s in
    let ε := eps_of (top_curr s) in
    let curr := ls_curr l in let next := ls_next l in let τ := ls_tau l in
    let z := ls_stats l in
    let stats2 := mkStats (s_stepsize_bt z) (s_ls_bt z)
                          (s_ls_fail z + b2n ((τ =? n0) && (n0 <? tau_init)))
                          (s_dir_fail z)
                          (s_tau1 z + b2n (τ =? n1))
                          (s_count_tau z + b2n (n0 <? tau_init))
                          (s_sum_tau z + τ) in
    let np := match no_progress_update (st_np s) k (p_max_no_progress P) (veqb (ix curr) (ix next)) with
              | Some v => v | None => st_np s end in
    let curr2 := if negb (ls_updated l) && negb (igam curr =? igam next) && p_recompute P
                 then eprox (set_gamma_L curr (igam next) (iL next)) else curr in
    let c4 := if ls_updated l then ls_cnt l else inc_dir (ls_cnt l) in
    let rec := mkCb k curr2 q τ ε StBusy in
    mkSt next curr2 (S k) np q (inc_cb c4) stats2 (rec :: st_log s).

  Lemma pass_eq (s : lstate (T:=T)) :
    pass_ s = match top_status s with
              | StBusy => let '(q, τi, ls0) := pass_setup s in
                          match lsloop ls_fuel q τi ls0 with
                          | LsFuel => PFuel
                          | LsStopped l => PCont (pass_stopped s q l)
                          | LsDone l => PCont (pass_finish s q τi l)
                          end
              | st => PExit (pass_exit s st)
              end.
  Proof.
    unfold pass, top_status, pass_exit, pass_setup, pass_stopped, pass_finish, top_curr, top_cnt, top_need. cbv zeta.
    match goal with |- context [stop_status_helpers ?a ?b ?c ?d ?e ?f ?g ?h] => destruct (stop_status_helpers a b c d e f g h) end;
      try reflexivity;
      match goal with |- context [exit_block ?a ?b ?c ?d ?e ?f ?g ?h] => destruct (exit_block a b c d e f g h) as [[xo yo] eo] end; reflexivity.
  Qed.

  Lemma top_adv s : adv (st_cnt s) (top_cnt s) 0 1 0 0 0.
  Proof. unfold top_cnt. destruct (top_need s); [apply cnt_gradh_adv|cnt_solve]. Qed.
  (* Busy: from the stop check to the first line-search test — no oracle call; direction.initialize (k = 0) and direction.apply *)
  Lemma setup_adv s : adv (top_cnt s) (ls_cnt (snd (pass_setup s))) 1 0 2 1 0.
  Proof.
    unfold pass_setup. cbv zeta. cbn [snd ls_cnt].
    destruct (st_k s =? 0)%nat; destruct ((0 <? st_k s)%nat || has_initial); cnt_solve.
  Qed.
  (* after the last line-search pass: direction.update (unless done in the candidate), progress callback — no oracle call *)
  Lemma finish_adv s q τi l : adv (ls_cnt l) (st_cnt (pass_finish s q τi l)) 0 0 1 0 1.
  Proof. unfold pass_finish. cbv zeta. cbn [st_cnt]. destruct (ls_updated l); cnt_solve. Qed.

  (* everything of an iterate except ψ(x̂), ŷ(x̂), ∇ψ(x̂) and its flag (what the stop check and the exit block may still fill in) *)
  Definition same_point (a b : it) : Prop :=
    ix a = ix b /\ ixh a = ixh b /\ ip a = ip b /\ igrad a = igrad b /\ ipsi a = ipsi b /\ igam a = igam b /\ iL a = iL b /\
    ipp a = ipp b /\ igp a = igp b /\ ih a = ih b.
  Lemma same_point_refl a : same_point a a. Proof. repeat split. Qed.
  Lemma same_point_trans a b c : same_point a b -> same_point b c -> same_point a c.
  Proof.
    intros (A1&A2&A3&A4&A5&A6&A7&A8&A9&A10) (B1&B2&B3&B4&B5&B6&B7&B8&B9&B10).
    repeat split; etransitivity; eassumption.
  Qed.
  Lemma top_curr_same s : same_point (st_curr s) (top_curr s).
  Proof. unfold top_curr. destruct (top_need s); repeat split. Qed.

  (* what the exit branch returns *)
  Lemma pass_exit_facts s st :
    let o := pass_exit s st in
    out_status o = st /\ out_iterations o = st_k s /\ out_eps o = eps_of (top_curr s) /\ out_stats o = st_stats s /\
    adv (top_cnt s) (out_cnt o) 1 1 0 0 1 /\ c_polls (out_cnt o) = S (c_polls (top_cnt s)) /\ c_cb (out_cnt o) = S (c_cb (top_cnt s)) /\
    (p_eager P = false -> evals (out_cnt o) = evals (top_cnt s)) /\
    same_point (top_curr s) (out_final o) /\
    (overwrites st (o_always P) = true -> out_x o = ixh (top_curr s)) /\
    (overwrites st (o_always P) = false -> out_x o = x_in /\ out_y o = y_in /\ out_errz o = errz_in).
  Proof.
    unfold pass_exit. cbv zeta.
    set (ow := overwrites st (o_always P)).
    set (cf := if ow && p_eager P then epsihx (top_curr s) else top_curr s).
    assert (Exh : ixh cf = ixh (top_curr s)) by (subst cf; destruct (ow && p_eager P); reflexivity).
    assert (Esp : same_point (top_curr s) cf) by (subst cf; destruct (ow && p_eager P); repeat split).
    unfold exit_block. fold ow. rewrite Exh.
    destruct ow; cbn [out_status out_iterations out_eps out_stats out_cnt out_final out_x out_y out_errz andb].
    - repeat (split; [reflexivity|]). split; [destruct (p_eager P); cnt_solve|]. split; [destruct (p_eager P); cnt_solve|].
      split; [destruct (p_eager P); cnt_solve|]. split; [intros ->; cnt_solve|]. split; [exact Esp|]. split; [reflexivity|discriminate].
    - repeat (split; [reflexivity|]). split; [cnt_solve|]. split; [cnt_solve|]. split; [cnt_solve|]. split; [intros _; cnt_solve|].
      split; [exact Esp|]. split; [discriminate|]. intros _. repeat split.
  Qed.

  (* (b) a loop-top check that sees the request leaves the loop *)
  Theorem pass_exit_at_request s : stop_req (top_cnt s) = true ->
    pass_ s = PExit (pass_exit s (top_status s)) /\ top_status s <> StBusy /\ exit_statuses (top_status s) /\
    (top_status s = StInterrupted <->
       (nleb (eps_of (top_curr s)) (eff_tol (o_tol P)) = false /\ time_up (top_cnt s) = false /\ st_k s <> Panoc.p_max_iter P /\
        nfinite (eps_of (top_curr s)) = true /\ (st_np s <= p_max_no_progress P)%nat)).
  Proof.
    intros E. rewrite pass_eq. unfold top_status. rewrite E.
    destruct (chain_with_request (o_tol P) (eps_of (top_curr s)) (time_up (top_cnt s)) (st_k s) (Panoc.p_max_iter P) (st_np s)
                (p_max_no_progress P)) as (A & B & C).
    cbv zeta in A, B, C. split; [|split; [exact A|split; [exact B|exact C]]].
    destruct (stop_status_helpers _ _ _ _ _ _ _ true); [contradiction|reflexivity..].
  Qed.

  (* ------------------------------------------------------------------ the polls of a run *)
  (* a poll: the counters at the test, the current iterate `curr` and the iteration number at that moment *)
  Record pollpt := mkPP { pp_cnt : counters; pp_curr : it; pp_k : nat }.

  Inductive polled_from : lstate (T:=T) -> pollpt -> Prop :=
  | pf_top s : polled_from s (mkPP (top_cnt s) (top_curr s) (st_k s))                      (* check_all_stop_conditions *)
  | pf_ls s q τi ls0 l : top_status s = StBusy -> pass_setup s = (q, τi, ls0) -> ls_reach q τi ls0 l ->
      polled_from s (mkPP (ls_cnt l) (ls_curr l) (st_k s))                                   (* while (!stop_requested()) *)
  | pf_next s s' pp : pass_ s = PCont s' -> polled_from s' pp -> polled_from s pp.

  (* what "prompt" means for a finished run relative to a poll *)
  Definition prompt_after (pp : pollpt) (o : outputs (T:=T)) : Prop :=
    out_status o <> StBusy /\ exit_statuses (out_status o) /\
    adv (pp_cnt pp) (out_cnt o) 2 2 0 0 1 /\                      (* <= 1 further poll after this one, <= 2 oracle calls, final callback *)
    c_dir (out_cnt o) = c_dir (pp_cnt pp) /\ c_apply (out_cnt o) = c_apply (pp_cnt pp) /\   (* no direction call *)
    out_iterations o = pp_k pp /\                                   (* no iteration completed *)
    same_point (pp_curr pp) (out_final o) /\                        (* no iterate update *)
    (overwrites (out_status o) (o_always P) = true -> out_x o = ixh (pp_curr pp)).

  Lemma exit_prompt s c0 (i0 : it) : stop_req (top_cnt s) = true ->
    adv c0 (st_cnt s) 1 0 0 0 0 -> same_point i0 (st_curr s) ->
    prompt_after (mkPP c0 i0 (st_k s)) (pass_exit s (top_status s)).
  Proof.
    intros E A Sp. destruct (pass_exit_at_request s E) as (_ & B & C & _).
    destruct (pass_exit_facts s (top_status s)) as (F1 & F2 & F3 & F4 & F5 & F6 & F7 & F8 & F9 & F10 & F11). cbv zeta in *.
    pose proof (top_adv s) as Ta. pose proof (top_curr_same s) as Ts.
    unfold prompt_after. cbn [pp_cnt pp_curr pp_k]. rewrite F1, F2.
    split; [exact B|]. split; [exact C|]. split; [cnt_solve|]. split; [cnt_solve|]. split; [cnt_solve|]. split; [reflexivity|].
    split; [eapply same_point_trans; [exact Sp|eapply same_point_trans; [exact Ts|exact F9]]|].
    intros Ho. rewrite (F10 Ho). destruct Sp as (_ & S2 & _). destruct Ts as (_ & T2 & _). now rewrite S2, T2.
  Qed.

  Hypothesis Hsticky : sticky stop_req.

  (* (b)+(c) MAIN: from ANY poll that sees the request, the run returns after at most one further poll *)
  Theorem loop_stop_prompt : forall fuel s o, loop_ fuel s = Done o ->
    forall pp, polled_from s pp -> stop_req (pp_cnt pp) = true -> prompt_after pp o.
  Proof.
    induction fuel as [|fuel IH]; intros s o Hr pp Hp Hs; [discriminate|]. cbn [loop] in Hr.
    destruct Hp as [s|s q τi ls0 l Eb Eset Hreach|s s' pp Ep Hp'].
    - (* the loop-top check of this pass *)
      cbn [pp_cnt] in Hs. destruct (pass_exit_at_request s Hs) as (Ep & _). rewrite Ep in Hr. inversion Hr; subst o.
      pose proof (exit_prompt s (top_cnt s) (top_curr s) Hs) as X.
      (* relative to the poll itself: no gradient evaluation in between *)
      destruct (pass_exit_facts s (top_status s)) as (F1 & F2 & F3 & F4 & F5 & F6 & F7 & F8 & F9 & F10 & F11). cbv zeta in *.
      destruct (pass_exit_at_request s Hs) as (_ & B & C & _).
      unfold prompt_after. cbn [pp_cnt pp_curr pp_k]. rewrite F1, F2.
      split; [exact B|]. split; [exact C|]. split; [cnt_solve|]. split; [cnt_solve|]. split; [cnt_solve|]. split; [reflexivity|].
      split; [exact F9|exact F10].
    - (* a line-search test *)
      cbn [pp_cnt] in Hs. rewrite pass_eq, Eb, Eset in Hr.
      destruct (ls_reach_stops q τi ls0 l Hreach Hs ls_fuel) as [Ef|Ef]; rewrite Ef in Hr; [discriminate|].
      destruct fuel as [|fuel]; [discriminate|]. cbn [loop] in Hr.
      set (s' := pass_stopped s q (ls_stopped_at l)) in *.
      assert (Ecnt : st_cnt s' = inc_polls (ls_cnt l)) by reflexivity.
      assert (Hs' : stop_req (top_cnt s') = true).
      { apply (Hsticky (ls_cnt l)); [|exact Hs]. pose proof (top_adv s') as Ta. rewrite Ecnt in Ta. cnt_solve. }
      destruct (pass_exit_at_request s' Hs') as (Ep & _). rewrite Ep in Hr. inversion Hr; subst o.
      apply (exit_prompt s' (ls_cnt l) (ls_curr l) Hs'); [rewrite Ecnt; cnt_solve|apply same_point_refl].
    - rewrite Ep in Hr. exact (IH s' o Hr pp Hp' Hs).
  Qed.

  (* ------------------------------------------------------------------ operator() *)
  (* the start-up: initial Lipschitz estimate, first prox step, ψ(x̂), the (unpolled) initial step-size loop *)
  Lemma init_qub_cnt : forall fuel i c z i' c' z', initqub fuel i c z = Some (i', c', z') ->
    cnt_le c c' /\ c_polls c' = c_polls c /\ c_dir c' = c_dir c /\ c_apply c' = c_apply c /\ c_cb c' = c_cb c /\
    (evals c' + s_stepsize_bt z = evals c + s_stepsize_bt z')%nat.
  Proof.
    induction fuel as [|fuel IH]; intros i c z i' c' z'; cbn [init_qub];
      destruct ((iL i <? p_Lmax P) && it_qub_violated P i); try discriminate.
    1,3: intros E; inversion E; subst; repeat split; try apply cnt_le_refl; reflexivity.
    intros E. destruct (IH _ _ _ _ _ _ E) as (A1 & A2 & A3 & A4 & A5 & A6).
    pose proof (cnt_psih_adv c) as B. unfold cnt_psih in *. unfold inc_sbt in A6. cbn [s_stepsize_bt] in A6.
    destruct (p_eager P); cnt_unfold; repeat split; lia.
  Qed.
  Lemma init_L_cnt : let c := snd initL in
    c_polls c = 0%nat /\ c_dir c = 0%nat /\ c_apply c = 0%nat /\ c_cb c = 0%nat /\ (evals c <= 2)%nat.
  Proof. unfold init_L. cbv zeta. destruct (p_L0 P <=? n0); cbn [snd]; cnt_unfold; repeat split; lia. Qed.

  Definition panoc_start (s0 : lstate (T:=T)) : Prop :=
    exists i0 c0 i3 c1 z1, initL = (i0, c0) /\ nfinite (iL i0) = true /\
      initqub ls_fuel (epsih (eprox (set_gamma_L i0 (p_Lgamma P / iL i0) (iL i0)))) (cnt_psih P c0) stats0 = Some (i3, c1, z1) /\
      s0 = mkSt i3 it_blank 0 0 [] c1 z1 [].
  (* the polls of a run of operator() *)
  Definition panoc_polled (pp : pollpt) : Prop := exists s0, panoc_start s0 /\ polled_from s0 pp.

  Lemma panoc_done_start fuel o : panoc_ fuel = Done o -> exists s0, panoc_start s0 /\ loop_ fuel s0 = Done o.
  Proof.
    unfold panoc. destruct initL as [i0 c0] eqn:E0. destruct (nfinite (iL i0)) eqn:Ef; cbn [negb]; [|discriminate].
    destruct (initqub ls_fuel _ (cnt_psih P c0) stats0) as [[[i3 c1] z1]|] eqn:Eq; [|discriminate].
    intros Hr. eexists. split; [|exact Hr]. exists i0, c0, i3, c1, z1. repeat split; assumption.
  Qed.

  Lemma loop_not_nfl L : forall fuel s, loop_ fuel s <> NotFiniteL L.
  Proof. induction fuel as [|fuel IH]; intros s; cbn [loop]; [discriminate|]. destruct (pass_ s); [discriminate|apply IH|discriminate]. Qed.
  (* a solve that aborts in the start-up (non-finite Lipschitz estimate) never reaches the loop: it has no poll *)
  Lemma panoc_notfinite_no_start fuel L : panoc_ fuel = NotFiniteL L -> forall s0, ~ panoc_start s0.
  Proof.
    unfold panoc. destruct initL as [i0 c0] eqn:E0. intros Hr s0 (i0' & c0' & i3 & c1 & z1 & E0' & Ef & Eq & _).
    rewrite E0 in E0'. inversion E0'; subst i0' c0'. rewrite Ef in Hr. cbn [negb] in Hr. rewrite Eq in Hr. exact (loop_not_nfl L _ _ Hr).
  Qed.

  Lemma panoc_start_cnt s0 : panoc_start s0 ->
    c_polls (st_cnt s0) = 0%nat /\ c_dir (st_cnt s0) = 0%nat /\ c_apply (st_cnt s0) = 0%nat /\ c_cb (st_cnt s0) = 0%nat /\
    (evals (st_cnt s0) <= 3 + s_stepsize_bt (st_stats s0))%nat /\ st_k s0 = 0%nat.
  Proof.
    intros (i0 & c0 & i3 & c1 & z1 & E0 & _ & Eq & ->). cbn [st_cnt st_stats st_k].
    pose proof init_L_cnt as A. cbv zeta in A. rewrite E0 in A. cbn [snd] in A. destruct A as (A1 & A2 & A3 & A4 & A5).
    destruct (init_qub_cnt _ _ _ _ _ _ _ Eq) as (B1 & B2 & B3 & B4 & B5 & B6). cbn [stats0 s_stepsize_bt] in B6.
    pose proof (cnt_psih_adv c0) as C. cnt_unfold. repeat split; lia.
  Qed.

  Theorem panoc_stop_prompt fuel o : panoc_ fuel = Done o ->
    forall pp, panoc_polled pp -> stop_req (pp_cnt pp) = true -> prompt_after pp o.
  Proof.
    intros Hr pp (s0 & Hs0 & Hp) Hs. destruct (panoc_done_start fuel o Hr) as (s0' & Hs0' & Hl).
    assert (s0' = s0).
    { destruct Hs0 as (i0 & c0 & i3 & c1 & z1 & E0 & _ & Eq & ->). destruct Hs0' as (i0' & c0' & i3' & c1' & z1' & E0' & _ & Eq' & ->).
      rewrite E0 in E0'. inversion E0'; subst. rewrite Eq in Eq'. inversion Eq'; subst. reflexivity. }
    subst s0'. exact (loop_stop_prompt fuel s0 o Hl pp Hp Hs).
  Qed.

  (* a request that is visible before the solve starts (e.g. the next inner solve under ALM): the run consists of the start-up and ONE
     stop check — no iteration, no direction call (not even direction.initialize), exactly the final callback *)
  Theorem panoc_stop_before_start fuel o : panoc_ fuel = Done o -> stop_req cnt0 = true ->
    out_status o <> StBusy /\ exit_statuses (out_status o) /\
    out_iterations o = 0%nat /\ c_polls (out_cnt o) = 1%nat /\ c_dir (out_cnt o) = 0%nat /\ c_apply (out_cnt o) = 0%nat /\
    c_cb (out_cnt o) = 1%nat /\ (evals (out_cnt o) <= 5 + s_stepsize_bt (out_stats o))%nat.
  Proof.
    intros Hr H0. destruct (panoc_done_start fuel o Hr) as (s0 & Hs0 & Hl).
    destruct (panoc_start_cnt s0 Hs0) as (A1 & A2 & A3 & A4 & A5 & A6).
    assert (Hs : stop_req (top_cnt s0) = true) by (apply (Hsticky cnt0); [cnt_solve|exact H0]).
    destruct fuel as [|fuel]; [discriminate|]. cbn [loop] in Hl.
    destruct (pass_exit_at_request s0 Hs) as (Ep & B & C & _). rewrite Ep in Hl. inversion Hl; subst o.
    destruct (pass_exit_facts s0 (top_status s0)) as (F1 & F2 & F3 & F4 & F5 & F6 & F7 & F8 & _). cbv zeta in *.
    pose proof (top_adv s0) as Ta. rewrite F1, F2, F4.
    split; [exact B|]. split; [exact C|]. split; [exact A6|]. cnt_unfold. repeat split; lia.
  Qed.
End Prompt.
