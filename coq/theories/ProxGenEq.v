(* ProxGenEq.v — tie 1 for C15 (translator G10): every definition that translate/gen_prox.py regenerates from
   box.hpp / box-constr-problem.hpp / l1-norm.hpp / prox.hpp / indicator-box.hpp on every run (coq/gen/ProxGen.v)
   EQUALS the hand definition of Prox.v — the one all theorems of ProxProofs.v / ProxVec.v / Properties_C15.v are
   about — at the real instance.  A change of the source changes ProxGen.v and breaks the lemma named after the
   generated definition here (`g_<name>_eq`), which is a proof obligation of Properties_C15.v.
   Proof style: `reflexivity` when the translated term is convertible with the model (the normal case), otherwise case
   analysis on the bounds and on every comparison + linear real arithmetic, so that an equivalent rewriting of a kernel
   (re-association, a temporary, -(a*b) for (-a)*b ...) does not break the tie.
   The second half restates the main theorems of C15 for the GENERATED terms (used by Properties_C15.v with `exact`).
   Operand-order-exact (syntactic, any number system incl. binary64) equalities are in ProxGenExact.v. *)
From Coq Require Import Reals List ZArith Lra Lia Psatz Bool Arith.
From Flocq Require Import Raux.
From Alpaqa Require Import Num NumR Vec Prox ProxProofs ProxVec ProxGenLib ProxGen.
Import ListNotations.
Local Open Scope R_scope.

(* ------------------------------------------------------------------ list lemmas *)
Lemma zmap4_map5 {A B C D E} (f : A -> B -> C -> D -> E) (h : A -> B -> C -> C -> D -> E) la lb lc ld :
  (forall a b c d, f a b c d = h a b c c d) -> zmap4 f la lb lc ld = map5 h la lb lc lc ld.
Proof.
  intros Hf. revert lb lc ld. induction la as [|a la IH]; intros [|b lb] [|c lc] [|d ld]; cbn; try reflexivity.
  rewrite Hf, IH. reflexivity.
Qed.
Lemma zmap5_map5 {A B C D E F} (f h : A -> B -> C -> D -> E -> F) la lb lc ld le :
  (forall a b c d e, f a b c d e = h a b c d e) -> zmap5 f la lb lc ld le = map5 h la lb lc ld le.
Proof.
  intros Hf. revert lb lc ld le. induction la as [|a la IH]; intros [|b lb] [|c lc] [|d ld] [|e le]; cbn; try reflexivity.
  rewrite Hf, IH. reflexivity.
Qed.
Lemma map3_ext_eq {A B C D} (f h : A -> B -> C -> D) la lb lc :
  (forall a b c, f a b c = h a b c) -> map3 f la lb lc = map3 h la lb lc.
Proof.
  intros Hf. revert lb lc. induction la as [|a la IH]; intros [|b lb] [|c lc]; cbn; try reflexivity.
  rewrite Hf, IH. reflexivity.
Qed.
Lemma map2_ext_eq {A B C} (f h : A -> B -> C) la lb :
  (forall a b, f a b = h a b) -> map2 f la lb = map2 h la lb.
Proof.
  intros Hf. revert lb. induction la as [|a la IH]; intros [|b lb]; cbn; try reflexivity. rewrite Hf, IH. reflexivity.
Qed.
Lemma firstn_app_exact {A} (l1 l2 : list A) k : length l1 = k -> firstn k (l1 ++ l2) = l1.
Proof. intros <-. rewrite firstn_app, Nat.sub_diag, firstn_all, firstn_O, app_nil_r. reflexivity. Qed.
Lemma skipn_app_exact {A} (l1 l2 : list A) k : length l1 = k -> skipn k (l1 ++ l2) = l2.
Proof. intros <-. rewrite skipn_app, Nat.sub_diag, skipn_all. reflexivity. Qed.

(* ------------------------------------------------------------------ per-coefficient kernels *)
Ltac gen_unfold :=
  cbv beta iota zeta delta [g_proj1 g_projdiff1 g_proj_step1 g_prox_step_l1_1 g_proj_multiplier1 g_inactive_box1 g_inactive1
                            g_l1_prox1 g_l1_prox_w1 g_l1c_prox1 g_box_prox1 g_box_prox_step1 g_box_prox_step_out1
                            g_prox_step_fwd1 g_prox_step_fb1
                            proj1 projdiff1 proj_step1 box_prox_step1 l1_prox1 box_l1_step1 in_interior inactive1 proj_mult1
                            l1c_prox1 osub xsubo option_map clamp_lo clamp_hi].
Ltac tie_arith :=
  numR; rbool; try reflexivity; try lra; try (exfalso; lra);
  try (f_equal; lra); try (cbn; reflexivity).
Ltac tie :=
  intros;
  first
    [ reflexivity
    | solve [ repeat match goal with b : option R |- _ => destruct b end; gen_unfold;
              first [ reflexivity | tie_arith ] ] ].

Lemma g_proj1_eq lb ub v : g_proj1 lb ub v = proj1 lb ub v.
Proof. tie. Qed.
Lemma g_projdiff1_eq lb ub v : g_projdiff1 lb ub v = projdiff1 lb ub v.
Proof. tie. Qed.
Lemma g_proj_step1_eq lb ub γ x g : g_proj_step1 lb ub γ x g = proj_step1 lb ub γ x g.
Proof. tie. Qed.
Lemma g_prox_step_l1_1_eq lb ub λ γ x g : g_prox_step_l1_1 lb ub λ γ x g = box_l1_step1 lb ub λ γ x g.
Proof. tie. Qed.
Lemma g_proj_multiplier1_eq lb ub M y : g_proj_multiplier1 lb ub M y = proj_mult1 lb ub M y.
Proof. tie. Qed.
Lemma g_inactive_box1_eq lb ub γ x g : g_inactive_box1 lb ub γ x g = in_interior lb ub (x - γ * g).
Proof. tie. Qed.
Lemma g_inactive1_eq lb ub λ γ x g : g_inactive1 lb ub λ γ x g = inactive1 lb ub λ γ x g.
Proof. tie. Qed.
Lemma g_l1_prox1_eq λ γ v : g_l1_prox1 λ γ v = l1_prox1 λ γ v.
Proof. tie. Qed.
Lemma g_l1_prox_w1_eq λ γ v : g_l1_prox_w1 λ γ v = l1_prox1 λ γ v.
Proof. tie. Qed.
Lemma g_l1c_prox1_eq λ γ z : g_l1c_prox1 λ γ z = l1c_prox1 λ γ z.
Proof. destruct z as [a b]. tie. Qed.
Lemma g_box_prox1_eq lb ub v : g_box_prox1 lb ub v = proj1 lb ub v.
Proof. tie. Qed.
Lemma g_box_prox_step1_eq lb ub γf x d : g_box_prox_step1 lb ub γf x d = box_prox_step1 lb ub γf x d.
Proof. tie. Qed.
(* the default prox_step of prox.hpp: forward point and fb_step = out - in *)
Lemma g_prox_step_default_eq γf v d out : g_prox_step_fwd1 γf v d = v + γf * d /\ g_prox_step_fb1 v out = out - v.
Proof. split; tie. Qed.
Lemma g_box_prox_step_out1_eq v p : g_box_prox_step_out1 v p = v + p.
Proof. tie. Qed.

Lemma g_l1_weight_eq (l1 : list R) i : g_l1_weight l1 i = l1_weight l1 i.
Proof. destruct l1 as [|a [|b l]]; first [ reflexivity | unfold g_l1_weight, l1_weight; cbn; tie_arith ]. Qed.
Lemma g_l1_is_zero_eq (l1 : list R) : g_l1_is_zero l1 = l1_is_zero l1.
Proof.
  destruct l1 as [|a [|b l]]; first [ reflexivity | unfold g_l1_is_zero, l1_is_zero; cbn; tie_arith ].
Qed.

(* ------------------------------------------------------------------ vector level *)
Lemma g_proj_eq lb ub (v : list R) : g_proj lb ub v = proj lb ub v.
Proof. first [ reflexivity | unfold g_proj, proj; apply map3_ext_eq; intros; apply g_proj1_eq ]. Qed.
Lemma g_projdiff_eq lb ub (v : list R) : g_projdiff lb ub v = projdiff lb ub v.
Proof. unfold g_projdiff, projdiff; apply map3_ext_eq; intros; apply g_projdiff1_eq. Qed.
Lemma g_proj_diff_g_eq lb ub (z : list R) : g_proj_diff_g lb ub z = projdiff lb ub z.
Proof. unfold g_proj_diff_g, projdiff; apply map3_ext_eq; intros; first [ apply g_projdiff1_eq | tie ]. Qed.

Lemma g_dist_squared_eq lb ub (v : list R) : g_dist_squared lb ub v = vsqnorm (projdiff lb ub v).
Proof.
  unfold g_dist_squared, projdiff.
  rewrite (map3_ext_eq _ projdiff1) by (intros; first [ apply g_projdiff1_eq | tie ]). reflexivity.
Qed.
Lemma g_dist_squared_Σ_eq lb ub (v Σ : list R) :
  g_dist_squared_Σ lb ub v Σ = vdot (projdiff lb ub v) (vmul Σ (projdiff lb ub v)).
Proof.
  unfold g_dist_squared_Σ, projdiff.
  assert (E : forall l u x, x - g_proj1 l u x = projdiff1 l u x) by (intros; rewrite g_proj1_eq; reflexivity).
  repeat rewrite (map3_ext_eq _ projdiff1) by (intros; first [ apply g_projdiff1_eq | apply E | tie ]). reflexivity.
Qed.

Lemma g_proj_grad_step_eq lb ub γ (x g : list R) : g_proj_grad_step lb ub γ x g = proj_grad_step lb ub γ x g.
Proof.
  unfold g_proj_grad_step, proj_grad_step.
  rewrite (zmap4_map5 _ (fun l u _ xi gi => proj_step1 l u γ xi gi)) by (intros; apply g_proj_step1_eq).
  reflexivity.
Qed.
Lemma g_prox_grad_step_l1_eq lb ub λ γ (x g : list R) : g_prox_grad_step_l1 lb ub λ γ x g = box_l1_grad_step lb ub λ γ x g.
Proof.
  unfold g_prox_grad_step_l1, box_l1_grad_step.
  rewrite (zmap5_map5 _ (fun l u li xi gi => box_l1_step1 l u li γ xi gi)) by (intros; apply g_prox_step_l1_1_eq).
  reflexivity.
Qed.
Lemma g_prox_grad_step_l1_impl_eq lb ub λ γ (x g : list R) :
  g_prox_grad_step_l1_impl lb ub λ γ x g = fst (box_l1_grad_step lb ub λ γ x g).
Proof.
  unfold g_prox_grad_step_l1_impl, box_l1_grad_step.
  rewrite (zmap5_map5 _ (fun l u li xi gi => box_l1_step1 l u li γ xi gi)) by (intros; apply g_prox_step_l1_1_eq).
  reflexivity.
Qed.
Lemma g_prox_grad_step_l1_scal_eq lb ub λ γ (x g : list R) :
  g_prox_grad_step_l1_scal lb ub λ γ x g = box_l1_grad_step_scal lb ub λ γ x g.
Proof.
  unfold g_prox_grad_step_l1_scal, box_l1_grad_step_scal.
  rewrite (zmap4_map5 _ (fun l u _ xi gi => box_l1_step1 l u λ γ xi gi)) by (intros; apply g_prox_step_l1_1_eq).
  reflexivity.
Qed.
Lemma g_eval_prox_grad_step_eq lb ub l1 γ (x g : list R) :
  g_eval_prox_grad_step lb ub l1 γ x g = eval_prox_grad_step lb ub l1 γ x g.
Proof.
  unfold g_eval_prox_grad_step, eval_prox_grad_step.
  destruct l1 as [|a [|b l]]; cbn [length Nat.eqb nth];
    [ apply g_proj_grad_step_eq | apply g_prox_grad_step_l1_scal_eq | apply g_prox_grad_step_l1_eq ].
Qed.

Lemma g_l1_prox_scal_eq λ γ (v : list R) : g_l1_prox_scal λ γ v = l1_prox_scal λ γ v.
Proof.
  unfold g_l1_prox_scal, l1_prox_scal. destruct (λ =? 0)%num; [reflexivity|].
  rewrite (map_ext _ (l1_prox1 λ γ)) by (intros; apply g_l1_prox1_eq). reflexivity.
Qed.
Lemma g_l1_prox_vec_eq λ γ (v : list R) : g_l1_prox_vec λ γ v = l1_prox_vec λ γ v.
Proof.
  unfold g_l1_prox_vec, l1_prox_vec.
  rewrite (map2_ext_eq _ (fun l x => l1_prox1 l γ x)) by (intros; apply g_l1_prox_w1_eq). reflexivity.
Qed.

(* multipliers: blocks of y, D.lowerbound, D.upperbound *)
Lemma proj_multipliers_0 lb ub (M : R) y :
  proj_multipliers 0 lb ub M y = map3 (fun l u yi => proj_mult1 l u M yi) lb ub y.
Proof. revert ub y. induction lb as [|l lb IH]; intros [|u ub] [|yi y]; cbn; try reflexivity. rewrite IH. reflexivity. Qed.
Lemma proj_multipliers_split k lb ub (M : R) y :
  length lb = length y -> length ub = length y -> (k <= length y)%nat ->
  proj_multipliers k lb ub M y =
  repeat 0 k ++ map3 (fun l u yi => proj_mult1 l u M yi) (skipn k lb) (skipn k ub) (skipn k y).
Proof.
  revert lb ub y. induction k as [|k IH]; intros lb ub y Hl Hu Hk.
  - cbn. apply proj_multipliers_0.
  - destruct y as [|yi y]; [cbn in Hk; lia|]. destruct lb as [|l lb]; [discriminate|]. destruct ub as [|u ub]; [discriminate|].
    cbn in *. rewrite IH by lia. reflexivity.
Qed.
Lemma g_proj_multipliers_eq k lb ub (M : R) y :
  length lb = length y -> length ub = length y -> (k <= length y)%nat ->
  g_proj_multipliers k lb ub M y = proj_multipliers k lb ub M y.
Proof.
  intros Hl Hu Hk. rewrite proj_multipliers_split by assumption.
  unfold g_proj_multipliers, vsplice, vslice, vconst. cbv zeta.
  rewrite Hl, Hu.
  replace (length y - (length y - k))%nat with k by lia.
  cbn [firstn app Nat.add].
  change (@n0 R NumR) with 0.
  set (y' := repeat 0 k ++ skipn k y).
  assert (Hy' : length y' = length y) by (unfold y'; rewrite app_length, repeat_length, skipn_length; lia).
  replace (k + (length y - k))%nat with (length y') by lia.
  rewrite skipn_all, app_nil_r.
  unfold y'. rewrite firstn_app_exact by apply repeat_length. rewrite skipn_app_exact by apply repeat_length.
  f_equal.
  rewrite !firstn_all2 by (rewrite skipn_length; lia).
  apply map3_ext_eq; intros; apply g_proj_multiplier1_eq.
Qed.

(* inactive indices *)
Lemma inactive1_zero lb ub γ x g : inactive1 lb ub 0 γ x g = in_interior lb ub (x - γ * g).
Proof. unfold inactive1. numR. destruct (Req_bool_spec 0 0); [reflexivity | congruence]. Qed.
Lemma idx_filter4_inactive_from (f : nat -> option R -> option R -> R -> R -> bool) l1 γ i lb ub x g :
  (forall j l u xi gi, f j l u xi gi = inactive1 l u (l1_weight l1 j) γ xi gi) ->
  idx_filter4 f i lb ub x g = inactive_from i lb ub l1 γ x g.
Proof.
  intros Hf. revert i ub x g. induction lb as [|l lb IH]; intros i [|u ub] [|xi x] [|gi g]; cbn; try reflexivity.
  rewrite Hf, IH. reflexivity.
Qed.
Lemma g_inactive_indices_eq lb ub l1 γ (x g : list R) :
  g_inactive_indices lb ub l1 γ x g = inactive_indices lb ub l1 γ x g.
Proof.
  unfold g_inactive_indices, inactive_indices. rewrite g_l1_is_zero_eq. destruct (l1_is_zero l1).
  - apply idx_filter4_inactive_from. intros. rewrite g_inactive_box1_eq.
    change (l1_weight [] j) with 0. symmetry. apply inactive1_zero.
  - apply idx_filter4_inactive_from. intros. rewrite g_l1_weight_eq. apply g_inactive1_eq.
Qed.

(* ------------------------------------------------------------------ the theorems of C15, for the GENERATED terms *)
Lemma g_proj1_in_box lb ub v : box_ne lb ub -> in_box lb ub (g_proj1 lb ub v).
Proof. rewrite g_proj1_eq. apply proj1_in_box. Qed.
Lemma g_proj1_strong_argmin lb ub v u : box_ne lb ub -> in_box lb ub u ->
  (g_proj1 lb ub v - v)² + (u - g_proj1 lb ub v)² <= (u - v)².
Proof. rewrite g_proj1_eq. apply proj1_strong_argmin. Qed.
Lemma g_proj1_variational lb ub v u : box_ne lb ub -> in_box lb ub u ->
  (v - g_proj1 lb ub v) * (u - g_proj1 lb ub v) <= 0.
Proof. rewrite g_proj1_eq. apply proj1_variational. Qed.
Lemma g_proj_step1_is_proj lb ub γ x g : x + g_proj_step1 lb ub γ x g = g_proj1 lb ub (x - γ * g).
Proof. rewrite g_proj_step1_eq, g_proj1_eq. apply proj_step1_is_proj. Qed.
Lemma g_box_prox_step1_is_proj lb ub γf x d : x + g_box_prox_step1 lb ub γf x d = g_box_prox1 lb ub (x + γf * d).
Proof. rewrite g_box_prox_step1_eq, g_box_prox1_eq. apply box_prox_step1_is_proj. Qed.
Lemma g_l1_prox1_strong_argmin λ γ v u : 0 <= λ -> 0 < γ ->
  obj_l1 λ γ v (g_l1_prox1 λ γ v) + (u - g_l1_prox1 λ γ v)² / (2 * γ) <= obj_l1 λ γ v u.
Proof. rewrite g_l1_prox1_eq. apply l1_prox1_strong_argmin. Qed.
Lemma g_l1_prox_w1_strong_argmin λ γ v u : 0 <= λ -> 0 < γ ->
  obj_l1 λ γ v (g_l1_prox_w1 λ γ v) + (u - g_l1_prox_w1 λ γ v)² / (2 * γ) <= obj_l1 λ γ v u.
Proof. rewrite g_l1_prox_w1_eq. apply l1_prox1_strong_argmin. Qed.
Lemma g_l1c_prox1_argmin λ γ v u : 0 <= λ -> 0 < γ -> obj_l1c λ γ v (g_l1c_prox1 λ γ v) <= obj_l1c λ γ v u.
Proof. rewrite g_l1c_prox1_eq. apply l1c_prox1_argmin. Qed.
(* prox of δ_box + λ|.| : the generated step lands on the unique minimiser *)
Lemma g_prox_step_l1_1_is_argmin lb ub λ γ x g u :
  0 <= λ -> 0 < γ -> lb_ok lb 0 -> ub_ok ub 0 -> in_box lb ub u ->
  let o := x + g_prox_step_l1_1 lb ub λ γ x g in
  in_box lb ub o /\ obj_l1 λ γ (x - γ * g) o + (u - o)² / (2 * γ) <= obj_l1 λ γ (x - γ * g) u.
Proof.
  intros Hl Hg Hlb Hub Hu. cbv zeta. rewrite g_prox_step_l1_1_eq, box_l1_step1_cases by assumption.
  now apply box_l1_strong_argmin.
Qed.
Lemma g_prox_grad_step_l1_h lb ub λ γ (x g : list R) :
  let res := g_prox_grad_step_l1 lb ub λ γ x g in
  snd res = rsum (map2 (fun a l => Rabs (a * l)) (fst (fst res)) λ).
Proof. cbv zeta. rewrite g_prox_grad_step_l1_eq. apply box_l1_grad_step_h. Qed.
Lemma g_prox_grad_step_l1_nth lb ub λ γ (x g : list R) n :
  length lb = n -> length ub = n -> length λ = n -> length x = n -> length g = n -> 0 < γ ->
  forall i, (i < n)%nat -> 0 <= nth i λ 0 -> lb_ok (nth i lb None) 0 -> ub_ok (nth i ub None) 0 ->
  let res := g_prox_grad_step_l1 lb ub λ γ x g in
  nth i (fst (fst res)) 0 =
    g_proj1 (nth i lb None) (nth i ub None) (g_l1_prox1 (nth i λ 0) γ (nth i x 0 - γ * nth i g 0)) /\
  nth i (snd (fst res)) 0 = nth i (fst (fst res)) 0 - nth i x 0.
Proof.
  intros. subst res. rewrite g_prox_grad_step_l1_eq, g_proj1_eq, g_l1_prox1_eq.
  now apply (box_l1_grad_step_nth lb ub λ γ x g n).
Qed.
Lemma g_proj_grad_step_nth lb ub γ (x g : list R) n :
  length lb = n -> length ub = n -> length x = n -> length g = n ->
  forall i, (i < n)%nat ->
  let res := g_proj_grad_step lb ub γ x g in
  nth i (fst (fst res)) 0 = g_proj1 (nth i lb None) (nth i ub None) (nth i x 0 - γ * nth i g 0) /\
  nth i (snd (fst res)) 0 = nth i (fst (fst res)) 0 - nth i x 0 /\ snd res = 0.
Proof. intros. subst res. rewrite g_proj_grad_step_eq, g_proj1_eq. now apply (proj_grad_step_nth lb ub γ x g n). Qed.
Lemma g_proj_multiplier1_spec lb ub M y : 0 <= M ->
  let o := g_proj_multiplier1 lb ub M y in
  - M <= o <= M /\ (lb = None -> 0 <= o) /\ (ub = None -> o <= 0) /\
  (forall l u, lb = Some l -> ub = Some u -> o = Rmax (- M) (Rmin y M)) /\
  ((lb = None -> 0 <= y) -> (ub = None -> y <= 0) -> - M <= y <= M -> o = y).
Proof. rewrite g_proj_multiplier1_eq. apply proj_mult1_spec. Qed.
Lemma g_proj_multipliers_spec k lb ub M y :
  0 <= M -> length lb = length y -> length ub = length y -> (k <= length y)%nat ->
  let o := g_proj_multipliers k lb ub M y in
  length o = length y /\
  forall i, (i < length y)%nat ->
    ((i < k)%nat -> nth i o 0 = 0) /\
    ((k <= i)%nat -> nth i o 0 = g_proj_multiplier1 (nth i lb None) (nth i ub None) M (nth i y 0)).
Proof.
  intros HM Hl Hu Hk. cbv zeta. rewrite g_proj_multipliers_eq by assumption.
  destruct (proj_multipliers_spec k lb ub M y HM Hl Hu) as [L N]. split; [exact L|].
  intros i Hi. rewrite g_proj_multiplier1_eq. now apply N.
Qed.
Definition g_fb1 lb ub λ γ (w : R) : R := g_proj1 lb ub (g_l1_prox1 λ γ w).
Lemma g_fb1_eq lb ub λ γ w : g_fb1 lb ub λ γ w = fb1 lb ub λ γ w.
Proof. unfold g_fb1, fb1. rewrite g_proj1_eq, g_l1_prox1_eq. reflexivity. Qed.
Lemma g_inactive1_locally_shift lb ub λ γ x g :
  0 <= λ -> 0 < γ -> lb_ok lb 0 -> ub_ok ub 0 ->
  g_inactive1 lb ub λ γ x g = true ->
  exists ε, 0 < ε /\ forall δ, Rabs δ < ε ->
     g_fb1 lb ub λ γ (x - γ * g + δ) = g_fb1 lb ub λ γ (x - γ * g) + δ.
Proof.
  intros Hl Hg Hlb Hub Hi. rewrite g_inactive1_eq in Hi.
  destruct (inactive1_locally_shift lb ub λ γ x g Hl Hg Hlb Hub Hi) as [ε [He H]].
  exists ε. split; [exact He|]. intros δ Hd. rewrite !g_fb1_eq. now apply H.
Qed.
Lemma g_not_inactive1_not_shift lb ub λ γ x g :
  0 <= λ -> 0 < γ -> lb_ok lb 0 -> ub_ok ub 0 ->
  g_inactive1 lb ub λ γ x g = false ->
  forall ε, 0 < ε -> exists δ, Rabs δ < ε /\
     g_fb1 lb ub λ γ (x - γ * g + δ) <> g_fb1 lb ub λ γ (x - γ * g) + δ.
Proof.
  intros Hl Hg Hlb Hub Hi ε He. rewrite g_inactive1_eq in Hi.
  destruct (not_inactive1_not_shift lb ub λ γ x g Hl Hg Hlb Hub Hi ε He) as [δ [Hd H]].
  exists δ. split; [exact Hd|]. rewrite !g_fb1_eq. exact H.
Qed.
