(* CsvGenInst.v — the GENERATED member functions of coq/gen/CsvGen.v (read_chunk, read_single, read, next_line, done) put into the
   row readers.  NOT generated: the loops of skip_comments, read_row_impl and read_row_std_vector are transcribed here by hand
   (same shape and fuel as in Csv.v), every call of a member function in them is a call of the generated definition, on the
   C++ object state (array s, bufidx, keep_reading).  No proofs here. *)
From Coq Require Import List Ascii Bool Arith.
From Alpaqa Require Import Csv CsvGenLib CsvGen.
Import ListNotations.

Definition gstate : Type := (list ascii * nat * bool)%type.        (* s, bufidx, keep_reading *)
Definition gstate0 : gstate := (repeat zero (S g_bufmaxsize), 0, true).   (* std::array<char, bufmaxsize + 1> s; bufidx = 0; keep_reading = true *)

Section GReader.
Context {V : Type}.
Variable fc : list ascii -> fc_result V.
Variable garbage : V.
Variable sep : ascii.

Definition gchunk (st : gstate) (is : stream) : cres gstate :=
  let '(s, b, k) := st in g_read_chunk fc s b k is.
Definition gread (st : gstate) (is : stream) : cres (V * gstate) :=
  let '(s, b, k) := st in
  cbind (g_read fc garbage s b k is sep) (fun is '(v, s, b, k) => (is, inr (v, (s, b, k)))).
Definition gnext (st : gstate) (is : stream) : cres unit := let '(s, b, k) := st in g_next_line fc s b k is.
Definition gdone (st : gstate) (is : stream) : stream * bool := let '(s, b, k) := st in g_done fc s b k is.

(* while (keep_reading) { bufidx = 0; read_chunk(is); } *)
Fixpoint gdrain (fuel : nat) (st : gstate) (is : stream) : cres gstate :=
  match fuel with
  | 0 => (is, inl EFuel)
  | S f => let '(s, b, k) := st in
           if k then cbind (gchunk (s, 0, k) is) (fun is st1 => gdrain f st1 is) else (is, inr st)
  end.

Fixpoint gskip_loop (fuel : nat) (st : gstate) (is : stream) : cres gstate :=
  match fuel with
  | 0 => (is, inl EFuel)
  | S f =>
      if eofb is then (is, inr st) else
      cbind (gchunk st is) (fun is1 st1 =>
        let '(s1, b1, k1) := st1 in
        if (Nat.eqb b1 0) || negb (Ascii.eqb (cnth s1 0) hash) then (is1, inr st1)
        else cbind (gdrain (S (length (rest is1))) st1 is1) (fun is2 st2 =>
               let '(s2, b2, k2) := st2 in
               let st3 := (s2, 0, k2) in
               cbind (gnext st3 is2) (fun is3 _ => gskip_loop f st3 is3)))
  end.

Definition gskip_comments (st : gstate) (is : stream) : cres gstate :=
  if eofb is then (is, inr st) else
  let (c, is1) := s_peek is in
  if oceq c g_end then (is1, inr st) else gskip_loop (S (length (rest is))) st is1.

Fixpoint gread_n (n : nat) (st : gstate) (is : stream) (acc : list V) : cres (list V * gstate) :=
  match n with
  | 0 => (is, inr (rev acc, st))
  | S n' => cbind (gread st is) (fun is1 '(v, st1) => gread_n n' st1 is1 (v :: acc))
  end.

Fixpoint gread_all (fuel : nat) (st : gstate) (is : stream) (acc : list V) : cres (list V * gstate) :=
  match fuel with
  | 0 => (is, inl EFuel)
  | S f => let (is0, d) := gdone st is in
           if d then (is0, inr (rev acc, st))
           else cbind (gread st is0) (fun is1 '(v, st1) => gread_all f st1 is1 (v :: acc))
  end.

Definition gfinish (r : cres (list V * gstate)) : cres (list V) :=
  cbind r (fun is '(vs, st) => cbind (gnext st is) (fun is1 _ => (is1, inr vs))).

Definition g_read_row_impl (n : nat) (is : stream) : cres (list V) :=
  cbind (gskip_comments gstate0 is) (fun is1 st => gfinish (gread_n n st is1 [])).
Definition g_read_row_std_vector (is : stream) : cres (list V) :=
  cbind (gskip_comments gstate0 is) (fun is1 st => gfinish (gread_all (S (S (length (rest is)))) st is1 [])).
End GReader.
