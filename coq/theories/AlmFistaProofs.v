(* AlmFistaProofs.v — END-TO-END for ALM∘FISTA: the composed executable model AlmFista.alm_fista (ALM outer loop of Alm.v running the
   whole-loop FISTA model of FistaLoop.v on a problem given by its four basic functions through the type-erased interface of AugLag.v)
   returns `Converged` only with an approximate KKT point of the USER'S problem.  Over R; for every problem, every provider mix
   satisfying provider_ok, every stop / clock oracle, every parameter set (with or without acceleration, fixed-step or backtracking).
   Instance of the generic lemma AlmComposeKkt.compose_converged_is_kkt; the inner contract comes from FistaLen.v. *)
From Coq Require Import Reals List ZArith Lra Lia Bool Arith Psatz.
From Flocq Require Import Raux.
From Alpaqa Require Import Num NumR Vec Prox ProxProofs ProxVec SolverStatus SolverKernels SolverKernelsProofs DescentProofs
                           StopChain StopChainProofs KktProofs AugLag AugLagProofs LiveVec
                           Alm AlmProofs AlmCompose AlmComposeProofs AlmComposeKkt AlmPanoc AlmPanocProofs
                           FistaGen FistaLoop FistaLoopProofs FistaLen AlmFista.
Import ListNotations.
Local Open Scope R_scope.

(* L_init > 0 in every solve: L = L_max in fixed-step mode (L_min = L_max); otherwise L_0 if positive, else the finite-difference
   estimate clamped to [L_min, L_max] *)
Lemma fL_init_pos (pg : fcounters -> list R -> R * list R) (gpsi : fcounters -> list R -> list R) (P : fparams (T:=R)) x :
  0 < fp_Lmin P <= fp_Lmax P \/ (fp_Lmin P <> fp_Lmax P /\ 0 < fp_L0 P) -> 0 < FistaLoopProofs.L_init pg gpsi P x.
Proof.
  intros H. unfold FistaLoopProofs.L_init, finit_L, ffixed. cbv zeta.
  change (@neqb R NumR) with Req_bool. change (@nleb R NumR) with Rle_bool. change (@n0 R NumR) with 0.
  destruct (Req_bool_spec (fp_Lmin P) (fp_Lmax P)) as [Ef|Ef]; cbn [fst fset_gamma_L jL].
  - destruct H as [H|[H _]]; [lra|contradiction].
  - destruct (Rle_bool_spec (fp_L0 P) 0) as [Hle|Hgt]; cbn [fst fset_gamma_L jL]; [|exact Hgt].
    destruct H as [H|[_ H]]; [|lra]. unfold fstd_clamp.
    change (@nltb R NumR) with Rlt_bool. set (v := ndiv _ _). clearbody v.
    destruct (Rlt_bool_spec v (fp_Lmin P)); [lra|]. destruct (Rlt_bool_spec (fp_Lmax P) v); lra.
Qed.

Section E2E.
  Variable Pb : problem (T:=R).
  Variable prov : fn -> bool.
  Variables (Clb Cub : list (option R)) (l1 : list R).
  Variable split : nat.
  Variable stop_req : fcounters -> bool.
  Variable time_up : fcounters -> bool.
  Variable outer_oot : nat -> bool.
  Variable FP : fparams (T:=R).
  Variable AP : alm_params (T:=R).
  Variables (bt_fuel inner_fuel : nat).
  Variables (n m : nat).

  Hypothesis Hprov : provider_ok Pb prov.
  Hypothesis Hempty : grad_g_prod_empty_ok Pb.
  Hypothesis Hl1 : l1 = [].
  Hypothesis Hcrit : fp_crit FP = ApproxKKT.
  Hypothesis HLg : 0 < fp_Lgamma FP.
  Hypothesis HL : 0 < fp_Lmin FP <= fp_Lmax FP \/ (fp_Lmin FP <> fp_Lmax FP /\ 0 < fp_L0 FP).
  Hypothesis HClb : length Clb = n.
  Hypothesis HCub : length Cub = n.
  Hypothesis HCne : Forall2 box_ne Clb Cub.
  Hypothesis Hgf : forall x, length x = n -> length (pgrad_f Pb x) = n.
  Hypothesis Hgg : forall x y, length x = n -> length (pgrad_g_prod Pb x y) = n.
  Hypothesis Hg : forall x, length x = n -> length (pg Pb x) = m.
  Hypothesis HDlb : length (plb Pb) = m.
  Hypothesis HDub : length (pub Pb) = m.
  Hypothesis HDne : Forall2 box_ne (plb Pb) (pub Pb).

  Notation finner_ := (finner Pb prov Clb Cub l1 stop_req time_up outer_oot FP bt_fuel inner_fuel).
  Notation fpg := (fo_psi_grad Pb prov).
  Notation fpy := (fo_psi_yhat Pb prov).
  Notation fgL := (fo_grad_L Pb prov).
  Notation fgp := (fo_grad_psi Pb prov).

  (* ---- the problem as the inner solver sees it = the closed forms of C04 *)
  Lemma fpg_grad y Σ c x : snd (fpg y Σ c x) = grad_psi_def Pb x y Σ.
  Proof. unfold fo_psi_grad. now apply view_psi_grad_psi. Qed.
  Lemma fpy_val y Σ c x : fpy y Σ c x = (psi_def Pb x y Σ, yhat_def Pb x y Σ).
  Proof. unfold fo_psi_yhat. now apply view_psi. Qed.
  Lemma fgL_val c x yh : fgL c x yh = grad_L_def Pb x yh.
  Proof. unfold fo_grad_L. now apply view_grad_L. Qed.
  Lemma fgp_val y Σ c x : fgp y Σ c x = grad_psi_def Pb x y Σ.
  Proof. unfold fo_grad_psi. now apply view_grad_psi. Qed.

  (* ---- one inner solve *)
  Lemma finner_spec w i x y Σ tol errz r x' lg w' : length x = n ->
    finner_ w i x y Σ tol errz = Some (r, x', lg, w') ->
    length x' = n /\
    (ir_status r = Converged ->
       let yh := yhat_def Pb x' y Σ in
       ir_y r = Some yh /\
       ir_err r = Some (match errz with [] => [] | _ => vdiv (vsub yh y) Σ end) /\
       exists (xx grad : list R) (γ : R),
         let step := proj_grad_step Clb Cub γ xx grad in
         0 < γ /\ length xx = n /\ length grad = n /\ x' = fst (fst step) /\
         ir_eps r = vnorminf (kkt_residual γ (snd (fst step)) grad (grad_L_def Pb x' yh)) /\
         ir_eps r <= eff_tol tol).
  Proof.
    intros Hx. unfold finner.
    match goal with |- context [match ?pr with FDone _ => _ | FNotFiniteL _ => _ | FOutOfFuel => _ end] => destruct pr as [o|L|] eqn:Er end.
    3: discriminate.
    2: { intros E. injection E as E1 E2 E3 E4. subst r x'. split; [exact Hx|]. cbn [ir_status]. discriminate. }
    intros E. injection E as E1 E2 E3 E4. subst r x'. cbn [ir_status ir_y ir_err ir_eps].
    assert (Hpg : forall c z, length z = n -> length (snd (fpg y Σ c z)) = n).
    { intros c z Hz. rewrite fpg_grad. unfold grad_psi_def. now apply (grad_L_def_length Pb n Hgf Hgg). }
    assert (Hgp' : forall c z, length z = n -> length (fgp y Σ c z) = n).
    { intros c z Hz. rewrite fgp_val. unfold grad_psi_def. now apply (grad_L_def_length Pb n Hgf Hgg). }
    split.
    { exact (fista_out_x_length (fpg y Σ) (fpy y Σ) fgL (fgp y Σ) Clb Cub l1 _ _ (fwith_opts FP tol) x y Σ errz bt_fuel n
               Hl1 HClb HCub Hx Hpg Hgp' inner_fuel o Er). }
    intros Hst. apply alm_status_of_converged in Hst.
    destruct (fista_inner_contract_len (fpg y Σ) (fpy y Σ) fgL (fgp y Σ) Clb Cub l1 _ _ (fwith_opts FP tol) x y Σ errz bt_fuel n
                Hl1 HClb HCub Hx Hpg Hgp' inner_fuel o Er Hst Hcrit)
      as (xx & grad & gradh & γ & Lxx & Lgr & Lxo & Ex & (cy & ψh & Ey) & (cg & Egh) & Ee & Eeps & Etol & _ & Hγ & _).
    cbv zeta in *. rewrite fpy_val in Ey. injection Ey as _ Ey.
    rewrite fgL_val, Ey in Egh.
    split; [now rewrite Ey|]. split; [now rewrite Ee, Ey|].
    exists xx, grad, γ. split.
    { apply Hγ; [exact HLg|]. apply fL_init_pos. exact HL. }
    split; [exact Lxx|]. split; [exact Lgr|]. split; [exact Ex|]. split; [now rewrite Eeps, Egh|exact Etol].
  Qed.

  (* every inner call satisfies the contract of the generic lemma *)
  Lemma finner_contract : inner_contract_kkt fcounters (fresult (T:=R)) finner_ Pb Clb Cub n.
  Proof. intros w i x y Σ tol errz r x' lg w' Hx Hi. exact (finner_spec w i x y Σ tol errz r x' lg w' Hx Hi). Qed.

  (* ================================================================ THE theorem *)
  Theorem alm_fista_converged_is_kkt outer_fuel nanv Σ0 y0 x0 co :
    length x0 = n -> length y0 = m ->
    Alm.p_max_iter AP <> 0%nat ->
    (m <> 0%nat -> sigma_inv AP m (initial_sigma AP m (pf Pb x0) (pg Pb x0) Σ0)) ->
    (m = 0%nat -> 0 < p_tol AP) ->
    alm_fista Pb prov Clb Cub l1 split stop_req time_up outer_oot FP AP bt_fuel inner_fuel outer_fuel nanv Σ0 y0 x0 = Some co ->
    f_status (co_final co) = Converged ->
    let x := co_x co in let y := f_y (co_final co) in
    length x = n /\ length y = m /\
    (forall i, (i < n)%nat -> in_box (nth i Clb None) (nth i Cub None) (nth i x 0)) /\
    (forall i, (i < n)%nat -> exists r,
        (forall u, in_box (nth i Clb None) (nth i Cub None) u -> r * (u - nth i x 0) <= 0) /\
        Rabs (- nth i (vadd (pgrad_f Pb x) (pgrad_g_prod Pb x y)) 0 - r) <= p_tol AP) /\
    (forall i, (i < m)%nat -> exists z,
        in_box (nth i (plb Pb) None) (nth i (pub Pb) None) z /\ Rabs (nth i (pg Pb x) 0 - z) <= p_dual_tol AP) /\
    (forall i, (i < m)%nat ->
        (0 < nth i y 0 -> exists u, nth i (pub Pb) None = Some u /\ Rabs (nth i (pg Pb x) 0 - u) <= p_dual_tol AP) /\
        (nth i y 0 < 0 -> exists l, nth i (plb Pb) None = Some l /\ Rabs (nth i (pg Pb x) 0 - l) <= p_dual_tol AP)).
  Proof.
    intros Hx0 Hy0 Hmi HΣ Htol Hrun Hst. unfold alm_fista in Hrun.
    exact (compose_converged_is_kkt fcounters (fresult (T:=R)) finner_ Pb Clb Cub split AP n m HClb HCub HCne Hgf Hgg Hg HDlb HDub HDne
             finner_contract outer_fuel nanv Σ0 y0 x0 fcnt0 co Hx0 Hy0 Hmi HΣ Htol Hrun Hst).
  Qed.
End E2E.

(* ================================================================ non-vacuity *)
(* a FISTA run (backtracking mode: L_min <> L_max) whose first iterate already meets the tolerance (L_0 > 0 given, L_0 >= L_max so
   that no QUB backtracking applies, ApproxKKT): Converged at k = 0 with the first prox point *)
Section At0.
  Variable psi_grad : fcounters -> list R -> R * list R.
  Variable psi_yhat : fcounters -> list R -> R * list R.
  Variable grad_L : fcounters -> list R -> list R -> list R.
  Variable grad_psi : fcounters -> list R -> list R.
  Variables (lb ub : list (option R)) (l1 : list R).
  Variable stop_req : fcounters -> bool.
  Variable time_up : fcounters -> bool.
  Variable P : fparams (T:=R).
  Variables (x_in y_in Σ errz_in : list R).
  Variable bt_fuel : nat.
  Variables (ψ0 ψh h ε : R) (g0 xh p yh gh : list R).
  Hypothesis Hnf : fp_Lmin P <> fp_Lmax P.
  Hypothesis HL0 : 0 < fp_L0 P.
  Hypothesis HLmax : fp_Lmax P <= fp_L0 P.
  Hypothesis Hcrit : fp_crit P = ApproxKKT.
  Hypothesis H1 : psi_grad fcnt0 x_in = (ψ0, g0).
  Hypothesis H2 : eval_prox_grad_step lb ub l1 (fp_Lgamma P / fp_L0 P) x_in g0 = (xh, p, h).
  Hypothesis H3 : forall c, psi_yhat c xh = (ψh, yh).
  Hypothesis H4 : forall c, grad_L c xh yh = gh.
  Hypothesis H5 : vnorminf (kkt_residual (fp_Lgamma P / fp_L0 P) p g0 gh) = ε.
  Hypothesis H6 : ε <= eff_tol (fp_tol P).

  Lemma fista_converged_at_0 fuel :
    exists o, fista psi_grad psi_yhat grad_L grad_psi lb ub l1 stop_req time_up P x_in y_in Σ errz_in bt_fuel (S fuel) = FDone o /\
      fo_status o = StConverged /\ fo_iterations o = 0%nat /\ fo_eps o = ε /\ fo_x o = xh /\ fo_y o = yh /\
      fo_errz o = match errz_in with [] => [] | _ => vdiv (vsub yh y_in) Σ end.
  Proof.
    assert (Hfix : ffixed P = false).
    { unfold ffixed. change (@neqb R NumR) with Req_bool. destruct (Req_bool_spec (fp_Lmin P) (fp_Lmax P)); [contradiction|reflexivity]. }
    assert (Hneed : fneed P = true) by (unfold fneed; now rewrite Hcrit).
    unfold fista, finit_L. rewrite Hfix. cbv zeta.
    change (@nleb R NumR) with Rle_bool. change (@n0 R NumR) with 0.
    destruct (Rle_bool_spec (fp_L0 P) 0) as [Hc|_]; [lra|].
    unfold feval_psi_grad, fit0. cbn [jx jxh jgrad jgradh jp jyh jpsi jpsih jgam jL jpp jgp jh fset_gamma_L]. rewrite H1. cbn [fst snd].
    cbn [nfinite NumR negb]. unfold gamma_of_L. change (@ndiv R NumR) with Rdiv.
    cbn [floop]. unfold fpass, fpass_step. cbv zeta. rewrite Hfix, Hneed. cbn [negb orb fs_curr fs_cnt fs_bt fs_k fs_t fs_np fs_log].
    unfold feval_prox, fset_gamma_L. cbn [jx jxh jgrad jgradh jp jyh jpsi jpsih jgam jL jpp jgp jh]. rewrite H2. cbn [fst snd].
    unfold feval_psih. cbn [jx jxh jgrad jgradh jp jyh jpsi jpsih jgam jL jpp jgp jh]. rewrite H3. cbn [fst snd].
    unfold feval_gradh. cbn [jx jxh jgrad jgradh jp jyh jpsi jpsih jgam jL jpp jgp jh]. rewrite H4.
    assert (Hq : forall i c b ch, jL i = fp_L0 P -> fbacktrack psi_yhat lb ub l1 P bt_fuel i c b ch = Some (i, c, b, ch)).
    { intros i c b ch Hi. apply (backtrack_guard_false psi_grad psi_yhat grad_L grad_psi lb ub l1 stop_req time_up P x_in y_in Σ errz_in bt_fuel).
      unfold fit_backtrack, bt_guard. rewrite Hi. change (@nltb R NumR) with Rlt_bool.
      destruct (Rlt_bool_spec (fp_L0 P) (fp_Lmax P)) as [Hc|_]; [lra|reflexivity]. }
    rewrite Hq by reflexivity. cbn [andb].
    unfold fit_eps. rewrite Hcrit. cbn [crit_eps jx jxh jgrad jgradh jp jyh jpsi jpsih jgam jL jpp jgp jh]. rewrite H5.
    rewrite tolerance_wins by (apply Rle_bool_iff; exact H6).
    unfold fexit. cbv zeta. rewrite Hfix. cbn [andb]. unfold exit_block. cbn [overwrites fst snd].
    eexists. split; [reflexivity|]. cbn [fo_status fo_iterations fo_eps fo_x fo_y fo_errz jxh jyh fs_k]. repeat split.
  Qed.
End At0.

(* ---- the concrete instance of AlmPanocProofs (n = 1, m = 1: minimise x s.t. x in [0,1], g(x) = x <= 0, x0 = 0, y0 = 0) with FISTA
   (L_0 = 1, L_min = 1/2, L_max = 1, Lγ = 1/2, acceleration on): the first prox point of the first inner solve is x̂ = 0 with
   residual 0: FISTA converges at k = 0, the slack error is 0, ALM returns Converged after one outer iteration *)
Definition nvFP : fparams (T:=R) := mkFParams 10 10 1 (1/1000000) (1/1000000) (1/2) (1/2) 1 ApproxKKT 0 false true 0.
Definition nv_fnever : fcounters -> bool := fun _ => false.
Definition nv_frun :=
  alm_fista nvPb nvprov [Some 0] [Some 1] [] 0 nv_fnever nv_fnever (fun _ => false) nvFP nvAP 5 3 3 0 None [0] [0].

Lemma nv_finner : exists lg w',
  finner nvPb nvprov [Some 0] [Some 1] [] nv_fnever nv_fnever (fun _ => false) nvFP 5 3 fcnt0 0 [0] [0] [1] 1 [0]
  = Some ({| ir_status := Converged; ir_eps := 0; ir_err := Some [0]; ir_y := Some [0]; ir_iters := 0; ir_oot := false; ir_stop := false |}, [0], lg, w').
Proof.
  unfold finner.
  set (pg := fo_psi_grad nvPb nvprov [0] [1]).
  destruct (pg fcnt0 [0]) as [ψ0 g0] eqn:H1.
  assert (Hg0 : g0 = [1 + 0]).
  { pose proof (fpg_grad nvPb nvprov nv_provider_ok nv_empty_ok [0] [1] fcnt0 [0]) as Hg. fold pg in Hg.
    rewrite H1 in Hg. cbn [snd] in Hg. rewrite Hg. unfold grad_psi_def. rewrite nv_yhat. reflexivity. }
  subst g0.
  assert (H2 : eval_prox_grad_step [Some 0] [Some 1] [] (fp_Lgamma (fwith_opts nvFP 1) / fp_L0 (fwith_opts nvFP 1)) [0] [1 + 0] = ([0], [0], 0)).
  { rcomp. f_equal. f_equal; f_equal; lra. }
  assert (H3 : forall c, fo_psi_yhat nvPb nvprov [0] [1] c [0] = (psi_def nvPb [0] [0] [1], [0])).
  { intros c. rewrite (fpy_val nvPb nvprov nv_provider_ok). now rewrite nv_yhat. }
  assert (H4 : forall c, fo_grad_L nvPb nvprov c [0] [0] = [1 + 0]).
  { intros c. rewrite (fgL_val nvPb nvprov nv_provider_ok nv_empty_ok). reflexivity. }
  assert (H5 : vnorminf (kkt_residual (fp_Lgamma (fwith_opts nvFP 1) / fp_L0 (fwith_opts nvFP 1)) [0] [1 + 0] [1 + 0]) = 0).
  { cbv -[Rplus Rminus Rmult Rdiv Rinv Ropp Rle_bool Rlt_bool Req_bool Rabs IZR sqrt].
    replace (1 / (1 / 2 / 1) * 0 + (1 + 0 - (1 + 0))) with 0 by lra. apply Rabs_R0. }
  assert (H6 : 0 <= eff_tol (fp_tol (fwith_opts nvFP 1))).
  { unfold eff_tol. cbn [fp_tol fwith_opts]. change (@nltb R NumR) with Rlt_bool. change (@n0 R NumR) with 0.
    rewrite (Rlt_bool_true 0 1) by lra. lra. }
  destruct (fista_converged_at_0 pg (fo_psi_yhat nvPb nvprov [0] [1]) (fo_grad_L nvPb nvprov) (fo_grad_psi nvPb nvprov [0] [1])
              [Some 0] [Some 1] [] (fun c => nv_fnever (fcadd fcnt0 c)) (fun c => nv_fnever (fcadd fcnt0 c))
              (fwith_opts nvFP 1) [0] [0] [1] [0] 5 ψ0 (psi_def nvPb [0] [0] [1]) 0 0 [1 + 0] [0] [0] [0] [1 + 0]
              ltac:(cbn; lra) ltac:(cbn; lra) ltac:(cbn; lra) eq_refl H1 H2 H3 H4 H5 H6 2)
    as (o & Hrun & O1 & O2 & O3 & O4 & O5 & O6).
  rewrite Hrun. rewrite O1, O2, O3, O4, O5, O6. cbn [alm_status_of].
  replace (vdiv (vsub [0] [0]) [1]) with [0] by (cbn; f_equal; lra).
  eexists. eexists. reflexivity.
Qed.

Lemma nv_fconverged : exists co, nv_frun = Some co /\ f_status (co_final co) = Converged /\ co_x co = [0] /\ f_y (co_final co) = [0].
Proof.
  destruct nv_finner as (lg & w' & Hin).
  unfold nv_frun, alm_fista, c_run, c_script_of.
  change (Nat.eqb (Alm.p_max_iter nvAP) 0) with false. change (Nat.eqb (pb_m (pb_of nvPb 0)) 0) with false. cbv iota.
  set (s0 := init_state nvAP (pb_of nvPb 0) (pf nvPb [0]) (AugLag.pg nvPb [0]) 0 None [0]).
  assert (Es : s0 = {| s_Sigma := [1]; s_err := [0]; s_err_old := [0]; s_norm_old := 0; s_eps := 1; s_y := [0]; s_fails := 0; s_iters := 0 |})
    by (unfold s0; rcomp; reflexivity).
  assert (Ey : c_y_in nvAP (pb_of nvPb 0) s0 = [0]) by (rewrite Es; rcomp; reflexivity).
  set (r0 := {| ir_status := Converged; ir_eps := 0; ir_err := Some [0]; ir_y := Some [0]; ir_iters := 0; ir_oot := false; ir_stop := false |}) in *.
  assert (Ex : f_exhausted (snd (alm_loop nvAP (pb_of nvPb 0) 0 s0 [r0])) = false).
  { rewrite Es. cbv -[Rplus Rminus Rmult Rdiv Rinv Ropp Rle_bool Rlt_bool Req_bool Rabs IZR sqrt]. rewrite Rabs_R0. rbb. reflexivity. }
  rewrite c_loop_S. rewrite Ey.
  replace (s_Sigma s0) with [1] by (rewrite Es; reflexivity). replace (s_eps s0) with 1 by (rewrite Es; reflexivity).
  replace (s_err s0) with [0] by (rewrite Es; reflexivity). rewrite Hin. rewrite Ex.
  eexists. split; [reflexivity|]. cbn [co_final co_x c_script c_x].
  unfold alm_run. change (Nat.eqb (Alm.p_max_iter nvAP) 0) with false. change (Nat.eqb (pb_m (pb_of nvPb 0)) 0) with false. cbv iota.
  fold s0. rewrite Es.
  cbv -[Rplus Rminus Rmult Rdiv Rinv Ropp Rle_bool Rlt_bool Req_bool Rabs IZR sqrt]. rewrite !Rabs_R0. rbb. repeat split.
Qed.

(* the instance satisfies every hypothesis of the end-to-end theorem (n = 1, m = 1), hence its conclusion *)
Lemma nv_fhypotheses :
  provider_ok nvPb nvprov /\ grad_g_prod_empty_ok nvPb /\ fp_crit nvFP = ApproxKKT /\ 0 < fp_Lgamma nvFP /\
  (0 < fp_Lmin nvFP <= fp_Lmax nvFP \/ (fp_Lmin nvFP <> fp_Lmax nvFP /\ 0 < fp_L0 nvFP)) /\
  Forall2 box_ne [Some 0] [Some 1] /\ Forall2 box_ne (plb nvPb) (pub nvPb) /\
  (forall x, length x = 1%nat -> length (pgrad_f nvPb x) = 1%nat) /\ (forall x y, length x = 1%nat -> length (pgrad_g_prod nvPb x y) = 1%nat) /\
  (forall x, length x = 1%nat -> length (AugLag.pg nvPb x) = 1%nat) /\
  Alm.p_max_iter nvAP <> 0%nat /\ sigma_inv nvAP 1 (initial_sigma nvAP 1 (pf nvPb [0]) (AugLag.pg nvPb [0]) None).
Proof.
  destruct nv_hypotheses as (A1 & A2 & _ & _ & _ & A6 & A7 & A8 & A9 & A10 & _ & A12 & A13).
  split; [exact A1|]. split; [exact A2|]. split; [reflexivity|]. split; [cbn; lra|]. split; [left; cbn; lra|].
  repeat (split; [assumption|]). assumption.
Qed.
