(* PanocOcpE2E.v — C13 ∘ C12: the whole-loop model of PANOCOCPSolver::operator() (PanocOcpLoop.panoc_ocp) with its sweep oracles
   INSTANTIATED by C12's verified OCP evaluator (Ocp.forward / Ocp.backward) for an optimal-control problem given by its functions.

   Part 1 (polymorphic over Num, no proofs): the instance.
     problem    f (dynamics), h / h_N (outputs), l / l_N (stage / terminal cost on the outputs), c / c_N (constraints), the
                Jacobians jA = ∂f/∂x, jB = ∂f/∂u, jc = ∂c/∂x, jcN = ∂c_N/∂x (the code's eval_grad_f_prod / eval_grad_constr_prod(_N)
                are the TRANSPOSED PRODUCTS with them — the form C12's wf_bwd requires), gqr = eval_qr (q ++ r), gqN = eval_q_N
     e_fwd u    = Ocp.forward on the inputs u split per stage: (V, storage [x u h c]*N ++ [x h_N c_N])
     e_bwd u s  = Ocp.backward on the storage s: Jacobians / cost gradients / constraint values read at the offsets of Ocp.v
     e_cvals s  = the constraint rows c_0 … c_{N-1}, c_N of a storage
   Corr_PANOCOCP.v runs exactly this instance (with the polynomial family of harness/drv_ocp.cpp as the problem) against the solver.
   Specification side (no storage, no sweep): the trajectory e_x, the cost e_V = Ocp.cost_sum, the linearisation e_lins / e_qN of
   the cost along the trajectory, the constraint values e_constr.

   Part 2 (over R): storage extraction, gradient characterisation (C12's adjoint identity), length invariant of the loop, and
     panoc_ocp_converged_is_stationary  (restated as Properties_C13.C13_panoc_ocp_converged_is_stationary). *)
From Coq Require Import Reals List ZArith Lra Lia Bool Arith.
From Flocq Require Import Raux.
From Alpaqa Require Import Num NumR Vec Prox ProxProofs ProxVec SolverStatus SolverKernels SolverKernelsProofs
                           StopChain StopChainProofs Ocp OcpProofs PanocOcp PanocOcpProofs PanocOcpLoop PanocOcpLoopProofs.
Import ListNotations.

(* ================================================================== Part 1: the instance *)
Section E2EModel.
  Context {T : Type} `{Num T}.
  Local Open Scope num_scope.
  Variable f : nat -> list T -> list T -> list T.
  Variable h : nat -> list T -> list T -> list T.
  Variable hN : list T -> list T.
  Variable l : nat -> list T -> T.
  Variable lN : list T -> T.
  Variable c : nat -> list T -> list T.
  Variable cN : list T -> list T.
  Variables jA jB : nat -> list T -> list T -> list (list T).     (* ∂f/∂x, ∂f/∂u at (t, x, u) *)
  Variable gqr : nat -> list T -> list T -> list T.               (* eval_qr(t, [x u], h) = q ++ r *)
  Variable gqN : list T -> list T -> list T.                      (* eval_q_N(x, h_N) *)
  Variable jc : nat -> list T -> list (list T).                   (* ∂c/∂x at (t, x) *)
  Variable jcN : list T -> list (list T).                         (* ∂c_N/∂x *)
  Variable d : dims.
  Variables Dlb Dub DNlb DNub : list (option T).
  Variables x0 y μ : list T.

  Notation nx := (dnx d). Notation nu := (dnu d). Notation nc := (dnc d). Notation ncN := (dncN d). Notation NN := (dN d).

  Definition e_stage (t : nat) (u : list T) : list T := seg (t * nu) nu u.
  Definition e_stages (u : list T) : list (list T) := map (fun t => e_stage t u) (seq 0 NN).

  (* ---- the sweeps *)
  Definition e_fwd (u : list T) : T * list T :=
    let r := forward f h hN l lN c cN d Dlb Dub DNlb DNub x0 (e_stages u) y μ in (snd r, fst r).
  Definition e_sim (u : list T) : list T := snd (e_fwd u).
  Definition e_QR := (list (list T) * list T)%type.
  Definition e_bw_stage (u sto : list T) (t : nat) : bw_stage T :=
    let xt := seg (off_x d t) nx sto in let ut := e_stage t u in
    {| bA := jA t xt ut; bB := jB t xt ut; bqr := gqr t (xt ++ ut) (seg (off_h d t) (len_h d t) sto); bJc := jc t xt;
       bc := seg (off_c d t) nc sto; by_ := seg (t * nc) nc y; bμ := seg (t * nc) nc μ |}.
  Definition e_bwd (u sto : list T) : list T * e_QR :=
    let st := map (e_bw_stage u sto) (seq 0 NN) in
    let xN := seg (off_x d NN) nx sto in
    let '(g, _, qrs, qN) := backward nx nu nc ncN Dlb Dub DNlb DNub st (gqN xN (seg (off_h d NN) (len_h d NN) sto)) (jcN xN)
                                     (seg (off_c d NN) ncN sto) (seg (NN * nc) ncN y) (seg (NN * nc) ncN μ) in
    (concat g, (qrs, qN)).
  Definition e_cvals (sto : list T) : list T := concat (map (fun t => seg (off_c d t) (len_c d t) sto) (seq 0 (S NN))).

  (* ---- specification side: trajectory, cost, linearisation of the cost, constraint values *)
  Definition e_x (u : list T) (t : nat) : list T := nth t (traj f 0 x0 (e_stages u)) [].
  Definition e_hval (u : list T) (t : nat) : list T :=
    if Nat.ltb t NN then (if Nat.ltb 0 (dnh d) then h t (e_x u t) (e_stage t u) else [])
    else (if Nat.ltb 0 (dnhN d) then hN (e_x u t) else []).
  Definition e_cval (u : list T) (t : nat) : list T :=
    if Nat.ltb t NN then (if Nat.ltb 0 nc then c t (e_x u t) else []) else (if Nat.ltb 0 ncN then cN (e_x u t) else []).
  Definition e_V (u : list T) : T := cost_sum f h hN l lN c cN d Dlb Dub DNlb DNub 0 x0 (e_stages u) y μ.
  Definition e_spec_stage (u : list T) (t : nat) : bw_stage T :=
    let xt := e_x u t in let ut := e_stage t u in
    {| bA := jA t xt ut; bB := jB t xt ut; bqr := gqr t (xt ++ ut) (e_hval u t); bJc := jc t xt;
       bc := e_cval u t; by_ := seg (t * nc) nc y; bμ := seg (t * nc) nc μ |}.
  (* A_t, B_t, q_t = ∇_x(l∘h) + Jcᵀ μ(ζ − Π_D ζ), r_t = ∇_u(l∘h) along the trajectory of u; q_N likewise *)
  Definition e_lins (u : list T) : list (lin_stage T) := map (fun t => lin_of nx nc Dlb Dub (e_spec_stage u t)) (seq 0 NN).
  Definition e_qN (u : list T) : list T :=
    qN_of nx ncN DNlb DNub (gqN (e_x u NN) (e_hval u NN)) (jcN (e_x u NN)) (e_cval u NN) (seg (NN * nc) ncN y) (seg (NN * nc) ncN μ).
  Definition e_constr (u : list T) : list T := concat (map (e_cval u) (seq 0 (S NN))).
End E2EModel.

(* ================================================================== Part 2: proofs over R *)
Local Open Scope R_scope.

(* ---- small list facts *)
Lemma seg_app_skip' {A} (a b : list A) off n : seg (length a + off) n (a ++ b) = seg off n b.
Proof. unfold seg. rewrite skipn_app. rewrite skipn_all2 by lia. replace (length a + off - length a)%nat with off by lia. reflexivity. Qed.
Lemma seg_0_app' {A} (a b : list A) n : n = length a -> seg 0 n (a ++ b) = a.
Proof. intros ->. unfold seg. cbn [skipn]. rewrite firstn_app. replace (length a - length a)%nat with 0%nat by lia. cbn. rewrite firstn_all. apply app_nil_r. Qed.
Lemma seg_off_app {A} (a b : list A) off n : off = length a -> seg off n (a ++ b) = seg 0 n b.
Proof. intros ->. rewrite <- (Nat.add_0_r (length a)). apply seg_app_skip'. Qed.
Lemma seg_len_le {A} off n (v : list A) : (off + n <= length v)%nat -> length (seg off n v) = n.
Proof. intros. unfold seg. rewrite firstn_length, skipn_length. lia. Qed.

Section Extract.
  Variable f : nat -> list R -> list R -> list R.
  Variable h : nat -> list R -> list R -> list R.
  Variable hN : list R -> list R.
  Variable l : nat -> list R -> R.
  Variable lN : list R -> R.
  Variable c : nat -> list R -> list R.
  Variable cN : list R -> list R.
  Variable d : dims.
  Variables Dlb Dub DNlb DNub : list (option R).
  Variables y μ : list R.
  Notation nx := (dnx d). Notation nu := (dnu d). Notation nh := (dnh d). Notation nc := (dnc d).
  Notation nhN := (dnhN d). Notation ncN := (dncN d).

  (* the problem functions return vectors of the declared sizes (only where the code calls them) — C12's wf_fwd *)
  Definition wf_fns : Prop :=
    (forall t x u, length (f t x u) = nx) /\ ((0 < nh)%nat -> forall t x u, length (h t x u) = nh) /\
    ((0 < nhN)%nat -> forall x, length (hN x) = nhN) /\ ((0 < nc)%nat -> forall t x, length (c t x) = nc) /\
    ((0 < ncN)%nat -> forall x, length (cN x) = ncN).
  Hypothesis Hwf : wf_fns.

  Definition hv t x u := if (0 <? nh)%nat then h t x u else [].
  Definition cv t x := if (0 <? nc)%nat then c t x else [].
  Definition hNv x := if (0 <? nhN)%nat then hN x else [].
  Definition cNv x := if (0 <? ncN)%nat then cN x else [].
  Lemma hv_len t x u : length (hv t x u) = nh.
  Proof. unfold hv. destruct Hwf as (_ & W & _). destruct (Nat.ltb_spec 0 nh); [apply W; lia|cbn; lia]. Qed.
  Lemma cv_len t x : length (cv t x) = nc.
  Proof. unfold cv. destruct Hwf as (_ & _ & _ & W & _). destruct (Nat.ltb_spec 0 nc); [apply W; lia|cbn; lia]. Qed.
  Lemma hNv_len x : length (hNv x) = nhN.
  Proof. unfold hNv. destruct Hwf as (_ & _ & W & _). destruct (Nat.ltb_spec 0 nhN); [apply W; lia|cbn; lia]. Qed.
  Lemma cNv_len x : length (cNv x) = ncN.
  Proof. unfold cNv. destruct Hwf as (_ & _ & _ & _ & W). destruct (Nat.ltb_spec 0 ncN); [apply W; lia|cbn; lia]. Qed.

  Notation fwd_from := (forward_from f h hN l lN c cN d Dlb Dub DNlb DNub).

  Lemma fwd_from_cons t x u us V :
    fst (fwd_from t x (u :: us) y μ V)
    = (x ++ u ++ hv t x u ++ cv t x) ++ fst (fwd_from (S t) (f t x u) us y μ
        (V + snd (fst (stage_fwd f h l c d Dlb Dub t x u (seg (t * nc) nc y) (seg (t * nc) nc μ))))%num).
  Proof.
    cbn [forward_from]. unfold stage_fwd at 1. cbn [fst snd].
    match goal with |- context [fwd_from (S t) ?a us y μ ?b] => destruct (fwd_from (S t) a us y μ b) as [rest V'] eqn:E end.
    unfold stage_fwd. cbn [fst snd]. rewrite E. reflexivity.
  Qed.
  Lemma fwd_from_nil t x V : fst (fwd_from t x [] y μ V) = x ++ hNv x ++ cNv x.
  Proof. cbn [forward_from]. unfold term_fwd. reflexivity. Qed.

  (* every segment of the storage written by the forward sweep, by position *)
  Lemma fwd_from_segs : forall us t x V k, length x = nx -> Forall (fun u => length u = nu) us -> (k <= length us)%nat ->
    let sto := fst (fwd_from t x us y μ V) in
    let xk := nth k (traj f t x us) [] in
    seg (k * stride d) nx sto = xk /\ length xk = nx /\
    ((k < length us)%nat ->
       seg (k * stride d + nx) nu sto = nth k us [] /\
       seg (k * stride d + (nx + nu)) nh sto = hv (t + k) xk (nth k us []) /\
       seg (k * stride d + (nx + nu + nh)) nc sto = cv (t + k) xk) /\
    (k = length us ->
       seg (k * stride d + nx) nhN sto = hNv xk /\
       seg (k * stride d + (nx + nhN)) ncN sto = cNv xk).
  Proof.
    induction us as [|u us IH]; intros t x V k Lx Hu Hk; cbv zeta.
    - cbn [length] in Hk. assert (k = 0)%nat by lia. subst k. rewrite fwd_from_nil. cbn [traj nth Nat.mul Nat.add].
      split; [apply seg_0_app'; auto|]. split; [exact Lx|]. split; [cbn [length]; lia|]. intros _.
      split.
      + rewrite seg_off_app by auto. apply seg_0_app'. now rewrite hNv_len.
      + rewrite app_assoc. rewrite seg_off_app by (rewrite app_length, hNv_len; lia).
        rewrite <- (app_nil_r (cNv x)) at 1. apply seg_0_app'. now rewrite cNv_len.
    - rewrite fwd_from_cons. pose proof (Forall_inv Hu) as Lu. cbv beta in Lu. pose proof (Forall_inv_tail Hu) as Hu'.
      set (blk := x ++ u ++ hv t x u ++ cv t x).
      assert (Lb : length blk = stride d) by (unfold blk, stride; rewrite !app_length, hv_len, cv_len; lia).
      destruct k as [|k].
      + cbn [traj nth Nat.mul Nat.add]. rewrite Nat.add_0_r. unfold blk. rewrite <- !app_assoc.
        split; [apply seg_0_app'; auto|]. split; [exact Lx|]. split; [|cbn [length]; lia]. intros _.
        split; [|split].
        * rewrite seg_off_app by auto. apply seg_0_app'. auto.
        * rewrite (app_assoc x u). rewrite seg_off_app by (rewrite app_length; lia). apply seg_0_app'. now rewrite hv_len.
        * rewrite (app_assoc x u), (app_assoc (x ++ u)). rewrite seg_off_app by (rewrite !app_length, hv_len; lia).
          apply seg_0_app'. now rewrite cv_len.
      + cbn [length] in Hk. cbn [traj nth length].
        destruct Hwf as (Wf & _).
        match goal with |- context [fwd_from (S t) (f t x u) us y μ ?b] =>
          specialize (IH (S t) (f t x u) b k (Wf t x u) Hu' ltac:(lia)) end.
        cbv zeta in IH. destruct IH as (I1 & I2 & I3 & I4).
        replace (S k * stride d)%nat with (length blk + k * stride d)%nat by (rewrite Lb; lia).
        rewrite <- !(Nat.add_assoc (length blk)). rewrite !seg_app_skip'.
        replace (t + S k)%nat with (S t + k)%nat by lia.
        split; [exact I1|]. split; [exact I2|]. split.
        * intros Hlt. apply I3. lia.
        * intros He. apply I4. lia.
  Qed.

  Lemma traj_length : forall us t x, length (traj f t x us) = S (length us).
  Proof. induction us as [|u us IH]; intros t x; cbn [traj length]; [reflexivity|]. now rewrite IH. Qed.
End Extract.

(* ---- the adjoint sweep writes blocks of nu entries *)
Lemma adjoint_blocks nx nu : forall st (λN : list R), Forall (wf_lin nx nu) st -> length λN = nx ->
  Forall (fun g => length g = nu) (fst (adjoint nx nu st λN)).
Proof.
  induction st as [|s st IH]; intros λN Hw Hl; cbn [adjoint]; [constructor|].
  pose proof (Forall_inv Hw) as H1. pose proof (Forall_inv_tail Hw) as H2.
  specialize (IH λN H2 Hl). destruct (adjoint_lengths nx nu st λN H2 Hl) as [Lλ _].
  destruct (adjoint nx nu st λN) as [gs λ]. cbn [fst snd] in *.
  destruct H1 as [_ [[HB1 HB2] [_ Hr]]].
  constructor; [|exact IH]. apply vadd_length_n; [apply mtv_length; exact HB2|exact Hr].
Qed.
Lemma concat_blocks_length {A} n : forall (gs : list (list A)), Forall (fun g => length g = n) gs -> length (concat gs) = (length gs * n)%nat.
Proof. induction gs as [|g gs IH]; intros Hg; cbn; [reflexivity|]. rewrite app_length, IH by exact (Forall_inv_tail Hg). rewrite (Forall_inv Hg). lia. Qed.

Lemma map3_len {A B C D} (g : A -> B -> C -> D) : forall a b c' n, length a = n -> length b = n -> length c' = n -> length (map3 g a b c') = n.
Proof.
  induction a as [|x a IH]; intros [|y b] [|z c'] n H1 H2 H3; cbn in *; try congruence; try lia.
  destruct n; [discriminate|]. f_equal. apply IH; lia.
Qed.
Lemma pen_grad_len lb ub (cc yy mm : list R) n : length lb = n -> length ub = n -> length cc = n -> length yy = n -> length mm = n ->
  length (pen_grad lb ub cc yy mm) = n.
Proof.
  intros. unfold pen_grad, pdiff, zeta, vmul.
  apply ProxVec.map2_length; [assumption|]. apply map3_len; auto. apply map3_len; auto.
Qed.

(* the pairing with every perturbation determines the blocks *)
Lemma dots_zeros nu : forall (gs : list (list R)) k, dots gs (repeat (vconst nu 0) k) = 0.
Proof.
  induction gs as [|g gs IH]; intros [|k]; cbn [dots repeat]; try reflexivity.
  rewrite IH, dot_zeros_r. numR. lra.
Qed.
Lemma dots_ext nu : forall (gs gs' : list (list R)), length gs = length gs' ->
  Forall (fun b => length b = nu) gs -> Forall (fun b => length b = nu) gs' ->
  (forall δus, length δus = length gs -> Forall (fun δu : list R => length δu = nu) δus -> dots gs δus = dots gs' δus) -> gs = gs'.
Proof.
  induction gs as [|g gs IH]; intros [|g' gs'] Hl Hg Hg' Hd; cbn in Hl; try discriminate; [reflexivity|].
  assert (Hz : forall k, Forall (fun δu : list R => length δu = nu) (repeat (vconst nu 0) k)).
  { intros k. apply Forall_forall. intros v Hv. apply repeat_spec in Hv. subst. apply vconst_length. }
  f_equal.
  - apply (dot_ext nu); [exact (Forall_inv Hg)|exact (Forall_inv Hg')|]. intros w Lw.
    specialize (Hd (w :: repeat (vconst nu 0) (length gs))). cbn [dots length] in Hd. rewrite repeat_length in Hd.
    specialize (Hd eq_refl (Forall_cons _ Lw (Hz _))). rewrite !dots_zeros in Hd. numR. lra.
  - apply IH; [lia|exact (Forall_inv_tail Hg)|exact (Forall_inv_tail Hg')|]. intros δus Ld Hf.
    specialize (Hd (vconst nu 0 :: δus)). cbn [dots length] in Hd. rewrite Ld in Hd.
    specialize (Hd eq_refl (Forall_cons _ (vconst_length nu 0) Hf)). rewrite !dot_zeros_r in Hd. numR. lra.
Qed.

Section E2E.
  Variable f : nat -> list R -> list R -> list R.
  Variable h : nat -> list R -> list R -> list R.
  Variable hN : list R -> list R.
  Variable l : nat -> list R -> R.
  Variable lN : list R -> R.
  Variable c : nat -> list R -> list R.
  Variable cN : list R -> list R.
  Variables jA jB : nat -> list R -> list R -> list (list R).
  Variable gqr : nat -> list R -> list R -> list R.
  Variable gqN : list R -> list R -> list R.
  Variable jc : nat -> list R -> list (list R).
  Variable jcN : list R -> list (list R).
  Variable d : dims.
  Variables Dlb Dub DNlb DNub : list (option R).
  Variables x0 y μ : list R.
  Notation nx := (dnx d). Notation nu := (dnu d). Notation nh := (dnh d). Notation nc := (dnc d).
  Notation nhN := (dnhN d). Notation ncN := (dncN d). Notation NN := (dN d).

  Notation efwd := (e_fwd f h hN l lN c cN d Dlb Dub DNlb DNub x0 y μ).
  Notation ebwd := (e_bwd jA jB gqr gqN jc jcN d Dlb Dub DNlb DNub y μ).
  Notation ecvals := (e_cvals d).
  Notation ex := (e_x f d x0).
  Notation estage := (e_stage d).
  Notation estages := (e_stages d).
  Notation ehval := (e_hval f h hN d x0).
  Notation ecval := (e_cval f c cN d x0).
  Notation elins := (e_lins f h hN c cN jA jB gqr jc d Dlb Dub x0 y μ).
  Notation eqN := (e_qN f h hN c cN gqN jcN d DNlb DNub x0 y μ).
  Notation eV := (e_V f h hN l lN c cN d Dlb Dub DNlb DNub x0 y μ).
  Notation econstr := (e_constr f c cN d x0).
  Notation espec := (e_spec_stage f h hN c cN jA jB gqr jc d x0 y μ).

  (* dimensions of what the problem's derivative functions return (for every argument) — C12's wf_bwd, shape part *)
  Definition wf_jac : Prop :=
    (forall t x u, wfm nx nx (jA t x u) /\ wfm nx nu (jB t x u)) /\
    (forall t xu hh, length (gqr t xu hh) = (nx + nu)%nat) /\ (forall x hh, length (gqN x hh) = nx) /\
    (forall t x, Forall (fun r => length r = nx) (jc t x)) /\ (forall x, Forall (fun r => length r = nx) (jcN x)).
  Hypothesis Hfn : wf_fns f h hN c cN d.
  Hypothesis Hjac : wf_jac.
  Hypothesis Lx0 : length x0 = nx.

  Lemma wf_lin_of (s : bw_stage R) : wfm nx nx (bA s) -> wfm nx nu (bB s) -> length (bqr s) = (nx + nu)%nat ->
    Forall (fun r => length r = nx) (bJc s) -> wf_lin nx nu (lin_of nx nc Dlb Dub s).
  Proof.
    intros HA HB Hq HJ. unfold wf_lin, lin_of. cbn [lA lB lq lr]. split; [exact HA|]. split; [exact HB|]. split.
    - unfold q_of. assert (Lq : length (firstn nx (bqr s)) = nx) by (rewrite firstn_length; lia).
      destruct (Nat.ltb 0 nc); [|exact Lq]. apply vadd_length_n; [exact Lq|]. apply mtv_length. exact HJ.
    - rewrite skipn_length. lia.
  Qed.
  Lemma qN_of_len qNc JcN cc yy mm : length qNc = nx -> Forall (fun r => length r = nx) JcN ->
    length (qN_of nx ncN DNlb DNub qNc JcN cc yy mm) = nx.
  Proof. intros Hq HJ. unfold qN_of. destruct (Nat.ltb 0 ncN); [|exact Hq]. apply vadd_length_n; [exact Hq|]. apply mtv_length. exact HJ. Qed.

  Lemma ebw_stage_wf u sto t : wf_lin nx nu (lin_of nx nc Dlb Dub (e_bw_stage jA jB gqr jc d y μ u sto t)).
  Proof.
    destruct Hjac as (JAB & Jqr & _ & Jc & _). apply wf_lin_of; unfold e_bw_stage; cbn [bA bB bqr bJc]; try apply JAB; auto.
  Qed.

  Lemma ebwd_fst u sto : exists gs, fst (ebwd u sto) = concat gs /\ length gs = NN /\ Forall (fun g : list R => length g = nu) gs /\
    gs = fst (adjoint nx nu (map (lin_of nx nc Dlb Dub) (map (e_bw_stage jA jB gqr jc d y μ u sto) (seq 0 NN)))
                      (qN_of nx ncN DNlb DNub (gqN (seg (off_x d NN) nx sto) (seg (off_h d NN) (len_h d NN) sto)) (jcN (seg (off_x d NN) nx sto))
                             (seg (off_c d NN) ncN sto) (seg (NN * nc) ncN y) (seg (NN * nc) ncN μ))).
  Proof.
    unfold e_bwd, backward. cbv zeta.
    match goal with |- context [adjoint nx nu ?ls ?qN] => set (LS := ls); set (QN := qN) end.
    assert (Hw : Forall (wf_lin nx nu) LS).
    { subst LS. rewrite Forall_map, Forall_map. apply Forall_forall. intros t _. apply ebw_stage_wf. }
    assert (Hq : length QN = nx) by (subst QN; destruct Hjac as (_ & _ & JqN & _ & JcN); apply qN_of_len; auto).
    pose proof (adjoint_blocks nx nu LS QN Hw Hq) as Hb. destruct (adjoint_lengths nx nu LS QN Hw Hq) as [_ Lg].
    destruct (adjoint nx nu LS QN) as [g λ0] eqn:E. cbn [fst snd] in *.
    exists g. split; [reflexivity|]. split; [|split; [exact Hb|reflexivity]].
    rewrite Lg. subst LS. now rewrite !map_length, seq_length.
  Qed.
  (* the gradient written by the backward sweep has N·nu entries, whatever the storage holds *)
  Lemma ebwd_length u sto : length (fst (ebwd u sto)) = (NN * nu)%nat.
  Proof. destruct (ebwd_fst u sto) as (gs & E & Lg & Hb & _). rewrite E, (concat_blocks_length nu gs Hb), Lg. reflexivity. Qed.

  (* ---- inputs split per stage *)
  Lemma estage_len (u : list R) t : length u = (NN * nu)%nat -> (t < NN)%nat -> length (estage t u) = nu.
  Proof. intros Lu Ht. unfold e_stage. apply seg_len_le. rewrite Lu. nia. Qed.
  Lemma estages_ok (u : list R) : length u = (NN * nu)%nat -> length (estages u) = NN /\ Forall (fun v : list R => length v = nu) (estages u).
  Proof.
    intros Lu. unfold e_stages. split; [now rewrite map_length, seq_length|].
    rewrite Forall_map. apply Forall_forall. intros t Ht. apply in_seq in Ht. apply estage_len; [exact Lu|lia].
  Qed.
  Lemma estages_nth (u : list R) t : (t < NN)%nat -> nth t (estages u) [] = estage t u.
  Proof.
    intros Ht. unfold e_stages. rewrite (nth_indep _ [] (estage 0 u)) by (now rewrite map_length, seq_length).
    rewrite (map_nth (fun t => estage t u) (seq 0 NN) 0%nat). now rewrite seq_nth.
  Qed.

  (* ---- what the forward sweep leaves in the storage = the specification-side quantities along the trajectory *)
  Lemma storage_stage u t : length u = (NN * nu)%nat -> (t < NN)%nat ->
    e_bw_stage jA jB gqr jc d y μ u (snd (efwd u)) t = espec u t.
  Proof.
    intros Lu Ht. destruct (estages_ok u Lu) as [LN Hus].
    pose proof (fwd_from_segs f h hN l lN c cN d Dlb Dub DNlb DNub y μ Hfn (estages u) 0 x0 n0 t Lx0 Hus ltac:(lia)) as S.
    cbv zeta in S. destruct S as (S1 & _ & S2 & _). rewrite LN in S2. destruct (S2 Ht) as (_ & S3 & S4).
    unfold e_bw_stage, e_spec_stage, e_fwd. cbn [fst snd]. unfold forward.
    unfold off_x, off_h, off_c, len_h. replace (t <? NN)%nat with true by (symmetry; apply Nat.ltb_lt; exact Ht).
    fold (ex u t) in S1, S3, S4. rewrite estages_nth in S3 by exact Ht. cbn [Nat.add] in S3, S4.
    rewrite S1, S3, S4. unfold e_hval, e_cval, hv, cv. replace (t <? NN)%nat with true by (symmetry; apply Nat.ltb_lt; exact Ht).
    reflexivity.
  Qed.
  Lemma storage_terminal u : length u = (NN * nu)%nat ->
    let sto := snd (efwd u) in
    seg (off_x d NN) nx sto = ex u NN /\ seg (off_h d NN) (len_h d NN) sto = ehval u NN /\ seg (off_c d NN) ncN sto = ecval u NN.
  Proof.
    intros Lu. destruct (estages_ok u Lu) as [LN Hus].
    pose proof (fwd_from_segs f h hN l lN c cN d Dlb Dub DNlb DNub y μ Hfn (estages u) 0 x0 n0 NN Lx0 Hus ltac:(lia)) as S.
    cbv zeta in S. destruct S as (S1 & _ & _ & S2). rewrite LN in S2. destruct (S2 eq_refl) as (S3 & S4).
    cbv zeta. unfold e_fwd. cbn [fst snd]. unfold forward.
    unfold off_x, off_h, off_c, len_h. rewrite Nat.ltb_irrefl.
    fold (ex u NN) in S1, S3, S4. rewrite S1, S3, S4. unfold e_hval, e_cval, hNv, cNv. rewrite Nat.ltb_irrefl. repeat split; reflexivity.
  Qed.
  Lemma storage_cvals u : length u = (NN * nu)%nat -> ecvals (snd (efwd u)) = econstr u.
  Proof.
    intros Lu. unfold e_cvals, e_constr. f_equal. apply map_ext_in. intros t Ht. apply in_seq in Ht.
    destruct (Nat.eq_dec t NN) as [->|Hne].
    - destruct (storage_terminal u Lu) as (_ & _ & S). cbv zeta in S. unfold len_c. rewrite Nat.ltb_irrefl. exact S.
    - assert (Hlt : (t < NN)%nat) by lia. pose proof (storage_stage u t Lu Hlt) as S.
      apply (f_equal (@bc R)) in S. unfold e_bw_stage, e_spec_stage in S. cbn [bc] in S.
      unfold len_c. replace (t <? NN)%nat with true by (symmetry; apply Nat.ltb_lt; exact Hlt). exact S.
  Qed.

  (* ---- C12 (forward): the cost returned by the forward sweep is the sum of the stage costs, terminal cost and penalty terms *)
  Lemma efwd_cost u : fst (efwd u) = eV u.
  Proof. unfold e_fwd, e_V. cbn [fst]. apply forward_is_sum. Qed.

  (* ---- C12 (backward): g is the gradient of the cost V at u in the form C12 proves — blocks of nu entries per stage whose pairing
          with EVERY input perturbation δu is the first-order change of the cost along the linearised roll-out
          δx_{k+1} = A_k δx_k + B_k δu_k, δx_0 = 0:  Σ_k <g_k, δu_k> = Σ_k (<q_k, δx_k> + <r_k, δu_k>) + <q_N, δx_N>
          with A_k, B_k, q_k, r_k, q_N evaluated along the trajectory of u (e_lins, e_qN).  (That these ARE the derivatives of
          f, l∘h and ½dist² — the chain rule — is the assumption C12 makes as well.) *)
  Definition is_cost_gradient (u g : list R) : Prop :=
    exists gs, g = concat gs /\ length gs = NN /\ Forall (fun b => length b = nu) gs /\
      forall δus, length δus = NN -> Forall (fun δu : list R => length δu = nu) δus ->
        dots gs δus = lin_cost (elins u) (eqN u) (vconst nx 0) δus.

  Lemma ebwd_is_cost_gradient u : length u = (NN * nu)%nat -> is_cost_gradient u (fst (ebwd u (snd (efwd u)))).
  Proof.
    intros Lu. destruct (ebwd_fst u (snd (efwd u))) as (gs & E & Lg & Hb & Egs).
    exists gs. split; [exact E|]. split; [exact Lg|]. split; [exact Hb|]. intros δus Ld Hd.
    destruct (storage_terminal u Lu) as (T1 & T2 & T3). cbv zeta in T1, T2, T3. rewrite T1, T2, T3 in Egs.
    assert (Est : map (e_bw_stage jA jB gqr jc d y μ u (snd (efwd u))) (seq 0 NN) = map (espec u) (seq 0 NN)).
    { apply map_ext_in. intros t Ht. apply in_seq in Ht. apply storage_stage; [exact Lu|lia]. }
    rewrite Est in Egs.
    pose proof (backward_gradient_is_derivative nx nu nc ncN Dlb Dub DNlb DNub (map (espec u) (seq 0 NN))
                  (gqN (ex u NN) (ehval u NN)) (jcN (ex u NN)) (ecval u NN) (seg (NN * nc) ncN y) (seg (NN * nc) ncN μ)) as Hd'.
    cbv zeta in Hd'. unfold backward in Hd'.
    assert (Hw : Forall (wf_lin nx nu) (map (lin_of nx nc Dlb Dub) (map (espec u) (seq 0 NN)))).
    { rewrite <- Est. rewrite Forall_map, Forall_map. apply Forall_forall. intros t _. apply ebw_stage_wf. }
    assert (Hq : length (qN_of nx ncN DNlb DNub (gqN (ex u NN) (ehval u NN)) (jcN (ex u NN)) (ecval u NN) (seg (NN * nc) ncN y) (seg (NN * nc) ncN μ)) = nx)
      by (destruct Hjac as (_ & _ & JqN & _ & JcN); apply qN_of_len; auto).
    specialize (Hd' Hw Hq δus ltac:(now rewrite map_length, seq_length) Hd).
    unfold e_lins, e_qN. rewrite <- map_map. rewrite <- Hd'. rewrite Egs.
    destruct (adjoint nx nu _ _) as [g λ0]. reflexivity.
  Qed.

  Lemma is_cost_gradient_unique (u g1 g2 : list R) : is_cost_gradient u g1 -> is_cost_gradient u g2 -> g1 = g2.
  Proof.
    intros (gs1 & E1 & L1 & B1 & D1) (gs2 & E2 & L2 & B2 & D2). subst g1 g2. f_equal.
    apply (dots_ext nu); [congruence|assumption|assumption|]. intros δus Ld Hf. rewrite D1, D2 by (congruence || assumption). reflexivity.
  Qed.
End E2E.

(* ================================================================== length invariant of the loop (any oracles returning n-vectors) *)
Lemma panoc_candidate_len (τ : R) (x p q : list R) n : length x = n -> length p = n -> length q = n ->
  length (panoc_candidate τ x p q) = n.
Proof.
  intros Lx Lp Lq. unfold panoc_candidate. destruct (neqb τ n1).
  - apply vadd_length_n; assumption.
  - apply vadd_length_n; [apply vadd_length_n; [assumption|now rewrite vscale_length]|now rewrite vscale_length].
Qed.

Section LenInv.
  Variables X QR DS : Type.
  Variable fwd : list R -> R * X.
  Variable sim : list R -> X.
  Variable bwd : list R -> X -> list R * QR.
  Variable cvals : X -> list R.
  Variable gn_step : nat -> list R -> X -> QR -> list bool -> list R -> list R.
  Variable lb_apply : DS -> list R -> R -> list nat -> bool * list R * DS.
  Variable lb_update : DS -> list R -> list R -> list R -> list R -> bool * DS.
  Variable lb_reset : DS -> DS.
  Variables (N nu : nat).
  Variables (Ulb Uub Dlb Dub : list (option R)).
  Variable stop_req : counters -> bool.
  Variable time_up : counters -> bool.
  Variable P : params (T:=R).
  Variables (u_in y_in μ errz_in : list R).
  Variables (X0 : X) (ds0 : DS).
  Variable ls_fuel : nat.

  Notation it := (iterate (T:=R) X).
  Notation lst := (ls_state (T:=R) X QR DS).
  Notation lstate_ := (lstate (T:=R) X QR DS).
  Notation lsloop := (ls_loop X QR DS fwd bwd lb_reset N nu Ulb Uub stop_req P).
  Notation pass_ := (pass X QR DS fwd bwd cvals gn_step lb_apply lb_update lb_reset N nu Ulb Uub Dlb Dub stop_req time_up P u_in y_in μ errz_in ls_fuel).
  Notation loop_ := (loop X QR DS fwd bwd cvals gn_step lb_apply lb_update lb_reset N nu Ulb Uub Dlb Dub stop_req time_up P u_in y_in μ errz_in ls_fuel).
  Notation run_ := (panoc_ocp X QR DS fwd sim bwd cvals gn_step lb_apply lb_update lb_reset N nu Ulb Uub Dlb Dub stop_req time_up P u_in y_in μ errz_in X0 ds0 ls_fuel).
  Notation Consistent := (consistent X QR fwd bwd N nu Ulb Uub).
  Notation Inv_ := (Inv X QR DS fwd sim bwd N nu Ulb Uub P u_in X0).
  Notation eps_of := (it_eps X N nu Ulb Uub P).
  Notation initL := (init_L X QR fwd sim bwd P u_in X0).
  Notation initqub := (init_qub X fwd N nu Ulb Uub P).
  Notation first_it := (first_iterate X fwd N nu Ulb Uub P).
  Notation ALL lem := (lem X QR DS fwd sim bwd cvals gn_step lb_apply lb_update lb_reset N nu Ulb Uub Dlb Dub stop_req time_up P u_in y_in μ errz_in X0 ds0 ls_fuel).

  Let n := (N * nu)%nat.
  Hypothesis HUl : length Ulb = nu.
  Hypothesis HUu : length Uub = nu.
  Hypothesis Hbwd : forall u x, length (fst (bwd u x)) = n.
  Hypothesis Hgn : forall j u x qr mask q, length (gn_step j u x qr mask q) = n.
  Hypothesis Hlb : forall ds q γ J, length (snd (fst (lb_apply ds q γ J))) = n.
  Hypothesis Hu0 : length u_in = n.

  Lemma cons_len (i : it) : Consistent i -> length (iu i) = n -> length (igrad i) = n /\ length (iuh i) = n /\ length (ip i) = n.
  Proof.
    intros Hc Lu. assert (Lg : length (igrad i) = n) by (destruct Hc as ((_ & _ & E) & _); rewrite E; apply Hbwd).
    destruct (ALL consistent_pp_gp i Hc HUl HUu Lu Lg) as (A & B & _). auto.
  Qed.

  Lemma ls_len c0 q τi dng : length (iu c0) = n -> length (iuh c0) = n -> length (ip c0) = n -> (τi <> 0 -> length q = n) ->
    forall fuel (s : lst), ls_curr s = c0 -> (ls_tau s = ls_tau_prev s -> length (iu (ls_next s)) = n) -> (τi = 0 -> ls_tau s = 0) ->
    match lsloop fuel q τi dng s with
    | LsDone s' => length (iu (ls_next s')) = n
    | LsStopped s' => ls_curr s' = c0
    | LsFuel => True
    end.
  Proof.
    intros Lu Luh Lp Lq. induction fuel as [|fuel IH]; intros s Hc HJ H0; [exact I|].
    cbn [ls_loop]. destruct (stop_req (ls_cnt s)); [cbn [ls_curr]; exact Hc|].
    change (@nltb R NumR) with Rlt_bool. change (@neqb R NumR) with Req_bool. change (@nleb R NumR) with Rle_bool.
    change (@n0 R NumR) with 0. change (@n1 R NumR) with 1.
    set (τ := ls_tau s) in *. rewrite Hc.
    set (ph := if Req_bool τ (ls_tau_prev s) then (ls_next s, ls_qr s, inc_polls (ls_cnt s), ls_do_gn s)
               else if Req_bool τ 0 then (fst (take_safe_step X QR bwd c0 (ls_next s)), snd (take_safe_step X QR bwd c0 (ls_next s)),
                                          inc_bwd (inc_polls (ls_cnt s)), ls_do_gn s)
               else (fst (take_accel_step X QR fwd bwd τ q c0 (ls_next s)), snd (take_accel_step X QR fwd bwd τ q c0 (ls_next s)),
                     inc_bwd (inc_fwd (inc_polls (ls_cnt s))), if Req_bool τ 1 then ls_do_gn s else dng)).
    assert (F : length (iu (fst (fst (fst ph)))) = n).
    { subst ph. destruct (Req_bool_spec τ (ls_tau_prev s)) as [Et|Et]; [exact (HJ Et)|].
      destruct (Req_bool_spec τ 0) as [E0|E0]; cbn [fst snd].
      - unfold take_safe_step, eval_backward. cbn. exact Luh.
      - unfold take_accel_step, eval_backward, eval_forward. cbn. apply panoc_candidate_len; [exact Lu|exact Lp|]. apply Lq. intros E. apply E0, H0, E. }
    destruct ph as [[[next qr] c1] dg]. cbn [fst snd] in F.
    match goal with |- context [if ?b then lsloop fuel q τi dng ?s1 else _] => destruct b eqn:Efail; [apply (IH s1)|] end.
    { reflexivity. } { intros _. exact F. } { intros _. reflexivity. }
    match goal with |- context [if ?b then lsloop fuel q τi dng ?s1 else _] => destruct b eqn:Equb; [apply (IH s1)|] end.
    { reflexivity. } { intros _. exact F. }
    { intros E. cbn [ls_tau]. specialize (H0 E). fold τ in H0. rewrite H0. destruct (Rlt_bool_spec 0 0); [lra|reflexivity]. }
    match goal with |- context [if ?b then lsloop fuel q τi dng ?s1 else LsDone ?s2] => destruct b eqn:Els; [apply (IH s1)|] end.
    { reflexivity. } { intros _. exact F. }
    { intros E. cbn [ls_tau]. specialize (H0 E). fold τ in H0. rewrite H0. destruct (Rlt_bool _ (p_tau_min P)); [reflexivity|]. numR. unfold Rdiv. apply Rmult_0_l. }
    exact F.
  Qed.

  Lemma pass_len (s : lstate_) : Inv_ s -> length (iu (st_curr s)) = n ->
    match pass_ s with PCont s' => length (iu (st_curr s')) = n | PExit o => length (iu (out_final o)) = n | _ => True end.
  Proof.
    intros HI Lu. destruct (cons_len (st_curr s) (iv_cons _ _ _ _ _ _ _ _ _ _ _ _ _ _ HI) Lu) as (Lg & Luh & Lp).
    unfold pass. cbv zeta.
    change (@n0 R NumR) with 0. change (@n1 R NumR) with 1. change (@nopp R NumR) with Ropp.
    set (curr := st_curr s) in *. set (k := st_k s) in *.
    destruct (eps_of curr) as [ε|] eqn:Eeps; [|exact I].
    destruct (stop_status_ocp (o_tol P) ε (time_up (st_cnt s)) k (p_max_iter P) (st_np s) (p_max_no_progress P) (stop_req (st_cnt s))) eqn:Est.
    2-8: match goal with |- context [exit_values _ _ _ _ _ _ _ _ _ ?st ?c] =>
           destruct (exit_values X cvals Dlb Dub P u_in y_in μ errz_in st c) as [[uo yo] eo] eqn:Eex; cbn [out_final]; exact Lu end.
    match goal with |- match (match ?d with Some _ => _ | None => _ end) with _ => _ end => set (dir := d) end.
    assert (Hd : forall τ0 q nJ ds1 c2, dir = Some (τ0, q, nJ, ds1, c2) -> (τ0 = 0 \/ τ0 = 1) /\ (τ0 <> 0 -> length q = n)).
    { subst dir. intros τ0 q nJ ds1 c2. destruct (p_disable_acc P); [intros E; inversion E; split; [auto|intros F; exfalso; apply F; reflexivity]|].
      destruct (st_do_gn s); [intros E; inversion E; split; [auto|intros _; apply Hgn]|].
      destruct (negb (enable_lbfgs P)); [discriminate|].
      match goal with |- context [lb_apply ?a ?b ?c ?d] => pose proof (Hlb a b c d) as Hl; destruct (lb_apply a b c d) as [[ok q'] ds'] end.
      cbn [fst snd] in Hl. intros E; inversion E; subst. split; [destruct ok; auto|intros _; exact Hl]. }
    destruct dir as [[[[[τ0 q] nJ] ds1] c2]|]; [|exact I].
    destruct (Hd τ0 q nJ ds1 c2 eq_refl) as [Hτ0 Hq0].
    set (τi := if vall_finite q then τ0 else 0).
    assert (Hτi : τi = 0 \/ τi = 1) by (subst τi; destruct (vall_finite q); auto).
    assert (Hqi : τi <> 0 -> length q = n) by (subst τi; destruct (vall_finite q); [exact Hq0|intros F; exfalso; apply F; reflexivity]).
    match goal with |- context [lsloop ls_fuel q τi ?dng ?l0] => set (ls0 := l0); set (dn := dng) end.
    pose proof (ls_len curr q τi dn Lu Luh Lp Hqi ls_fuel ls0 eq_refl) as Hls.
    assert (H1 : ls_tau ls0 = ls_tau_prev ls0 -> length (iu (ls_next ls0)) = n).
    { subst ls0. cbn [ls_tau ls_tau_prev]. intros E. exfalso. destruct Hτi as [E0|E0]; rewrite E0 in E; lra. }
    specialize (Hls H1 (fun E => E)).
    destruct (lsloop ls_fuel q τi dn ls0) as [l|l|]; [| |exact I].
    - match goal with |- match (let '(ds3, rej) := ?dr in _) with _ => _ end => destruct dr as [ds3 rej] end.
      cbn [st_curr]. destruct (enable_lbfgs P); exact Hls.
    - cbn [st_curr]. rewrite Hls. exact Lu.
  Qed.

  Lemma loop_len : forall fuel (s : lstate_) o, Inv_ s -> length (iu (st_curr s)) = n -> loop_ fuel s = Done o -> length (iu (out_final o)) = n.
  Proof.
    induction fuel as [|fuel IH]; intros s o HI Lu; cbn [loop]; [discriminate|].
    pose proof (pass_len s HI Lu) as Hp. pose proof (ALL pass_inv s HI) as Hi. destruct (pass_ s) as [o'|s'| | |]; try discriminate.
    - intros E. inversion E. subst. exact Hp.
    - apply IH; assumption.
  Qed.

  Lemma init_qub_u : forall fuel i c st i' c' st', initqub fuel i c st = Some (i', c', st') -> iu i' = iu i.
  Proof.
    induction fuel as [|fuel IH]; intros i c st i' c' st'; cbn [init_qub];
      destruct (nltb (iL i) (p_Lmax P) && it_qub_violated X P i); try discriminate.
    1,3: intros E; inversion E; reflexivity.
    intros E. rewrite (IH _ _ _ _ _ _ E). reflexivity.
  Qed.

  (* the inputs of the iterate at the final stop check have N·nu entries *)
  Theorem run_final_length fuel o : run_ fuel = Done o -> length (iu (out_final o)) = n.
  Proof.
    unfold panoc_ocp. destruct initL as [[[i0 nx0] qr0] c0] eqn:E0.
    destruct (negb (nfinite (iL i0))); [discriminate|].
    destruct (initqub ls_fuel (first_it i0) (inc_fwd c0) stats0) as [[[i3 c1] s1]|] eqn:Eq; [|discriminate].
    apply loop_len; [exact (ALL init_inv _ _ _ _ _ _ _ _ E0 Eq)|].
    cbn [st_curr]. rewrite (init_qub_u _ _ _ _ _ _ _ Eq). unfold first_iterate. cbn.
    pose proof (ALL init_L_u) as Hu. rewrite E0 in Hu. cbn [fst] in Hu. rewrite Hu. exact Hu0.
  Qed.

  (* a pass whose criterion value is within the tolerance exits with Converged *)
  Lemma pass_converged (s : lstate_) ε : eps_of (st_curr s) = Some ε -> ε <= eff_tol (o_tol P) ->
    exists o, pass_ s = PExit o /\ out_status o = StConverged /\ out_final o = st_curr s /\ out_iterations o = st_k s.
  Proof.
    intros He Hle. unfold pass. cbv zeta. rewrite He.
    assert (Es : forall te k mi np mnp sr, stop_status_ocp (o_tol P) ε te k mi np mnp sr = StConverged) by (intros; now apply ocp_converged_iff).
    rewrite Es.
    match goal with |- context [exit_values _ _ _ _ _ _ _ _ _ ?st ?c] =>
      destruct (exit_values X cvals Dlb Dub P u_in y_in μ errz_in st c) as [[uo yo] eo] end.
    eexists. split; [reflexivity|]. repeat split.
  Qed.

  (* a run whose FIRST stop check already meets the tolerance (L_0 given, no initial backtracking because L_0 >= L_max) *)
  Lemma init_L_given : 0 < p_L0 P ->
    initL = (set_gamma_L X (set_grad X (eval_forward X fwd (mkIt u_in X0 [] X0 [] [] (if enable_lbfgs P then u_in else []) n0 n0 n0 n0 n0 n0))
                                    (fst (bwd u_in (snd (fwd u_in))))) n0 (p_L0 P),
             it_blank X X0, snd (bwd u_in (snd (fwd u_in))), inc_bwd (inc_fwd cnt0)).
  Proof.
    intros H0. unfold init_L. cbv zeta. cbn [eval_backward eval_forward set_psi set_xu iu ix fst snd].
    change (@nleb R NumR) with Rle_bool. change (@n0 R NumR) with 0.
    destruct (Rle_bool_spec (p_L0 P) 0) as [Hle|_]; [lra|]. reflexivity.
  Qed.
  Lemma first_iterate_start : 0 < p_L0 P ->
    let i := first_it (fst (fst (fst initL))) in
    let g := fst (bwd u_in (snd (fwd u_in))) in
    let γ := p_Lgamma P / p_L0 P in
    iu i = u_in /\ igrad i = g /\ igam i = γ /\ iL i = p_L0 P /\
    ip i = snd (fst (proj_grad_step (tile N Ulb) (tile N Uub) γ u_in g)).
  Proof. intros H0. rewrite (init_L_given H0). cbv zeta. repeat split. Qed.
  Lemma run_converged_at_start fuel ε : 0 < p_L0 P -> p_Lmax P <= p_L0 P ->
    eps_of (first_it (fst (fst (fst initL)))) = Some ε -> ε <= eff_tol (o_tol P) ->
    exists o, run_ (S fuel) = Done o /\ out_status o = StConverged /\ out_iterations o = 0%nat /\
              out_final o = first_it (fst (fst (fst initL))).
  Proof.
    intros H0 Hmax He Hle. unfold panoc_ocp.
    destruct (first_iterate_start H0) as (_ & _ & _ & EL & _). cbv zeta in EL.
    destruct initL as [[[i0 nx0] qr0] c0] eqn:E0. cbn [fst] in He, EL.
    assert (EL0 : iL i0 = p_L0 P) by exact EL.
    replace (negb (nfinite (iL i0))) with false by reflexivity.
    assert (Eq : initqub ls_fuel (first_it i0) (inc_fwd c0) stats0 = Some (first_it i0, inc_fwd c0, stats0)).
    { destruct ls_fuel; cbn [init_qub]; change (@nltb R NumR) with Rlt_bool; rewrite EL;
        (destruct (Rlt_bool_spec (p_L0 P) (p_Lmax P)); [lra|reflexivity]). }
    rewrite Eq. cbn [loop].
    match goal with |- context [pass_ ?s] => destruct (pass_converged s ε He Hle) as (o & Ho & Hs & Hf & Hk) end.
    rewrite Ho. exists o. repeat split; assumption.
  Qed.
  Lemma eps_ProjGradNorm (i : it) : p_crit P = ProjGradNorm -> eps_of i = Some (vnorminf (ip i)).
  Proof. intros E. unfold it_eps. rewrite E. reflexivity. Qed.

  (* L after the initial estimate is positive when L_min, L_max (or the user's L_0) are *)
  Lemma L_init_pos : 0 < p_Lmin P -> 0 < p_Lmax P -> 0 < L_init X QR fwd sim bwd P u_in X0.
  Proof.
    intros H1 H2. unfold L_init, init_L. cbv zeta. cbn [eval_backward].
    change (@nleb R NumR) with Rle_bool. change (@n0 R NumR) with 0.
    destruct (Rle_bool_spec (p_L0 P) 0) as [Hle|Hgt]; cbn [fst snd iL set_gamma_L]; [|exact Hgt].
    unfold std_clamp. change (@nltb R NumR) with Rlt_bool.
    match goal with |- 0 < (if Rlt_bool ?v _ then _ else _) => set (V := v) end.
    destruct (Rlt_bool_spec V (p_Lmin P)); [exact H1|]. destruct (Rlt_bool_spec (p_Lmax P) V); [exact H2|lra].
  Qed.
End LenInv.

(* ================================================================== the composed run (polymorphic) *)
Section E2ERun.
  Context {T : Type} `{Num T}.
  Variable f : nat -> list T -> list T -> list T.
  Variable h : nat -> list T -> list T -> list T.
  Variable hN : list T -> list T.
  Variable l : nat -> list T -> T.
  Variable lN : list T -> T.
  Variable c : nat -> list T -> list T.
  Variable cN : list T -> list T.
  Variables jA jB : nat -> list T -> list T -> list (list T).
  Variable gqr : nat -> list T -> list T -> list T.
  Variable gqN : list T -> list T -> list T.
  Variable jc : nat -> list T -> list (list T).
  Variable jcN : list T -> list (list T).
  Variable d : dims.
  Variables Dlb Dub DNlb DNub : list (option T).
  Variables x0 y μ : list T.
  Variable DS : Type.
  Variable gn_step : nat -> list T -> list T -> e_QR (T:=T) -> list bool -> list T -> list T.
  Variable lb_apply : DS -> list T -> T -> list nat -> bool * list T * DS.
  Variable lb_update : DS -> list T -> list T -> list T -> list T -> bool * DS.
  Variable lb_reset : DS -> DS.
  Variables Ulb Uub : list (option T).
  Variable stop_req : counters -> bool.
  Variable time_up : counters -> bool.
  Variable P : params (T:=T).
  Variables (u_in errz_in : list T).
  Variable ds0 : DS.
  Variable ls_fuel : nat.
  (* PANOCOCPSolver::operator() on the OCP (f, h, l, c, …; x0) with multipliers y and penalties μ: the sweeps are C12's evaluator *)
  Definition e2e_run (fuel : nat) : result (T:=T) (list T) :=
    panoc_ocp (list T) (e_QR (T:=T)) DS
      (e_fwd f h hN l lN c cN d Dlb Dub DNlb DNub x0 y μ) (e_sim f h hN l lN c cN d Dlb Dub DNlb DNub x0 y μ)
      (e_bwd jA jB gqr gqN jc jcN d Dlb Dub DNlb DNub y μ) (e_cvals d)
      gn_step lb_apply lb_update lb_reset (dN d) (dnu d) Ulb Uub
      (tile (dN d) Dlb ++ DNlb) (tile (dN d) Dub ++ DNub) stop_req time_up P u_in y μ errz_in [] ds0 ls_fuel fuel.
End E2ERun.

Lemma forall2_nth {A B} (Q : A -> B -> Prop) da db : forall a b, Forall2 Q a b -> forall j, (j < length a)%nat -> Q (nth j a da) (nth j b db).
Proof. induction 1 as [|x y' a b Hxy _ IH]; intros j Hj; cbn in *; [lia|]. destruct j; [exact Hxy|]. apply IH. lia. Qed.
Lemma tile_forall2 {A B} (Q : A -> B -> Prop) a b : Forall2 Q a b -> forall N, Forall2 Q (tile N a) (tile N b).
Proof. intros Hab. unfold tile. induction N as [|N IH]; cbn; [constructor|]. apply Forall2_app; assumption. Qed.

Lemma tile_nth {A} (l : list A) (dflt : A) : forall N t i, (t < N)%nat -> (i < length l)%nat -> nth (t * length l + i) (tile N l) dflt = nth i l dflt.
Proof.
  unfold tile. induction N as [|N IH]; intros t i Ht Hi; [lia|]. cbn [repeat concat].
  destruct t as [|t]; [cbn [Nat.mul Nat.add]; now rewrite app_nth1|].
  rewrite app_nth2 by (cbn; lia). replace (S t * length l + i - length l)%nat with (t * length l + i)%nat by (cbn; lia).
  apply IH; lia.
Qed.

Section Final.
  Variable f : nat -> list R -> list R -> list R.
  Variable h : nat -> list R -> list R -> list R.
  Variable hN : list R -> list R.
  Variable l : nat -> list R -> R.
  Variable lN : list R -> R.
  Variable c : nat -> list R -> list R.
  Variable cN : list R -> list R.
  Variables jA jB : nat -> list R -> list R -> list (list R).
  Variable gqr : nat -> list R -> list R -> list R.
  Variable gqN : list R -> list R -> list R.
  Variable jc : nat -> list R -> list (list R).
  Variable jcN : list R -> list (list R).
  Variable d : dims.
  Variables Dlb Dub DNlb DNub : list (option R).
  Variables x0 y μ : list R.
  Variable DS : Type.
  Variable gn_step : nat -> list R -> list R -> e_QR (T:=R) -> list bool -> list R -> list R.
  Variable lb_apply : DS -> list R -> R -> list nat -> bool * list R * DS.
  Variable lb_update : DS -> list R -> list R -> list R -> list R -> bool * DS.
  Variable lb_reset : DS -> DS.
  Variables Ulb Uub : list (option R).
  Variable stop_req : counters -> bool.
  Variable time_up : counters -> bool.
  Variable P : params (T:=R).
  Variables (u_in errz_in : list R).
  Variable ds0 : DS.
  Variable ls_fuel : nat.
  Notation nx := (dnx d). Notation nu := (dnu d). Notation nh := (dnh d). Notation nc := (dnc d).
  Notation nhN := (dnhN d). Notation ncN := (dncN d). Notation NN := (dN d).
  Notation efwd := (e_fwd f h hN l lN c cN d Dlb Dub DNlb DNub x0 y μ).
  Notation esim := (e_sim f h hN l lN c cN d Dlb Dub DNlb DNub x0 y μ).
  Notation ebwd := (e_bwd jA jB gqr gqN jc jcN d Dlb Dub DNlb DNub y μ).
  Notation ecvals := (e_cvals d).
  Notation eV := (e_V f h hN l lN c cN d Dlb Dub DNlb DNub x0 y μ).
  Notation econstr := (e_constr f c cN d x0).
  Notation IsGrad := (is_cost_gradient f h hN c cN jA jB gqr gqN jc jcN d Dlb Dub DNlb DNub x0 y μ).
  Notation Dl := (tile NN Dlb ++ DNlb). Notation Du := (tile NN Dub ++ DNub).
  Notation run := (e2e_run f h hN l lN c cN jA jB gqr gqN jc jcN d Dlb Dub DNlb DNub x0 y μ DS gn_step lb_apply lb_update lb_reset
                           Ulb Uub stop_req time_up P u_in errz_in ds0 ls_fuel).
  Notation INST lem := (lem (list R) (e_QR (T:=R)) DS efwd esim ebwd ecvals gn_step lb_apply lb_update lb_reset NN nu Ulb Uub Dl Du
                            stop_req time_up P u_in y μ errz_in [] ds0 ls_fuel).

  Lemma econstr_length (u : list R) : wf_fns f h hN c cN d -> length (econstr u) = (NN * nc + ncN)%nat.
  Proof.
    intros Hfn. unfold e_constr. rewrite seq_S, map_app, concat_app. cbn [map concat Nat.add]. rewrite app_nil_r, app_length.
    f_equal.
    - assert (Hb : Forall (fun b : list R => length b = nc) (map (e_cval f c cN d x0 u) (seq 0 NN))).
      { rewrite Forall_map. apply Forall_forall. intros t Ht. apply in_seq in Ht. unfold e_cval.
        replace (t <? NN)%nat with true by (symmetry; apply Nat.ltb_lt; lia). apply (cv_len f h hN c cN d Hfn). }
      rewrite (concat_blocks_length nc _ Hb). now rewrite map_length, seq_length.
    - unfold e_cval. rewrite Nat.ltb_irrefl. apply (cNv_len f h hN c cN d Hfn).
  Qed.

  (* C13 ∘ C12.  Converged certifies input-constrained stationarity of the OCP cost.
     With u_k, γ_k the inputs and step size of the iterate at the final stop check:
       - the returned inputs are û_k = Π_U(u_k − γ_k ∇V(u_k)) componentwise, hence lie in U (every stage, every component);
       - g = ∇V(u_k) in C12's sense (is_cost_gradient: the adjoint identity for every perturbation), V = e_V the OCP cost incl. the
         penalty terms for the given (y, μ), and ψ(u_k) = V(u_k);
       - the DOCUMENTED residual of the selected criterion — ‖u_k − Π_U(u_k − γ∇V(u_k))‖ with γ = γ_k (ProjGradNorm[2]), γ = 1
         (ProjGradUnitNorm[2]), or the γ_k-step divided by γ_k (FPRNorm[2]), in the ∞- or 2-norm — is <= the effective tolerance;
         the criterion is one of the six supported ones;
       - y and err_z written back are write_solution's rows on the constraint values along the trajectory of the RETURNED inputs:
         err_z = c − Π_D(c + y/μ), y_out = y + μ·err_z, row by row (D tiled over the stages, then D_N).
     The residual is evaluated at u_k while the returned point is û_k (the pair the criterion is defined on; DESIGN §5, F15). *)
  Theorem panoc_ocp_converged_is_stationary fuel o :
    wf_fns f h hN c cN d -> wf_jac jA jB gqr gqN jc jcN d -> length x0 = nx ->
    length Ulb = nu -> length Uub = nu -> Forall2 box_ne Ulb Uub ->
    length u_in = (NN * nu)%nat ->
    length Dlb = nc -> length Dub = nc -> length DNlb = ncN -> length DNub = ncN ->
    length y = (NN * nc + ncN)%nat -> length μ = (NN * nc + ncN)%nat -> Forall (fun m => 0 < m) μ ->
    0 < p_Lgamma P -> 0 < p_Lmin P -> 0 < p_Lmax P ->
    (forall j u x qr mask q, length (gn_step j u x qr mask q) = (NN * nu)%nat) ->
    (forall ds q γ J, length (snd (fst (lb_apply ds q γ J))) = (NN * nu)%nat) ->
    run fuel = Done o -> out_status o = StConverged ->
    let uk := iu (out_final o) in let γk := igam (out_final o) in let g := igrad (out_final o) in
    0 < γk /\ length uk = (NN * nu)%nat /\
    IsGrad uk g /\ ipsi (out_final o) = eV uk /\
    length (out_u o) = (NN * nu)%nat /\
    (forall j, (j < NN * nu)%nat ->
       in_box (nth j (tile NN Ulb) None) (nth j (tile NN Uub) None) (nth j (out_u o) 0) /\
       nth j (out_u o) 0 = Prox.proj1 (nth j (tile NN Ulb) None) (nth j (tile NN Uub) None) (nth j uk 0 - γk * nth j g 0)) /\
    crit_doc (p_crit P) (tile NN Ulb) (tile NN Uub) γk uk (out_u o) [] g [] <= eff_tol (o_tol P) /\
    supported (p_crit P) = true /\
    (let cs := econstr (out_u o) in
     let rows := ocp_write Dl Du cs y μ in
     out_y o = map fst rows /\ out_errz o = map snd rows /\ length cs = (NN * nc + ncN)%nat /\
     forall i, (i < NN * nc + ncN)%nat ->
       nth i (out_errz o) 0 = nth i cs 0 - Prox.proj1 (nth i Dl None) (nth i Du None) (nth i cs 0 + nth i y 0 / nth i μ 0) /\
       nth i (out_y o) 0 = nth i y 0 + nth i μ 0 * nth i (out_errz o) 0).
  Proof.
    intros Hfn Hjac Lx0 HUl HUu Hne Lu0 LDl LDu LDNl LDNu Ly Lμ Hμ HLγ HLmin HLmax Hgn Hlb Hr Hst. cbv zeta.
    unfold e2e_run in Hr.
    assert (Hbl : forall u x, length (fst (ebwd u x)) = (NN * nu)%nat) by (intros; eapply ebwd_length; eassumption).
    pose proof (INST run_final_length HUl HUu Hbl Hgn Hlb Lu0 fuel o Hr) as Luk.
    destruct (INST run_exit fuel o Hr) as (cf & Hc & _ & Hgl & Ef & Heps & Hov & _). subst cf.
    destruct (INST cons_len HUl HUu Hbl (out_final o) Hc Luk) as (Lg & Luh & Lp).
    assert (Hγ : 0 < igam (out_final o)).
    { apply (INST glrel0_pos (out_final o) HLγ); [|exact Hgl]. apply L_init_pos; assumption. }
    destruct (INST run_converged_certifies fuel o Hr Hst HUl HUu Luk Lg (Rgt_not_eq _ _ Hγ)) as (_ & O1 & Hcrit & Eg & Erows).
    assert (Ho : overwrites (out_status o) (o_always P) = true) by (rewrite Hst; reflexivity).
    destruct (Hov Ho) as (O2 & _ & _ & _).
    assert (Lou : length (out_u o) = (NN * nu)%nat) by (rewrite O2; exact Luh).
    split; [exact Hγ|]. split; [exact Luk|]. split.
    { rewrite Eg. apply ebwd_is_cost_gradient; assumption. }
    split.
    { destruct (INST consistent_explicit (out_final o) Hc) as (E1 & _). rewrite E1. apply efwd_cost. }
    split; [exact Lou|]. split.
    { intros j Hj. rewrite O2.
      apply (INST consistent_uhat_in_box (out_final o) (NN * nu)%nat Hc); try assumption.
      - rewrite tile_length. now rewrite HUl. 
      - rewrite tile_length. now rewrite HUu.
      - apply forall2_nth; [apply tile_forall2; exact Hne|]. rewrite tile_length, HUl. exact Hj. }
    split; [rewrite <- O1 in Hcrit; exact Hcrit|]. split.
    { pose proof (INST eps_is_ocp_crit (out_final o) Hc HUl HUu Luk Lg) as Ec. rewrite Heps in Ec.
      apply (ocp_crit_supported_iff (p_crit P) Ulb Uub NN (igam (out_final o)) (iu (out_final o)) (igrad (out_final o)) (ip (out_final o))). eexists. symmetry. exact Ec. }
    cbv zeta in Erows. assert (Ecv : ecvals (snd (efwd (out_u o))) = econstr (out_u o)) by (eapply storage_cvals; eassumption). rewrite Ecv in Erows.
    destruct Erows as [Ey Ee]. split; [exact Ey|]. split; [exact Ee|].
    pose proof (econstr_length (out_u o) Hfn) as Lcs. split; [exact Lcs|].
    intros i Hi. rewrite Ey, Ee.
    assert (LD1 : length Dl = (NN * nc + ncN)%nat) by (rewrite app_length, tile_length, LDl, LDNl; reflexivity).
    assert (LD2 : length Du = (NN * nc + ncN)%nat) by (rewrite app_length, tile_length, LDu, LDNu; reflexivity).
    set (m := (NN * nc + ncN)%nat) in *.
    assert (Hrow : nth i (ocp_write Dl Du (econstr (out_u o)) y μ) (0, 0)
                   = ocp_write1 (nth i Dl None) (nth i Du None) (nth i (econstr (out_u o)) 0) (nth i y 0) (nth i μ 0)).
    { unfold ocp_write. apply (map5_nth _ Dl Du (econstr (out_u o)) y μ m i None None 0 0 0 (0, 0)); assumption. }
    assert (Lrows : length (ocp_write Dl Du (econstr (out_u o)) y μ) = m) by (unfold ocp_write; apply map5_length; assumption).
    pose proof (map_nth snd (ocp_write Dl Du (econstr (out_u o)) y μ) (0, 0) i) as E1. cbn [snd] in E1. rewrite Hrow in E1.
    pose proof (map_nth fst (ocp_write Dl Du (econstr (out_u o)) y μ) (0, 0) i) as E2. cbn [fst] in E2. rewrite Hrow in E2.
    rewrite E1, E2.
    assert (Hm : 0 < nth i μ 0).
    { rewrite Forall_forall in Hμ. apply Hμ. apply nth_In. rewrite Lμ. exact Hi. }
    destruct (ocp_write1_spec (nth i Dl None) (nth i Du None) (nth i (econstr (out_u o)) 0) (nth i y 0) (nth i μ 0) Hm) as (S1 & S2 & _).
    split; [exact S1|exact S2].
  Qed.

  (* the box part stage by stage: input i of stage t of the returned sequence lies between Ulb_i and Uub_i *)
  Corollary panoc_ocp_converged_inputs_in_U fuel o :
    wf_fns f h hN c cN d -> wf_jac jA jB gqr gqN jc jcN d -> length x0 = nx ->
    length Ulb = nu -> length Uub = nu -> Forall2 box_ne Ulb Uub ->
    length u_in = (NN * nu)%nat ->
    length Dlb = nc -> length Dub = nc -> length DNlb = ncN -> length DNub = ncN ->
    length y = (NN * nc + ncN)%nat -> length μ = (NN * nc + ncN)%nat -> Forall (fun m => 0 < m) μ ->
    0 < p_Lgamma P -> 0 < p_Lmin P -> 0 < p_Lmax P ->
    (forall j u x qr mask q, length (gn_step j u x qr mask q) = (NN * nu)%nat) ->
    (forall ds q γ J, length (snd (fst (lb_apply ds q γ J))) = (NN * nu)%nat) ->
    run fuel = Done o -> out_status o = StConverged ->
    forall t i, (t < NN)%nat -> (i < nu)%nat -> in_box (nth i Ulb None) (nth i Uub None) (nth (t * nu + i) (out_u o) 0).
  Proof.
    intros Hfn Hjac Lx0 HUl HUu Hne Lu0 LDl LDu LDNl LDNu Ly Lμ Hμ HLγ HLmin HLmax Hgn Hlb Hr Hst t i Ht Hi.
    destruct (panoc_ocp_converged_is_stationary fuel o Hfn Hjac Lx0 HUl HUu Hne Lu0 LDl LDu LDNl LDNu Ly Lμ Hμ HLγ HLmin HLmax Hgn Hlb Hr Hst)
      as (_ & _ & _ & _ & _ & Hbox & _).
    destruct (Hbox (t * nu + i)%nat ltac:(nia)) as [Hin _].
    rewrite <- HUl in Hin at 1. rewrite (tile_nth Ulb None NN t i Ht ltac:(lia)) in Hin.
    rewrite <- HUu in Hin at 1. rewrite (tile_nth Uub None NN t i Ht ltac:(lia)) in Hin. exact Hin.
  Qed.
End Final.
