(* Corr_C16.v — correspondence cases for C16: the model TypeErased.v executed on the operation sequences that
   drv_C16 ran on the real alpaqa::util::TypeErased; after EVERY operation the model's result and canonical
   snapshot (per slot: liveness, emptiness, size field, allocator, where self points, block owner, payload id /
   type / value; ledger counters) must equal the implementation's.  To keep the case files small the snapshots are
   compared through a 63-bit chained polynomial hash computed identically by lib/vf/props/C16.py on the driver output;
   [model16] dumps the full model snapshots for a disagreeing case. *)
From Coq Require Import ZArith List Bool Uint63.
From Alpaqa Require Import TypeErased.
Import ListNotations.
Local Open Scope Z_scope.

Definition nslots : nat := 3.
Definition cfg_of (k : Z) : cfg :=
  {| sbo := 64; pocca := Z.testbit k 0; pocma := Z.testbit k 1; soccc0 := Z.testbit k 2; n_ext := 2 |}.

(* one operation = one 63-bit word: code(4) i(2) j(2) a(2) z(7) v(7) thr(1), least significant first *)
Definition fld (n : int) (sh w : Z) : Z := Uint63.to_Z (((n >> Uint63.of_Z sh) land (Uint63.of_Z (2 ^ w - 1)))%uint63).
Definition decode (n : int) : op :=
  let i := Z.to_nat (fld n 4 2) in let j := Z.to_nat (fld n 6 2) in let a := Z.to_nat (fld n 8 2) in
  let z := fld n 10 7 in let v := fld n 17 7 in let thr := negb (fld n 24 1 =? 0) in
  match fld n 0 4 with
  | 0 => MkEmpty i a
  | 1 => MkVal i a z v thr
  | 2 => MkRef i j a thr
  | 3 => CopyCtor i j thr
  | 4 => CopyCtorA i j a thr
  | 5 => MoveCtor i j
  | 6 => MoveCtorA i j a
  | 7 => CopyAssign i j thr
  | 8 => MoveAssign i j
  | 9 => Destroy i
  | 10 => CallGet i
  | 11 => CallSet i v
  | 12 => AsSet i z v
  | 13 => AsGet i z
  | _ => GetPtr i
  end.

Definition zn (n : nat) : Z := Z.of_nat n.
Definition snap_slot (st : state) (s : nat) : list Z :=
  match pool st s with
  | None => [0; 0; 0; 0; 0; 0; 0; 0; -1; 0; -1]
  | Some w =>
      [1; if self w then 1 else 0; (if self w then size w else 0); zn (alloc w)] ++
      match self w with
      | None => [0; 0; 0; 0; -1; 0; -1]
      | Some l =>
          (match l with
           | LBuf s' => [1; zn s'; 0; 0]
           | LHeap b => match blocks st b with Some (a, z) => [2; zn b; zn a; z] | None => [4; zn b; 0; 0] end
           | LExt e => [3; zn e; 0; 0]
           end) ++
          match mem st l with Some o => [zn (oid o); osz o; oval o] | None => [-1; 0; -1] end
      end
  end.
Definition count_some {A} (f : nat -> option A) (n : nat) : Z :=
  fold_left (fun acc k => if f k then acc + 1 else acc) (seq 0 n) 0.
Definition snap_ledger (c : cfg) (st : state) : list Z :=
  [zn (length (clog st)); zn (length (dlog st)); zn (length (alog st)); zn (length (flog st));
   count_some (fun s => mem st (LBuf s)) nslots + count_some (fun b => mem st (LHeap b)) (next_blk st)
     + count_some (fun e => mem st (LExt e)) (n_ext c);
   count_some (blocks st) (next_blk st)].
Definition snapshot (c : cfg) (st : state) : list Z :=
  flat_map (snap_slot st) (seq 0 nslots) ++ snap_ledger c st.
Definition res_code (r : res) : list Z :=
  match r with
  | ROk v d => [0; v; match d with Some k => zn k | None => -1 end]
  | RSkip => [1; 0; -1] | RThrew => [2; 0; -1] | RConst => [3; 0; -1] | RType => [4; 0; -1]
  end.

(* chained hash over the whole trace, arithmetic modulo 2^63 (primitive integers) *)
Definition hstep (h : int) (x : Z) : int := (h * 1000003 + Uint63.of_Z (x + 7))%uint63.
Definition hash_trace (t : list (list Z)) : int := fold_left (fun h l => fold_left hstep l (h * 31 + 1)%uint63) t 1%uint63.

Inductive c16case := Case (cfgk : Z) (ops : list int) (h : int).

Fixpoint trace (c : cfg) (ops : list int) (st : state) : list (list Z) :=
  match ops with
  | [] => []
  | t :: ops' => let '(st', r) := step c (decode t) st in
                 (res_code r ++ snapshot c st' ++ [zn (length (errs st'))]) :: trace c ops' st'
  end.

Definition model16 (k : c16case) : list (list Z) :=
  let '(Case cfgk ops _) := k in trace (cfg_of cfgk) ops (init (cfg_of cfgk)).

Definition chk16 (k : c16case) : bool :=
  let '(Case _ _ h) := k in Uint63.eqb (hash_trace (model16 k)) h.
