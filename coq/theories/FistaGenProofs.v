(* FistaGenProofs.v — the kernels GENERATED from fista.tpp satisfy what the rate proof needs (kernels_ok).
   This is the file that stops compiling when the source's momentum recurrence / extrapolation / QUB test /
   backtracking updates no longer have the properties the Beck–Teboulle argument uses. *)
From Coq Require Import Reals List ZArith Lra Lia Bool Psatz.
From Flocq Require Import Raux.
From Alpaqa Require Import Num NumR Vec Prox ProxProofs Fista FistaGen FistaK FistaProofs.
Import ListNotations.
Local Open Scope R_scope.

Ltac gen_unfold := cbn [genK k_tnext k_extrap k_qubv k_guard k_btgam k_btL k_gamofL];
  unfold t_next, extrap1, qub_violated, qub_margin, bt_guard, bt_gamma, bt_L, gamma_of_L; numR.

(* abstract the square root occurring in the generated recurrence: s >= 0, s*s = radicand *)
Ltac sqrt_abs :=
  match goal with |- context [sqrt ?a] =>
    let s := fresh "s" in let Hs := fresh "Hs" in let Hs0 := fresh "Hs0" in
    assert (Hs0 : 0 <= sqrt a) by apply sqrt_pos;
    assert (Hs : sqrt a * sqrt a = a) by (apply sqrt_sqrt; nra);
    set (s := sqrt a) in *; clearbody s
  end.

(* the momentum recurrence: t+ (t+ - 1) = t²  (Beck–Teboulle; equivalent to t+ = (1 + √(1 + 4t²))/2) *)
Lemma gen_tnext_recurrence t : 1 <= t -> k_tnext genK t * (k_tnext genK t - 1) = t * t.
Proof. intros Ht. gen_unfold. sqrt_abs. nra. Qed.

Lemma gen_tnext_ge1 t : 1 <= t -> 1 <= k_tnext genK t.
Proof. intros Ht. gen_unfold. sqrt_abs. nra. Qed.

Lemma gen_extrap tp t a b : t <> 0 -> k_extrap genK tp t a b = a + (tp - 1) / t * (a - b).
Proof. intros Ht. gen_unfold. field. assumption. Qed.

Lemma gen_qub psx psxh gp L pp : 0 <= L -> 0 <= pp ->
  k_qubv genK psx psxh gp L pp 0 = false -> psxh <= psx + gp + L / 2 * pp.
Proof.
  intros HL Hpp. gen_unfold. intros H. pose proof (Rmult_le_pos L pp HL Hpp) as HLp.
  match type of H with Rlt_bool ?a ?b = false => destruct (Rlt_bool_spec a b); [discriminate|] end.
  lra.
Qed.

Lemma gen_guard L Lmax : k_guard genK L Lmax = false -> Lmax <= L.
Proof. gen_unfold. intros H. destruct (Rlt_bool_spec L Lmax); [discriminate|]. lra. Qed.

Lemma gen_btgam g : k_btgam genK g = g / 2.  Proof. gen_unfold. lra. Qed.
Lemma gen_btL L : k_btL genK L = 2 * L.        Proof. gen_unfold. lra. Qed.
Lemma gen_gamofL a L : k_gamofL genK a L = a / L. Proof. gen_unfold. reflexivity. Qed.

Theorem genK_ok : kernels_ok genK.
Proof.
  constructor.
  - exact gen_tnext_ge1.
  - exact gen_tnext_recurrence.
  - exact gen_extrap.
  - exact gen_qub.
  - exact gen_guard.
  - exact gen_btgam.
  - exact gen_btL.
  - exact gen_gamofL.
Qed.

(* t_k >= (k + 2)/2 for the generated recurrence started at t_0 = 1 *)
Theorem gen_t_lower_bound k : (INR k + 2) / 2 <= titer genK k 1.
Proof. pose proof (titer_lower genK genK_ok k 1 ltac:(lra)). lra. Qed.

(* ------------------------------------------------------------------ the theorems at the generated kernels *)
Section AtGen.
  Variables (n : nat) (f : list R -> R) (gradf : list R -> list R) (lb ub : list (option R)) (l1 : list R) (Lf : R).
  Variable P : params (T:=R).
  Hypothesis Hok : prob_ok n lb ub l1.
  Hypothesis Hf : smooth_convex n f gradf Lf.
  Hypothesis HP : params_ok P Lf.
  Variable xs : list R.
  Hypothesis Hxs : minimiser n f lb ub l1 xs.

  Lemma gen_potential_decrease fuel s s' o nbt : p_noaccel P = false ->
    inv n f gradf lb ub P s -> step genK f gradf lb ub l1 P fuel s = Some (s', o, nbt) ->
    inv n f gradf lb ub P s' /\ Phi n f l1 xs s' <= Phi n f l1 xs s /\
    2 * s_gam s' * (s_t s * s_t s) * (F n f l1 (o_xh o) - F n f l1 xs) <= Phi n f l1 xs s' /\
    0 <= F n f l1 (o_xh o) - F n f l1 xs /\ s_t s + / 2 <= s_t s'.
  Proof. exact (potential_decrease_b n f gradf lb ub l1 Lf genK P Hok Hf genK_ok HP xs Hxs fuel s s' o nbt). Qed.

  Lemma gen_fista_rate x0 fuel k s0 s s' o nbt : length x0 = n -> p_noaccel P = false ->
    init genK f gradf P x0 = Some s0 -> run genK f gradf lb ub l1 P fuel k s0 = Some s ->
    step genK f gradf lb ub l1 P fuel s = Some (s', o, nbt) ->
    0 < s_gam s' /\
    F n f l1 (o_xh o) - F n f l1 xs <= 2 * dist2 n x0 xs / (s_gam s' * ((INR k + 2) * (INR k + 2))) /\
    F n f l1 (o_xh o) - F n f l1 xs <= 2 * dist2 n x0 xs / (s_gam s' * ((INR k + 1) * (INR k + 1))).
  Proof. exact (fista_rate_b n f gradf lb ub l1 Lf genK P Hok Hf genK_ok HP xs Hxs x0 fuel k s0 s s' o nbt). Qed.

  Lemma gen_fista_noaccel x0 fuel k s0 s s' o nbt : length x0 = n -> p_noaccel P = true ->
    init genK f gradf P x0 = Some s0 -> run genK f gradf lb ub l1 P fuel k s0 = Some s ->
    step genK f gradf lb ub l1 P fuel s = Some (s', o, nbt) ->
    0 < s_gam s' /\
    (k <> O -> F n f l1 (o_xh o) <= F n f l1 (s_x s)) /\
    F n f l1 (o_xh o) - F n f l1 xs <= dist2 n x0 xs / (2 * s_gam s' * (INR k + 1)).
  Proof. exact (fista_noaccel_b n f gradf lb ub l1 Lf genK P Hok Hf genK_ok HP xs Hxs x0 fuel k s0 s s' o nbt). Qed.
End AtGen.

(* ------------------------------------------------------------------ non-vacuity: a concrete instance of all hypotheses
   f(x) = ½‖x‖² on R², box [-1,1] x R, l1 weight ½, fixed step L = 1, x* = 0, x0 = (3,-2);
   the model initialises and performs an iteration. *)
Definition ex_f (x : list R) : R := / 2 * Ssum 2 (fun i => nth i x 0 * nth i x 0).
Definition ex_P : params (T:=R) :=
  {| p_Lgam := 1; p_Lmin := 1; p_Lmax := 1; p_L0 := 0; p_eps := 0; p_del := 0; p_tol := 0; p_noaccel := false |}.
Definition ex_lb : list (option R) := [Some (-1); None].
Definition ex_ub : list (option R) := [Some 1; None].

Lemma ex_smooth_convex : smooth_convex 2 ex_f (fun x => x) 1.
Proof.
  unfold smooth_convex, ex_f. repeat split; auto; try lra; intros.
  all: cbn [Ssum].
  all: repeat match goal with |- context [nth ?i ?v 0] => let a := fresh "a" in set (a := nth i v 0) in *; clearbody a end.
  - pose proof (Rle_0_sqr (a1 - a)). pose proof (Rle_0_sqr (a2 - a0)). unfold Rsqr in *. lra.
  - lra.
Qed.

Lemma ex_prob_ok : prob_ok 2 ex_lb ex_ub [/ 2].
Proof.
  unfold prob_ok, ex_lb, ex_ub, lbi, ubi, wt. repeat split; auto.
  - intros [|[|i]] Hi; cbn; try lra; auto; try lia.
  - right. split; [left; reflexivity|]. intros [|[|i]] Hi; cbn; repeat split; try lra; auto; try lia.
Qed.

Lemma ex_params_ok : params_ok ex_P 1.
Proof. unfold params_ok, ex_P; cbn. repeat split; lra. Qed.

Lemma ex_minimiser : minimiser 2 ex_f ex_lb ex_ub [/ 2] [0; 0].
Proof.
  unfold minimiser, feas, ex_lb, ex_ub, lbi, ubi. repeat split; auto.
  - destruct i as [|[|i]]; cbn; try lra; auto; try lia.
  - destruct i as [|[|i]]; cbn; try lra; auto; try lia.
  - intros x Hx _. unfold F, ex_f, hval, wt. cbn [Ssum l1_weight nth]. rewrite Rabs_R0.
    pose proof (Rabs_pos (nth 0 x 0)). pose proof (Rabs_pos (nth 1 x 0)).
    pose proof (Rle_0_sqr (nth 0 x 0)). pose proof (Rle_0_sqr (nth 1 x 0)). unfold Rsqr in *.
    repeat match goal with |- context [nth ?i ?v 0] => let a := fresh "a" in set (a := nth i v 0) in *; clearbody a end.
    lra.
Qed.

Lemma ex_runs : exists s0 s' o nbt,
  init genK ex_f (fun x => x) ex_P [3; -2] = Some s0 /\
  step genK ex_f (fun x => x) ex_lb ex_ub [/ 2] ex_P 0 s0 = Some (s', o, nbt).
Proof.
  eexists. eexists. eexists. eexists. split.
  - unfold init, fixed_lipschitz, ex_P. cbn [p_Lmin p_Lmax p_L0 p_Lgam nfinite NumR neqb].
    rewrite Req_bool_true by reflexivity. reflexivity.
  - unfold step. cbn [s_gam s_L s_x s_g s_psi s_xh s_t]. unfold backtrack.
    cbn [k_guard genK]. unfold bt_guard. cbn [nltb NumR p_Lmax ex_P].
    rewrite Rlt_bool_false by lra. cbn [andb]. reflexivity.
Qed.
