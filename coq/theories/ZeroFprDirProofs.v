(* ZeroFprDirProofs.v — ZeroFprDir.zerofprD (ZeroFPR with a stateful direction provider) REFINES ZeroFpr.zerofpr (ZeroFPR with a
   direction oracle): same statement and same proof structure as PanocDirProofs.v (whose relations cb_sim / st_sim / out_sim and
   oracle_of are re-used; the oracle ignores its iterate arguments). *)
From Coq Require Import List ZArith Bool Arith Lia.
From Alpaqa Require Import Num Vec Prox SolverStatus SolverKernels StopChain Panoc ZeroFpr Directions PanocDir PanocDirProofs ZeroFprDir.
Import ListNotations.

Section Refine.
  Context {T : Type} `{Num T}.
  Local Open Scope num_scope.
  Hypothesis eq00 : (n0 =? n0) = true.
  Hypothesis lt00 : (n0 <? n0) = false.

  Variable psi_grad_full : list T -> T * list T * list T.
  Variable psi_yhat : list T -> T * list T.
  Variable grad_L : list T -> list T -> list T.
  Variable grad_psi : list T -> list T.
  Variables (lb ub : list (option T)) (l1 : list T).
  Variable D : Type.
  Variable ops : dirops T D.
  Variable stop_req : counters -> bool.
  Variable time_up : counters -> bool.
  Variable P : params (T:=T).
  Variable from_prox : bool.
  Variables (x_in y_in Σ errz_in : list T).
  Variable ls_fuel : nat.

  Notation lsloop := (ZeroFpr.ls_loop psi_grad_full psi_yhat lb ub l1 stop_req P).
  Notation lsloopD := (zls_loopD psi_grad_full psi_yhat lb ub l1 D ops stop_req P from_prox).
  Notation passD_ := (zpassD psi_grad_full psi_yhat grad_L lb ub l1 D ops stop_req time_up P from_prox x_in y_in Σ errz_in ls_fuel).
  Notation loopD_ := (zloopD psi_grad_full psi_yhat grad_L lb ub l1 D ops stop_req time_up P from_prox x_in y_in Σ errz_in ls_fuel).
  Notation runD_ := (zerofprD psi_grad_full psi_yhat grad_L grad_psi lb ub l1 D ops stop_req time_up P from_prox x_in y_in Σ errz_in ls_fuel).
  Notation hasinit := (d_has_initial D ops).
  Notation pass_ O := (ZeroFpr.pass psi_grad_full psi_yhat grad_L lb ub l1 O hasinit stop_req time_up P x_in y_in Σ errz_in ls_fuel).
  Notation loop_ O := (ZeroFpr.loop psi_grad_full psi_yhat grad_L lb ub l1 O hasinit stop_req time_up P x_in y_in Σ errz_in ls_fuel).
  Notation run_ O := (zerofpr psi_grad_full psi_yhat grad_L grad_psi lb ub l1 O hasinit stop_req time_up P x_in y_in Σ errz_in ls_fuel).

  Definition zoracle_of (tr : list (option (list T))) : nat -> iterate (T:=T) -> proxit (T:=T) -> option (list T) := fun j _ _ => nth j tr None.

  Lemma zls_loopD_fst : forall fuel curr prox q ti s d rej, fst (fst (lsloopD fuel curr prox q ti s d rej)) = lsloop fuel curr prox q ti s.
  Proof.
    induction fuel as [|f IH]; intros curr prox q ti s d rej; [reflexivity|].
    cbn [zls_loopD ZeroFpr.ls_loop].
    destruct (stop_req (ZeroFpr.ls_cnt s)); [reflexivity|].
    destruct (if ZeroFpr.ls_tau s =? ZeroFpr.ls_tau_prev s then _ else _) as [next c1].
    match goal with |- context [if ?c then lsloopD f curr prox q ti ?a ?b ?r else _] => destruct c end; [apply IH|].
    match goal with |- context [if ?c then lsloopD f curr prox q ti ?a ?b ?r else _] => destruct c end; [apply IH|].
    match goal with |- context [if ?c then lsloopD f curr prox q ti ?a ?b ?r else _] => destruct c end; [apply IH|reflexivity].
  Qed.

  Lemma zls_q_irrelevant : forall fuel curr prox q q' s, ZeroFpr.ls_tau s = n0 ->
    lsloop fuel curr prox q n0 s = lsloop fuel curr prox q' n0 s /\ (forall l, lsloop fuel curr prox q n0 s = ZeroFpr.LsDone l -> ZeroFpr.ls_tau l = n0).
  Proof.
    induction fuel as [|f IH]; intros curr prox q q' s Hτ; [split; [reflexivity|discriminate]|].
    cbn [ZeroFpr.ls_loop]. rewrite Hτ.
    destruct (stop_req (ZeroFpr.ls_cnt s)); [split; [reflexivity|discriminate]|].
    rewrite eq00, lt00. cbn [andb].
    set (t2 := if n0 =? ZeroFpr.ls_tau_prev s then (ZeroFpr.ls_next s, inc_polls (ZeroFpr.ls_cnt s))
               else (ZeroFpr.take_safe_step curr prox (ZeroFpr.ls_next s), inc_polls (ZeroFpr.ls_cnt s))).
    destruct t2 as [next c1].
    match goal with |- context [if ?c then lsloop f curr prox q n0 ?a else _] => destruct c end.
    - apply IH. reflexivity.
    - split; [reflexivity|]. intros l E. injection E as <-. reflexivity.
  Qed.

  Lemma zls_c_apply : forall fuel curr prox q ti s l,
    (lsloop fuel curr prox q ti s = ZeroFpr.LsDone l \/ lsloop fuel curr prox q ti s = ZeroFpr.LsStopped l) ->
    c_apply (ZeroFpr.ls_cnt l) = c_apply (ZeroFpr.ls_cnt s).
  Proof.
    induction fuel as [|f IH]; intros curr prox q ti s l; [intros [E|E]; discriminate E|].
    cbn [ZeroFpr.ls_loop].
    destruct (stop_req (ZeroFpr.ls_cnt s)); [intros [E|E]; [discriminate E|injection E as <-; reflexivity]|].
    set (t2 := if ZeroFpr.ls_tau s =? ZeroFpr.ls_tau_prev s then _ else _).
    assert (H3 : c_apply (snd t2) = c_apply (ZeroFpr.ls_cnt s)).
    { unfold t2. destruct (ZeroFpr.ls_tau s =? ZeroFpr.ls_tau_prev s); [reflexivity|]. destruct (ZeroFpr.ls_tau s =? n0); reflexivity. }
    destruct t2 as [next c1]. cbn [snd] in H3.
    match goal with |- context [if ?c then lsloop f curr prox q ti ?a else _] => destruct c end.
    { intros E. rewrite (IH _ _ _ _ _ _ E). exact H3. }
    match goal with |- context [if ?c then lsloop f curr prox q ti ?a else _] => destruct c end.
    { intros E. rewrite (IH _ _ _ _ _ _ E). cbn [ZeroFpr.ls_cnt c_apply inc_py]. exact H3. }
    assert (H4 : c_apply (if ZeroFpr.ls_upd s && negb (ZeroFpr.ls_updated s) then inc_dir (inc_py c1) else inc_py c1) = c_apply (ZeroFpr.ls_cnt s)).
    { destruct (ZeroFpr.ls_upd s && negb (ZeroFpr.ls_updated s)); cbn [c_apply inc_dir inc_py]; exact H3. }
    match goal with |- context [if ?c then lsloop f curr prox q ti ?a else _] => destruct c end.
    { intros E. rewrite (IH _ _ _ _ _ _ E). cbn [ZeroFpr.ls_cnt]. exact H4. }
    intros [E|E]; [|discriminate E]. injection E as <-. cbn [ZeroFpr.ls_cnt]. exact H4.
  Qed.

  Lemma zpass_sim (sD : zstateD D) (s : lstate (T:=T)) (TR : list (option (list T))) :
    st_sim (zd_st D sD) s -> length (zd_trace D sD) = c_apply (st_cnt s) ->
    match passD_ sD with
    | ZExitD _ oD => exists o, pass_ (zoracle_of TR) s = ZeroFpr.PExit o /\ out_sim (zo_out D oD) o /\ zo_trace D oD = zd_trace D sD
    | ZContD _ sD' =>
        (exists ext, zd_trace D sD' = zd_trace D sD ++ ext) /\
        (forall ext', TR = zd_trace D sD' ++ ext' ->
           exists s', pass_ (zoracle_of TR) s = ZeroFpr.PCont s' /\ st_sim (zd_st D sD') s' /\ length (zd_trace D sD') = c_apply (st_cnt s'))
    | ZFuelD _ => True
    | ZThrowD _ _ => True
    end.
  Proof.
    destruct sD as [[curr next0 k np q0 cnt stats log] d rej tr].
    destruct s as [curr' next0' k' np' q0' cnt' stats' log'].
    intros (E1 & E2 & E3 & E4 & E5 & E6 & Elog) Etr. cbn [zd_st zd_trace st_curr st_next st_k st_np st_cnt st_stats st_log] in *.
    subst curr' next0' k' np' cnt' stats'.
    unfold zpassD, ZeroFpr.pass. cbn [zd_st zd_dir zd_rej zd_trace st_curr st_next st_k st_np st_q st_cnt st_stats st_log].
    set (prox := eval_prox_it grad_L lb ub l1 curr).
    set (c0 := inc_gl cnt).
    set (ε := zit_eps lb ub l1 P curr prox).
    set (stt := stop_status_helpers (o_tol P) ε (time_up c0) k (p_max_iter P) np (p_max_no_progress P) (stop_req c0)).
    destruct stt eqn:Est.
    2-8: (cbv zeta;
          match goal with |- context [exit_block ?a ?b ?c ?d ?e ?f ?g ?h] => destruct (exit_block a b c d e f g h) as [[xo yo] eo] end;
          eexists; (split; [reflexivity|]); (split; [|reflexivity]);
          cbn [zo_out out_status out_iterations out_eps out_x out_y out_errz out_final out_stats out_cnt out_log];
          repeat (split; [reflexivity|]);
          apply Forall2_cb_rev; constructor; [apply cb_sim_refl|exact Elog]).
    set (c2 := if (k =? 0)%nat then inc_dir (inc_polls c0) else inc_polls c0).
    assert (Hc2 : c_apply c2 = length tr).
    { unfold c2, c0. rewrite Etr. destruct (k =? 0)%nat; reflexivity. }
    destruct (if (k =? 0)%nat then d_initialize D ops d y_in Σ (igam curr) (ixh curr) (px_xh prox) (px_p prox) (px_grad prox) else Some d)
      as [d1|]; [|exact I].
    set (use_dir := (0 <? k)%nat || hasinit).
    unfold zdir_phase.
    destruct use_dir eqn:Euse.
    - destruct (d_apply D ops d1 (igam curr) (ixh curr) (px_xh prox) (px_p prox) (px_grad prox) q0) as [[[b q'] d2]|]; [|exact I].
      set (r := if b then Some q' else None).
      set (tau_init := match r with Some q1 => if vall_finite q1 then n1 else n0 | None => n0 end).
      set (dfail := true && negb (tau_init =? n1)).
      set (stats1 := if dfail then inc_dfail stats else stats).
      set (d3 := if dfail then d_reset D ops d2 else d2).
      set (ls0 := ZeroFpr.mkLs (set_gamma_L next0 (igam curr) (iL curr)) tau_init (- n1) (p_upd_in_cand P) false (inc_apply c2) stats1).
      pose proof (zls_loopD_fst ls_fuel curr prox q' tau_init ls0 d3 rej) as Hls.
      destruct (lsloopD ls_fuel curr prox q' tau_init ls0 d3 rej) as [[lr d4] rej4]. cbn [fst] in Hls.
      assert (Hq : forall qold, lsloop ls_fuel curr prox (match r with Some q1 => q1 | None => qold end) tau_init ls0 = lr /\
                                (forall l, lr = ZeroFpr.LsDone l -> (match r with Some q1 => q1 | None => qold end) = q' \/ ZeroFpr.ls_tau l = n0)).
      { intros qold. destruct b.
        - split; [symmetry; exact Hls|]. intros; now left.
        - destruct (zls_q_irrelevant ls_fuel curr prox qold q' ls0 eq_refl) as [A B].
          split; [exact (eq_trans A (eq_sym Hls))|]. intros l El. right. apply B. exact (eq_trans A (eq_trans (eq_sym Hls) El)). }
      destruct lr as [l|l|]; [| |exact I].
      + split; [exists [r]; reflexivity|]. intros ext' ETR.
        cbn [zd_trace] in ETR.
        assert (HO : zoracle_of TR (c_apply c2) curr prox = r).
        { unfold zoracle_of. rewrite ETR, Hc2. apply nth_mid. }
        rewrite HO. fold tau_init. fold dfail. fold stats1. fold ls0.
        destruct (Hq q0') as [Hq1 Hq2]. rewrite Hq1.
        eexists. split; [reflexivity|].
        split.
        * cbn [zd_st st_curr st_next st_k st_np st_cnt st_stats st_log].
          repeat (split; [reflexivity|]).
          constructor; [|exact Elog].
          unfold cb_sim. cbn [r_k r_it r_tau r_eps r_status r_q]. repeat (split; [reflexivity|]).
          destruct (Hq2 l eq_refl) as [A|A]; [left; now symmetry|right; exact A].
        * cbn [zd_trace zd_st st_cnt]. rewrite app_length. cbn [length].
          assert (c_apply (ZeroFpr.ls_cnt l) = S (length tr)) as Hl.
          { rewrite (zls_c_apply _ _ _ _ _ _ l (or_introl Hq1)). cbn [ZeroFpr.ls_cnt ls0 c_apply inc_apply]. now rewrite Hc2. }
          destruct (ZeroFpr.ls_updated l); cbn [c_apply inc_cb inc_dir]; lia.
      + split; [exists [r]; reflexivity|]. intros ext' ETR.
        cbn [zd_trace] in ETR.
        assert (HO : zoracle_of TR (c_apply c2) curr prox = r).
        { unfold zoracle_of. rewrite ETR, Hc2. apply nth_mid. }
        rewrite HO. fold tau_init. fold dfail. fold stats1. fold ls0.
        destruct (Hq q0') as [Hq1 _]. rewrite Hq1.
        eexists. split; [reflexivity|].
        split.
        * cbn [zd_st st_curr st_next st_k st_np st_cnt st_stats st_log]. repeat (split; [reflexivity|]). exact Elog.
        * cbn [zd_trace zd_st st_cnt]. rewrite app_length. cbn [length].
          rewrite (zls_c_apply _ _ _ _ _ _ l (or_intror Hq1)). cbn [ZeroFpr.ls_cnt ls0 c_apply inc_apply]. rewrite Hc2. lia.
    - cbn [andb].
      set (ls0 := ZeroFpr.mkLs (set_gamma_L next0 (igam curr) (iL curr)) n0 (- n1) (p_upd_in_cand P) false c2 stats).
      pose proof (zls_loopD_fst ls_fuel curr prox q0 n0 ls0 d1 rej) as Hls.
      destruct (lsloopD ls_fuel curr prox q0 n0 ls0 d1 rej) as [[lr d4] rej4]. cbn [fst] in Hls.
      destruct (zls_q_irrelevant ls_fuel curr prox q0' q0 ls0 eq_refl) as [A B].
      destruct lr as [l|l|]; [| |exact I].
      + split; [exists []; now rewrite app_nil_r|]. intros ext' _.
        fold ls0. rewrite A, <- Hls.
        eexists. split; [reflexivity|].
        split.
        * cbn [zd_st st_curr st_next st_k st_np st_cnt st_stats st_log].
          repeat (split; [reflexivity|]).
          constructor; [|exact Elog].
          unfold cb_sim. cbn [r_k r_it r_tau r_eps r_status r_q]. repeat (split; [reflexivity|]).
          right. apply B. rewrite A. now symmetry.
        * cbn [zd_trace zd_st st_cnt].
          assert (c_apply (ZeroFpr.ls_cnt l) = length tr) as Hl.
          { rewrite (zls_c_apply ls_fuel curr prox q0 n0 ls0 l (or_introl (eq_sym Hls))). cbn [ZeroFpr.ls_cnt ls0]. exact Hc2. }
          destruct (ZeroFpr.ls_updated l); cbn [c_apply inc_cb inc_dir]; lia.
      + split; [exists []; now rewrite app_nil_r|]. intros ext' _.
        fold ls0. rewrite A, <- Hls.
        eexists. split; [reflexivity|].
        split.
        * cbn [zd_st st_curr st_next st_k st_np st_cnt st_stats st_log]. repeat (split; [reflexivity|]). exact Elog.
        * cbn [zd_trace zd_st st_cnt].
          rewrite (zls_c_apply ls_fuel curr prox q0 n0 ls0 l (or_intror (eq_sym Hls))). cbn [ZeroFpr.ls_cnt ls0]. now rewrite Hc2.
  Qed.

  Definition ZInvD (sD : zstateD (T:=T) D) : Prop := length (zd_trace D sD) = c_apply (st_cnt (zd_st D sD)).

  Lemma zpassD_inv sD : ZInvD sD ->
    match passD_ sD with
    | ZContD _ sD' => ZInvD sD' /\ exists ext, zd_trace D sD' = zd_trace D sD ++ ext
    | ZExitD _ oD => zo_trace D oD = zd_trace D sD
    | _ => True
    end.
  Proof.
    intros Hi. destruct (passD_ sD) as [oD|sD'| |] eqn:E; try exact I.
    - pose proof (zpass_sim sD (zd_st D sD) [] (st_sim_refl _) Hi) as Hp. rewrite E in Hp.
      destruct Hp as (o & _ & _ & Ht). exact Ht.
    - pose proof (zpass_sim sD (zd_st D sD) (zd_trace D sD') (st_sim_refl _) Hi) as Hp. rewrite E in Hp.
      destruct Hp as [Hext Hall]. split; [|exact Hext].
      destruct (Hall [] (eq_sym (app_nil_r _))) as (s' & _ & (_ & _ & _ & _ & Ec & _) & Hl).
      unfold ZInvD. rewrite Ec. exact Hl.
  Qed.

  Lemma zloopD_ext : forall fuel sD oD, ZInvD sD -> loopD_ fuel sD = ZDoneD D oD -> exists ext, zo_trace D oD = zd_trace D sD ++ ext.
  Proof.
    induction fuel as [|f IH]; intros sD oD Hi; [discriminate|].
    cbn [zloopD]. pose proof (zpassD_inv sD Hi) as Hp.
    destruct (passD_ sD) as [o|sD'| |]; try discriminate.
    - intros E. injection E as <-. exists []. now rewrite app_nil_r.
    - intros E. destruct Hp as [Hi' [ext1 E1]]. destruct (IH _ _ Hi' E) as [ext2 E2].
      exists (ext1 ++ ext2). now rewrite E2, E1, app_assoc.
  Qed.

  Lemma zloop_sim : forall fuel sD s oD, ZInvD sD -> st_sim (zd_st D sD) s -> loopD_ fuel sD = ZDoneD D oD ->
    exists o, loop_ (zoracle_of (zo_trace D oD)) fuel s = Done o /\ out_sim (zo_out D oD) o.
  Proof.
    induction fuel as [|f IH]; intros sD s oD Hi Hs; [discriminate|].
    cbn [zloopD ZeroFpr.loop].
    assert (Hl : length (zd_trace D sD) = c_apply (st_cnt s)).
    { destruct Hs as (_ & _ & _ & _ & Ec & _). rewrite <- Ec. exact Hi. }
    pose proof (zpassD_inv sD Hi) as Hp.
    pose proof (zpass_sim sD s (zo_trace D oD) Hs Hl) as Hq.
    destruct (passD_ sD) as [o|sD'| |]; try discriminate.
    - intros E. injection E as <-. destruct Hq as (o' & E' & Ho & _). rewrite E'. now exists o'.
    - intros E. destruct Hp as [Hi' _]. destruct Hq as [_ Hall].
      destruct (zloopD_ext _ _ _ Hi' E) as [ext Eext].
      destruct (Hall ext Eext) as (s' & Ep & Hs' & _). rewrite Ep. exact (IH _ _ _ Hi' Hs' E).
  Qed.

  Lemma zinit_qub_c_apply : forall fuel i c st i' c' st',
    ZeroFpr.init_qub psi_yhat lb ub l1 P fuel i c st = Some (i', c', st') -> c_apply c' = c_apply c.
  Proof.
    induction fuel as [|f IH]; intros i c st i' c' st'; cbn [ZeroFpr.init_qub];
      destruct ((iL i <? p_Lmax P) && it_qub_violated P i); try discriminate.
    - intros E. now injection E as _ <- _.
    - intros E. rewrite (IH _ _ _ _ _ _ E). reflexivity.
    - intros E. now injection E as _ <- _.
  Qed.

  Variable d0 : D.

  Theorem zerofprD_refines fuel oD : runD_ d0 fuel = ZDoneD D oD ->
    exists o, run_ (zoracle_of (zo_trace D oD)) fuel = Done o /\ out_sim (zo_out D oD) o.
  Proof.
    unfold zerofprD, zerofpr. pose proof (init_L_c_apply psi_grad_full grad_psi P x_in) as H0.
    destruct (init_L psi_grad_full grad_psi P x_in) as [i0 c0]. cbn [snd] in H0.
    destruct (negb (nfinite (iL i0))); [discriminate|].
    destruct (ZeroFpr.init_qub psi_yhat lb ub l1 P ls_fuel _ (inc_py c0) stats0) as [[[i3 c1] s1]|] eqn:Eq; [|discriminate].
    apply zloop_sim; [|apply st_sim_refl].
    unfold ZInvD. cbn [zd_trace zd_st st_cnt length]. rewrite (zinit_qub_c_apply _ _ _ _ _ _ _ Eq). cbn [c_apply inc_py]. now symmetry.
  Qed.

  Inductive zreachableD : zstateD (T:=T) D -> Prop :=
  | zreachD_init i0 c0 i3 c1 s1 : init_L psi_grad_full grad_psi P x_in = (i0, c0) ->
      ZeroFpr.init_qub psi_yhat lb ub l1 P ls_fuel
               (eval_cost psi_yhat (eval_prox lb ub l1 (set_gamma_L i0 (p_Lgamma P / iL i0) (iL i0)))) (inc_py c0) stats0
        = Some (i3, c1, s1) ->
      zreachableD (mkZD D (mkSt i3 it_blank 0 0 [] c1 s1 []) d0 0 [])
  | zreachD_step sD sD' : zreachableD sD -> passD_ sD = ZContD D sD' -> zreachableD sD'.

  Lemma zreachableD_inv sD : zreachableD sD -> ZInvD sD.
  Proof.
    induction 1 as [i0 c0 i3 c1 s1 E0 Eq|sD sD' _ IH Ep].
    - unfold ZInvD. cbn [zd_trace zd_st st_cnt length]. rewrite (zinit_qub_c_apply _ _ _ _ _ _ _ Eq). cbn [c_apply inc_py].
      pose proof (init_L_c_apply psi_grad_full grad_psi P x_in) as H0. rewrite E0 in H0. now symmetry.
    - pose proof (zpassD_inv sD IH) as Hp. rewrite Ep in Hp. destruct Hp as [Hp _]. exact Hp.
  Qed.
End Refine.

(* ====================================================================== over R: the theorems of ZeroFprProofs.v for every provider *)
From Coq Require Import Reals Lra.
From Flocq Require Import Raux.
From Alpaqa Require Import NumR StopChainProofs KktProofs PanocProofs ZeroFprProofs.
Local Open Scope R_scope.

Section RefineR.
  Variable psi_grad_full : list R -> R * list R * list R.
  Variable psi_yhat : list R -> R * list R.
  Variable grad_L : list R -> list R -> list R.
  Variable grad_psi : list R -> list R.
  Variables (lb ub : list (option R)) (l1 : list R).
  Variable D : Type.
  Variable ops : dirops R D.
  Variable stop_req : counters -> bool.
  Variable time_up : counters -> bool.
  Variable P : params (T:=R).
  Variable from_prox : bool.
  Variables (x_in y_in Σ errz_in : list R).
  Variable ls_fuel : nat.
  Variable d0 : D.

  Notation passD_ := (zpassD psi_grad_full psi_yhat grad_L lb ub l1 D ops stop_req time_up P from_prox x_in y_in Σ errz_in ls_fuel).
  Notation runD_ := (zerofprD psi_grad_full psi_yhat grad_L grad_psi lb ub l1 D ops stop_req time_up P from_prox x_in y_in Σ errz_in ls_fuel d0).
  Notation reachableD_ := (zreachableD psi_grad_full psi_yhat grad_L grad_psi lb ub l1 D ops stop_req time_up P from_prox x_in y_in Σ errz_in ls_fuel d0).
  Notation hasinit := (d_has_initial D ops).
  Notation run_ O := (zerofpr psi_grad_full psi_yhat grad_L grad_psi lb ub l1 O hasinit stop_req time_up P x_in y_in Σ errz_in ls_fuel).
  Notation reachable_ O := (ZeroFprProofs.reachable psi_grad_full psi_yhat grad_L grad_psi lb ub l1 O hasinit stop_req time_up P x_in y_in Σ errz_in ls_fuel).
  Notation Consistent := (zconsistent psi_grad_full psi_yhat grad_L lb ub l1).
  Notation Glrel0 := (glrel0 psi_grad_full grad_psi P x_in).
  Notation Qub_ok := (qub_ok P).
  Notation Rec_ok := (zrec_ok psi_grad_full psi_yhat grad_L grad_psi lb ub l1 P x_in).
  Notation Proxof := (eval_prox_it grad_L lb ub l1).

  Theorem zerofprD_refines_R fuel oD : runD_ fuel = ZDoneD D oD ->
    exists (O : nat -> iterate (T:=R) -> proxit (T:=R) -> option (list R)) o,
      (forall j it px, O j it px = nth j (zo_trace D oD) None) /\ run_ O fuel = Done o /\ out_sim (zo_out D oD) o.
  Proof.
    intros E. destruct (zerofprD_refines eq00R lt00R psi_grad_full psi_yhat grad_L grad_psi lb ub l1 D ops stop_req time_up P from_prox x_in y_in Σ errz_in ls_fuel d0 fuel oD E) as (o & Eo & Ho).
    exists (zoracle_of (zo_trace D oD)), o. split; [reflexivity|]. split; assumption.
  Qed.

  Theorem zreachableD_refines sD : reachableD_ sD ->
    forall ext, exists s, reachable_ (zoracle_of (zd_trace D sD ++ ext)) s /\ st_sim (zd_st D sD) s.
  Proof.
    induction 1 as [i0 c0 i3 c1 s1 E0 Eq|sD sD' Hr IH Ep]; intros ext.
    - eexists. split; [|apply st_sim_refl].
      exact (ZeroFprProofs.reach_init psi_grad_full psi_yhat grad_L grad_psi lb ub l1 _ _ stop_req time_up P x_in y_in Σ errz_in ls_fuel _ _ _ _ _ E0 Eq).
    - pose proof (zreachableD_inv eq00R lt00R psi_grad_full psi_yhat grad_L grad_psi lb ub l1 D ops stop_req time_up P from_prox x_in y_in Σ errz_in ls_fuel _ _ Hr) as Hi.
      pose proof (zpassD_inv eq00R lt00R psi_grad_full psi_yhat grad_L lb ub l1 D ops stop_req time_up P from_prox x_in y_in Σ errz_in ls_fuel sD Hi) as Hp. rewrite Ep in Hp.
      destruct Hp as [_ [ext1 E1]].
      destruct (IH (ext1 ++ ext)) as (s & Hs & Hsim).
      assert (ETR : zd_trace D sD ++ ext1 ++ ext = zd_trace D sD' ++ ext) by (now rewrite E1, app_assoc).
      rewrite ETR in Hs.
      assert (Hl : length (zd_trace D sD) = c_apply (st_cnt s)).
      { destruct Hsim as (_ & _ & _ & _ & Ec & _). rewrite <- Ec. exact Hi. }
      pose proof (zpass_sim eq00R lt00R psi_grad_full psi_yhat grad_L lb ub l1 D ops stop_req time_up P from_prox x_in y_in Σ errz_in ls_fuel sD s (zd_trace D sD' ++ ext) Hsim Hl) as Hq.
      rewrite Ep in Hq. destruct Hq as [_ Hall]. destruct (Hall ext eq_refl) as (s' & Eps & Hs' & _).
      exists s'. split; [|exact Hs'].
      exact (ZeroFprProofs.reach_step psi_grad_full psi_yhat grad_L grad_psi lb ub l1 _ _ stop_req time_up P x_in y_in Σ errz_in ls_fuel _ _ Hs Eps).
  Qed.

  Theorem zerofprD_check sD : reachableD_ sD ->
    let s := zd_st D sD in
    Consistent (st_curr s) /\ Qub_ok (st_curr s) /\ Glrel0 (st_curr s) /\ (st_k s <= p_max_iter P)%nat.
  Proof.
    intros Hr. destruct (zreachableD_refines sD Hr []) as (s' & Hs' & (E1 & _ & E3 & _)).
    pose proof (ZeroFprProofs.reachable_check psi_grad_full psi_yhat grad_L grad_psi lb ub l1 _ _ stop_req time_up P x_in y_in Σ errz_in ls_fuel s' Hs') as Hc.
    cbv zeta. rewrite E1, E3. exact Hc.
  Qed.

  Lemma zrec_ok_sim (r r' : cbrec (T:=R)) : cb_sim r r' -> Rec_ok r' -> Rec_ok r.
  Proof. intros (E1 & E2 & _ & _ & E5 & _). unfold zrec_ok. now rewrite E1, E2, E5. Qed.

  Theorem zerofprD_records fuel oD : runD_ fuel = ZDoneD D oD ->
    let o := zo_out D oD in Forall Rec_ok (out_log o) /\ chain P (rev (out_log o)).
  Proof.
    intros E. destruct (zerofprD_refines_R fuel oD E) as (O & o & _ & Eo & Ho). cbv zeta.
    destruct (zerofpr_records psi_grad_full psi_yhat grad_L grad_psi lb ub l1 _ _ stop_req time_up P x_in y_in Σ errz_in ls_fuel fuel o Eo) as (A & B & _).
    destruct Ho as (_ & _ & _ & _ & _ & _ & _ & _ & _ & Hl). split.
    - clear B. induction Hl as [|r r' l l' Hr _ IH]; constructor; [inversion A; subst; now apply (zrec_ok_sim _ _ Hr)|apply IH; now inversion A].
    - apply (chain_sim P _ (rev (out_log o))); [|exact B].
      clear A B. induction Hl as [|r r' l l' Hr _ IH]; [constructor|]. cbn [rev]. apply Forall2_app; [exact IH|]. constructor; [exact Hr|constructor].
  Qed.

  Theorem zerofprD_status_clauses fuel oD : runD_ fuel = ZDoneD D oD ->
    let o := zo_out D oD in
    (out_iterations o <= p_max_iter P)%nat /\
    out_status o <> StBusy /\
    (out_status o = StMaxIter -> out_iterations o = p_max_iter P) /\
    (out_status o = StConverged <-> out_eps o <= eff_tol (o_tol P)) /\
    (out_status o = StInterrupted -> exists c, stop_req c = true) /\
    (out_status o = StMaxTime -> exists c, time_up c = true) /\
    (out_status o = StNoProgress -> exists np, (p_max_no_progress P < np)%nat).
  Proof.
    intros E. destruct (zerofprD_refines_R fuel oD E) as (O & o & _ & Eo & (E1 & E2 & E3 & _)). cbv zeta.
    rewrite E1, E2, E3. exact (zerofpr_status_clauses psi_grad_full psi_yhat grad_L grad_psi lb ub l1 _ _ stop_req time_up P x_in y_in Σ errz_in ls_fuel fuel o Eo).
  Qed.

  Theorem zerofprD_exit fuel oD : runD_ fuel = ZDoneD D oD ->
    let o := zo_out D oD in
    exists cf : iterate (T:=R), Consistent cf /\ Qub_ok cf /\ Glrel0 cf /\
      out_eps o = zit_eps lb ub l1 P cf (Proxof cf) /\
      (overwrites (out_status o) (o_always P) = true ->
         out_x o = ixh cf /\ ixh cf = vadd (ix cf) (ip cf) /\
         out_y o = iyh cf /\ iyh cf = snd (psi_yhat (out_x o)) /\
         out_errz o = match errz_in with [] => [] | _ => vdiv (vsub (out_y o) y_in) Σ end) /\
      (overwrites (out_status o) (o_always P) = false -> out_x o = x_in /\ out_y o = y_in /\ out_errz o = errz_in).
  Proof.
    intros E. destruct (zerofprD_refines_R fuel oD E) as (O & o & _ & Eo & (E1 & _ & E3 & E4 & E5 & E6 & _)). cbv zeta.
    rewrite E1, E3, E4, E5, E6. exact (zerofpr_exit psi_grad_full psi_yhat grad_L grad_psi lb ub l1 _ _ stop_req time_up P x_in y_in Σ errz_in ls_fuel fuel o Eo).
  Qed.

  Theorem zerofprD_inner_contract fuel oD : runD_ fuel = ZDoneD D oD ->
    let o := zo_out D oD in
    out_status o = StConverged -> p_crit P = ApproxKKT -> l1 = [] ->
    exists (x grad : list R) (γ : R),
      let step := proj_grad_step lb ub γ x grad in
      let gradh := grad_L (out_x o) (out_y o) in
      out_x o = fst (fst step) /\
      out_y o = snd (psi_yhat (out_x o)) /\
      out_errz o = match errz_in with [] => [] | _ => vdiv (vsub (out_y o) y_in) Σ end /\
      out_eps o = vnorminf (kkt_residual γ (snd (fst step)) grad gradh) /\
      out_eps o <= eff_tol (o_tol P) /\
      (exists ψ, zval_x psi_grad_full psi_yhat grad_L x ψ grad) /\
      (0 < p_Lgamma P -> 0 < L_init psi_grad_full grad_psi P x_in -> 0 < γ) /\
      (L_init psi_grad_full grad_psi P x_in <> 0 -> exists L, γ * L = p_Lgamma P).
  Proof.
    intros E. destruct (zerofprD_refines_R fuel oD E) as (O & o & _ & Eo & (E1 & _ & E3 & E4 & E5 & E6 & _)). cbv zeta.
    rewrite E1, E3, E4, E5, E6. exact (zerofpr_inner_contract psi_grad_full psi_yhat grad_L grad_psi lb ub l1 _ _ stop_req time_up P x_in y_in Σ errz_in ls_fuel fuel o Eo).
  Qed.
End RefineR.
