(* PanocDirProofs.v — PanocDir.panocD (PANOC with a stateful direction provider) REFINES Panoc.panoc (PANOC with a direction oracle):
   for every provider (any dirops over any state type) and every run of panocD, the oracle
        dir_apply j _ := the result of the j-th apply call of that run  (Some q if the provider returned true, None otherwise)
   makes Panoc.panoc produce the same status, iteration count, ε, written-back x / y / err_z, final iterate, statistics and event
   counters, and the same progress-callback log except for the field q of the records of iterations without an accelerated
   step (a provider may scribble on the buffer q when it returns false — LBFGSDirection leaves q = p there — whereas the oracle
   model keeps the previous q; that buffer content is reported by the callback and used by nothing).
   Generic in the number system: the only facts used are  (0 =? 0) = true  and  (0 <? 0) = false. *)
From Coq Require Import List ZArith Bool Arith Lia.
From Alpaqa Require Import Num Vec Prox SolverStatus SolverKernels StopChain Panoc Directions PanocDir.
Import ListNotations.

Section Refine.
  Context {T : Type} `{Num T}.
  Local Open Scope num_scope.
  Hypothesis eq00 : (n0 =? n0) = true.
  Hypothesis lt00 : (n0 <? n0) = false.

  Variable psi_grad_full : list T -> T * list T * list T.
  Variable psi_yhat : list T -> T * list T.
  Variable grad_L : list T -> list T -> list T.
  Variable grad_psi : list T -> list T.
  Variables (lb ub : list (option T)) (l1 : list T).
  Variable D : Type.
  Variable ops : dirops T D.
  Variable stop_req : counters -> bool.
  Variable time_up : counters -> bool.
  Variable P : params (T:=T).
  Variables (x_in y_in Σ errz_in : list T).
  Variable ls_fuel : nat.

  Notation lsloop := (ls_loop psi_grad_full psi_yhat grad_L grad_psi lb ub l1 stop_req P).
  Notation lsloopD := (ls_loopD psi_grad_full psi_yhat grad_L grad_psi lb ub l1 D ops stop_req P).
  Notation passD_ := (passD psi_grad_full psi_yhat grad_L grad_psi lb ub l1 D ops stop_req time_up P x_in y_in Σ errz_in ls_fuel).
  Notation loopD_ := (loopD psi_grad_full psi_yhat grad_L grad_psi lb ub l1 D ops stop_req time_up P x_in y_in Σ errz_in ls_fuel).
  Notation panocD_ := (panocD psi_grad_full psi_yhat grad_L grad_psi lb ub l1 D ops stop_req time_up P x_in y_in Σ errz_in ls_fuel).
  Notation hasinit := (d_has_initial D ops).
  Notation pass_ O := (pass psi_grad_full psi_yhat grad_L grad_psi lb ub l1 O hasinit stop_req time_up P x_in y_in Σ errz_in ls_fuel).
  Notation loop_ O := (loop psi_grad_full psi_yhat grad_L grad_psi lb ub l1 O hasinit stop_req time_up P x_in y_in Σ errz_in ls_fuel).
  Notation panoc_ O := (panoc psi_grad_full psi_yhat grad_L grad_psi lb ub l1 O hasinit stop_req time_up P x_in y_in Σ errz_in ls_fuel).

  (* ------------------------------------------------------------------ the line search does not depend on the provider *)
  Lemma ls_loopD_fst : forall fuel q ti s d rej, fst (fst (lsloopD fuel q ti s d rej)) = lsloop fuel q ti s.
  Proof.
    induction fuel as [|f IH]; intros q ti s d rej; [reflexivity|].
    cbn [ls_loopD ls_loop].
    destruct (stop_req (ls_cnt s)); [reflexivity|].
    destruct (if ls_tau s =? ls_tau_prev s then _ else _) as [[curr next] c1].
    match goal with |- context [if ?c then lsloopD f q ti ?a ?b ?r else _] => destruct c end; [apply IH|].
    match goal with |- context [if ?c then lsloopD f q ti ?a ?b ?r else _] => destruct c end; [apply IH|].
    match goal with |- context [if ?c then lsloopD f q ti ?a ?b ?r else _] => destruct c end; [apply IH|reflexivity].
  Qed.

  (* with τ_init = 0 the buffer q is never read, and the search ends with τ = 0 *)
  Lemma ls_q_irrelevant : forall fuel q q' s, ls_tau s = n0 ->
    lsloop fuel q n0 s = lsloop fuel q' n0 s /\ (forall l, lsloop fuel q n0 s = LsDone l -> ls_tau l = n0).
  Proof.
    induction fuel as [|f IH]; intros q q' s Hτ; [split; [reflexivity|discriminate]|].
    cbn [ls_loop]. rewrite Hτ.
    destruct (stop_req (ls_cnt s)); [split; [reflexivity|discriminate]|].
    rewrite eq00, lt00. cbn [andb].
    set (t3 := if n0 =? ls_tau_prev s then (ls_curr s, ls_next s, inc_polls (ls_cnt s))
               else take_safe_step grad_L grad_psi P (ls_curr s) (ls_next s) (inc_polls (ls_cnt s))).
    destruct t3 as [[curr next] c1].
    match goal with |- context [if ?c then lsloop f q n0 ?a else _] => destruct c end.
    - apply IH. reflexivity.
    - split; [reflexivity|]. intros l E. injection E as <-. reflexivity.
  Qed.

  (* the line search makes no apply call *)
  Lemma c_apply_psih c : c_apply (cnt_psih P c) = c_apply c.
  Proof. unfold cnt_psih. destruct (p_eager P); reflexivity. Qed.
  Lemma c_apply_gradh c : c_apply (cnt_gradh P c) = c_apply c.
  Proof. unfold cnt_gradh. destruct (p_eager P); reflexivity. Qed.
  Lemma ls_c_apply : forall fuel q ti s l, (lsloop fuel q ti s = LsDone l \/ lsloop fuel q ti s = LsStopped l) ->
    c_apply (ls_cnt l) = c_apply (ls_cnt s).
  Proof.
    induction fuel as [|f IH]; intros q ti s l; [intros [E|E]; discriminate E|].
    cbn [ls_loop].
    destruct (stop_req (ls_cnt s)); [intros [E|E]; [discriminate E|injection E as <-; reflexivity]|].
    set (t3 := if ls_tau s =? ls_tau_prev s then _ else _).
    assert (H3 : c_apply (snd t3) = c_apply (ls_cnt s)).
    { unfold t3. destruct (ls_tau s =? ls_tau_prev s); [reflexivity|]. destruct (ls_tau s =? n0); [|reflexivity].
      unfold take_safe_step. cbn [snd]. destruct (ihave (ls_curr s)); [reflexivity|]. now rewrite c_apply_gradh. }
    destruct t3 as [[curr next] c1]. cbn [snd] in H3.
    match goal with |- context [if ?c then lsloop f q ti ?a else _] => destruct c end.
    { intros E. rewrite (IH _ _ _ _ E). exact H3. }
    match goal with |- context [if ?c then lsloop f q ti ?a else _] => destruct c end.
    { intros E. rewrite (IH _ _ _ _ E). cbn [ls_cnt]. now rewrite c_apply_psih. }
    assert (H4 : c_apply (if ls_upd s && negb (ls_updated s) then inc_dir (cnt_psih P c1) else cnt_psih P c1) = c_apply (ls_cnt s)).
    { destruct (ls_upd s && negb (ls_updated s)); cbn [c_apply inc_dir]; now rewrite c_apply_psih. }
    match goal with |- context [if ?c then lsloop f q ti ?a else _] => destruct c end.
    { intros E. rewrite (IH _ _ _ _ E). cbn [ls_cnt]. exact H4. }
    intros [E|E]; [|discriminate E]. injection E as <-. cbn [ls_cnt]. exact H4.
  Qed.

  (* ------------------------------------------------------------------ the simulation relation *)
  (* records: everything but q; q too whenever an accelerated step was accepted *)
  Definition cb_sim (r r' : cbrec (T:=T)) : Prop :=
    r_k r = r_k r' /\ r_it r = r_it r' /\ r_tau r = r_tau r' /\ r_eps r = r_eps r' /\ r_status r = r_status r' /\
    (r_q r = r_q r' \/ r_tau r = n0).
  Definition st_sim (s s' : lstate (T:=T)) : Prop :=
    st_curr s = st_curr s' /\ st_next s = st_next s' /\ st_k s = st_k s' /\ st_np s = st_np s' /\
    st_cnt s = st_cnt s' /\ st_stats s = st_stats s' /\ Forall2 cb_sim (st_log s) (st_log s').
  Definition out_sim (o o' : outputs (T:=T)) : Prop :=
    out_status o = out_status o' /\ out_iterations o = out_iterations o' /\ out_eps o = out_eps o' /\
    out_x o = out_x o' /\ out_y o = out_y o' /\ out_errz o = out_errz o' /\ out_final o = out_final o' /\
    out_stats o = out_stats o' /\ out_cnt o = out_cnt o' /\ Forall2 cb_sim (out_log o) (out_log o').

  Lemma cb_sim_refl r : cb_sim r r.
  Proof. repeat split; try reflexivity. now left. Qed.
  Lemma Forall2_cb_rev a b : Forall2 cb_sim a b -> Forall2 cb_sim (rev a) (rev b).
  Proof.
    induction 1 as [|x y a b Hxy _ IH]; [constructor|]. cbn [rev]. apply Forall2_app; [exact IH|]. constructor; [exact Hxy|constructor].
  Qed.

  (* the oracle read off a trace of apply results *)
  Definition oracle_of (tr : list (option (list T))) : nat -> iterate (T:=T) -> option (list T) := fun j _ => nth j tr None.

  Lemma nth_mid {A} (a : list A) (x : A) (b : list A) (dflt : A) : nth (length a) ((a ++ [x]) ++ b) dflt = x.
  Proof. rewrite <- app_assoc. rewrite app_nth2; [|lia]. now rewrite Nat.sub_diag. Qed.

  (* ------------------------------------------------------------------ one pass *)
  Lemma pass_sim (sD : lstateD D) (s : lstate (T:=T)) (TR : list (option (list T))) :
    st_sim (sd_st D sD) s -> length (sd_trace D sD) = c_apply (st_cnt s) ->
    match passD_ sD with
    | PExitD _ oD => exists o, pass_ (oracle_of TR) s = PExit o /\ out_sim (od_out D oD) o /\ od_trace D oD = sd_trace D sD
    | PContD _ sD' =>
        (exists ext, sd_trace D sD' = sd_trace D sD ++ ext) /\
        (forall ext', TR = sd_trace D sD' ++ ext' ->
           exists s', pass_ (oracle_of TR) s = PCont s' /\ st_sim (sd_st D sD') s' /\ length (sd_trace D sD') = c_apply (st_cnt s'))
    | PFuelD _ => True
    | PThrowD _ _ => True
    end.
  Proof.
    destruct sD as [[curr0 next0 k np q0 cnt stats log] d rej tr].
    destruct s as [curr0' next0' k' np' q0' cnt' stats' log'].
    intros (E1 & E2 & E3 & E4 & E5 & E6 & Elog) Etr. cbn [sd_st sd_trace st_curr st_next st_k st_np st_cnt st_stats st_log] in *.
    subst curr0' next0' k' np' cnt' stats'.
    unfold passD, pass. cbn [sd_st sd_dir sd_rej sd_trace st_curr st_next st_k st_np st_q st_cnt st_stats st_log].
    set (need := need_gradh P && negb (ihave curr0)).
    set (curr := if need then eval_gradh grad_L grad_psi P curr0 else curr0).
    set (c0 := if need then cnt_gradh P cnt else cnt).
    assert (Hc0 : c_apply c0 = c_apply cnt).
    { unfold c0, cnt_gradh. destruct need; [|reflexivity]. destruct (p_eager P); reflexivity. }
    set (ε := it_eps lb ub l1 P curr).
    set (stt := stop_status_helpers (o_tol P) ε (time_up c0) k (p_max_iter P) np (p_max_no_progress P) (stop_req c0)).
    destruct stt eqn:Est.
    2-8: (cbv zeta;
          match goal with |- context [exit_block ?a ?b ?c ?d ?e ?f ?g ?h] => destruct (exit_block a b c d e f g h) as [[xo yo] eo] end;
          eexists; (split; [reflexivity|]); (split; [|reflexivity]);
          cbn [od_out out_status out_iterations out_eps out_x out_y out_errz out_final out_stats out_cnt out_log];
          repeat (split; [reflexivity|]);
          apply Forall2_cb_rev; constructor; [apply cb_sim_refl|exact Elog]).
    (* Busy: the direction phase and the line search *)
    set (c2 := if (k =? 0)%nat then inc_dir (inc_polls c0) else inc_polls c0).
    assert (Hc2 : c_apply c2 = length tr).
    { unfold c2. rewrite Etr, <- Hc0. destruct (k =? 0)%nat; reflexivity. }
    destruct (if (k =? 0)%nat then d_initialize D ops d y_in Σ (igam curr) (ix curr) (ixh curr) (ip curr) (igrad curr) else Some d)
      as [d1|]; [|exact I].
    set (use_dir := (0 <? k)%nat || hasinit).
    unfold dir_phase.
    destruct use_dir eqn:Euse.
    - (* apply is called *)
      destruct (d_apply D ops d1 (igam curr) (ix curr) (ixh curr) (ip curr) (igrad curr) q0) as [[[b q'] d2]|]; [|exact I].
      set (r := if b then Some q' else None).
      set (tau_init := match r with Some q1 => if vall_finite q1 then n1 else n0 | None => n0 end).
      set (dfail := true && negb (tau_init =? n1)).
      set (stats1 := if dfail then inc_dfail stats else stats).
      set (d3 := if dfail then d_reset D ops d2 else d2).
      set (ls0 := mkLs curr (set_gamma_L next0 (igam curr) (iL curr)) tau_init (- n1) (p_upd_in_cand P) false (inc_apply c2) stats1).
      pose proof (ls_loopD_fst ls_fuel q' tau_init ls0 d3 rej) as Hls.
      destruct (lsloopD ls_fuel q' tau_init ls0 d3 rej) as [[lr d4] rej4]. cbn [fst] in Hls.
      (* the oracle model: q = q' if Some, else the old buffer; the search is the same *)
      assert (Hq : forall qold, lsloop ls_fuel (match r with Some q1 => q1 | None => qold end) tau_init ls0 = lr /\
                                (forall l, lr = LsDone l -> (match r with Some q1 => q1 | None => qold end) = q' \/ ls_tau l = n0)).
      { intros qold. destruct b.
        - split; [symmetry; exact Hls|]. intros; now left.
        - destruct (ls_q_irrelevant ls_fuel qold q' ls0 eq_refl) as [A B].
          split; [exact (eq_trans A (eq_sym Hls))|]. intros l El. right. apply B. exact (eq_trans A (eq_trans (eq_sym Hls) El)). }
      destruct lr as [l|l|]; [| |exact I].
      + (* LsDone *)
        split; [exists [r]; reflexivity|]. intros ext' ETR.
        cbn [sd_trace] in ETR.
        assert (HO : oracle_of TR (c_apply c2) curr = r).
        { unfold oracle_of. rewrite ETR, Hc2. apply nth_mid. }
        rewrite HO. fold tau_init. fold dfail. fold stats1. fold ls0.
        destruct (Hq q0') as [Hq1 Hq2]. rewrite Hq1.
        eexists. split; [reflexivity|].
        split.
        * cbn [sd_st st_curr st_next st_k st_np st_cnt st_stats st_log].
          repeat (split; [reflexivity|]).
          constructor; [|exact Elog].
          unfold cb_sim. cbn [r_k r_it r_tau r_eps r_status r_q]. repeat (split; [reflexivity|]).
          destruct (Hq2 l eq_refl) as [A|A]; [left; now symmetry|right; exact A].
        * cbn [sd_trace sd_st st_cnt]. rewrite app_length. cbn [length].
          assert (c_apply (ls_cnt l) = S (length tr)) as Hl.
          { rewrite (ls_c_apply _ _ _ _ l (or_introl Hq1)). cbn [ls_cnt ls0 c_apply inc_apply]. now rewrite Hc2. }
          destruct (ls_updated l); cbn [c_apply inc_cb inc_dir]; lia.
      + (* LsStopped *)
        split; [exists [r]; reflexivity|]. intros ext' ETR.
        cbn [sd_trace] in ETR.
        assert (HO : oracle_of TR (c_apply c2) curr = r).
        { unfold oracle_of. rewrite ETR, Hc2. apply nth_mid. }
        rewrite HO. fold tau_init. fold dfail. fold stats1. fold ls0.
        destruct (Hq q0') as [Hq1 _]. rewrite Hq1.
        eexists. split; [reflexivity|].
        split.
        * cbn [sd_st st_curr st_next st_k st_np st_cnt st_stats st_log]. repeat (split; [reflexivity|]). exact Elog.
        * cbn [sd_trace sd_st st_cnt]. rewrite app_length. cbn [length].
          rewrite (ls_c_apply _ _ _ _ l (or_intror Hq1)). cbn [ls_cnt ls0 c_apply inc_apply]. rewrite Hc2. lia.
    - (* no apply call in this pass (k = 0 and no initial direction): τ_init = 0, q is not read *)
      cbn [andb].
      set (ls0 := mkLs curr (set_gamma_L next0 (igam curr) (iL curr)) n0 (- n1) (p_upd_in_cand P) false c2 stats).
      pose proof (ls_loopD_fst ls_fuel q0 n0 ls0 d1 rej) as Hls.
      destruct (lsloopD ls_fuel q0 n0 ls0 d1 rej) as [[lr d4] rej4]. cbn [fst] in Hls.
      destruct (ls_q_irrelevant ls_fuel q0' q0 ls0 eq_refl) as [A B].
      destruct lr as [l|l|]; [| |exact I].
      + split; [exists []; now rewrite app_nil_r|]. intros ext' _.
        fold ls0. rewrite A, <- Hls.
        eexists. split; [reflexivity|].
        split.
        * cbn [sd_st st_curr st_next st_k st_np st_cnt st_stats st_log].
          repeat (split; [reflexivity|]).
          constructor; [|exact Elog].
          unfold cb_sim. cbn [r_k r_it r_tau r_eps r_status r_q]. repeat (split; [reflexivity|]).
          right. apply B. rewrite A. now symmetry.
        * cbn [sd_trace sd_st st_cnt].
          assert (c_apply (ls_cnt l) = length tr) as Hl.
          { rewrite (ls_c_apply ls_fuel q0 n0 ls0 l (or_introl (eq_sym Hls))). cbn [ls_cnt ls0]. exact Hc2. }
          destruct (ls_updated l); cbn [c_apply inc_cb inc_dir]; lia.
      + split; [exists []; now rewrite app_nil_r|]. intros ext' _.
        fold ls0. rewrite A, <- Hls.
        eexists. split; [reflexivity|].
        split.
        * cbn [sd_st st_curr st_next st_k st_np st_cnt st_stats st_log]. repeat (split; [reflexivity|]). exact Elog.
        * cbn [sd_trace sd_st st_cnt].
          rewrite (ls_c_apply ls_fuel q0 n0 ls0 l (or_intror (eq_sym Hls))). cbn [ls_cnt ls0]. now rewrite Hc2.
  Qed.

  (* ------------------------------------------------------------------ the loop *)
  Definition InvD (sD : lstateD (T:=T) D) : Prop := length (sd_trace D sD) = c_apply (st_cnt (sd_st D sD)).

  Lemma st_sim_refl s : st_sim s s.
  Proof.
    repeat (split; [reflexivity|]). induction (st_log s) as [|r l IH]; constructor; [apply cb_sim_refl|exact IH].
  Qed.

  Lemma passD_inv sD : InvD sD ->
    match passD_ sD with
    | PContD _ sD' => InvD sD' /\ exists ext, sd_trace D sD' = sd_trace D sD ++ ext
    | PExitD _ oD => od_trace D oD = sd_trace D sD
    | _ => True
    end.
  Proof.
    intros Hi. destruct (passD_ sD) as [oD|sD'| |] eqn:E; try exact I.
    - pose proof (pass_sim sD (sd_st D sD) [] (st_sim_refl _) Hi) as Hp. rewrite E in Hp.
      destruct Hp as (o & _ & _ & Ht). exact Ht.
    - pose proof (pass_sim sD (sd_st D sD) (sd_trace D sD') (st_sim_refl _) Hi) as Hp. rewrite E in Hp.
      destruct Hp as [Hext Hall]. split; [|exact Hext].
      destruct (Hall [] (eq_sym (app_nil_r _))) as (s' & _ & (_ & _ & _ & _ & Ec & _) & Hl).
      unfold InvD. rewrite Ec. exact Hl.
  Qed.

  Lemma loopD_ext : forall fuel sD oD, InvD sD -> loopD_ fuel sD = DoneD D oD -> exists ext, od_trace D oD = sd_trace D sD ++ ext.
  Proof.
    induction fuel as [|f IH]; intros sD oD Hi; [discriminate|].
    cbn [loopD]. pose proof (passD_inv sD Hi) as Hp.
    destruct (passD_ sD) as [o|sD'| |]; try discriminate.
    - intros E. injection E as <-. exists []. now rewrite app_nil_r.
    - intros E. destruct Hp as [Hi' [ext1 E1]]. destruct (IH _ _ Hi' E) as [ext2 E2].
      exists (ext1 ++ ext2). now rewrite E2, E1, app_assoc.
  Qed.

  Lemma loop_sim : forall fuel sD s oD, InvD sD -> st_sim (sd_st D sD) s -> loopD_ fuel sD = DoneD D oD ->
    exists o, loop_ (oracle_of (od_trace D oD)) fuel s = Done o /\ out_sim (od_out D oD) o.
  Proof.
    induction fuel as [|f IH]; intros sD s oD Hi Hs; [discriminate|].
    cbn [loopD loop].
    assert (Hl : length (sd_trace D sD) = c_apply (st_cnt s)).
    { destruct Hs as (_ & _ & _ & _ & Ec & _). rewrite <- Ec. exact Hi. }
    pose proof (passD_inv sD Hi) as Hp.
    pose proof (pass_sim sD s (od_trace D oD) Hs Hl) as Hq.
    destruct (passD_ sD) as [o|sD'| |]; try discriminate.
    - intros E. injection E as <-. destruct Hq as (o' & E' & Ho & _). rewrite E'. now exists o'.
    - intros E. destruct Hp as [Hi' _]. destruct Hq as [_ Hall].
      destruct (loopD_ext _ _ _ Hi' E) as [ext Eext].
      destruct (Hall ext Eext) as (s' & Ep & Hs' & _). rewrite Ep. exact (IH _ _ _ Hi' Hs' E).
  Qed.

  (* ------------------------------------------------------------------ operator() *)
  Lemma init_qub_c_apply : forall fuel i c st i' c' st',
    init_qub psi_grad_full psi_yhat lb ub l1 P fuel i c st = Some (i', c', st') -> c_apply c' = c_apply c.
  Proof.
    induction fuel as [|f IH]; intros i c st i' c' st'; cbn [init_qub];
      destruct ((iL i <? p_Lmax P) && it_qub_violated P i); try discriminate.
    - intros E. now injection E as _ <- _.
    - intros E. rewrite (IH _ _ _ _ _ _ E). apply c_apply_psih.
    - intros E. now injection E as _ <- _.
  Qed.
  Lemma init_L_c_apply : c_apply (snd (init_L psi_grad_full grad_psi P x_in)) = 0%nat.
  Proof. unfold init_L. destruct (p_L0 P <=? n0); reflexivity. Qed.

  Variable d0 : D.

  Theorem panocD_refines fuel oD : panocD_ d0 fuel = DoneD D oD ->
    exists o, panoc_ (oracle_of (od_trace D oD)) fuel = Done o /\ out_sim (od_out D oD) o.
  Proof.
    unfold panocD, panoc. pose proof init_L_c_apply as H0.
    destruct (init_L psi_grad_full grad_psi P x_in) as [i0 c0]. cbn [snd] in H0.
    destruct (negb (nfinite (iL i0))); [discriminate|].
    destruct (init_qub psi_grad_full psi_yhat lb ub l1 P ls_fuel _ (cnt_psih P c0) stats0) as [[[i3 c1] s1]|] eqn:Eq; [|discriminate].
    apply loop_sim; [|apply st_sim_refl].
    unfold InvD. cbn [sd_trace sd_st st_cnt length]. rewrite (init_qub_c_apply _ _ _ _ _ _ _ Eq), c_apply_psih. now symmetry.
  Qed.

  Lemma loopD_never_nf : forall fuel sD L, loopD_ fuel sD <> NotFiniteLD D L.
  Proof.
    induction fuel as [|f IH]; intros sD L; [discriminate|]. cbn [loopD]. destruct (passD_ sD); try discriminate. apply IH.
  Qed.
  (* the other outcomes do not depend on the provider at all *)
  Theorem panocD_notfinite fuel L O : panocD_ d0 fuel = NotFiniteLD D L -> panoc_ O fuel = NotFiniteL L.
  Proof.
    unfold panocD, panoc. destruct (init_L psi_grad_full grad_psi P x_in) as [i0 c0].
    destruct (negb (nfinite (iL i0))); [intros E; now injection E as <-|].
    destruct (init_qub psi_grad_full psi_yhat lb ub l1 P ls_fuel _ (cnt_psih P c0) stats0) as [[[i3 c1] s1]|]; [|discriminate].
    intros E. exfalso. exact (loopD_never_nf _ _ _ E).
  Qed.

  (* ------------------------------------------------------------------ the states at the top of `while (true)` *)
  Inductive reachableD : lstateD (T:=T) D -> Prop :=
  | reachD_init i0 c0 i3 c1 s1 : init_L psi_grad_full grad_psi P x_in = (i0, c0) ->
      init_qub psi_grad_full psi_yhat lb ub l1 P ls_fuel
               (eval_psih psi_grad_full psi_yhat P (eval_prox lb ub l1 (set_gamma_L i0 (p_Lgamma P / iL i0) (iL i0)))) (cnt_psih P c0) stats0
        = Some (i3, c1, s1) ->
      reachableD (mkStD D (mkSt i3 it_blank 0 0 [] c1 s1 []) d0 0 [])
  | reachD_step sD sD' : reachableD sD -> passD_ sD = PContD D sD' -> reachableD sD'.

  Lemma reachableD_inv sD : reachableD sD -> InvD sD.
  Proof.
    induction 1 as [i0 c0 i3 c1 s1 E0 Eq|sD sD' _ IH Ep].
    - unfold InvD. cbn [sd_trace sd_st st_cnt length]. rewrite (init_qub_c_apply _ _ _ _ _ _ _ Eq), c_apply_psih.
      pose proof init_L_c_apply as H0. rewrite E0 in H0. now symmetry.
    - pose proof (passD_inv sD IH) as Hp. rewrite Ep in Hp. destruct Hp as [Hp _]. exact Hp.
  Qed.

  (* ------------------------------------------------------------------ provider invariants *)
  (* a predicate on provider states that initialize establishes and every other operation preserves holds for the provider at the top
     of every pass with k > 0 (at k = 0 the pass starts with initialize), i.e. at EVERY apply / update / changed_γ / reset call *)
  Section ProviderInv.
    Variable Iv : D -> Prop.
    Hypothesis I_init : forall d y S γ x xh p g d', d_initialize D ops d y S γ x xh p g = Some d' -> Iv d'.
    Hypothesis I_update : forall d γ γn x xn p pn g gn, Iv d -> Iv (snd (d_update D ops d γ γn x xn p pn g gn)).
    Hypothesis I_apply : forall d γ x xh p g q b q' d', Iv d -> d_apply D ops d γ x xh p g q = Some (b, q', d') -> Iv d'.
    Hypothesis I_changed : forall d a b, Iv d -> Iv (d_changed_gamma D ops d a b).
    Hypothesis I_reset : forall d, Iv d -> Iv (d_reset D ops d).

    Lemma ls_loopD_I : forall fuel q ti s d rej, Iv d -> Iv (snd (fst (lsloopD fuel q ti s d rej))).
    Proof.
      induction fuel as [|f IH]; intros q ti s d rej Hd; [exact Hd|].
      cbn [ls_loopD].
      destruct (stop_req (ls_cnt s)); [exact Hd|].
      destruct (if ls_tau s =? ls_tau_prev s then _ else _) as [[curr next] c1].
      match goal with |- context [if ?c then lsloopD f q ti ?a ?b ?r else _] => destruct c end; [apply IH, I_reset, Hd|].
      match goal with |- context [if ?c then lsloopD f q ti ?a ?b ?r else _] => destruct c end; [apply IH, Hd|].
      assert (Hu : Iv (snd (if ls_upd s && negb (ls_updated s)
                           then dir_update D ops d curr (eval_psih psi_grad_full psi_yhat P (eval_prox lb ub l1 next)) else (true, d)))).
      { destruct (ls_upd s && negb (ls_updated s)); [apply I_update, Hd|exact Hd]. }
      match goal with |- context [if ?c then lsloopD f q ti ?a ?b ?r else _] => destruct c end; [apply IH, Hu|exact Hu].
    Qed.

    Lemma passD_I sD : (st_k (sd_st D sD) = 0%nat \/ Iv (sd_dir D sD)) ->
      match passD_ sD with PContD _ sD' => Iv (sd_dir D sD') | _ => True end.
    Proof.
      destruct sD as [[curr0 next0 k np q0 cnt stats log] d rej tr]. cbn [sd_st sd_dir st_k]. intros Hk.
      unfold passD. cbn [sd_st sd_dir sd_rej sd_trace st_curr st_next st_k st_np st_q st_cnt st_stats st_log].
      match goal with |- context [stop_status_helpers ?a ?b ?c ?d ?e ?f ?g ?h] => destruct (stop_status_helpers a b c d e f g h) end.
      2-8: (cbv zeta; match goal with |- context [exit_block ?a ?b ?c ?d ?e ?f ?g ?h] => destruct (exit_block a b c d e f g h) as [[xo yo] eo] end; exact I).
      set (curr := if need_gradh P && negb (ihave curr0) then eval_gradh grad_L grad_psi P curr0 else curr0).
      destruct (if (k =? 0)%nat then d_initialize D ops d y_in Σ (igam curr) (ix curr) (ixh curr) (ip curr) (igrad curr) else Some d)
        as [d1|] eqn:Ed1; [|exact I].
      assert (H1 : Iv d1).
      { destruct (Nat.eqb_spec k 0) as [Ek|Ek]; [exact (I_init _ _ _ _ _ _ _ _ _ Ed1)|].
        injection Ed1 as <-. destruct Hk as [Hk|Hk]; [contradiction|exact Hk]. }
      unfold dir_phase.
      destruct ((0 <? k)%nat || hasinit).
      - destruct (d_apply D ops d1 (igam curr) (ix curr) (ixh curr) (ip curr) (igrad curr) q0) as [[[b q'] d2]|] eqn:Ea; [|exact I].
        pose proof (I_apply _ _ _ _ _ _ _ _ _ _ H1 Ea) as H2.
        match goal with |- context [lsloopD ls_fuel ?q ?ti ?ls0 ?d3 ?r] =>
          assert (H3 : Iv d3) by (destruct (true && negb (_ =? n1)); [apply I_reset, H2|exact H2]);
          pose proof (ls_loopD_I ls_fuel q ti ls0 d3 r H3) as H4; destruct (lsloopD ls_fuel q ti ls0 d3 r) as [[lr d4] rej4] end.
        cbn [fst snd] in H4. destruct lr as [l|l|]; [|exact H4|exact I].
        destruct (ls_updated l); cbn [negb andb snd]; [exact H4|].
        apply I_update. destruct (negb (igam (ls_curr l) =? igam (ls_next l))); [apply I_changed, H4|exact H4].
      - cbn [andb].
        match goal with |- context [lsloopD ls_fuel ?q ?ti ?ls0 ?d3 ?r] =>
          pose proof (ls_loopD_I ls_fuel q ti ls0 d3 r H1) as H4; destruct (lsloopD ls_fuel q ti ls0 d3 r) as [[lr d4] rej4] end.
        cbn [fst snd] in H4. destruct lr as [l|l|]; [|exact H4|exact I].
        destruct (ls_updated l); cbn [negb andb snd]; [exact H4|].
        apply I_update. destruct (negb (igam (ls_curr l) =? igam (ls_next l))); [apply I_changed, H4|exact H4].
    Qed.
    Lemma reachableD_I sD : reachableD sD -> st_k (sd_st D sD) = 0%nat \/ Iv (sd_dir D sD).
    Proof.
      induction 1 as [i0 c0 i3 c1 s1 E0 Eq|sD sD' _ IH Ep]; [left; reflexivity|].
      right. pose proof (passD_I sD IH) as Hp. rewrite Ep in Hp. exact Hp.
    Qed.
  End ProviderInv.

End Refine.

(* ====================================================================== over R: the theorems of PanocProofs.v for every provider *)
From Coq Require Import Reals Lra.
From Flocq Require Import Raux.
From Alpaqa Require Import NumR StopChainProofs KktProofs PanocProofs.
Local Open Scope R_scope.

Section RefineR.
  Variable psi_grad_full : list R -> R * list R * list R.
  Variable psi_yhat : list R -> R * list R.
  Variable grad_L : list R -> list R -> list R.
  Variable grad_psi : list R -> list R.
  Variables (lb ub : list (option R)) (l1 : list R).
  Variable D : Type.
  Variable ops : dirops R D.
  Variable stop_req : counters -> bool.
  Variable time_up : counters -> bool.
  Variable P : params (T:=R).
  Variables (x_in y_in Σ errz_in : list R).
  Variable ls_fuel : nat.
  Variable d0 : D.

  Notation passD_ := (passD psi_grad_full psi_yhat grad_L grad_psi lb ub l1 D ops stop_req time_up P x_in y_in Σ errz_in ls_fuel).
  Notation panocD_ := (panocD psi_grad_full psi_yhat grad_L grad_psi lb ub l1 D ops stop_req time_up P x_in y_in Σ errz_in ls_fuel d0).
  Notation reachableD_ := (reachableD psi_grad_full psi_yhat grad_L grad_psi lb ub l1 D ops stop_req time_up P x_in y_in Σ errz_in ls_fuel d0).
  Notation hasinit := (d_has_initial D ops).
  Notation panoc_ O := (panoc psi_grad_full psi_yhat grad_L grad_psi lb ub l1 O hasinit stop_req time_up P x_in y_in Σ errz_in ls_fuel).
  Notation pass_ O := (pass psi_grad_full psi_yhat grad_L grad_psi lb ub l1 O hasinit stop_req time_up P x_in y_in Σ errz_in ls_fuel).
  Notation reachable_ O := (reachable psi_grad_full psi_yhat grad_L grad_psi lb ub l1 O hasinit stop_req time_up P x_in y_in Σ errz_in ls_fuel).
  Notation Consistent := (consistent psi_grad_full psi_yhat grad_L grad_psi lb ub l1 P).
  Notation Check_iterate := (check_iterate grad_L grad_psi P).
  Notation Glrel0 := (glrel0 psi_grad_full grad_psi P x_in).
  Notation Qub_ok := (qub_ok P).
  Notation Rec_ok := (rec_ok psi_grad_full psi_yhat grad_L grad_psi lb ub l1 P x_in).
  Notation Chain := (chain P).

  Lemma eq00R : (@neqb R NumR n0 n0) = true.
  Proof. cbn. apply Req_bool_iff. reflexivity. Qed.
  Lemma lt00R : (@nltb R NumR n0 n0) = false.
  Proof. cbn. apply Rlt_bool_false_iff. lra. Qed.

  (* the refinement, with the oracle spelled out *)
  Theorem panocD_refines_R fuel oD : panocD_ fuel = DoneD D oD ->
    exists (O : nat -> iterate (T:=R) -> option (list R)) o,
      (forall j it, O j it = nth j (od_trace D oD) None) /\ panoc_ O fuel = Done o /\ out_sim (od_out D oD) o.
  Proof.
    intros E. destruct (panocD_refines eq00R lt00R psi_grad_full psi_yhat grad_L grad_psi lb ub l1 D ops stop_req time_up P x_in y_in Σ errz_in ls_fuel _ _ _ E) as (o & Eo & Ho).
    exists (oracle_of (od_trace D oD)), o. split; [reflexivity|]. split; assumption.
  Qed.

  Theorem reachableD_refines sD : reachableD_ sD ->
    forall ext, exists s, reachable_ (oracle_of (sd_trace D sD ++ ext)) s /\ st_sim (sd_st D sD) s.
  Proof.
    induction 1 as [i0 c0 i3 c1 s1 E0 Eq|sD sD' Hr IH Ep]; intros ext.
    - eexists. split; [|apply st_sim_refl]. exact (reach_init psi_grad_full psi_yhat grad_L grad_psi lb ub l1 _ _ stop_req time_up P x_in y_in Σ errz_in ls_fuel _ _ _ _ _ E0 Eq).
    - pose proof (reachableD_inv eq00R lt00R psi_grad_full psi_yhat grad_L grad_psi lb ub l1 D ops stop_req time_up P x_in y_in Σ errz_in ls_fuel _ _ Hr) as Hi.
      pose proof (passD_inv eq00R lt00R psi_grad_full psi_yhat grad_L grad_psi lb ub l1 D ops stop_req time_up P x_in y_in Σ errz_in ls_fuel sD Hi) as Hp. rewrite Ep in Hp.
      destruct Hp as [_ [ext1 E1]].
      destruct (IH (ext1 ++ ext)) as (s & Hs & Hsim).
      assert (ETR : sd_trace D sD ++ ext1 ++ ext = sd_trace D sD' ++ ext) by (now rewrite E1, app_assoc).
      rewrite ETR in Hs.
      assert (Hl : length (sd_trace D sD) = c_apply (st_cnt s)).
      { destruct Hsim as (_ & _ & _ & _ & Ec & _). rewrite <- Ec. exact Hi. }
      pose proof (pass_sim eq00R lt00R psi_grad_full psi_yhat grad_L grad_psi lb ub l1 D ops stop_req time_up P x_in y_in Σ errz_in ls_fuel sD s (sd_trace D sD' ++ ext) Hsim Hl) as Hq.
      rewrite Ep in Hq. destruct Hq as [_ Hall]. destruct (Hall ext eq_refl) as (s' & Eps & Hs' & _).
      exists s'. split; [|exact Hs']. exact (reach_step psi_grad_full psi_yhat grad_L grad_psi lb ub l1 _ _ stop_req time_up P x_in y_in Σ errz_in ls_fuel _ _ Hs Eps).
  Qed.

  (* (a)+(b)+(c)+(e) at every stop check of PANOC with ANY provider *)
  Theorem panocD_check sD : reachableD_ sD ->
    let s := sd_st D sD in
    Consistent (Check_iterate s) /\ Qub_ok (Check_iterate s) /\ Glrel0 (Check_iterate s) /\
    (need_gradh P = true -> ihave (Check_iterate s) = true) /\ (st_k s <= p_max_iter P)%nat.
  Proof.
    intros Hr. destruct (reachableD_refines sD Hr []) as (s' & Hs' & (E1 & _ & E3 & _)).
    pose proof (reachable_check psi_grad_full psi_yhat grad_L grad_psi lb ub l1 _ _ stop_req time_up P x_in y_in Σ errz_in ls_fuel s' Hs') as Hc.
    cbv zeta. unfold check_iterate in *. rewrite E1, E3. exact Hc.
  Qed.

  (* records / chains do not read q *)
  Lemma rec_ok_sim (r r' : cbrec (T:=R)) : cb_sim r r' -> Rec_ok r' -> Rec_ok r.
  Proof. intros (E1 & E2 & _ & _ & E5 & _). unfold rec_ok. now rewrite E1, E2, E5. Qed.
  Lemma link_sim (r r' : cbrec (T:=R)) k c : cb_sim r r' -> link P r' k c -> link P r k c.
  Proof. intros (E1 & E2 & E3 & _ & E5 & _). unfold link. now rewrite E1, E2, E3, E5. Qed.
  Lemma chain_sim : forall l l' : list (cbrec (T:=R)), Forall2 cb_sim l l' -> Chain l' -> Chain l.
  Proof.
    induction 1 as [|r r' l l' Hr Hl IH]; [trivial|]. cbn [chain]. intros [H1 H2]. split; [|exact (IH H2)].
    destruct Hl as [|r0 r0' l0 l0' Hr0 _]; [exact I|]. unfold desc in *.
    destruct Hr as (E1 & E2 & _). rewrite E1, E2. now apply (link_sim _ _ _ _ Hr0).
  Qed.

  Theorem panocD_records fuel oD : panocD_ fuel = DoneD D oD ->
    let o := od_out D oD in Forall Rec_ok (out_log o) /\ Chain (rev (out_log o)).
  Proof.
    intros E. destruct (panocD_refines_R fuel oD E) as (O & o & _ & Eo & Ho). cbv zeta.
    destruct (panoc_records psi_grad_full psi_yhat grad_L grad_psi lb ub l1 _ _ stop_req time_up P x_in y_in Σ errz_in ls_fuel fuel o Eo) as (A & B & _).
    destruct Ho as (_ & _ & _ & _ & _ & _ & _ & _ & _ & Hl). split.
    - clear B. induction Hl as [|r r' l l' Hr _ IH]; constructor; [inversion A; subst; now apply (rec_ok_sim _ _ Hr)|apply IH; now inversion A].
    - apply (chain_sim _ (rev (out_log o))); [|exact B].
      clear A B. induction Hl as [|r r' l l' Hr _ IH]; [constructor|]. cbn [rev]. apply Forall2_app; [exact IH|]. constructor; [exact Hr|constructor].
  Qed.

  Theorem panocD_status_clauses fuel oD : panocD_ fuel = DoneD D oD ->
    let o := od_out D oD in
    (out_iterations o <= p_max_iter P)%nat /\
    out_status o <> StBusy /\
    (out_status o = StMaxIter -> out_iterations o = p_max_iter P) /\
    (out_status o = StConverged <-> out_eps o <= eff_tol (o_tol P)) /\
    (out_status o = StInterrupted -> exists c, stop_req c = true) /\
    (out_status o = StMaxTime -> exists c, time_up c = true) /\
    (out_status o = StNoProgress -> exists np, (p_max_no_progress P < np)%nat).
  Proof.
    intros E. destruct (panocD_refines_R fuel oD E) as (O & o & _ & Eo & (E1 & E2 & E3 & _)). cbv zeta.
    rewrite E1, E2, E3. exact (panoc_status_clauses psi_grad_full psi_yhat grad_L grad_psi lb ub l1 _ _ stop_req time_up P x_in y_in Σ errz_in ls_fuel fuel o Eo).
  Qed.

  Theorem panocD_exit fuel oD : panocD_ fuel = DoneD D oD ->
    let o := od_out D oD in
    exists cf : iterate (T:=R), Consistent cf /\ Qub_ok cf /\ Glrel0 cf /\ (need_gradh P = true -> ihave cf = true) /\
      out_eps o = it_eps lb ub l1 P cf /\
      (overwrites (out_status o) (o_always P) = true ->
         out_x o = ixh cf /\ ixh cf = vadd (ix cf) (ip cf) /\
         out_y o = snd (psi_yhat (out_x o)) /\
         out_errz o = match errz_in with [] => [] | _ => vdiv (vsub (out_y o) y_in) Σ end) /\
      (overwrites (out_status o) (o_always P) = false -> out_x o = x_in /\ out_y o = y_in /\ out_errz o = errz_in).
  Proof.
    intros E. destruct (panocD_refines_R fuel oD E) as (O & o & _ & Eo & (E1 & _ & E3 & E4 & E5 & E6 & _)). cbv zeta.
    rewrite E1, E3, E4, E5, E6. exact (panoc_exit psi_grad_full psi_yhat grad_L grad_psi lb ub l1 _ _ stop_req time_up P x_in y_in Σ errz_in ls_fuel fuel o Eo).
  Qed.

  Theorem panocD_inner_contract fuel oD : panocD_ fuel = DoneD D oD ->
    let o := od_out D oD in
    out_status o = StConverged -> p_crit P = ApproxKKT -> l1 = [] ->
    exists (x grad gradh : list R) (γ : R),
      let step := proj_grad_step lb ub γ x grad in
      out_x o = fst (fst step) /\
      out_y o = snd (psi_yhat (out_x o)) /\
      is_gradh psi_grad_full grad_L grad_psi P (out_x o) (snd (psi_hat_of psi_grad_full psi_yhat P (out_x o))) gradh /\
      out_errz o = match errz_in with [] => [] | _ => vdiv (vsub (out_y o) y_in) Σ end /\
      out_eps o = vnorminf (kkt_residual γ (snd (fst step)) grad gradh) /\
      out_eps o <= eff_tol (o_tol P) /\
      (exists ψ, val_x psi_grad_full psi_yhat grad_L grad_psi P x ψ grad) /\
      (0 < p_Lgamma P -> 0 < L_init psi_grad_full grad_psi P x_in -> 0 < γ) /\
      (L_init psi_grad_full grad_psi P x_in <> 0 -> exists L, γ * L = p_Lgamma P).
  Proof.
    intros E. destruct (panocD_refines_R fuel oD E) as (O & o & _ & Eo & (E1 & _ & E3 & E4 & E5 & E6 & _)). cbv zeta.
    rewrite E1, E3, E4, E5, E6. exact (panoc_inner_contract psi_grad_full psi_yhat grad_L grad_psi lb ub l1 _ _ stop_req time_up P x_in y_in Σ errz_in ls_fuel fuel o Eo).
  Qed.
End RefineR.
