(* PanocLive.v — LIVENESS of the whole-loop PANOC model (Panoc.v) over R: for EVERY direction-provider oracle, under a global quadratic
   upper bound on ψ (constant Lf <= L_max), ψ bounded below on C, coherent problem oracles, tolerance factors 0 and no stop request /
   time-out, the run returns Converged after at most N iterations, N explicit.  (C02) *)
From Coq Require Import Reals List ZArith Lra Lia Bool Arith Psatz.
From Flocq Require Import Raux.
From Alpaqa Require Import Num NumR Vec Prox ProxProofs ProxVec SolverStatus SolverKernels SolverKernelsProofs DescentProofs
                           StopChain StopChainProofs LoopSkeleton KktProofs Panoc PanocProofs LiveVec.
Import ListNotations.
Local Open Scope R_scope.

Section Live.
  (* ---- the outside world (oracles) *)
  Variable psi_grad_full : list R -> R * list R * list R.
  Variable psi_yhat : list R -> R * list R.
  Variable grad_L : list R -> list R -> list R.
  Variable grad_psi : list R -> list R.
  Variables (lb ub : list (option R)).
  Variable dir_apply : nat -> iterate (T:=R) -> option (list R).      (* ARBITRARY *)
  Variable has_initial : bool.
  Variable P : params (T:=R).
  Variables (x_in y_in Σ errz_in : list R).
  Variable ls_fuel : nat.

  Notation l1 := (@nil R).
  Notation never := (fun _ : counters => false).
  Notation PP f := (f psi_grad_full psi_yhat grad_L grad_psi lb ub l1 dir_apply has_initial never never P x_in y_in Σ errz_in ls_fuel).

  Notation it := (iterate (T:=R)).
  Notation eprox := (eval_prox lb ub l1).
  Notation epsih := (eval_psih psi_grad_full psi_yhat P).
  Notation egradh := (eval_gradh grad_L grad_psi P).
  Notation lsloop := (ls_loop psi_grad_full psi_yhat grad_L grad_psi lb ub l1 never P).
  Notation pass_ := (pass psi_grad_full psi_yhat grad_L grad_psi lb ub l1 dir_apply has_initial never never P x_in y_in Σ errz_in ls_fuel).
  Notation loop_ := (loop psi_grad_full psi_yhat grad_L grad_psi lb ub l1 dir_apply has_initial never never P x_in y_in Σ errz_in ls_fuel).
  Notation panoc_ := (panoc psi_grad_full psi_yhat grad_L grad_psi lb ub l1 dir_apply has_initial never never P x_in y_in Σ errz_in ls_fuel).
  Notation pgrad := (psi_grad psi_grad_full).
  Notation qubv := (it_qub_violated P).
  Notation eps_of := (it_eps lb ub l1 P).
  Notation Consistent := (consistent psi_grad_full psi_yhat grad_L grad_psi lb ub l1 P).
  Notation Glrel0 := (glrel0 psi_grad_full grad_psi P x_in).
  Notation Qub_ok := (qub_ok P).
  Notation Linit := (L_init psi_grad_full grad_psi P x_in).
  Notation Inv_ := (Inv psi_grad_full psi_yhat grad_L grad_psi lb ub l1 P x_in).
  Notation check_it := (check_iterate grad_L grad_psi P).

  (* ---- the problem: ψ and ∇ψ as mathematical functions the oracles are coherent with *)
  Variables (ψ : list R -> R) (g : list R -> list R) (n : nat) (Lf ψinf : R).
  Hypothesis Hpsi : forall x, pgrad x = (ψ x, g x).
  Hypothesis Hco : coherent psi_grad_full psi_yhat grad_L grad_psi P.
  Hypothesis Hglen : forall x, length x = n -> length (g x) = n.
  (* global quadratic upper bound (descent lemma), written with the displacement d = v - u *)
  Hypothesis Hqub : forall u d, length u = n -> length d = n ->
    ψ (vadd u d) <= ψ u + vdot (g u) d + Lf / 2 * vsqnorm d.
  Hypothesis Hinf : forall z, all_in_box lb ub z -> ψinf <= ψ z.
  Hypothesis Hlb : length lb = n.
  Hypothesis Hub : length ub = n.
  Hypothesis Hne : Forall2 box_ne lb ub.
  Hypothesis Hxin : length x_in = n.
  (* the direction provider returns vectors of the problem's dimension (its VALUES are arbitrary) *)
  Hypothesis Hdir : forall j i q, dir_apply j i = Some q -> length q = n.

  (* ---- parameters *)
  Hypothesis HLg : 0 < p_Lgamma P < 1.
  Hypothesis HL0 : 0 < Linit.
  Hypothesis HLmax : Lf <= p_Lmax P.
  Hypothesis Hqt : p_qub_tol P = 0.
  Hypothesis Hlt : p_ls_tol P = 0.
  Hypothesis Hbeta : 0 < p_beta P <= 1.
  Hypothesis Hforce : p_force_ls P = false.

  Definition Lbar : R := Rmax Linit (2 * Lf).
  Definition gam0 : R := p_Lgamma P / Linit.
  Definition gam_min : R := p_Lgamma P / Lbar.
  Definition cmin : R := p_beta P * (1 - p_Lgamma P) / (2 * gam0).
  Definition tol : R := eff_tol (o_tol P).

  Lemma Lbar_pos : 0 < Lbar.
  Proof. unfold Lbar. pose proof (Rmax_l Linit (2 * Lf)). lra. Qed.
  Lemma gam0_pos : 0 < gam0.
  Proof. unfold gam0. apply Rdiv_lt_0_compat; lra. Qed.
  Lemma gam_min_pos : 0 < gam_min.
  Proof. unfold gam_min. apply Rdiv_lt_0_compat; [lra|apply Lbar_pos]. Qed.
  Lemma cmin_pos : 0 < cmin.
  Proof.
    unfold cmin. pose proof gam0_pos. apply Rdiv_lt_0_compat; [|lra].
    apply Rmult_lt_0_compat; lra.
  Qed.
  Lemma tol_pos : 0 < tol.
  Proof.
    unfold tol, eff_tol. change (@nltb R NumR) with Rlt_bool. change (@n0 R NumR) with 0.
    destruct (Rlt_bool_spec 0 (o_tol P)); [assumption|].
    unfold default_tolerance_helpers. numR. change (10 ^ 8)%Z with 100000000%Z. simpl IZR. lra.
  Qed.

  (* ------------------------------------------------------------------ what a consistent iterate of the right length is *)
  Record facts (i : it) : Prop := {
    f_psi : ipsi i = ψ (ix i);
    f_grad : igrad i = g (ix i);
    f_step : proj_grad_step lb ub (igam i) (ix i) (g (ix i)) = (ixh i, ip i, ih i);
    f_lenp : length (ip i) = n;
    f_lenxh : length (ixh i) = n;
    f_xh : ixh i = vadd (ix i) (ip i);
    f_psih : ipsih i = ψ (ixh i);
    f_pp : ipp i = vsqnorm (ip i);
    f_gp : igp i = vdot (g (ix i)) (ip i);
    f_h : ih i = 0;
    f_box : all_in_box lb ub (ixh i) }.

  Lemma consistent_facts (i : it) : Consistent i -> length (ix i) = n -> facts i.
  Proof.
    intros Hc Hl.
    destruct (PP consistent_coherent i Hco Hc) as [E1 _]. rewrite Hpsi in E1. inversion E1 as [[Ep Eg]].
    destruct (PP consistent_explicit i Hc) as (X1 & X2 & X3 & X4 & X5 & _).
    cbn [eval_prox_grad_step] in X2. rewrite Eg in X2.
    pose proof (proj_grad_step_length lb ub (igam i) (ix i) (g (ix i)) n Hlb Hub Hl (Hglen _ Hl)) as [L1 L2].
    rewrite X2 in L1, L2. cbn [fst snd] in L1, L2.
    constructor; try assumption.
    - destruct (Hco (ixh i)) as [E _]. rewrite Hpsi, <- X5 in E. cbn [fst snd] in E. inversion E. reflexivity.
    - rewrite X4, Eg. apply (PP vdot_comm).
    - pose proof (f_equal snd X2) as Hh. unfold proj_grad_step in Hh. cbn [snd] in Hh. now symmetry.
    - pose proof (PP proj_step_all_in_box (igam i) lb ub (ix i) (g (ix i)) ltac:(lia) ltac:(lia) ltac:(rewrite Hglen; lia) Hne) as Hb.
      rewrite X2 in Hb. exact Hb.
  Qed.

  Lemma fbe_facts (i : it) : facts i -> it_fbe i = ψ (ix i) + ipp i / (2 * igam i) + igp i.
  Proof. intros F. unfold it_fbe, fbe. rewrite (f_psi i F), (f_h i F). numR. rewrite ?one_plus_one. lra. Qed.

  (* (1) a violated QUB test means L < Lf *)
  Lemma qub_violated_small_L (i : it) : facts i -> length (ix i) = n -> qubv i = true -> iL i < Lf.
  Proof.
    intros F Hl Hv. unfold it_qub_violated, qub_violated, qub_rhs, nhalf1 in Hv. rewrite Hqt in Hv.
    change (@nltb R NumR) with Rlt_bool in Hv. apply Rlt_bool_iff in Hv. numR. rewrite ?one_plus_one in Hv.
    pose proof (Hqub (ix i) (ip i) Hl (f_lenp i F)) as Hq.
    rewrite <- (f_xh i F), <- (f_psih i F), <- (f_gp i F), <- (f_pp i F), <- (f_psi i F) in Hq.
    pose proof (vsqnorm_nonneg (ip i)) as Hp. rewrite <- (f_pp i F) in Hp.
    set (pp := ipp i) in *. set (L := iL i) in *. clearbody pp L.
    assert (L * pp < Lf * pp) by lra. nra.
  Qed.
  Lemma qub_ok_not_violated (i : it) : facts i -> length (ix i) = n -> Qub_ok i -> qubv i = false.
  Proof.
    intros F Hl Hq. destruct (qubv i) eqn:Ev; [|reflexivity]. exfalso.
    pose proof (qub_violated_small_L i F Hl Ev) as HL.
    unfold qub_ok in Hq. rewrite Ev, andb_true_r in Hq. apply Rlt_bool_false_iff in Hq. lra.
  Qed.
  Lemma not_violated_explicit (i : it) : qubv i = false -> ipsih i <= ipsi i + igp i + iL i / 2 * ipp i.
  Proof.
    intros Hv. unfold it_qub_violated, qub_violated, qub_rhs, nhalf1 in Hv. rewrite Hqt in Hv.
    change (@nltb R NumR) with Rlt_bool in Hv. apply Rlt_bool_false_iff in Hv. numR. rewrite ?one_plus_one in Hv. lra.
  Qed.

  (* (3) the envelope is bounded below by ψ(x̂) >= ψinf *)
  Lemma fbe_lower (i : it) : facts i -> qubv i = false -> 0 < igam i -> igam i * iL i = p_Lgamma P -> ψinf <= it_fbe i.
  Proof.
    intros F Hv Hg HgL. rewrite (fbe_facts i F).
    pose proof (not_violated_explicit i Hv) as Hq. rewrite (f_psih i F), (f_psi i F) in Hq.
    pose proof (Hinf _ (f_box i F)) as Hi.
    pose proof (vsqnorm_nonneg (ip i)) as Hp. rewrite <- (f_pp i F) in Hp.
    assert (Hh : iL i / 2 * ipp i <= ipp i / (2 * igam i)).
    { assert (E : ipp i / (2 * igam i) - iL i / 2 * ipp i = (1 - igam i * iL i) / (2 * igam i) * ipp i) by (field; lra).
      assert (0 <= (1 - igam i * iL i) / (2 * igam i)) by (rewrite HgL; apply Rlt_le, Rdiv_lt_0_compat; lra).
      assert (0 <= (1 - igam i * iL i) / (2 * igam i) * ipp i) by (apply Rmult_le_pos; assumption). lra. }
    lra.
  Qed.

  (* FBE monotone in γ: same point, smaller step size => larger envelope *)
  Lemma fbe_mono (a b : it) : facts a -> facts b -> ix a = ix b -> length (ix a) = n -> 0 < igam b <= igam a -> it_fbe a <= it_fbe b.
  Proof.
    intros Fa Fb Ex Hl [Hb Hab]. rewrite (fbe_facts a Fa), (fbe_facts b Fb).
    pose proof (prox_terms_mono lb ub (igam a) (igam b) (ix a) (g (ix a)) Hb Hab ltac:(lia) ltac:(lia) ltac:(rewrite Hglen; lia) Hne) as Hm.
    cbv zeta in Hm. rewrite (f_step a Fa) in Hm. rewrite Ex in Hm at 3 4 5 6. rewrite (f_step b Fb) in Hm. cbn [fst snd] in Hm.
    rewrite (f_pp a Fa), (f_gp a Fa), (f_pp b Fb), (f_gp b Fb), <- Ex. lra.
  Qed.

  (* ------------------------------------------------------------------ line search: L stays below max(L_init, 2 Lf) *)
  Notation LsI_ := (LsI psi_grad_full psi_yhat grad_L grad_psi lb ub l1 P).
  Notation LsPost_ := (LsPost psi_grad_full psi_yhat grad_L grad_psi lb ub l1 P).

  Lemma iL_halve_it (i : it) : iL (halve_it i) = 2 * iL i.
  Proof. unfold halve_it, halve_step, set_gamma_L. cbn [iL snd fst]. cbv [n2 nmul nadd n1 NumR]. lra. Qed.
  Lemma ix_halve_it (i : it) : ix (halve_it i) = ix i.
  Proof. reflexivity. Qed.

  Record LsI2 (c0 : it) (τi : R) (s : ls_state (T:=R)) : Prop := {
    l2_I : LsI_ c0 s;
    l2_L : iL (ls_next s) <= Lbar;
    l2_len : ls_tau s = ls_tau_prev s -> length (ix (ls_next s)) = n;
    l2_tau : τi = 0 -> ls_tau s = 0;
    l2_nonneg : 0 <= ls_tau s }.

  Hypothesis Hfac0 : 0 <= p_tau_factor P.

  Lemma ls_invariant2 c0 q τi : length (ix c0) = n -> iL c0 <= Lbar -> (τi <> 0 -> length q = n) -> 0 <= τi ->
    forall fuel s, LsI2 c0 τi s ->
    match lsloop fuel q τi s with
    | LsDone s' => LsPost_ c0 s' /\ iL (ls_next s') <= Lbar /\ length (ix (ls_next s')) = n /\ 0 <= ls_tau s'
    | LsStopped s' => False
    | LsFuel => True
    end.
  Proof.
    intros Hl0 HL0' Hq Hτi.
    induction fuel as [|fuel IH]; intros s [HI HL2 Hlen2 Htau2 Hnn]; [exact I|].
    cbn [ls_loop].
    change (@nltb R NumR) with Rlt_bool. change (@neqb R NumR) with Req_bool. change (@nleb R NumR) with Rle_bool.
    change (@n0 R NumR) with 0. change (@n1 R NumR) with 1.
    set (τ := ls_tau s) in *.
    assert (Hcurr0 : ix (ls_curr s) = ix c0 /\ iL (ls_curr s) = iL c0).
    { destruct HI as [_ Hco' _ _]. apply (PP core_fields) in Hco'. tauto. }
    assert (Fcurr : facts (ls_curr s)).
    { apply consistent_facts; [apply HI|]. destruct Hcurr0 as [E _]. now rewrite E. }
    set (ph := if Req_bool τ (ls_tau_prev s) then (ls_curr s, ls_next s, inc_polls (ls_cnt s))
               else if Req_bool τ 0 then take_safe_step grad_L grad_psi P (ls_curr s) (ls_next s) (inc_polls (ls_cnt s))
               else (ls_curr s, take_accel_step psi_grad_full τ q (ls_curr s) (ls_next s), inc_pg (inc_polls (ls_cnt s)))).
    assert (F : Consistent (fst (fst ph)) /\ core (fst (fst ph)) = core c0 /\ halved c0 (snd (fst ph)) /\
                cons_x psi_grad_full psi_yhat grad_L grad_psi P (snd (fst ph)) /\ (τ = 0 -> safe_of c0 (snd (fst ph))) /\
                iL (snd (fst ph)) <= Lbar /\ length (ix (snd (fst ph))) = n).
    { subst ph. destruct HI as [Hc Hco' Hgl HJ]. destruct (Req_bool_spec τ (ls_tau_prev s)) as [Et|Et].
      - cbn [fst snd]. destruct (HJ Et) as [Hx Hs]. split; [exact Hc|]. split; [exact Hco'|]. split; [exact Hgl|]. split; [exact Hx|]. split; [exact Hs|]. split; [exact HL2|exact (Hlen2 Et)].
      - destruct (Req_bool_spec τ 0) as [E0|E0].
        + pose proof (PP safe_step_facts (ls_curr s) (ls_next s) (inc_polls (ls_cnt s)) Hc) as Hf. cbv zeta in Hf.
          destruct Hf as (H1 & H2 & H3 & H4 & H5 & H6 & H7).
          split; [exact H1|]. split; [now rewrite H2|]. split.
          { destruct Hgl as [j Ej]. exists j. unfold gl_of in *. now rewrite H6, H7. }
          split; [exact H3|]. split.
          { intros _. apply (PP core_fields) in Hco'. unfold safe_of. rewrite H4, H5. split; tauto. }
          split; [now rewrite H7|]. rewrite H4. apply (f_lenxh _ Fcurr).
        + cbn [fst snd]. destruct (PP accel_step_facts τ q (ls_curr s) (ls_next s)) as (H1 & H2 & H3).
          split; [exact Hc|]. split; [exact Hco'|]. split.
          { destruct Hgl as [j Ej]. exists j. unfold gl_of in *. now rewrite H2, H3. }
          split; [exact H1|]. split; [intros E; contradiction|]. split; [now rewrite H3|].
          unfold take_accel_step, eval_psi_grad. cbn [ix].
          apply panoc_candidate_length; [destruct Hcurr0 as [E _]; now rewrite E|apply (f_lenp _ Fcurr)|].
          apply Hq. intros Ei. apply E0. now apply Htau2. }
    destruct ph as [[curr next] c1]. cbn [fst snd] in F. destruct F as (Fc & Fco & Fgl & Fx & Fs & FL & Flen).
    (* fail branch *)
    match goal with |- context [if ?b then lsloop fuel q τi ?s1 else _] => destruct b eqn:Efail; [apply (IH s1)|] end.
    { assert (Hpos : 0 < τ) by (apply andb_prop in Efail; destruct Efail as [Hpos _]; now apply Rlt_bool_iff in Hpos).
      constructor; [constructor|..]; cbn [ls_curr ls_next ls_tau ls_tau_prev].
      - exact Fc.
      - exact Fco.
      - apply (PP core_fields) in Fco. exists 0%nat. unfold gl_of, set_gamma_L; cbn [igam iL halve_n]. f_equal; tauto.
      - intros E0. exfalso. lra.
      - unfold set_gamma_L; cbn [iL]. apply (PP core_fields) in Fco. replace (iL curr) with (iL c0) by (symmetry; tauto). exact HL0'.
      - intros E0. exfalso. lra.
      - reflexivity.
      - lra. }
    set (next1 := epsih (eprox next)).
    assert (N1 : Consistent next1 /\ gl_of next1 = gl_of next /\ ix next1 = ix next /\ ipsi next1 = ipsi next /\ igrad next1 = igrad next).
    { subst next1. destruct (PP eprox_cons next Fx) as [Hx Hs]. split; [apply (PP epsih_cons); assumption|].
      destruct (PP epsih_fields (eprox next)) as (E1 & E2 & E3 & E4 & E5 & E6 & E7 & _).
      unfold gl_of. rewrite E6, E7, E1, E5, E3. repeat split. }
    destruct N1 as (Nc & Ngl & Nx & Npsi & Ngr).
    assert (Fx1 : cons_x psi_grad_full psi_yhat grad_L grad_psi P next1) by apply Nc.
    assert (Fs1 : τ = 0 -> safe_of c0 next1).
    { intros E. destruct (Fs E) as [A B]. unfold safe_of. now rewrite Nx, Npsi. }
    assert (Fgl1 : halved c0 next1).
    { destruct Fgl as [j Ej]. exists j. now rewrite Ngl. }
    assert (NL : iL next1 = iL next) by (unfold gl_of in Ngl; inversion Ngl; reflexivity).
    assert (Nlen : length (ix next1) = n) by (now rewrite Nx).
    assert (Fn1 : facts next1) by (apply consistent_facts; assumption).
    (* QUB branch *)
    match goal with |- context [if ?b then lsloop fuel q τi ?s1 else _] => destruct b eqn:Equb; [apply (IH s1)|] end.
    { constructor; [constructor|..]; cbn [ls_curr ls_next ls_tau ls_tau_prev].
      - exact Fc.
      - exact Fco.
      - apply (PP halved_step c0 next1 Fgl1). apply (PP halve_it_gl).
      - intros E. split; [exact Fx1|]. intros E0. destruct (Rlt_bool_spec 0 τ) as [Hp|Hp].
        + exfalso. lra.
        + apply Fs1. exact E0.
      - apply andb_prop in Equb. destruct Equb as [_ Hv].
        pose proof (qub_violated_small_L next1 Fn1 Nlen Hv) as Hs. rewrite iL_halve_it.
        unfold Lbar. pose proof (Rmax_r Linit (2 * Lf)). lra.
      - intros _. rewrite ix_halve_it. exact Nlen.
      - intros Ei. destruct (Rlt_bool_spec 0 τ) as [Hp|Hp]; [exact Ei|]. now apply Htau2.
      - destruct (Rlt_bool_spec 0 τ) as [Hp|Hp]; [exact Hτi|exact Hnn]. }
    (* line-search branch *)
    match goal with |- context [if ?b then lsloop fuel q τi ?s1 else LsDone ?s2] => destruct b eqn:Els; [apply (IH s1)|] end.
    { assert (Hpos : 0 < τ) by (apply andb_prop in Els; destruct Els as [Hpos _]; now apply Rlt_bool_iff in Hpos).
      constructor; [constructor|..]; cbn [ls_curr ls_next ls_tau ls_tau_prev].
      - exact Fc.
      - exact Fco.
      - exact Fgl1.
      - intros E. split; [exact Fx1|]. intros E0. apply Fs1. exfalso. lra.
      - now rewrite NL.
      - intros _. exact Nlen.
      - intros Ei. exfalso. specialize (Htau2 Ei). lra.
      - change (@nmul R NumR) with Rmult. destruct (Rlt_bool_spec (τ * p_tau_factor P) (p_tau_min P)); [lra|nra]. }
    split; [|split; [|split]; cbn [ls_next ls_tau]; [now rewrite NL|exact Nlen|exact Hnn]].
    constructor; cbn [ls_curr ls_next ls_tau ls_tau_prev].
    - exact Fc.
    - exact Fco.
    - exact Nc.
    - exact Fgl1.
    - exact Equb.
    - intros Hp. rewrite Hp in Els. exact Els.
    - exact Fs1.
  Qed.

  (* ------------------------------------------------------------------ good iterates *)
  Record good (i : it) : Prop := {
    g_facts : facts i; g_qub : Qub_ok i; g_gl : Glrel0 i; g_len : length (ix i) = n; g_L : iL i <= Lbar }.

  Lemma good_facts i : good i -> facts i.
  Proof. intros G. apply G. Qed.
  Lemma good_nv i : good i -> qubv i = false.
  Proof. intros G. apply qub_ok_not_violated; [now apply good_facts|apply G|apply G]. Qed.
  Lemma good_gam i : good i -> 0 < igam i /\ igam i * iL i = p_Lgamma P /\ igam i <= gam0 /\ gam_min <= igam i.
  Proof.
    intros G. pose proof (PP glrel0_pos i ltac:(lra) HL0 (g_gl i G)) as Hp.
    pose proof (PP glrel0_product_factor i ltac:(lra) (g_gl i G)) as Hpr.
    split; [exact Hp|]. split; [exact Hpr|]. split.
    - destruct (g_gl i G) as [j Ej]. pose proof (halve_n_nonincreasing j (p_Lgamma P / Linit) Linit gam0_pos) as Hn.
      change (p_Lgamma P / Linit, Linit) with (gl0 psi_grad_full grad_psi P x_in) in Hn. rewrite <- Ej in Hn.
      unfold gl_of in Hn. cbn [fst] in Hn. unfold gam0. lra.
    - pose proof (g_L i G) as HL. pose proof Lbar_pos as HB.
      assert (HLp : 0 < iL i) by nra.
      unfold gam_min. apply Rmult_le_reg_r with Lbar; [exact HB|].
      unfold Rdiv. rewrite Rmult_assoc, Rinv_l by lra. rewrite Rmult_1_r. rewrite <- Hpr. nra.
  Qed.

  (* (2) sufficient decrease *)
  Lemma cmin_le i : good i -> cmin <= p_beta P * (1 - igam i * iL i) / (2 * igam i).
  Proof.
    intros G. destruct (good_gam i G) as (Hp & Hpr & Hle & _). rewrite Hpr. unfold cmin.
    pose proof gam0_pos as H0.
    assert (Hn : 0 <= p_beta P * (1 - p_Lgamma P)) by (apply Rmult_le_pos; lra).
    unfold Rdiv. apply Rmult_le_compat_l; [exact Hn|]. apply Rinv_le_contravar; lra.
  Qed.

  Lemma safe_descent (a b : it) : good a -> facts b -> ix b = ixh a -> 0 < igam b ->
    it_fbe b <= it_fbe a - (1 - igam a * iL a) / (2 * igam a) * ipp a.
  Proof.
    intros Ga Fb Ex Hgb. pose proof (good_facts a Ga) as Fa. destruct (good_gam a Ga) as (Hga & _).
    rewrite (fbe_facts b Fb), (fbe_facts a Fa).
    pose proof (not_violated_explicit a (good_nv a Ga)) as Hq. rewrite (f_psih a Fa), (f_psi a Fa) in Hq.
    pose proof (prox_step_terms_nonpos lb ub (igam b) (ix b) (g (ix b)) Hgb) as Ht.
    assert (Hlb' : length (ix b) = n) by (rewrite Ex; apply (f_lenxh a Fa)).
    specialize (Ht ltac:(lia) ltac:(lia) ltac:(rewrite Hglen; lia) ltac:(rewrite Ex; apply (f_box a Fa))).
    cbv zeta in Ht. rewrite (f_step b Fb) in Ht. cbn [fst snd] in Ht. rewrite <- (f_pp b Fb), <- (f_gp b Fb) in Ht.
    rewrite Ex.
    replace (ψ (ix a) + ipp a / (2 * igam a) + igp a - (1 - igam a * iL a) / (2 * igam a) * ipp a)
      with (ψ (ix a) + igp a + iL a / 2 * ipp a) by (field; lra).
    lra.
  Qed.

  Lemma iteration_descent (c0 : it) (l : ls_state (T:=R)) : good c0 -> LsPost_ c0 l -> length (ix (ls_next l)) = n -> 0 <= ls_tau l ->
    it_fbe (ls_next l) <= it_fbe c0 - cmin * ipp c0.
  Proof.
    intros G [Lc Lco Ln Lgl Lq Lls Lsafe] Hlen Hnn. pose proof (good_facts c0 G) as F0.
    destruct (good_gam c0 G) as (Hg0 & Hpr & _).
    pose proof (cmin_le c0 G) as Hcm.
    pose proof (vsqnorm_nonneg (ip c0)) as Hpp. rewrite <- (f_pp c0 F0) in Hpp.
    destruct (Rle_lt_or_eq_dec _ _ Hnn) as [Hpos|H0].
    - (* accelerated step accepted by the line-search test *)
      assert (Hb : Rlt_bool 0 (ls_tau l) = true) by (now apply Rlt_bool_iff).
      specialize (Lls Hb). rewrite (PP ls_violated_core (ls_curr l) c0 (ls_next l) (ls_next l) Lco eq_refl) in Lls.
      unfold it_ls_violated in Lls. rewrite Hforce in Lls. apply ls_accept_descent in Lls. rewrite Hlt in Lls.
      set (σ := p_beta P * (1 - igam c0 * iL c0) / (2 * igam c0)) in *. clearbody σ. nra.
    - (* safeguarded step *)
      symmetry in H0. destruct (Lsafe H0) as [Sx Sp].
      pose proof (PP halved_nonincreasing c0 (ls_next l) Lgl Hg0) as [Hgn _].
      pose proof (safe_descent c0 (ls_next l) G (consistent_facts _ Ln Hlen) Sx Hgn) as Hd.
      assert (Hb1 : p_beta P * (1 - igam c0 * iL c0) / (2 * igam c0) <= (1 - igam c0 * iL c0) / (2 * igam c0)).
      { rewrite Hpr. unfold Rdiv. rewrite Rmult_assoc.
        assert (0 <= (1 - p_Lgamma P) * / (2 * igam c0)).
        { apply Rmult_le_pos; [lra|]. apply Rlt_le, Rinv_0_lt_compat. lra. }
        nra. }
      set (σ := p_beta P * (1 - igam c0 * iL c0) / (2 * igam c0)) in *.
      set (σ1 := (1 - igam c0 * iL c0) / (2 * igam c0)) in *. clearbody σ σ1. nra.
  Qed.

  (* the next iterate is good again *)
  Lemma iteration_good (c0 : it) (l : ls_state (T:=R)) : good c0 -> LsPost_ c0 l -> length (ix (ls_next l)) = n -> iL (ls_next l) <= Lbar ->
    good (ls_next l).
  Proof.
    intros G [Lc Lco Ln Lgl Lq Lls Lsafe] Hlen HL. constructor; try assumption.
    - now apply consistent_facts.
    - apply (PP glrel0_halved c0); [apply G|exact Lgl].
  Qed.

  (* x_{k+1} = x_k at a completed iteration forces p_k = 0 *)
  Lemma same_x_forces_zero_step (c0 : it) (l : ls_state (T:=R)) : good c0 -> LsPost_ c0 l -> length (ix (ls_next l)) = n -> 0 <= ls_tau l ->
    veqb (ix (ls_curr l)) (ix (ls_next l)) = true -> ipp c0 <= 0.
  Proof.
    intros G Lp Hlen Hnn Heq. apply veqb_eq in Heq.
    pose proof (iteration_descent c0 l G Lp Hlen Hnn) as Hd.
    destruct Lp as [Lc Lco Ln Lgl Lq Lls Lsafe].
    assert (Ex : ix c0 = ix (ls_next l)) by (apply (PP core_fields) in Lco; destruct Lco as (E & _); now rewrite <- E).
    destruct (good_gam c0 G) as (Hg0 & _).
    pose proof (PP halved_nonincreasing c0 (ls_next l) Lgl Hg0) as Hgn.
    pose proof (fbe_mono c0 (ls_next l) (good_facts c0 G) (consistent_facts _ Ln Hlen) Ex (g_len c0 G) Hgn) as Hm.
    pose proof cmin_pos. nra.
  Qed.

  (* ------------------------------------------------------------------ (5) the stop check *)
  Hypothesis Hcrit : p_crit P = ProjGradNorm \/ p_crit P = ProjGradNorm2 \/ p_crit P = FPRNorm \/ p_crit P = FPRNorm2.
  Definition delta : R := match p_crit P with FPRNorm | FPRNorm2 => tol * gam_min | _ => tol end.
  Lemma delta_pos : 0 < delta.
  Proof. unfold delta. pose proof tol_pos. pose proof gam_min_pos. destruct (p_crit P); try assumption; now apply Rmult_lt_0_compat. Qed.

  Lemma eps_small i : good i -> ipp i <= delta * delta -> eps_of i <= tol.
  Proof.
    intros G Hs. pose proof (good_facts i G) as F. destruct (good_gam i G) as (Hg & _ & _ & Hm).
    rewrite (f_pp i F) in Hs. pose proof delta_pos as Hd. pose proof tol_pos as Ht. pose proof gam_min_pos as Hgm.
    assert (Hdiv : forall v, v <= tol * gam_min -> v / igam i <= tol).
    { intros v Hv. apply Rmult_le_reg_r with (igam i); [exact Hg|]. unfold Rdiv. rewrite Rmult_assoc, Rinv_l by lra. nra. }
    unfold it_eps, crit_eps, delta in *. change (@ndiv R NumR) with Rdiv.
    destruct Hcrit as [E|[E|[E|E]]]; rewrite E in *.
    - apply vnorminf_le_of_sq; [lra|exact Hs].
    - apply vnorm2_le_of_sq; [lra|exact Hs].
    - apply Hdiv. apply vnorminf_le_of_sq; [lra|exact Hs].
    - apply Hdiv. apply vnorm2_le_of_sq; [lra|exact Hs].
  Qed.

  Lemma check_it_is_curr s : check_it s = st_curr s.
  Proof.
    unfold check_iterate, need_gradh.
    destruct Hcrit as [E|[E|[E|E]]]; rewrite E; reflexivity.
  Qed.

  (* ------------------------------------------------------------------ shape of one pass of `while (true)` *)
  Notation status_of s := (stop_status_helpers (o_tol P) (eps_of (check_it s)) false (st_k s) (p_max_iter P) (st_np s) (p_max_no_progress P) false).

  Lemma pass_exit_shape s o : pass_ s = PExit o ->
    out_status o = status_of s /\ out_iterations o = st_k s /\ status_of s <> StBusy.
  Proof.
    unfold pass. cbv zeta. fold (check_it s). fold (eps_of (check_it s)).
    destruct (status_of s) eqn:Est.
    2-8: match goal with |- context [exit_block ?a ?b ?c ?d ?e ?f ?g ?h] => destruct (exit_block a b c d e f g h) as [[xo yo] eo] end;
         intros E; inversion E; cbn [out_status out_iterations]; repeat split; discriminate.
    match goal with |- context [match ?X with LsDone _ => _ | LsStopped _ => _ | LsFuel => PFuel end] => destruct X end; discriminate.
  Qed.

  Lemma pass_cont_shape s s' : pass_ s = PCont s' ->
    status_of s = StBusy /\
    exists q τi upd c st l, (τi = 0 \/ τi = 1) /\ (τi <> 0 -> length q = n) /\
      let ls0 := mkLs (check_it s) (set_gamma_L (st_next s) (igam (check_it s)) (iL (check_it s))) τi (- 1) upd false c st in
      (lsloop ls_fuel q τi ls0 = LsStopped l \/
       (lsloop ls_fuel q τi ls0 = LsDone l /\ st_curr s' = ls_next l /\ st_k s' = S (st_k s) /\
        st_np s' = match no_progress_update (st_np s) (st_k s) (p_max_no_progress P) (veqb (ix (ls_curr l)) (ix (ls_next l))) with
                   | Some v => v | None => st_np s end)).
  Proof.
    unfold pass. cbv zeta. fold (check_it s). fold (eps_of (check_it s)).
    destruct (status_of s) eqn:Est.
    2-8: match goal with |- context [exit_block ?a ?b ?c ?d ?e ?f ?g ?h] => destruct (exit_block a b c d e f g h) as [[xo yo] eo] end; discriminate.
    change (@n0 R NumR) with 0. change (@n1 R NumR) with 1. change (@nopp R NumR) with Ropp.
    intros H. split; [reflexivity|].
    match type of H with context [lsloop ls_fuel ?q ?τi (mkLs _ _ _ _ ?u _ ?c ?st)] =>
      exists q, τi, u, c, st end.
    match type of H with context [if ?ud then dir_apply ?j ?cu else None] => set (r := if ud then dir_apply j cu else None) in * end.
    match goal with H : match ?X with LsDone _ => _ | LsStopped _ => _ | LsFuel => PFuel end = _ |- _ => destruct X as [l|l|] eqn:El; [| |discriminate] end.
    - exists l. split; [apply (PP tau_init_cases r)|]. split.
      { destruct r as [q'|] eqn:Er; [|intros Hc; exfalso; apply Hc; reflexivity]. intros _.
        subst r. match type of Er with (if ?b then _ else _) = _ => destruct b; [|discriminate] end. eapply Hdir, Er. }
      cbv zeta. right. split; [exact El|]. inversion H; subst s'. cbn [st_curr st_k st_np]. repeat split.
    - exists l. split; [apply (PP tau_init_cases r)|]. split.
      { destruct r as [q'|] eqn:Er; [|intros Hc; exfalso; apply Hc; reflexivity]. intros _.
        subst r. match type of Er with (if ?b then _ else _) = _ => destruct b; [|discriminate] end. eapply Hdir, Er. }
      cbv zeta. left. exact El.
  Qed.

  (* ------------------------------------------------------------------ (6) the loop *)
  Variables (nL nT : nat).
  Hypothesis HnL : p_Lmax P <= Linit * 2 ^ nL.
  Hypothesis Hfac1 : p_tau_factor P <= 1.
  Hypothesis Hmin : p_tau_factor P ^ nT < p_tau_min P.
  Hypothesis Hfuel : (ls_pass_bound nL nT <= ls_fuel)%nat.

  Definition dec : R := cmin * (delta * delta).       (* guaranteed decrease of φ per iteration that does not stop *)
  Lemma dec_pos : 0 < dec.
  Proof. unfold dec. pose proof cmin_pos. pose proof delta_pos. apply Rmult_lt_0_compat; [assumption|now apply Rmult_lt_0_compat]. Qed.

  Variable Φ0 : R.
  Variable N : nat.
  Hypothesis HN : Φ0 - ψinf < INR N * dec.
  Hypothesis HNmax : (N <= p_max_iter P)%nat.

  Record LInv (s : lstate (T:=R)) : Prop := {
    lv_inv : Inv_ s;
    lv_good : good (st_curr s);
    lv_np : st_np s = 0%nat;
    lv_pot : it_fbe (st_curr s) + INR (st_k s) * dec <= Φ0 }.

  Lemma LInv_k s : LInv s -> (st_k s < N)%nat.
  Proof.
    intros [_ G _ Hp]. destruct (good_gam _ G) as (Hg & Hpr & _).
    pose proof (fbe_lower _ (good_facts _ G) (good_nv _ G) Hg Hpr) as Hlow.
    pose proof dec_pos as Hd. apply INR_lt.
    assert (INR (st_k s) * dec < INR N * dec) by lra. nra.
  Qed.

  Lemma status_cases s : st_k s <> p_max_iter P -> st_np s = 0%nat ->
    status_of s = StConverged \/ (status_of s = StBusy /\ tol < eps_of (check_it s)).
  Proof.
    intros Hk Hnp. unfold stop_status_helpers. cbv zeta. fold (eff_tol (o_tol P)). fold tol.
    change (@nleb R NumR) with Rle_bool. destruct (Rle_bool_spec (eps_of (check_it s)) tol) as [Hc|Hc]; [left; reflexivity|].
    right. split; [|exact Hc]. destruct (Nat.eqb_spec (st_k s) (p_max_iter P)); [contradiction|].
    rewrite Hnp. cbn [nfinite NumR negb]. destruct (p_max_no_progress P); reflexivity.
  Qed.

  Lemma np_stays_zero k m : match no_progress_update 0 k m false with Some v => v | None => 0%nat end = 0%nat.
  Proof. unfold no_progress_update. cbn [Nat.ltb Nat.leb]. destruct m; [reflexivity|]. destruct (Nat.modulo k (S m) =? 0)%nat; reflexivity. Qed.

  Lemma pass_live s : LInv s ->
    (exists o, pass_ s = PExit o /\ out_status o = StConverged /\ out_iterations o = st_k s) \/
    (exists s', pass_ s = PCont s' /\ LInv s' /\ st_k s' = S (st_k s)).
  Proof.
    intros HI. pose proof (LInv_k s HI) as Hk. destruct HI as [Hinv G Hnp Hpot].
    assert (Hkm : st_k s <> p_max_iter P) by lia.
    pose proof (PP pass_inv s Hinv) as Hpi.
    pose proof (PP pass_never_out_of_fuel nL nT s Hinv HL0 HnL (conj Hfac0 Hfac1) Hmin Hfuel) as Hnf.
    destruct (pass_ s) as [o|s'|] eqn:Ep; [| |exfalso; now apply Hnf].
    - left. exists o. destruct (pass_exit_shape s o Ep) as (E1 & E2 & E3).
      split; [reflexivity|]. split; [|exact E2]. rewrite E1.
      destruct (status_cases s Hkm Hnp) as [Ec|[Eb _]]; [exact Ec|contradiction].
    - right. exists s'. split; [reflexivity|].
      destruct (pass_cont_shape s s' Ep) as (Eb & q & τi & upd & c & st & l & Hτ & Hq & Hls). cbv zeta in Hls.
      destruct (status_cases s Hkm Hnp) as [Ec|[_ Heps]]; [rewrite Ec in Eb; discriminate|].
      rewrite check_it_is_curr in *. set (c0 := st_curr s) in *.
      assert (Hpp : delta * delta < ipp c0).
      { destruct (Rlt_le_dec (delta * delta) (ipp c0)) as [Hlt1|Hle]; [exact Hlt1|]. pose proof (eps_small c0 G Hle). lra. }
      set (ls0 := mkLs c0 (set_gamma_L (st_next s) (igam c0) (iL c0)) τi (- 1) upd false c st) in *.
      assert (HI2 : LsI2 c0 τi ls0).
      { constructor; [constructor|..]; cbn [ls_curr ls_next ls_tau ls_tau_prev ls0].
        - apply Hinv.
        - reflexivity.
        - exists 0%nat. reflexivity.
        - intros E. exfalso. destruct Hτ; lra.
        - unfold set_gamma_L. cbn [iL]. apply G.
        - intros E. exfalso. destruct Hτ; lra.
        - trivial.
        - destruct Hτ; lra. }
      pose proof (ls_invariant2 c0 q τi (g_len c0 G) (g_L c0 G) Hq ltac:(destruct Hτ; lra) ls_fuel ls0 HI2) as Hpost.
      destruct Hls as [El|(El & Ec & Ek & Enp)]; rewrite El in Hpost; [contradiction|].
      destruct Hpost as (Lp & HLn & Hlen & Hnn).
      pose proof (iteration_descent c0 l G Lp Hlen Hnn) as Hd.
      pose proof cmin_pos as Hcm.
      split; [|exact Ek]. constructor.
      + exact Hpi.
      + rewrite Ec. now apply (iteration_good c0).
      + rewrite Enp, Hnp.
        destruct (veqb (ix (ls_curr l)) (ix (ls_next l))) eqn:Es; [|apply np_stays_zero].
        exfalso. pose proof (same_x_forces_zero_step c0 l G Lp Hlen Hnn Es). pose proof delta_pos. nra.
      + rewrite Ec, Ek, S_INR. unfold dec in *. nra.
  Qed.

  Lemma loop_live : forall fuel s, LInv s -> (N < fuel + st_k s)%nat ->
    exists o, loop_ fuel s = Done o /\ out_status o = StConverged /\ (out_iterations o < N)%nat.
  Proof.
    induction fuel as [|fuel IH]; intros s HI Hf; pose proof (LInv_k s HI) as Hk; [lia|].
    cbn [loop]. destruct (pass_live s HI) as [(o & Ep & Es & Ei)|(s' & Ep & HI' & Ek)]; rewrite Ep.
    - exists o. split; [reflexivity|]. split; [exact Es|lia].
    - apply IH; [exact HI'|lia].
  Qed.

  (* ------------------------------------------------------------------ initialisation *)
  (* explicit bound on the first envelope value: φ_γmin(x_in) *)
  Definition Phi0 : R :=
    let p := snd (fst (proj_grad_step lb ub gam_min x_in (g x_in))) in
    ψ x_in + vsqnorm p / (2 * gam_min) + vdot (g x_in) p.

  Lemma fbe_le_Phi0 i : good i -> ix i = x_in -> it_fbe i <= Phi0.
  Proof.
    intros G Ex. pose proof (good_facts i G) as F. destruct (good_gam i G) as (Hg & _ & _ & Hm).
    rewrite (fbe_facts i F). unfold Phi0. cbv zeta.
    pose proof (prox_terms_mono lb ub (igam i) gam_min x_in (g x_in) gam_min_pos Hm ltac:(lia) ltac:(lia) ltac:(rewrite Hglen; lia) Hne) as Hmo.
    cbv zeta in Hmo. rewrite <- Ex in Hmo. rewrite <- Ex. rewrite (f_step i F) in Hmo. cbn [fst snd] in Hmo.
    rewrite (f_pp i F), (f_gp i F). lra.
  Qed.

  Notation initqub := (init_qub psi_grad_full psi_yhat lb ub l1 P).
  Notation Gl0 := (gl0 psi_grad_full grad_psi P x_in).

  Lemma init_qub_live : forall fuel i c st j, Consistent i -> gl_of i = halve_n j Gl0 -> ix i = x_in -> iL i <= Lbar ->
    (nL <= fuel + j)%nat ->
    exists i' c' st', initqub fuel i c st = Some (i', c', st') /\ ix i' = x_in /\ iL i' <= Lbar.
  Proof.
    induction fuel as [|fuel IH]; intros i c st j Hc Hgl Ex HL Hf; cbn [init_qub];
      change (@nltb R NumR) with Rlt_bool;
      destruct (Rlt_bool (iL i) (p_Lmax P) && qubv i) eqn:Eq.
    2,4: exists i, c, st; repeat split; assumption.
    - exfalso. apply andb_prop in Eq. destruct Eq as [HLm _]. apply Rlt_bool_iff in HLm.
      pose proof (PP halve_n_L j (p_Lgamma P / Linit) Linit) as Hh.
      change (p_Lgamma P / Linit, Linit) with Gl0 in Hh. rewrite <- Hgl in Hh. unfold gl_of in Hh. cbn [snd] in Hh.
      assert (2 ^ nL <= 2 ^ j) by (apply Rle_pow; [lra|lia]). rewrite Hh in HLm. nra.
    - apply andb_prop in Eq. destruct Eq as [_ Hv].
      assert (Hlen : length (ix i) = n) by (now rewrite Ex).
      pose proof (qub_violated_small_L i (consistent_facts i Hc Hlen) Hlen Hv) as Hs.
      apply (IH _ _ _ (S j)).
      + destruct (PP eprox_cons (halve_it i)) as [A B]; [apply Hc|]. apply (PP epsih_cons); assumption.
      + cbn [halve_n]. rewrite <- Hgl, <- (PP halve_it_gl).
        destruct (PP epsih_fields (eprox (halve_it i))) as (_ & _ & _ & _ & _ & F6 & F7 & _). unfold gl_of. now rewrite F6, F7.
      + destruct (PP epsih_fields (eprox (halve_it i))) as (F1 & _). rewrite F1. exact Ex.
      + destruct (PP epsih_fields (eprox (halve_it i))) as (_ & _ & _ & _ & _ & _ & F7 & _). rewrite F7.
        change (iL (eprox (halve_it i))) with (iL (halve_it i)). rewrite iL_halve_it.
        unfold Lbar. pose proof (Rmax_r Linit (2 * Lf)). lra.
      + lia.
  Qed.

  Hypothesis HPhi : Phi0 <= Φ0.

  Theorem panoc_live fuel : (N < fuel)%nat ->
    exists o, panoc_ fuel = Done o /\ out_status o = StConverged /\ (out_iterations o < N)%nat.
  Proof.
    intros Hf. unfold panoc.
    destruct (init_L psi_grad_full grad_psi P x_in) as [i0 c0] eqn:E0.
    cbn [nfinite NumR negb]. change (@ndiv R NumR) with Rdiv. fold (first_iterate psi_grad_full psi_yhat lb ub l1 P i0).
    set (i2 := first_iterate psi_grad_full psi_yhat lb ub l1 P i0).
    assert (HLi : Linit = iL i0) by (unfold L_init; now rewrite E0).
    assert (Hx0 : ix i0 = x_in) by (pose proof (PP init_L_x) as Hx; now rewrite E0 in Hx).
    pose proof (PP init_L_cons_x) as Hcx. rewrite E0 in Hcx. cbn [fst] in Hcx.
    set (i1 := set_gamma_L i0 (p_Lgamma P / iL i0) (iL i0)).
    destruct (PP eprox_cons i1 Hcx) as [A B].
    assert (Hc2 : Consistent i2) by (apply (PP epsih_cons); assumption).
    destruct (PP epsih_fields (eprox i1)) as (F1 & _ & _ & _ & _ & F6 & F7 & _).
    assert (Hgl2 : gl_of i2 = halve_n 0 Gl0).
    { cbn [halve_n]. unfold gl_of, gl0, i2, first_iterate. fold i1. rewrite F6, F7, HLi. reflexivity. }
    assert (Hx2 : ix i2 = x_in) by (unfold i2, first_iterate; fold i1; rewrite F1; exact Hx0).
    assert (HL2 : iL i2 <= Lbar).
    { unfold i2, first_iterate. fold i1. rewrite F7. change (iL (eprox i1)) with (iL i0). rewrite <- HLi. apply Rmax_l. }
    destruct (init_qub_live ls_fuel i2 (cnt_psih P c0) stats0 0%nat Hc2 Hgl2 Hx2 HL2) as (i3 & c1 & s1 & Eq & Hx3 & HL3).
    { unfold ls_pass_bound in Hfuel. nia. }
    rewrite Eq.
    pose proof (PP init_inv i0 c0 i3 c1 s1 E0 Eq) as Hinv.
    assert (G3 : good i3).
    { destruct Hinv as [Hc Hq Hgl _ _ _ _]. cbn [st_curr] in *. constructor; try assumption; [|now rewrite Hx3].
      apply consistent_facts; [exact Hc|now rewrite Hx3]. }
    apply loop_live; [|cbn [st_k]; lia].
    constructor; cbn [st_curr st_np st_k]; [exact Hinv|exact G3|reflexivity|].
    pose proof (fbe_le_Phi0 i3 G3 Hx3). cbn [INR]. lra.
  Qed.
End Live.
