(* PantrLen.v — a LENGTH invariant of the whole-loop PANTR model (Pantr.v), over R, for arbitrary stop / clock oracles:
   with l1 = [], |lb| = |ub| = |x_in| = n, an eval_ψ_grad_ψ oracle whose gradient has the length of its argument and a trust-region
   direction oracle that returns n-vectors for an FBS iterate at an n-vector, the current iterate of every reachable state has
   x, ∇ψ(x), x̂, p of length n.  (Nothing is needed of eval_grad_L / eval_grad_ψ / eval_ψ: PANTR's iterates take their gradients
   from eval_ψ_grad_ψ only.)
   Consequences: the primal buffer after ANY completed run has length n, and a strengthened inner contract (Converged under
   ApproxKKT) in which x, ∇ψ(x) and the returned x have length n. *)
From Coq Require Import Reals List ZArith Lra Lia Bool Arith Psatz.
From Flocq Require Import Raux.
From Alpaqa Require Import Num NumR Vec Prox ProxProofs ProxVec SolverStatus SolverKernels SolverKernelsProofs DescentProofs
                           StopChain StopChainProofs LoopSkeleton KktProofs Panoc PanocProofs ZeroFpr ZeroFprProofs Pantr PantrProofs
                           LiveVec.
Import ListNotations.
Local Open Scope R_scope.

Section Len.
  Variable psi_grad_full : list R -> R * list R * list R.
  Variable psi_yhat : list R -> R * list R.
  Variable grad_L : list R -> list R -> list R.
  Variable grad_psi : list R -> list R.
  Variables (lb ub : list (option R)) (l1 : list R).
  Variable tr_apply : nat -> iterate (T:=R) -> R -> list R * R.
  Variable has_initial : bool.
  Variable stop_req : counters -> bool.
  Variable time_up : counters -> bool.
  Variable TP : trparams (T:=R).
  Variables (x_in y_in Σ errz_in : list R).
  Variable bt_fuel : nat.

  Variable n : nat.
  Hypothesis Hl1 : l1 = [].
  Hypothesis Hlb : length lb = n.
  Hypothesis Hub : length ub = n.
  Hypothesis Hxin : length x_in = n.
  Hypothesis Hpg : forall x, length x = n -> length (snd (psi_grad psi_grad_full x)) = n.
  (* direction.apply(…, q) leaves an n-vector in q when the FBS iterate it is given sits at an n-vector *)
  Hypothesis Hdir : forall j px Δ, length (ix px) = n -> length (fst (tr_apply j px Δ)) = n.

  Notation it := (iterate (T:=R)).
  Notation P := (tp_base TP).
  Notation eprox := (eval_prox lb ub l1).
  Notation ecost := (eval_cost psi_yhat).
  Notation bt := (ZeroFpr.init_qub psi_yhat lb ub l1 P).
  Notation tpass_ := (tpass psi_grad_full psi_yhat grad_L lb ub l1 tr_apply has_initial stop_req time_up TP x_in y_in Σ errz_in bt_fuel).
  Notation tloop_ := (tloop psi_grad_full psi_yhat grad_L lb ub l1 tr_apply has_initial stop_req time_up TP x_in y_in Σ errz_in bt_fuel).
  Notation pantr_ := (pantr psi_grad_full psi_yhat grad_L grad_psi lb ub l1 tr_apply has_initial stop_req time_up TP x_in y_in Σ errz_in bt_fuel).
  Notation pgrad := (psi_grad psi_grad_full).
  Notation initL := (init_L psi_grad_full grad_psi P x_in).
  Notation Linit := (L_init psi_grad_full grad_psi P x_in).
  Notation Reachable := (reachable psi_grad_full psi_yhat grad_L grad_psi lb ub l1 tr_apply has_initial stop_req time_up TP x_in y_in Σ errz_in bt_fuel).
  Notation trstep := (tr_step psi_grad_full psi_yhat lb ub l1 tr_apply TP bt_fuel).
  Notation finish := (finish_iter psi_yhat lb ub l1 TP bt_fuel).
  Notation fbs := (fbs_iterate psi_grad_full lb ub l1).
  Notation first_it := (first_iterate psi_yhat lb ub l1 TP).
  Notation first_st := (first_state TP).

  Definition good_x (i : it) : Prop := length (ix i) = n /\ length (igrad i) = n.
  Definition good (i : it) : Prop := good_x i /\ length (ixh i) = n /\ length (ip i) = n.

  (* ---- elementary updates *)
  Lemma eprox_good (i : it) : good_x i -> good (eprox i).
  Proof.
    intros [Hx Hg]. unfold eval_prox. rewrite Hl1. cbn [eval_prox_grad_step].
    destruct (proj_grad_step_length lb ub (igam i) (ix i) (igrad i) n Hlb Hub Hx Hg) as [Lxh Lp].
    unfold good, good_x. cbn [ix ixh igrad ip]. split; [split; assumption|]. split; assumption.
  Qed.
  Lemma ecost_good (i : it) : good i -> good (ecost i).
  Proof. exact (fun H => H). Qed.
  Lemma halve_good_x (i : it) : good_x i -> good_x (halve_it i).
  Proof. exact (fun H => H). Qed.
  Lemma set_gl_good_x (i : it) γ L : good_x i -> good_x (set_gamma_L i γ L).
  Proof. exact (fun H => H). Qed.
  Lemma fresh_good (j0 : it) : length (ix j0) = n -> good (eprox (eval_psi_grad psi_grad_full j0)).
  Proof. intros Hx. apply eprox_good. unfold good_x, eval_psi_grad. cbn [ix igrad]. split; [exact Hx|apply Hpg, Hx]. Qed.

  (* backtrack_qub keeps the lengths *)
  Lemma bt_good : forall fuel i c st i' c' st', good i -> bt fuel i c st = Some (i', c', st') -> good i'.
  Proof.
    induction fuel as [|fuel IH]; intros i c st i' c' st' Hg; cbn [ZeroFpr.init_qub];
      destruct (nltb (iL i) (p_Lmax P) && it_qub_violated P i); try discriminate.
    1,3: intros E; inversion E; subst; exact Hg.
    apply IH. apply ecost_good, eprox_good, halve_good_x, Hg.
  Qed.

  (* ---- the TR step: an accepted candidate has the lengths *)
  Lemma tr_step_good s prox c4 accel : good prox ->
    let '(cand, q, Δ, ρ, acc, c, st, ok) := trstep s prox c4 accel in acc = true -> good cand.
  Proof.
    intros Hp. unfold tr_step. cbv zeta.
    destruct (accel && negb (tp_disable_accel TP)); [|discriminate].
    set (qa := tr_apply (c_apply c4) prox (ts_delta s)).
    destruct (vall_finite (fst qa) && nltb (snd qa) n0); [|discriminate].
    set (cand0 := eprox (eval_psi_grad psi_grad_full (set_gamma_L (set_x (ts_cand s) (vadd (ix prox) (fst qa))) (igam prox) (iL prox)))).
    assert (G0 : good cand0).
    { apply fresh_good. cbn [set_gamma_L set_x ix]. apply vadd_length; [apply Hp|]. apply Hdir, Hp. }
    destruct (tp_ratio_new_step TP).
    - unfold backtrack.
      match goal with |- context [ZeroFpr.init_qub ?a1 ?a2 ?a3 ?a4 ?a5 ?a6 ?a7 ?a8 ?a9] =>
        destruct (ZeroFpr.init_qub a1 a2 a3 a4 a5 a6 a7 a8 a9) as [[[cand1 c7] st2]|] eqn:Eb end; [|discriminate].
      intros _. eapply bt_good; [|exact Eb]. apply ecost_good, G0.
    - intros _. exact G0.
  Qed.

  Lemma finish_good s curr prox gbuf2 ε accel r : good prox ->
    (let '(cand, q, Δ, ρ, acc, c, st, ok) := r in acc = true -> good cand) ->
    match finish s curr prox gbuf2 ε accel r with TCont s' => good (ts_curr s') | TExit _ => False | TFuel => True end.
  Proof.
    intros Hp. destruct r as [[[[[[[cand q] Δ] ρ] acc] c8] st3] ok]. intros Hc. unfold finish_iter.
    destruct ok; cbn [negb]; [|exact I].
    destruct acc.
    - specialize (Hc eq_refl).
      destruct (tp_ratio_new_step TP).
      + cbn [ts_curr]. exact Hc.
      + unfold backtrack.
        match goal with |- context [ZeroFpr.init_qub ?a1 ?a2 ?a3 ?a4 ?a5 ?a6 ?a7 ?a8 ?a9] =>
          destruct (ZeroFpr.init_qub a1 a2 a3 a4 a5 a6 a7 a8 a9) as [[[cand2 c10] st4]|] eqn:Eb end; [|exact I].
        cbn [ts_curr]. eapply bt_good; [|exact Eb]. apply ecost_good, Hc.
    - unfold backtrack.
      match goal with |- context [ZeroFpr.init_qub ?a1 ?a2 ?a3 ?a4 ?a5 ?a6 ?a7 ?a8 ?a9] =>
        destruct (ZeroFpr.init_qub a1 a2 a3 a4 a5 a6 a7 a8 a9) as [[[prox2 c10] st5]|] eqn:Eb end; [|exact I].
      cbn [ts_curr]. eapply bt_good; [|exact Eb]. apply ecost_good, Hp.
  Qed.

  (* ---- one pass of the outer loop: the next current iterate is good; an exit returns the current iterate as `final` *)
  Lemma tpass_len (s : tstate (T:=R)) : good (ts_curr s) ->
    match tpass_ s with TCont s' => good (ts_curr s') | TExit o => to_final o = ts_curr s | TFuel => True end.
  Proof.
    intros Hg. unfold tpass, Pantr.P. cbv zeta.
    match goal with |- context [stop_status_helpers ?a ?b ?c ?d ?e ?f ?g ?h] => destruct (stop_status_helpers a b c d e f g h) end.
    2-8: match goal with |- context [exit_block ?a ?b ?c ?d ?e ?f ?g ?h] => destruct (exit_block a b c d e f g h) as [[xo yo] eo] end; reflexivity.
    match goal with |- context [finish s ?cu ?px ?g2 ?e ?ac (trstep s ?px ?c4 ?ac)] =>
      set (prox := px); set (c4' := c4); set (accel := ac); set (g2' := g2); set (ε := e) end.
    assert (Gp : good prox).
    { subst prox. unfold fbs_iterate. apply fresh_good. cbn [ix]. apply Hg. }
    pose proof (finish_good s (ts_curr s) prox g2' ε accel _ Gp (tr_step_good s prox c4' accel Gp)) as Hf.
    destruct (finish s (ts_curr s) prox g2' ε accel (trstep s prox c4' accel)); [contradiction|exact Hf|exact I].
  Qed.

  Lemma initL_good_x : good_x (fst initL).
  Proof.
    unfold init_L. cbv zeta. destruct (nleb (p_L0 P) n0); cbn [fst]; unfold good_x; cbn [ix igrad]; split; try exact Hxin; apply Hpg, Hxin.
  Qed.

  Lemma first_good i0 c0 i3 c1 s1 : initL = (i0, c0) -> bt bt_fuel (first_it i0) (inc_py c0) stats0 = Some (i3, c1, s1) -> good i3.
  Proof.
    intros E0 Eq. eapply bt_good; [|exact Eq]. unfold first_iterate. apply ecost_good, eprox_good, set_gl_good_x.
    pose proof initL_good_x as H0. rewrite E0 in H0. exact H0.
  Qed.

  Theorem reachable_good s : Reachable s -> good (ts_curr s).
  Proof.
    induction 1 as [i0 c0 i3 c1 s1 E0 Eq|s s' _ IH Ep].
    - cbn [first_state ts_curr]. exact (first_good _ _ _ _ _ E0 Eq).
    - pose proof (tpass_len s IH) as Hp. now rewrite Ep in Hp.
  Qed.

  (* ---- every completed run ends in an exit pass from a reachable state *)
  Lemma tloop_exit : forall fuel s o, Reachable s -> tloop_ fuel s = TDone o -> exists s', Reachable s' /\ tpass_ s' = TExit o.
  Proof.
    induction fuel as [|fuel IH]; intros s o Hr; cbn [tloop]; [discriminate|].
    destruct (tpass_ s) as [o'|s'|] eqn:Ep.
    - intros E. inversion E; subst. exists s. split; assumption.
    - apply IH. eapply reach_step; eassumption.
    - discriminate.
  Qed.
  Theorem pantr_exit_pass fuel o : pantr_ fuel = TDone o -> exists s, Reachable s /\ tpass_ s = TExit o.
  Proof.
    unfold pantr, backtrack, Pantr.P, Pantr.ecost, Pantr.eprox. destruct initL as [i0 c0] eqn:E0.
    destruct (negb (nfinite (iL i0))); [discriminate|].
    change (@ndiv R NumR) with Rdiv. fold (first_it i0).
    destruct (bt bt_fuel (first_it i0) (inc_py c0) stats0) as [[[i3 c1] s1]|] eqn:Eq; [|discriminate].
    fold (first_st i3 c1 s1). apply tloop_exit. eapply reach_init; eassumption.
  Qed.

  (* the iterate at the return statement of a completed run *)
  Theorem pantr_final_good fuel o : pantr_ fuel = TDone o -> good (to_final o).
  Proof.
    intros Hr. destruct (pantr_exit_pass fuel o Hr) as (s & Hreach & Hp).
    pose proof (tpass_len s (reachable_good s Hreach)) as Hl. rewrite Hp in Hl. rewrite Hl. exact (reachable_good s Hreach).
  Qed.

  (* the primal buffer after any completed run has length n *)
  Theorem pantr_out_x_length fuel o : pantr_ fuel = TDone o -> length (to_x o) = n.
  Proof.
    intros Hr. pose proof (pantr_final_good fuel o Hr) as Hg.
    destruct (pantr_post psi_grad_full psi_yhat grad_L grad_psi lb ub l1 tr_apply has_initial stop_req time_up TP x_in y_in Σ errz_in bt_fuel fuel o Hr)
      as (cf & cnt & W). destruct W as [_ _ _ Hfin _ _ _ _ Hex _]. rewrite Hfin in Hg.
    unfold exit_block in Hex. destruct (overwrites (to_status o) (o_always P));
      pose proof (f_equal (fun t => fst (fst t)) Hex) as X1; cbn [fst snd] in X1; rewrite X1; [apply Hg|exact Hxin].
  Qed.

  (* ---- the strengthened inner contract: PantrProofs.pantr_inner_contract + lengths *)
  Theorem pantr_inner_contract_len fuel o : pantr_ fuel = TDone o ->
    to_status o = StConverged -> p_crit P = ApproxKKT ->
    exists (x : list R) (γ : R),
      let grad := snd (pgrad x) in
      let step := proj_grad_step lb ub γ x grad in
      let gradh := grad_L (to_x o) (to_y o) in
      length x = n /\ length grad = n /\ length (to_x o) = n /\
      to_x o = fst (fst step) /\
      to_y o = snd (psi_yhat (to_x o)) /\
      to_errz o = match errz_in with [] => [] | _ => vdiv (vsub (to_y o) y_in) Σ end /\
      to_eps o = vnorminf (kkt_residual γ (snd (fst step)) grad gradh) /\
      to_eps o <= eff_tol (o_tol P) /\
      (0 < p_Lgamma P -> 0 < Linit -> 0 < γ) /\
      (Linit <> 0 -> exists L, γ * L = p_Lgamma P).
  Proof.
    intros Hr Hst Hcrit. pose proof (pantr_final_good fuel o Hr) as Hgood. pose proof (pantr_out_x_length fuel o Hr) as Lxo.
    destruct (pantr_post psi_grad_full psi_yhat grad_L grad_psi lb ub l1 tr_apply has_initial stop_req time_up TP x_in y_in Σ errz_in bt_fuel fuel o Hr)
      as (cf & cnt & W). destruct W as [Hc Hq Hg Hfin (gh & Hgh & He) Hstat _ _ Hex _]. rewrite Hfin in Hgood.
    destruct Hgood as ((Lx & Lg) & Lxh & Lp).
    unfold exit_block in Hex. rewrite Hst in Hex. cbn [overwrites] in Hex.
    pose proof (f_equal (fun t => fst (fst t)) Hex) as O1. pose proof (f_equal (fun t => snd (fst t)) Hex) as O3.
    pose proof (f_equal snd Hex) as O5. cbn [fst snd] in O1, O3, O5.
    destruct (tconsistent_explicit psi_grad_full psi_yhat grad_L grad_psi lb ub l1 tr_apply has_initial stop_req time_up TP x_in y_in Σ errz_in bt_fuel cf Hc)
      as (Hx & E1 & E2 & E3 & E4 & E5).
    exists (ix cf), (igam cf). cbv zeta.
    assert (Eg : snd (pgrad (ix cf)) = igrad cf) by (rewrite <- Hx; reflexivity). rewrite Eg.
    rewrite Hl1 in E2. cbn [eval_prox_grad_step] in E2. rewrite E2. cbn [fst snd].
    split; [exact Lx|]. split; [exact Lg|]. split; [exact Lxo|].
    split; [exact O1|]. split; [rewrite O3, O1, <- E5; reflexivity|]. split; [rewrite O5, O3; reflexivity|]. split.
    { rewrite He, Hcrit. cbn [crit_eps]. rewrite (Hgh ltac:(rewrite Hcrit; reflexivity)), O1, O3. reflexivity. }
    split.
    { destruct (pantr_status_clauses psi_grad_full psi_yhat grad_L grad_psi lb ub l1 tr_apply has_initial stop_req time_up TP x_in y_in Σ errz_in bt_fuel fuel o Hr)
        as (_ & _ & _ & _ & Hcv & _). apply Hcv. exact Hst. }
    split; [intros; now apply (glrel0_pos psi_grad_full psi_yhat grad_L grad_psi lb ub l1 (fun _ _ => None) has_initial stop_req time_up P x_in y_in Σ errz_in bt_fuel)|].
    intros HL. exists (iL cf). now apply (glrel0_product_factor psi_grad_full psi_yhat grad_L grad_psi lb ub l1 (fun _ _ => None) has_initial stop_req time_up P x_in y_in Σ errz_in bt_fuel).
  Qed.
End Len.
