(* SolverKernels.v — the decision / bookkeeping kernels shared by PANOC, ZeroFPR, PANTR, FISTA
   (implementation/inner/{panoc,zerofpr,pantr,fista,panoc-helpers}.tpp), as they are written in the code.
   Model only; proofs are in SolverKernelsProofs.v.  Operation order follows the C++ expressions. *)
From Coq Require Import List ZArith Bool Arith.
From Alpaqa Require Import Num Vec Prox SolverStatus.
Import ListNotations.

Section Kernels.
  Context {T : Type} `{Num T}.
  Local Open Scope num_scope.

  Definition nhalf1 : T := n1 / n2.     (* real_t(0.5) *)

  (* Iterate::fbe():  ψx + hx̂ + pᵀp / (2 * γ) + grad_ψᵀp *)
  Definition fbe (ψx hxh pp γ gp : T) : T := ψx + hxh + pp / (n2 * γ) + gp.

  (* qub_violated:  ψx̂ > ψx + grad_ψᵀp + 0.5 * L * pᵀp + (1 + |ψx|) * tol *)
  Definition qub_rhs (ψx gp L pp tol : T) : T := ψx + gp + nhalf1 * L * pp + (n1 + nabs ψx) * tol.
  Definition qub_violated (ψx ψxh gp L pp tol : T) : bool := qub_rhs ψx gp L pp tol <? ψxh.

  (* linesearch_violated(curr, next) of PANOC / ZeroFPR *)
  Definition ls_sigma (β γ L : T) : T := β * (n1 - γ * L) / (n2 * γ).
  Definition ls_rhs (β γ L φ pp tol : T) : T := φ - ls_sigma β γ L * pp + (n1 + nabs φ) * tol.
  Definition ls_violated (force : bool) (β γ L φ pp φnext tol : T) : bool :=
    if force then false else ls_rhs β γ L φ pp tol <? φnext.

  (* PANTR: ρ = (φ(prox) - φ(cand) + (1+|φ(prox)|) tol) / (-q_model)   [optionally / (1 - Lγ_factor)] *)
  Definition tr_ratio (approx : bool) (φprox φcand qmodel tol Lγ : T) : T :=
    let ρ := (φprox - φcand + (n1 + nabs φprox) * tol) / (- qmodel) in
    if approx then ρ / (n1 - Lγ) else ρ.

  (* step-size backtracking: γ /= 2; L *= 2 *)
  Definition halve_step (γL : T * T) : T * T := (fst γL / n2, snd γL * n2).

  (* PANOC candidate: x + q (τ = 1) or x + (1-τ) p + τ q ;  ZeroFPR: x̂ + q or x̂ + τ q *)
  Definition panoc_candidate (τ : T) (x p q : list T) : list T :=
    if τ =? n1 then vadd x q
    else vadd (vadd x (vscale (n1 - τ) p)) (vscale τ q).
  Definition zerofpr_candidate (τ : T) (xh q : list T) : list T :=
    if τ =? n1 then vadd xh q else vadd xh (vscale τ q).

  (* no-progress counter:
       if (no_progress > 0 || max_no_progress == 0 || k % max_no_progress == 0) no_progress = same ? no_progress+1 : 0.
     (Before fix f0c04835f the `max_no_progress == 0` test was missing and `k % 0` trapped.)
     The result is an option only so that a division by zero could be represented; it is now always Some. *)
  Definition no_progress_update (no_progress k max_no_progress : nat) (same : bool) : option nat :=
    if (0 <? no_progress)%nat then Some (if same then S no_progress else 0%nat)
    else match max_no_progress with
         | O => Some (if same then S no_progress else 0%nat)
         | S _ => if (Nat.modulo k max_no_progress =? 0)%nat
                  then Some (if same then S no_progress else 0%nat) else Some no_progress
         end.

  (* ---------------- augmented-Lagrangian pieces used by the exit block ---------------- *)
  (* ζ = g + y/Σ ;  ŷ = Σ (ζ - Π_D ζ) ;  err_z = (ŷ - y)/Σ *)
  Definition zeta1 (g y σ : T) : T := g + y / σ.
  Definition yhat1 (lb ub : option T) (g y σ : T) : T := σ * projdiff1 lb ub (zeta1 g y σ).
  Definition errz1 (yh y σ : T) : T := (yh - y) / σ.

  (* exit block: overwrite iff Converged, Interrupted or always_overwrite_results *)
  Definition overwrites (st : status) (always : bool) : bool :=
    match st with StConverged | StInterrupted => true | _ => always end.
  Definition exit_block (st : status) (always : bool) (x_in y_in errz_in xh yh Σ : list T)
    : list T * list T * list T :=
    if overwrites st always
    then (xh, yh, match errz_in with [] => [] | _ => vdiv (vsub yh y_in) Σ end)
    else (x_in, y_in, errz_in).

  (* ---------------- stopping criteria (calc_error_stop_crit) ---------------- *)
  Inductive stopcrit := ApproxKKT | ApproxKKT2 | ProjGradNorm | ProjGradNorm2 | ProjGradUnitNorm | ProjGradUnitNorm2
                      | FPRNorm | FPRNorm2 | Ipopt | LBFGSBpp.

  (* err = (1/γ) p + (∇ψ - ∇ψ̂) *)
  Definition kkt_residual (γ : T) (p grad gradh : list T) : list T :=
    vadd (vscale (n1 / γ) p) (vsub grad gradh).

  (* unit-step prox-gradient step of the problem (box C, optional l1), returns p *)
  Definition unit_step (lb ub : list (option T)) (l1 : list T) (x g : list T) : list T :=
    snd (fst (eval_prox_grad_step lb ub l1 n1 x g)).

  Definition nofnat (k : nat) : T := nofZ (Z.of_nat k).

  Definition crit_eps (c : stopcrit) (lb ub : list (option T)) (l1 : list T)
             (p : list T) (γ : T) (x xh yh grad gradh : list T) : T :=
    match c with
    | ApproxKKT => vnorminf (kkt_residual γ p grad gradh)
    | ApproxKKT2 => vnorm2 (kkt_residual γ p grad gradh)
    | ProjGradNorm => vnorminf p
    | ProjGradNorm2 => vnorm2 p
    | ProjGradUnitNorm => vnorminf (unit_step lb ub l1 x grad)
    | ProjGradUnitNorm2 => vnorm2 (unit_step lb ub l1 x grad)
    | FPRNorm => vnorminf p / γ
    | FPRNorm2 => vnorm2 p / γ
    | Ipopt =>
        let p' := unit_step lb ub l1 xh gradh in
        let err := vnorminf p' in
        let n := (2 * (length yh + length xh))%nat in
        match n with
        | O => err
        | _ => let w := vsub (vneg p') gradh in     (* work_n2 = -work_n2 - grad_̂ψₖ *)
               let s_max := nofZ 100 in
               let s_d := cmax s_max ((vnorm1 w + vnorm1 yh) / nofnat n) / s_max in
               err / s_d
        end
    | LBFGSBpp => vnorminf (unit_step lb ub l1 x grad) / nfmax n1 (vnorm2 x)
    end.

  Definition crit_needs_gradh (c : stopcrit) : bool :=
    match c with ApproxKKT | ApproxKKT2 | Ipopt => true | _ => false end.
End Kernels.
