(* Corr_C10.v — correspondence cases for C10: the model of LMQR.v runs at binary64 on whole op sequences
   (its own state is threaded through, no teacher forcing) and every intermediate observation is compared
   with what the C++ objects reported after the same op. *)
From Coq Require Import Floats List ZArith Bool Arith.
From Alpaqa Require Import Num NumF Vec LMQR.
Import ListNotations.

(* observation of a factorisation after an op *)
Record snap := mkSnap {
  s_qi : nat; s_head : nat; s_tail : nat;
  s_Q : list (list float);      (* get_Q(): live columns *)
  s_R : list (list float);      (* logical column j, rows 0..j, read from get_raw_R at storage (head+j) mod m *)
  s_min : float; s_max : float; s_reorth : nat;
  s_it : list (nat * nat);      (* ring_iter() as enumerated by the implementation *)
  s_rit : list (nat * nat)      (* ring_reverse_iter() *)
}.

Inductive qrop :=
| OAdd (v : list float) | ORem | OReset | OScale (s : float)
| OSolve (b : list float) (tol : float) (x : list float).     (* x = implementation's output buffer afterwards *)

Inductive aaop :=
| AInit (g r : list float)
| ACompute (g r : list float) (exc : bool) (xaa : list float)
| AReset | AScale (s : float).

Inductive c10case :=
| CQR (n m : nat) (steps : list (qrop * snap))
| CAA (n mem : nat) (mdf : float) (steps : list (aaop * snap)).

Definition oeig (o : option float) (f : float) : bool :=
  match o with Some a => feq a f | None => negb (f_finite f) end.
Definition pair_eqb (a b : nat * nat) : bool := Nat.eqb (fst a) (fst b) && Nat.eqb (snd a) (snd b).

(* norm-wise vector comparison: |a_i - b_i| <= rtol * max_k(|a_k|,|b_k|) + atol, NaNs must coincide *)
Local Open Scope float_scope.
Definition vmaxabs (a : list float) : float :=
  fold_left (fun acc x => if acc <? abs x then abs x else acc) a 0.
Definition vfeqn (a b : list float) : bool :=
  let s := let x := vmaxabs a in let y := vmaxabs b in if x <? y then y else x in
  list_agree (fun x y => if f_isnan x then f_isnan y else if f_isnan y then false else
                          if PrimFloat.eqb x y then true else
                          if negb (f_finite x) || negb (f_finite y) then false else
                          abs (x - y) <=? f_rtol * s + f_atol) a b.
Local Close Scope float_scope.

Definition snap_of (st : qrst float) : nat * nat * nat * list (list float) * list (list float) * option float * option float * nat :=
  (q_idx st, r_start st, r_end st, get_Q st, get_R st, min_eig st, max_eig st, reorth st).

Definition chk_snap (st : qrst float) (s : snap) : bool :=
  Nat.eqb (q_idx st) (s_qi s) && Nat.eqb (r_start st) (s_head s) && Nat.eqb (r_end st) (s_tail s) &&
  list_agree vfeqn (get_Q st) (s_Q s) && list_agree vfeqn (get_R st) (s_R s) &&
  oeig (min_eig st) (s_min s) && oeig (max_eig st) (s_max s) && Nat.eqb (reorth st) (s_reorth s) &&
  list_agree pair_eqb (ring_iter (q_idx st) (r_start st) (cap st)) (s_it s) &&
  list_agree pair_eqb (map fst (ring_rev_iter (q_idx st) (r_end st) (cap st))) (s_rit s).

(* ---- LimitedMemoryQR op sequences *)
Definition qr_step (stx : qrst float * list float) (o : qrop) : qrst float * list float * bool :=
  let '(st, x) := stx in
  match o with
  | OAdd v => (add_column st v, x, true)
  | ORem => (remove_column st, x, true)
  | OReset => (qr_reset st, x, true)
  | OScale s => (scale_R st s, x, true)
  | OSolve b tol xi => let x' := solve_col st b tol x in (st, x', vfeqn x' xi)
  end.

Fixpoint qr_run (stx : qrst float * list float) (steps : list (qrop * snap)) : bool :=
  match steps with
  | [] => true
  | (o, s) :: rest =>
      let '(st', x', ok) := qr_step stx o in
      ok && chk_snap st' s && qr_run (st', x') rest
  end.
Fixpoint qr_trace (stx : qrst float * list float) (steps : list (qrop * snap)) :=
  match steps with
  | [] => []
  | (o, s) :: rest =>
      let '(st', x', ok) := qr_step stx o in
      (ok, chk_snap st' s, snap_of st', x') :: qr_trace (st', x') rest
  end.

(* ---- AndersonAccel op sequences *)
Definition aa_step (a : aast float) (o : aaop) : aast float * bool * list float :=
  match o with
  | AInit g r => (aa_initialize a g r, true, [])
  | ACompute g r exc xaa =>
      match aa_compute a g r with
      | Some (a', x) => (a', negb exc && vfeqn x xaa, x)
      | None => (a, exc, [])
      end
  | AReset => (aa_reset a, true, [])
  | AScale s => (aa_scale_R a s, true, [])
  end.
Fixpoint aa_run (a : aast float) (steps : list (aaop * snap)) : bool :=
  match steps with
  | [] => true
  | (o, s) :: rest =>
      let '(a', ok, _) := aa_step a o in
      ok && chk_snap (a_qr a') s && aa_run a' rest
  end.
Fixpoint aa_trace (a : aast float) (steps : list (aaop * snap)) :=
  match steps with
  | [] => []
  | (o, s) :: rest =>
      let '(a', ok, x) := aa_step a o in
      (ok, chk_snap (a_qr a') s, snap_of (a_qr a'), x) :: aa_trace a' rest
  end.

Definition chk10 (c : c10case) : bool :=
  match c with
  | CQR n m steps => qr_run (qr_new n m, repeat 0%float m) steps
  | CAA n mem mdf steps => aa_run (aa_new n mem mdf) steps
  end.
Definition model10 (c : c10case) :=
  match c with
  | CQR n m steps => qr_trace (qr_new n m, repeat 0%float m) steps
  | CAA n mem mdf steps => aa_trace (aa_new n mem mdf) steps
  end.
