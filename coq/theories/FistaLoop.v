(* FistaLoop.v — executable model of the WHOLE of FISTASolver::operator() (implementation/inner/fista.tpp, with
   panoc-helpers.tpp: initial_lipschitz_estimate [overload with ψ], calc_error_stop_crit [SolverKernels.crit_eps],
   check_all_stop_conditions [GENERATED gen/StopChain.v]).  The scalar kernels of the loop — momentum recurrence, extrapolation,
   QUB test, backtracking guard and updates, γ = Lγ/L — are the functions GENERATED from fista.tpp (gen/FistaGen.v).
   Model only; proofs are in FistaLoopProofs.v.  (Fista.v is the m = 0, criterion-free skeleton used for the rate proof of C08.)

   The outside world enters as Section variables (oracles); nothing is assumed about them here.  Every oracle also receives the
   event counters at the moment of the call, so problems with state (e.g. the driver's "NaN from evaluation #E on" hook) are
   instances too:
     psi_grad c x   = (ψ, ∇ψ)     problem.eval_ψ_grad_ψ(x, y, Σ, grad, work_n, work_m)
     psi_yhat c x   = (ψ, ŷ)      problem.eval_ψ(x, y, Σ, ŷ)
     grad_L c x ŷ                 problem.eval_grad_L(x, ŷ, grad, work_n)
     grad_psi c x                 problem.eval_grad_ψ(x, y, Σ, grad, work_n, work_m)
     lb ub l1                     the set C / the l1 weights of BoxConstrProblem::eval_prox_grad_step (Prox.v)
     stop_req c / time_up c       stop_signal.stop_requested() / `time_elapsed > max_time` in check_all_stop_conditions
   Loops are structural recursions on explicit fuel (main loop: `fuel`, backtracking loop: `bt_fuel`), result FOutOfFuel.

   Facts of the code the model reproduces (all visible to callers):
   - fixed-step mode (L_min == L_max): only ∇ψ is evaluated at x (eval_grad_ψ), ψx stays NaN; ψ(x̂), ŷ are evaluated in the loop only
     if the stop criterion needs ∇ψ(x̂), otherwise ONCE, in the exit block, AFTER the final progress callback (so every callback
     sees ψ_hat = NaN and an uninitialised ŷ in that mode);  L = L_max, so the backtracking loop never runs;
   - the finite-difference Lipschitz estimate uses curr->x̂ as work vector: the "previous x̂" of iteration 0 is x0 - h, which
     enters the no-progress comparison of iteration 0 and (with coefficient (t0-1)/t1 = 0) the first extrapolation;
   - the no-progress counter is updated BEFORE the stop check of the same iteration; ∇ψ(x̂) is re-evaluated after backtracking. *)
From Coq Require Import List ZArith Bool Arith.
From Alpaqa Require Import Num Vec Prox SolverStatus SolverKernels StopChain FistaGen.
Import ListNotations.

Section FistaLoop.
  Context {T : Type} `{Num T}.
  Local Open Scope num_scope.

  Definition nnan : T := n0 / n0.          (* NaN<config_t> (0/0 at binary64; an unspecified real over R: never relied upon) *)

  (* struct Iterate *)
  Record fiter := mkFIt {
    jx : list T; jxh : list T; jgrad : list T; jgradh : list T; jp : list T; jyh : list T;
    jpsi : T; jpsih : T; jgam : T; jL : T; jpp : T; jgp : T; jh : T }.

  Definition fit_fbe (i : fiter) : T := fbe (jpsi i) (jh i) (jpp i) (jgam i) (jgp i).

  (* FISTAParams (fields used by the loop; print_interval / print_precision do not influence the computation) + InnerSolveOptions *)
  Record fparams := mkFParams {
    fp_max_iter : nat; fp_max_no_progress : nat;
    fp_L0 : T; fp_lip_eps : T; fp_lip_delta : T; fp_Lgamma : T;     (* Lipschitz.{L_0, ε, δ, Lγ_factor} *)
    fp_Lmin : T; fp_Lmax : T;
    fp_crit : stopcrit;
    fp_qub_tol : T;                                                 (* quadratic_upperbound_tolerance_factor *)
    fp_noaccel : bool;                                              (* disable_acceleration *)
    fp_always : bool; fp_tol : T }.                                 (* opts.always_overwrite_results, opts.tolerance *)

  (* event counters: polls of the stop flag (= stop checks), calls of the four problem functions, progress callbacks *)
  Record fcounters := mkFCnt { fc_polls : nat; fc_pg : nat; fc_py : nat; fc_gl : nat; fc_gpsi : nat; fc_cb : nat }.
  Definition fcnt0 := mkFCnt 0 0 0 0 0 0.
  Definition finc_polls c := mkFCnt (S (fc_polls c)) (fc_pg c) (fc_py c) (fc_gl c) (fc_gpsi c) (fc_cb c).
  Definition finc_pg c := mkFCnt (fc_polls c) (S (fc_pg c)) (fc_py c) (fc_gl c) (fc_gpsi c) (fc_cb c).
  Definition finc_py c := mkFCnt (fc_polls c) (fc_pg c) (S (fc_py c)) (fc_gl c) (fc_gpsi c) (fc_cb c).
  Definition finc_gl c := mkFCnt (fc_polls c) (fc_pg c) (fc_py c) (S (fc_gl c)) (fc_gpsi c) (fc_cb c).
  Definition finc_gpsi c := mkFCnt (fc_polls c) (fc_pg c) (fc_py c) (fc_gl c) (S (fc_gpsi c)) (fc_cb c).
  Definition finc_cb c := mkFCnt (fc_polls c) (fc_pg c) (fc_py c) (fc_gl c) (fc_gpsi c) (S (fc_cb c)).

  (* one progress-callback record: (k, iterate, t, ε, status) *)
  Record fcbrec := mkFCb { fr_k : nat; fr_it : fiter; fr_t : T; fr_eps : T; fr_status : status }.

  (* what operator() returns / writes back *)
  Record foutputs := mkFOut {
    fo_status : status; fo_iterations : nat; fo_eps : T;
    fo_x : list T; fo_y : list T; fo_errz : list T;          (* the in/out arguments x, y, err_z after the call *)
    fo_final : fiter;                                        (* *curr at the return statement: final_γ, final_ψ = ψx̂, final_h = hx̂ *)
    fo_bt : nat;                                             (* stepsize_backtracks *)
    fo_log : list fcbrec;                                    (* progress callbacks, oldest first *)
    fo_cnt : fcounters }.
  Inductive fresult := FDone (o : foutputs) | FNotFiniteL (L : T) | FOutOfFuel.

  (* ------------------------------------------------------------------ the outside world *)
  Variable psi_grad : fcounters -> list T -> T * list T.
  Variable psi_yhat : fcounters -> list T -> T * list T.
  Variable grad_L : fcounters -> list T -> list T -> list T.
  Variable grad_psi : fcounters -> list T -> list T.
  Variables (lb ub : list (option T)) (l1 : list T).
  Variable stop_req : fcounters -> bool.
  Variable time_up : fcounters -> bool.
  Variable P : fparams.
  Variables (x_in y_in Σ errz_in : list T).

  (* bool fixed_lipschitz = params.L_min == params.L_max;  bool need_grad_ψx̂ = stop_crit_requires_grad_ψx̂(params.stop_crit) *)
  Definition ffixed : bool := fp_Lmin P =? fp_Lmax P.
  Definition fneed : bool := crit_needs_gradh (fp_crit P).

  (* ------------------------------------------------------------------ the lambdas of operator() *)
  (* qub_violated(i)  [generated expression] *)
  Definition fit_qub_violated (i : fiter) : bool :=
    FistaGen.qub_violated (jpsi i) (jpsih i) (jgp i) (jL i) (jpp i) (fp_qub_tol P).
  (* the guard of the backtracking loop:  curr->L < params.L_max && qub_violated( *curr )  [generated guard] *)
  Definition fit_backtrack (i : fiter) : bool := bt_guard (jL i) (fp_Lmax P) && fit_qub_violated i.

  (* eval_ψ_grad_ψ(i): i.ψx, i.grad_ψ at i.x *)
  Definition feval_psi_grad (c : fcounters) (i : fiter) : fiter :=
    let r := psi_grad c (jx i) in
    mkFIt (jx i) (jxh i) (snd r) (jgradh i) (jp i) (jyh i) (fst r) (jpsih i) (jgam i) (jL i) (jpp i) (jgp i) (jh i).
  (* eval_grad_ψ(i): i.grad_ψ at i.x (ψx untouched) *)
  Definition feval_grad_psi (c : fcounters) (i : fiter) : fiter :=
    mkFIt (jx i) (jxh i) (grad_psi c (jx i)) (jgradh i) (jp i) (jyh i) (jpsi i) (jpsih i) (jgam i) (jL i) (jpp i) (jgp i) (jh i).
  (* eval_prox_grad_step(i): hx̂, x̂, p from (γ, x, grad_ψ); pᵀp = p.squaredNorm(); grad_ψᵀp = p.dot(grad_ψ) *)
  Definition feval_prox (i : fiter) : fiter :=
    let r := eval_prox_grad_step lb ub l1 (jgam i) (jx i) (jgrad i) in
    let xh := fst (fst r) in let p := snd (fst r) in
    mkFIt (jx i) xh (jgrad i) (jgradh i) p (jyh i) (jpsi i) (jpsih i) (jgam i) (jL i) (vsqnorm p) (vdot p (jgrad i)) (snd r).
  (* eval_ψx̂(i): ψx̂, ŷx̂ from eval_ψ(x̂) *)
  Definition feval_psih (c : fcounters) (i : fiter) : fiter :=
    let r := psi_yhat c (jxh i) in
    mkFIt (jx i) (jxh i) (jgrad i) (jgradh i) (jp i) (snd r) (jpsi i) (fst r) (jgam i) (jL i) (jpp i) (jgp i) (jh i).
  (* eval_grad_ψx̂(i): eval_grad_L(x̂, ŷx̂) *)
  Definition feval_gradh (c : fcounters) (i : fiter) : fiter :=
    mkFIt (jx i) (jxh i) (jgrad i) (grad_L c (jxh i) (jyh i)) (jp i) (jyh i) (jpsi i) (jpsih i) (jgam i) (jL i) (jpp i) (jgp i) (jh i).

  Definition fset_gamma_L (i : fiter) (γ L : T) : fiter :=
    mkFIt (jx i) (jxh i) (jgrad i) (jgradh i) (jp i) (jyh i) (jpsi i) (jpsih i) γ L (jpp i) (jgp i) (jh i).
  Definition fset_x (i : fiter) (x : list T) : fiter :=
    mkFIt x (jxh i) (jgrad i) (jgradh i) (jp i) (jyh i) (jpsi i) (jpsih i) (jgam i) (jL i) (jpp i) (jgp i) (jh i).
  Definition fset_xh (i : fiter) (xh : list T) : fiter :=
    mkFIt (jx i) xh (jgrad i) (jgradh i) (jp i) (jyh i) (jpsi i) (jpsih i) (jgam i) (jL i) (jpp i) (jgp i) (jh i).
  (* curr->γ /= 2; curr->L *= 2;  [generated updates] *)
  Definition fhalve_it (i : fiter) : fiter := fset_gamma_L i (bt_gamma (jgam i)) (bt_L (jL i)).

  (* ------------------------------------------------------------------ initial Lipschitz estimate (panoc-helpers.tpp, overload with ψ) *)
  Definition fstd_clamp (v lo hi : T) : T := if v <? lo then lo else if hi <? v then hi else v.
  Definition flipschitz_h (grad : list T) : list T :=
    map (fun g => if n0 <? g then cmax (fp_lip_eps P * g) (fp_lip_delta P) else cmin (fp_lip_eps P * g) (- fp_lip_delta P)) grad.

  (* Iterate{n, m}; curr->x = x; curr->x̂ = x;  everything else uninitialised ([] : never read before written) or NaN *)
  Definition fit0 : fiter := mkFIt x_in x_in [] [] [] [] nnan nnan nnan nnan nnan nnan nnan.

  (* curr after "Estimate Lipschitz constant" (x, grad_ψ, L set; ψx except in fixed-step mode; x̂ = work vector) *)
  Definition finit_L : fiter * fcounters :=
    if ffixed then
      (* curr->L = params.L_max; eval_grad_ψ( *curr ) *)
      (fset_gamma_L (feval_grad_psi fcnt0 fit0) nnan (fp_Lmax P), finc_gpsi fcnt0)
    else if fp_L0 P <=? n0 then
      (* ψ(x₀), ∇ψ(x₀); h; work_x = x - h; ∇ψ(x₀ - h); L = clamp(‖∇ψ(x₀-h) - ∇ψ(x₀)‖ / ‖h‖, L_min, L_max) *)
      let i1 := feval_psi_grad fcnt0 fit0 in
      let c1 := finc_pg fcnt0 in
      let h := flipschitz_h (jgrad i1) in
      let wx := vsub x_in h in
      let norm_h := vnorm2 h in
      let g2 := grad_psi c1 wx in
      let L := fstd_clamp (vnorm2 (vsub g2 (jgrad i1)) / norm_h) (fp_Lmin P) (fp_Lmax P) in
      (fset_gamma_L (fset_xh i1 wx) nnan L, finc_gpsi c1)
    else
      (* curr->L = params.Lipschitz.L_0; eval_ψ_grad_ψ( *curr ) *)
      (fset_gamma_L (feval_psi_grad fcnt0 fit0) nnan (fp_L0 P), finc_pg fcnt0).

  (* ------------------------------------------------------------------ backtracking *)
  (* while (curr->L < L_max && qub_violated( *curr )) { γ /= 2; L *= 2; prox step; ψ(x̂); ++stepsize_backtracks; changed = true } *)
  Fixpoint fbacktrack (fuel : nat) (i : fiter) (c : fcounters) (bt : nat) (changed : bool)
    : option (fiter * fcounters * nat * bool) :=
    if fit_backtrack i then
      match fuel with
      | O => None
      | S f => fbacktrack f (feval_psih c (feval_prox (fhalve_it i))) (finc_py c) (S bt) true
      end
    else Some (i, c, bt, changed).

  (* ------------------------------------------------------------------ one pass of `while (true)` *)
  Record fstate := mkFSt {
    fs_curr : fiter;            (* *curr at the top of the loop: x, ∇ψ(x) [ψ(x)], γ, L valid; x̂ = x̂ of the previous iteration *)
    fs_k : nat; fs_t : T; fs_np : nat;
    fs_cnt : fcounters; fs_bt : nat; fs_log : list fcbrec (* newest first *) }.
  Inductive fpass_result := FExit (o : foutputs) | FCont (s : fstate) | FFuel.

  Definition fit_eps (i : fiter) : T :=
    crit_eps (fp_crit P) lb ub l1 (jp i) (jgam i) (jx i) (jxh i) (jyh i) (jgrad i) (jgradh i).

  Variable bt_fuel : nat.

  (* the part of a pass before the stop check: prox step, ψ(x̂)/ŷ, ∇ψ(x̂), backtracking, ∇ψ(x̂) again if x̂ changed *)
  Definition fpass_step (s : fstate) : option (fiter * fcounters * nat) :=
    let i1 := feval_prox (fs_curr s) in
    (* if (!fixed_lipschitz || need_grad_ψx̂) eval_ψx̂ *)
    let ev := negb ffixed || fneed in
    let i2 := if ev then feval_psih (fs_cnt s) i1 else i1 in
    let c2 := if ev then finc_py (fs_cnt s) else fs_cnt s in
    (* if (need_grad_ψx̂) eval_grad_ψx̂ *)
    let i3 := if fneed then feval_gradh c2 i2 else i2 in
    let c3 := if fneed then finc_gl c2 else c2 in
    match fbacktrack bt_fuel i3 c3 (fs_bt s) false with
    | None => None
    | Some (i4, c4, bt, changed) =>
        (* if (stepsize_changed && need_grad_ψx̂) eval_grad_ψx̂ *)
        let again := changed && fneed in
        Some (if again then feval_gradh c4 i4 else i4, if again then finc_gl c4 else c4, bt)
    end.

  (* Busy: progress callback, momentum update, extrapolation, ψ/∇ψ at the new x, ++k *)
  Definition fcont (s : fstate) (curr : fiter) (c6 : fcounters) (bt np : nat) (ε : T) : fstate :=
    let prev := jxh (fs_curr s) in                         (* prev_x̂ (swapped at the top of the pass) *)
    (* do_progress_cb(k, *curr, t, εₖ, Busy) *)
    let rec := mkFCb (fs_k s) curr (fs_t s) ε StBusy in
    let c7 := finc_cb c6 in
    (* t_new [generated]; x = x̂ | x̂ + ((t_prev - 1)/t_new) (x̂ - prev_x̂) [generated] *)
    let t_new := t_next (fs_t s) in
    let x' := if fp_noaccel P then jxh curr else map2 (extrap1 (fs_t s) t_new) (jxh curr) prev in
    (* fixed_lipschitz ? eval_grad_ψ : eval_ψ_grad_ψ *)
    let nx := if ffixed then feval_grad_psi c7 (fset_x curr x') else feval_psi_grad c7 (fset_x curr x') in
    let c8 := if ffixed then finc_gpsi c7 else finc_pg c7 in
    mkFSt nx (S (fs_k s)) t_new np c8 bt (rec :: fs_log s).

  (* stop_status != Busy: progress callback, late ψ(x̂)/ŷ in fixed-step mode, exit block, statistics *)
  Definition fexit (s : fstate) (curr : fiter) (c6 : fcounters) (bt : nat) (ε : T) (st : status) : foutputs :=
    (* do_progress_cb(k, *curr, t, εₖ, stop_status) *)
    let rec := mkFCb (fs_k s) curr (fs_t s) ε st in
    let c7 := finc_cb c6 in
    (* if (fixed_lipschitz && !need_grad_ψx̂) eval_ψx̂ *)
    let late := ffixed && negb fneed in
    let curr_f := if late then feval_psih c7 curr else curr in
    let c8 := if late then finc_py c7 else c7 in
    (* if (Converged || Interrupted || always_overwrite) { err_z = (ŷ - y)/Σ; x = x̂; y = ŷ } *)
    let eb := exit_block st (fp_always P) x_in y_in errz_in (jxh curr_f) (jyh curr_f) Σ in
    mkFOut st (fs_k s) ε (fst (fst eb)) (snd (fst eb)) (snd eb) curr_f bt (rev (rec :: fs_log s)) c8.

  (* the no-progress counter as updated in iteration k (before the check) *)
  Definition fnp (s : fstate) (curr : fiter) : nat :=
    match no_progress_update (fs_np s) (fs_k s) (fp_max_no_progress P) (veqb (jxh curr) (jxh (fs_curr s))) with
    | Some v => v | None => fs_np s end.

  Definition fpass (s : fstate) : fpass_result :=
    (* prev_x̂.swap(curr->x̂): prev_x̂ = jxh (fs_curr s) from here on *)
    match fpass_step s with
    | None => FFuel
    | Some (curr, c5, bt) =>
        let np := fnp s curr in
        let ε := fit_eps curr in
        (* check_all_stop_conditions: time test and ONE poll of the stop flag *)
        let te := time_up c5 in
        let sr := stop_req c5 in
        let c6 := finc_polls c5 in
        let st := stop_status_helpers (fp_tol P) ε te (fs_k s) (fp_max_iter P) np (fp_max_no_progress P) sr in
        match st with
        | StBusy => FCont (fcont s curr c6 bt np ε)
        | _ => FExit (fexit s curr c6 bt ε st)
        end
    end.

  Fixpoint floop (fuel : nat) (s : fstate) : fresult :=
    match fuel with
    | O => FOutOfFuel
    | S f => match fpass s with
             | FExit o => FDone o
             | FCont s' => floop f s'
             | FFuel => FOutOfFuel
             end
    end.

  (* ------------------------------------------------------------------ operator() *)
  Definition fista (fuel : nat) : fresult :=
    let '(i0, c0) := finit_L in
    if negb (nfinite (jL i0)) then FNotFiniteL (jL i0)       (* s.status = NotFinite; return s;  (nothing written, no callback) *)
    else
      (* curr->γ = Lγ_factor / curr->L [generated];  k = 0; t = 1; no_progress = 0 *)
      let i1 := fset_gamma_L i0 (gamma_of_L (fp_Lgamma P) (jL i0)) (jL i0) in
      floop fuel (mkFSt i1 0 n1 0 c0 0 []).
End FistaLoop.
