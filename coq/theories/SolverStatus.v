(* SolverStatus.v — the exit-status enumeration (inner/internal/solverstatus.hpp) *)
Inductive status := StBusy | StConverged | StMaxTime | StMaxIter | StNotFinite | StNoProgress | StInterrupted | StException.
Definition status_eqb (a b : status) : bool :=
  match a, b with
  | StBusy, StBusy | StConverged, StConverged | StMaxTime, StMaxTime | StMaxIter, StMaxIter
  | StNotFinite, StNotFinite | StNoProgress, StNoProgress | StInterrupted, StInterrupted
  | StException, StException => true
  | _, _ => false
  end.
