(* TypeErased.v — model of alpaqa::util::TypeErased (src/alpaqa/include/alpaqa/util/type-erasure.hpp).

   Pointer-level operational model: a pool of wrapper slots (the C++ objects), a memory of payload objects
   indexed by location (the small buffer of slot s, heap block b, external object e), the table of outstanding
   heap blocks with the allocator that produced them and their size, and a ledger (constructed / destroyed object
   ids, allocated / freed blocks).  The primitive memory operations RAISE an error (field [errs]) whenever the
   C++ program would have undefined or wrong behaviour: destroying something that is not alive, constructing over
   a live object or in freed memory, copying from a dead object, freeing a block that is not outstanding or
   through another allocator / with another size.  The wrapper operations mirror the C++ member functions
   statement by statement (same order, same branches, same stale [size] left behind by cleanup()).
   MODEL ONLY — proofs are in TypeErasedProofs.v. *)
From Coq Require Import ZArith List Bool.
Import ListNotations.
Local Open Scope Z_scope.

(* ---- sentinels (type-erasure.hpp, protected constants) *)
Definition invalid_size   : Z := 16045690984833335023.  (* 0xDEADBEEFDEADBEEF *)
Definition mut_ref_size   : Z := 18446744073709551615.  (* 0xFFFFFFFFFFFFFFFF *)
Definition const_ref_size : Z := 18446744073709551614.  (* 0xFFFFFFFFFFFFFFFE *)
Definition size_indicates_ownership (z : Z) : bool := negb (z =? const_ref_size) && negb (z =? mut_ref_size).
Definition size_indicates_const (z : Z) : bool := z =? const_ref_size.
Definition max_obj_size : Z := 4611686018427387904. (* 2^62: sizeof(T) of a real payload is far below every sentinel *)

(* ---- configuration: small buffer size, allocator traits, number of external objects *)
Record cfg := { sbo : Z; pocca : bool; pocma : bool; soccc0 : bool; n_ext : nat }.

Inductive loc := LBuf (s : nat) | LHeap (b : nat) | LExt (e : nat).
Definition loc_eqb (a b : loc) : bool :=
  match a, b with
  | LBuf x, LBuf y | LHeap x, LHeap y | LExt x, LExt y => Nat.eqb x y
  | _, _ => false
  end.

Record obj := { oid : nat; osz : Z; oval : Z }.
Record wr := { self : option loc; size : Z; alloc : nat }.
Definition set_self (w : wr) (p : option loc) := {| self := p; size := size w; alloc := alloc w |}.
Definition set_size (w : wr) (z : Z) := {| self := self w; size := z; alloc := alloc w |}.
Definition set_alloc (w : wr) (a : nat) := {| self := self w; size := size w; alloc := a |}.

Inductive err := EDoubleDestroy | EUseDead | EOverwrite | EBadDealloc | EDoubleFree.

Record state := {
  pool : nat -> option wr;              (* None = no wrapper object constructed in that slot *)
  mem : loc -> option obj;              (* live payload objects *)
  blocks : nat -> option (nat * Z);     (* outstanding heap blocks: allocator id, size *)
  next_id : nat; next_blk : nat;
  clog : list nat; dlog : list nat;                 (* ids constructed / destroyed, newest first *)
  alog : list (nat * nat * Z); flog : list (nat * nat * Z); (* blocks allocated / freed: (block, allocator, size) *)
  errs : list err }.

Definition upd {A} (f : nat -> A) (k : nat) (v : A) : nat -> A := fun k' => if Nat.eqb k' k then v else f k'.
Definition updl {A} (f : loc -> A) (k : loc) (v : A) : loc -> A := fun k' => if loc_eqb k' k then v else f k'.

Definition raise (e : err) (st : state) : state :=
  {| pool := pool st; mem := mem st; blocks := blocks st; next_id := next_id st; next_blk := next_blk st;
     clog := clog st; dlog := dlog st; alog := alog st; flog := flog st; errs := e :: errs st |}.
Definition setw (i : nat) (w : option wr) (st : state) : state :=
  {| pool := upd (pool st) i w; mem := mem st; blocks := blocks st; next_id := next_id st; next_blk := next_blk st;
     clog := clog st; dlog := dlog st; alog := alog st; flog := flog st; errs := errs st |}.

(* allocator.allocate(z) *)
Definition p_alloc (a : nat) (z : Z) (st : state) : loc * state :=
  (LHeap (next_blk st),
   {| pool := pool st; mem := mem st; blocks := upd (blocks st) (next_blk st) (Some (a, z)); next_id := next_id st;
      next_blk := S (next_blk st); clog := clog st; dlog := dlog st; alog := (next_blk st, a, z) :: alog st;
      flog := flog st; errs := errs st |}).
(* allocator(a).deallocate(l, z) *)
Definition p_dealloc (a : nat) (l : loc) (z : Z) (st : state) : state :=
  match l with
  | LHeap b =>
      match blocks st b with
      | Some (a', z') =>
          if Nat.eqb a' a && (z' =? z) then
            {| pool := pool st; mem := mem st; blocks := upd (blocks st) b None; next_id := next_id st;
               next_blk := next_blk st; clog := clog st; dlog := dlog st; alog := alog st;
               flog := (b, a, z) :: flog st; errs := errs st |}
          else raise EBadDealloc st
      | None => raise EDoubleFree st
      end
  | _ => raise EBadDealloc st
  end.
(* placement-new of a payload of size z with value v at l *)
Definition p_construct (l : loc) (z v : Z) (st : state) : state :=
  match mem st l with
  | Some _ => raise EOverwrite st
  | None =>
      let dead_block := match l with LHeap b => match blocks st b with None => true | _ => false end | _ => false end in
      if dead_block then raise EUseDead st else
      {| pool := pool st; mem := updl (mem st) l (Some {| oid := next_id st; osz := z; oval := v |});
         blocks := blocks st; next_id := S (next_id st); next_blk := next_blk st; clog := next_id st :: clog st;
         dlog := dlog st; alog := alog st; flog := flog st; errs := errs st |}
  end.
(* vtable.destroy(l) *)
Definition p_destroy (l : loc) (st : state) : state :=
  match mem st l with
  | Some o =>
      {| pool := pool st; mem := updl (mem st) l None; blocks := blocks st; next_id := next_id st;
         next_blk := next_blk st; clog := clog st; dlog := oid o :: dlog st; alog := alog st; flog := flog st;
         errs := errs st |}
  | None => raise EDoubleDestroy st
  end.
(* vtable.copy(src, dst) and vtable.move(src, dst): a new object with the same type (size) and value *)
Definition p_copy (src dst : loc) (st : state) : state :=
  match mem st src with
  | Some o => p_construct dst (osz o) (oval o) st
  | None => raise EUseDead st
  end.
Definition p_move := p_copy.
(* write through a non-const reference to the payload *)
Definition p_write (l : loc) (v : Z) (st : state) : state :=
  match mem st l with
  | Some o =>
      {| pool := pool st; mem := updl (mem st) l (Some {| oid := oid o; osz := osz o; oval := v |});
         blocks := blocks st; next_id := next_id st; next_blk := next_blk st; clog := clog st; dlog := dlog st;
         alog := alog st; flog := flog st; errs := errs st |}
  | None => raise EUseDead st
  end.

Section Wrapper.
Variable c : cfg.

(* void deallocate() { if (size > small_buffer_size) allocator.deallocate(self, size); self = nullptr; } *)
Definition deallocate (i : nat) (st : state) : state :=
  match pool st i with
  | None => st
  | Some w =>
      let st := if size w >? sbo c
                then match self w with Some l => p_dealloc (alloc w) l (size w) st | None => raise EBadDealloc st end
                else st in
      setw i (Some (set_self w None)) st
  end.

(* void cleanup() { if (!owns_referenced_object()) self = nullptr;
                    else if (self) { vtable.destroy(self); deallocate(); } }     -- [size] is left as it is *)
Definition cleanup (i : nat) (st : state) : state :=
  match pool st i with
  | None => st
  | Some w =>
      if negb (size_indicates_ownership (size w)) then setw i (Some (set_self w None)) st
      else match self w with
           | Some l => deallocate i (p_destroy l st)
           | None => st
           end
  end.

(* Deallocator allocate(size): self = size <= small_buffer_size ? small_buffer.data() : allocator.allocate(size);
   this->size = size; *)
Definition allocate (i : nat) (z : Z) (st : state) : state :=
  match pool st i with
  | None => st
  | Some w =>
      let '(l, st) := if z <=? sbo c then (LBuf i, st) else p_alloc (alloc w) z st in
      setw i (Some {| self := Some l; size := z; alloc := alloc w |}) st
  end.

(* template <bool CopyAllocator> void do_copy_assign(const TypeErased &other);  this = slot i, other = slot j.
   [thr]: the payload's copy constructor throws (before constructing anything).  Returns (state, threw). *)
Definition do_copy_assign (copy_allocator thr : bool) (i j : nat) (st : state) : state * bool :=
  match pool st i, pool st j with
  | Some w, Some o =>
      let w := if copy_allocator && pocca c then set_alloc w (alloc o) else w in
      let st := setw i (Some w) st in
      match self o with
      | None => (st, false)                                         (* if (!other) return; *)
      | Some lo =>
          if negb (size_indicates_ownership (size o)) then          (* non-owning: copy the pointer *)
            (setw i (Some {| self := Some lo; size := size o; alloc := alloc w |}) st, false)
          else
            let st := allocate i (size o) st in                     (* auto storage_guard = allocate(other.size) *)
            if thr then (deallocate i st, true)                     (* vtable.copy throws -> ~Deallocator *)
            else match pool st i with
                 | Some w' => match self w' with
                              | Some l => (p_copy lo l st, false)   (* vtable.copy(other.self, self); release *)
                              | None => (st, false)
                              end
                 | None => (st, false)
                 end
      end
  | _, _ => (st, false)
  end.

(* the three ways in which a move transfers the payload; this = i (self == nullptr), other = j *)
(* self = std::exchange(other.self, nullptr) *)
Definition steal (i j : nat) (st : state) : state :=
  match pool st i, pool st j with
  | Some w, Some o => setw j (Some (set_self o None)) (setw i (Some (set_self w (self o))) st)
  | _, _ => st
  end.
(* self = small_buffer.data(); vtable.move(other.self, self); vtable.destroy(other.self); other.self = nullptr; *)
Definition move_small (i j : nat) (st : state) : state :=
  match pool st i, pool st j with
  | Some w, Some o =>
      match self o with
      | Some lo =>
          let st := setw i (Some (set_self w (Some (LBuf i)))) st in
          let st := p_move lo (LBuf i) st in
          let st := p_destroy lo st in
          setw j (Some (set_self o None)) st
      | None => st
      end
  | _, _ => st
  end.
(* self = allocator.allocate(size); vtable.move(other.self, self); vtable.destroy(other.self);
   <dealloc_a>.deallocate(other.self, size); other.self = nullptr; *)
Definition move_realloc (dealloc_a : nat) (i j : nat) (st : state) : state :=
  match pool st i, pool st j with
  | Some w, Some o =>
      match self o with
      | Some lo =>
          let '(l, st) := p_alloc (alloc w) (size w) st in
          let st := setw i (Some (set_self w (Some l))) st in
          let st := p_move lo l st in
          let st := p_destroy lo st in
          let st := p_dealloc dealloc_a lo (size w) st in
          setw j (Some (set_self o None)) st
      | None => st
      end
  | _, _ => st
  end.
Definition set_size_at (i : nat) (z : Z) (st : state) : state :=
  match pool st i with Some w => setw i (Some (set_size w z)) st | None => st end.
Definition set_alloc_at (i : nat) (a : nat) (st : state) : state :=
  match pool st i with Some w => setw i (Some (set_alloc w a)) st | None => st end.
Definition new_empty (i : nat) (a : nat) (st : state) : state :=
  setw i (Some {| self := None; size := invalid_size; alloc := a |}) st.

(* TypeErased(TypeErased &&other) noexcept : allocator{std::move(other.allocator)}  — body *)
Definition move_ctor_body (i j : nat) (st : state) : state :=
  match pool st j with
  | None => st
  | Some o =>
      let st := set_size_at i (size o) st in                                        (* size = other.size; *)
      let st :=
        if negb (size_indicates_ownership (size o)) || (size o >? sbo c) then steal i j st
        else match self o with Some _ => move_small i j st | None => st end in
      set_size_at j invalid_size st                                                 (* other.size = invalid_size; *)
  end.

(* TypeErased(TypeErased &&other, const allocator_type &alloc) noexcept  — body *)
Definition move_ctor_alloc_body (i j : nat) (st : state) : state :=
  match pool st i, pool st j with
  | Some w, Some o =>
      match self o with
      | None => st                                                                  (* if (other.self == nullptr) return; *)
      | Some _ =>
          let st := set_size_at i (size o) st in
          let st :=
            if negb (size_indicates_ownership (size o)) then steal i j st
            else if size o >? sbo c then
                   if Nat.eqb (alloc w) (alloc o) then steal i j st
                   else move_realloc (alloc o) i j st                               (* other.deallocate() *)
                 else move_small i j st in
          set_size_at j invalid_size st
      end
  | _, _ => st
  end.

(* TypeErased &operator=(TypeErased &&other) noexcept *)
Definition move_assign (i j : nat) (st : state) : state :=
  if Nat.eqb i j then st else                                                       (* if (&other == this) return *this; *)
  match pool st i, pool st j with
  | Some _, Some o =>
      let st := cleanup i st in
      let st := if pocma c then set_alloc_at i (alloc o) st else st in
      match self o with
      | None => st                                                                  (* if (other.self == nullptr) return *)
      | Some _ =>
          let st := set_size_at i (size o) st in
          let ai := match pool st i with Some w => alloc w | None => 0%nat end in
          let st :=
            if negb (size_indicates_ownership (size o)) then steal i j st
            else if size o >? sbo c then
                   if pocma c || Nat.eqb ai (alloc o) then steal i j st
                   else move_realloc (if pocma c then ai else alloc o) i j st
                 else move_small i j st in
          set_size_at j invalid_size st
      end
  | _, _ => st
  end.

(* TypeErased &operator=(const TypeErased &other) *)
Definition copy_assign (thr : bool) (i j : nat) (st : state) : state * bool :=
  if Nat.eqb i j then (st, false) else
  match pool st i, pool st j with
  | Some _, Some _ => do_copy_assign true thr i j (cleanup i st)
  | _, _ => (st, false)
  end.

(* ~TypeErased() { cleanup(); }  then the object is gone *)
Definition destroy_slot (i : nat) (st : state) : state :=
  match pool st i with Some _ => setw i None (cleanup i st) | None => st end.

(* construct_inplace<T>(args...) for a non-pointer T of size z; [thr]: T's constructor throws *)
Definition construct_inplace (thr : bool) (i : nat) (z v : Z) (st : state) : state * bool :=
  let st := allocate i z st in
  if thr then (deallocate i st, true)
  else match pool st i with
       | Some w => match self w with Some l => (p_construct l z v st, false) | None => (st, false) end
       | None => (st, false)
       end.
(* construct_inplace<T*>(ptr): size = const ? const_ref_size : mut_ref_size; self = ptr; *)
Definition construct_ref (i : nat) (e : nat) (cst : bool) (st : state) : state :=
  match pool st i with
  | Some w => setw i (Some {| self := Some (LExt e); size := if cst then const_ref_size else mut_ref_size; alloc := alloc w |}) st
  | None => st
  end.

(* ---- operations of the test pool (what drv_C16 executes) *)
Inductive op :=
| MkEmpty (i a : nat)                           (* new(slot i) W{allocator_arg, A(a)} *)
| MkVal (i a : nat) (z v : Z) (thr : bool)      (* new(slot i) W{allocator_arg, A(a), in_place_type<Payload<z>>, v} *)
| MkRef (i e a : nat) (cst : bool)              (* new(slot i) W{allocator_arg, A(a), (const) Payload<16>* ext e} *)
| CopyCtor (i j : nat) (thr : bool)             (* new(slot i) W{(const W&) slot j} *)
| CopyCtorA (i j a : nat) (thr : bool)          (* new(slot i) W{(const W&) slot j, A(a)} *)
| MoveCtor (i j : nat)                          (* new(slot i) W{std::move(slot j)} *)
| MoveCtorA (i j a : nat)                       (* new(slot i) W{std::move(slot j), A(a)} *)
| CopyAssign (i j : nat) (thr : bool)
| MoveAssign (i j : nat)
| Destroy (i : nat)
| CallGet (i : nat)                                 (* call(vtable.get)  — const member *)
| CallSet (i : nat) (v : Z)                         (* call(vtable.set, v) — non-const member *)
| AsSet (i : nat) (z v : Z)                     (* as<Payload<z>>().set(v) *)
| AsGet (i : nat) (z : Z)                       (* as<const Payload<z>>().get() *)
| GetPtr (i : nat).                             (* get_pointer() *)

Inductive res := ROk (v : Z) (dispatched : option nat) | RSkip | RThrew | RConst | RType.

Definition valid_obj_size (z : Z) : bool := (0 <? z) && (z <? max_obj_size).

(* a constructor executed over a slot that holds a live wrapper first runs that wrapper's destructor (emplace) *)
Definition nonempty (st : state) (i : nat) : option (wr * loc) :=
  match pool st i with Some w => match self w with Some l => Some (w, l) | None => None end | None => None end.

Definition step (o : op) (st : state) : state * res :=
  match o with
  | MkEmpty i a => (new_empty i a (destroy_slot i st), ROk 0 None)
  | MkVal i a z v thr =>
      if valid_obj_size z then
        let '(st, threw) := construct_inplace thr i z v (new_empty i a (destroy_slot i st)) in
        if threw then (setw i None st, RThrew) else (st, ROk 0 None)
      else (st, RSkip)
  | MkRef i e a cst =>
      if Nat.ltb e (n_ext c) then (construct_ref i e cst (new_empty i a (destroy_slot i st)), ROk 0 None) else (st, RSkip)
  | CopyCtor i j thr =>
      match pool st j with
      | Some o => if Nat.eqb i j then (st, RSkip) else
          let a := if soccc0 c then 0%nat else alloc o in        (* select_on_container_copy_construction *)
          let '(st, threw) := do_copy_assign false thr i j (new_empty i a (destroy_slot i st)) in
          if threw then (setw i None st, RThrew) else (st, ROk 0 None)
      | None => (st, RSkip)
      end
  | CopyCtorA i j a thr =>
      match pool st j with
      | Some o => if Nat.eqb i j then (st, RSkip) else
          let '(st, threw) := do_copy_assign false thr i j (new_empty i a (destroy_slot i st)) in
          if threw then (setw i None st, RThrew) else (st, ROk 0 None)
      | None => (st, RSkip)
      end
  | MoveCtor i j =>
      match pool st j with
      | Some o => if Nat.eqb i j then (st, RSkip) else
          (move_ctor_body i j (new_empty i (alloc o) (destroy_slot i st)), ROk 0 None)
      | None => (st, RSkip)
      end
  | MoveCtorA i j a =>
      match pool st j with
      | Some o => if Nat.eqb i j then (st, RSkip) else
          (move_ctor_alloc_body i j (new_empty i a (destroy_slot i st)), ROk 0 None)
      | None => (st, RSkip)
      end
  | CopyAssign i j thr =>
      match pool st i, pool st j with
      | Some _, Some _ => let '(st, threw) := copy_assign thr i j st in (st, if threw then RThrew else ROk 0 None)
      | _, _ => (st, RSkip)
      end
  | MoveAssign i j =>
      match pool st i, pool st j with
      | Some _, Some _ => (move_assign i j st, ROk 0 None)
      | _, _ => (st, RSkip)
      end
  | Destroy i => match pool st i with Some _ => (destroy_slot i st, ROk 0 None) | None => (st, RSkip) end
  | CallGet i =>
      match nonempty st i with
      | Some (w, l) => match mem st l with
                       | Some ob => (st, ROk (oval ob) (Some (oid ob)))
                       | None => (raise EUseDead st, ROk 0 None)
                       end
      | None => (st, RSkip)
      end
  | CallSet i v =>
      match nonempty st i with
      | Some (w, l) =>
          if size_indicates_const (size w) then (st, RConst)            (* call(): referenced_object_is_const() *)
          else match mem st l with
               | Some ob => (p_write l v st, ROk 0 (Some (oid ob)))
               | None => (raise EUseDead st, ROk 0 None)
               end
      | None => (st, RSkip)
      end
  | AsSet i z v =>
      match nonempty st i with
      | Some (w, l) =>
          match mem st l with
          | Some ob =>
              if negb (osz ob =? z) then (st, RType)                    (* typeid(T) != type() *)
              else if size_indicates_const (size w) then (st, RConst)
              else (p_write l v st, ROk 0 (Some (oid ob)))
          | None => (raise EUseDead st, ROk 0 None)
          end
      | None => (st, RSkip)
      end
  | AsGet i z =>
      match nonempty st i with
      | Some (w, l) =>
          match mem st l with
          | Some ob => if negb (osz ob =? z) then (st, RType) else (st, ROk (oval ob) (Some (oid ob)))
          | None => (raise EUseDead st, ROk 0 None)
          end
      | None => (st, RSkip)
      end
  | GetPtr i =>
      match nonempty st i with
      | Some (w, l) => if size_indicates_const (size w) then (st, RConst) else (st, ROk 1 None)
      | None => (st, RSkip)
      end
  end.

Definition ext_obj (e : nat) : obj := {| oid := e; osz := 16; oval := 100 + Z.of_nat e |}.
Definition init : state :=
  {| pool := fun _ => None;
     mem := fun l => match l with LExt e => if Nat.ltb e (n_ext c) then Some (ext_obj e) else None | _ => None end;
     blocks := fun _ => None; next_id := n_ext c; next_blk := 0%nat;
     clog := rev (seq 0 (n_ext c)); dlog := []; alog := []; flog := []; errs := [] |}.

Definition run (ops : list op) (st : state) : state := fold_left (fun s o => fst (step o s)) ops st.

End Wrapper.
