(* ProxGenExact.v — operand-order-exact equalities: the GENERATED kernels of coq/gen/ProxGen.v are the SAME TERM as the hand
   definitions of Prox.v for EVERY number system (after case analysis on absent bounds / on the shape of l1_reg only), hence in
   particular at binary64 (NumF), where cmax a b and cmax b a differ on NaN and on signed zeros.
   INFORMATIONAL: this file is compiled by lib/vf/proxgen.py and its status is recorded in the evidence
   (coverage.translator_prox.operand_order_exact); it is NOT a dependency of Properties_C15.v, because a harmless rewriting of the
   source that is only arithmetically equivalent (e.g. -(γ*λ) for -γ*λ) must not raise an alarm.  The obligations are in ProxGenEq.v.
   Not exact by construction (stated over R in ProxGenEq.v only): g_inactive1 (the source has `-γ * λ`, the model -(γ*λ)) and
   g_inactive_indices (the model tests `0 =? 0`). *)
From Coq Require Import List ZArith Bool Arith.
From Alpaqa Require Import Num Vec Prox ProxGenLib ProxGen.
Import ListNotations.

Section Exact.
  Context {T : Type} `{Num T}.
  Local Open Scope num_scope.

  Ltac ex := intros; repeat match goal with b : option T |- _ => destruct b end; reflexivity.

  Lemma x_proj1 lb ub v : g_proj1 lb ub v = proj1 lb ub v. Proof. ex. Qed.
  Lemma x_projdiff1 lb ub v : g_projdiff1 lb ub v = projdiff1 lb ub v. Proof. ex. Qed.
  Lemma x_proj_step1 lb ub γ x g : g_proj_step1 lb ub γ x g = proj_step1 lb ub γ x g. Proof. ex. Qed.
  Lemma x_prox_step_l1_1 lb ub λ γ x g : g_prox_step_l1_1 lb ub λ γ x g = box_l1_step1 lb ub λ γ x g. Proof. ex. Qed.
  Lemma x_proj_multiplier1 lb ub M y : g_proj_multiplier1 lb ub M y = proj_mult1 lb ub M y. Proof. ex. Qed.
  Lemma x_inactive_box1 lb ub γ x g : g_inactive_box1 lb ub γ x g = in_interior lb ub (x - γ * g). Proof. ex. Qed.
  Lemma x_l1_prox1 λ γ v : g_l1_prox1 λ γ v = l1_prox1 λ γ v. Proof. ex. Qed.
  Lemma x_l1_prox_w1 λ γ v : g_l1_prox_w1 λ γ v = l1_prox1 λ γ v. Proof. ex. Qed.
  Lemma x_box_prox1 lb ub v : g_box_prox1 lb ub v = proj1 lb ub v. Proof. ex. Qed.
  Lemma x_box_prox_step1 lb ub γf x d : g_box_prox_step1 lb ub γf x d = box_prox_step1 lb ub γf x d. Proof. ex. Qed.
  Lemma x_l1c_prox1 λ γ z : g_l1c_prox1 λ γ z = l1c_prox1 λ γ z.
  Proof. destruct z as [a b]. unfold g_l1c_prox1, l1c_prox1. destruct (_ <=? _); reflexivity. Qed.
  Lemma x_l1_weight (l1 : list T) i : g_l1_weight l1 i = l1_weight l1 i.
  Proof. destruct l1 as [|a [|b l]]; reflexivity. Qed.
  Lemma x_l1_is_zero (l1 : list T) : g_l1_is_zero l1 = l1_is_zero l1.
  Proof. destruct l1 as [|a [|b l]]; reflexivity. Qed.
  Lemma x_proj lb ub (v : list T) : g_proj lb ub v = map3 g_proj1 lb ub v. Proof. reflexivity. Qed.
  Lemma x_l1_prox_scal λ γ (v : list T) : g_l1_prox_scal λ γ v = l1_prox_scal λ γ v.
  Proof. unfold g_l1_prox_scal, l1_prox_scal. destruct (λ =? n0); reflexivity. Qed.
  Lemma x_l1_prox_vec λ γ (v : list T) : g_l1_prox_vec λ γ v = l1_prox_vec λ γ v. Proof. reflexivity. Qed.
End Exact.
