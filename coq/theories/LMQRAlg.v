(* LMQRAlg.v — exact-arithmetic theorems about the limited-memory QR model (LMQR.v at the real instance):
   the factorisation represents the window A (Q * triu(R) = A, column by column and row by row) after add_column,
   remove_column, scale_R, reset, for every history within capacity. *)
From Coq Require Import Reals List Arith Lia Lra Bool Psatz.
From Flocq Require Import Raux.
From Alpaqa Require Import Num NumR Vec LMQR LMQRRing.
Import ListNotations.
Local Open Scope R_scope.

(* ------------------------------------------------------------------ finite sums *)
Fixpoint sumf (f : nat -> R) (k : nat) : R :=
  match k with O => 0 | S k' => sumf f k' + f k' end.

Lemma sumf_ext f g k : (forall i, (i < k)%nat -> f i = g i) -> sumf f k = sumf g k.
Proof. induction k; simpl; intros; auto. rewrite IHk by auto. rewrite H by auto. auto. Qed.
Lemma sumf_shift f k : sumf f (S k) = f O + sumf (fun i => f (S i)) k.
Proof. induction k; simpl in *; lra. Qed.
Lemma sumf_plus f g k : sumf (fun i => f i + g i) k = sumf f k + sumf g k.
Proof. induction k; simpl; try rewrite IHk; lra. Qed.
Lemma sumf_scal c f k : sumf (fun i => c * f i) k = c * sumf f k.
Proof. induction k; simpl; try rewrite IHk; lra. Qed.
Lemma sumf_zero k : sumf (fun _ => 0) k = 0.
Proof. induction k; simpl; lra. Qed.
(* a plane rotation of two adjacent terms that keeps their sum *)
Lemma sumf_rot f g r k : (S r < k)%nat -> (forall i, i <> r -> i <> S r -> f i = g i) ->
  f r + f (S r) = g r + g (S r) -> sumf f k = sumf g k.
Proof.
  intros Hk He Hr. induction k; [lia|].
  destruct (Nat.eq_dec (S r) k) as [E|E].
  - subst k. simpl. rewrite (sumf_ext f g r) by (intros; apply He; lia). lra.
  - simpl. rewrite IHk by lia. rewrite He by lia. auto.
Qed.

(* ------------------------------------------------------------------ list accessors at R *)
Lemma getv_R (v : list R) i : getv v i = nth i v 0.
Proof. reflexivity. Qed.
Lemma getv_nil i : getv (T:=R) [] i = 0.
Proof. destruct i; reflexivity. Qed.
Lemma getv_upd_same i f (l : list R) : (i < length l)%nat -> getv (upd i f l) i = f (getv l i).
Proof. intros. unfold getv. apply nth_upd_same; auto. Qed.
Lemma getv_upd_other i k f (l : list R) : i <> k -> getv (upd k f l) i = getv l i.
Proof. intros. unfold getv. apply nth_upd_other; auto. Qed.
Lemma getc_upd_same i f (l : list (list R)) : (i < length l)%nat -> getc (upd i f l) i = f (getc l i).
Proof. intros. unfold getc. apply nth_upd_same; auto. Qed.
Lemma getc_upd_other i k f (l : list (list R)) : i <> k -> getc (upd k f l) i = getc l i.
Proof. intros. unfold getc. apply nth_upd_other; auto. Qed.

Lemma map2_length {A B C} (f : A -> B -> C) a b : length (map2 f a b) = Nat.min (length a) (length b).
Proof. revert b; induction a; intros [|y b]; simpl; auto. Qed.
Lemma getv_map2 (f : R -> R -> R) a b t : length a = length b -> f 0 0 = 0 ->
  getv (map2 f a b) t = f (getv a t) (getv b t).
Proof.
  intros Hl H0. rewrite !getv_R. revert b t Hl. induction a; intros [|y b] t Hl; simpl in *; try discriminate.
  - destruct t; auto.
  - destruct t; auto.
Qed.
Lemma getv_map (f : R -> R) a t : f 0 = 0 -> getv (map f a) t = f (getv a t).
Proof. intros H0. rewrite !getv_R. revert t; induction a; intros [|t]; simpl; auto. Qed.

Lemma getv_vsub a b t : length a = length b -> getv (vsub a b) t = getv a t - getv b t.
Proof. intros. unfold vsub. rewrite getv_map2; auto. numR. lra. Qed.
Lemma getv_vadd a b t : length a = length b -> getv (vadd a b) t = getv a t + getv b t.
Proof. intros. unfold vadd. rewrite getv_map2; auto. numR. lra. Qed.
Lemma getv_vscale s a t : getv (vscale s a) t = s * getv a t.
Proof. unfold vscale. rewrite getv_map; auto. numR. lra. Qed.
Lemma vsub_length (a b : list R) : length a = length b -> length (vsub a b) = length a.
Proof. intros. unfold vsub. rewrite map2_length. lia. Qed.
Lemma vadd_length (a b : list R) : length a = length b -> length (vadd a b) = length a.
Proof. intros. unfold vadd. rewrite map2_length. lia. Qed.
Lemma vscale_length s (a : list R) : length (vscale s a) = length a.
Proof. unfold vscale. apply map_length. Qed.

Lemma nth_firstn_lt {A} (l : list A) k i d : (i < k)%nat -> nth i (firstn k l) d = nth i l d.
Proof. revert k i; induction l; intros [|k] [|i] H; simpl; auto; try lia. apply IHl; lia. Qed.
Lemma Forall_firstn' {A} (P : A -> Prop) l k : Forall P l -> Forall P (firstn k l).
Proof. intros H. revert k; induction H; intros [|k]; simpl; constructor; auto. Qed.
Lemma Forall_upd {A} (P : A -> Prop) l k f : Forall P l -> (forall x, P x -> P (f x)) -> Forall P (upd k f l).
Proof. intros H Hf. revert k; induction H; intros [|k]; simpl; constructor; auto. Qed.
Lemma Forall_nth' {A} (P : A -> Prop) l i d : Forall P l -> (i < length l)%nat -> P (nth i l d).
Proof. intros H. revert i; induction H; intros [|i] Hl; simpl in *; try lia; auto. apply IHForall; lia. Qed.

(* fold of keyed in-place updates over a list with distinct keys *)
Section FoldUpd.
  Context {E B : Type} (key : E -> nat) (F : E -> B -> B) (d : B).
  Let step := fun (M : list B) (e : E) => upd (key e) (F e) M.
  Lemma fold_upd_length W M : length (fold_left step W M) = length M.
  Proof. revert M; induction W; simpl; intros; auto. rewrite IHW. apply upd_length. Qed.
  Lemma fold_upd_notin W M c : ~ In c (map key W) -> nth c (fold_left step W M) d = nth c M d.
  Proof.
    revert M; induction W; simpl; intros; auto. rewrite IHW by tauto. apply nth_upd_other. intros E'. apply H. left. auto.
  Qed.
  Lemma fold_upd_in W M e : NoDup (map key W) -> In e W -> (key e < length M)%nat ->
    nth (key e) (fold_left step W M) d = F e (nth (key e) M d).
  Proof.
    revert M; induction W as [|a W IH]; simpl; intros M Hn Hi Hl; [tauto|].
    inversion Hn; subst. destruct Hi as [->|Hi].
    - rewrite fold_upd_notin by auto. apply nth_upd_same; auto.
    - rewrite IH; auto.
      + f_equal. apply nth_upd_other. intros E'. apply H1. rewrite <- E'. apply in_map; auto.
      + unfold step. rewrite upd_length; auto.
  Qed.
  Lemma fold_upd_Forall (P : B -> Prop) W M : Forall P M -> (forall e x, P x -> P (F e x)) -> Forall P (fold_left step W M).
  Proof. revert M; induction W; simpl; intros; auto. apply IHW; auto. apply Forall_upd; auto. Qed.
End FoldUpd.

(* ------------------------------------------------------------------ what "the factorisation represents A" means *)
Definition Qat (st : qrst R) (t i : nat) : R := getv (getc (Qs st) i) t.        (* Q(t, i) *)
Definition Rl (st : qrst R) (i j : nat) : R := getv (Rlog st j) i.              (* R(i, j), logical column j *)
Definition Acol (A : list (list R)) (j t : nat) : R := getv (getc A j) t.       (* A(t, j) *)
(* A(t,j) = sum_{i<=j} Q(t,i) R(i,j): only the upper triangle of R enters (this is what get_R() exposes) *)
Definition QRrep (st : qrst R) (A : list (list R)) : Prop :=
  length A = q_idx st /\
  forall j t, (j < q_idx st)%nat -> sumf (fun i => Rl st i j * Qat st t i) (S j) = Acol A j t.

Definition ring_of (st : qrst R) : ring := mkRing (q_idx st) (r_start st) (r_end st).
Definition wf (n : nat) (st : qrst R) : Prop :=
  (0 < cap st)%nat /\ ring_inv (cap st) (ring_of st) /\
  length (Qs st) = cap st /\ Forall (fun c => length c = n) (Qs st) /\
  length (Rs st) = cap st /\ Forall (fun c => length c = cap st) (Rs st).

Lemma repeat_Forall {A} (P : A -> Prop) x k : P x -> Forall P (repeat x k).
Proof. induction k; simpl; constructor; auto. Qed.
Lemma wf_new n m : (0 < m)%nat -> wf n (qr_new n m).
Proof.
  intros. unfold wf, qr_new; cbn [Qs Rs cap ring_of q_idx r_start r_end].
  split; auto. split; [apply ring_inv_init; auto|].
  split; [apply repeat_length|]. split; [apply repeat_Forall, repeat_length|].
  split; [apply repeat_length|]. apply repeat_Forall, repeat_length.
Qed.
Lemma QRrep_new n m : QRrep (qr_new n m) [].
Proof. split; simpl; auto. intros; lia. Qed.

(* ------------------------------------------------------------------ add_column *)
Lemma mgs_spec n : forall Qc q, Forall (fun c => length c = n) Qc -> length q = n ->
  length (fst (mgs Qc q)) = n /\ length (snd (mgs Qc q)) = length Qc /\
  forall t, getv (fst (mgs Qc q)) t = getv q t - sumf (fun i => getv (snd (mgs Qc q)) i * getv (getc Qc i) t) (length Qc).
Proof.
  induction Qc as [|a Qc IH]; intros q HF Hq.
  - simpl. repeat split; auto. intros; lra.
  - assert (Ha : length a = n) by (inversion HF; auto).
    assert (HF' : Forall (fun c => length c = n) Qc) by (inversion HF; auto). cbn [mgs].
    set (s := vdot a q).
    assert (Hl : length (vsub q (vscale s a)) = n).
    { rewrite vsub_length; rewrite ?vscale_length; lia. }
    specialize (IH (vsub q (vscale s a)) HF' Hl).
    destruct (mgs Qc (vsub q (vscale s a))) as [q' ss]. cbn [fst snd] in *.
    destruct IH as (L1 & L2 & L3). repeat split; auto.
    + simpl. lia.
    + intros t. rewrite L3. cbn [length]. rewrite sumf_shift.
      rewrite getv_vsub by (rewrite vscale_length; lia). rewrite getv_vscale.
      unfold getc, getv. simpl. lra.
Qed.

Definition mgs_inv (n : nat) (Qc : list (list R)) (v q rr : list R) : Prop :=
  length q = n /\ length rr = length Qc /\
  forall t, getv q t + sumf (fun i => getv rr i * getv (getc Qc i) t) (length Qc) = getv v t.

Lemma reorth_spec n Qc v : Forall (fun c => length c = n) Qc ->
  forall fuel q rr nq nv cnt, mgs_inv n Qc v q rr ->
  match reorth_loop fuel Qc q rr nq nv cnt with (q', rr', _, _) => mgs_inv n Qc v q' rr' end.
Proof.
  intros HF. induction fuel as [|f IH]; intros q rr nq nv cnt Hi; cbn [reorth_loop]; auto.
  destruct (nltb nq (nmul eta nv)); auto.
  destruct Hi as (H1 & H2 & H3).
  pose proof (mgs_spec n Qc q HF H1) as (L1 & L2 & L3).
  destruct (mgs Qc q) as [q' ss]. cbn [fst snd] in *.
  apply IH. repeat split; auto.
  - rewrite vadd_length; lia.
  - intros t.
    rewrite (sumf_ext _ (fun i => getv rr i * getv (getc Qc i) t + getv ss i * getv (getc Qc i) t)).
    + rewrite sumf_plus. rewrite L3. rewrite <- (H3 t). lra.
    + intros i Hi. rewrite getv_vadd by lia. lra.
Qed.

(* the norm the new column is divided by (after the re-orthogonalisation passes) *)
Definition add_norm (st : qrst R) (v : list R) : R :=
  let Qc := firstn (q_idx st) (Qs st) in
  let '(q0, r0) := mgs Qc v in
  let '(_, _, nq, _) := reorth_loop reorth_fuel Qc q0 r0 (vnorm2 q0) (vnorm2 v) (reorth st) in nq.

Lemma ring_of_add st v : ring_of (add_column st v) = ring_step (cap st) (ring_of st) RAdd.
Proof.
  unfold add_column. destruct (mgs _ v) as [q0 r0].
  destruct (reorth_loop _ _ _ _ _ _ _) as [[[q rr] nq] cnt]. reflexivity.
Qed.
Lemma cap_add st v : cap (add_column st v) = cap st.
Proof.
  unfold add_column. destruct (mgs _ v) as [q0 r0].
  destruct (reorth_loop _ _ _ _ _ _ _) as [[[q rr] nq] cnt]. reflexivity.
Qed.

Theorem add_keeps_QR n st A v :
  wf n st -> length v = n -> (q_idx st < cap st)%nat -> QRrep st A -> add_norm st v <> 0 ->
  QRrep (add_column st v) (A ++ [v]) /\ wf n (add_column st v).
Proof.
  intros (Hm & Hr & HQl & HQf & HRl & HRf) Hv Hk (HA & HQR) Hn.
  assert (Hr' := Hr). destruct Hr' as (R1 & R2 & R3 & R4). cbn [ring_of g_qi g_rs g_re] in *.
  pose proof (ring_of_add st v) as Hring. pose proof (cap_add st v) as Hcap.
  unfold add_norm in Hn. unfold add_column in *.
  set (k := q_idx st) in *. set (Qc := firstn k (Qs st)) in *.
  assert (HQc : Forall (fun c => length c = n) Qc) by (apply Forall_firstn'; auto).
  assert (HQcl : length Qc = k) by (unfold Qc; rewrite firstn_length; lia).
  pose proof (mgs_spec n Qc v HQc Hv) as (L1 & L2 & L3).
  destruct (mgs Qc v) as [q0 r0]. cbn [fst snd] in *.
  assert (Hi0 : mgs_inv n Qc v q0 r0).
  { repeat split; auto. intros t. rewrite L3. lra. }
  pose proof (reorth_spec n Qc v HQc reorth_fuel q0 r0 (vnorm2 q0) (vnorm2 v) (reorth st) Hi0) as Hi.
  destruct (reorth_loop reorth_fuel Qc q0 r0 (vnorm2 q0) (vnorm2 v) (reorth st)) as [[[q rr] nq] cnt].
  destruct Hi as (I1 & I2 & I3).
  cbn [Qs Rs cap q_idx r_start r_end] in *.
  assert (Hre : (r_end st < length (Rs st))%nat) by lia.
  split.
  - split; [rewrite app_length; simpl; lia|].
    cbn [q_idx]. intros j t Hj.
    destruct (Nat.eq_dec j k) as [->|Hjk].
    + (* the new column *)
      unfold Acol, getc. rewrite app_nth2 by lia. replace (k - length A)%nat with O by lia. cbn [nth].
      cbn [sumf]. unfold Rl, Rlog, Qat. cbn [Qs Rs cap q_idx r_start r_end].
      rewrite <- R4. rewrite getc_upd_same by auto. rewrite getc_upd_same by lia.
      rewrite getv_R, app_nth2 by lia. replace (k - length rr)%nat with O by lia. cbn [nth].
      rewrite getv_map by (numR; lra).
      rewrite (sumf_ext _ (fun i => getv rr i * getv (getc Qc i) t)).
      * rewrite <- (I3 t). rewrite HQcl. numR. field. exact Hn.
      * intros i Hi. rewrite getc_upd_other by lia. rewrite getv_R, app_nth1 by lia.
        unfold Qc, getc. rewrite nth_firstn_lt by lia. reflexivity.
    + (* old columns are untouched *)
      assert (j < k)%nat as Hlt by lia.
      assert (Acol (A ++ [v]) j t = Acol A j t) as -> by (unfold Acol, getc; rewrite app_nth1 by lia; reflexivity).
      rewrite <- (HQR j t Hlt).
      apply sumf_ext. intros i Hi. unfold Rl, Rlog, Qat. cbn [Qs Rs cap q_idx r_start r_end].
      rewrite getc_upd_other by (rewrite R4; apply mod_inj_window; lia).
      rewrite getc_upd_other by lia. reflexivity.
  - unfold wf. cbn [Qs Rs cap q_idx r_start r_end ring_of] in *.
    split; auto. split.
    { change (ring_inv (cap st) (ring_step (cap st) (mkRing k (r_start st) (r_end st)) RAdd)).
      apply ring_inv_step; auto. simpl. apply Nat.ltb_lt. auto. }
    split; [rewrite upd_length; auto|]. split.
    { apply Forall_upd; auto. intros. rewrite map_length. auto. }
    split; [rewrite upd_length; auto|].
    apply Forall_upd; auto. intros x Hx. rewrite app_length. cbn [length]. rewrite skipn_length. lia.
Qed.

(* ------------------------------------------------------------------ Givens rotation (Eigen's makeGivens for reals) *)
Lemma make_givens_spec (p q : R) :
  match make_givens p q with
  | (c, s, r) => c * c + s * s = 1 /\ p = c * r /\ q = - s * r /\ 0 <= r
  end.
Proof.
  unfold make_givens. numR.
  destruct (Req_bool_spec q 0) as [Hq|Hq].
  { destruct (Rlt_bool_spec p 0); repeat split; try lra; unfold Rabs; destruct (Rcase_abs p); lra. }
  destruct (Req_bool_spec p 0) as [Hp|Hp].
  { destruct (Rlt_bool_spec q 0); repeat split; try lra; unfold Rabs; destruct (Rcase_abs q); lra. }
  destruct (Rlt_bool_spec (Rabs q) (Rabs p)) as [Hpq|Hpq].
  - set (t := q / p). set (u0 := sqrt (1 + t * t)).
    assert (Hpos : 0 < 1 + t * t) by nra.
    assert (Hu0 : 0 < u0) by (apply sqrt_lt_R0; auto).
    assert (Huu : u0 * u0 = 1 + t * t) by (apply sqrt_sqrt; lra).
    assert (Ht : t * p = q) by (unfold t; field; auto).
    destruct (Rlt_bool_spec p 0) as [Hs|Hs].
    + repeat split.
      * transitivity ((1 + t * t) / (u0 * u0)); [field; lra | rewrite Huu; field; lra].
      * field. lra.
      * rewrite <- Ht. field. lra.
      * nra.
    + repeat split.
      * transitivity ((1 + t * t) / (u0 * u0)); [field; lra | rewrite Huu; field; lra].
      * field. lra.
      * rewrite <- Ht. field. lra.
      * nra.
  - set (t := p / q). set (u0 := sqrt (1 + t * t)).
    assert (Hpos : 0 < 1 + t * t) by nra.
    assert (Hu0 : 0 < u0) by (apply sqrt_lt_R0; auto).
    assert (Huu : u0 * u0 = 1 + t * t) by (apply sqrt_sqrt; lra).
    assert (Ht : t * q = p) by (unfold t; field; auto).
    destruct (Rlt_bool_spec q 0) as [Hs|Hs].
    + repeat split.
      * transitivity ((1 + t * t) / (u0 * u0)); [field; lra | rewrite Huu; field; lra].
      * rewrite <- Ht. field. lra.
      * field. lra.
      * nra.
    + repeat split.
      * transitivity ((1 + t * t) / (u0 * u0)); [field; lra | rewrite Huu; field; lra].
      * rewrite <- Ht. field. lra.
      * field. lra.
      * nra.
Qed.

(* ------------------------------------------------------------------ plane rotations on storage *)
Lemma rot_trivial_R c s : rot_trivial (T:=R) c s = true -> c = 1 /\ s = 0.
Proof.
  unfold rot_trivial. numR. destruct (Req_bool_spec c 1), (Req_bool_spec (- s) 0); simpl; intros; try discriminate; split; lra.
Qed.

Lemma rot_rows_length c s r (col : list R) : length (rot_rows c s r col) = length col.
Proof. unfold rot_rows. destruct (rot_trivial c s); auto. rewrite !upd_length. auto. Qed.

Lemma getv_rot_rows c s r (col : list R) i : (S r < length col)%nat ->
  getv (rot_rows c s r col) i =
    if Nat.eqb i r then c * getv col r - s * getv col (S r)
    else if Nat.eqb i (S r) then s * getv col r + c * getv col (S r) else getv col i.
Proof.
  intros Hl. unfold rot_rows. destruct (rot_trivial c s) eqn:E.
  - apply rot_trivial_R in E as [-> ->].
    destruct (Nat.eqb_spec i r); [subst; lra|]. destruct (Nat.eqb_spec i (S r)); [subst; lra|]. auto.
  - destruct (Nat.eqb_spec i r) as [->|Hir].
    + rewrite getv_upd_same by (rewrite upd_length; lia). unfold rotx. numR. lra.
    + rewrite getv_upd_other by auto. destruct (Nat.eqb_spec i (S r)) as [->|Hir'].
      * rewrite getv_upd_same by lia. unfold roty. numR. lra.
      * rewrite getv_upd_other by auto. auto.
Qed.

Lemma getc_len n (Q : list (list R)) i : Forall (fun x => length x = n) Q -> (i < length Q)%nat -> length (getc Q i) = n.
Proof. intros. unfold getc. apply (Forall_nth' (fun x => length x = n) Q i []); auto. Qed.

Lemma rot_cols_length c s r (Q : list (list R)) : length (rot_cols c s r Q) = length Q.
Proof. unfold rot_cols. destruct (rot_trivial c s); auto. rewrite !upd_length. auto. Qed.

Lemma rot_cols_Forall n c s r (Q : list (list R)) : Forall (fun x => length x = n) Q -> (S r < length Q)%nat ->
  Forall (fun x => length x = n) (rot_cols c s r Q).
Proof.
  intros HF Hl. unfold rot_cols. destruct (rot_trivial c s); auto.
  assert (length (getc Q r) = n) by (apply getc_len; auto; lia).
  assert (length (getc Q (S r)) = n) by (apply getc_len; auto).
  apply Forall_upd; [apply Forall_upd; auto|]; intros; rewrite map2_length; lia.
Qed.

Lemma getv_rot_cols n c s r (Q : list (list R)) i t : Forall (fun x => length x = n) Q -> (S r < length Q)%nat ->
  getv (getc (rot_cols c s r Q) i) t =
    if Nat.eqb i r then c * getv (getc Q r) t - s * getv (getc Q (S r)) t
    else if Nat.eqb i (S r) then s * getv (getc Q r) t + c * getv (getc Q (S r)) t else getv (getc Q i) t.
Proof.
  intros HF Hl. unfold rot_cols.
  assert (L1 : length (getc Q r) = n) by (apply getc_len; auto; lia).
  assert (L2 : length (getc Q (S r)) = n) by (apply getc_len; auto).
  destruct (rot_trivial c s) eqn:E.
  - apply rot_trivial_R in E as [-> ->].
    destruct (Nat.eqb_spec i r); [subst; lra|]. destruct (Nat.eqb_spec i (S r)); [subst; lra|]. auto.
  - destruct (Nat.eqb_spec i r) as [->|Hir].
    + rewrite getc_upd_same by (rewrite upd_length; lia).
      rewrite getv_map2 by (unfold rotx; numR; lia || lra). unfold rotx. numR. lra.
    + rewrite getc_upd_other by auto. destruct (Nat.eqb_spec i (S r)) as [->|Hir'].
      * rewrite getc_upd_same by lia. rewrite getv_map2 by (unfold roty; numR; lia || lra). unfold roty. numR. lra.
      * rewrite getc_upd_other by auto. auto.
Qed.

Lemma mod_range_nodup m a : (0 < m)%nat -> forall n z, (n <= m)%nat -> NoDup (map (fun i => (a + i) mod m) (seq z n)).
Proof.
  intros Hm. induction n; intros z Hn; simpl; constructor.
  - rewrite in_map_iff. intros (j & E & Hj). apply in_seq in Hj. symmetry in E. revert E. apply mod_inj_window; lia.
  - apply IHn. lia.
Qed.

(* ------------------------------------------------------------------ remove_column: the Givens sweep *)
(* during the sweep the window is indexed from the NEW start r_succ(r_start): new logical column j is old column j+1 *)
Definition Rl' (st : qrst R) (i j : nat) : R := Rat st i ((r_start st + 1 + j) mod cap st).
(* columns left of r are triangular already, the others are still upper Hessenberg (one extra entry) *)
Definition sweep_inv (n : nat) (A : list (list R)) (st : qrst R) (r : nat) : Prop :=
  wf n st /\ length A = q_idx st /\
  forall j t, (S j < q_idx st)%nat ->
    sumf (fun i => Rl' st i j * Qat st t i) (if Nat.ltb j r then S j else S (S j)) = Acol A (S j) t.

Lemma givens_step_fields st r c :
  cap (givens_step st r c) = cap st /\ q_idx (givens_step st r c) = q_idx st /\
  r_start (givens_step st r c) = r_start st /\ r_end (givens_step st r c) = r_end st.
Proof. unfold givens_step. destruct (make_givens _ _) as [[cs sn] rr]. simpl. auto. Qed.

Lemma givens_step_inv n A st r :
  sweep_inv n A st r -> (S r < q_idx st)%nat ->
  sweep_inv n A (givens_step st r ((r_start st + 1 + r) mod cap st)) (S r).
Proof.
  intros (Hwf & HA & HS) Hr.
  destruct Hwf as (Hm & Hring & HQl & HQf & HRl & HRf).
  assert (Hring' := Hring). destruct Hring' as (R1 & R2 & R3 & R4). cbn [ring_of g_qi g_rs g_re] in *.
  set (k := q_idx st) in *. set (m := cap st) in *. set (rs := r_start st) in *.
  set (c := (rs + 1 + r) mod m).
  assert (Hc : (c < m)%nat) by (apply Nat.mod_upper_bound; lia).
  unfold givens_step. fold m. fold k. fold rs.
  pose proof (make_givens_spec (getv (getc (Rs st) c) r) (getv (getc (Rs st) c) (S r))) as G.
  destruct (make_givens (getv (getc (Rs st) c) r) (getv (getc (Rs st) c) (S r))) as [[cs sn] rr].
  destruct G as (G1 & G2 & G3 & G4).
  (* the inner for-loop visits the storage columns of old logical columns r+2 .. k-1 *)
  assert (HL : until_loop m m (r_succ m c) (r_end st) = map (fun i => (rs + i) mod m) (seq (r + 2) (k - (r + 2)))).
  { unfold c. rewrite add_mod_succ by lia. replace (rs + 1 + S r)%nat with (rs + (r + 2))%nat by lia.
    apply (until_loop_enumerates m (ring_of st) (r + 2)); auto. cbn [ring_of g_qi]. lia. }
  rewrite HL. set (L := map (fun i => (rs + i) mod m) (seq (r + 2) (k - (r + 2)))).
  set (R1' := upd c (upd r (fun _ : R => rr)) (Rs st)).
  set (R2' := fold_left (fun (R0 : list (list R)) (cc : nat) => upd cc (rot_rows cs sn r) R0) L R1').
  assert (HLnd : NoDup L) by (apply mod_range_nodup; lia).
  assert (HLin : forall x, In x L <-> exists i, (r + 2 <= i < k)%nat /\ x = (rs + i) mod m).
  { intros x. unfold L. rewrite in_map_iff. split.
    - intros (i & E & Hi). apply in_seq in Hi. exists i. split; auto. lia.
    - intros (i & Hi & E). exists i. split; auto. apply in_seq. lia. }
  pose proof (fold_upd_notin (fun x : nat => x) (fun _ : nat => rot_rows cs sn r) (@nil R) L R1') as Fnot.
  pose proof (fold_upd_in (fun x : nat => x) (fun _ : nat => rot_rows cs sn r) (@nil R) L R1') as Fin.
  pose proof (fold_upd_length (fun x : nat => x) (fun _ : nat => rot_rows cs sn r) L R1') as Flen.
  pose proof (fold_upd_Forall (fun x : nat => x) (fun _ : nat => rot_rows cs sn r) (fun x => length x = m) L R1') as Ffa.
  cbv beta in Fnot, Fin, Flen, Ffa. rewrite map_id in Fnot, Fin. fold R2' in Fnot, Fin, Flen, Ffa.
  assert (HR1len : length R1' = m) by (unfold R1'; rewrite upd_length; auto).
  (* the three kinds of columns *)
  assert (F1 : forall j, (j < r)%nat -> getc R2' ((rs + 1 + j) mod m) = getc (Rs st) ((rs + 1 + j) mod m)).
  { intros j Hj. unfold getc. rewrite Fnot.
    - unfold R1'. apply nth_upd_other. unfold c. replace (rs + 1 + j)%nat with (rs + (1 + j))%nat by lia.
      replace (rs + 1 + r)%nat with (rs + (1 + r))%nat by lia. apply mod_inj_window; lia.
    - rewrite HLin. intros (i & Hi & E). revert E. replace (rs + 1 + j)%nat with (rs + (1 + j))%nat by lia.
      apply mod_inj_window; lia. }
  assert (F2 : getc R2' c = upd r (fun _ => rr) (getc (Rs st) c)).
  { unfold getc. rewrite Fnot.
    - unfold R1'. apply nth_upd_same. lia.
    - rewrite HLin. intros (i & Hi & E). revert E. unfold c. replace (rs + 1 + r)%nat with (rs + (1 + r))%nat by lia.
      apply mod_inj_window; lia. }
  assert (F3 : forall j, (r < j)%nat -> (S j < k)%nat ->
               getc R2' ((rs + 1 + j) mod m) = rot_rows cs sn r (getc (Rs st) ((rs + 1 + j) mod m))).
  { intros j Hj Hjk. unfold getc. rewrite Fin; auto.
    - f_equal. unfold R1'. apply nth_upd_other. unfold c. replace (rs + 1 + j)%nat with (rs + (1 + j))%nat by lia.
      replace (rs + 1 + r)%nat with (rs + (1 + r))%nat by lia. intros E. symmetry in E. revert E. apply mod_inj_window; lia.
    - rewrite HLin. exists (S j). split; [lia|]. f_equal. lia.
    - rewrite HR1len. apply Nat.mod_upper_bound. lia. }
  assert (HcolL : forall x, (x < m)%nat -> length (getc (Rs st) x) = m).
  { intros. apply getc_len; auto. lia. }
  split; [|split].
  - (* wf *)
    unfold wf. cbn [Qs Rs cap q_idx r_start r_end ring_of].
    split; auto. split; auto.
    split; [rewrite rot_cols_length; auto|].
    split; [apply rot_cols_Forall; auto; lia|].
    split; [rewrite Flen; auto|].
    apply Ffa.
    + unfold R1'. apply Forall_upd; auto. intros. rewrite upd_length. auto.
    + intros. rewrite rot_rows_length. auto.
  - cbn [q_idx]. auto.
  - cbn [q_idx]. intros j t Hj. rewrite <- (HS j t Hj).
    unfold Rl', Rat, Qat. cbn [Qs Rs cap q_idx r_start r_end]. fold m. fold rs.
    assert (HSr : (S r < length (Qs st))%nat) by lia.
    destruct (Nat.lt_trichotomy j r) as [Hjr|[Hjr|Hjr]].
    + (* already triangular column: untouched *)
      destruct (Nat.ltb_spec j (S r)); [|lia]. destruct (Nat.ltb_spec j r); [|lia].
      apply sumf_ext. intros i Hi. rewrite F1 by auto.
      rewrite (getv_rot_cols n) by auto.
      destruct (Nat.eqb_spec i r); [lia|]. destruct (Nat.eqb_spec i (S r)); [lia|]. reflexivity.
    + (* the pivot column: (p, q) -> (rr, 0) *)
      subst j. destruct (Nat.ltb_spec r (S r)); [|lia]. destruct (Nat.ltb_spec r r); [lia|].
      fold c. cbn [sumf].
      rewrite (sumf_ext (fun i => getv (getc R2' c) i * getv (getc (rot_cols cs sn r (Qs st)) i) t)
                        (fun i => getv (getc (Rs st) c) i * getv (getc (Qs st) i) t) r).
      * rewrite F2. rewrite getv_upd_same by (rewrite HcolL; lia).
        rewrite (getv_rot_cols n) by auto. rewrite Nat.eqb_refl.
        rewrite G2, G3. ring.
      * intros i Hi. rewrite F2. rewrite getv_upd_other by lia.
        rewrite (getv_rot_cols n) by auto.
        destruct (Nat.eqb_spec i r); [lia|]. destruct (Nat.eqb_spec i (S r)); [lia|]. reflexivity.
    + (* a column to the right: rows r, r+1 of R and columns r, r+1 of Q rotate together *)
      destruct (Nat.ltb_spec j (S r)); [lia|]. destruct (Nat.ltb_spec j r); [lia|].
      assert (Hlen : (S r < length (getc (Rs st) ((rs + 1 + j) mod m)))%nat).
      { rewrite HcolL; [lia|]. apply Nat.mod_upper_bound. lia. }
      apply sumf_rot with (r := r); [lia| |].
      * intros i Hi1 Hi2. rewrite F3 by lia. rewrite getv_rot_rows by auto. rewrite (getv_rot_cols n) by auto.
        destruct (Nat.eqb_spec i r); [lia|]. destruct (Nat.eqb_spec i (S r)); [lia|]. reflexivity.
      * rewrite F3 by lia. rewrite !getv_rot_rows by auto. rewrite !(getv_rot_cols n) by auto.
        rewrite !Nat.eqb_refl. destruct (Nat.eqb_spec (S r) r); [lia|].
        set (x := getv (getc (Rs st) ((rs + 1 + j) mod m)) r). set (y := getv (getc (Rs st) ((rs + 1 + j) mod m)) (S r)).
        set (X := getv (getc (Qs st) r) t). set (Y := getv (getc (Qs st) (S r)) t).
        transitivity ((cs * cs + sn * sn) * (x * X + y * Y)); [ring | rewrite G1; ring].
Qed.

Lemma sweep_spec n A : forall fuel r st,
  sweep_inv n A st r -> (q_idx st - 1 - r <= fuel)%nat ->
  let st' := sweep fuel r ((r_start st + 1 + r) mod cap st) st in
  wf n st' /\ cap st' = cap st /\ q_idx st' = q_idx st /\ r_start st' = r_start st /\ r_end st' = r_end st /\
  forall j t, (S j < q_idx st)%nat -> sumf (fun i => Rl' st' i j * Qat st' t i) (S j) = Acol A (S j) t.
Proof.
  induction fuel as [|f IH]; intros r st Hi Hf; cbn [sweep].
  - destruct Hi as (Hwf & HA & HS). do 5 (split; [auto|]). intros j t Hj. rewrite <- (HS j t Hj).
    destruct (Nat.ltb_spec j r); [auto|lia].
  - destruct (Nat.ltb_spec (S r) (q_idx st)) as [Hr|Hr].
    + pose proof (givens_step_inv n A st r Hi Hr) as Hi'.
      pose proof (givens_step_fields st r ((r_start st + 1 + r) mod cap st)) as (E1 & E2 & E3 & E4).
      destruct Hi as ((Hm & _) & _).
      rewrite add_mod_succ by lia.
      specialize (IH (S r) (givens_step st r ((r_start st + 1 + r) mod cap st)) Hi').
      rewrite E1, E2, E3, E4 in IH. apply IH. lia.
    + destruct Hi as (Hwf & HA & HS). do 5 (split; [auto|]). intros j t Hj. rewrite <- (HS j t Hj).
      destruct (Nat.ltb_spec j r); [auto|lia].
Qed.

Lemma nth_tl {B} (l : list B) j d : nth j (tl l) d = nth (S j) l d.
Proof. destruct l; simpl; auto. destruct j; auto. Qed.

Theorem remove_keeps_QR n st A :
  wf n st -> (0 < q_idx st)%nat -> QRrep st A ->
  QRrep (remove_column st) (tl A) /\ wf n (remove_column st).
Proof.
  intros Hwf Hk (HA & HQR).
  assert (Hi : sweep_inv n A st 0).
  { split; auto. split; auto. intros j t Hj. cbn [Nat.ltb Nat.leb]. rewrite <- (HQR (S j) t Hj).
    apply sumf_ext. intros i Hi. unfold Rl', Rl, Rlog, Rat. do 3 f_equal. f_equal. lia. }
  destruct Hwf as (Hm & Hring & _).
  pose proof (sweep_spec n A (cap st) 0 st Hi) as HS.
  assert (Hle : (q_idx st - 1 - 0 <= cap st)%nat) by (destruct Hring as (_ & _ & ? & _); cbn [ring_of g_qi] in *; lia).
  specialize (HS Hle). cbv zeta in HS.
  replace ((r_start st + 1 + 0) mod cap st) with (r_succ (cap st) (r_start st)) in HS
    by (rewrite r_succ_mod by (destruct Hring as (? & _); auto); f_equal; lia).
  unfold remove_column.
  set (st' := sweep (cap st) 0 (r_succ (cap st) (r_start st)) st) in *.
  destruct HS as (Hwf' & E1 & E2 & E3 & E4 & HS).
  split.
  - split; cbn [q_idx].
    + destruct A; simpl in *; lia.
    + intros j t Hj. unfold Acol, getc. rewrite nth_tl. fold (getc A (S j)). fold (Acol A (S j) t).
      rewrite <- (HS j t) by lia.
      apply sumf_ext. intros i Hi'. unfold Rl, Rlog, Rl', Rat, Qat. cbn [Qs Rs cap q_idx r_start r_end].
      rewrite E1, E3. rewrite r_succ_mod by (destruct Hring as (? & _); auto).
      rewrite Nat.add_mod_idemp_l by lia. reflexivity.
  - destruct Hwf' as (Hm' & Hring' & HQ).
    unfold wf. cbn [Qs Rs cap q_idx r_start r_end ring_of]. split; auto. split; auto.
    change (ring_inv (cap st') (ring_step (cap st') (ring_of st') RRem)).
    apply ring_inv_step; auto. simpl. apply Nat.ltb_lt. lia.
Qed.

(* ------------------------------------------------------------------ scale_R, reset *)
Lemma nth_skipn' {B} (l : list B) k j d : nth j (skipn k l) d = nth (k + j) l d.
Proof. revert k; induction l; intros [|k]; simpl; auto. destruct j; auto. Qed.

Lemma fold_left_ext' {X Y} (f g : X -> Y -> X) l a : (forall a b, f a b = g a b) -> fold_left f l a = fold_left g l a.
Proof. intros E. revert a; induction l; simpl; intros; auto. rewrite E. auto. Qed.

Lemma getv_scale_prefix k s (col : list R) i : (k <= length col)%nat ->
  getv (scale_prefix k s col) i = if Nat.ltb i k then getv col i * s else getv col i.
Proof.
  intros Hk. unfold scale_prefix. rewrite (getv_R (_ ++ _)).
  destruct (Nat.ltb_spec i k).
  - rewrite app_nth1 by (rewrite map_length, firstn_length; lia).
    change (getv (map (fun x : R => (x * s)%num) (firstn k col)) i = getv col i * s).
    rewrite getv_map by (numR; lra). rewrite getv_R, nth_firstn_lt by auto. reflexivity.
  - rewrite app_nth2 by (rewrite map_length, firstn_length; lia).
    rewrite map_length, firstn_length. replace (Nat.min k (length col)) with k by lia.
    rewrite nth_skipn'. rewrite getv_R. f_equal. lia.
Qed.
Lemma scale_prefix_length k s (col : list R) : length (scale_prefix k s col) = length col.
Proof. unfold scale_prefix. rewrite app_length, map_length. rewrite <- (firstn_skipn k col) at 3. rewrite app_length. auto. Qed.

Theorem scale_R_spec n st A s :
  wf n st -> QRrep st A -> QRrep (scale_R st s) (map (vscale s) A) /\ wf n (scale_R st s).
Proof.
  intros (Hm & Hring & HQl & HQf & HRl & HRf) (HA & HQR).
  assert (Hring' := Hring). destruct Hring' as (R1 & R2 & R3 & R4). cbn [ring_of g_qi g_rs g_re] in *.
  unfold scale_R.
  pose proof (ring_iter_enumerates_window (cap st) (ring_of st) Hm Hring) as HW. cbn [ring_of g_qi g_rs] in HW. rewrite HW.
  set (W := window (cap st) (r_start st) (q_idx st)).
  set (R' := fold_left _ W (Rs st)).
  pose proof (fold_upd_notin (@snd nat nat) (fun e => scale_prefix (S (fst e)) s) (@nil R) W (Rs st)) as Fnot.
  pose proof (fold_upd_in (@snd nat nat) (fun e => scale_prefix (S (fst e)) s) (@nil R) W (Rs st)) as Fin.
  pose proof (fold_upd_length (@snd nat nat) (fun e => scale_prefix (S (fst e)) s) W (Rs st)) as Flen.
  pose proof (fold_upd_Forall (@snd nat nat) (fun e => scale_prefix (S (fst e)) s) (fun x => length x = cap st) W (Rs st)) as Ffa.
  assert (ER : R' = fold_left (fun M e => upd (snd e) (scale_prefix (S (fst e)) s) M) W (Rs st)).
  { unfold R'. apply fold_left_ext'. intros M [i0 c0]. reflexivity. }
  cbv beta in Fnot, Fin, Flen, Ffa. rewrite <- ER in Fnot, Fin, Flen, Ffa.
  split.
  - split; [rewrite map_length; auto|]. cbn [q_idx]. intros j t Hj.
    assert (EA : Acol (map (vscale s) A) j t = s * Acol A j t).
    { unfold Acol, getc. replace (nth j (map (vscale s) A) []) with (vscale s (nth j A []))
        by (symmetry; apply (map_nth (vscale s) A [] j)). apply getv_vscale. }
    rewrite EA. rewrite <- (HQR j t Hj).
    rewrite <- sumf_scal. apply sumf_ext. intros i Hi.
    unfold Rl, Rlog, Qat. cbn [Qs Rs cap q_idx r_start r_end].
    assert (HIn : In (j, (r_start st + j) mod cap st) W).
    { unfold W, window. apply in_map_iff. exists j. split; auto. apply in_seq. lia. }
    unfold getc at 1. change ((r_start st + j) mod cap st) with (snd (j, (r_start st + j) mod cap st)) at 1.
    rewrite Fin; auto.
    + cbn [fst snd]. fold (getc (Rs st) ((r_start st + j) mod cap st)).
      rewrite getv_scale_prefix.
      * destruct (Nat.ltb_spec i (S j)); [|lia]. ring.
      * rewrite (getc_len (cap st)); auto; try lia. rewrite HRl. apply Nat.mod_upper_bound. lia.
    + apply window_storage_nodup; lia.
    + cbn [snd]. rewrite HRl. apply Nat.mod_upper_bound. lia.
  - unfold wf. cbn [Qs Rs cap q_idx r_start r_end ring_of]. split; auto. split; auto.
    split; auto. split; auto. split; [rewrite Flen; auto|].
    apply Ffa; auto. intros. rewrite scale_prefix_length. auto.
Qed.

Theorem reset_spec n st : wf n st -> QRrep (qr_reset st) [] /\ wf n (qr_reset st).
Proof.
  intros (Hm & Hring & HQ). split.
  - split; simpl; auto. intros; lia.
  - unfold wf. cbn [Qs Rs cap q_idx r_start r_end ring_of qr_reset]. split; auto. split; auto. apply ring_inv_init; auto.
Qed.

(* ------------------------------------------------------------------ every history within capacity *)
Inductive qop := QAdd (v : list R) | QRem | QReset | QScale (s : R).
Definition qstep (st : qrst R) (o : qop) : qrst R :=
  match o with QAdd v => add_column st v | QRem => remove_column st | QReset => qr_reset st | QScale s => scale_R st s end.
(* abstract window of columns *)
Definition astep (A : list (list R)) (o : qop) : list (list R) :=
  match o with QAdd v => A ++ [v] | QRem => tl A | QReset => [] | QScale s => map (vscale s) A end.
(* within capacity; a new column must have a non-zero component orthogonal to the window (not in its span) *)
Definition qok (n : nat) (st : qrst R) (o : qop) : Prop :=
  match o with
  | QAdd v => length v = n /\ (q_idx st < cap st)%nat /\ add_norm st v <> 0
  | QRem => (0 < q_idx st)%nat
  | _ => True
  end.
Fixpoint hist_ok (n : nat) (st : qrst R) (ops : list qop) : Prop :=
  match ops with [] => True | o :: ops' => qok n st o /\ hist_ok n (qstep st o) ops' end.

Lemma qstep_keeps n st A o : wf n st -> QRrep st A -> qok n st o -> QRrep (qstep st o) (astep A o) /\ wf n (qstep st o).
Proof.
  intros Hwf Hrep Hok. destruct o; simpl in *.
  - destruct Hok as (H1 & H2 & H3). apply add_keeps_QR; auto.
  - apply remove_keeps_QR; auto.
  - apply reset_spec; auto.
  - apply scale_R_spec; auto.
Qed.

Theorem QR_eq_A_all_histories n : forall ops st A, wf n st -> QRrep st A -> hist_ok n st ops ->
  QRrep (fold_left qstep ops st) (fold_left astep ops A) /\ wf n (fold_left qstep ops st).
Proof.
  induction ops as [|o ops IH]; simpl; intros st A Hwf Hrep Hok; auto.
  destruct Hok as (Ho & Hok). destruct (qstep_keeps n st A o Hwf Hrep Ho) as (Hrep' & Hwf').
  apply IH; auto.
Qed.

Corollary QR_eq_A_from_new n m ops : (0 < m)%nat -> hist_ok n (qr_new n m) ops ->
  QRrep (fold_left qstep ops (qr_new n m)) (fold_left astep ops []).
Proof. intros Hm Hok. apply (QR_eq_A_all_histories n ops (qr_new n m) []); auto. apply wf_new; auto. apply QRrep_new. Qed.

(* the model's ring indices follow the abstract ring machine, so all index theorems of LMQRRing apply to every reachable state *)
Theorem wf_ring_inv n st : wf n st -> ring_inv (cap st) (ring_of st).
Proof. intros (_ & H & _). exact H. Qed.

(* ------------------------------------------------------------------ Anderson: affine combination *)
Definition lsum (l : list R) : R := fold_right Rplus 0 l.
Definition dotl (a b : list R) : R := lsum (map (fun p => fst p * snd p) (combine a b)).

Lemma lsum_app a b : lsum (a ++ b) = lsum a + lsum b.
Proof. unfold lsum. induction a; simpl; try rewrite IHa; lra. Qed.

Lemma telescope (g : nat -> R) : forall d a,
  lsum (map (fun i => g i - g (i - 1)%nat) (seq (S a) d)) = g (a + d)%nat - g a.
Proof.
  induction d; intros a.
  - simpl. rewrite Nat.add_0_r. lra.
  - cbn [seq map]. unfold lsum in *. cbn [fold_right]. rewrite IHd.
    replace (S a - 1)%nat with a by lia. replace (S a + d)%nat with (a + S d)%nat by lia. lra.
Qed.

Theorem aa_alphas_sum_1 (γ : list R) k : (1 <= k)%nat -> lsum (aa_alphas γ k) = 1.
Proof.
  intros Hk. unfold aa_alphas. change (lsum (?a :: ?l)) with (a + lsum l). rewrite lsum_app.
  pose proof (telescope (fun i => getv γ i) (k - 1) 0) as T. cbv beta in T.
  numR. rewrite T. simpl. lra.
Qed.

Lemma aa_alphas_length (γ : list R) k : length (aa_alphas γ k) = S k \/ k = O.
Proof. unfold aa_alphas. simpl. rewrite app_length, map_length, seq_length. simpl. lia. Qed.

Lemma aa_x_spec n : forall αs cs (x0 : list R) t, Forall (fun c => length c = n) cs -> length x0 = n ->
  getv (fold_left (fun x '(a, c) => vadd x (vscale a c)) (combine αs cs) x0) t =
  getv x0 t + dotl αs (map (fun c => getv c t) cs).
Proof.
  induction αs as [|a αs IH]; intros cs x0 t HF Hx.
  - simpl. unfold dotl, lsum. simpl. lra.
  - destruct cs as [|c cs]; [simpl; unfold dotl, lsum; simpl; lra|].
    inversion HF as [|? ? Hc HF']. subst. cbn [combine fold_left map].
    rewrite IH; auto.
    + rewrite getv_vadd by (rewrite vscale_length; lia). rewrite getv_vscale.
      unfold dotl, lsum. cbn [combine map fold_right fst snd]. lra.
    + rewrite vadd_length; rewrite ?vscale_length; lia.
Qed.

Lemma q_idx_add st v : q_idx (add_column (T:=R) st v) = S (q_idx st).
Proof.
  unfold add_column. destruct (mgs _ v) as [q0 r0].
  destruct (reorth_loop _ _ _ _ _ _ _) as [[[q rr] nq] cnt]. reflexivity.
Qed.

Lemma sweep_fields : forall fuel r c (st : qrst R),
  cap (sweep fuel r c st) = cap st /\ q_idx (sweep fuel r c st) = q_idx st /\
  r_start (sweep fuel r c st) = r_start st /\ r_end (sweep fuel r c st) = r_end st.
Proof.
  induction fuel as [|f IH]; intros r c st; cbn [sweep]; auto.
  destruct (Nat.ltb (S r) (q_idx st)); auto.
  destruct (IH (S r) (r_succ (cap st) c) (givens_step st r c)) as (E1 & E2 & E3 & E4).
  destruct (givens_step_fields st r c) as (F1 & F2 & F3 & F4).
  rewrite E1, E2, E3, E4, F1, F2, F3, F4. auto.
Qed.
Lemma ring_of_remove (st : qrst R) :
  ring_of (remove_column st) = ring_step (cap st) (ring_of st) RRem /\ cap (remove_column st) = cap st.
Proof.
  unfold remove_column, ring_of. cbn [q_idx r_start r_end cap ring_step g_qi g_rs g_re].
  destruct (sweep_fields (cap st) 0 (r_succ (cap st) (r_start st)) st) as (E1 & E2 & E3 & E4).
  rewrite E1, E2, E3, E4. auto.
Qed.

(* the columns minimize_update_anderson combines: G read through ring_iter of the updated factorisation, then g_k *)
Definition aa_cols (qr2 : qrst R) (G : list (list R)) (gk : list R) : list (list R) :=
  map (fun e => getc G (snd e)) (ring_iter (q_idx qr2) (r_start qr2) (cap qr2)) ++ [gk].

Theorem anderson_is_affine_combination n qr G rk rlast gk mdf γ t :
  Forall (fun c => length c = n) G -> length G = cap qr -> length gk = n ->
  ring_inv (cap qr) (ring_of qr) -> (0 < cap qr)%nat ->
  match minimize_update_anderson qr G rk rlast gk mdf γ with
  | (qr2, G', γ', x) =>
      let α := aa_alphas γ' (q_idx qr2) in
      lsum α = 1 /\ length α = S (q_idx qr2) /\ length (aa_cols qr2 G gk) = S (q_idx qr2) /\
      q_idx qr2 = S (if Nat.eqb (q_idx qr) (cap qr) then q_idx qr - 1 else q_idx qr) /\
      getv x t = dotl α (map (fun c => getv c t) (aa_cols qr2 G gk))
  end.
Proof.
  intros HG HGl Hgk Hring Hm. unfold minimize_update_anderson.
  set (qr1 := if Nat.eqb (q_idx qr) (cap qr) then remove_column qr else qr).
  set (qr2 := add_column qr1 (vsub rk rlast)).
  set (γ' := solve_col qr2 rk _ γ).
  assert (Hk : q_idx qr2 = S (q_idx qr1)) by apply q_idx_add.
  (* ring invariant of the updated factorisation *)
  assert (H1 : ring_inv (cap qr) (ring_of qr1) /\ cap qr1 = cap qr /\ (q_idx qr1 < cap qr)%nat /\
               q_idx qr1 = if Nat.eqb (q_idx qr) (cap qr) then (q_idx qr - 1)%nat else q_idx qr).
  { unfold qr1. destruct (Nat.eqb_spec (q_idx qr) (cap qr)) as [E|E].
    - destruct (ring_of_remove qr) as (E1 & E2). rewrite E1, E2. split; [|split; [auto|split]].
      + apply ring_inv_step; auto. simpl. apply Nat.ltb_lt. lia.
      + assert (q_idx (remove_column qr) = g_qi (ring_of (remove_column qr))) as -> by reflexivity.
        rewrite E1. simpl. lia.
      + assert (q_idx (remove_column qr) = g_qi (ring_of (remove_column qr))) as -> by reflexivity.
        rewrite E1. simpl. lia.
    - split; auto. split; auto. destruct Hring as (_ & _ & Hle & _). cbn [ring_of g_qi] in Hle. split; auto. lia. }
  destruct H1 as (Hr1 & Hc1 & Hlt1 & Hq1).
  assert (Hr2 : ring_inv (cap qr) (ring_of qr2) /\ cap qr2 = cap qr).
  { unfold qr2. rewrite ring_of_add, cap_add, Hc1. split; auto. apply ring_inv_step; auto. simpl. apply Nat.ltb_lt. auto. }
  destruct Hr2 as (Hr2 & Hc2).
  cbv zeta.
  assert (Hlen : length (aa_alphas γ' (q_idx qr2)) = S (q_idx qr2)).
  { destruct (aa_alphas_length γ' (q_idx qr2)); auto. lia. }
  assert (Hcl : length (aa_cols qr2 G gk) = S (q_idx qr2)).
  { unfold aa_cols, ring_iter. rewrite app_length, map_length. simpl.
    assert (forall cnt zb c m, length (iter_fwd cnt zb c m) = cnt) as L by (induction cnt; simpl; auto).
    rewrite L. lia. }
  split; [apply aa_alphas_sum_1; lia|]. split; auto. split; auto. split; [rewrite Hk, Hq1; auto|].
  fold (aa_cols qr2 G gk).
  assert (HF : Forall (fun c => length c = n) (aa_cols qr2 G gk)).
  { unfold aa_cols. apply Forall_app. split; [|constructor; auto].
    apply Forall_forall. intros c Hc. apply in_map_iff in Hc. destruct Hc as (e & <- & He).
    pose proof (ring_iter_enumerates_window (cap qr) (ring_of qr2) Hm Hr2) as HW. cbn [ring_of g_qi g_rs] in HW.
    rewrite Hc2 in He. rewrite HW in He. unfold window in He. apply in_map_iff in He. destruct He as (j & <- & Hj).
    cbn [snd]. apply getc_len; auto. rewrite HGl. apply Nat.mod_upper_bound. lia. }
  destruct (aa_alphas γ' (q_idx qr2)) as [|a0 αs] eqn:Eα; [simpl in Hlen; lia|].
  destruct (aa_cols qr2 G gk) as [|c0 cs] eqn:Ec; [simpl in Hcl; lia|].
  inversion HF as [|? ? Hc0 HF']. subst.
  rewrite (aa_x_spec (length c0)); [ | rewrite Hc0; auto | apply vscale_length ].
  rewrite getv_vscale. unfold dotl, lsum. cbn [combine map fold_right fst snd]. lra.
Qed.
