(* AlmZeroFprDirProofs.v — END-TO-END for the SHIPPED stack ALMSolver<ZeroFPRSolver<DirectionProviderT>>: the composed executable model
   AlmZeroFprDir.alm_zerofpr_dir (ALM outer loop of Alm.v running ZeroFprDir.zerofprD — the ZeroFPR loop with a STATEFUL direction provider
   whose state persists across inner solves) returns `Converged` only with an approximate KKT point of the USER'S problem
     - generically, for EVERY provider `dirops` that keeps dimensions (DirLen.dir_len) started from a sane state (I0 or Iv);
     - for LBFGSDirection (every LBFGSParams, CBFGS, rescale_on_step_size_changes, every initial provider state): NO hypothesis on the direction;
     - for NoopDirection;
     - for AndersonDirection (memory >= 1; started from the provider as constructed, or as an earlier solve left it);
     - for StructuredLBFGSDirection: NO hypothesis on the direction either (memory < 1, a failing capability check of initialize and
       CBFGS make a provider call throw; a run in which a call throws has no result).
   for both values of update_direction_from_prox_step.
   Ingredients: the refinement theorem ZeroFprDirProofs.zerofprD_refines_R, ZeroFPR's inner contract with dimensions
   (ZeroFprLen.zerofpr_inner_contract_len, whose direction-length hypothesis is discharged by ZeroFprDirLen.zerofprD_trace_len), and
   the generic composition lemma with a world invariant AlmComposeKktW.compose_converged_is_kkt_W (the world is (cumulative counters,
   provider); its invariant: the provider is sane — ZeroFprDirLen.zerofprD_out_dir).  Over R. *)
From Coq Require Import Reals List ZArith Lra Lia Bool Arith Psatz.
From Flocq Require Import Raux.
From Alpaqa Require Import Num NumR Vec Prox ProxProofs ProxVec SolverStatus SolverKernels SolverKernelsProofs DescentProofs
                           StopChain StopChainProofs KktProofs AugLag AugLagProofs Panoc PanocProofs ZeroFpr ZeroFprProofs ZeroFprLen LiveVec
                           Lbfgs LMQR Directions ZeroFprDir ZeroFprDirProofs DirWf DirLen ZeroFprDirLen
                           Alm AlmProofs AlmCompose AlmComposeProofs AlmComposeKkt AlmComposeKktW AlmPanoc AlmPanocProofs
                           AlmZeroFpr AlmZeroFprProofs AlmZeroFprDir.
Import ListNotations.
Local Open Scope R_scope.

Section E2E.
  Variable Pb : problem (T:=R).
  Variable prov : fn -> bool.
  Variable wm_supplied : list R -> list R.
  Variables (Clb Cub : list (option R)) (l1 : list R).
  Variable split : nat.
  Variable D : Type.
  Variable ops : dirops R D.
  Variable stop_req : counters -> bool.
  Variable time_up : counters -> bool.
  Variable outer_oot : nat -> bool.
  Variable PP : Panoc.params (T:=R).
  Variable from_prox : bool.
  Variable AP : alm_params (T:=R).
  Variables (ls_fuel inner_fuel : nat).
  Variables (n m : nat).

  Hypothesis Hprov : provider_ok Pb prov.
  Hypothesis Hempty : grad_g_prod_empty_ok Pb.
  Hypothesis Hl1 : l1 = [].
  Hypothesis Hcrit : p_crit PP = ApproxKKT.
  Hypothesis HLg : 0 < p_Lgamma PP.
  Hypothesis HL : 0 < p_L0 PP \/ 0 < p_Lmin PP <= p_Lmax PP.
  Hypothesis HClb : length Clb = n.
  Hypothesis HCub : length Cub = n.
  Hypothesis HCne : Forall2 box_ne Clb Cub.
  Hypothesis Hgf : forall x, length x = n -> length (pgrad_f Pb x) = n.
  Hypothesis Hgg : forall x y, length x = n -> length (pgrad_g_prod Pb x y) = n.
  Hypothesis Hg : forall x, length x = n -> length (pg Pb x) = m.
  Hypothesis HDlb : length (plb Pb) = m.
  Hypothesis HDub : length (pub Pb) = m.
  Hypothesis HDne : Forall2 box_ne (plb Pb) (pub Pb).

  Variables (I0 Iv : D -> Prop).
  Hypothesis HDL : dir_len n D ops I0 Iv.

  Notation inner_ := (zdinner Pb prov wm_supplied Clb Cub l1 D ops stop_req time_up outer_oot PP from_prox ls_fuel inner_fuel).
  Notation opgf := (o_psi_grad_full Pb prov wm_supplied).
  Notation opy := (o_psi_yhat Pb prov).
  Notation ogL := (o_grad_L Pb prov).
  Notation ogp := (o_grad_psi Pb prov).
  Definition zdsane (w : counters * D) : Prop := I0 (snd w) \/ Iv (snd w).

  (* ---- one inner solve, handed a sane provider *)
  Lemma zdinner_contract_W : inner_contract_kkt_W (counters * D)%type (zresultD D) inner_ zdsane Pb Clb Cub n.
  Proof.
    intros w i x y Σ tol errz r x' lg w' Hw Hx. unfold zdinner.
    match goal with |- context [match ?pr with ZDoneD _ _ => _ | ZNotFiniteLD _ _ => _ | ZOutOfFuelD _ => _ | ZThrewD _ _ => _ end] =>
      destruct pr as [oD|L| |lg'] eqn:Er end.
    3,4: discriminate.
    2: { intros E. injection E as E1 E2 E3 E4. subst r x' w'. split; [exact Hw|]. split; [exact Hx|]. cbn [ir_status]. discriminate. }
    cbv zeta. intros E. injection E as E1 E2 E3 E4. subst r x' w'. cbn [ir_status ir_y ir_err ir_eps].
    assert (Hpg : forall z, length z = n -> length (snd (psi_grad (opgf y Σ) z)) = n).
    { intros z Hz. rewrite (opgf_grad Pb prov wm_supplied Hprov Hempty). unfold grad_psi_def. now apply (grad_L_def_length Pb n Hgf Hgg). }
    assert (HgL' : forall z yh, length z = n -> length (ogL z yh) = n).
    { intros z yh Hz. rewrite (ogL_val Pb prov Hprov Hempty). now apply (grad_L_def_length Pb n Hgf Hgg). }
    split.
    { unfold zdsane. cbn [snd].
      exact (zerofprD_out_dir (opgf y Σ) (opy y Σ) ogL (ogp y Σ) Clb Cub l1 D ops _ _ (with_opts PP tol) from_prox x y Σ errz ls_fuel (snd w) n
               Hl1 HClb HCub Hx Hpg HgL' I0 Iv HDL Hw inner_fuel oD Er). }
    split.
    { exact (zerofprD_out_x_length (opgf y Σ) (opy y Σ) ogL (ogp y Σ) Clb Cub l1 D ops _ _ (with_opts PP tol) from_prox x y Σ errz ls_fuel (snd w) n
               Hl1 HClb HCub Hx Hpg HgL' I0 Iv HDL Hw inner_fuel oD Er). }
    intros Hst. apply alm_status_of_converged in Hst.
    destruct (zerofprD_inner_contract_len (opgf y Σ) (opy y Σ) ogL (ogp y Σ) Clb Cub l1 D ops _ _ (with_opts PP tol) from_prox x y Σ errz ls_fuel (snd w) n
                Hl1 HClb HCub Hx Hpg HgL' I0 Iv HDL Hw inner_fuel oD Er Hst Hcrit)
      as (xx & grad & γ & Lxx & Lgr & Ex & Lxo & Ey & Ee & Eeps & Etol & Hγ).
    set (o := zo_out D oD) in *.
    cbv zeta in *. rewrite (opy_val Pb prov Hprov) in Ey. cbn [snd] in Ey.
    split; [now rewrite Ey|]. split; [now rewrite Ee, Ey|].
    exists xx, grad, γ. split.
    { apply Hγ; [exact HLg|]. apply L_init_pos. exact HL. }
    split; [exact Lxx|]. split; [exact Lgr|]. split; [exact Ex|]. split; [|exact Etol].
    rewrite Eeps, (ogL_val Pb prov Hprov Hempty), Ey. reflexivity.
  Qed.

  (* ================================================================ THE theorem, for every dimension-keeping provider *)
  Theorem alm_zerofpr_dir_converged_is_kkt (d0 : D) outer_fuel nanv Σ0 y0 x0 co :
    I0 d0 \/ Iv d0 ->
    length x0 = n -> length y0 = m ->
    Alm.p_max_iter AP <> 0%nat ->
    (m <> 0%nat -> sigma_inv AP m (initial_sigma AP m (pf Pb x0) (pg Pb x0) Σ0)) ->
    (m = 0%nat -> 0 < p_tol AP) ->
    alm_zerofpr_dir Pb prov wm_supplied Clb Cub l1 split D ops stop_req time_up outer_oot PP from_prox AP ls_fuel inner_fuel d0
                    outer_fuel nanv Σ0 y0 x0 = Some co ->
    f_status (co_final co) = Converged ->
    kkt_point Pb Clb Cub n m (p_tol AP) (p_dual_tol AP) (co_x co) (f_y (co_final co)).
  Proof.
    intros Hd0 Hx0 Hy0 Hmi HΣ Htol Hrun Hst. unfold alm_zerofpr_dir in Hrun.
    exact (compose_converged_is_kkt_W (counters * D)%type (zresultD D) inner_ zdsane Pb Clb Cub split AP n m HClb HCub HCne Hgf Hgg Hg HDlb HDub HDne
             zdinner_contract_W outer_fuel nanv Σ0 y0 x0 (cnt0, d0) co Hd0 Hx0 Hy0 Hmi HΣ Htol Hrun Hst).
  Qed.

  (* the provider object after ANY completed ALM run is sane again, and the primal buffer holds an n-vector *)
  Theorem alm_zerofpr_dir_keeps_provider (d0 : D) outer_fuel nanv Σ0 y0 x0 co :
    I0 d0 \/ Iv d0 -> length x0 = n ->
    alm_zerofpr_dir Pb prov wm_supplied Clb Cub l1 split D ops stop_req time_up outer_oot PP from_prox AP ls_fuel inner_fuel d0
                    outer_fuel nanv Σ0 y0 x0 = Some co ->
    (I0 (snd (co_w co)) \/ Iv (snd (co_w co))) /\ length (co_x co) = n.
  Proof.
    intros Hd0 Hx0 Hrun. unfold alm_zerofpr_dir in Hrun.
    exact (compose_keeps_world (counters * D)%type (zresultD D) inner_ zdsane Pb Clb Cub AP n m Hg HDlb HDub zdinner_contract_W _ _ _ _ _ _ _ _ (cnt0, d0) co Hd0 Hx0 Hrun).
  Qed.
End E2E.

(* ================================================================ the four shipped providers *)
Section Shipped.
  Variable Pb : problem (T:=R).
  Variable prov : fn -> bool.
  Variable wm_supplied : list R -> list R.
  Variables (Clb Cub : list (option R)) (l1 : list R).
  Variable split : nat.
  Variable stop_req : counters -> bool.
  Variable time_up : counters -> bool.
  Variable outer_oot : nat -> bool.
  Variable PP : Panoc.params (T:=R).
  Variable from_prox : bool.
  Variable AP : alm_params (T:=R).
  Variables (ls_fuel inner_fuel : nat).
  Variables (n m : nat).

  Hypothesis Hprov : provider_ok Pb prov.
  Hypothesis Hempty : grad_g_prod_empty_ok Pb.
  Hypothesis Hl1 : l1 = [].
  Hypothesis Hcrit : p_crit PP = ApproxKKT.
  Hypothesis HLg : 0 < p_Lgamma PP.
  Hypothesis HL : 0 < p_L0 PP \/ 0 < p_Lmin PP <= p_Lmax PP.
  Hypothesis HClb : length Clb = n.
  Hypothesis HCub : length Cub = n.
  Hypothesis HCne : Forall2 box_ne Clb Cub.
  Hypothesis Hgf : forall x, length x = n -> length (pgrad_f Pb x) = n.
  Hypothesis Hgg : forall x y, length x = n -> length (pgrad_g_prod Pb x y) = n.
  Hypothesis Hg : forall x, length x = n -> length (pg Pb x) = m.
  Hypothesis HDlb : length (plb Pb) = m.
  Hypothesis HDub : length (pub Pb) = m.
  Hypothesis HDne : Forall2 box_ne (plb Pb) (pub Pb).

  Notation generic D ops I0 Iv HDL :=
    (alm_zerofpr_dir_converged_is_kkt Pb prov wm_supplied Clb Cub l1 split D ops stop_req time_up outer_oot PP from_prox AP ls_fuel inner_fuel n m
       Hprov Hempty Hl1 Hcrit HLg HL HClb HCub HCne Hgf Hgg Hg HDlb HDub HDne I0 Iv HDL).

  (* ---- LBFGSDirection: no hypothesis on the direction *)
  Theorem alm_zerofpr_lbfgs_converged_is_kkt pw (LP : Lbfgs.params R) (rescale : bool) :
    forall (d0 : Lbfgs.state R) outer_fuel nanv Σ0 y0 x0 co,
    length x0 = n -> length y0 = m ->
    Alm.p_max_iter AP <> 0%nat ->
    (m <> 0%nat -> sigma_inv AP m (initial_sigma AP m (pf Pb x0) (pg Pb x0) Σ0)) ->
    (m = 0%nat -> 0 < p_tol AP) ->
    alm_zerofpr_dir Pb prov wm_supplied Clb Cub l1 split (Lbfgs.state R) (lbfgs_dir n pw LP rescale) stop_req time_up outer_oot PP from_prox AP
                    ls_fuel inner_fuel d0 outer_fuel nanv Σ0 y0 x0 = Some co ->
    f_status (co_final co) = Converged ->
    kkt_point Pb Clb Cub n m (p_tol AP) (p_dual_tol AP) (co_x co) (f_y (co_final co)).
  Proof.
    intros d0 outer_fuel nanv Σ0 y0 x0 co.
    exact (generic (Lbfgs.state R) (lbfgs_dir n pw LP rescale) (fun _ => True) (LIv n LP) (lbfgs_len n pw LP rescale)
             d0 outer_fuel nanv Σ0 y0 x0 co (or_introl I)).
  Qed.

  (* ---- NoopDirection *)
  Theorem alm_zerofpr_noop_converged_is_kkt :
    forall (d0 : unit) outer_fuel nanv Σ0 y0 x0 co,
    length x0 = n -> length y0 = m ->
    Alm.p_max_iter AP <> 0%nat ->
    (m <> 0%nat -> sigma_inv AP m (initial_sigma AP m (pf Pb x0) (pg Pb x0) Σ0)) ->
    (m = 0%nat -> 0 < p_tol AP) ->
    alm_zerofpr_dir Pb prov wm_supplied Clb Cub l1 split unit (noop_dir (T:=R)) stop_req time_up outer_oot PP from_prox AP
                    ls_fuel inner_fuel d0 outer_fuel nanv Σ0 y0 x0 = Some co ->
    f_status (co_final co) = Converged ->
    kkt_point Pb Clb Cub n m (p_tol AP) (p_dual_tol AP) (co_x co) (f_y (co_final co)).
  Proof.
    intros d0 outer_fuel nanv Σ0 y0 x0 co.
    exact (generic unit (noop_dir (T:=R)) (fun _ => True) (fun _ => True) (noop_len n) d0 outer_fuel nanv Σ0 y0 x0 co (or_introl I)).
  Qed.

  (* ---- AndersonDirection *)
  Theorem alm_zerofpr_anderson_converged_is_kkt (mem : nat) (mdf : R) (rescale : bool) :
    (1 <= mem)%nat ->
    forall (d0 : aast R) outer_fuel nanv Σ0 y0 x0 co,
    anderson_I0 n d0 \/ anderson_Iv n d0 ->
    length x0 = n -> length y0 = m ->
    Alm.p_max_iter AP <> 0%nat ->
    (m <> 0%nat -> sigma_inv AP m (initial_sigma AP m (pf Pb x0) (pg Pb x0) Σ0)) ->
    (m = 0%nat -> 0 < p_tol AP) ->
    alm_zerofpr_dir Pb prov wm_supplied Clb Cub l1 split (aast R) (anderson_dir n mem mdf rescale) stop_req time_up outer_oot PP from_prox AP
                    ls_fuel inner_fuel d0 outer_fuel nanv Σ0 y0 x0 = Some co ->
    f_status (co_final co) = Converged ->
    kkt_point Pb Clb Cub n m (p_tol AP) (p_dual_tol AP) (co_x co) (f_y (co_final co)).
  Proof.
    intros Hmem d0 outer_fuel nanv Σ0 y0 x0 co Hd0.
    exact (generic (aast R) (anderson_dir n mem mdf rescale) (anderson_I0 n) (anderson_Iv n) (anderson_len n mem mdf rescale Hmem)
             d0 outer_fuel nanv Σ0 y0 x0 co Hd0).
  Qed.

  (* ---- StructuredLBFGSDirection *)
  Theorem alm_zerofpr_struclbfgs_converged_is_kkt pw (LP : Lbfgs.params R) slb sub sl1 Dlb Dub
      prov_inactive prov_hess_L prov_hess_psi prov_box_D prov_grad_gi
      grad_psi_at hess_L_prod hess_psi_prod eval_g grad_gi cbrt_eps hvf fd full_aug use_scaled :
    forall (d0 : sdstate (T:=R)) outer_fuel nanv Σ0 y0 x0 co,
    length x0 = n -> length y0 = m ->
    Alm.p_max_iter AP <> 0%nat ->
    (m <> 0%nat -> sigma_inv AP m (initial_sigma AP m (pf Pb x0) (pg Pb x0) Σ0)) ->
    (m = 0%nat -> 0 < p_tol AP) ->
    alm_zerofpr_dir Pb prov wm_supplied Clb Cub l1 split (sdstate (T:=R))
                    (struct_dir n pw LP slb sub sl1 Dlb Dub prov_inactive prov_hess_L prov_hess_psi prov_box_D prov_grad_gi
                                grad_psi_at hess_L_prod hess_psi_prod eval_g grad_gi cbrt_eps hvf fd full_aug use_scaled)
                    stop_req time_up outer_oot PP from_prox AP ls_fuel inner_fuel d0 outer_fuel nanv Σ0 y0 x0 = Some co ->
    f_status (co_final co) = Converged ->
    kkt_point Pb Clb Cub n m (p_tol AP) (p_dual_tol AP) (co_x co) (f_y (co_final co)).
  Proof.
    intros d0 outer_fuel nanv Σ0 y0 x0 co.
    exact (generic (sdstate (T:=R)) _ (fun _ => True) (SIv n LP)
             (struct_len_all n pw LP slb sub sl1 Dlb Dub prov_inactive prov_hess_L prov_hess_psi prov_box_D prov_grad_gi
                             grad_psi_at hess_L_prod hess_psi_prod eval_g grad_gi cbrt_eps hvf fd full_aug use_scaled)
             d0 outer_fuel nanv Σ0 y0 x0 co (or_introl I)).
  Qed.
End Shipped.

(* ================================================================ non-vacuity *)
(* a ZeroFPR run with a provider whose first iterate already meets the tolerance: Converged at k = 0, no provider call is made *)
Section At0ZD.
  Variable psi_grad_full : list R -> R * list R * list R.
  Variable psi_yhat : list R -> R * list R.
  Variable grad_L : list R -> list R -> list R.
  Variable grad_psi : list R -> list R.
  Variables (lb ub : list (option R)) (l1 : list R).
  Variable D : Type.
  Variable ops : dirops R D.
  Variable stop_req : counters -> bool.
  Variable time_up : counters -> bool.
  Variable P : Panoc.params (T:=R).
  Variable from_prox : bool.
  Variables (x_in y_in Σ errz_in : list R).
  Variable ls_fuel : nat.
  Variable d0 : D.
  Variables (ψ0 ψh h ε : R) (g0 wm0 xh p yh gh : list R).
  Hypothesis HL0 : 0 < p_L0 P.
  Hypothesis HLmax : p_Lmax P <= p_L0 P.
  Hypothesis Hcrit : p_crit P = ApproxKKT.
  Hypothesis H1 : psi_grad_full x_in = (ψ0, g0, wm0).
  Hypothesis H2 : eval_prox_grad_step lb ub l1 (p_Lgamma P / p_L0 P) x_in g0 = (xh, p, h).
  Hypothesis H3 : psi_yhat xh = (ψh, yh).
  Hypothesis H4 : grad_L xh yh = gh.
  Hypothesis H5 : vnorminf (kkt_residual (p_Lgamma P / p_L0 P) p g0 gh) = ε.
  Hypothesis H6 : ε <= eff_tol (o_tol P).

  Lemma zerofprD_converged_at_0 fuel :
    exists oD, zerofprD psi_grad_full psi_yhat grad_L grad_psi lb ub l1 D ops stop_req time_up P from_prox x_in y_in Σ errz_in ls_fuel d0 (S fuel) = ZDoneD D oD /\
      let o := zo_out D oD in
      out_status o = StConverged /\ out_iterations o = 0%nat /\ out_eps o = ε /\ out_x o = xh /\ out_y o = yh /\
      out_errz o = match errz_in with [] => [] | _ => vdiv (vsub yh y_in) Σ end /\ zo_dir D oD = d0.
  Proof.
    unfold zerofprD, init_L, psi_grad. cbv zeta. rewrite H1. cbn [fst snd].
    change (@nleb R NumR) with Rle_bool. change (@n0 R NumR) with 0.
    destruct (Rle_bool_spec (p_L0 P) 0) as [Hc|_]; [lra|].
    cbn [iL nfinite NumR negb]. change (@ndiv R NumR) with Rdiv.
    unfold eval_prox, set_gamma_L. cbn [ix ixh igrad ip iyh ipsi ipsih igam iL ipp igp ih ihave igradh]. rewrite H2. cbn [fst snd].
    unfold eval_cost. cbn [ix ixh igrad ip iyh ipsi ipsih igam iL ipp igp ih ihave igradh]. rewrite H3. cbn [fst snd].
    assert (Hq : forall i c s, iL i = p_L0 P -> ZeroFpr.init_qub psi_yhat lb ub l1 P ls_fuel i c s = Some (i, c, s)).
    { intros i c s Hi. destruct ls_fuel; cbn [ZeroFpr.init_qub]; rewrite Hi; change (@nltb R NumR) with Rlt_bool;
        (destruct (Rlt_bool_spec (p_L0 P) (p_Lmax P)) as [Hc|_]; [lra|reflexivity]). }
    rewrite Hq by reflexivity.
    cbn [zloopD]. unfold zpassD. cbv zeta. cbn [zd_st zd_dir zd_rej zd_trace st_curr st_k st_np st_cnt st_stats st_log].
    unfold zit_eps, eval_prox_it, prox_step_in_prox. cbn [px_grad ix ixh igrad ip iyh ipsi ipsih igam iL ipp igp ih ihave igradh].
    rewrite Hcrit. cbn [crit_eps]. rewrite H4, H5.
    rewrite tolerance_wins by (apply Rle_bool_iff; exact H6).
    unfold exit_block. cbn [overwrites ixh iyh].
    eexists. split; [reflexivity|]. cbn [zo_out zo_dir out_status out_iterations out_eps out_x out_y out_errz]. repeat split.
  Qed.
End At0ZD.

(* ---- the instance of AlmPanocProofs (n = 1, m = 1: minimise x s.t. x in [0,1], g(x) = x <= 0, from x0 = 0, y0 = 0), ZeroFPR with LBFGSDirection *)
Definition nvzLP : Lbfgs.params R :=
  {| p_memory := 5; p_min_div_fac := 0; p_min_abs_s := 0; p_cbfgs_α := 1; p_cbfgs_ϵ := 0; p_force_pos_def := true; p_curvature := true |}.
Definition nvz_pw : R -> R -> R := fun x _ => x.
Definition nvz_lbfgs := lbfgs_dir 1 nvz_pw nvzLP false.
Definition nvzD_run :=
  alm_zerofpr_dir nvPb nvprov (fun _ => []) [Some 0] [Some 1] [] 0 (Lbfgs.state R) nvz_lbfgs nv_never nv_never (fun _ => false) nvPP false nvAP 5 5
                  (lbfgs_unsized (T:=R)) 3 0 None [0] [0].

Lemma nvzD_inner : exists lg w',
  zdinner nvPb nvprov (fun _ => []) [Some 0] [Some 1] [] (Lbfgs.state R) nvz_lbfgs nv_never nv_never (fun _ => false) nvPP false 5 5
          (cnt0, lbfgs_unsized (T:=R)) 0 [0] [0] [1] 1 [0]
  = Some ({| ir_status := Converged; ir_eps := 0; ir_err := Some [0]; ir_y := Some [0]; ir_iters := 0; ir_oot := false; ir_stop := false |}, [0], lg, w').
Proof.
  unfold zdinner. cbn [fst snd].
  set (pgf := o_psi_grad_full nvPb nvprov (fun _ => []) [0] [1]).
  destruct (pgf [0]) as [[ψ0 g0] wm0] eqn:H1.
  assert (Hg0 : g0 = [1 + 0]).
  { pose proof (opgf_grad nvPb nvprov (fun _ => []) nv_provider_ok nv_empty_ok [0] [1] [0]) as Hg. fold pgf in Hg.
    unfold psi_grad in Hg. rewrite H1 in Hg. cbn [fst snd] in Hg. rewrite Hg. unfold grad_psi_def. rewrite nv_yhat. reflexivity. }
  subst g0.
  assert (H2 : eval_prox_grad_step [Some 0] [Some 1] [] (p_Lgamma (with_opts nvPP 1) / p_L0 (with_opts nvPP 1)) [0] [1 + 0] = ([0], [0], 0)).
  { rcomp. f_equal. f_equal; f_equal; lra. }
  assert (H3 : o_psi_yhat nvPb nvprov [0] [1] [0] = (psi_def nvPb [0] [0] [1], [0])).
  { rewrite (opy_val nvPb nvprov nv_provider_ok). now rewrite nv_yhat. }
  assert (H4 : o_grad_L nvPb nvprov [0] [0] = [1 + 0]).
  { rewrite (ogL_val nvPb nvprov nv_provider_ok nv_empty_ok). reflexivity. }
  assert (H5 : vnorminf (kkt_residual (p_Lgamma (with_opts nvPP 1) / p_L0 (with_opts nvPP 1)) [0] [1 + 0] [1 + 0]) = 0).
  { cbv -[Rplus Rminus Rmult Rdiv Rinv Ropp Rle_bool Rlt_bool Req_bool Rabs IZR sqrt].
    replace (1 / (1 / 2 / 1) * 0 + (1 + 0 - (1 + 0))) with 0 by lra. apply Rabs_R0. }
  assert (H6 : 0 <= eff_tol (o_tol (with_opts nvPP 1))).
  { unfold eff_tol. cbn [o_tol with_opts]. change (@nltb R NumR) with Rlt_bool. change (@n0 R NumR) with 0.
    rewrite (Rlt_bool_true 0 1) by lra. lra. }
  destruct (zerofprD_converged_at_0 pgf (o_psi_yhat nvPb nvprov [0] [1]) (o_grad_L nvPb nvprov) (o_grad_psi nvPb nvprov [0] [1])
              [Some 0] [Some 1] [] (Lbfgs.state R) nvz_lbfgs (fun c => nv_never (cadd cnt0 c)) (fun c => nv_never (cadd cnt0 c))
              (with_opts nvPP 1) false [0] [0] [1] [0] 5 (lbfgs_unsized (T:=R)) ψ0 (psi_def nvPb [0] [0] [1]) 0 0 [1 + 0] wm0 [0] [0] [0] [1 + 0]
              ltac:(cbn; lra) ltac:(cbn; lra) eq_refl H1 H2 H3 H4 H5 H6 4)
    as (oD & Hrun & O1 & O2 & O3 & O4 & O5 & O6 & O7).
  rewrite Hrun. cbv zeta. rewrite O1, O2, O3, O4, O5, O6. cbn [alm_status_of].
  replace (vdiv (vsub [0] [0]) [1]) with [0] by (cbn; f_equal; lra).
  eexists. eexists. reflexivity.
Qed.

Lemma nvzD_converged : exists co, nvzD_run = Some co /\ f_status (co_final co) = Converged /\ co_x co = [0] /\ f_y (co_final co) = [0].
Proof.
  destruct nvzD_inner as (lg & w' & Hin).
  unfold nvzD_run, alm_zerofpr_dir, c_run, c_script_of.
  change (Nat.eqb (Alm.p_max_iter nvAP) 0) with false. change (Nat.eqb (pb_m (pb_of nvPb 0)) 0) with false. cbv iota.
  set (s0 := init_state nvAP (pb_of nvPb 0) (pf nvPb [0]) (pg nvPb [0]) 0 None [0]).
  assert (Es : s0 = {| s_Sigma := [1]; s_err := [0]; s_err_old := [0]; s_norm_old := 0; s_eps := 1; s_y := [0]; s_fails := 0; s_iters := 0 |})
    by (unfold s0; rcomp; reflexivity).
  assert (Ey : c_y_in nvAP (pb_of nvPb 0) s0 = [0]) by (rewrite Es; rcomp; reflexivity).
  set (r0 := {| ir_status := Converged; ir_eps := 0; ir_err := Some [0]; ir_y := Some [0]; ir_iters := 0; ir_oot := false; ir_stop := false |}) in *.
  assert (Ex : f_exhausted (snd (alm_loop nvAP (pb_of nvPb 0) 0 s0 [r0])) = false).
  { rewrite Es. cbv -[Rplus Rminus Rmult Rdiv Rinv Ropp Rle_bool Rlt_bool Req_bool Rabs IZR sqrt]. rewrite Rabs_R0. rbb. reflexivity. }
  rewrite c_loop_S. rewrite Ey.
  replace (s_Sigma s0) with [1] by (rewrite Es; reflexivity). replace (s_eps s0) with 1 by (rewrite Es; reflexivity).
  replace (s_err s0) with [0] by (rewrite Es; reflexivity). rewrite Hin. rewrite Ex.
  eexists. split; [reflexivity|]. cbn [co_final co_x c_script c_x].
  unfold alm_run. change (Nat.eqb (Alm.p_max_iter nvAP) 0) with false. change (Nat.eqb (pb_m (pb_of nvPb 0)) 0) with false. cbv iota.
  fold s0. rewrite Es.
  cbv -[Rplus Rminus Rmult Rdiv Rinv Ropp Rle_bool Rlt_bool Req_bool Rabs IZR sqrt]. rewrite !Rabs_R0. rbb. repeat split.
Qed.
