(* AlmGenEq.v — tie 1 for C07: every kernel that translate/gen_C07_alm.py regenerates from alm-helpers.tpp / alm.tpp on
   every run (coq/gen/AlmGen.v) equals the corresponding kernel of the hand model Alm.v — the one all theorems of
   AlmProofs.v / Properties_C07.v are about — at the real instance.  A change of the source changes AlmGen.v and breaks
   the corresponding lemma here (a proof obligation of Properties_C07.v).
   Proof style: `reflexivity` when the translated term is convertible with the model (the normal case, also after
   introducing temporaries: they become `let`s), otherwise case analysis + linear/non-linear real arithmetic, so that an
   equivalent rewriting of a kernel need not break the tie. *)
From Coq Require Import Reals List ZArith Lra Lia Psatz Bool Arith String.
From Flocq Require Import Raux.
From Alpaqa Require Import Num NumR Vec Prox Alm AlmProofs AlmGen StatsAcc.
Import ListNotations.
Local Open Scope R_scope.

Lemma map3_ext' {A B C D} (f g : A -> B -> C -> D) a b c :
  (forall x y z, f x y z = g x y z) -> map3 f a b c = map3 g a b c.
Proof.
  intros Hfg. revert b c. induction a as [|x a IH]; intros [|y b] [|z c]; cbn; try reflexivity.
  rewrite Hfg, IH. reflexivity.
Qed.

(* scalar / boolean kernels *)
Ltac tie_unfold :=
  cbv beta zeta delta [g_upw_skip g_upw_single g_single_cond g_single_new g_comp_cond g_comp_new g_initial_sigma_auto
                       g_sigma_accepted g_use_initial_penalty g_initial_penalty_value g_initial_tol g_next_tol g_proj_bound
                       g_out_of_iter g_inner_converged g_failure_increment g_norm_e g_is_interrupted g_alm_converged g_interrupted g_exit
                       g_exit_status upd1 initial_sigma_auto sigma_accepted exit_status clamp].
Ltac tie_bools :=
  repeat match goal with
         | b : bool |- _ => destruct b
         | s : status |- _ => destruct s
         end.
Ltac tie :=
  intros;
  first
    [ reflexivity
    | solve [ tie_unfold; rewrite ?Nat.add_1_r, ?Nat.add_1_l; try reflexivity; tie_bools; try reflexivity;
              repeat match goal with |- context [Nat.eqb ?a ?b] => destruct (Nat.eqb_spec a b) end; try lia; try reflexivity;
              numR; unfold Rmin, Rmax; repeat destruct (Rle_dec _ _); rbool; try reflexivity; try lra; try nra ] ].

Section Tie.
  Variable P : alm_params (T:=R).

  (* ---- update_penalty_weights ---- *)
  Lemma gen_upw_skip_eq Δ first ne no : g_upw_skip P Δ first ne no = Rle_bool ne (p_dual_tol P).
  Proof. tie. Qed.
  Lemma gen_upw_single_eq Δ first ne no : g_upw_single P Δ first ne no = p_single P.
  Proof. tie. Qed.
  Lemma gen_single_cond_eq first ne no σ0 :
    g_single_cond P (p_Delta P) first ne no σ0 = (first || Rlt_bool (p_theta P * no) ne).
  Proof. tie. Qed.
  Lemma gen_single_new_eq first ne no σ0 :
    g_single_new P (p_Delta P) first ne no σ0 = nfmax σ0 (nfmin (p_max_pen P) (p_Delta P * σ0)%num).
  Proof. tie. Qed.
  Lemma gen_comp_eq first ne no e o σ :
    (if g_comp_cond P (p_Delta P) first ne no e o σ then g_comp_new P (p_Delta P) first ne no e o σ else σ)
    = upd1 P first ne e o σ.
  Proof. tie. Qed.

  Lemma gen_update_penalty_weights_eq first e o ne no Σ :
    g_update_penalty_weights P (p_Delta P) first e o ne no Σ = update_penalty_weights P first e o ne no Σ.
  Proof.
    try reflexivity.
    all: unfold g_update_penalty_weights, update_penalty_weights; rewrite gen_upw_skip_eq, gen_upw_single_eq;
      cbn [nleb NumR]; destruct (Rle_bool ne (p_dual_tol P)); [reflexivity|]; destruct (p_single P);
      [ unfold upd_single; destruct Σ as [|σ0 Σ']; [reflexivity|]; rewrite gen_single_cond_eq; cbn [nltb nmul NumR];
        destruct (first || _); [|reflexivity]; apply map_ext; intros _; apply gen_single_new_eq
      | apply map3_ext'; intros; apply gen_comp_eq ].
  Qed.

  Lemma gen_call_update_penalty_weights_eq i e o ne no Σ :
    g_call_update_penalty_weights P i e o ne no Σ = update_penalty_weights P (Nat.eqb i 0) e o ne no Σ.
  Proof.
    first [ reflexivity | unfold g_call_update_penalty_weights; apply gen_update_penalty_weights_eq ].
  Qed.

  (* ---- initial penalties ---- *)
  Lemma gen_initial_sigma_auto_eq f0 g0 : g_initial_sigma_auto P f0 g0 = initial_sigma_auto P f0 g0.
  Proof. tie. Qed.
  Lemma gen_sigma_accepted_eq (s : list R) : g_sigma_accepted s = sigma_accepted s.
  Proof. tie. Qed.
  Lemma gen_initial_sigma_eq m f0 g0 Σ0 : g_initial_sigma P m f0 g0 Σ0 = initial_sigma P m f0 g0 Σ0.
  Proof.
    try reflexivity.
    all: unfold g_initial_sigma, initial_sigma; rewrite gen_initial_sigma_auto_eq;
      assert (Hu : g_use_initial_penalty P = Rlt_bool 0 (p_init_pen P)) by tie;
      assert (Hv : g_initial_penalty_value P = p_init_pen P) by tie;
      rewrite Hu, Hv; destruct Σ0 as [s|]; [rewrite gen_sigma_accepted_eq|]; reflexivity.
  Qed.

  (* ---- tolerances, multiplier bound ---- *)
  Lemma gen_initial_tol_eq : g_initial_tol P = p_init_tol P.
  Proof. tie. Qed.
  Lemma gen_next_tol_eq ε : g_next_tol P ε = nfmax (p_rho P * ε)%num (p_tol P).
  Proof. tie. Qed.
  Lemma gen_proj_bound_eq : g_proj_bound P = p_M P.
  Proof. tie. Qed.

  (* ---- termination, exit, status ---- *)
  (* inside the loop i < max_iter (so that e.g. `i == max_iter - 1` is the same test) *)
  Lemma gen_out_of_iter_eq i : (i < p_max_iter P)%nat -> g_out_of_iter P i = Nat.eqb (S i) (p_max_iter P).
  Proof. tie. Qed.
  Lemma gen_inner_converged_eq (st : status) : g_inner_converged st = is_converged st.
  Proof. tie. Qed.
  Lemma gen_is_interrupted_eq (st : status) : g_is_interrupted st = is_interrupted st.
  Proof. tie. Qed.
  Lemma gen_failure_increment_eq (c : bool) : g_failure_increment c = (if c then 0 else 1)%nat.
  Proof. tie. Qed.
  Lemma gen_norm_e_eq (e : list R) : g_norm_e e = vnorminf e.
  Proof. tie. Qed.
  Lemma gen_alm_converged_eq eps c ne :
    g_alm_converged P eps c ne = (Rle_bool eps (p_tol P) && c && Rle_bool ne (p_dual_tol P)).
  Proof. tie. Qed.
  (* ALM's own stop flag enters the exit test as it is read (no negation, no other condition mixed in) *)
  Lemma gen_interrupted_eq (flag : bool) : g_interrupted flag = flag.
  Proof. tie. Qed.
  Lemma gen_exit_eq a ooi oot intr : g_exit a ooi oot intr = (a || ooi || oot || intr).
  Proof. tie. Qed.
  Lemma gen_exit_status_eq a oot ooi intr : g_exit_status a oot ooi intr = exit_status a oot ooi intr.
  Proof. tie. Qed.
End Tie.

(* ---- the same, assembled: what the theorems call rec_conv / rec_exit / rec_status / next / init_state is the
      composition of generated kernels ---- *)
Section Assembled.
  Variable P : alm_params (T:=R).
  Variable pb : alm_problem (T:=R).

  Lemma rec_conv_is_generated (r : iter_rec (T:=R)) :
    rec_conv P r = g_alm_converged P (ir_eps (it_res r)) (g_inner_converged (ir_status (it_res r))) (it_norm r).
  Proof. rewrite gen_alm_converged_eq, gen_inner_converged_eq. reflexivity. Qed.

  Lemma rec_exit_is_generated (r : iter_rec (T:=R)) : (it_i r < p_max_iter P)%nat ->
    rec_exit P r = g_exit (rec_conv P r) (g_out_of_iter P (it_i r)) (ir_oot (it_res r)) (g_interrupted (ir_stop (it_res r))).
  Proof. intros Hi. rewrite gen_exit_eq, gen_interrupted_eq, gen_out_of_iter_eq by exact Hi. reflexivity. Qed.

  Lemma rec_status_is_generated (r : iter_rec (T:=R)) : (it_i r < p_max_iter P)%nat ->
    rec_status P r =
      if g_is_interrupted (ir_status (it_res r)) then Interrupted
      else g_exit_status (rec_conv P r) (ir_oot (it_res r)) (g_out_of_iter P (it_i r)) (g_interrupted (ir_stop (it_res r))).
  Proof. intros Hi. rewrite gen_is_interrupted_eq, gen_exit_status_eq, gen_interrupted_eq, gen_out_of_iter_eq by exact Hi. reflexivity. Qed.

  Lemma next_is_generated i (s : st (T:=R)) (r : inner_res (T:=R)) :
    let err := err_of pb s r in
    s_Sigma (next P pb i s r) = g_call_update_penalty_weights P i err (s_err_old s) (g_norm_e err) (s_norm_old s) (s_Sigma s) /\
    s_eps (next P pb i s r) = g_next_tol P (s_eps s) /\
    s_fails (next P pb i s r) = (s_fails s + g_failure_increment (g_inner_converged (ir_status r)))%nat /\
    it_y (mkrec P pb i s r) = proj_multipliers (pb_split pb) (pb_lb pb) (pb_ub pb) (g_proj_bound P) (s_y s).
  Proof.
    cbv zeta. rewrite gen_call_update_penalty_weights_eq, gen_norm_e_eq, gen_next_tol_eq, gen_failure_increment_eq,
      gen_inner_converged_eq, gen_proj_bound_eq. repeat split.
  Qed.

  Lemma init_state_is_generated f0 g0 nanv Σ0 y0 :
    s_Sigma (init_state P pb f0 g0 nanv Σ0 y0) = g_initial_sigma P (pb_m pb) f0 g0 Σ0 /\
    s_eps (init_state P pb f0 g0 nanv Σ0 y0) = g_initial_tol P.
  Proof. rewrite gen_initial_sigma_eq, gen_initial_tol_eq. split; reflexivity. Qed.
End Assembled.

(* ---- clock expressions (durations as integer nanosecond counts): the time budget handed to the inner solver is within
      [0, max(max_time, 0)] and positive exactly when time is left; out_of_time is `elapsed > max_time` ---- *)
Lemma gen_time_remaining_spec (elapsed max_time : Z) : (0 <= elapsed)%Z ->
  (0 <= g_time_remaining elapsed max_time <= Z.max max_time 0)%Z /\
  ((elapsed < max_time)%Z -> g_time_remaining elapsed max_time = (max_time - elapsed)%Z) /\
  ((max_time <= elapsed)%Z -> g_time_remaining elapsed max_time = 0%Z).
Proof.
  intros H. unfold g_time_remaining.
  repeat match goal with |- context [Z.ltb ?a ?b] => destruct (Z.ltb_spec a b) | |- context [Z.leb ?a ?b] => destruct (Z.leb_spec a b) end; lia.
Qed.

Lemma gen_out_of_time_spec (elapsed max_time : Z) : g_out_of_time elapsed max_time = true <-> (max_time < elapsed)%Z.
Proof.
  unfold g_out_of_time.
  repeat match goal with |- context [Z.ltb ?a ?b] => destruct (Z.ltb_spec a b) | |- context [Z.leb ?a ?b] => destruct (Z.leb_spec a b) end;
    cbn; split; intros; try lia; try discriminate; auto.
Qed.

(* ---- InnerSolveOptions handed to the inner solver, as written in the source ---- *)
Local Open Scope string_scope.
Definition has (k v : string) (t : list (string * string)) : bool :=
  existsb (fun kv => String.eqb (fst kv) k && String.eqb (snd kv) v) t.

Lemma gen_opts_loop_spec :
  has "always_overwrite_results" "true" g_opts_loop && has "max_time" "time_remaining" g_opts_loop &&
  has "tolerance" "ε" g_opts_loop && has "outer_iter" "i" g_opts_loop && has "check" "false" g_opts_loop = true.
Proof. vm_compute. reflexivity. Qed.

Lemma gen_opts_m0_spec :
  has "always_overwrite_results" "true" g_opts_m0 && has "max_time" "params.max_time" g_opts_m0 &&
  has "tolerance" "params.tolerance" g_opts_m0 && has "check" "false" g_opts_m0 = true.
Proof. vm_compute. reflexivity. Qed.

(* ---- ALMSolver::stop() as written in outer/alm.hpp: sets ALM's own flag AND forwards to the inner solver ---- *)
Lemma gen_stop_body_spec :
  existsb (fun kv => String.eqb (fst kv) "stop_signal.stop()") g_stop_body &&
  existsb (fun kv => String.eqb (fst kv) "inner_solver.stop()") g_stop_body = true.
Proof. vm_compute. reflexivity. Qed.

(* ---- G5: the five shipped accumulators ---- *)
Definition kind_eqb (a b : acc_kind) : bool :=
  match a, b with Sum, Sum | Last, Last | Max, Max => true | _, _ => false end.
Definition is_final (f : string) : bool := String.prefix "final_" f.
(* every field whose name starts with final_ keeps the LAST value, every other (counter / time) field is SUMMED *)
Definition acc_table_ok (t : list (string * acc_kind)) : bool :=
  forallb (fun fk => if is_final (fst fk) then kind_eqb (snd fk) Last else kind_eqb (snd fk) Sum) t.
(* every field of the Stats struct except status and ε is accumulated, exactly once, and nothing else is *)
Fixpoint count (f : string) (l : list string) : nat :=
  match l with [] => 0 | x :: l' => (if String.eqb x f then 1 else 0) + count f l' end.
Definition acc_complete (t : list (string * acc_kind)) (fields : list string) : bool :=
  forallb (fun f => if String.eqb f "status" || String.eqb f "ε" then Nat.eqb (count f (map fst t)) 0
                    else Nat.eqb (count f (map fst t)) 1) fields &&
  forallb (fun f => negb (Nat.eqb (count f fields) 0)) (map fst t).

Lemma stats_accumulators_ok :
  List.length acc_all = 5%nat /\
  forallb (fun e => let '(_, t, fields) := e in
                    acc_table_ok t && acc_complete t fields && negb (Nat.eqb (List.length t) 0)) acc_all = true.
Proof. split; vm_compute; reflexivity. Qed.
