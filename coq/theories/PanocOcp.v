(* PanocOcp.v — the parts of PANOCOCPSolver::operator() (implementation/inner/panoc-ocp.tpp) that decide what `Converged`
   certifies (C13).  Model only; the shared kernels (Prox.v, SolverKernels.v, gen/StopChain.v, Ocp.v) are imported, not copied.
     eval_prox_impl            -> ocp_prox       (projected-gradient step in the input box U, the same box for every stage)
     calc_error_stop_crit      -> ocp_crit       (local copy: only six criteria, the others throw std::invalid_argument)
     is_constr_inactive        -> ocp_inactive   (free components of the Gauss-Newton / L-BFGS direction)
     write_solution            -> ocp_write1     (per constraint row: err = (ζ − Π_D ζ) − y/μ ;  y += μ err), returned u = û
     check_all_stop_conditions -> StopChain.stop_status_ocp (generated from the source on every run) *)
From Coq Require Import List ZArith Bool Arith.
From Alpaqa Require Import Num Vec Prox SolverStatus SolverKernels.
Import ListNotations.

Definition tile {A} (N : nat) (l : list A) : list A := concat (repeat l N).

Section PanocOcp.
  Context {T : Type} `{Num T}.
  Local Open Scope num_scope.

  (* p = fmin(fmax(−γ∇ψ, lb − u), ub − u) per stage, û = u + p; returns (û, p, pᵀp, ∇ψᵀp).
     std::fmax/fmin differ from cwiseMax/cwiseMin only on NaN operands. *)
  Definition ocp_prox (Ulb Uub : list (option T)) (N : nat) (γ : T) (u g : list T) : list T * list T * T * T :=
    let '(uh, p, _) := proj_grad_step (tile N Ulb) (tile N Uub) γ u g in
    (uh, p, vsqnorm p, vdot g p).

  (* calc_error_stop_crit of panoc-ocp.tpp *)
  Definition ocp_crit (c : stopcrit) (Ulb Uub : list (option T)) (N : nat) (γ : T) (u g p : list T) : option T :=
    match c with
    | ProjGradNorm | ProjGradNorm2 | ProjGradUnitNorm | ProjGradUnitNorm2 | FPRNorm | FPRNorm2 =>
        Some (crit_eps c (tile N Ulb) (tile N Uub) [] p γ u [] [] g [])
    | ApproxKKT | ApproxKKT2 | Ipopt | LBFGSBpp => None      (* throw std::invalid_argument("Unsupported stopping criterion") *)
    end.

  (* inactive (free) input components: lb < u − γ∇ψ < ub *)
  Definition ocp_inactive (Ulb Uub : list (option T)) (N : nat) (γ : T) (u g : list T) : list bool :=
    map3 (fun lu ui gi => in_interior (fst lu) (snd lu) (ui - γ * gi)) (combine (tile N Ulb) (tile N Uub)) u g.
  Definition ocp_nJ Ulb Uub N γ u g : nat := length (filter (fun b => b) (ocp_inactive Ulb Uub N γ u g)).

  (* write_solution, one constraint row:  et = (ζ − Π_D ζ);  et −= y/μ;  y += μ et *)
  Definition ocp_write1 (lb ub : option T) (c y μ : T) : T * T :=
    let e := projdiff1 lb ub (c + y / μ) - y / μ in
    (y + μ * e, e).
  Definition ocp_write (lb ub : list (option T)) (c y μ : list T) : list (T * T) :=
    map5 (fun l u ci yi mi => ocp_write1 l u ci yi mi) lb ub c y μ.

  (* exit: overwrite iff Converged, Interrupted or always_overwrite_results; the returned inputs are û_k *)
  Definition ocp_exit (st : status) (always : bool) (u_in uh : list T) : list T :=
    if overwrites st always then uh else u_in.
End PanocOcp.
