(* AlmPantrDirProofs.v — END-TO-END for the SHIPPED stack ALMSolver<PANTRSolver<DirectionProviderT>>: the composed executable model
   AlmPantrDir.alm_pantr_dir (ALM outer loop of Alm.v running PantrDir.pantrD — the PANTR loop with a STATEFUL trust-region direction
   provider whose state persists across inner solves) returns `Converged` only with an approximate KKT point of the USER'S problem
     - generically, for EVERY provider `trdirops` that keeps dimensions (PantrDirLen.trdir_len) started from a sane state (I0 or Iv);
     - for NewtonTRDirection over SteihaugCG (the provider the library ships): NO hypothesis about the direction — every
       NewtonTRDirectionParams (hessian_vec_factor, exact Hessian products or finite differences, every perturbation size), every
       SteihaugCGParams and iteration-cap conversion, ARBITRARY eval_grad_ψ / eval_hess_ψ_prod members and capability flags, any box / l1
       data the provider is given, any provider state.  The provider's own throw conditions (a failing capability check of initialize, a
       non-finite radius or a radius below ε_mach in apply) need not be excluded: a run in which a provider call throws has no result.
   Ingredients: PantrDirLen.pantrD_inner_contract_len / pantrD_out_x_length / pantrD_out_dir (the dimension invariant of the provider loop,
   which uses the refinement theorem PantrDirProofs.pantrD_refines) and the generic composition lemma with a world invariant
   AlmComposeKktW.compose_converged_is_kkt_W (the world is (cumulative counters, provider); its invariant: the provider is sane).  Over R. *)
From Coq Require Import Reals List ZArith Lra Lia Bool Arith Psatz.
From Flocq Require Import Raux.
From Alpaqa Require Import Num NumR Vec Prox ProxProofs ProxVec SolverStatus SolverKernels SolverKernelsProofs DescentProofs
                           StopChain StopChainProofs KktProofs AugLag AugLagProofs Panoc PanocProofs ZeroFpr ZeroFprProofs
                           Pantr PantrProofs PantrLen LiveVec Steihaug Directions DirectionsTR PantrDir PantrDirProofs PantrDirLen
                           Alm AlmProofs AlmCompose AlmComposeProofs AlmComposeKkt AlmComposeKktW AlmPanoc AlmPanocProofs
                           AlmPantr AlmPantrProofs AlmPantrDir.
Import ListNotations.
Local Open Scope R_scope.

Section E2E.
  Variable Pb : problem (T:=R).
  Variable prov : fn -> bool.
  Variable wm_supplied : list R -> list R.
  Variables (Clb Cub : list (option R)) (l1 : list R).
  Variable split : nat.
  Variable D : Type.
  Variable ops : trdirops R D.
  Variable stop_req : counters -> bool.
  Variable time_up : counters -> bool.
  Variable outer_oot : nat -> bool.
  Variable TP : trparams (T:=R).
  Variable AP : alm_params (T:=R).
  Variables (bt_fuel inner_fuel : nat).
  Variables (n m : nat).

  Hypothesis Hprov : provider_ok Pb prov.
  Hypothesis Hempty : grad_g_prod_empty_ok Pb.
  Hypothesis Hl1 : l1 = [].
  Hypothesis Hcrit : p_crit (tp_base TP) = ApproxKKT.
  Hypothesis HLg : 0 < p_Lgamma (tp_base TP).
  Hypothesis HL : 0 < p_L0 (tp_base TP) \/ 0 < p_Lmin (tp_base TP) <= p_Lmax (tp_base TP).
  Hypothesis HClb : length Clb = n.
  Hypothesis HCub : length Cub = n.
  Hypothesis HCne : Forall2 box_ne Clb Cub.
  Hypothesis Hgf : forall x, length x = n -> length (pgrad_f Pb x) = n.
  Hypothesis Hgg : forall x y, length x = n -> length (pgrad_g_prod Pb x y) = n.
  Hypothesis Hg : forall x, length x = n -> length (pg Pb x) = m.
  Hypothesis HDlb : length (plb Pb) = m.
  Hypothesis HDub : length (pub Pb) = m.
  Hypothesis HDne : Forall2 box_ne (plb Pb) (pub Pb).

  Variables (I0 Iv : D -> Prop).
  Hypothesis HDL : trdir_len n D ops I0 Iv.

  Notation inner_ := (tdinner Pb prov wm_supplied Clb Cub l1 D ops stop_req time_up outer_oot TP bt_fuel inner_fuel).
  Notation opgf := (o_psi_grad_full Pb prov wm_supplied).
  Notation opy := (o_psi_yhat Pb prov).
  Notation ogL := (o_grad_L Pb prov).
  Notation ogp := (o_grad_psi Pb prov).
  Definition tdsane (w : counters * D) : Prop := I0 (snd w) \/ Iv (snd w).

  (* ---- one inner solve, handed a sane provider *)
  Lemma tdinner_contract_W : inner_contract_kkt_W (counters * D)%type (tresultD (T:=R) D) inner_ tdsane Pb Clb Cub n.
  Proof.
    intros w i x y Σ tol errz r x' lg w' Hw Hx. unfold tdinner.
    match goal with |- context [match ?pr with TDoneD _ _ => _ | TNotFiniteLD _ _ => _ | TOutOfFuelD _ => _ | TThrewD _ _ _ _ => _ end] =>
      destruct pr as [oD|L| |lg' dd cl] eqn:Er end.
    3,4: discriminate.
    2: { intros E. injection E as E1 E2 E3 E4. subst r x' w'. split; [exact Hw|]. split; [exact Hx|]. cbn [ir_status]. discriminate. }
    cbv zeta. intros E. injection E as E1 E2 E3 E4. subst r x' w'. cbn [ir_status ir_y ir_err ir_eps].
    assert (Hpg : forall z, length z = n -> length (snd (psi_grad (opgf y Σ) z)) = n).
    { intros z Hz. rewrite (opgf_grad Pb prov wm_supplied Hprov Hempty). unfold grad_psi_def. now apply (grad_L_def_length Pb n Hgf Hgg). }
    split.
    { unfold tdsane. cbn [snd].
      exact (pantrD_out_dir (opgf y Σ) (opy y Σ) ogL (ogp y Σ) Clb Cub l1 D ops _ _ (tr_with_opts TP tol) x y Σ errz bt_fuel (snd w) n
               Hl1 HClb HCub Hx Hpg I0 Iv HDL Hw inner_fuel oD Er). }
    split.
    { exact (pantrD_out_x_length (opgf y Σ) (opy y Σ) ogL (ogp y Σ) Clb Cub l1 D ops _ _ (tr_with_opts TP tol) x y Σ errz bt_fuel (snd w) n
               Hl1 HClb HCub Hx Hpg I0 Iv HDL Hw inner_fuel oD Er). }
    intros Hst. apply alm_status_of_converged in Hst.
    destruct (pantrD_inner_contract_len (opgf y Σ) (opy y Σ) ogL (ogp y Σ) Clb Cub l1 D ops _ _ (tr_with_opts TP tol) x y Σ errz bt_fuel (snd w) n
                Hl1 HClb HCub Hx Hpg I0 Iv HDL Hw inner_fuel oD Er Hst Hcrit)
      as (xx & γ & Lxx & Lgr & Lxo & Ex & Ey & Ee & Eeps & Etol & Hγ).
    set (o := tod_out D oD) in *.
    cbv zeta in *. rewrite (opy_val Pb prov Hprov) in Ey. cbn [snd] in Ey.
    split; [now rewrite Ey|]. split; [now rewrite Ee, Ey|].
    exists xx, (snd (psi_grad (opgf y Σ) xx)), γ. split.
    { apply Hγ; [exact HLg|]. apply L_init_pos. exact HL. }
    split; [exact Lxx|]. split; [exact Lgr|]. split; [exact Ex|]. split; [|exact Etol].
    rewrite Eeps, (ogL_val Pb prov Hprov Hempty), Ey. reflexivity.
  Qed.

  (* ================================================================ THE theorem, for every dimension-keeping TR provider *)
  Theorem alm_pantr_dir_converged_is_kkt (d0 : D) outer_fuel nanv Σ0 y0 x0 co :
    I0 d0 \/ Iv d0 ->
    length x0 = n -> length y0 = m ->
    Alm.p_max_iter AP <> 0%nat ->
    (m <> 0%nat -> sigma_inv AP m (initial_sigma AP m (pf Pb x0) (pg Pb x0) Σ0)) ->
    (m = 0%nat -> 0 < p_tol AP) ->
    alm_pantr_dir Pb prov wm_supplied Clb Cub l1 split D ops stop_req time_up outer_oot TP AP bt_fuel inner_fuel d0
                  outer_fuel nanv Σ0 y0 x0 = Some co ->
    f_status (co_final co) = Converged ->
    kkt_point Pb Clb Cub n m (p_tol AP) (p_dual_tol AP) (co_x co) (f_y (co_final co)).
  Proof.
    intros Hd0 Hx0 Hy0 Hmi HΣ Htol Hrun Hst. unfold alm_pantr_dir in Hrun.
    exact (compose_converged_is_kkt_W (counters * D)%type (tresultD (T:=R) D) inner_ tdsane Pb Clb Cub split AP n m HClb HCub HCne Hgf Hgg Hg HDlb HDub HDne
             tdinner_contract_W outer_fuel nanv Σ0 y0 x0 (cnt0, d0) co Hd0 Hx0 Hy0 Hmi HΣ Htol Hrun Hst).
  Qed.

  (* the provider object after ANY completed ALM run is sane again, and the primal buffer holds an n-vector *)
  Theorem alm_pantr_dir_keeps_provider (d0 : D) outer_fuel nanv Σ0 y0 x0 co :
    I0 d0 \/ Iv d0 -> length x0 = n ->
    alm_pantr_dir Pb prov wm_supplied Clb Cub l1 split D ops stop_req time_up outer_oot TP AP bt_fuel inner_fuel d0
                  outer_fuel nanv Σ0 y0 x0 = Some co ->
    (I0 (snd (co_w co)) \/ Iv (snd (co_w co))) /\ length (co_x co) = n.
  Proof.
    intros Hd0 Hx0 Hrun. unfold alm_pantr_dir in Hrun.
    exact (compose_keeps_world (counters * D)%type (tresultD (T:=R) D) inner_ tdsane Pb Clb Cub AP n m Hg HDlb HDub tdinner_contract_W _ _ _ _ _ _ _ _ (cnt0, d0) co Hd0 Hx0 Hrun).
  Qed.
End E2E.

(* ================================================================ the shipped provider: NewtonTRDirection over SteihaugCG *)
Section Shipped.
  Variable Pb : problem (T:=R).
  Variable prov : fn -> bool.
  Variable wm_supplied : list R -> list R.
  Variables (Clb Cub : list (option R)) (l1 : list R).
  Variable split : nat.
  Variable stop_req : counters -> bool.
  Variable time_up : counters -> bool.
  Variable outer_oot : nat -> bool.
  Variable TP : trparams (T:=R).
  Variable AP : alm_params (T:=R).
  Variables (bt_fuel inner_fuel : nat).
  Variables (n m : nat).

  Hypothesis Hprov : provider_ok Pb prov.
  Hypothesis Hempty : grad_g_prod_empty_ok Pb.
  Hypothesis Hl1 : l1 = [].
  Hypothesis Hcrit : p_crit (tp_base TP) = ApproxKKT.
  Hypothesis HLg : 0 < p_Lgamma (tp_base TP).
  Hypothesis HL : 0 < p_L0 (tp_base TP) \/ 0 < p_Lmin (tp_base TP) <= p_Lmax (tp_base TP).
  Hypothesis HClb : length Clb = n.
  Hypothesis HCub : length Cub = n.
  Hypothesis HCne : Forall2 box_ne Clb Cub.
  Hypothesis Hgf : forall x, length x = n -> length (pgrad_f Pb x) = n.
  Hypothesis Hgg : forall x y, length x = n -> length (pgrad_g_prod Pb x y) = n.
  Hypothesis Hg : forall x, length x = n -> length (pg Pb x) = m.
  Hypothesis HDlb : length (plb Pb) = m.
  Hypothesis HDub : length (pub Pb) = m.
  Hypothesis HDne : Forall2 box_ne (plb Pb) (pub Pb).

  Theorem alm_pantr_newtontr_converged_is_kkt
      (dlb dub : list (option R)) (dl1 : list R) (prov_inactive prov_hess_L prov_hess_psi m_is_zero : bool)
      (grad_psi_at : list R -> list R -> list R -> list R) (hess_psi_prod : list R -> list R -> list R -> R -> list R -> list R)
      (hvf : R) (fd : bool) (fd_step cg_ts cg_tsr : R) (cg_tmax : option R) (cg_max_iter : nat -> Z) (eps_mach : R) :
    forall (d0 : ntrstate R) outer_fuel nanv Σ0 y0 x0 co,
    length x0 = n -> length y0 = m ->
    Alm.p_max_iter AP <> 0%nat ->
    (m <> 0%nat -> sigma_inv AP m (initial_sigma AP m (pf Pb x0) (pg Pb x0) Σ0)) ->
    (m = 0%nat -> 0 < p_tol AP) ->
    alm_pantr_dir Pb prov wm_supplied Clb Cub l1 split (ntrstate R)
                  (newton_tr_dir dlb dub dl1 prov_inactive prov_hess_L prov_hess_psi m_is_zero grad_psi_at hess_psi_prod
                                 hvf fd fd_step cg_ts cg_tsr cg_tmax cg_max_iter eps_mach)
                  stop_req time_up outer_oot TP AP bt_fuel inner_fuel d0 outer_fuel nanv Σ0 y0 x0 = Some co ->
    f_status (co_final co) = Converged ->
    kkt_point Pb Clb Cub n m (p_tol AP) (p_dual_tol AP) (co_x co) (f_y (co_final co)).
  Proof.
    intros d0 outer_fuel nanv Σ0 y0 x0 co.
    exact (alm_pantr_dir_converged_is_kkt Pb prov wm_supplied Clb Cub l1 split (ntrstate R) _ stop_req time_up outer_oot TP AP bt_fuel inner_fuel n m
             Hprov Hempty Hl1 Hcrit HLg HL HClb HCub HCne Hgf Hgg Hg HDlb HDub HDne (fun _ => True) (fun _ => True)
             (ntr_len n dlb dub dl1 prov_inactive prov_hess_L prov_hess_psi m_is_zero grad_psi_at hess_psi_prod
                      hvf fd fd_step cg_ts cg_tsr cg_tmax cg_max_iter eps_mach)
             d0 outer_fuel nanv Σ0 y0 x0 co (or_introl I)).
  Qed.
End Shipped.

(* ================================================================ non-vacuity *)
(* a PANTR run with a provider whose first iterate already meets the tolerance: Converged at k = 0, no provider call is made *)
Section At0TD.
  Variable psi_grad_full : list R -> R * list R * list R.
  Variable psi_yhat : list R -> R * list R.
  Variable grad_L : list R -> list R -> list R.
  Variable grad_psi : list R -> list R.
  Variables (lb ub : list (option R)) (l1 : list R).
  Variable D : Type.
  Variable ops : trdirops R D.
  Variable stop_req : counters -> bool.
  Variable time_up : counters -> bool.
  Variable TP : trparams (T:=R).
  Variables (x_in y_in Σ errz_in : list R).
  Variable bt_fuel : nat.
  Variable d0 : D.
  Variables (ψ0 ψh h ε : R) (g0 wm0 xh p yh gh : list R).
  Notation P := (tp_base TP).
  Hypothesis HL0 : 0 < p_L0 P.
  Hypothesis HLmax : p_Lmax P <= p_L0 P.
  Hypothesis Hcrit : p_crit P = ApproxKKT.
  Hypothesis H1 : psi_grad_full x_in = (ψ0, g0, wm0).
  Hypothesis H2 : eval_prox_grad_step lb ub l1 (p_Lgamma P / p_L0 P) x_in g0 = (xh, p, h).
  Hypothesis H3 : psi_yhat xh = (ψh, yh).
  Hypothesis H4 : grad_L xh yh = gh.
  Hypothesis H5 : vnorminf (kkt_residual (p_Lgamma P / p_L0 P) p g0 gh) = ε.
  Hypothesis H6 : ε <= eff_tol (o_tol P).

  Lemma pantrD_converged_at_0 fuel :
    exists oD, pantrD psi_grad_full psi_yhat grad_L grad_psi lb ub l1 D ops stop_req time_up TP x_in y_in Σ errz_in bt_fuel d0 (S fuel) = TDoneD D oD /\
      let o := tod_out D oD in
      to_status o = StConverged /\ to_iterations o = 0%nat /\ to_eps o = ε /\ to_x o = xh /\ to_y o = yh /\
      to_errz o = match errz_in with [] => [] | _ => vdiv (vsub yh y_in) Σ end /\ tod_dir D oD = d0.
  Proof.
    unfold pantrD, backtrack, Pantr.P, init_L, psi_grad. cbv zeta. rewrite H1. cbn [fst snd].
    change (@nleb R NumR) with Rle_bool. change (@n0 R NumR) with 0.
    destruct (Rle_bool_spec (p_L0 P) 0) as [Hc|_]; [lra|].
    cbn [iL nfinite NumR negb]. change (@ndiv R NumR) with Rdiv.
    unfold eval_prox, set_gamma_L. cbn [ix ixh igrad ip iyh ipsi ipsih igam iL ipp igp ih ihave igradh]. rewrite H2. cbn [fst snd].
    unfold eval_cost. cbn [ix ixh igrad ip iyh ipsi ipsih igam iL ipp igp ih ihave igradh]. rewrite H3. cbn [fst snd].
    assert (Hq : forall i c s, iL i = p_L0 P -> ZeroFpr.init_qub psi_yhat lb ub l1 P bt_fuel i c s = Some (i, c, s)).
    { intros i c s Hi. destruct bt_fuel; cbn [ZeroFpr.init_qub]; rewrite Hi; change (@nltb R NumR) with Rlt_bool;
        (destruct (Rlt_bool_spec (p_L0 P) (p_Lmax P)) as [Hc|_]; [lra|reflexivity]). }
    rewrite Hq by reflexivity.
    cbn [tloopD]. unfold passD. cbn [tsd_st tsd_dir tsd_rej tsd_calls].
    unfold pass_prox. cbv zeta. cbn [ts_curr ts_k ts_gbuf ts_cnt ts_log ts_acc ts_stats ts_prox]. rewrite Hcrit. cbn [crit_needs_gradh].
    cbn [crit_eps ix ixh igrad ip iyh ipsi ipsih igam iL ipp igp ih ihave igradh]. rewrite H4, H5.
    rewrite tolerance_wins by (apply Rle_bool_iff; exact H6).
    unfold tpass, Pantr.P. cbv zeta. cbn [ts_curr ts_k ts_gbuf ts_cnt ts_log ts_acc ts_stats]. rewrite Hcrit. cbn [crit_needs_gradh].
    cbn [crit_eps ix ixh igrad ip iyh ipsi ipsih igam iL ipp igp ih ihave igradh]. rewrite H4, H5.
    rewrite tolerance_wins by (apply Rle_bool_iff; exact H6).
    unfold exit_block. cbn [overwrites].
    eexists. split; [reflexivity|]. cbn [tod_out tod_dir to_status to_iterations to_eps to_x to_y to_errz]. repeat split.
  Qed.
End At0TD.

(* ---- the instance of AlmPanocProofs (n = 1, m = 1: minimise x s.t. x in [0,1], g(x) = x <= 0, from x0 = 0, y0 = 0), PANTR with
   NewtonTRDirection (default parameters: hessian_vec_factor 1, exact products, SteihaugCG defaults; a provider that would have every
   capability, ∇ψ and the Hessian product of the instance: ∇²ψ = Σ on the active constraint), from the default-constructed provider *)
Definition nvt_ntr : trdirops R (ntrstate R) :=
  newton_tr_dir [Some 0] [Some 1] [] true true true false
                (fun x y S => o_grad_psi nvPb nvprov y S x) (fun _ _ S _ v => vmul S v)
                1 false (1/67108864) 1 (1/2) None (fun nJ => Z.of_nat nJ) (1/4503599627370496).
Definition nvtD_run :=
  alm_pantr_dir nvPb nvprov (fun _ => []) [Some 0] [Some 1] [] 0 (ntrstate R) nvt_ntr nv_never nv_never (fun _ => false) nvTP nvAP 5 5
                (ntr_new (T:=R)) 3 0 None [0] [0].

Lemma nvtD_inner : exists lg w',
  tdinner nvPb nvprov (fun _ => []) [Some 0] [Some 1] [] (ntrstate R) nvt_ntr nv_never nv_never (fun _ => false) nvTP 5 5
          (cnt0, ntr_new (T:=R)) 0 [0] [0] [1] 1 [0]
  = Some ({| ir_status := Converged; ir_eps := 0; ir_err := Some [0]; ir_y := Some [0]; ir_iters := 0; ir_oot := false; ir_stop := false |}, [0], lg, w').
Proof.
  unfold tdinner. cbn [fst snd].
  set (pgf := o_psi_grad_full nvPb nvprov (fun _ => []) [0] [1]).
  destruct (pgf [0]) as [[ψ0 g0] wm0] eqn:H1.
  assert (Hg0 : g0 = [1 + 0]).
  { pose proof (opgf_grad nvPb nvprov (fun _ => []) nv_provider_ok nv_empty_ok [0] [1] [0]) as Hg. fold pgf in Hg.
    unfold psi_grad in Hg. rewrite H1 in Hg. cbn [fst snd] in Hg. rewrite Hg. unfold grad_psi_def. rewrite nv_yhat. reflexivity. }
  subst g0.
  assert (H2 : eval_prox_grad_step [Some 0] [Some 1] [] (p_Lgamma (tp_base (tr_with_opts nvTP 1)) / p_L0 (tp_base (tr_with_opts nvTP 1))) [0] [1 + 0] = ([0], [0], 0)).
  { rcomp. f_equal. f_equal; f_equal; lra. }
  assert (H3 : o_psi_yhat nvPb nvprov [0] [1] [0] = (psi_def nvPb [0] [0] [1], [0])).
  { rewrite (opy_val nvPb nvprov nv_provider_ok). now rewrite nv_yhat. }
  assert (H4 : o_grad_L nvPb nvprov [0] [0] = [1 + 0]).
  { rewrite (ogL_val nvPb nvprov nv_provider_ok nv_empty_ok). reflexivity. }
  assert (H5 : vnorminf (kkt_residual (p_Lgamma (tp_base (tr_with_opts nvTP 1)) / p_L0 (tp_base (tr_with_opts nvTP 1))) [0] [1 + 0] [1 + 0]) = 0).
  { cbv -[Rplus Rminus Rmult Rdiv Rinv Ropp Rle_bool Rlt_bool Req_bool Rabs IZR sqrt].
    replace (1 / (1 / 2 / 1) * 0 + (1 + 0 - (1 + 0))) with 0 by lra. apply Rabs_R0. }
  assert (H6 : 0 <= eff_tol (o_tol (tp_base (tr_with_opts nvTP 1)))).
  { unfold eff_tol. cbn [o_tol with_opts tr_with_opts tp_base]. change (@nltb R NumR) with Rlt_bool. change (@n0 R NumR) with 0.
    rewrite (Rlt_bool_true 0 1) by lra. lra. }
  destruct (pantrD_converged_at_0 pgf (o_psi_yhat nvPb nvprov [0] [1]) (o_grad_L nvPb nvprov) (o_grad_psi nvPb nvprov [0] [1])
              [Some 0] [Some 1] [] (ntrstate R) nvt_ntr (fun c => nv_never (cadd cnt0 c)) (fun c => nv_never (cadd cnt0 c))
              (tr_with_opts nvTP 1) [0] [0] [1] [0] 5 (ntr_new (T:=R)) ψ0 (psi_def nvPb [0] [0] [1]) 0 0 [1 + 0] wm0 [0] [0] [0] [1 + 0]
              ltac:(cbn; lra) ltac:(cbn; lra) eq_refl H1 H2 H3 H4 H5 H6 4)
    as (oD & Hrun & O1 & O2 & O3 & O4 & O5 & O6 & O7).
  rewrite Hrun. cbv zeta. rewrite O1, O2, O3, O4, O5, O6. cbn [alm_status_of].
  replace (vdiv (vsub [0] [0]) [1]) with [0] by (cbn; f_equal; lra).
  eexists. eexists. reflexivity.
Qed.

Lemma nvtD_converged : exists co, nvtD_run = Some co /\ f_status (co_final co) = Converged /\ co_x co = [0] /\ f_y (co_final co) = [0].
Proof.
  destruct nvtD_inner as (lg & w' & Hin).
  unfold nvtD_run, alm_pantr_dir, c_run, c_script_of.
  change (Nat.eqb (Alm.p_max_iter nvAP) 0) with false. change (Nat.eqb (pb_m (pb_of nvPb 0)) 0) with false. cbv iota.
  set (s0 := init_state nvAP (pb_of nvPb 0) (pf nvPb [0]) (pg nvPb [0]) 0 None [0]).
  assert (Es : s0 = {| s_Sigma := [1]; s_err := [0]; s_err_old := [0]; s_norm_old := 0; s_eps := 1; s_y := [0]; s_fails := 0; s_iters := 0 |})
    by (unfold s0; rcomp; reflexivity).
  assert (Ey : c_y_in nvAP (pb_of nvPb 0) s0 = [0]) by (rewrite Es; rcomp; reflexivity).
  set (r0 := {| ir_status := Converged; ir_eps := 0; ir_err := Some [0]; ir_y := Some [0]; ir_iters := 0; ir_oot := false; ir_stop := false |}) in *.
  assert (Ex : f_exhausted (snd (alm_loop nvAP (pb_of nvPb 0) 0 s0 [r0])) = false).
  { rewrite Es. cbv -[Rplus Rminus Rmult Rdiv Rinv Ropp Rle_bool Rlt_bool Req_bool Rabs IZR sqrt]. rewrite Rabs_R0. rbb. reflexivity. }
  rewrite c_loop_S. rewrite Ey.
  replace (s_Sigma s0) with [1] by (rewrite Es; reflexivity). replace (s_eps s0) with 1 by (rewrite Es; reflexivity).
  replace (s_err s0) with [0] by (rewrite Es; reflexivity). rewrite Hin. rewrite Ex.
  eexists. split; [reflexivity|]. cbn [co_final co_x c_script c_x].
  unfold alm_run. change (Nat.eqb (Alm.p_max_iter nvAP) 0) with false. change (Nat.eqb (pb_m (pb_of nvPb 0)) 0) with false. cbv iota.
  fold s0. rewrite Es.
  cbv -[Rplus Rminus Rmult Rdiv Rinv Ropp Rle_bool Rlt_bool Req_bool Rabs IZR sqrt]. rewrite !Rabs_R0. rbb. repeat split.
Qed.
