(* Corr_FISTA.v — whole-run correspondence: FistaLoop.fista at binary64 against FISTASolver::operator() as run by
   harness/drv_solve.cpp.  The oracles of FistaLoop.v are instantiated with
     - the problem family of drv_solve (VProblem; the definitions of Corr_PANOC.v: f, ∇f, g, ∇g·y and the DEFAULT compositions of
       type-erased-problem.tpp for eval_ψ, eval_ψ_grad_ψ, eval_grad_ψ, eval_grad_L, operation order as in the C++),
     - the driver's hook "f / ∇f return NaN from user evaluation #E on" (the oracles see the event counters, hence the index of every
       user-function call they make: eval_ψ_grad_ψ = [∇f, f | g, f, ∇f, ∇g·y], eval_ψ = [f | g, f], eval_grad_L = [∇f | ∇f, ∇g·y],
       eval_grad_ψ = [∇f | g, ∇f, ∇g·y] for m = 0 | m > 0),
     - stop_req from the driver's injection points (stop() inside user evaluation #E / progress callback #C),
     - time_up constant (max_time = 0 ns or unlimited).
   The model's whole trajectory (every progress-callback record incl. t, final status, iterations, ε, outputs x / y / err_z,
   stepsize_backtracks, final_γ / final_ψ / final_h, number of user evaluations and callbacks) must equal the implementation's. *)
From Coq Require Import Floats List ZArith Bool Arith.
From Alpaqa Require Import Num NumF Vec Prox SolverStatus SolverKernels AugLag Corr_PANOC FistaLoop.
Import ListNotations.
Local Open Scope float_scope.

(* number of user-function calls made so far *)
Definition fevals_of (m : nat) (c : fcounters) : nat :=
  match m with
  | O => (2 * fc_pg c + fc_py c + fc_gl c + fc_gpsi c)%nat
  | _ => (4 * fc_pg c + 2 * fc_py c + 2 * fc_gl c + 3 * fc_gpsi c)%nat
  end.
(* Hooks::poison() inside the user evaluation with 0-based index idx:  nan_from_eval >= 0 && idx + 1 > nan_from_eval *)
Definition poisoned (nan_from : Z) (idx : nat) : bool := (0 <=? nan_from)%Z && (nan_from <=? Z.of_nat idx)%Z.
Definition fafter (limit : Z) (count : nat) : bool := (0 <=? limit)%Z && (limit <? Z.of_nat count)%Z.

Section Oracles.
  Variables (n : nat) (Q : list (list float)) (c w : list float) (A : list (list float)) (d : list float).
  Variables (Dlb Dub : list (option float)) (y S : list float) (nan_from : Z).
  Let m := length y.
  Definition pz_scalar (idx : nat) (v : float) : float := if poisoned nan_from idx then nan else v.
  Definition pz_vec (idx : nat) (v : list float) : list float := if poisoned nan_from idx then repeat nan n else v.

  Definition fo_psi_grad (cn : fcounters) (x : list float) : float * list float :=
    let e := fevals_of m cn in
    let r := o_psi_grad_full n Q c w A d Dlb Dub y S x in
    match m with
    | O => (pz_scalar (e + 1) (fst (fst r)), pz_vec e (snd (fst r)))
    | _ => (pz_scalar (e + 1) (fst (fst r)), pz_vec (e + 2) (snd (fst r)))
    end.
  Definition fo_psi_yhat (cn : fcounters) (x : list float) : float * list float :=
    let e := fevals_of m cn in
    let r := o_psi_yhat n Q c w A d Dlb Dub y S x in
    match m with
    | O => (pz_scalar e (fst r), snd r)
    | _ => (pz_scalar (e + 1) (fst r), snd r)
    end.
  Definition fo_grad_L (cn : fcounters) (x yh : list float) : list float :=
    pz_vec (fevals_of m cn) (o_grad_L n Q c w A d x yh).
  Definition fo_grad_psi (cn : fcounters) (x : list float) : list float :=
    let e := fevals_of m cn in
    let r := o_grad_psi n Q c w A d Dlb Dub y S x in
    match m with
    | O => pz_vec e r
    | _ => pz_vec (e + 1) r
    end.
End Oracles.

(* one callback record as reported by the driver *)
Record frec := mkFX { fx_k : nat; fx_status : status; fx_x : list float; fx_p : list float; fx_nsqp : float; fx_xh : list float;
                      fx_yh : list float; fx_phi : float; fx_psi : float; fx_grad : list float; fx_psih : float; fx_gradh : list float;
                      fx_L : float; fx_gamma : float; fx_eps : float; fx_t : float }.

Inductive fcase :=
| FCase (n : nat) (Q : list (list float)) (c w : list float) (A : list (list float)) (d : list float)
        (Clb Cub Dlb Dub l1 : list float) (x0 y0 S0 : list float)
        (prm : fparams (T:=float))
        (stop_eval stop_cb nan_from : Z) (time0 : bool) (fuel btfuel : nat)
        (* what the implementation did *)
        (status : status) (iterations : nat) (eps : float) (x_out y_out errz : list float)
        (bt : nat)              (* stepsize_backtracks *)
        (fst_ : list float)     (* final_gamma final_psi final_h *)
        (evals cbs : nat) (recs : list frec).

Definition frun_case (cs : fcase) : fresult (T:=float) :=
  match cs with
  | FCase n Q c w A d Clb Cub Dlb Dub l1 x0 y0 S0 prm se sc nf time0 fuel btfuel _ _ _ _ _ _ _ _ _ _ _ =>
      let dlb := map lb_of_float Dlb in let dub := map ub_of_float Dub in
      let m := length y0 in
      fista (fo_psi_grad n Q c w A d dlb dub y0 S0 nf) (fo_psi_yhat n Q c w A d dlb dub y0 S0 nf)
            (fo_grad_L n Q c w A d y0 nf) (fo_grad_psi n Q c w A d dlb dub y0 S0 nf)
            (map lb_of_float Clb) (map ub_of_float Cub) l1
            (fun cn => fafter se (fevals_of m cn) || fafter sc (fc_cb cn))
            (fun _ => time0)
            prm x0 y0 S0 (repeat nan m) btfuel fuel
  end.

Definition frec_of (need : bool) (r : fcbrec (T:=float)) : frec :=
  let i := fr_it r in
  mkFX (fr_k r) (fr_status r) (jx i) (jp i) (jpp i) (jxh i) (jyh i) (fit_fbe i) (jpsi i) (jgrad i) (jpsih i)
       (if need then jgradh i else []) (jL i) (jgam i) (fr_eps r) (fr_t r).

Definition frec_agree (a b : frec) : bool :=
  Nat.eqb (fx_k a) (fx_k b) && status_eqb (fx_status a) (fx_status b) && vfeq (fx_x a) (fx_x b) && vfeq (fx_p a) (fx_p b) &&
  feq (fx_nsqp a) (fx_nsqp b) && vfeq (fx_xh a) (fx_xh b) &&
  (* ŷ is uninitialised memory in the C++ until eval_ψ(x̂) has been called (fixed-step mode with a criterion that does not need
     ∇ψ(x̂): never before the last callback): the model has [] there *)
  (match fx_yh a with [] => true | _ => vfeq (fx_yh a) (fx_yh b) end) &&
  feq (fx_phi a) (fx_phi b) &&
  feq (fx_psi a) (fx_psi b) && vfeq (fx_grad a) (fx_grad b) && feq (fx_psih a) (fx_psih b) && vfeq (fx_gradh a) (fx_gradh b) &&
  feq (fx_L a) (fx_L b) && feq (fx_gamma a) (fx_gamma b) && feq (fx_eps a) (fx_eps b) && feq (fx_t a) (fx_t b).

Definition ffst_of (o : foutputs (T:=float)) : list float :=
  let f := fo_final o in [jgam f; jpsih f; jh f].

Definition case_need (cs : fcase) : bool :=
  match cs with
  | FCase n Q c w A d Clb Cub Dlb Dub l1 x0 y0 S0 prm se sc nf time0 fuel btfuel _ _ _ _ _ _ _ _ _ _ _ => crit_needs_gradh (fp_crit prm)
  end.
Definition fcase_m (cs : fcase) : nat :=
  match cs with
  | FCase n Q c w A d Clb Cub Dlb Dub l1 x0 y0 S0 prm se sc nf time0 fuel btfuel _ _ _ _ _ _ _ _ _ _ _ => length y0
  end.

Definition chkfista (cs : fcase) : bool :=
  match cs with
  | FCase n Q c w A d Clb Cub Dlb Dub l1 x0 y0 S0 prm se sc nf time0 fuel btfuel
          status iterations eps x_out y_out errz bt fst_ evals cbs recs =>
      match frun_case cs with
      | FDone o =>
          status_eqb (fo_status o) status && Nat.eqb (fo_iterations o) iterations && feq (fo_eps o) eps &&
          vfeq (fo_x o) x_out && vfeq (fo_y o) y_out && vfeq (fo_errz o) errz &&
          Nat.eqb (fo_bt o) bt && vfeq (ffst_of o) fst_ &&
          Nat.eqb (fevals_of (length y0) (fo_cnt o)) evals && Nat.eqb (fc_cb (fo_cnt o)) cbs &&
          list_agree frec_agree (map (frec_of (case_need cs)) (fo_log o)) recs
      | FNotFiniteL _ =>
          (* Stats{} with status NotFinite; nothing written, no callback *)
          status_eqb StNotFinite status && Nat.eqb 0 iterations && feq infinity eps &&
          vfexact x0 x_out && vfexact y0 y_out && vfexact (repeat nan (length y0)) errz &&
          Nat.eqb 0 bt && vfeq [0; 0; 0] fst_ && Nat.eqb 0 cbs && match recs with [] => true | _ => false end
      | FOutOfFuel => false
      end
  end.

(* printable summary of the model run (dump of the first disagreeing case) *)
Definition modelfista (cs : fcase) :=
  match frun_case cs with
  | FDone o => (Some (fo_status o, fo_iterations o, fo_eps o, (fo_x o, fo_y o, fo_errz o), (fo_bt o, ffst_of o)),
                (fevals_of (fcase_m cs) (fo_cnt o), fc_cb (fo_cnt o), fc_polls (fo_cnt o)),
                map (frec_of (case_need cs)) (fo_log o))
  | FNotFiniteL L => (None, (0, 0, 0)%nat, [mkFX 0 StNotFinite [] [] L [] [] 0 0 [] 0 [] L 0 0 0])
  | FOutOfFuel => (None, (1, 1, 1)%nat, [])
  end.
