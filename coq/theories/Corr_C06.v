(* Corr_C06.v — the stop-decision kernels at binary64 against the C++ (direct calls). *)
From Coq Require Import Floats List ZArith Bool.
From Alpaqa Require Import Num NumF Vec Prox SolverStatus SolverKernels StopChain.
Import ListNotations.

Inductive c06case :=
| CChain (opts_tol eps : float) (te : bool) (it mi np mnp : nat) (sr : bool) (st : status)
| CCrit (c : stopcrit) (lb ub l1 p : list float) (γ : float) (x xh yh grad gradh : list float) (eps : float)
(* whole run: per-iteration "iterate unchanged" flags observed on the implementation, max_no_progress, and whether it exited
   with NoProgress at the check of iteration (length sames) *)
| CNp (mnp : nat) (sames : list bool) (exit_noprogress : bool).

(* counter value at the stop check of each iteration 0..length sames (counter before iteration 0 is 0) *)
Fixpoint np_trace (mnp k np : nat) (sames : list bool) : list nat :=
  np :: match sames with
        | [] => []
        | s :: rest => match no_progress_update np k mnp s with
                       | Some np' => np_trace mnp (S k) np' rest
                       | None => []
                       end
        end.
Definition np_consistent (mnp : nat) (sames : list bool) (exit_np : bool) : bool :=
  let tr := np_trace mnp 0 0 sames in
  (* no check before the last one may exceed the limit (the solver would have exited), the last one exceeds iff exit_np *)
  Nat.eqb (length tr) (S (length sames)) &&
  forallb (fun c => negb (Nat.ltb mnp c)) (removelast tr) &&
  Bool.eqb (Nat.ltb mnp (last tr 0%nat)) exit_np.

Definition model06 (c : c06case) : status * float :=
  match c with
  | CChain tol eps te it mi np mnp sr _ => (stop_status_helpers tol eps te it mi np mnp sr, 0%float)
  | CCrit cr lb ub l1 p γ x xh yh g gh _ =>
      (StBusy, crit_eps cr (map lb_of_float lb) (map ub_of_float ub) l1 p γ x xh yh g gh)
  | CNp _ _ _ => (StBusy, 0%float)
  end.
Definition chk06 (c : c06case) : bool :=
  let '(st, e) := model06 c in
  match c with
  | CChain _ _ _ _ _ _ _ _ st' => status_eqb st st'
  | CCrit _ _ _ _ _ _ _ _ _ _ _ e' => feq e e'
  | CNp mnp sames ex => np_consistent mnp sames ex
  end.
