(* Corr_C17.v — correspondence cases for C17: the model of Csv.v (stream + 64-byte reader) is run on the same byte
   streams and the same sequence of read_row / read_row_std_vector calls as the C++ implementation (drv_C17 `rows`),
   and must reproduce, call by call: values or exception kind, number of bytes left in the stream, eofbit, failbit.
   kind 0: CSVReader<Eigen::Index> (from_chars<long> modelled exactly by parse_int64);
   kind 1: CSVReader<double> on rows whose alphabet is restricted to digits/sign/junk, values as (unbounded) integers. *)
From Coq Require Import List Ascii String ZArith Bool Arith.
From Alpaqa Require Import Csv.
Import ListNotations.

Definition errcode (e : err) : nat :=
  match e with EInvalidStream => 0 | EExtraction => 1 | EConversion => 2 | EUnexpected => 3 | ENotConsumed => 4 | EFuel => 5 | ETooLong => 6 end.

Definition obs : Type := (nat + list Z) * nat * bool * bool.     (* result, bytes left, eofbit, failbit *)

Inductive c17case :=
| C17 (kind : nat) (sep : ascii) (data : string) (resync_after_error : bool) (calls : list (option nat)) (impl : list obs).

Definition parser_of (kind : nat) := match kind with 0 => parse_int64 | _ => parse_bigint end.

Fixpoint run_calls (parse : list ascii -> option (Z * nat)) (sep : ascii) (rs : bool)
                   (calls : list (option nat)) (s : stream) : list obs :=
  match calls with
  | [] => []
  | c :: cs =>
      let (s1, r) := match c with
                     | Some n => read_row_impl parse sep n s
                     | None => read_row_std_vector parse sep s
                     end in
      let o : obs := (match r with inl e => inl (errcode e) | inr vs => inr vs end,
                      List.length (rest s1), eofb s1, failb s1) in
      let s2 := match r with inl _ => if rs then resync s1 else s1 | inr _ => s1 end in
      o :: run_calls parse sep rs cs s2
  end.

Definition model17 (c : c17case) : list obs :=
  match c with
  | C17 kind sep data rs calls _ =>
      run_calls (parser_of kind) sep rs calls (mkS (list_ascii_of_string data) false false)
  end.

Fixpoint zlist_eqb (a b : list Z) : bool :=
  match a, b with
  | [], [] => true
  | x :: a', y :: b' => Z.eqb x y && zlist_eqb a' b'
  | _, _ => false
  end.
Definition obs_eqb (a b : obs) : bool :=
  let '(ra, na, ea, fa) := a in
  let '(rb, nb, eb, fb) := b in
  match ra, rb with
  | inl x, inl y => Nat.eqb x y
  | inr x, inr y => zlist_eqb x y
  | _, _ => false
  end && Nat.eqb na nb && Bool.eqb ea eb && Bool.eqb fa fb.
Fixpoint obslist_eqb (a b : list obs) : bool :=
  match a, b with
  | [], [] => true
  | x :: a', y :: b' => obs_eqb x y && obslist_eqb a' b'
  | _, _ => false
  end.

Definition chk17 (c : c17case) : bool :=
  match c with C17 _ _ _ _ _ impl => obslist_eqb (model17 c) impl end.
