(* FistaLoopRate.v — C08's rate theorem on the WHOLE-RUN model FistaLoop.fista (= FISTASolver::operator(), tied to the code by the
   whole-run correspondence Corr_FISTA): every progress-callback record of every run obeys the Beck–Teboulle bound.
   ROUTE: the potential argument is redone directly on the records of FistaLoop (the invariants `rec_ok` / `chain` that
   FistaLoopProofs.fista_records establishes for every run), reusing FistaProofs' problem-level lemmas (prox_eval_spec,
   key_inequality, pot_step, three_point) unchanged; the loop skeleton of Fista.v (init / step / run) is NOT used.
   Nothing is assumed about the stop criterion, max_iter, the tolerance, the stop flag or the clock; m is arbitrary
   (y_in, Σ, err_z arbitrary lists: ψ is whatever the coherent oracles evaluate — the augmented Lagrangian for fixed y, Σ). *)
From Coq Require Import Reals List ZArith Lra Lia Bool Arith Psatz.
From Flocq Require Import Raux.
From Alpaqa Require Import Num NumR Vec Prox ProxProofs ProxVec SolverStatus SolverKernels SolverKernelsProofs DescentProofs
                           StopChain StopChainProofs FistaGen Fista FistaK FistaProofs FistaGenProofs FistaLoop FistaLoopProofs.
Import ListNotations.
Local Open Scope R_scope.

(* the problem oracles evaluate ONE function ψ and its gradient, whatever the event counters are (ŷ and eval_grad_L stay arbitrary:
   they only enter the stop criterion) *)
Definition coherent (n : nat) (f : list R -> R) (gradf : list R -> list R)
    (psi_grad : fcounters -> list R -> R * list R) (psi_yhat : fcounters -> list R -> R * list R)
    (grad_psi : fcounters -> list R -> list R) : Prop :=
  (forall c x, length x = n -> psi_grad c x = (f x, gradf x)) /\
  (forall c x, length x = n -> fst (psi_yhat c x) = f x) /\
  (forall c x, length x = n -> grad_psi c x = gradf x).

(* FISTAParams: the hypotheses of FistaProofs.params_ok on the fields of FistaLoop.fparams; L_0 is unconstrained
   (L_0 <= 0 selects the finite-difference estimate, L_0 > 0 is taken as is), as are ε, δ of that estimate *)
Definition fparams_ok (P : fparams (T:=R)) (Lf : R) : Prop :=
  fp_qub_tol P = 0 /\ 0 < fp_Lgamma P <= 1 /\ fp_Lgamma P * Lf <= fp_Lmax P /\ 0 < fp_Lmin P <= fp_Lmax P.

Section RateLoop.
  Variable psi_grad : fcounters -> list R -> R * list R.
  Variable psi_yhat : fcounters -> list R -> R * list R.
  Variable grad_L : fcounters -> list R -> list R -> list R.
  Variable grad_psi : fcounters -> list R -> list R.
  Variables (lb ub : list (option R)) (l1 : list R).
  Variable stop_req : fcounters -> bool.
  Variable time_up : fcounters -> bool.
  Variable P : fparams (T:=R).
  Variables (x_in y_in Σ errz_in : list R).
  Variable bt_fuel : nat.
  Variables (n : nat) (f : list R -> R) (gradf : list R -> list R) (Lf : R) (xs : list R).
  Hypothesis Hok : prob_ok n lb ub l1.
  Hypothesis Hf : smooth_convex n f gradf Lf.
  Hypothesis Hco : coherent n f gradf psi_grad psi_yhat grad_psi.
  Hypothesis HP : fparams_ok P Lf.
  Hypothesis Hxs : minimiser n f lb ub l1 xs.
  Hypothesis Hx0 : length x_in = n.
  Set Default Proof Using "All".

  Notation it := (fiter (T:=R)).
  Notation fixed := (ffixed P).
  Notation run := (fista psi_grad psi_yhat grad_L grad_psi lb ub l1 stop_req time_up P x_in y_in Σ errz_in bt_fuel).
  Notation Reachable := (reachable psi_grad psi_yhat grad_L grad_psi lb ub l1 stop_req time_up P x_in y_in Σ errz_in bt_fuel).
  Notation Rec_ok := (rec_ok psi_grad psi_yhat grad_L grad_psi lb ub l1 P x_in).
  Notation Chain := (chain psi_grad grad_psi P x_in).
  Notation Glrel0 := (glrel0 psi_grad grad_psi P x_in).
  Notation Linit := (L_init psi_grad grad_psi P x_in).
  Notation Xh_init := (xh_init psi_grad grad_psi P x_in).
  Notation Prev_xh := (prev_xh psi_grad grad_psi P x_in).
  Notation FF := (F n f l1).

  (* ------------------------------------------------------------------ initialisation: L > 0, the x̂ buffer is an n-vector *)
  Lemma L_init_pos : 0 < Linit.
  Proof.
    destruct HP as (_ & _ & _ & HLm). unfold L_init, finit_L.
    destruct fixed; [cbn; lra|].
    destruct (nleb (fp_L0 P) n0) eqn:E0; cbv zeta; cbn [fst fset_gamma_L jL].
    - match goal with |- context [fstd_clamp ?v _ _] => generalize v end. intros v.
      unfold fstd_clamp. numR. rbool; lra.
    - revert E0. numR. rbool; intros; [discriminate|lra].
  Qed.

  Lemma xh_init_len : length Xh_init = n.
  Proof.
    destruct Hf as (Hgl & _). destruct Hco as (Hpg & _ & _).
    unfold xh_init, finit_L. destruct fixed; [exact Hx0|].
    destruct (nleb (fp_L0 P) n0); cbv zeta; cbn [fst fset_gamma_L fset_xh feval_psi_grad jxh fit0]; [|exact Hx0].
    unfold feval_psi_grad. cbn [jgrad jx fit0]. rewrite (Hpg fcnt0 x_in Hx0). cbn [snd].
    unfold vsub. apply map2_length; [exact Hx0|]. unfold flipschitz_h. rewrite map_length. apply Hgl, Hx0.
  Qed.

  (* ------------------------------------------------------------------ one record: the Beck–Teboulle key inequality at its x, γ, x̂ *)
  Lemma rec_key (r : fcbrec (T:=R)) : Rec_ok r -> length (jx (fr_it r)) = n ->
    let i := fr_it r in
    0 < jgam i /\ length (jxh i) = n /\ feas n lb ub (jxh i) /\
    forall x, length x = n -> feas n lb ub x ->
      dist2 n (jxh i) (jx i) + 2 * Ssum n (fun j => ((jx i)@j - x@j) * ((jxh i)@j - (jx i)@j))
        <= 2 * jgam i * (FF x - FF (jxh i)).
  Proof.
    intros (Hck & Hq & Hgl & _ & Hfx & _) Ly i. fold i in Hck, Hq, Hgl, Hfx, Ly.
    destruct HP as (Htol & HLg & HLmax & HLm). destruct Hco as (Hpg & Hpy & Hgp).
    pose proof L_init_pos as HL0.
    assert (Hγ : 0 < jgam i) by (apply (glrel0_pos psi_grad psi_yhat grad_L grad_psi lb ub l1 stop_req time_up P x_in y_in Σ errz_in bt_fuel); [lra|exact HL0|exact Hgl]).
    assert (Hprod : jgam i * jL i = fp_Lgamma P)
      by (apply (glrel0_product_factor psi_grad psi_yhat grad_L grad_psi lb ub l1 stop_req time_up P x_in y_in Σ errz_in bt_fuel); [lra|exact Hgl]).
    destruct Hck as (Hx & (Hst & Hpp & Hgpd) & Hh & _).
    (* ∇ψ at x is the coherent gradient in both modes; ψ(x) too outside fixed-step mode *)
    assert (Eg : jgrad i = gradf (jx i) /\ (fixed = false -> jpsi i = f (jx i))).
    { unfold cons_x in Hx. destruct fixed.
      - destruct Hx as [c Hx]. rewrite (Hgp c _ Ly) in Hx. split; [exact Hx|discriminate].
      - destruct Hx as [c Hx]. rewrite (Hpg c _ Ly) in Hx. inversion Hx. split; reflexivity. }
    destruct Eg as [Eg Eps]. rewrite Eg in Hst, Hgpd.
    destruct Hf as (Hglen & Hcvx & HLf & Hdesc).
    pose proof (prox_eval_spec n f gradf lb ub l1 Hok Hglen (jgam i) (jx i) Hγ Ly) as S. cbv zeta in S.
    pose proof (key_inequality_b n f gradf lb ub l1 Lf Hok Hf (jgam i) (jx i)) as K.
    unfold prox_eval in S, K. rewrite Hst in S, K. cbn [o_xh o_p o_h o_pp o_gp o_psih] in S, K.
    destruct S as (Lxh & Lp & Hfe & _ & _ & Epp & Egp & _).
    split; [exact Hγ|]. split; [exact Lxh|]. split; [exact Hfe|].
    (* the quadratic upper bound with 1/γ holds at the accepted step *)
    assert (Hqub : f (jxh i) <= f (jx i) + vdot (jp i) (gradf (jx i)) + / (2 * jgam i) * vsqnorm (jp i)).
    { pose proof (Hdesc (jxh i) (jx i) Lxh Ly) as Hd. rewrite <- Egp in Hd. fold (dist2 n (jxh i) (jx i)) in Hd. rewrite <- Epp in Hd.
      assert (Hpp0 : 0 <= vsqnorm (jp i)) by (rewrite Epp; apply dist2_nonneg).
      assert (Hhalf : / (2 * jgam i) = / jgam i / 2) by (field; lra).
      assert (Hinv : jL i <= / jgam i)
        by (apply Rmult_le_reg_l with (jgam i); [exact Hγ|]; rewrite Rinv_r by lra; rewrite Hprod; apply HLg).
      set (gp := vdot (jp i) (gradf (jx i))) in *. set (pp := vsqnorm (jp i)) in *. set (γ := jgam i) in *.
      assert (HA : fp_Lmax P <= jL i -> f (jxh i) <= f (jx i) + gp + / (2 * γ) * pp).
      { intros HLi.
        assert (HLfγ : Lf <= / γ).
        { apply Rmult_le_reg_l with γ; [exact Hγ|]. rewrite Rinv_r by lra.
          assert (γ * fp_Lmax P <= γ * jL i) by (apply Rmult_le_compat_l; lra).
          assert (fp_Lgamma P * (γ * Lf) <= γ * fp_Lmax P).
          { replace (fp_Lgamma P * (γ * Lf)) with (γ * (fp_Lgamma P * Lf)) by ring. apply Rmult_le_compat_l; lra. }
          apply Rmult_le_reg_l with (fp_Lgamma P); lra. }
        rewrite Hhalf. clearbody gp pp γ. nra. }
      destruct fixed eqn:Efx.
      - apply HA. rewrite (Hfx eq_refl). lra.
      - destruct (qub_ok_explicit psi_grad psi_yhat grad_L grad_psi lb ub l1 stop_req time_up P x_in y_in Σ errz_in bt_fuel i Hq) as [HLi|Hqq];
          [apply HA; exact HLi|].
        assert (Hhat : jpsih i = f (jxh i)).
        { destruct Hh as [c Hc]; [unfold hat_in_loop; rewrite Efx; reflexivity|].
          pose proof (Hpy c _ Lxh) as E. rewrite <- Hc in E. exact E. }
        rewrite Hhat, (Eps eq_refl), Hgpd, Hpp, Htol in Hqq. fold gp pp in Hqq.
        rewrite Hhalf. clearbody gp pp γ. nra. }
    intros x Lx Hfeas. apply (K x Hγ Ly Lx Hfeas). exact Hqub.
  Qed.

  (* ------------------------------------------------------------------ accelerated runs: the potential along the records (newest first) *)
  (* Φ after the prox step of record r, b = x̂ of the record before:  2 γ_r t_r² (F(x̂_r) − Fmin) + ‖t_r x̂_r − (t_r − 1) b − xs‖² *)
  Definition PhiR (r : fcbrec (T:=R)) (b : list R) : R :=
    2 * jgam (fr_it r) * (fr_t r * fr_t r) * (FF (jxh (fr_it r)) - FF xs) + upot n (fr_t r) (jxh (fr_it r)) b xs.

  Definition head_ok (r : fcbrec (T:=R)) : Prop :=
    length (jxh (fr_it r)) = n /\ feas n lb ub (jxh (fr_it r)) /\ 0 < jgam (fr_it r) /\ 1 <= fr_t r /\
    0 <= FF (jxh (fr_it r)) - FF xs.

  Lemma rec_head (r : fcbrec (T:=R)) : Rec_ok r -> length (jx (fr_it r)) = n -> 1 <= fr_t r -> head_ok r.
  Proof.
    intros Hr Ly Ht. destruct (rec_key r Hr Ly) as (A & B & C & _). destruct Hxs as (_ & _ & Hmin).
    pose proof (Hmin _ B C). unfold head_ok. split; [exact B|]. split; [exact C|]. split; [exact A|]. split; [exact Ht|lra].
  Qed.

  Lemma upot_one a b c : upot n 1 a b c = dist2 n a c.
  Proof. unfold upot, dist2. apply Ssum_ext. intros; ring. Qed.

  Lemma chain_accel : fp_noaccel P = false -> forall log, Chain log -> Forall Rec_ok log ->
    match log with
    | r' :: tl => length (jx (fr_it r')) = n /\ head_ok r' /\ length (Prev_xh tl) = n /\ PhiR r' (Prev_xh tl) <= dist2 n x_in xs
    | [] => True
    end.
  Proof.
    intros Hacc. induction log as [|r' tl IH]; intros Hc Hall; [exact I|].
    cbn [chain] in Hc. destruct Hc as [Hh Hc]. pose proof (Forall_inv Hall) as Hr'. pose proof (Forall_inv_tail Hall) as Hall'.
    specialize (IH Hc Hall'). destruct Hxs as (Lxs & Fxs & Hmin).
    destruct tl as [|r tl2].
    - (* record 0: t = 1, x = x0 *)
      destruct Hh as (_ & T1 & X0).
      assert (Ly : length (jx (fr_it r')) = n) by (rewrite X0; exact Hx0).
      pose proof (rec_head r' Hr' Ly ltac:(rewrite T1; lra)) as Hhd.
      destruct (rec_key r' Hr' Ly) as (Hγ & Lxh & Hfe & K).
      split; [exact Ly|]. split; [exact Hhd|]. split; [apply xh_init_len|].
      pose proof (K xs Lxs Fxs) as Kb. rewrite three_point in Kb.
      unfold PhiR. rewrite T1, upot_one, X0 in *. lra.
    - destruct Hh as [(_ & _ & Hhalv & T' & _) Hext]. specialize (Hext Hacc).
      destruct IH as (Lyr & (Lxr & Fer & Hγr & Htr & Hvr) & Lb & HPhi).
      cbn [prev_xh] in *. unfold PhiR in *.
      assert (Ly : length (jx (fr_it r')) = n) by (rewrite Hext; apply map2_length; assumption).
      pose proof (t_next_ge psi_grad psi_yhat grad_L grad_psi lb ub l1 stop_req time_up P x_in y_in Σ errz_in bt_fuel _ Htr) as Hg.
      pose proof (t_next_recurrence psi_grad psi_yhat grad_L grad_psi lb ub l1 stop_req time_up P x_in y_in Σ errz_in bt_fuel _ Htr) as Hrec.
      rewrite <- T' in Hg, Hrec.
      assert (Ht' : 1 <= fr_t r') by lra.
      pose proof (rec_head r' Hr' Ly Ht') as Hhd.
      destruct (rec_key r' Hr' Ly) as (Hγ & Lo & Hfe & K).
      set (b := Prev_xh tl2) in *.
      set (t := fr_t r) in *. set (t' := fr_t r') in *. set (y := jx (fr_it r')) in *.
      set (xh := jxh (fr_it r)) in *. set (o := jxh (fr_it r')) in *.
      split; [exact Ly|]. split; [exact Hhd|]. split; [exact Lxr|].
      destruct Hhd as (_ & _ & _ & _ & Hv').
      pose proof (halved_nonincreasing psi_grad psi_yhat grad_L grad_psi lb ub l1 stop_req time_up P x_in y_in Σ errz_in bt_fuel _ _ Hhalv Hγr) as [_ Hγle].
      pose proof (pot_step n f l1 t' (jgam (fr_it r')) o y xh xs Ht' Hγ (fun _ => K xh Lxr Fer) (K xs Lxs Fxs)) as Hpot.
      (* extrapolation identity:  t' y − (t' − 1) x̂ = t x̂ − (t − 1) b *)
      assert (Hup : upot n t' y xh xs = upot n t xh b xs).
      { unfold upot. apply Ssum_ext. intros j Hj. rewrite Hext.
        rewrite (map2_nth _ xh b n j 0 0 0 Lxr Lb Hj). unfold extrap1. numR.
        set (a := xh@j). set (bb := b@j). set (c := xs@j). clearbody a bb c.
        assert (E : t' * (a + (t - 1) / t' * (a - bb)) - (t' - 1) * a - c = t * a - (t - 1) * bb - c) by (field; lra).
        rewrite E. reflexivity. }
      rewrite Hup, Hrec in Hpot.
      set (v := FF xh - FF xs) in *. set (v' := FF o - FF xs) in *.
      set (U' := upot n t' o xh xs) in *. set (U := upot n t xh b xs) in *.
      set (γ := jgam (fr_it r)) in *. set (γ' := jgam (fr_it r')) in *. set (D0 := dist2 n x_in xs) in *.
      assert (Hext' : 0 <= (γ - γ') * ((t * t) * v)) by (apply Rmult_le_pos; [lra|apply Rmult_le_pos; [nra|lra]]).
      assert (Hpot' : U' - U <= 2 * γ' * ((t * t) * v - t' * t' * v')).
      { replace (FF xh - FF xs) with v in Hpot by reflexivity.
        replace (FF o - FF xs) with v' in Hpot by reflexivity. exact Hpot. }
      clearbody v v' U U' γ γ' t t' D0. nra.
  Qed.

  Lemma div_bound' x y z : 0 < z -> x * z <= y -> x <= y / z.
  Proof.
    intros Hz H. apply Rmult_le_reg_r with z; [assumption|].
    unfold Rdiv. rewrite Rmult_assoc, Rinv_l by lra. lra.
  Qed.

  (* the bound of one record from the potential bound and t_k >= (k+2)/2 *)
  Definition rate_at (r : fcbrec (T:=R)) : Prop :=
    let γ := jgam (fr_it r) in let v := FF (jxh (fr_it r)) - FF xs in let k := INR (fr_k r) in
    0 < γ /\ 0 <= v /\ feas n lb ub (jxh (fr_it r)) /\
    v <= 2 * dist2 n x_in xs / (γ * ((k + 2) * (k + 2))) /\
    v <= 2 * dist2 n x_in xs / (γ * ((k + 1) * (k + 1))).

  Lemma suffix_chain : forall l, Chain l -> forall a b, l = a ++ b -> Chain b.
  Proof.
    intros l Hl a. revert l Hl. induction a as [|x a IH]; intros l Hl b E; [now subst|].
    subst l. cbn [app chain] in Hl. destruct Hl as [_ Hl]. apply (IH _ Hl b eq_refl).
  Qed.
  Lemma suffix_forall (Q : fcbrec (T:=R) -> Prop) l a b : Forall Q l -> l = a ++ b -> Forall Q b.
  Proof. intros H E. subst l. apply Forall_app in H. apply H. Qed.

  Lemma log_accel : fp_noaccel P = false -> forall log, Chain log -> Forall Rec_ok log -> Forall rate_at log.
  Proof.
    intros Hacc log Hc Hall. apply Forall_forall. intros r Hin. apply in_split in Hin. destruct Hin as (pre & post & E).
    pose proof (suffix_chain _ Hc _ _ E) as Hc'. pose proof (suffix_forall _ _ _ _ Hall E) as Hall'.
    pose proof (chain_accel Hacc _ Hc' Hall') as (_ & (_ & Hfe & Hγ & _ & Hv) & _ & HPhi).
    destruct (chain_momentum psi_grad psi_yhat grad_L grad_psi lb ub l1 stop_req time_up P x_in y_in Σ errz_in bt_fuel _ Hc') as [[Ht _] _].
    unfold rate_at, PhiR in *. cbv zeta.
    pose proof (upot_nonneg n (fr_t r) (jxh (fr_it r)) (Prev_xh post) xs) as HU.
    pose proof (pos_INR (fr_k r)) as Hk.
    set (v := FF (jxh (fr_it r)) - FF xs) in *. set (γ := jgam (fr_it r)) in *. set (t := fr_t r) in *.
    set (k := INR (fr_k r)) in *. set (R2 := dist2 n x_in xs) in *. set (U := upot n t _ _ xs) in *.
    clearbody v γ t k R2 U.
    assert (Ht2 : (k + 2) * (k + 2) <= 4 * (t * t)) by nra.
    assert (Hgv : 0 <= γ * v) by (apply Rmult_le_pos; lra).
    assert (Hmain : v * (γ * ((k + 2) * (k + 2))) <= 2 * R2).
    { assert (γ * v * ((k + 2) * (k + 2)) <= γ * v * (4 * (t * t))) by (apply Rmult_le_compat_l; assumption). nra. }
    split; [exact Hγ|]. split; [exact Hv|]. split; [exact Hfe|]. split.
    - apply div_bound'; [apply Rmult_lt_0_compat; nra|exact Hmain].
    - apply div_bound'; [apply Rmult_lt_0_compat; nra|].
      assert (γ * v * ((k + 1) * (k + 1)) <= γ * v * ((k + 2) * (k + 2))) by (apply Rmult_le_compat_l; nra).
      nra.
  Qed.

  (* ------------------------------------------------------------------ acceleration disabled: monotone decrease and O(1/k) *)
  Definition PsiR (r : fcbrec (T:=R)) : R :=
    2 * jgam (fr_it r) * (INR (fr_k r) + 1) * (FF (jxh (fr_it r)) - FF xs) + dist2 n (jxh (fr_it r)) xs.

  Lemma chain_noaccel : fp_noaccel P = true -> forall log, Chain log -> Forall Rec_ok log ->
    match log with
    | r' :: tl => length (jx (fr_it r')) = n /\ head_ok r' /\ PsiR r' <= dist2 n x_in xs /\
                  match tl with r :: _ => jx (fr_it r') = jxh (fr_it r) /\ FF (jxh (fr_it r')) <= FF (jxh (fr_it r)) | [] => True end
    | [] => True
    end.
  Proof.
    intros Hna. induction log as [|r' tl IH]; intros Hc Hall; [exact I|].
    cbn [chain] in Hc. destruct Hc as [Hh Hc]. pose proof (Forall_inv Hall) as Hr'. pose proof (Forall_inv_tail Hall) as Hall'.
    specialize (IH Hc Hall'). destruct Hxs as (Lxs & Fxs & Hmin).
    pose proof (chain_momentum psi_grad psi_yhat grad_L grad_psi lb ub l1 stop_req time_up P x_in y_in Σ errz_in bt_fuel (r' :: tl)
                  ltac:(cbn [chain]; split; assumption)) as [_ Hts].
    assert (Ht' : 1 <= fr_t r') by (inversion Hts; assumption).
    destruct tl as [|r tl2].
    - destruct Hh as (K0 & _ & X0).
      assert (Ly : length (jx (fr_it r')) = n) by (rewrite X0; exact Hx0).
      pose proof (rec_head r' Hr' Ly Ht') as Hhd.
      destruct (rec_key r' Hr' Ly) as (Hγ & Lxh & Hfe & K).
      split; [exact Ly|]. split; [exact Hhd|]. split; [|exact I].
      pose proof (K xs Lxs Fxs) as Kb. rewrite three_point in Kb.
      unfold PsiR. rewrite K0, X0 in *. cbn [INR]. lra.
    - destruct Hh as [(_ & Kk & Hhalv & _ & Hx) _]. specialize (Hx Hna).
      destruct IH as (Lyr & (Lxr & Fer & Hγr & Htr & Hvr) & HPsi & _).
      assert (Ly : length (jx (fr_it r')) = n) by (rewrite Hx; exact Lxr).
      pose proof (rec_head r' Hr' Ly Ht') as Hhd.
      destruct (rec_key r' Hr' Ly) as (Hγ & Lo & Hfe & K).
      split; [exact Ly|]. split; [exact Hhd|].
      destruct Hhd as (_ & _ & _ & _ & Hv').
      pose proof (halved_nonincreasing psi_grad psi_yhat grad_L grad_psi lb ub l1 stop_req time_up P x_in y_in Σ errz_in bt_fuel _ _ Hhalv Hγr) as [_ Hγle].
      pose proof (K xs Lxs Fxs) as Kb. rewrite three_point in Kb.
      pose proof (K (jx (fr_it r')) Ly ltac:(rewrite Hx; exact Fer)) as Ka.
      rewrite (Ssum_ext n _ (fun _ => 0)) in Ka by (intros; ring). rewrite Ssum_zero in Ka.
      pose proof (dist2_nonneg n (jxh (fr_it r')) (jx (fr_it r'))) as Hd0.
      rewrite Hx in *.
      assert (Hmono : FF (jxh (fr_it r')) <= FF (jxh (fr_it r))) by nra.
      split; [|split; [reflexivity|exact Hmono]].
      unfold PsiR in *. rewrite Kk, S_INR.
      pose proof (pos_INR (fr_k r)) as Hk.
      set (v := FF (jxh (fr_it r)) - FF xs) in *. set (v' := FF (jxh (fr_it r')) - FF xs) in *.
      set (D' := dist2 n (jxh (fr_it r')) xs) in *. set (D := dist2 n (jxh (fr_it r)) xs) in *.
      set (γ := jgam (fr_it r)) in *. set (γ' := jgam (fr_it r')) in *. set (k := INR (fr_k r)) in *.
      set (D0 := dist2 n x_in xs) in *.
      assert (Hvv : v' <= v) by (unfold v, v'; lra).
      assert (H1 : 2 * γ' * (k + 1) * v' <= 2 * γ * (k + 1) * v).
      { apply Rle_trans with (2 * γ' * (k + 1) * v).
        - apply Rmult_le_compat_l; [|lra]. apply Rmult_le_pos; lra.
        - apply Rmult_le_compat_r; [lra|]. apply Rmult_le_compat_r; lra. }
      assert (Hb' : D' - D <= - (2 * γ' * v')) by (unfold v'; lra).
      clearbody v v' D D' γ γ' k D0. lra.
  Qed.

  Definition rate0_at (r : fcbrec (T:=R)) : Prop :=
    let γ := jgam (fr_it r) in let v := FF (jxh (fr_it r)) - FF xs in
    0 < γ /\ 0 <= v /\ feas n lb ub (jxh (fr_it r)) /\ v <= dist2 n x_in xs / (2 * γ * (INR (fr_k r) + 1)).

  Lemma log_noaccel : fp_noaccel P = true -> forall log, Chain log -> Forall Rec_ok log ->
    Forall rate0_at log /\
    forall pre r' r post, log = pre ++ r' :: r :: post ->
      jx (fr_it r') = jxh (fr_it r) /\ FF (jxh (fr_it r')) <= FF (jxh (fr_it r)).
  Proof.
    intros Hna log Hc Hall. split.
    - apply Forall_forall. intros r Hin. apply in_split in Hin. destruct Hin as (pre & post & E).
      pose proof (suffix_chain _ Hc _ _ E) as Hc'. pose proof (suffix_forall _ _ _ _ Hall E) as Hall'.
      pose proof (chain_noaccel Hna _ Hc' Hall') as (_ & (_ & Hfe & Hγ & _ & Hv) & HPsi & _).
      unfold rate0_at, PsiR in *. cbv zeta.
      pose proof (dist2_nonneg n (jxh (fr_it r)) xs). pose proof (pos_INR (fr_k r)).
      split; [exact Hγ|]. split; [exact Hv|]. split; [exact Hfe|].
      apply div_bound'; [apply Rmult_lt_0_compat; lra|].
      set (v := FF (jxh (fr_it r)) - FF xs) in *. set (γ := jgam (fr_it r)) in *. lra.
    - intros pre r' r post E.
      pose proof (suffix_chain _ Hc _ _ E) as Hc'. pose proof (suffix_forall _ _ _ _ Hall E) as Hall'.
      pose proof (chain_noaccel Hna _ Hc' Hall') as (_ & _ & _ & Hm). exact Hm.
  Qed.

  (* ------------------------------------------------------------------ whole runs *)
  Lemma forall_rev (Q : fcbrec (T:=R) -> Prop) l : Forall Q (rev l) -> Forall Q l.
  Proof. intros H. rewrite <- (rev_involutive l). apply Forall_rev. exact H. Qed.

  (* THE RATE on FistaLoop: every progress-callback record of every completed run *)
  Theorem fistaloop_rate fuel o : run fuel = FDone o -> fp_noaccel P = false -> Forall rate_at (fo_log o).
  Proof.
    intros Hr Hacc.
    destruct (fista_records psi_grad psi_yhat grad_L grad_psi lb ub l1 stop_req time_up P x_in y_in Σ errz_in bt_fuel fuel o Hr) as (Hall & Hc & _).
    apply forall_rev. apply (log_accel Hacc); [exact Hc|apply Forall_rev; exact Hall].
  Qed.

  (* ... and of every run that is still going (or ran out of fuel): the records written so far at any loop head *)
  Theorem fistaloop_rate_reachable s : Reachable s -> fp_noaccel P = false -> Forall rate_at (fs_log s).
  Proof.
    intros Hr Hacc.
    pose proof (reachable_inv psi_grad psi_yhat grad_L grad_psi lb ub l1 stop_req time_up P x_in y_in Σ errz_in bt_fuel s Hr) as HI.
    destruct HI as [_ _ _ _ Hlog Hch _ _ _]. apply (log_accel Hacc); assumption.
  Qed.

  Theorem fistaloop_noaccel fuel o : run fuel = FDone o -> fp_noaccel P = true ->
    Forall rate0_at (fo_log o) /\
    forall pre r r' post, fo_log o = pre ++ r :: r' :: post ->
      jx (fr_it r') = jxh (fr_it r) /\ FF (jxh (fr_it r')) <= FF (jxh (fr_it r)).
  Proof.
    intros Hr Hna.
    destruct (fista_records psi_grad psi_yhat grad_L grad_psi lb ub l1 stop_req time_up P x_in y_in Σ errz_in bt_fuel fuel o Hr) as (Hall & Hc & _).
    destruct (log_noaccel Hna _ Hc (Forall_rev Hall)) as [H1 H2]. split; [apply forall_rev; exact H1|].
    intros pre r r' post E. apply (H2 (rev post) r' r (rev pre)).
    rewrite E, rev_app_distr. cbn [rev]. rewrite <- !app_assoc. reflexivity.
  Qed.


  (* ------------------------------------------------------------------ what the progress callback SHOWS is F(x̂_k):  hx̂ = h(x̂_k) always, and ψx̂ = ψ(x̂_k)
     whenever ψ(x̂) is evaluated inside the loop (always with backtracking; in fixed-step mode only if the criterion needs ∇ψ(x̂) —
     otherwise the callbacks see ψx̂ = NaN, FISTA_fixed_step_callbacks_without_multipliers) *)
  Lemma chain_len : forall log, Chain log -> Forall Rec_ok log ->
    match log with
    | r' :: tl => length (jx (fr_it r')) = n /\ length (jxh (fr_it r')) = n /\ length (Prev_xh tl) = n
    | [] => True
    end.
  Proof.
    induction log as [|r' tl IH]; intros Hc Hall; [exact I|].
    cbn [chain] in Hc. destruct Hc as [Hh Hc]. pose proof (Forall_inv Hall) as Hr'. pose proof (Forall_inv_tail Hall) as Hall'.
    specialize (IH Hc Hall').
    assert (Ly : length (jx (fr_it r')) = n /\ length (Prev_xh tl) = n).
    { destruct tl as [|r tl2].
      - destruct Hh as (_ & _ & X0). rewrite X0. split; [exact Hx0|apply xh_init_len].
      - destruct Hh as [(_ & _ & _ & _ & Hna) Hacc]. destruct IH as (_ & Lxr & Lb). cbn [prev_xh]. split; [|exact Lxr].
        destruct (fp_noaccel P); [rewrite (Hna eq_refl); exact Lxr|rewrite (Hacc eq_refl); apply map2_length; assumption]. }
    destruct Ly as [Ly Lb]. destruct (rec_key r' Hr' Ly) as (_ & Lxh & _). auto.
  Qed.

  Definition reported_at (r : fcbrec (T:=R)) : Prop :=
    jh (fr_it r) = hval n l1 (jxh (fr_it r)) /\
    (fixed = false \/ fneed P = true -> jpsih (fr_it r) = f (jxh (fr_it r)) /\ jpsih (fr_it r) + jh (fr_it r) = FF (jxh (fr_it r))).

  Theorem fistaloop_reported fuel o : run fuel = FDone o -> Forall reported_at (fo_log o).
  Proof.
    intros Hr.
    destruct (fista_records psi_grad psi_yhat grad_L grad_psi lb ub l1 stop_req time_up P x_in y_in Σ errz_in bt_fuel fuel o Hr) as (Hall & Hc & _).
    apply forall_rev. apply Forall_rev in Hall. apply Forall_forall. intros r Hin. apply in_split in Hin. destruct Hin as (pre & post & E).
    pose proof (suffix_chain _ Hc _ _ E) as Hc'. pose proof (suffix_forall _ _ _ _ Hall E) as Hall'.
    destruct (chain_len _ Hc' Hall') as (Ly & Lxh & _). pose proof (Forall_inv Hall') as Hrr.
    destruct Hrr as (Hck & _ & Hgl & _).
    destruct (checked_explicit psi_grad psi_yhat grad_L grad_psi lb ub l1 stop_req time_up P x_in y_in Σ errz_in bt_fuel _ Hck)
      as (_ & Hst & _ & _ & Hgf & Hgn & Hhat & _).
    destruct HP as (_ & HLg & _ & _). destruct Hco as (Hpg & Hpy & Hgp). destruct Hf as (Hglen & _).
    assert (Hγ : 0 < jgam (fr_it r)) by (apply (glrel0_pos psi_grad psi_yhat grad_L grad_psi lb ub l1 stop_req time_up P x_in y_in Σ errz_in bt_fuel); [lra|apply L_init_pos|exact Hgl]).
    assert (Eg : jgrad (fr_it r) = gradf (jx (fr_it r))).
    { destruct fixed.
      - destruct (Hgf eq_refl) as [c Hx]. rewrite (Hgp c _ Ly) in Hx. exact Hx.
      - destruct (Hgn eq_refl) as [c Hx]. rewrite (Hpg c _ Ly) in Hx. inversion Hx. reflexivity. }
    rewrite Eg in Hst.
    pose proof (prox_eval_spec n f gradf lb ub l1 Hok Hglen (jgam (fr_it r)) (jx (fr_it r)) Hγ Ly) as S. cbv zeta in S.
    unfold prox_eval in S. rewrite Hst in S. cbn [o_xh o_p o_h o_pp o_gp o_psih] in S. destruct S as (_ & _ & _ & _ & Eh & _).
    unfold reported_at. split; [exact Eh|]. intros Hm. destruct (Hhat Hm) as [c Hc2].
    pose proof (Hpy c _ Lxh) as E2. rewrite <- Hc2 in E2. cbn [fst] in E2. split; [exact E2|]. unfold F. rewrite E2, Eh. reflexivity.
  Qed.

  (* ------------------------------------------------------------------ fixed-step mode: γ_k = Lγ_factor / L_max at every record *)
  Definition rate_fixed_at (r : fcbrec (T:=R)) : Prop :=
    let v := FF (jxh (fr_it r)) - FF xs in let k := INR (fr_k r) in
    jgam (fr_it r) = fp_Lgamma P / fp_Lmax P /\ 0 <= v /\
    v <= 2 * fp_Lmax P * dist2 n x_in xs / (fp_Lgamma P * ((k + 2) * (k + 2))) /\
    v <= 2 * fp_Lmax P * dist2 n x_in xs / (fp_Lgamma P * ((k + 1) * (k + 1))).

  Theorem fistaloop_rate_fixed_step fuel o : run fuel = FDone o -> fp_noaccel P = false -> fixed = true ->
    Forall rate_fixed_at (fo_log o).
  Proof.
    intros Hr Hacc Hfx. pose proof (fistaloop_rate fuel o Hr Hacc) as Hrate.
    destruct (fista_records psi_grad psi_yhat grad_L grad_psi lb ub l1 stop_req time_up P x_in y_in Σ errz_in bt_fuel fuel o Hr) as (Hall & _ & _).
    destruct HP as (_ & HLg & _ & HLm).
    rewrite Forall_forall in *. intros r Hin. specialize (Hrate r Hin). specialize (Hall r Hin).
    destruct (rec_ok_fixed psi_grad psi_yhat grad_L grad_psi lb ub l1 stop_req time_up P x_in y_in Σ errz_in bt_fuel r Hall Hfx ltac:(lra)) as [_ Eγ].
    unfold rate_at, rate_fixed_at in *. cbv zeta in *. destruct Hrate as (Hγ & Hv & _ & B2 & B1). rewrite Eγ in B2, B1.
    pose proof (pos_INR (fr_k r)) as Hk.
    split; [exact Eγ|]. split; [exact Hv|]. split.
    - replace (2 * fp_Lmax P * dist2 n x_in xs / (fp_Lgamma P * ((INR (fr_k r) + 2) * (INR (fr_k r) + 2))))
        with (2 * dist2 n x_in xs / (fp_Lgamma P / fp_Lmax P * ((INR (fr_k r) + 2) * (INR (fr_k r) + 2)))) by (field; split; [nra|split; lra]).
      exact B2.
    - replace (2 * fp_Lmax P * dist2 n x_in xs / (fp_Lgamma P * ((INR (fr_k r) + 1) * (INR (fr_k r) + 1))))
        with (2 * dist2 n x_in xs / (fp_Lgamma P / fp_Lmax P * ((INR (fr_k r) + 1) * (INR (fr_k r) + 1)))) by (field; split; [nra|split; lra]).
      exact B1.
  Qed.

  (* ------------------------------------------------------------------ iteration count (liveness flavour):
     with γmin a lower bound of the step size of a record, every record with k + 1 >= N >= sqrt(2‖x0−x*‖²/(γmin η)) has gap <= η;
     i.e. the number of iterations until F(x̂_k) − Fmin <= η is at most ⌈sqrt(2‖x0−x*‖²/(γmin η))⌉.  (γ is non-increasing along a run
     — FISTA_gamma_nonincreasing —, so γmin may be taken as the γ of the last record looked at.) *)
  Lemma gap_from_count (γ γmin η v D0 k : R) (N : nat) : 0 < γmin -> 0 < η -> 0 <= D0 -> γmin <= γ -> 0 <= v -> 0 <= k ->
    v <= 2 * D0 / (γ * ((k + 1) * (k + 1))) -> sqrt (2 * D0 / (γmin * η)) <= INR N -> INR N <= k + 1 -> v <= η.
  Proof.
    intros Hg He HD Hgg Hv Hk Hb Hs HN.
    assert (Hq0 : 0 <= 2 * D0 / (γmin * η)).
    { unfold Rdiv. apply Rmult_le_pos; [lra|]. apply Rlt_le, Rinv_0_lt_compat. nra. }
    pose proof (sqrt_sqrt _ Hq0) as Hss. pose proof (sqrt_pos (2 * D0 / (γmin * η))) as Hsp.
    set (s := sqrt (2 * D0 / (γmin * η))) in *. clearbody s.
    assert (Hs2 : s * s <= (k + 1) * (k + 1)) by nra.
    assert (HD2 : 2 * D0 <= γmin * η * ((k + 1) * (k + 1))).
    { assert (E : 2 * D0 = (2 * D0 / (γmin * η)) * (γmin * η)) by (field; split; lra).
      rewrite E, <- Hss. assert (0 < γmin * η) by nra.
      replace (γmin * η * ((k + 1) * (k + 1))) with ((k + 1) * (k + 1) * (γmin * η)) by ring.
      apply Rmult_le_compat_r; lra. }
    set (K := (k + 1) * (k + 1)) in *. assert (HK : 0 < K) by (unfold K; nra). clearbody K.
    assert (HgK : 0 < γ * K) by nra.
    assert (Hm : v * (γ * K) <= 2 * D0).
    { apply Rmult_le_reg_r with (/ (γ * K)); [apply Rinv_0_lt_compat; exact HgK|].
      rewrite Rmult_assoc, Rinv_r by lra. unfold Rdiv in Hb. lra. }
    assert (Hm2 : v * (γ * K) <= η * (γ * K)).
    { apply Rle_trans with (γmin * η * K); [lra|]. replace (η * (γ * K)) with (γ * (η * K)) by ring.
      replace (γmin * η * K) with (γmin * (η * K)) by ring. apply Rmult_le_compat_r; [nra|exact Hgg]. }
    apply Rmult_le_reg_r with (γ * K); assumption.
  Qed.

  Theorem fistaloop_iterations fuel o : run fuel = FDone o -> fp_noaccel P = false ->
    forall (γmin η : R) (N : nat), 0 < γmin -> 0 < η -> sqrt (2 * dist2 n x_in xs / (γmin * η)) <= INR N ->
    Forall (fun r => γmin <= jgam (fr_it r) -> (N <= fr_k r + 1)%nat -> FF (jxh (fr_it r)) - FF xs <= η) (fo_log o).
  Proof.
    intros Hr Hacc γmin η N Hg He Hs. pose proof (fistaloop_rate fuel o Hr Hacc) as Hrate.
    rewrite Forall_forall in *. intros r Hin Hgg HN. specialize (Hrate r Hin).
    unfold rate_at in Hrate. cbv zeta in Hrate. destruct Hrate as (Hγ & Hv & _ & _ & B1).
    apply (gap_from_count (jgam (fr_it r)) γmin η _ (dist2 n x_in xs) (INR (fr_k r)) N); try assumption.
    - apply dist2_nonneg.
    - apply pos_INR.
    - apply le_INR in HN. rewrite plus_INR in HN. cbn [INR] in HN. exact HN.
  Qed.

  Theorem fistaloop_iterations_fixed_step fuel o : run fuel = FDone o -> fp_noaccel P = false -> fixed = true ->
    forall (η : R) (N : nat), 0 < η -> sqrt (2 * fp_Lmax P * dist2 n x_in xs / (fp_Lgamma P * η)) <= INR N ->
    Forall (fun r => (N <= fr_k r + 1)%nat -> FF (jxh (fr_it r)) - FF xs <= η) (fo_log o).
  Proof.
    intros Hr Hacc Hfx η N He Hs.
    pose proof (fistaloop_rate_fixed_step fuel o Hr Hacc Hfx) as Hfix.
    destruct HP as (_ & HLg & _ & HLm).
    assert (Hg : 0 < fp_Lgamma P / fp_Lmax P) by (apply Rdiv_lt_0_compat; lra).
    assert (E : 2 * dist2 n x_in xs / (fp_Lgamma P / fp_Lmax P * η) = 2 * fp_Lmax P * dist2 n x_in xs / (fp_Lgamma P * η))
      by (field; split; [lra|split; lra]).
    pose proof (fistaloop_iterations fuel o Hr Hacc (fp_Lgamma P / fp_Lmax P) η N Hg He ltac:(rewrite E; exact Hs)) as Hit.
    rewrite Forall_forall in *. intros r Hin HN. apply (Hit r Hin); [|exact HN].
    destruct (Hfix r Hin) as (Eγ & _). rewrite Eγ. lra.
  Qed.
  (* ------------------------------------------------------------------ an a-priori lower bound of the step size (backtracking):
     the loop doubles L only when the quadratic upper bound is violated, which (descent lemma) forces L < Lf; hence
     L_k <= max(L_init, 2 Lf) and γ_k >= Lγ_factor / max(L_init, 2 Lf) at every record of every run *)
  Notation Cons_x := (cons_x psi_grad grad_psi P).
  Notation Cons_step := (cons_step lb ub l1).
  Notation Cons_hat := (cons_hat psi_yhat).
  Notation Inv_ := (Inv psi_grad psi_yhat grad_L grad_psi lb ub l1 P x_in).
  Notation step_ := (fpass_step psi_yhat grad_L lb ub l1 P bt_fuel).
  Notation pass_ := (fpass psi_grad psi_yhat grad_L grad_psi lb ub l1 stop_req time_up P x_in y_in Σ errz_in bt_fuel).
  Notation loop_ := (floop psi_grad psi_yhat grad_L grad_psi lb ub l1 stop_req time_up P x_in y_in Σ errz_in bt_fuel).
  Notation ARGS T := (T psi_grad psi_yhat grad_L grad_psi lb ub l1 stop_req time_up P x_in y_in Σ errz_in bt_fuel) (only parsing).
  Definition Lcap : R := Rmax Linit (2 * Lf).

  Lemma qub_violated_small (i : it) : fixed = false -> Cons_x i -> Cons_step i -> Cons_hat i -> length (jx i) = n -> 0 < jgam i ->
    fit_backtrack P i = true -> jL i < Lf.
  Proof.
    intros Efx Hx (Hst & Hpp & Hgpd) [c Hc] Ly Hγ Hbt.
    destruct HP as (Htol & _). destruct Hco as (Hpg & Hpy & _). destruct Hf as (Hglen & _ & _ & Hdesc).
    unfold cons_x in Hx. rewrite Efx in Hx. destruct Hx as [c0 Hx]. rewrite (Hpg c0 _ Ly) in Hx.
    assert (Eps : jpsi i = f (jx i)) by (inversion Hx; reflexivity).
    assert (Eg : jgrad i = gradf (jx i)) by (inversion Hx; reflexivity).
    rewrite Eg in Hst, Hgpd.
    pose proof (prox_eval_spec n f gradf lb ub l1 Hok Hglen (jgam i) (jx i) Hγ Ly) as S. cbv zeta in S.
    unfold prox_eval in S. rewrite Hst in S. cbn [o_xh o_p o_h o_pp o_gp o_psih] in S.
    destruct S as (Lxh & _ & _ & _ & _ & Epp & Egp & _).
    pose proof (Hpy c _ Lxh) as Eh. rewrite <- Hc in Eh. cbn [fst] in Eh.
    pose proof (Hdesc (jxh i) (jx i) Lxh Ly) as Hd. rewrite <- Egp in Hd. fold (dist2 n (jxh i) (jx i)) in Hd. rewrite <- Epp in Hd.
    assert (Hpp0 : 0 <= vsqnorm (jp i)) by (rewrite Epp; apply dist2_nonneg).
    unfold fit_backtrack, fit_qub_violated, bt_guard, FistaGen.qub_violated, qub_margin in Hbt.
    apply andb_prop in Hbt. destruct Hbt as [_ Hq]. rewrite Eh, Eps, Hgpd, Hpp, Htol in Hq. revert Hq. numR. intros Hq.
    apply Rlt_bool_iff in Hq.
    set (gp := vdot (jp i) (gradf (jx i))) in *. set (pp := vsqnorm (jp i)) in *. clearbody gp pp.
    destruct (Rlt_le_dec (jL i) Lf) as [|Hge]; [assumption|exfalso].
    assert (0 <= (jL i - Lf) * pp) by (apply Rmult_le_pos; lra). lra.
  Qed.

  Lemma backtrack_Lcap : forall fuel (i : it) c bt ch i' c' bt' ch', fixed = false -> Cons_x i -> Cons_step i -> Cons_hat i ->
    length (jx i) = n -> 0 < jgam i -> jL i <= Lcap ->
    fbacktrack psi_yhat lb ub l1 P fuel i c bt ch = Some (i', c', bt', ch') -> jL i' <= Lcap.
  Proof.
    induction fuel as [|fuel IH]; intros i c bt ch i' c' bt' ch' Efx Hx Hs Hh Ly Hγ HL; cbn [fbacktrack];
      destruct (fit_backtrack P i) eqn:Eq; try discriminate.
    1,3: intros E; inversion E; subst; exact HL.
    pose proof (qub_violated_small i Efx Hx Hs Hh Ly Hγ Eq) as Hsmall.
    destruct (ARGS eprox_cons (fhalve_it i)) as [A B]; [exact Hx|].
    destruct (ARGS epsih_cons c _ A B) as (A' & B' & C').
    apply IH; try assumption.
    - unfold fhalve_it, bt_gamma. cbn [feval_psih feval_prox fset_gamma_L jgam]. numR. lra.
    - rewrite (ARGS jL_after_halve). unfold Lcap. pose proof (Rmax_r Linit (2 * Lf)). lra.
  Qed.

  Lemma inv_len s : Inv_ s -> length (jx (fs_curr s)) = n /\ length (jxh (fs_curr s)) = n.
  Proof.
    intros [_ _ _ _ Hlog Hch Hprev _ Hlk]. pose proof (chain_len _ Hch Hlog) as Hl. rewrite Hprev.
    destruct (fs_log s) as [|r tl].
    - destruct Hlk as (_ & _ & X0). rewrite X0. cbn [prev_xh]. split; [exact Hx0|apply xh_init_len].
    - destruct Hl as (_ & Lxh & Lb). destruct Hlk as (_ & _ & _ & _ & Hna & Hacc). cbn [prev_xh]. split; [|exact Lxh].
      destruct (fp_noaccel P); [rewrite (Hna eq_refl); exact Lxh|rewrite (Hacc eq_refl); apply map2_length; assumption].
  Qed.

  Lemma step_Lcap s curr c5 bt : Inv_ s -> jL (fs_curr s) <= Lcap -> step_ s = Some (curr, c5, bt) -> jL curr <= Lcap.
  Proof.
    intros HI HL Hst. destruct (inv_len s HI) as [Ly _].
    destruct HP as (_ & HLg & _ & _).
    assert (Hγ : 0 < jgam (fs_curr s)) by (apply (ARGS glrel0_pos); [lra|apply L_init_pos|apply HI]).
    destruct fixed eqn:Efx.
    - destruct (ARGS step_facts s curr c5 bt HI Hst) as (_ & _ & _ & _ & _ & Hfx & _).
      rewrite (Hfx Efx). rewrite <- (iv_fix _ _ _ _ _ _ _ _ _ _ HI Efx). exact HL.
    - revert Hst. unfold fpass_step. cbv zeta. rewrite Efx. cbn [negb orb].
      destruct (ARGS eprox_cons (fs_curr s) (iv_x _ _ _ _ _ _ _ _ _ _ HI)) as [A1 B1].
      destruct (ARGS epsih_cons (fs_cnt s) _ A1 B1) as (A2 & B2 & C2).
      set (i2 := feval_psih psi_yhat (fs_cnt s) (feval_prox lb ub l1 (fs_curr s))) in *.
      assert (H3 : forall c, jL (feval_gradh grad_L c i2) = jL i2 /\ jx (feval_gradh grad_L c i2) = jx i2) by (intros; split; reflexivity).
      destruct (fneed P).
      + destruct (fbacktrack psi_yhat lb ub l1 P bt_fuel _ _ (fs_bt s) false) as [[[[i4 c4] bt4] ch4]|] eqn:Eb; [|discriminate].
        intros E. inversion E; subst curr c5 bt; clear E.
        assert (H4 : jL i4 <= Lcap)
          by (apply (backtrack_Lcap bt_fuel (feval_gradh grad_L (finc_py (fs_cnt s)) i2) _ _ _ _ _ _ _ Efx A2 B2 C2 Ly Hγ HL Eb)).
        destruct (ch4 && true); exact H4.
      + destruct (fbacktrack psi_yhat lb ub l1 P bt_fuel _ _ (fs_bt s) false) as [[[[i4 c4] bt4] ch4]|] eqn:Eb; [|discriminate].
        intros E. inversion E; subst curr c5 bt; clear E.
        assert (H4 : jL i4 <= Lcap) by (apply (backtrack_Lcap _ _ _ _ _ _ _ _ _ Efx A2 B2 C2 Ly Hγ HL Eb)).
        destruct (ch4 && false); exact H4.
  Qed.

  Definition Lb_ok (s : fstate (T:=R)) : Prop :=
    jL (fs_curr s) <= Lcap /\ Forall (fun r => jL (fr_it r) <= Lcap) (fs_log s).

  Lemma pass_Lb s : Inv_ s -> Lb_ok s ->
    match pass_ s with
    | FCont s' => Lb_ok s'
    | FExit o => Forall (fun r => jL (fr_it r) <= Lcap) (fo_log o)
    | FFuel => True
    end.
  Proof.
    intros HI [HL Hlog]. unfold fpass. destruct (step_ s) as [[[curr c5] bt]|] eqn:Hst; [|exact I]. cbv zeta.
    pose proof (step_Lcap s curr c5 bt HI HL Hst) as HLc.
    match goal with |- context [match ?st with StBusy => _ | _ => _ end] => destruct st end.
    1: { unfold Lb_ok, fcont. cbv zeta. cbn [fs_curr fs_log]. split; [|constructor; [exact HLc|exact Hlog]].
         destruct fixed; exact HLc. }
    all: unfold fexit; cbv zeta; cbn [fo_log]; apply Forall_rev; constructor; [exact HLc|exact Hlog].
  Qed.

  Lemma reachable_Lb s : Reachable s -> Lb_ok s.
  Proof.
    induction 1 as [i0 c0 E0|s s' Hr IH Ep].
    - unfold Lb_ok, first_state. cbn [fs_curr fs_log fset_gamma_L jL]. split; [|constructor].
      unfold Lcap, L_init. rewrite E0. cbn [fst]. apply Rmax_l.
    - pose proof (pass_Lb s (ARGS reachable_inv s Hr) IH) as Hp. rewrite Ep in Hp. exact Hp.
  Qed.

  Lemma loop_reach : forall fuel s o, Reachable s -> loop_ fuel s = FDone o -> exists s', Reachable s' /\ pass_ s' = FExit o.
  Proof.
    induction fuel as [|fuel IH]; intros s o Hr; cbn [floop]; [discriminate|].
    destruct (pass_ s) as [o'|s'|] eqn:Ep; [|apply IH; eapply reach_step; eassumption|discriminate].
    intros E. inversion E; subst. exists s. split; assumption.
  Qed.

  Theorem fistaloop_L_bounded fuel o : run fuel = FDone o ->
    Forall (fun r => jL (fr_it r) <= Lcap /\ fp_Lgamma P / Lcap <= jgam (fr_it r)) (fo_log o).
  Proof.
    intros Hr.
    destruct (fista_records psi_grad psi_yhat grad_L grad_psi lb ub l1 stop_req time_up P x_in y_in Σ errz_in bt_fuel fuel o Hr) as (Hall & _ & _).
    assert (Hex : exists s', Reachable s' /\ pass_ s' = FExit o).
    { revert Hr. unfold fista. destruct (finit_L psi_grad grad_psi P x_in) as [i0 c0] eqn:E0.
      destruct (negb (nfinite (jL i0))); [discriminate|]. change (@n1 R NumR) with 1.
      fold (first_state P i0 c0). apply loop_reach. apply reach_init. exact E0. }
    destruct Hex as (s' & Hr' & Ep).
    pose proof (pass_Lb s' (ARGS reachable_inv s' Hr') (reachable_Lb s' Hr')) as Hp. rewrite Ep in Hp.
    destruct HP as (_ & HLg & _ & _). pose proof L_init_pos as HL0.
    assert (Hcap : 0 < Lcap) by (unfold Lcap; pose proof (Rmax_l Linit (2 * Lf)); lra).
    rewrite Forall_forall in *. intros r Hin. specialize (Hp r Hin). split; [exact Hp|].
    destruct (Hall r Hin) as (_ & _ & Hgl & _).
    pose proof (ARGS glrel0_pos _ ltac:(lra) HL0 Hgl) as Hγ.
    pose proof (ARGS glrel0_product_factor _ ltac:(lra) Hgl) as Hprod.
    apply Rmult_le_reg_r with Lcap; [exact Hcap|]. unfold Rdiv. rewrite Rmult_assoc, Rinv_l by lra. rewrite Rmult_1_r, <- Hprod.
    apply Rmult_le_compat_l; lra.
  Qed.

  (* iteration count with NO hypothesis on the step sizes: γmin = Lγ_factor / max(L_init, 2 Lf) *)
  Theorem fistaloop_iterations_apriori fuel o : run fuel = FDone o -> fp_noaccel P = false ->
    forall (η : R) (N : nat), 0 < η -> sqrt (2 * dist2 n x_in xs / (fp_Lgamma P / Lcap * η)) <= INR N ->
    Forall (fun r => (N <= fr_k r + 1)%nat -> FF (jxh (fr_it r)) - FF xs <= η) (fo_log o).
  Proof.
    intros Hr Hacc η N He Hs. pose proof (fistaloop_L_bounded fuel o Hr) as HLb.
    destruct HP as (_ & HLg & _ & _). pose proof L_init_pos as HL0.
    assert (Hcap : 0 < Lcap) by (unfold Lcap; pose proof (Rmax_l Linit (2 * Lf)); lra).
    assert (Hg : 0 < fp_Lgamma P / Lcap) by (apply Rdiv_lt_0_compat; lra).
    pose proof (fistaloop_iterations fuel o Hr Hacc (fp_Lgamma P / Lcap) η N Hg He Hs) as Hit.
    rewrite Forall_forall in *. intros r Hin HN. apply (Hit r Hin); [|exact HN]. apply (HLb r Hin).
  Qed.
End RateLoop.

(* ------------------------------------------------------------------ non-vacuity: concrete instances of ALL hypotheses, with completed runs *)
(* (1) m = 0, fixed step: f = ½‖x‖² on R², box [-1,1] x R, l1 weight ½, L_min = L_max = 1, x* = 0, x0 = (3,-2) (the instance of FistaGenProofs) *)
Definition exl_P (mi : nat) : fparams (T:=R) := mkFParams mi 10 0 (1/1000000) (1/1000000) 1 1 1 ProjGradNorm 0 false true 0.
Definition exl_pg (_ : fcounters) (x : list R) : R * list R := (ex_f x, x).
Definition exl_py (_ : fcounters) (x : list R) : R * list R := (ex_f x, []).
Definition exl_gl (_ : fcounters) (x _ : list R) : list R := x.
Definition exl_gp (_ : fcounters) (x : list R) : list R := x.
Definition exl_run (mi : nat) := fista exl_pg exl_py exl_gl exl_gp ex_lb ex_ub [/ 2] (fun _ => false) (fun _ => false) (exl_P mi) [3; -2] [] [] [] 1 (S mi).

Lemma exl_coherent : coherent 2 ex_f (fun x => x) exl_pg exl_py exl_gp.
Proof. unfold coherent, exl_pg, exl_py, exl_gp. repeat split. Qed.
Lemma exl_params_ok mi : fparams_ok (exl_P mi) 1.
Proof. unfold fparams_ok, exl_P; cbn. repeat split; lra. Qed.
Lemma exl_Linit mi : L_init exl_pg exl_gp (exl_P mi) [3; -2] = 1.
Proof.
  unfold L_init, finit_L, ffixed, exl_P. cbn [fp_Lmin fp_Lmax].
  change (@neqb R NumR 1 1) with (Req_bool 1 1). rewrite Req_bool_true by reflexivity. reflexivity.
Qed.
Lemma exl_completes mi : exists o, exl_run mi = FDone o /\ fo_log o <> [].
Proof.
  destruct (fista_completes exl_pg exl_py exl_gl exl_gp ex_lb ex_ub [/ 2] (fun _ => false) (fun _ => false) (exl_P mi) [3; -2] [] [] [] 1 0%nat)
    with (fuel := S mi) as [o Ho].
  - rewrite exl_Linit. lra.
  - rewrite exl_Linit. cbn. lra.
  - auto.
  - cbn. auto.
  - exists o. split; [exact Ho|].
    destruct (fista_records _ _ _ _ _ _ _ _ _ _ _ _ _ _ _ _ _ Ho) as (_ & _ & cf & t & Hhd & _).
    intros E. rewrite E in Hhd. discriminate.
Qed.

(* (2) m = 1, backtracking from L_0 = ½ < Lf: ψ(x) = ½x² + ½ max(x − 1, 0)²  — the augmented Lagrangian of  min ½x²  s.t. x <= 1
   for y = 0, Σ = 1 —, ∇ψ(x) = x + max(x − 1, 0), ŷ(x) = max(x − 1, 0), Lf = 2, no box, no l1, x* = 0, x0 = 3, criterion ApproxKKT *)
Definition em_f (x : list R) : R := nth 0 x 0 * nth 0 x 0 / 2 + Rmax (nth 0 x 0 - 1) 0 * Rmax (nth 0 x 0 - 1) 0 / 2.
Definition em_g (x : list R) : list R := [nth 0 x 0 + Rmax (nth 0 x 0 - 1) 0].
Definition em_P (mi : nat) : fparams (T:=R) := mkFParams mi 10 (1/2) (1/1000000) (1/1000000) 1 (1/100) 4 ApproxKKT 0 false true 0.
Definition em_pg (_ : fcounters) (x : list R) : R * list R := (em_f x, em_g x).
Definition em_py (_ : fcounters) (x : list R) : R * list R := (em_f x, [Rmax (nth 0 x 0 - 1) 0]).
Definition em_gl (_ : fcounters) (x yh : list R) : list R := [nth 0 x 0 + nth 0 yh 0].
Definition em_gp (_ : fcounters) (x : list R) : list R := em_g x.
Definition em_run (mi : nat) := fista em_pg em_py em_gl em_gp [None] [None] [] (fun _ => false) (fun _ => false) (em_P mi) [3] [0] [1] [0] 4 (S mi).

Lemma em_smooth_convex : smooth_convex 1 em_f em_g 2.
Proof.
  unfold smooth_convex, em_f, em_g. split; [reflexivity|]. split; [|split; [lra|]]; intros x y _ _; cbn [Ssum nth].
  all: set (a := nth 0 x 0); set (b := nth 0 y 0); clearbody a b.
  all: pose proof (Rle_0_sqr (a - b)) as S1; pose proof (Rle_0_sqr (a - 1)) as S2; pose proof (Rle_0_sqr (b - 1)) as S3; unfold Rsqr in S1, S2, S3.
  all: unfold Rmax; destruct (Rle_dec (a - 1) 0) as [Ha|Ha], (Rle_dec (b - 1) 0) as [Hb|Hb].
  all: try (assert (Hab : 0 <= (1 - a) * (b - 1)) by (apply Rmult_le_pos; lra)).
  all: try (assert (Hba : 0 <= (a - 1) * (1 - b)) by (apply Rmult_le_pos; lra)).
  all: lra.
Qed.
Lemma em_prob_ok : prob_ok 1 [None] [None] [].
Proof. unfold prob_ok, lbi, ubi. repeat split; auto. intros [|i] Hi; cbn; auto; lia. Qed.
Lemma em_minimiser : minimiser 1 em_f [None] [None] [] [0].
Proof.
  unfold minimiser, feas, lbi, ubi. split; [reflexivity|]. split; [intros [|i] Hi; [split; exact I|cbn in Hi; lia]|].
  intros x _ _. unfold F, em_f, hval, wt. cbn [Ssum l1_weight nth]. rewrite Rabs_R0.
  set (a := nth 0 x 0). clearbody a. change (@n0 R NumR) with 0.
  unfold Rmax; destruct (Rle_dec (0 - 1) 0), (Rle_dec (a - 1) 0); try lra; nra.
Qed.
Lemma em_coherent : coherent 1 em_f em_g em_pg em_py em_gp.
Proof. unfold coherent, em_pg, em_py, em_gp. repeat split. Qed.
Lemma em_params_ok mi : fparams_ok (em_P mi) 2.
Proof. unfold fparams_ok, em_P; cbn. repeat split; lra. Qed.
Lemma em_Linit mi : L_init em_pg em_gp (em_P mi) [3] = 1 / 2.
Proof.
  unfold L_init, finit_L, ffixed, em_P. cbn [fp_Lmin fp_Lmax fp_L0].
  change (@neqb R NumR (1 / 100) 4) with (Req_bool (1 / 100) 4). rewrite Req_bool_false by lra.
  change (@nleb R NumR (1 / 2) n0) with (Rle_bool (1 / 2) 0). rewrite Rle_bool_false by lra. reflexivity.
Qed.
Lemma em_completes mi : exists o, em_run mi = FDone o /\ fo_log o <> [].
Proof.
  destruct (fista_completes em_pg em_py em_gl em_gp [None] [None] [] (fun _ => false) (fun _ => false) (em_P mi) [3] [0] [1] [0] 4 3%nat)
    with (fuel := S mi) as [o Ho].
  - rewrite em_Linit. lra.
  - rewrite em_Linit. cbn. lra.
  - auto.
  - cbn. auto.
  - exists o. split; [exact Ho|].
    destruct (fista_records _ _ _ _ _ _ _ _ _ _ _ _ _ _ _ _ _ Ho) as (_ & _ & cf & t & Hhd & _).
    intros E. rewrite E in Hhd. discriminate.
Qed.

Lemma exl_fixed mi : ffixed (exl_P mi) = true.
Proof. unfold ffixed, exl_P. cbn [fp_Lmin fp_Lmax]. change (@neqb R NumR 1 1) with (Req_bool 1 1). apply Req_bool_true. reflexivity. Qed.
Lemma em_not_fixed mi : ffixed (em_P mi) = false.
Proof. unfold ffixed, em_P. cbn [fp_Lmin fp_Lmax]. change (@neqb R NumR (1 / 100) 4) with (Req_bool (1 / 100) 4). apply Req_bool_false. lra. Qed.

Lemma exl_nonvacuous mi :
  prob_ok 2 ex_lb ex_ub [/ 2] /\ smooth_convex 2 ex_f (fun x => x) 1 /\ coherent 2 ex_f (fun x => x) exl_pg exl_py exl_gp /\
  fparams_ok (exl_P mi) 1 /\ minimiser 2 ex_f ex_lb ex_ub [/ 2] [0; 0] /\ length [3; -2] = 2%nat /\
  fp_noaccel (exl_P mi) = false /\ ffixed (exl_P mi) = true /\
  exists o, exl_run mi = FDone o /\ fo_log o <> [].
Proof.
  exact (conj ex_prob_ok (conj ex_smooth_convex (conj exl_coherent (conj (exl_params_ok mi) (conj ex_minimiser
         (conj eq_refl (conj eq_refl (conj (exl_fixed mi) (exl_completes mi))))))))).
Qed.
Lemma em_nonvacuous mi :
  prob_ok 1 [None] [None] [] /\ smooth_convex 1 em_f em_g 2 /\ coherent 1 em_f em_g em_pg em_py em_gp /\
  fparams_ok (em_P mi) 2 /\ minimiser 1 em_f [None] [None] [] [0] /\ length [3] = 1%nat /\
  fp_noaccel (em_P mi) = false /\ ffixed (em_P mi) = false /\
  exists o, em_run mi = FDone o /\ fo_log o <> [].
Proof.
  exact (conj em_prob_ok (conj em_smooth_convex (conj em_coherent (conj (em_params_ok mi) (conj em_minimiser
         (conj eq_refl (conj eq_refl (conj (em_not_fixed mi) (em_completes mi))))))))).
Qed.
