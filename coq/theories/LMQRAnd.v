(* LMQRAnd.v — Anderson acceleration, for every history of initialize / compute / reset / scale_R:
   the G columns combined by compute() are exactly the last min(k, m) iterates followed by g_k, the factorisation
   represents the last min(k, m) residual differences with orthonormal Q, and gamma_LS solves the least-squares
   problem over them; so x_aa is the documented affine combination. *)
From Coq Require Import Reals List Arith Lia Lra Bool Psatz.
From Flocq Require Import Raux.
From Alpaqa Require Import Num NumR Vec LMQR LMQRRing LMQRAlg LMQRLsq.
Import ListNotations.
Local Open Scope R_scope.

(* ------------------------------------------------------------------ ring indices of the update done by compute() *)
Lemma aa_ring_update (qr : qrst R) v :
  ring_inv (cap qr) (ring_of qr) -> (0 < cap qr)%nat ->
  let full := Nat.eqb (q_idx qr) (cap qr) in
  let qr1 := if full then remove_column qr else qr in
  let qr2 := add_column qr1 v in
  cap qr1 = cap qr /\ cap qr2 = cap qr /\ ring_inv (cap qr) (ring_of qr1) /\ (q_idx qr1 < cap qr)%nat /\
  ring_inv (cap qr) (ring_of qr2) /\
  q_idx qr2 = (if full then q_idx qr else S (q_idx qr)) /\
  r_start qr2 = (if full then r_succ (cap qr) (r_start qr) else r_start qr) /\
  r_end qr2 = r_succ (cap qr) (r_end qr).
Proof.
  intros Hring Hm. cbv zeta.
  assert (Hring' := Hring). destruct Hring' as (R1 & R2 & R3 & R4). cbn [ring_of g_qi g_rs g_re] in *.
  set (qr1 := if Nat.eqb (q_idx qr) (cap qr) then remove_column qr else qr).
  assert (H1 : cap qr1 = cap qr /\ ring_inv (cap qr) (ring_of qr1) /\ (q_idx qr1 < cap qr)%nat /\
               ring_of qr1 = if Nat.eqb (q_idx qr) (cap qr) then mkRing (q_idx qr - 1) (r_succ (cap qr) (r_start qr)) (r_end qr)
                             else ring_of qr).
  { unfold qr1. destruct (Nat.eqb_spec (q_idx qr) (cap qr)) as [E|E].
    - destruct (ring_of_remove qr) as (E1 & E2). rewrite E1, E2. split; auto. split; [|split].
      + apply ring_inv_step; auto. simpl. apply Nat.ltb_lt. lia.
      + assert (q_idx (remove_column qr) = g_qi (ring_of (remove_column qr))) as -> by reflexivity.
        rewrite E1. simpl. lia.
      + reflexivity.
    - split; auto. split; auto. split; auto. lia. }
  destruct H1 as (Hc1 & Hr1 & Hlt1 & Ering1).
  pose proof (ring_of_add qr1 v) as Eadd. pose proof (cap_add qr1 v) as Ecap. rewrite Hc1 in Eadd, Ecap.
  split; auto. split; auto. split; auto. split; auto.
  split. { rewrite Eadd. apply ring_inv_step; auto. simpl. apply Nat.ltb_lt. auto. }
  assert (q_idx (add_column qr1 v) = g_qi (ring_of (add_column qr1 v))) as -> by reflexivity.
  assert (r_start (add_column qr1 v) = g_rs (ring_of (add_column qr1 v))) as -> by reflexivity.
  assert (r_end (add_column qr1 v) = g_re (ring_of (add_column qr1 v))) as -> by reflexivity.
  rewrite Eadd, Ering1. destruct (Nat.eqb_spec (q_idx qr) (cap qr)); simpl; repeat split; auto. lia.
Qed.

(* ------------------------------------------------------------------ the G ring holds the last iterates *)
(* h = iterates g since initialize()/reset(), oldest first, newest last (the newest sits in storage slot r_end) *)
Definition GInv (a : aast R) (h : list (list R)) : Prop :=
  let qr := a_qr a in let m := cap qr in
  h <> [] /\ q_idx qr = Nat.min (length h - 1) m /\
  forall j, (j <= q_idx qr)%nat -> (0 < j \/ q_idx qr < m)%nat ->
    getc (a_G a) ((r_start qr + j) mod m) = nth (length h - 1 - q_idx qr + j) h [].
Definition AInv (a : aast R) (h : list (list R)) : Prop :=
  (0 < cap (a_qr a))%nat /\ ring_inv (cap (a_qr a)) (ring_of (a_qr a)) /\ length (a_G a) = cap (a_qr a) /\
  (a_init a = true -> GInv a h).

Lemma AInv_new n mem mdf : (0 < Nat.min n mem)%nat -> AInv (aa_new n mem mdf) [].
Proof.
  intros Hm. unfold AInv, aa_new. cbn [a_qr a_G a_init qr_new cap ring_of q_idx r_start r_end].
  split; auto. split; [apply ring_inv_init; auto|]. split; [apply repeat_length|]. discriminate.
Qed.

Lemma AInv_initialize a h g0 r0 : AInv a h -> AInv (aa_initialize a g0 r0) [g0].
Proof.
  intros (Hm & Hr & HG & _). unfold AInv, aa_initialize. cbn [a_qr a_G a_init qr_reset cap ring_of q_idx r_start r_end].
  split; auto. split; [apply ring_inv_init; auto|]. split; [rewrite upd_length; auto|]. intros _.
  unfold GInv. cbn [a_qr a_G qr_reset cap q_idx r_start length]. split; [discriminate|]. split; [reflexivity|].
  intros j Hj _. assert (j = 0)%nat by lia. subst. rewrite Nat.add_0_r, Nat.mod_small by lia.
  unfold getc. rewrite nth_upd_same by lia. reflexivity.
Qed.

Lemma AInv_scale a h s : AInv a h -> AInv (aa_scale_R a s) h.
Proof. intros H. exact H. Qed.

Lemma AInv_reset a h : AInv a h -> AInv (aa_reset a) [last h []].
Proof.
  intros (Hm & Hr & HG & HI). unfold AInv, aa_reset. cbn [a_qr a_G a_init qr_reset cap ring_of q_idx r_start r_end].
  split; auto. split; [apply ring_inv_init; auto|].
  split; [destruct (Nat.eqb (r_end (a_qr a)) 0); [auto|rewrite upd_length; auto]|].
  intros Hi. specialize (HI Hi). destruct HI as (Hne & Hq & Hw).
  unfold GInv. cbn [a_qr a_G qr_reset cap q_idx r_start length]. split; [discriminate|]. split; [reflexivity|].
  intros j Hj _. assert (j = 0)%nat by lia. subst. rewrite Nat.add_0_r, Nat.mod_small by lia. cbn [nth Nat.sub Nat.add].
  (* the newest iterate sits in slot r_end = (r_start + q_idx) mod m *)
  destruct Hr as (R1 & R2 & R3 & R4). cbn [ring_of g_qi g_rs g_re] in *.
  assert (Enew : getc (a_G a) (r_end (a_qr a)) = last h []).
  { rewrite R4. rewrite (Hw (q_idx (a_qr a))) by lia.
    replace (length h - 1 - q_idx (a_qr a) + q_idx (a_qr a))%nat with (length h - 1)%nat by lia.
    clear - Hne. induction h as [|x [|y h] IH]; [congruence|reflexivity|].
    change (last (x :: y :: h) []) with (last (y :: h) []). rewrite <- IH by discriminate. simpl. rewrite Nat.sub_0_r. reflexivity. }
  destruct (Nat.eqb_spec (r_end (a_qr a)) 0) as [E|E].
  - rewrite <- Enew, E. reflexivity.
  - unfold getc at 1. rewrite nth_upd_same by lia. exact Enew.
Qed.

Lemma last_app1 {B} (l : list B) x d : last (l ++ [x]) d = x.
Proof. induction l as [|y l IH]; [reflexivity|]. cbn [app]. destruct (l ++ [x]) eqn:E; [destruct l; discriminate|]. exact IH. Qed.

Theorem AInv_compute a h gk rk a' x :
  AInv a h -> a_init a = true -> aa_compute a gk rk = Some (a', x) ->
  AInv a' (h ++ [gk]) /\ a_init a' = true /\ cap (a_qr a') = cap (a_qr a) /\
  q_idx (a_qr a') = Nat.min (length h) (cap (a_qr a)) /\
  aa_cols (a_qr a') (a_G a) gk =
    map (fun j => nth (length h - q_idx (a_qr a') + j) h []) (seq 0 (q_idx (a_qr a'))) ++ [gk].
Proof.
  intros (Hm & Hr & HG & HI) Hi Hc. specialize (HI Hi). destruct HI as (Hne & Hq & Hw).
  unfold aa_compute in Hc. rewrite Hi in Hc. unfold minimize_update_anderson in Hc. cbv zeta in Hc.
  inversion Hc as [[Ea Ex]]. clear Hc Ex. subst a'. cbn [a_qr a_G a_init].
  set (qr := a_qr a) in *. set (m := cap qr) in *.
  pose proof (aa_ring_update qr (vsub rk (a_rlast a)) Hr Hm) as U. cbv zeta in U. fold m in U.
  set (qr2 := add_column (if Nat.eqb (q_idx qr) m then remove_column qr else qr) (vsub rk (a_rlast a))) in *.
  destruct U as (_ & Hc2 & _ & _ & Hr2 & Eq2 & Es2 & Ee2).
  assert (Hr' := Hr). destruct Hr' as (R1 & R2 & R3 & R4). cbn [ring_of g_qi g_rs g_re] in *. fold m in R1, R2, R3, R4.
  assert (Hlen : (1 <= length h)%nat) by (destruct h; [congruence|simpl; lia]).
  set (off := if Nat.eqb (q_idx qr) m then 1%nat else 0%nat).
  assert (Eq2' : (q_idx qr2 + off = S (q_idx qr))%nat).
  { rewrite Eq2. unfold off. destruct (Nat.eqb_spec (q_idx qr) m); lia. }
  assert (Hq2 : q_idx qr2 = Nat.min (length h) m).
  { rewrite Eq2. destruct (Nat.eqb_spec (q_idx qr) m) as [E|E]; clear - Hq E R3 Hlen; lia. }
  assert (Epos : forall j, (r_start qr2 + j) mod m = (r_start qr + (j + off)) mod m).
  { intros j. rewrite Es2. unfold off. destruct (Nat.eqb_spec (q_idx qr) m).
    - rewrite r_succ_mod by auto. rewrite Nat.add_mod_idemp_l by lia. f_equal. lia.
    - f_equal. lia. }
  assert (Eend : r_end qr2 = (r_start qr + (q_idx qr2 + off)) mod m).
  { rewrite Ee2, R4. rewrite add_mod_succ by lia. f_equal. lia. }
  (* the window read by compute(): logical j of the updated ring holds iterate number len - q_idx2 + j *)
  assert (Hold : forall j, (j < q_idx qr2)%nat ->
            getc (a_G a) ((r_start qr2 + j) mod m) = nth (length h - q_idx qr2 + j) h []).
  { intros j Hj. rewrite Epos. rewrite (Hw (j + off)%nat).
    - f_equal. lia.
    - lia.
    - unfold off. destruct (Nat.eqb_spec (q_idx qr) m); lia. }
  split; [|split; [reflexivity|split; [exact Hc2|split; [exact Hq2|]]]].
  - unfold AInv. cbn [a_qr a_G a_init]. rewrite Hc2. fold m.
    split; auto. split; auto. split; [rewrite upd_length; auto|]. intros _.
    unfold GInv. cbn [a_qr a_G]. rewrite Hc2. fold m.
    split; [destruct h; discriminate|]. rewrite app_length. cbn [length].
    split; [lia|].
    intros j Hj Hg.
    destruct (Nat.eq_dec j (q_idx qr2)) as [->|Hne2].
    + assert (Re2 : (r_end qr2 < m)%nat) by (destruct Hr2 as (_ & H & _); exact H).
      rewrite Epos, <- Eend. rewrite getc_upd_same by (rewrite HG; exact Re2).
      rewrite app_nth2 by lia. replace (length h + 1 - 1 - q_idx qr2 + q_idx qr2 - length h)%nat with 0%nat by lia. reflexivity.
    + rewrite getc_upd_other.
      * rewrite Hold by lia. rewrite app_nth1 by lia. f_equal. lia.
      * rewrite Epos, Eend. apply mod_inj_window; lia.
  - unfold aa_cols. rewrite Hc2. fold m. f_equal.
    pose proof (ring_iter_enumerates_window m (ring_of qr2) Hm Hr2) as HW. cbn [ring_of g_qi g_rs] in HW. rewrite HW.
    unfold window. rewrite map_map. cbn [snd]. apply map_ext_in. intros j Hj. apply in_seq in Hj. apply Hold. lia.
Qed.

(* ------------------------------------------------------------------ all histories: G window, residual differences, LS *)
Inductive aop := PInit (g r : list R) | PCompute (g r : list R) | PReset | PScale (s : R).
Definition aa_opstep (a : aast R) (o : aop) : option (aast R) :=
  match o with
  | PInit g r => Some (aa_initialize a g r)
  | PCompute g r => match aa_compute a g r with Some (a', _) => Some a' | None => None end
  | PReset => Some (aa_reset a)
  | PScale s => Some (aa_scale_R a s)
  end.
Fixpoint aa_run (a : aast R) (ops : list aop) : option (aast R) :=
  match ops with
  | [] => Some a
  | o :: ops' => match aa_opstep a o with Some a' => aa_run a' ops' | None => None end
  end.

(* abstract state: iterates g since initialize/reset (newest last), FIFO window of at most m residual differences, last residual *)
Definition evict (m : nat) (A : list (list R)) : list (list R) := if Nat.eqb (length A) m then tl A else A.
Definition abs_step (m : nat) (s : list (list R) * list (list R) * list R) (o : aop) : list (list R) * list (list R) * list R :=
  let '(h, A, rl) := s in
  match o with
  | PInit g r => ([g], [], r)
  | PCompute g r => (h ++ [g], evict m A ++ [vsub r rl], r)
  | PReset => ([last h []], [], rl)
  | PScale sc => (h, map (vscale sc) A, rl)
  end.

Definition FInv (n : nat) (a : aast R) (s : list (list R) * list (list R) * list R) : Prop :=
  let '(h, A, rl) := s in
  AInv a h /\ wf n (a_qr a) /\ QRrep (a_qr a) A /\ Orth n (a_qr a) /\
  Forall (fun c => length c = n) (a_G a) /\ (cap (a_qr a) <= length (a_gamma a))%nat /\
  (a_init a = true -> a_rlast a = rl /\ length rl = n).

(* the factorisation compute() adds the new difference to (after evicting the oldest column of a full buffer) *)
Definition aa_qr1 (a : aast R) : qrst R :=
  if Nat.eqb (q_idx (a_qr a)) (cap (a_qr a)) then remove_column (a_qr a) else a_qr a.
Definition op_ok (n : nat) (a : aast R) (o : aop) : Prop :=
  match o with
  | PInit g r => length g = n /\ length r = n
  | PCompute g r => a_init a = true /\ length g = n /\ length r = n /\
                    add_norm (aa_qr1 a) (vsub r (a_rlast a)) <> 0     (* new difference not in the span of the window *)
  | _ => True
  end.

Lemma solve_row_length (st : qrst R) b tol x e : length (solve_row st b tol x e) = length x.
Proof.
  unfold solve_row. destruct e as [[rR cR] [zb c]]. destruct (nltb _ _); apply upd_length.
Qed.
Lemma solve_col_length (st : qrst R) b tol x : length (solve_col st b tol x) = length x.
Proof.
  unfold solve_col. generalize (ring_rev_iter (q_idx st) (r_end st) (cap st)). intros l. revert x.
  induction l; intros x; cbn [fold_left]; auto. rewrite IHl. apply solve_row_length.
Qed.

Definition aa_tol (qr2 : qrst R) (mdf : R) : R := match max_eig qr2 with Some e => e * mdf | None => 0 end.

(* shape of compute()'s result *)
Lemma aa_compute_shape a g r : a_init a = true ->
  let qr2 := add_column (aa_qr1 a) (vsub r (a_rlast a)) in
  exists x, aa_compute a g r =
    Some (mkAA qr2 (upd (r_end qr2) (fun _ => g) (a_G a)) r (solve_col qr2 r (aa_tol qr2 (a_mdf a)) (a_gamma a)) (a_mdf a) true, x).
Proof.
  intros Hi. cbv zeta. unfold aa_compute. rewrite Hi. unfold minimize_update_anderson. cbv zeta.
  eexists. reflexivity.
Qed.

Lemma FInv_compute_qr n a h A rl g r :
  FInv n a (h, A, rl) -> op_ok n a (PCompute g r) ->
  let qr2 := add_column (aa_qr1 a) (vsub r (a_rlast a)) in
  let A' := evict (cap (a_qr a)) A ++ [vsub r rl] in
  wf n qr2 /\ QRrep qr2 A' /\ Orth n qr2.
Proof.
  intros (HA & Hwf & Hrep & HO & HG & Hgam & Hrl) (Hi & Hg & Hr & Hn). cbv zeta.
  destruct (Hrl Hi) as (Erl & Lrl). rewrite Erl in *.
  destruct HA as (Hm & Hring & _).
  pose proof (aa_ring_update (a_qr a) (vsub r rl) Hring Hm) as U. cbv zeta in U.
  destruct U as (_ & _ & _ & Hlt1 & _).
  assert (H1 : wf n (aa_qr1 a) /\ QRrep (aa_qr1 a) (evict (cap (a_qr a)) A) /\ Orth n (aa_qr1 a)).
  { unfold aa_qr1, evict. destruct Hrep as (HlA & HQR). rewrite HlA.
    destruct (Nat.eqb_spec (q_idx (a_qr a)) (cap (a_qr a))) as [E|E].
    - destruct (remove_keeps_QR n (a_qr a) A Hwf ltac:(lia) (conj HlA HQR)) as (Hrep' & Hwf').
      split; auto. split; auto. apply remove_keeps_orth; auto.
    - split; auto. split; auto. split; auto. }
  destruct H1 as (Hwf1 & Hrep1 & HO1).
  assert (Lv : length (vsub r rl) = n) by (rewrite vsub_length; lia).
  fold (aa_qr1 a) in Hlt1.
  assert (Hc1 : cap (aa_qr1 a) = cap (a_qr a)).
  { unfold aa_qr1. destruct (Nat.eqb (q_idx (a_qr a)) (cap (a_qr a))); auto. apply (proj2 (ring_of_remove _)). }
  destruct (add_keeps_QR n (aa_qr1 a) _ (vsub r rl) Hwf1 Lv ltac:(lia) Hrep1 Hn) as (Hrep2 & Hwf2).
  split; auto. split; auto. apply add_keeps_orth; auto. lia.
Qed.

Lemma FInv_step n a s o :
  FInv n a s -> op_ok n a o ->
  exists a', aa_opstep a o = Some a' /\ FInv n a' (abs_step (cap (a_qr a)) s o) /\ cap (a_qr a') = cap (a_qr a).
Proof.
  destruct s as [[h A] rl]. intros HF Hok.
  destruct o as [g r|g r| |sc]; cbn [aa_opstep abs_step].
  - (* initialize *)
    destruct HF as (HA & Hwf & Hrep & HO & HG & Hgam & Hrl). destruct Hok as (Lg & Lr).
    eexists. split; [reflexivity|]. split; [|reflexivity].
    destruct (reset_spec n (a_qr a) Hwf) as (Hrep0 & Hwf0).
    unfold FInv. cbn [aa_initialize a_qr a_G a_gamma a_init a_rlast].
    split; [apply (AInv_initialize a h); auto|]. split; auto. split; auto. split; [apply reset_orth|].
    split; [apply Forall_upd; auto|]. split; auto.
  - (* compute *)
    pose proof (FInv_compute_qr n a h A rl g r HF Hok) as HQ. cbv zeta in HQ.
    destruct HF as (HA & Hwf & Hrep & HO & HG & Hgam & Hrl). destruct Hok as (Hi & Lg & Lr & Hn).
    destruct (aa_compute_shape a g r Hi) as (x & Ec). cbv zeta in Ec. rewrite Ec.
    destruct (AInv_compute a h g r _ x HA Hi Ec) as (HA' & _ & Hcap & _). cbn [a_qr] in Hcap.
    eexists. split; [reflexivity|]. split; [|cbn [a_qr]; exact Hcap].
    destruct HQ as (Hwf2 & Hrep2 & HO2).
    unfold FInv. cbn [a_qr a_G a_gamma a_init a_rlast].
    split; auto. split; auto. split; auto. split; auto.
    split; [apply Forall_upd; auto|]. split; [rewrite solve_col_length, Hcap; auto|]. auto.
  - (* reset *)
    destruct HF as (HA & Hwf & Hrep & HO & HG & Hgam & Hrl).
    eexists. split; [reflexivity|]. split; [|reflexivity].
    destruct (reset_spec n (a_qr a) Hwf) as (Hrep0 & Hwf0).
    unfold FInv. cbn [aa_reset a_qr a_G a_gamma a_init a_rlast].
    split; [apply (AInv_reset a h); auto|]. split; auto. split; auto. split; [apply reset_orth|].
    split; [|split; auto].
    destruct HA as (Hm & (_ & Re & _) & HGl & _). cbn [ring_of g_re] in Re.
    destruct (Nat.eqb (r_end (a_qr a)) 0); auto. apply Forall_upd; auto. intros _ _. apply getc_len; auto. lia.
  - (* scale_R *)
    destruct HF as (HA & Hwf & Hrep & HO & HG & Hgam & Hrl).
    eexists. split; [reflexivity|]. split; [|reflexivity].
    destruct (scale_R_spec n (a_qr a) A sc Hwf Hrep) as (Hrep' & Hwf').
    unfold FInv. cbn [aa_scale_R a_qr a_G a_gamma a_init a_rlast].
    split; [apply AInv_scale; auto|]. split; [auto|]. split; [auto|]. split; [apply scale_keeps_orth; auto|]. auto.
Qed.

Fixpoint aa_hist_ok (n : nat) (a : aast R) (ops : list aop) : Prop :=
  match ops with
  | [] => True
  | o :: ops' => op_ok n a o /\ match aa_opstep a o with Some a' => aa_hist_ok n a' ops' | None => False end
  end.

Theorem aa_all_histories n : forall ops a s, FInv n a s -> aa_hist_ok n a ops ->
  exists a', aa_run a ops = Some a' /\ FInv n a' (fold_left (abs_step (cap (a_qr a))) ops s) /\ cap (a_qr a') = cap (a_qr a).
Proof.
  induction ops as [|o ops IH]; intros a s HF Hok; cbn [aa_run fold_left aa_hist_ok] in *.
  - eexists. split; [reflexivity|]. auto.
  - destruct Hok as (Ho & Hok). destruct (FInv_step n a s o HF Ho) as (a1 & E1 & HF1 & Hc1).
    rewrite E1 in *. destruct (IH a1 _ HF1 Hok) as (a' & Er & HF' & Hc'). rewrite Hc1 in *.
    exists a'. split; [auto|]. split; [auto|]. lia.
Qed.

Lemma FInv_new n mem mdf : (0 < Nat.min n mem)%nat -> FInv n (aa_new n mem mdf) ([], [], []).
Proof.
  intros Hm. unfold FInv. split; [apply AInv_new; auto|]. unfold aa_new. cbn [a_qr a_G a_gamma a_init a_rlast].
  split; [apply wf_new; auto|]. split; [apply QRrep_new|]. split; [intros i j Hi; simpl in Hi; lia|].
  split; [apply repeat_Forall, repeat_length|]. split; [rewrite repeat_length; simpl; lia|]. discriminate.
Qed.

(* ------------------------------------------------------------------ what one compute() returns, at any reachable state *)
Theorem anderson_compute_spec n a h A rl g r a' x :
  FInv n a (h, A, rl) -> op_ok n a (PCompute g r) -> aa_compute a g r = Some (a', x) ->
  let m := cap (a_qr a) in
  let qr2 := a_qr a' in
  let k := q_idx qr2 in
  let A' := evict m A ++ [vsub r rl] in                                  (* last min(k,m) residual differences *)
  let W := map (fun j => nth (length h - k + j) h []) (seq 0 k) ++ [g] in  (* last min(k,m) iterates, then g_k *)
  let γ := a_gamma a' in
  let α := aa_alphas γ k in
  let tol := aa_tol qr2 (a_mdf a) in
  k = Nat.min (length h) m /\ length A' = k /\ QRrep qr2 A' /\ Orth n qr2 /\ wf n qr2 /\
  lsum α = 1 /\ length α = S k /\ length W = S k /\
  (forall t, getv x t = dotl α (map (fun c => getv c t) W)) /\
  (* gamma: thresholded pivots give 0, for the others the residual A' gamma - r is orthogonal to Q_i *)
  ((forall i, (i < k)%nat -> thr qr2 tol i = false -> Rl qr2 i i <> 0) ->
   forall i, (i < k)%nat ->
     (thr qr2 tol i = true -> getv γ i = 0) /\
     (thr qr2 tol i = false -> dotf n (getv (getc (Qs qr2) i)) (resid A' k r (getv γ)) = 0)) /\
  (* no thresholded / zero pivot: gamma is THE least-squares solution of min || A' gamma - r_k || *)
  ((forall i, (i < k)%nat -> thr qr2 tol i = false /\ Rl qr2 i i <> 0) ->
   (forall j, (j < k)%nat -> dotf n (Acol A' j) (resid A' k r (getv γ)) = 0) /\
   forall cz : nat -> R, dotf n (resid A' k r (getv γ)) (resid A' k r (getv γ)) <= dotf n (resid A' k r cz) (resid A' k r cz)).
Proof.
  intros HF Hok Hc. cbv zeta.
  pose proof (FInv_compute_qr n a h A rl g r HF Hok) as HQ. cbv zeta in HQ.
  destruct HF as (HA & Hwf & Hrep & HO & HG & Hgam & Hrl). destruct Hok as (Hi & Lg & Lr & Hn).
  destruct (aa_compute_shape a g r Hi) as (x0 & Ec). cbv zeta in Ec.
  assert (Ea : a' = mkAA (add_column (aa_qr1 a) (vsub r (a_rlast a)))
                         (upd (r_end (add_column (aa_qr1 a) (vsub r (a_rlast a)))) (fun _ => g) (a_G a)) r
                         (solve_col (add_column (aa_qr1 a) (vsub r (a_rlast a))) r
                            (aa_tol (add_column (aa_qr1 a) (vsub r (a_rlast a))) (a_mdf a)) (a_gamma a)) (a_mdf a) true /\ x = x0)
    by (rewrite Ec in Hc; inversion Hc; auto).
  destruct Ea as (Ea & Ex). subst x0.
  destruct (AInv_compute a h g r a' x HA Hi Hc) as (HA' & _ & Hcap & Hk & Hcols).
  destruct HA as (Hm & Hring & HGl & _).
  pose proof (anderson_is_affine_combination n (a_qr a) (a_G a) r (a_rlast a) g (a_mdf a) (a_gamma a)) as Haff.
  unfold aa_compute in Hc. rewrite Hi in Hc.
  destruct (minimize_update_anderson (a_qr a) (a_G a) r (a_rlast a) g (a_mdf a) (a_gamma a)) as [[[qr2 G'] γ'] x1] eqn:Em.
  inversion Hc as [[Ea' Ex']]. subst x1.
  assert (Eq : a_qr a' = qr2) by (rewrite <- Ea'; reflexivity).
  assert (Eg : a_gamma a' = γ') by (rewrite <- Ea'; reflexivity).
  rewrite Eq in Hk, Hcols, Hcap. cbn [a_qr a_gamma].
  assert (Eq2 : qr2 = add_column (aa_qr1 a) (vsub r (a_rlast a))) by (rewrite Ea in Eq; cbn [a_qr] in Eq; auto).
  assert (Eg2 : γ' = solve_col qr2 r (aa_tol qr2 (a_mdf a)) (a_gamma a)) by (rewrite Ea in Eg; cbn [a_gamma] in Eg; rewrite Eq2; auto).
  rewrite <- Eq2 in HQ. destruct HQ as (Hwf2 & Hrep2 & HO2).
  destruct (Hrl Hi) as (Erl & Lrl).
  split; [exact Hk|]. split; [destruct Hrep2 as (H & _); exact H|]. split; auto. split; auto. split; auto.
  assert (Haff' : forall t, lsum (aa_alphas γ' (q_idx qr2)) = 1 /\ length (aa_alphas γ' (q_idx qr2)) = S (q_idx qr2) /\
                  length (aa_cols qr2 (a_G a) g) = S (q_idx qr2) /\
                  getv x t = dotl (aa_alphas γ' (q_idx qr2)) (map (fun c => getv c t) (aa_cols qr2 (a_G a) g))).
  { intros t. specialize (Haff t HG HGl Lg Hring Hm). cbv zeta in Haff. tauto. }
  rewrite Hcols in Haff'.
  split; [apply (Haff' 0%nat)|]. split; [apply (Haff' 0%nat)|]. split; [apply (Haff' 0%nat)|].
  split; [intros t; apply (Haff' t)|].
  assert (Hgl : (q_idx qr2 <= length (a_gamma a))%nat).
  { destruct Hwf2 as (_ & (_ & _ & H & _) & _). cbn [ring_of g_qi] in H. rewrite Hcap in H. lia. }
  split.
  - intros Hpiv. rewrite Eg2.
    destruct (solve_col_thresholded n qr2 _ r (aa_tol qr2 (a_mdf a)) (a_gamma a) Hwf2 Hrep2 HO2 Lr Hgl Hpiv) as (_ & H).
    exact H.
  - intros Hpiv. rewrite Eg2.
    destruct (solve_col_least_squares n qr2 _ r (aa_tol qr2 (a_mdf a)) (a_gamma a) Hwf2 Hrep2 HO2 Lr Hgl Hpiv) as (_ & H1 & H2).
    split; auto.
Qed.
