(* FistaLoopConv.v — C02 for FISTA: on STRONGLY convex problems the ITERATES x̂_k of FistaLoop.fista (= FISTASolver::operator(), tied to
   the code by the whole-run correspondence Corr_FISTA) converge to the minimiser, with explicit constants.
   ROUTE: (a) quadratic growth  (mu/2)‖x − x*‖² <= F(x) − Fmin  for every feasible x.  `minimiser` (FistaProofs.v) only says
   Fmin <= F(x) for every feasible x — no first-order condition —, so growth is derived from strong convexity of the smooth part
   (first-order form, modulus mu), convexity of the box and of the l1 term, and minimality ALONG THE SEGMENT z_t = x* + t(x − xs):
        Fmin <= F(z_t) <= (1−t)Fmin + tF(x) − (mu/2)t(1−t)‖x − x*‖²      hence   (mu/2)(1−t)‖x − x*‖² <= F(x) − Fmin  for all t in (0,1),
   and the constant mu/2 (not mu/4) follows without a limit: if (mu/2)D > G >= 0, t = (c − G)/(2c) with c = (mu/2)D contradicts it.
   (b) growth composed with the function-value rate of FistaLoopRate.v (fistaloop_rate, _reachable, _noaccel, _fixed_step, the iteration
   counts and the a-priori step-size bound fistaloop_L_bounded) on every progress-callback record of every run:
        ‖x̂_k − x*‖² <= 4‖x0 − x*‖² / (mu γ_k (k+1)²)     (accelerated; also with (k+2)²)
        ‖x̂_k − x*‖² <=  ‖x0 − x*‖² / (mu γ_k (k+1))      (disable_acceleration)
   and ‖x̂_k − x*‖² <= eps for every record with k + 1 >= K(eps), K explicit:
        K = ⌈sqrt(4‖x0 − x*‖² / (mu γmin eps))⌉ (accelerated),  ⌈‖x0 − x*‖² / (mu γmin eps)⌉ (not accelerated),
        γmin = Lγ_factor / L_max in fixed-step mode,  γmin = Lγ_factor / max(L_init, 2 Lf) in every mode (fistaloop_L_bounded).
   Nothing is assumed about the stop criterion, max_iter, the tolerance, the stop flag, the clock, the fuels; m arbitrary. *)
From Coq Require Import Reals List ZArith Lra Lia Bool Arith Psatz.
From Flocq Require Import Raux.
From Alpaqa Require PanocLiveN.       (* only INR_to_nat_ge; not imported: Panoc's names would shadow FistaLoop's *)
From Alpaqa Require Import Num NumR Vec Prox ProxProofs ProxVec SolverStatus SolverKernels SolverKernelsProofs DescentProofs
                           StopChain StopChainProofs FistaGen Fista FistaK FistaProofs FistaGenProofs FistaLoop FistaLoopProofs FistaLoopRate.
Import ListNotations.
Local Open Scope R_scope.

(* ------------------------------------------------------------------ strong convexity of the smooth part (first-order form, like smooth_convex) *)
Definition strongly_convex (n : nat) (f : list R -> R) (gradf : list R -> list R) (mu : R) : Prop :=
  0 < mu /\
  forall x y, length x = n -> length y = n ->
    f y + Ssum n (fun i => (gradf y)@i * (x@i - y@i)) + mu / 2 * dist2 n x y <= f x.

(* ------------------------------------------------------------------ the segment  a + t (b − a) *)
Definition seg (t : R) (a b : list R) : list R := map2 (fun ai bi => ai + t * (bi - ai)) a b.

Lemma seg_len n t a b : length a = n -> length b = n -> length (seg t a b) = n.
Proof. intros Ha Hb. unfold seg. apply map2_length; assumption. Qed.

Lemma seg_nth n t a b i : length a = n -> length b = n -> (i < n)%nat -> (seg t a b)@i = a@i + t * (b@i - a@i).
Proof. intros Ha Hb Hi. unfold seg. rewrite (map2_nth _ a b n i 0 0 0 Ha Hb Hi). reflexivity. Qed.

Lemma in_box_seg lb ub t a b : 0 <= t <= 1 -> in_box lb ub a -> in_box lb ub b -> in_box lb ub (a + t * (b - a)).
Proof.
  intros Ht [Ha1 Ha2] [Hb1 Hb2]. unfold in_box, lb_ok, ub_ok in *. split.
  - destruct lb as [l|]; [|exact I].
    assert (0 <= (1 - t) * (a - l)) by (apply Rmult_le_pos; lra).
    assert (0 <= t * (b - l)) by (apply Rmult_le_pos; lra). lra.
  - destruct ub as [u|]; [|exact I].
    assert (0 <= (1 - t) * (u - a)) by (apply Rmult_le_pos; lra).
    assert (0 <= t * (u - b)) by (apply Rmult_le_pos; lra). lra.
Qed.

Lemma feas_seg n lb ub t a b : 0 <= t <= 1 -> length a = n -> length b = n ->
  feas n lb ub a -> feas n lb ub b -> feas n lb ub (seg t a b).
Proof.
  intros Ht La Lb Fa Fb i Hi. rewrite (seg_nth n t a b i La Lb Hi). apply in_box_seg; [exact Ht|apply Fa, Hi|apply Fb, Hi].
Qed.

(* the l1 term is convex (weights >= 0 by prob_ok) *)
Lemma hval_seg n lb ub l1 t a b : prob_ok n lb ub l1 -> 0 <= t <= 1 -> length a = n -> length b = n ->
  hval n l1 (seg t a b) <= (1 - t) * hval n l1 a + t * hval n l1 b.
Proof.
  intros Hok Ht La Lb. unfold hval. rewrite !Ssum_scal, Ssum_plus. apply Ssum_le. intros i Hi.
  rewrite (seg_nth n t a b i La Lb Hi).
  destruct (prob_ok_comp n lb ub l1 Hok i Hi) as (Hw & _).
  replace (a@i + t * (b@i - a@i)) with ((1 - t) * a@i + t * b@i) by ring.
  pose proof (Rabs_triang ((1 - t) * a@i) (t * b@i)) as Htri.
  rewrite !Rabs_mult, (Rabs_pos_eq (1 - t)), (Rabs_pos_eq t) in Htri by lra.
  apply Rle_trans with (wt l1 i * ((1 - t) * Rabs a@i + t * Rabs b@i)); [apply Rmult_le_compat_l; assumption|].
  right. ring.
Qed.

(* strong convexity along the segment (Jensen form with the quadratic term), from the first-order form at z_t *)
Lemma sc_segment n f gradf mu t xs x : strongly_convex n f gradf mu -> 0 <= t <= 1 -> length xs = n -> length x = n ->
  f (seg t xs x) + mu / 2 * (t * (1 - t)) * dist2 n x xs <= (1 - t) * f xs + t * f x.
Proof.
  intros [Hmu Hsc] Ht Lxs Lx.
  pose proof (seg_len n t xs x Lxs Lx) as Lz.
  pose proof (Hsc x _ Lx Lz) as H1. pose proof (Hsc xs _ Lxs Lz) as H2.
  set (G := Ssum n (fun i => (gradf (seg t xs x))@i * (x@i - xs@i))).
  assert (E1 : Ssum n (fun i => (gradf (seg t xs x))@i * (x@i - (seg t xs x)@i)) = (1 - t) * G).
  { unfold G. rewrite Ssum_scal. apply Ssum_ext. intros i Hi. rewrite (seg_nth n t xs x i Lxs Lx Hi). ring. }
  assert (E2 : Ssum n (fun i => (gradf (seg t xs x))@i * (xs@i - (seg t xs x)@i)) = - t * G).
  { unfold G. rewrite Ssum_scal. apply Ssum_ext. intros i Hi. rewrite (seg_nth n t xs x i Lxs Lx Hi). ring. }
  assert (D1 : dist2 n x (seg t xs x) = (1 - t) * (1 - t) * dist2 n x xs).
  { unfold dist2. rewrite Ssum_scal. apply Ssum_ext. intros i Hi. rewrite (seg_nth n t xs x i Lxs Lx Hi). ring. }
  assert (D2 : dist2 n xs (seg t xs x) = t * t * dist2 n x xs).
  { unfold dist2. rewrite Ssum_scal. apply Ssum_ext. intros i Hi. rewrite (seg_nth n t xs x i Lxs Lx Hi). ring. }
  rewrite E1, D1 in H1. rewrite E2, D2 in H2.
  pose proof (Rmult_le_compat_l t _ _ (Logic.proj1 Ht) H1) as A1.
  assert (Ht1 : 0 <= 1 - t) by lra.
  pose proof (Rmult_le_compat_l (1 - t) _ _ Ht1 H2) as A2.
  set (D := dist2 n x xs) in *. set (fz := f (seg t xs x)) in *. set (a := f xs) in *. set (b := f x) in *.
  clearbody G D fz a b. nra.
Qed.

(* ------------------------------------------------------------------ QUADRATIC GROWTH at a minimiser, constant mu/2 *)
Theorem quadratic_growth n f gradf lb ub l1 mu xs :
  prob_ok n lb ub l1 -> strongly_convex n f gradf mu -> minimiser n f lb ub l1 xs ->
  forall x, length x = n -> feas n lb ub x -> mu / 2 * dist2 n x xs <= F n f l1 x - F n f l1 xs.
Proof.
  intros Hok Hsc (Lxs & Fxs & Hmin) x Lx Fx. pose proof Hsc as [Hmu _].
  pose proof (dist2_nonneg n x xs) as HD. pose proof (Hmin x Lx Fx) as HG.
  assert (Hseg : forall t, 0 < t < 1 -> mu / 2 * (1 - t) * dist2 n x xs <= F n f l1 x - F n f l1 xs).
  { intros t Ht.
    assert (Ht' : 0 <= t <= 1) by lra.
    pose proof (sc_segment n f gradf mu t xs x Hsc Ht' Lxs Lx) as S1.
    pose proof (hval_seg n lb ub l1 t xs x Hok Ht' Lxs Lx) as S2.
    pose proof (Hmin _ (seg_len n t xs x Lxs Lx) (feas_seg n lb ub t xs x Ht' Lxs Lx Fxs Fx)) as S3.
    unfold F in *.
    set (D := dist2 n x xs) in *. set (fz := f (seg t xs x)) in *. set (hz := hval n l1 (seg t xs x)) in *.
    set (a := f xs) in *. set (b := f x) in *. set (ha := hval n l1 xs) in *. set (hb := hval n l1 x) in *.
    clearbody D fz hz a b ha hb.
    apply Rmult_le_reg_l with t; [lra|]. nra. }
  assert (HG0 : 0 <= F n f l1 x - F n f l1 xs) by lra.
  set (D := dist2 n x xs) in *. set (G := F n f l1 x - F n f l1 xs) in *. clearbody D G.
  destruct (Rle_lt_dec (mu / 2 * D) G) as [|Hlt]; [assumption|exfalso].
  set (c := mu / 2 * D) in *.
  assert (Hc : 0 < c) by lra.
  set (t0 := (c - G) / (2 * c)).
  assert (Et : t0 * (2 * c) = c - G) by (unfold t0; field; lra).
  assert (Ht0 : 0 < t0) by (unfold t0; apply Rdiv_lt_0_compat; lra).
  assert (Ht1 : t0 < 1).
  { apply Rmult_lt_reg_r with (2 * c); [lra|]. rewrite Et. lra. }
  pose proof (Hseg t0 (conj Ht0 Ht1)) as H.
  assert (Hk : mu / 2 * (1 - t0) * D = c - t0 * c) by (unfold c; ring).
  rewrite Hk in H. lra.
Qed.

(* ------------------------------------------------------------------ real-number glue *)
Lemma growth_rate mu d v D0 γ K : 0 < mu -> 0 < γ -> 0 < K -> mu / 2 * d <= v -> v <= 2 * D0 / (γ * K) -> d <= 4 * D0 / (mu * γ * K).
Proof.
  intros Hm Hg HK H1 H2.
  assert (HgK : 0 < γ * K) by (apply Rmult_lt_0_compat; assumption).
  assert (Hv : v * (γ * K) <= 2 * D0).
  { apply Rmult_le_reg_r with (/ (γ * K)); [apply Rinv_0_lt_compat; exact HgK|].
    rewrite Rmult_assoc, Rinv_r by lra. unfold Rdiv in H2. lra. }
  assert (Hq : 0 < mu * γ * K) by (rewrite Rmult_assoc; apply Rmult_lt_0_compat; assumption).
  apply Rmult_le_reg_r with (mu * γ * K); [exact Hq|].
  unfold Rdiv. rewrite (Rmult_assoc (4 * D0)), Rinv_l, Rmult_1_r by lra.
  pose proof (Rmult_le_compat_r (γ * K) _ _ (Rlt_le _ _ HgK) H1) as H3. nra.
Qed.

Lemma growth_rate0 mu d v D0 γ K : 0 < mu -> 0 < γ -> 0 < K -> mu / 2 * d <= v -> v <= D0 / (2 * γ * K) -> d <= D0 / (mu * γ * K).
Proof.
  intros Hm Hg HK H1 H2.
  assert (HgK : 0 < 2 * γ * K) by (apply Rmult_lt_0_compat; lra).
  assert (Hv : v * (2 * γ * K) <= D0).
  { apply Rmult_le_reg_r with (/ (2 * γ * K)); [apply Rinv_0_lt_compat; exact HgK|].
    rewrite Rmult_assoc, Rinv_r by lra. unfold Rdiv in H2. lra. }
  assert (Hq : 0 < mu * γ * K) by (rewrite Rmult_assoc; apply Rmult_lt_0_compat; [assumption|apply Rmult_lt_0_compat; assumption]).
  apply Rmult_le_reg_r with (mu * γ * K); [exact Hq|].
  unfold Rdiv. rewrite (Rmult_assoc D0), Rinv_l, Rmult_1_r by lra.
  pose proof (Rmult_le_compat_r (2 * γ * K) _ _ (Rlt_le _ _ HgK) H1) as H3. nra.
Qed.

(* O(1/k) count: d <= D0/(mu γ (k+1)), γ >= γmin, k+1 >= N >= D0/(mu γmin eps)  ==>  d <= eps *)
Lemma count0 mu d D0 γ γmin eps k (N : nat) : 0 < mu -> 0 < γmin -> 0 < eps -> γmin <= γ -> 0 <= d -> 0 <= k ->
  d <= D0 / (mu * γ * (k + 1)) -> D0 / (mu * γmin * eps) <= INR N -> INR N <= k + 1 -> d <= eps.
Proof.
  intros Hm Hg He Hgg Hd Hk Hb Hs HN.
  assert (Hq : 0 < mu * γ * (k + 1)) by (apply Rmult_lt_0_compat; [apply Rmult_lt_0_compat; lra|lra]).
  assert (Hq' : 0 < mu * γmin * eps) by (apply Rmult_lt_0_compat; [apply Rmult_lt_0_compat; lra|lra]).
  assert (H1 : d * (mu * γ * (k + 1)) <= D0).
  { apply Rmult_le_reg_r with (/ (mu * γ * (k + 1))); [apply Rinv_0_lt_compat; exact Hq|].
    rewrite Rmult_assoc, Rinv_r by lra. unfold Rdiv in Hb. lra. }
  assert (H2 : D0 <= INR N * (mu * γmin * eps)).
  { apply Rmult_le_reg_r with (/ (mu * γmin * eps)); [apply Rinv_0_lt_compat; exact Hq'|].
    rewrite (Rmult_assoc (INR N)), Rinv_r by lra. unfold Rdiv in Hs. lra. }
  assert (H3 : INR N * (mu * γmin * eps) <= (k + 1) * (mu * γ * eps)).
  { apply Rle_trans with ((k + 1) * (mu * γmin * eps)).
    - apply Rmult_le_compat_r; lra.
    - apply Rmult_le_compat_l; [lra|]. apply Rmult_le_compat_r; [lra|]. apply Rmult_le_compat_l; lra. }
  apply Rmult_le_reg_r with (mu * γ * (k + 1)); [exact Hq|]. lra.
Qed.

(* the least-effort ceiling with the standard library's `up`, as in PanocLiveN.N_of *)
Definition ceil_nat (x : R) : nat := Z.to_nat (up x).
Lemma ceil_nat_ge x : x <= INR (ceil_nat x).
Proof.
  unfold ceil_nat. destruct (archimed x) as [Hu _]. pose proof (PanocLiveN.INR_to_nat_ge (up x)). lra.
Qed.

(* K(eps) of the accelerated loop and of the loop with disable_acceleration *)
Definition fista_K (mu γmin D0 eps : R) : nat := ceil_nat (sqrt (4 * D0 / (mu * γmin * eps))).
Definition fista_K0 (mu γmin D0 eps : R) : nat := ceil_nat (D0 / (mu * γmin * eps)).

Section ConvLoop.
  Variable psi_grad : fcounters -> list R -> R * list R.
  Variable psi_yhat : fcounters -> list R -> R * list R.
  Variable grad_L : fcounters -> list R -> list R -> list R.
  Variable grad_psi : fcounters -> list R -> list R.
  Variables (lb ub : list (option R)) (l1 : list R).
  Variable stop_req : fcounters -> bool.
  Variable time_up : fcounters -> bool.
  Variable P : fparams (T:=R).
  Variables (x_in y_in Σ errz_in : list R).
  Variable bt_fuel : nat.
  Variables (n : nat) (f : list R -> R) (gradf : list R -> list R) (Lf : R) (xs : list R) (mu : R).
  Hypothesis Hok : prob_ok n lb ub l1.
  Hypothesis Hf : smooth_convex n f gradf Lf.
  Hypothesis Hco : coherent n f gradf psi_grad psi_yhat grad_psi.
  Hypothesis HP : fparams_ok P Lf.
  Hypothesis Hxs : minimiser n f lb ub l1 xs.
  Hypothesis Hx0 : length x_in = n.
  Hypothesis Hsc : strongly_convex n f gradf mu.
  Set Default Proof Using "All".

  Notation fixed := (ffixed P).
  Notation run := (fista psi_grad psi_yhat grad_L grad_psi lb ub l1 stop_req time_up P x_in y_in Σ errz_in bt_fuel).
  Notation Reachable := (reachable psi_grad psi_yhat grad_L grad_psi lb ub l1 stop_req time_up P x_in y_in Σ errz_in bt_fuel).
  Notation Rec_ok := (rec_ok psi_grad psi_yhat grad_L grad_psi lb ub l1 P x_in).
  Notation Chain := (chain psi_grad grad_psi P x_in).
  Notation Linit := (L_init psi_grad grad_psi P x_in).
  Notation FF := (F n f l1).
  Notation R2 := (dist2 n x_in xs).
  Notation xhat r := (jxh (fr_it r)).
  Notation d2 r := (dist2 n (jxh (fr_it r)) xs).
  (* the theorems of FistaLoopProofs / FistaLoopRate with the section's arguments *)
  Notation LARGS T := (T psi_grad psi_yhat grad_L grad_psi lb ub l1 stop_req time_up P x_in y_in Σ errz_in bt_fuel) (only parsing).
  Notation ARGS T := (T psi_grad psi_yhat grad_L grad_psi lb ub l1 stop_req time_up P x_in y_in Σ errz_in bt_fuel n f gradf Lf xs Hok Hf Hco HP Hxs Hx0) (only parsing).
  Notation Rate_at := (rate_at lb ub l1 x_in n f xs).
  Notation Rate0_at := (rate0_at lb ub l1 x_in n f xs).

  Lemma mu_pos : 0 < mu.
  Proof. exact (Logic.proj1 Hsc). Qed.

  (* every record's x̂ is an n-vector *)
  Lemma log_len : forall log, Chain log -> Forall Rec_ok log -> Forall (fun r => length (xhat r) = n) log.
  Proof.
    intros log Hc Hall. apply Forall_forall. intros r Hin. apply in_split in Hin. destruct Hin as (pre & post & E).
    pose proof (ARGS suffix_chain _ Hc _ _ E) as Hc'. pose proof (ARGS suffix_forall _ _ _ _ Hall E) as Hall'.
    destruct (ARGS chain_len _ Hc' Hall') as (_ & L & _). exact L.
  Qed.

  Lemma run_len fuel o : run fuel = FDone o -> Forall (fun r => length (xhat r) = n) (fo_log o).
  Proof.
    intros Hr. destruct (LARGS fista_records fuel o Hr) as (Hall & Hc & _).
    apply (ARGS forall_rev). apply log_len; [exact Hc|apply Forall_rev; exact Hall].
  Qed.

  Lemma reach_len s : Reachable s -> Forall (fun r => length (xhat r) = n) (fs_log s).
  Proof.
    intros Hr. pose proof (LARGS reachable_inv s Hr) as HI. destruct HI as [_ _ _ _ Hlog Hch _ _ _]. apply log_len; assumption.
  Qed.

  (* quadratic growth at the x̂ of a record *)
  Lemma growth_at (r : fcbrec (T:=R)) : length (xhat r) = n -> feas n lb ub (xhat r) -> mu / 2 * d2 r <= FF (xhat r) - FF xs.
  Proof. intros L Fe. exact (quadratic_growth n f gradf lb ub l1 mu xs Hok Hsc Hxs _ L Fe). Qed.

  (* ------------------------------------------------------------------ accelerated loop: O(1/k²) for the squared distance *)
  Definition iter_at (r : fcbrec (T:=R)) : Prop :=
    let γ := jgam (fr_it r) in let k := INR (fr_k r) in
    0 < γ /\ length (xhat r) = n /\ feas n lb ub (xhat r) /\
    mu / 2 * d2 r <= FF (xhat r) - FF xs /\
    d2 r <= 4 * R2 / (mu * γ * ((k + 2) * (k + 2))) /\
    d2 r <= 4 * R2 / (mu * γ * ((k + 1) * (k + 1))).

  Lemma rate_iter (r : fcbrec (T:=R)) : length (xhat r) = n -> Rate_at r -> iter_at r.
  Proof.
    intros L (Hγ & Hv & Hfe & B2 & B1). pose proof (growth_at r L Hfe) as Hg. pose proof mu_pos as Hm.
    pose proof (pos_INR (fr_k r)) as Hk.
    unfold iter_at. cbv zeta. split; [exact Hγ|]. split; [exact L|]. split; [exact Hfe|]. split; [exact Hg|]. split.
    - assert (HK : 0 < (INR (fr_k r) + 2) * (INR (fr_k r) + 2)) by nra. apply (growth_rate mu _ _ R2 _ _ Hm Hγ HK Hg B2).
    - assert (HK : 0 < (INR (fr_k r) + 1) * (INR (fr_k r) + 1)) by nra. apply (growth_rate mu _ _ R2 _ _ Hm Hγ HK Hg B1).
  Qed.

  Lemma forall_and (A : Type) (Q1 Q2 Q3 : A -> Prop) l : (forall a, Q1 a -> Q2 a -> Q3 a) -> Forall Q1 l -> Forall Q2 l -> Forall Q3 l.
  Proof. intros H H1 H2. rewrite Forall_forall in *. intros a Ha. apply H; [apply H1|apply H2]; exact Ha. Qed.

  (* THE ITERATES, accelerated: every progress-callback record of every completed run *)
  Theorem fistaloop_iterates fuel o : run fuel = FDone o -> fp_noaccel P = false -> Forall iter_at (fo_log o).
  Proof.
    intros Hr Hacc. apply (forall_and _ _ _ _ _ rate_iter (run_len fuel o Hr) (ARGS fistaloop_rate fuel o Hr Hacc)).
  Qed.

  (* ... and the records written so far at every loop head of every run, completed or not *)
  Theorem fistaloop_iterates_reachable s : Reachable s -> fp_noaccel P = false -> Forall iter_at (fs_log s).
  Proof.
    intros Hr Hacc. apply (forall_and _ _ _ _ _ rate_iter (reach_len s Hr) (ARGS fistaloop_rate_reachable s Hr Hacc)).
  Qed.

  (* fixed-step mode: γ_k = Lγ_factor / L_max, closed form *)
  Definition iter_fixed_at (r : fcbrec (T:=R)) : Prop :=
    let k := INR (fr_k r) in
    jgam (fr_it r) = fp_Lgamma P / fp_Lmax P /\
    d2 r <= 4 * fp_Lmax P * R2 / (mu * fp_Lgamma P * ((k + 2) * (k + 2))) /\
    d2 r <= 4 * fp_Lmax P * R2 / (mu * fp_Lgamma P * ((k + 1) * (k + 1))).

  Theorem fistaloop_iterates_fixed_step fuel o : run fuel = FDone o -> fp_noaccel P = false -> fixed = true ->
    Forall iter_fixed_at (fo_log o).
  Proof.
    intros Hr Hacc Hfx. pose proof (fistaloop_iterates fuel o Hr Hacc) as Hit.
    pose proof (ARGS fistaloop_rate_fixed_step fuel o Hr Hacc Hfx) as Hfix.
    destruct HP as (_ & HLg & _ & HLm). pose proof mu_pos as Hm.
    rewrite Forall_forall in *. intros r Hin. specialize (Hit r Hin). destruct (Hfix r Hin) as (Eγ & _).
    unfold iter_at, iter_fixed_at in *. cbv zeta in *. destruct Hit as (_ & _ & _ & _ & B2 & B1). rewrite Eγ in B2, B1.
    pose proof (pos_INR (fr_k r)) as Hk.
    split; [exact Eγ|]. split.
    - replace (4 * fp_Lmax P * R2 / (mu * fp_Lgamma P * ((INR (fr_k r) + 2) * (INR (fr_k r) + 2))))
        with (4 * R2 / (mu * (fp_Lgamma P / fp_Lmax P) * ((INR (fr_k r) + 2) * (INR (fr_k r) + 2)))) by (field; repeat split; nra).
      exact B2.
    - replace (4 * fp_Lmax P * R2 / (mu * fp_Lgamma P * ((INR (fr_k r) + 1) * (INR (fr_k r) + 1))))
        with (4 * R2 / (mu * (fp_Lgamma P / fp_Lmax P) * ((INR (fr_k r) + 1) * (INR (fr_k r) + 1)))) by (field; repeat split; nra).
      exact B1.
  Qed.

  (* ------------------------------------------------------------------ acceleration disabled: O(1/k) for the squared distance *)
  Definition iter0_at (r : fcbrec (T:=R)) : Prop :=
    let γ := jgam (fr_it r) in
    0 < γ /\ length (xhat r) = n /\ feas n lb ub (xhat r) /\
    mu / 2 * d2 r <= FF (xhat r) - FF xs /\
    d2 r <= R2 / (mu * γ * (INR (fr_k r) + 1)).

  Lemma rate0_iter (r : fcbrec (T:=R)) : length (xhat r) = n -> Rate0_at r -> iter0_at r.
  Proof.
    intros L (Hγ & Hv & Hfe & B). pose proof (growth_at r L Hfe) as Hg. pose proof mu_pos as Hm.
    pose proof (pos_INR (fr_k r)) as Hk.
    unfold iter0_at. cbv zeta. split; [exact Hγ|]. split; [exact L|]. split; [exact Hfe|]. split; [exact Hg|].
    assert (HK : 0 < INR (fr_k r) + 1) by lra. apply (growth_rate0 mu _ _ R2 _ _ Hm Hγ HK Hg B).
  Qed.

  Theorem fistaloop_iterates_noaccel fuel o : run fuel = FDone o -> fp_noaccel P = true -> Forall iter0_at (fo_log o).
  Proof.
    intros Hr Hna. apply (forall_and _ _ _ _ _ rate0_iter (run_len fuel o Hr) (Logic.proj1 (ARGS fistaloop_noaccel fuel o Hr Hna))).
  Qed.

  Theorem fistaloop_iterates_noaccel_reachable s : Reachable s -> fp_noaccel P = true -> Forall iter0_at (fs_log s).
  Proof.
    intros Hr Hna. pose proof (LARGS reachable_inv s Hr) as HI. destruct HI as [_ _ _ _ Hlog Hch _ _ _].
    apply (forall_and _ _ _ _ _ rate0_iter (reach_len s Hr) (Logic.proj1 (ARGS log_noaccel Hna _ Hch Hlog))).
  Qed.

  (* ------------------------------------------------------------------ step-size lower bounds at every record *)
  (* fixed-step mode, any acceleration flag *)
  Lemma gamma_fixed fuel o : run fuel = FDone o -> fixed = true -> Forall (fun r => jgam (fr_it r) = fp_Lgamma P / fp_Lmax P) (fo_log o).
  Proof.
    intros Hr Hfx. destruct (LARGS fista_records fuel o Hr) as (Hall & _ & _). destruct HP as (_ & _ & _ & HLm).
    rewrite Forall_forall in *. intros r Hin. apply (LARGS rec_ok_fixed r (Hall r Hin) Hfx). lra.
  Qed.

  (* ------------------------------------------------------------------ ITERATION COUNTS: ‖x̂_k − x*‖² <= eps from k + 1 >= N on *)
  (* accelerated, given a lower bound γmin of the step sizes looked at *)
  Theorem fistaloop_iterates_count fuel o : run fuel = FDone o -> fp_noaccel P = false ->
    forall (γmin eps : R) (N : nat), 0 < γmin -> 0 < eps -> sqrt (4 * R2 / (mu * γmin * eps)) <= INR N ->
    Forall (fun r => γmin <= jgam (fr_it r) -> (N <= fr_k r + 1)%nat -> d2 r <= eps) (fo_log o).
  Proof.
    intros Hr Hacc γmin eps N Hg He Hs. pose proof mu_pos as Hm.
    assert (Hη : 0 < mu * eps / 2) by nra.
    assert (E : 2 * R2 / (γmin * (mu * eps / 2)) = 4 * R2 / (mu * γmin * eps)) by (field; repeat split; lra).
    pose proof (ARGS fistaloop_iterations fuel o Hr Hacc γmin (mu * eps / 2) N Hg Hη ltac:(rewrite E; exact Hs)) as Hit.
    pose proof (fistaloop_iterates fuel o Hr Hacc) as Hi.
    rewrite Forall_forall in *. intros r Hin Hgg HN. specialize (Hit r Hin Hgg HN).
    destruct (Hi r Hin) as (_ & _ & _ & Hgr & _). apply Rmult_le_reg_l with (mu / 2); [lra|]. lra.
  Qed.

  (* accelerated, fixed-step mode: no hypothesis on the step sizes *)
  Theorem fistaloop_iterates_count_fixed_step fuel o : run fuel = FDone o -> fp_noaccel P = false -> fixed = true ->
    forall (eps : R) (N : nat), 0 < eps -> sqrt (4 * fp_Lmax P * R2 / (mu * fp_Lgamma P * eps)) <= INR N ->
    Forall (fun r => (N <= fr_k r + 1)%nat -> d2 r <= eps) (fo_log o).
  Proof.
    intros Hr Hacc Hfx eps N He Hs. pose proof mu_pos as Hm. destruct HP as (_ & HLg & _ & HLm).
    assert (Hg : 0 < fp_Lgamma P / fp_Lmax P) by (apply Rdiv_lt_0_compat; lra).
    assert (E : 4 * R2 / (mu * (fp_Lgamma P / fp_Lmax P) * eps) = 4 * fp_Lmax P * R2 / (mu * fp_Lgamma P * eps))
      by (field; repeat split; lra).
    pose proof (fistaloop_iterates_count fuel o Hr Hacc (fp_Lgamma P / fp_Lmax P) eps N Hg He ltac:(rewrite E; exact Hs)) as Hit.
    pose proof (gamma_fixed fuel o Hr Hfx) as Hγ.
    rewrite Forall_forall in *. intros r Hin HN. apply (Hit r Hin); [|exact HN]. rewrite (Hγ r Hin). lra.
  Qed.

  (* accelerated, EVERY Lipschitz mode: γmin = Lγ_factor / max(L_init, 2 Lf) (FistaLoopRate.fistaloop_L_bounded) *)
  Theorem fistaloop_iterates_count_apriori fuel o : run fuel = FDone o -> fp_noaccel P = false ->
    forall (eps : R) (N : nat), 0 < eps -> sqrt (4 * R2 / (mu * (fp_Lgamma P / Rmax Linit (2 * Lf)) * eps)) <= INR N ->
    Forall (fun r => (N <= fr_k r + 1)%nat -> d2 r <= eps) (fo_log o).
  Proof.
    intros Hr Hacc eps N He Hs. pose proof (ARGS fistaloop_L_bounded fuel o Hr) as HLb. unfold Lcap in HLb.
    destruct HP as (_ & HLg & _ & _). pose proof (ARGS L_init_pos) as HL0.
    assert (Hcap : 0 < Rmax Linit (2 * Lf)) by (pose proof (Rmax_l Linit (2 * Lf)); lra).
    assert (Hg : 0 < fp_Lgamma P / Rmax Linit (2 * Lf)) by (apply Rdiv_lt_0_compat; lra).
    pose proof (fistaloop_iterates_count fuel o Hr Hacc _ eps N Hg He Hs) as Hit.
    rewrite Forall_forall in *. intros r Hin HN. apply (Hit r Hin); [|exact HN]. apply (HLb r Hin).
  Qed.

  (* acceleration disabled *)
  Theorem fistaloop_iterates_count_noaccel fuel o : run fuel = FDone o -> fp_noaccel P = true ->
    forall (γmin eps : R) (N : nat), 0 < γmin -> 0 < eps -> R2 / (mu * γmin * eps) <= INR N ->
    Forall (fun r => γmin <= jgam (fr_it r) -> (N <= fr_k r + 1)%nat -> d2 r <= eps) (fo_log o).
  Proof.
    intros Hr Hna γmin eps N Hg He Hs. pose proof mu_pos as Hm.
    pose proof (fistaloop_iterates_noaccel fuel o Hr Hna) as Hi.
    rewrite Forall_forall in *. intros r Hin Hgg HN. destruct (Hi r Hin) as (_ & _ & _ & _ & B).
    apply (count0 mu _ R2 (jgam (fr_it r)) γmin eps (INR (fr_k r)) N); try assumption.
    - apply dist2_nonneg.
    - apply pos_INR.
    - apply le_INR in HN. rewrite plus_INR in HN. cbn [INR] in HN. exact HN.
  Qed.

  Theorem fistaloop_iterates_count_noaccel_fixed_step fuel o : run fuel = FDone o -> fp_noaccel P = true -> fixed = true ->
    forall (eps : R) (N : nat), 0 < eps -> fp_Lmax P * R2 / (mu * fp_Lgamma P * eps) <= INR N ->
    Forall (fun r => (N <= fr_k r + 1)%nat -> d2 r <= eps) (fo_log o).
  Proof.
    intros Hr Hna Hfx eps N He Hs. pose proof mu_pos as Hm. destruct HP as (_ & HLg & _ & HLm).
    assert (Hg : 0 < fp_Lgamma P / fp_Lmax P) by (apply Rdiv_lt_0_compat; lra).
    assert (E : R2 / (mu * (fp_Lgamma P / fp_Lmax P) * eps) = fp_Lmax P * R2 / (mu * fp_Lgamma P * eps))
      by (field; repeat split; lra).
    pose proof (fistaloop_iterates_count_noaccel fuel o Hr Hna (fp_Lgamma P / fp_Lmax P) eps N Hg He ltac:(rewrite E; exact Hs)) as Hit.
    pose proof (gamma_fixed fuel o Hr Hfx) as Hγ.
    rewrite Forall_forall in *. intros r Hin HN. apply (Hit r Hin); [|exact HN]. rewrite (Hγ r Hin). lra.
  Qed.

  Theorem fistaloop_iterates_count_noaccel_apriori fuel o : run fuel = FDone o -> fp_noaccel P = true ->
    forall (eps : R) (N : nat), 0 < eps -> R2 / (mu * (fp_Lgamma P / Rmax Linit (2 * Lf)) * eps) <= INR N ->
    Forall (fun r => (N <= fr_k r + 1)%nat -> d2 r <= eps) (fo_log o).
  Proof.
    intros Hr Hna eps N He Hs. pose proof (ARGS fistaloop_L_bounded fuel o Hr) as HLb. unfold Lcap in HLb.
    destruct HP as (_ & HLg & _ & _). pose proof (ARGS L_init_pos) as HL0.
    assert (Hcap : 0 < Rmax Linit (2 * Lf)) by (pose proof (Rmax_l Linit (2 * Lf)); lra).
    assert (Hg : 0 < fp_Lgamma P / Rmax Linit (2 * Lf)) by (apply Rdiv_lt_0_compat; lra).
    pose proof (fistaloop_iterates_count_noaccel fuel o Hr Hna _ eps N Hg He Hs) as Hit.
    rewrite Forall_forall in *. intros r Hin HN. apply (Hit r Hin); [|exact HN]. apply (HLb r Hin).
  Qed.

  (* ... the same at every loop head of every run, completed or not (runs that are still going or ran out of fuel) *)
  Lemma reach_gamma_lower s : Reachable s -> Forall (fun r => fp_Lgamma P / Rmax Linit (2 * Lf) <= jgam (fr_it r)) (fs_log s).
  Proof.
    intros Hr. destruct (ARGS reachable_Lb s Hr) as [_ HL]. unfold Lcap in HL.
    pose proof (LARGS reachable_inv s Hr) as HI. destruct HI as [_ _ _ _ Hlog _ _ _ _].
    destruct HP as (_ & HLg & _ & _). pose proof (ARGS L_init_pos) as HL0.
    assert (Hcap : 0 < Rmax Linit (2 * Lf)) by (pose proof (Rmax_l Linit (2 * Lf)); lra).
    rewrite Forall_forall in *. intros r Hin. specialize (HL r Hin). destruct (Hlog r Hin) as (_ & _ & Hgl & _).
    pose proof (LARGS glrel0_pos _ ltac:(lra) HL0 Hgl) as Hγ.
    pose proof (LARGS glrel0_product_factor _ ltac:(lra) Hgl) as Hprod.
    apply Rmult_le_reg_r with (Rmax Linit (2 * Lf)); [exact Hcap|]. unfold Rdiv. rewrite Rmult_assoc, Rinv_l by lra.
    rewrite Rmult_1_r, <- Hprod. apply Rmult_le_compat_l; lra.
  Qed.

  Theorem fistaloop_iterates_count_reachable s : Reachable s -> fp_noaccel P = false ->
    forall (eps : R) (N : nat), 0 < eps -> sqrt (4 * R2 / (mu * (fp_Lgamma P / Rmax Linit (2 * Lf)) * eps)) <= INR N ->
    Forall (fun r => (N <= fr_k r + 1)%nat -> d2 r <= eps) (fs_log s).
  Proof.
    intros Hr Hacc eps N He Hs. pose proof mu_pos as Hm.
    destruct HP as (_ & HLg & _ & _). pose proof (ARGS L_init_pos) as HL0.
    assert (Hcap : 0 < Rmax Linit (2 * Lf)) by (pose proof (Rmax_l Linit (2 * Lf)); lra).
    set (γmin := fp_Lgamma P / Rmax Linit (2 * Lf)) in *.
    assert (Hg : 0 < γmin) by (apply Rdiv_lt_0_compat; lra).
    assert (Hη : 0 < mu * eps / 2) by nra.
    assert (E : 2 * R2 / (γmin * (mu * eps / 2)) = 4 * R2 / (mu * γmin * eps)) by (field; repeat split; lra).
    pose proof (fistaloop_iterates_reachable s Hr Hacc) as Hi. pose proof (ARGS fistaloop_rate_reachable s Hr Hacc) as Hrate.
    pose proof (reach_gamma_lower s Hr) as Hγl. fold γmin in Hγl.
    rewrite Forall_forall in *. intros r Hin HN.
    destruct (Hrate r Hin) as (Hγ & Hv & _ & _ & B1). destruct (Hi r Hin) as (_ & _ & _ & Hgr & _).
    assert (Hgap : FF (xhat r) - FF xs <= mu * eps / 2).
    { apply (ARGS gap_from_count (jgam (fr_it r)) γmin (mu * eps / 2) _ R2 (INR (fr_k r)) N); try assumption.
      - apply dist2_nonneg.
      - apply (Hγl r Hin).
      - apply pos_INR.
      - rewrite E. exact Hs.
      - apply le_INR in HN. rewrite plus_INR in HN. cbn [INR] in HN. exact HN. }
    apply Rmult_le_reg_l with (mu / 2); [lra|]. lra.
  Qed.

  Theorem fistaloop_iterates_count_noaccel_reachable s : Reachable s -> fp_noaccel P = true ->
    forall (eps : R) (N : nat), 0 < eps -> R2 / (mu * (fp_Lgamma P / Rmax Linit (2 * Lf)) * eps) <= INR N ->
    Forall (fun r => (N <= fr_k r + 1)%nat -> d2 r <= eps) (fs_log s).
  Proof.
    intros Hr Hna eps N He Hs. pose proof mu_pos as Hm.
    destruct HP as (_ & HLg & _ & _). pose proof (ARGS L_init_pos) as HL0.
    assert (Hcap : 0 < Rmax Linit (2 * Lf)) by (pose proof (Rmax_l Linit (2 * Lf)); lra).
    assert (Hg : 0 < fp_Lgamma P / Rmax Linit (2 * Lf)) by (apply Rdiv_lt_0_compat; lra).
    pose proof (fistaloop_iterates_noaccel_reachable s Hr Hna) as Hi. pose proof (reach_gamma_lower s Hr) as Hγl.
    rewrite Forall_forall in *. intros r Hin HN. destruct (Hi r Hin) as (_ & _ & _ & _ & B).
    apply (count0 mu _ R2 (jgam (fr_it r)) (fp_Lgamma P / Rmax Linit (2 * Lf)) eps (INR (fr_k r)) N); try assumption.
    - apply (Hγl r Hin).
    - apply dist2_nonneg.
    - apply pos_INR.
    - apply le_INR in HN. rewrite plus_INR in HN. cbn [INR] in HN. exact HN.
  Qed.

  (* ------------------------------------------------------------------ CONVERGENCE OF THE ITERATES with K(eps) computed.
     For every eps > 0: every record with k + 1 >= K(eps) of every completed run — whatever max_iter, the stop criterion, the fuels —
     has ‖x̂_k − x*‖² <= eps.  K depends only on mu, Lγ_factor, L_max or max(L_init, 2 Lf), ‖x0 − x*‖² and eps. *)
  Theorem fistaloop_iterates_converge fuel o : run fuel = FDone o -> fp_noaccel P = false ->
    forall eps, 0 < eps ->
    Forall (fun r => (fista_K mu (fp_Lgamma P / Rmax Linit (2 * Lf)) R2 eps <= fr_k r + 1)%nat -> d2 r <= eps) (fo_log o).
  Proof.
    intros Hr Hacc eps He. apply (fistaloop_iterates_count_apriori fuel o Hr Hacc eps _ He). apply ceil_nat_ge.
  Qed.

  Theorem fistaloop_iterates_converge_fixed_step fuel o : run fuel = FDone o -> fp_noaccel P = false -> fixed = true ->
    forall eps, 0 < eps ->
    Forall (fun r => (fista_K mu (fp_Lgamma P / fp_Lmax P) R2 eps <= fr_k r + 1)%nat -> d2 r <= eps) (fo_log o).
  Proof.
    intros Hr Hacc Hfx eps He. pose proof mu_pos as Hm. destruct HP as (_ & HLg & _ & HLm).
    apply (fistaloop_iterates_count_fixed_step fuel o Hr Hacc Hfx eps _ He).
    replace (4 * fp_Lmax P * R2 / (mu * fp_Lgamma P * eps)) with (4 * R2 / (mu * (fp_Lgamma P / fp_Lmax P) * eps))
      by (field; repeat split; lra).
    apply ceil_nat_ge.
  Qed.

  Theorem fistaloop_iterates_converge_noaccel fuel o : run fuel = FDone o -> fp_noaccel P = true ->
    forall eps, 0 < eps ->
    Forall (fun r => (fista_K0 mu (fp_Lgamma P / Rmax Linit (2 * Lf)) R2 eps <= fr_k r + 1)%nat -> d2 r <= eps) (fo_log o).
  Proof.
    intros Hr Hna eps He. apply (fistaloop_iterates_count_noaccel_apriori fuel o Hr Hna eps _ He). apply ceil_nat_ge.
  Qed.

  Theorem fistaloop_iterates_converge_noaccel_fixed_step fuel o : run fuel = FDone o -> fp_noaccel P = true -> fixed = true ->
    forall eps, 0 < eps ->
    Forall (fun r => (fista_K0 mu (fp_Lgamma P / fp_Lmax P) R2 eps <= fr_k r + 1)%nat -> d2 r <= eps) (fo_log o).
  Proof.
    intros Hr Hna Hfx eps He. pose proof mu_pos as Hm. destruct HP as (_ & HLg & _ & HLm).
    apply (fistaloop_iterates_count_noaccel_fixed_step fuel o Hr Hna Hfx eps _ He).
    replace (fp_Lmax P * R2 / (mu * fp_Lgamma P * eps)) with (R2 / (mu * (fp_Lgamma P / fp_Lmax P) * eps))
      by (field; repeat split; lra).
    apply ceil_nat_ge.
  Qed.
  (* ... and at every loop head of every run, completed or not *)
  Theorem fistaloop_iterates_converge_reachable s : Reachable s -> fp_noaccel P = false ->
    forall eps, 0 < eps ->
    Forall (fun r => (fista_K mu (fp_Lgamma P / Rmax Linit (2 * Lf)) R2 eps <= fr_k r + 1)%nat -> d2 r <= eps) (fs_log s).
  Proof.
    intros Hr Hacc eps He. apply (fistaloop_iterates_count_reachable s Hr Hacc eps _ He). apply ceil_nat_ge.
  Qed.

  Theorem fistaloop_iterates_converge_noaccel_reachable s : Reachable s -> fp_noaccel P = true ->
    forall eps, 0 < eps ->
    Forall (fun r => (fista_K0 mu (fp_Lgamma P / Rmax Linit (2 * Lf)) R2 eps <= fr_k r + 1)%nat -> d2 r <= eps) (fs_log s).
  Proof.
    intros Hr Hna eps He. apply (fistaloop_iterates_count_noaccel_reachable s Hr Hna eps _ He). apply ceil_nat_ge.
  Qed.
End ConvLoop.

(* ------------------------------------------------------------------ non-vacuity: the two instances of FistaLoopRate.v are strongly convex, mu = 1 *)
(* (1) f = ½‖x‖² on R² (box [-1,1] x R, l1 weight ½, fixed step) *)
Lemma ex_strongly_convex : strongly_convex 2 ex_f (fun x => x) 1.
Proof.
  unfold strongly_convex, ex_f, dist2. split; [lra|]. intros x y _ _. cbn [Ssum].
  set (a := nth 0 x 0); set (b := nth 1 x 0); set (c := nth 0 y 0); set (d := nth 1 y 0). clearbody a b c d. nra.
Qed.

(* (2) ψ(x) = ½x² + ½ max(x − 1, 0)² on R (m = 1, backtracking): ½x² is 1-strongly convex, the penalty term is convex *)
Lemma em_strongly_convex : strongly_convex 1 em_f em_g 1.
Proof.
  unfold strongly_convex, em_f, em_g, dist2. split; [lra|]. intros x y _ _. cbn [Ssum nth].
  set (a := nth 0 x 0); set (b := nth 0 y 0); clearbody a b.
  unfold Rmax; destruct (Rle_dec (a - 1) 0) as [Ha|Ha], (Rle_dec (b - 1) 0) as [Hb|Hb].
  - nra.
  - assert (0 <= (1 - a) * (b - 1)) by (apply Rmult_le_pos; lra). nra.
  - pose proof (Rle_0_sqr (a - 1)) as S; unfold Rsqr in S. nra.
  - pose proof (Rle_0_sqr (a - b)) as S; unfold Rsqr in S. nra.
Qed.

Lemma exl_conv_nonvacuous mi :
  prob_ok 2 ex_lb ex_ub [/ 2] /\ smooth_convex 2 ex_f (fun x => x) 1 /\ coherent 2 ex_f (fun x => x) exl_pg exl_py exl_gp /\
  fparams_ok (exl_P mi) 1 /\ minimiser 2 ex_f ex_lb ex_ub [/ 2] [0; 0] /\ length [3; -2] = 2%nat /\
  strongly_convex 2 ex_f (fun x => x) 1 /\
  fp_noaccel (exl_P mi) = false /\ ffixed (exl_P mi) = true /\
  exists o, exl_run mi = FDone o /\ fo_log o <> [].
Proof.
  destruct (exl_nonvacuous mi) as (A & B & C & D & E & G & H & I & J).
  exact (conj A (conj B (conj C (conj D (conj E (conj G (conj ex_strongly_convex (conj H (conj I J))))))))).
Qed.

Lemma em_conv_nonvacuous mi :
  prob_ok 1 [None] [None] [] /\ smooth_convex 1 em_f em_g 2 /\ coherent 1 em_f em_g em_pg em_py em_gp /\
  fparams_ok (em_P mi) 2 /\ minimiser 1 em_f [None] [None] [] [0] /\ length [3] = 1%nat /\
  strongly_convex 1 em_f em_g 1 /\
  fp_noaccel (em_P mi) = false /\ ffixed (em_P mi) = false /\
  exists o, em_run mi = FDone o /\ fo_log o <> [].
Proof.
  destruct (em_nonvacuous mi) as (A & B & C & D & E & G & H & I & J).
  exact (conj A (conj B (conj C (conj D (conj E (conj G (conj em_strongly_convex (conj H (conj I J))))))))).
Qed.

(* the conclusion instantiated on instance (1): every record of every run of exl_run is within 4·13/(k+1)² of x* = (0,0) in squared
   distance (mu = 1, Lγ = L_max = 1, ‖x0 − x*‖² = 9 + 4), and the log is not empty *)
Lemma exl_iterates mi : exists o, exl_run mi = FDone o /\ fo_log o <> [] /\
  Forall (fun r => dist2 2 (jxh (fr_it r)) [0; 0] <= 4 * 1 * 13 / (1 * 1 * ((INR (fr_k r) + 1) * (INR (fr_k r) + 1)))) (fo_log o).
Proof.
  destruct (exl_completes mi) as (o & Ho & Hne). exists o. split; [exact Ho|]. split; [exact Hne|].
  pose proof (fistaloop_iterates_fixed_step exl_pg exl_py exl_gl exl_gp ex_lb ex_ub [/ 2] (fun _ => false) (fun _ => false) (exl_P mi)
                [3; -2] [] [] [] 1%nat 2%nat ex_f (fun x => x) 1 [0; 0] 1 ex_prob_ok ex_smooth_convex exl_coherent (exl_params_ok mi)
                ex_minimiser eq_refl ex_strongly_convex (S mi) o Ho eq_refl (exl_fixed mi)) as H.
  assert (E : dist2 2 [3; -2] [0; 0] = 13) by (unfold dist2; cbn [Ssum nth]; lra).
  rewrite Forall_forall in *. intros r Hin. destruct (H r Hin) as (_ & _ & B). cbv zeta in B.
  rewrite E in B. exact B.
Qed.
