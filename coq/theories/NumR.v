(* NumR.v — the real-number instance of Num and the tactic that reduces
   boolean comparisons to propositions so that lra/nra can finish. *)
From Coq Require Import Reals ZArith Lra Bool.
From Flocq Require Import Raux.
From Alpaqa Require Import Num.
Local Open Scope R_scope.

#[export] Instance NumR : Num R := {|
  n0 := 0; n1 := 1;
  nadd := Rplus; nsub := Rminus; nmul := Rmult; ndiv := Rdiv;
  nopp := Ropp; nabs := Rabs; nsqrt := sqrt;
  nleb := Rle_bool; nltb := Rlt_bool; neqb := Req_bool;
  nofZ := IZR;
  nfinite := fun _ => true;
  nisnan := fun _ => false
|}.

Lemma Rle_bool_iff x y : Rle_bool x y = true <-> x <= y.
Proof. destruct (Rle_bool_spec x y); split; intros; try lra; congruence. Qed.
Lemma Rlt_bool_iff x y : Rlt_bool x y = true <-> x < y.
Proof. destruct (Rlt_bool_spec x y); split; intros; try lra; congruence. Qed.
Lemma Rle_bool_false_iff x y : Rle_bool x y = false <-> y < x.
Proof. destruct (Rle_bool_spec x y); split; intros; try lra; congruence. Qed.
Lemma Rlt_bool_false_iff x y : Rlt_bool x y = false <-> y <= x.
Proof. destruct (Rlt_bool_spec x y); split; intros; try lra; congruence. Qed.
Lemma Req_bool_iff x y : Req_bool x y = true <-> x = y.
Proof. destruct (Req_bool_spec x y); split; intros; try lra; congruence. Qed.

(* unfold the class projections at instance NumR *)
Ltac numR :=
  cbv [n2 nhalf cmax cmin nfmax nfmin clamp_lo clamp_hi nsq] in *;
  cbn [n0 n1 nadd nsub nmul ndiv nopp nabs nsqrt nleb nltb neqb nofZ nfinite nisnan NumR] in *.

(* case-split every boolean real comparison in goal/hyps *)
Ltac rbool :=
  repeat match goal with
  | |- context [Rle_bool ?a ?b] => destruct (Rle_bool_spec a b)
  | |- context [Rlt_bool ?a ?b] => destruct (Rlt_bool_spec a b)
  | |- context [Req_bool ?a ?b] => destruct (Req_bool_spec a b)
  | H : context [Rle_bool ?a ?b] |- _ => destruct (Rle_bool_spec a b)
  | H : context [Rlt_bool ?a ?b] |- _ => destruct (Rlt_bool_spec a b)
  | H : context [Req_bool ?a ?b] |- _ => destruct (Req_bool_spec a b)
  end.

Lemma cmax_R a b : cmax (T:=R) a b = Rmax a b.
Proof. numR. unfold Rmax. rbool; destruct (Rle_dec a b); lra. Qed.
Lemma cmin_R a b : cmin (T:=R) a b = Rmin a b.
Proof. numR. unfold Rmin. rbool; destruct (Rle_dec a b); lra. Qed.
