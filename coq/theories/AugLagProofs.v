(* AugLagProofs.v — theorems about AugLag.v at the real instance (C04). *)
From Coq Require Import Reals List ZArith Lra Lia Bool Psatz.
From Flocq Require Import Raux.
From Alpaqa Require Import Num NumR Vec Prox ProxProofs AugLag.
Import ListNotations.
Local Open Scope R_scope.

(* ---------- writer monad ---------- *)
Lemma fst_bind {A B} (m : M A) (k : A -> M B) : fst (bind m k) = fst (k (fst m)).
Proof. reflexivity. Qed.
Lemma snd_bind {A B} (m : M A) (k : A -> M B) : snd (bind m k) = snd m ++ snd (k (fst m)).
Proof. reflexivity. Qed.

(* ---------- list plumbing ---------- *)
Lemma map2_length_le_r {A B C} (f : A -> B -> C) a b : (length (map2 f a b) <= length b)%nat.
Proof. revert b; induction a as [|x a IH]; intros [|y b]; simpl; try lia. specialize (IH b); lia. Qed.
Lemma map3_length_le_3 {A B C D} (f : A -> B -> C -> D) a b c : (length (map3 f a b c) <= length c)%nat.
Proof.
  revert b c; induction a as [|x a IH]; intros [|y b] [|z c]; simpl; try lia. specialize (IH b c); lia.
Qed.

Lemma map3_nil_2 {A B C D} (f : A -> B -> C -> D) a c : map3 f a [] c = [].
Proof. destruct a; reflexivity. Qed.
Lemma map4_nil_4 {A B C D E} (f : A -> B -> C -> D -> E) a b c : map4 f a b c [] = [].
Proof. destruct a, b, c; reflexivity. Qed.

(* a constant list of sufficient length acts like a fixed argument *)
Lemma map2_repeat_r {A B C} (f : A -> B -> C) (s : B) a k :
  (length a <= k)%nat -> map2 f a (repeat s k) = map (fun x => f x s) a.
Proof.
  revert k; induction a as [|x a IH]; intros [|k] Hk; simpl in *; try reflexivity; try lia.
  f_equal. apply IH. lia.
Qed.
Lemma map3_repeat_3 {A B C D} (f : A -> B -> C -> D) (s : C) a b k :
  (length b <= k)%nat -> map3 f a b (repeat s k) = map2 (fun x y => f x y s) a b.
Proof.
  revert b k; induction a as [|x a IH]; intros [|y b] [|k] Hk; simpl in *; try reflexivity; try lia.
  f_equal. apply IH. lia.
Qed.
Lemma map4_repeat_3 {A B C D E} (f : A -> B -> C -> D -> E) (s : C) a b d k :
  (length d <= k)%nat -> map4 f a b (repeat s k) d = map3 (fun x y z => f x y s z) a b d.
Proof.
  revert b d k; induction a as [|x a IH]; intros [|y b] [|z d] [|k] Hk; simpl in *; try reflexivity; try lia.
  f_equal. apply IH. lia.
Qed.

(* map2 after map3 / map4 fusion *)
Lemma map2_map3_fuse {A B C D E F} (h : D -> E -> F) (f : A -> B -> C -> D) a b c e :
  map2 h (map3 f a b c) e = map4 (fun x y s z => h (f x y z) s) a b e c.
Proof.
  revert b c e; induction a as [|x a IH]; intros [|y b] [|z c] [|s e]; simpl; try reflexivity.
  f_equal. apply IH.
Qed.
Lemma map_map3_fuse {A B C D E} (h : D -> E) (f : A -> B -> C -> D) a b c :
  map h (map3 f a b c) = map3 (fun x y z => h (f x y z)) a b c.
Proof.
  revert b c; induction a as [|x a IH]; intros [|y b] [|z c]; simpl; try reflexivity. f_equal. apply IH.
Qed.
Lemma map2_self {A B} (h : A -> A -> B) a : map2 h a a = map (fun x => h x x) a.
Proof. induction a; simpl; congruence. Qed.
Lemma map4_ext {A B C D E} (f g : A -> B -> C -> D -> E) a b c d :
  (forall x y z w, f x y z w = g x y z w) -> map4 f a b c d = map4 g a b c d.
Proof.
  intros Hfg. revert b c d; induction a as [|x a IH]; intros [|y b] [|z c] [|w d]; simpl; try reflexivity.
  rewrite Hfg. f_equal. apply IH.
Qed.
Lemma map3_ext {A B C D} (f g : A -> B -> C -> D) a b c :
  (forall x y z, f x y z = g x y z) -> map3 f a b c = map3 g a b c.
Proof.
  intros Hfg. revert b c; induction a as [|x a IH]; intros [|y b] [|z c]; simpl; try reflexivity.
  rewrite Hfg. f_equal. apply IH.
Qed.
Lemma map2_map_r {A B C D} (h : A -> C -> D) (f : B -> C) a b :
  map2 h a (map f b) = map2 (fun x y => h x (f y)) a b.
Proof. revert b; induction a as [|x a IH]; intros [|y b]; simpl; try reflexivity. f_equal. apply IH. Qed.
Lemma map2_map2_r {A B C D E} (h : A -> D -> E) (f : B -> C -> D) a b c :
  map2 h a (map2 f b c) = map3 (fun x y z => h x (f y z)) a b c.
Proof.
  revert b c; induction a as [|x a IH]; intros [|y b] [|z c]; simpl; try reflexivity. f_equal. apply IH.
Qed.

(* sums *)
Lemma fold_left_Rplus_sumr (l : list R) a : fold_left Rplus l a = a + sumr l.
Proof.
  revert a; induction l as [|x l IH]; intros a; simpl.
  - numR. lra.
  - rewrite IH. numR. lra.
Qed.
Lemma vsum_sumr (l : list R) : vsum l = sumr l.
Proof.
  destruct l as [|x l]; [reflexivity|]. unfold vsum, redux. rewrite fold_left_Rplus_sumr. reflexivity.
Qed.
Lemma sumr_scale (s : R) (l : list R) : s * sumr l = sumr (map (fun x => s * x) l).
Proof. induction l as [|x l IH]; simpl; numR; [lra|]. numR. rewrite <- IH. lra. Qed.

(* ================= calc_ŷ_dᵀŷ = closed form ================= *)
Section Calc.
  Variable P : problem (T:=R).

  Lemma calc_vector_spec g y Σ :
    fst (calc_yhat_vector P g y Σ) =
      (dist2_of (plb P) (pub P) Σ (zeta_of g y Σ), yhat_of (plb P) (pub P) Σ (zeta_of g y Σ)).
  Proof.
    unfold calc_yhat_vector. rewrite fst_bind. cbn [fst ret v_proj_diff_g call].
    assert (Hz : vadd g (vdiv y Σ) = zeta_of g y Σ).
    { unfold vadd, vdiv, zeta_of. apply map2_map2_r. }
    rewrite Hz. unfold projdiff, dist2_of, yhat_of. f_equal.
    - rewrite fold_left_Rplus_sumr. rewrite map2_map3_fuse. numR. rewrite Rplus_0_l.
      f_equal. apply map4_ext. intros. numR. ring.
    - rewrite map2_map3_fuse. reflexivity.
  Qed.

  Lemma calc_scalar_spec σ g y :
    fst (calc_yhat_scalar P σ g y) =
      (dist2_of (plb P) (pub P) (repeat σ (length y)) (zeta_of g y (repeat σ (length y))),
       yhat_of (plb P) (pub P) (repeat σ (length y)) (zeta_of g y (repeat σ (length y)))).
  Proof.
    unfold calc_yhat_scalar. rewrite fst_bind. cbn [fst ret v_proj_diff_g call].
    assert (Hz : vadd g (vscale (n1 / σ)%num y) = zeta_of g y (repeat σ (length y))).
    { unfold vadd, vscale, zeta_of. rewrite map3_repeat_3 by lia. rewrite map2_map_r.
      clear. revert y; induction g as [|a g IH]; intros [|b y]; simpl; try reflexivity.
      rewrite IH. f_equal. numR. unfold Rdiv. ring. }
    rewrite Hz. set (ζ := zeta_of g y (repeat σ (length y))).
    assert (Hlen : (length ζ <= length y)%nat).
    { unfold ζ, zeta_of. etransitivity; [apply map3_length_le_3|]. rewrite repeat_length. lia. }
    unfold projdiff, dist2_of, yhat_of. rewrite !map4_repeat_3 by exact Hlen. f_equal.
    - unfold vdot, vmul. rewrite vsum_sumr, map2_self, map_map3_fuse.
      change (@nmul R NumR) with Rmult. rewrite sumr_scale, map_map3_fuse. reflexivity.
    - rewrite map_map3_fuse. apply map3_ext. intros. numR. ring.
  Qed.

  (* both Σ paths: the value is the closed form with the single factor expanded to a constant vector *)
  Lemma calc_yhat_spec g y Σ :
    fst (calc_yhat P g y Σ) =
      (dist2_of (plb P) (pub P) (expand_sigma Σ (length y)) (zeta_of g y (expand_sigma Σ (length y))),
       yhat_of (plb P) (pub P) (expand_sigma Σ (length y)) (zeta_of g y (expand_sigma Σ (length y)))).
  Proof.
    unfold calc_yhat, expand_sigma. destruct Σ as [|σ [|σ' Σ']].
    - apply calc_vector_spec.
    - apply calc_scalar_spec.
    - apply calc_vector_spec.
  Qed.

  (* scalar_sigma_path_agrees: the size-1 path computes what the vector path computes on the constant vector *)
  Lemma scalar_path_agrees σ g y :
    fst (calc_yhat_scalar P σ g y) = fst (calc_yhat_vector P g y (repeat σ (length y))).
  Proof. rewrite calc_scalar_spec, calc_vector_spec. reflexivity. Qed.
End Calc.

(* ================= every vtable entry = closed form, for EVERY provider mask ================= *)
(* provider obligation: a member the problem supplies returns its closed form *)
Definition provider_ok (P : problem (T:=R)) (prov : fn -> bool) : Prop :=
  (prov Ff_grad_f = true -> forall x, uf_grad_f P x = (pf P x, pgrad_f P x)) /\
  (prov Ff_g = true -> forall x, uf_g P x = (pf P x, pg P x)) /\
  (prov Fgrad_f_grad_g_prod = true -> forall x y, ugrad_f_grad_g_prod P x y = (pgrad_f P x, pgrad_g_prod P x y)) /\
  (prov Fgrad_L = true -> forall x y, ugrad_L P x y = grad_L_def P x y) /\
  (prov Fpsi = true -> forall x y Σ, upsi P x y Σ = (psi_def P x y Σ, yhat_def P x y Σ)) /\
  (prov Fgrad_psi = true -> forall x y Σ, ugrad_psi P x y Σ = grad_psi_def P x y Σ) /\
  (prov Fpsi_grad_psi = true -> forall x y Σ, upsi_grad_psi P x y Σ = (psi_def P x y Σ, grad_psi_def P x y Σ)).
(* ∇g(x)·y of the empty multiplier vector is the zero n-vector (what eval_grad_g_prod writes when m = 0) *)
Definition grad_g_prod_empty_ok (P : problem (T:=R)) : Prop :=
  forall x, vadd (pgrad_f P x) (pgrad_g_prod P x []) = pgrad_f P x.

Section Defaults.
  Variable P : problem (T:=R).
  Variable prov : fn -> bool.
  Hypothesis Hprov : provider_ok P prov.
  Hypothesis Hempty : grad_g_prod_empty_ok P.

  Ltac pick := destruct Hprov as (H1 & H2 & H3 & H4 & H5 & H6 & H7).

  Lemma te_f_grad_f_val x : fst (te_f_grad_f P prov x) = (pf P x, pgrad_f P x).
  Proof. pick. unfold te_f_grad_f. destruct (prov Ff_grad_f); [cbn; now rewrite H1|reflexivity]. Qed.
  Lemma te_f_g_val x : fst (te_f_g P prov x) = (pf P x, pg P x).
  Proof. pick. unfold te_f_g. destruct (prov Ff_g); [cbn; now rewrite H2|reflexivity]. Qed.
  Lemma te_grad_f_grad_g_prod_val x y :
    fst (te_grad_f_grad_g_prod P prov x y) = (pgrad_f P x, pgrad_g_prod P x y).
  Proof. pick. unfold te_grad_f_grad_g_prod. destruct (prov Fgrad_f_grad_g_prod); [cbn; now rewrite H3|reflexivity]. Qed.

  Lemma te_grad_L_val x y : fst (te_grad_L P prov x y) = grad_L_def P x y.
  Proof.
    pose proof te_grad_f_grad_g_prod_val as Hg. pick. unfold te_grad_L.
    destruct (prov Fgrad_L); [cbn; now rewrite H4|].
    destruct y as [|y0 y].
    - cbn [fst v_grad_f call]. unfold grad_L_def. now rewrite Hempty.
    - rewrite fst_bind. cbn [fst ret]. rewrite Hg. reflexivity.
  Qed.

  Lemma psi_def_empty x Σ : psi_def P x [] Σ = pf P x.
  Proof.
    unfold psi_def, zeta_def, zeta_of, dist2_of. rewrite map3_nil_2, map4_nil_4. cbn [sumr].
    unfold half. numR. lra.
  Qed.
  Lemma yhat_def_empty x Σ : yhat_def P x [] Σ = [].
  Proof. unfold yhat_def, zeta_def, zeta_of, yhat_of. now rewrite map3_nil_2, map4_nil_4. Qed.
  Lemma grad_psi_def_empty x Σ : grad_psi_def P x [] Σ = pgrad_f P x.
  Proof. unfold grad_psi_def. rewrite yhat_def_empty. apply Hempty. Qed.

  (* ψ and ŷ *)
  Lemma te_psi_val x y Σ : fst (te_psi P prov x y Σ) = (psi_def P x y Σ, yhat_def P x y Σ).
  Proof.
    pose proof te_f_g_val as Hfg. pick. unfold te_psi.
    destruct (prov Fpsi); [cbn; now rewrite H5|].
    destruct y as [|y0 y].
    - rewrite fst_bind. cbn [fst ret v_f call]. now rewrite psi_def_empty, yhat_def_empty.
    - rewrite !fst_bind. cbn [fst snd ret]. rewrite Hfg. cbn [fst snd]. rewrite calc_yhat_spec.
      reflexivity.
  Qed.

  (* ∇ψ *)
  Lemma te_grad_psi_val x y Σ : fst (te_grad_psi P prov x y Σ) = grad_psi_def P x y Σ.
  Proof.
    pose proof te_grad_L_val as HL. pick. unfold te_grad_psi.
    destruct (prov Fgrad_psi); [cbn; now rewrite H6|].
    destruct y as [|y0 y].
    - cbn [fst v_grad_f call]. now rewrite grad_psi_def_empty.
    - rewrite !fst_bind. rewrite HL. cbn [fst v_g call]. rewrite calc_yhat_spec. reflexivity.
  Qed.

  (* ψ and ∇ψ together *)
  Lemma te_psi_grad_psi_val x y Σ :
    fst (te_psi_grad_psi P prov x y Σ) = (psi_def P x y Σ, grad_psi_def P x y Σ).
  Proof.
    pose proof te_grad_L_val as HL. pose proof te_f_g_val as Hfg. pose proof te_f_grad_f_val as Hff.
    pick. unfold te_psi_grad_psi.
    destruct (prov Fpsi_grad_psi); [cbn; now rewrite H7|].
    destruct y as [|y0 y].
    - rewrite Hff. now rewrite psi_def_empty, grad_psi_def_empty.
    - rewrite !fst_bind. cbn [fst snd ret]. rewrite HL, Hfg. cbn [fst snd]. rewrite calc_yhat_spec.
      reflexivity.
  Qed.

  (* the two ways of obtaining ψ (and ∇ψ) agree, whatever the mask *)
  Lemma psi_consistent x y Σ :
    fst (fst (te_psi P prov x y Σ)) = fst (fst (te_psi_grad_psi P prov x y Σ)) /\
    fst (te_grad_psi P prov x y Σ) = snd (fst (te_psi_grad_psi P prov x y Σ)).
  Proof. now rewrite te_psi_val, te_grad_psi_val, te_psi_grad_psi_val. Qed.

  (* ---- the call log only contains members the problem supplies ---- *)
  Definition log_ok (l : list fn) : Prop := forall c, In c l -> fn_optional c = true -> prov c = true.
  Lemma log_ok_app l1 l2 : log_ok l1 -> log_ok l2 -> log_ok (l1 ++ l2).
  Proof. intros A B c Hc. apply in_app_or in Hc. destruct Hc; auto. Qed.
  Lemma log_ok_req c : fn_optional c = false -> log_ok [c].
  Proof. intros Hc c' [<-|[]] Ho. congruence. Qed.
  Lemma log_ok_prov c : prov c = true -> log_ok [c].
  Proof. intros Hc c' [<-|[]] _. exact Hc. Qed.
  Lemma log_ok_nil : log_ok [].
  Proof. intros c []. Qed.
  Lemma log_ok_cons c l : fn_optional c = false \/ prov c = true -> log_ok l -> log_ok (c :: l).
  Proof. intros Hc Hl c' [<-|Hin] Ho; [destruct Hc; congruence|auto]. Qed.

  Ltac logok := repeat (rewrite ?snd_bind; cbn [snd ret call app v_f v_g v_grad_f v_grad_g_prod v_proj_diff_g]);
                repeat (apply log_ok_cons; [first [left; reflexivity | right; assumption]|]);
                try apply log_ok_nil.

  Lemma log_f_grad_f x : log_ok (snd (te_f_grad_f P prov x)).
  Proof. unfold te_f_grad_f. destruct (prov Ff_grad_f) eqn:E; logok. Qed.
  Lemma log_f_g x : log_ok (snd (te_f_g P prov x)).
  Proof. unfold te_f_g. destruct (prov Ff_g) eqn:E; logok. Qed.
  Lemma log_gfgg x y : log_ok (snd (te_grad_f_grad_g_prod P prov x y)).
  Proof. unfold te_grad_f_grad_g_prod. destruct (prov Fgrad_f_grad_g_prod) eqn:E; logok. Qed.
  Lemma log_grad_L x y : log_ok (snd (te_grad_L P prov x y)).
  Proof.
    unfold te_grad_L. destruct (prov Fgrad_L) eqn:E; [logok|]. destruct y; [logok|].
    rewrite snd_bind. apply log_ok_app; [apply log_gfgg|logok].
  Qed.
  Lemma log_calc g y Σ : log_ok (snd (calc_yhat P g y Σ)).
  Proof. unfold calc_yhat, calc_yhat_scalar, calc_yhat_vector. destruct Σ as [|σ [|σ' Σ']]; logok. Qed.
  Lemma log_psi x y Σ : log_ok (snd (te_psi P prov x y Σ)).
  Proof.
    unfold te_psi. destruct (prov Fpsi) eqn:E; [logok|]. destruct y; [logok|].
    rewrite !snd_bind. repeat apply log_ok_app; [apply log_f_g|apply log_calc|logok].
  Qed.
  Lemma log_grad_psi x y Σ : log_ok (snd (te_grad_psi P prov x y Σ)).
  Proof.
    unfold te_grad_psi. destruct (prov Fgrad_psi) eqn:E; [logok|]. destruct y; [logok|].
    rewrite !snd_bind. repeat apply log_ok_app; [logok|apply log_calc|apply log_grad_L].
  Qed.
  Lemma log_psi_grad_psi x y Σ : log_ok (snd (te_psi_grad_psi P prov x y Σ)).
  Proof.
    unfold te_psi_grad_psi. destruct (prov Fpsi_grad_psi) eqn:E; [logok|]. destruct y; [apply log_f_grad_f|].
    rewrite !snd_bind. repeat apply log_ok_app; [apply log_f_g|apply log_calc|apply log_grad_L|logok].
  Qed.
End Defaults.

(* closed statements *)
Definition all_logs_ok (P : problem (T:=R)) prov x y Σ : Prop :=
  log_ok prov (snd (te_f_grad_f P prov x)) /\ log_ok prov (snd (te_f_g P prov x)) /\
  log_ok prov (snd (te_grad_f_grad_g_prod P prov x y)) /\ log_ok prov (snd (te_grad_L P prov x y)) /\
  log_ok prov (snd (te_psi P prov x y Σ)) /\ log_ok prov (snd (te_grad_psi P prov x y Σ)) /\
  log_ok prov (snd (te_psi_grad_psi P prov x y Σ)).
Lemma logs_only_provided P prov x y Σ : all_logs_ok P prov x y Σ.
Proof.
  repeat split; [apply log_f_grad_f|apply log_f_g|apply log_gfgg|apply log_grad_L|apply log_psi|
                 apply log_grad_psi|apply log_psi_grad_psi].
Qed.

(* with no optional member supplied, ψ-and-∇ψ is composed of exactly the five required members *)
Lemma default_log_required_only (P : problem (T:=R)) x y0 y Σ :
  yhat_def P x (y0 :: y) Σ <> [] ->
  snd (te_psi_grad_psi P (fun c => negb (fn_optional c)) x (y0 :: y) Σ)
    = [Fg; Ff; Fproj_diff_g; Fgrad_f; Fgrad_g_prod].
Proof.
  intros Hne. unfold te_psi_grad_psi. cbn [fn_optional fn_code Nat.leb negb].
  rewrite !snd_bind. unfold te_f_g at 1 2 3. cbn [fn_optional fn_code Nat.leb negb].
  rewrite !snd_bind. cbn [snd fst ret call v_g v_f app bind].
  assert (Hc : forall g, snd (calc_yhat P g (y0 :: y) Σ) = [Fproj_diff_g]).
  { intros g. unfold calc_yhat, calc_yhat_scalar, calc_yhat_vector. destruct Σ as [|σ [|σ' Σ']]; reflexivity. }
  rewrite Hc.
  pose proof (calc_yhat_spec P (pg P x) (y0 :: y) Σ) as Hs.
  fold (zeta_def P x (y0 :: y) Σ) in Hs. fold (yhat_def P x (y0 :: y) Σ) in Hs.
  destruct (calc_yhat P (pg P x) (y0 :: y) Σ) as [[dty yh] lg] eqn:Ec. cbn [fst snd] in *.
  injection Hs as _ Hy. subst yh.
  unfold te_grad_L. cbn [fn_optional fn_code Nat.leb negb].
  destruct (yhat_def P x (y0 :: y) Σ) as [|a l] eqn:Ey; [congruence|].
  rewrite snd_bind. unfold te_grad_f_grad_g_prod. cbn [fn_optional fn_code Nat.leb negb].
  reflexivity.
Qed.

(* ================= m = 0 shortcuts ================= *)
Lemma m0_shortcuts (P : problem (T:=R)) prov x Σ :
  provider_ok P prov -> grad_g_prod_empty_ok P ->
  fst (te_psi P prov x [] Σ) = (pf P x, []) /\
  fst (te_grad_psi P prov x [] Σ) = pgrad_f P x /\
  fst (te_psi_grad_psi P prov x [] Σ) = (pf P x, pgrad_f P x) /\
  fst (te_grad_L P prov x []) = pgrad_f P x.
Proof.
  intros Hp He. rewrite te_psi_val, te_grad_psi_val, te_psi_grad_psi_val, te_grad_L_val by assumption.
  rewrite psi_def_empty, yhat_def_empty, grad_psi_def_empty by assumption. unfold grad_L_def. rewrite He. auto.
Qed.

(* ================= Hessian-vector product of ψ: available iff supplied, or m = 0 and ∇²L·v supplied ================= *)
Lemma te_hess_psi_prod_spec (P : problem (T:=R)) prov m x y Σ scale v :
  fst (te_hess_psi_prod P prov m x y Σ scale v) =
    if prov Fhess_psi_prod then Some (uhess_psi_prod P x y Σ scale v)
    else if (m =? 0)%nat && prov Fhess_L_prod then Some (uhess_L_prod P x y scale v) else None.
Proof. unfold te_hess_psi_prod. destruct (prov Fhess_psi_prod); [reflexivity|]. destruct (_ && _); reflexivity. Qed.
Lemma supports_hess_psi_prod_iff (P : problem (T:=R)) prov m x y Σ scale v :
  supports_hess_psi_prod prov m = true <-> fst (te_hess_psi_prod P prov m x y Σ scale v) <> None.
Proof.
  rewrite te_hess_psi_prod_spec. unfold supports_hess_psi_prod.
  destruct (prov Fhess_psi_prod); cbn [orb]; [split; [discriminate|reflexivity]|].
  destruct (_ && _); split; try discriminate; try reflexivity. intros H; now elim H.
Qed.

(* ================= componentwise facts about ŷ (used by C01 / C03) ================= *)
Lemma yhat1_err_identity l u σ g y : σ <> 0 ->
  (σ * projdiff1 l u (g + y / σ) - y) / σ = g - proj1 l u (g + y / σ).
Proof. intros Hs. unfold projdiff1. numR. field. exact Hs. Qed.
Lemma projdiff1_lb_none u z : 0 <= projdiff1 None u z.
Proof. unfold projdiff1, proj1. destruct u; cbn [clamp_lo clamp_hi]; crush. Qed.
Lemma projdiff1_ub_none l z : projdiff1 l None z <= 0.
Proof. unfold projdiff1, proj1. destruct l; cbn [clamp_lo clamp_hi]; crush. Qed.
Lemma yhat1_sign l u σ z : 0 <= σ ->
  (l = None -> 0 <= σ * projdiff1 l u z) /\ (u = None -> σ * projdiff1 l u z <= 0) /\
  (box_ne l u -> in_box l u z -> σ * projdiff1 l u z = 0).
Proof.
  intros Hs. repeat split.
  - intros ->. pose proof (projdiff1_lb_none u z). nra.
  - intros ->. pose proof (projdiff1_ub_none l z). nra.
  - intros Hne Hin. apply (projdiff1_zero_iff l u z Hne) in Hin. rewrite Hin. ring.
Qed.
(* the penalty term is the Σ-weighted squared DISTANCE: no feasible point is closer than the projection *)
Lemma penalty_term_is_min_distance l u σ ζ z : 0 <= σ -> box_ne l u -> in_box l u z ->
  σ * (projdiff1 l u ζ * projdiff1 l u ζ) <= σ * ((ζ - z) * (ζ - z)).
Proof.
  intros Hs Hne Hz. pose proof (proj1_strong_argmin l u ζ z Hne Hz) as Hm. unfold Rsqr in Hm.
  unfold projdiff1. numR. apply Rmult_le_compat_l; [exact Hs|].
  pose proof (Rle_0_sqr (z - proj1 l u ζ)) as Hq. unfold Rsqr in Hq. nra.
Qed.

(* component access *)
Lemma map3_nth {A B C D} (f : A -> B -> C -> D) a b c i da db dc dd :
  (i < length a)%nat -> (i < length b)%nat -> (i < length c)%nat ->
  nth i (map3 f a b c) dd = f (nth i a da) (nth i b db) (nth i c dc).
Proof.
  revert i b c; induction a as [|x a IH]; intros i [|y b] [|z c] Ha Hb Hc; simpl in *; try lia.
  destruct i; [reflexivity|]. apply IH; lia.
Qed.
Lemma map4_nth {A B C D E} (f : A -> B -> C -> D -> E) a b c d i da db dc dd de :
  (i < length a)%nat -> (i < length b)%nat -> (i < length c)%nat -> (i < length d)%nat ->
  nth i (map4 f a b c d) de = f (nth i a da) (nth i b db) (nth i c dc) (nth i d dd).
Proof.
  revert i b c d; induction a as [|x a IH]; intros i [|y b] [|z c] [|w d] Ha Hb Hc Hd; simpl in *; try lia.
  destruct i; [reflexivity|]. apply IH; lia.
Qed.
Lemma map3_length_eq {A B C D} (f : A -> B -> C -> D) a b c n :
  length a = n -> length b = n -> length c = n -> length (map3 f a b c) = n.
Proof.
  revert b c n; induction a as [|x a IH]; intros [|y b] [|z c] n Ha Hb Hc; simpl in *; try lia.
  destruct n; [lia|]. f_equal. apply IH; lia.
Qed.
Lemma nth_repeat_lt {A} (s d : A) k i : (i < k)%nat -> nth i (repeat s k) d = s.
Proof. revert i; induction k; intros [|i] Hi; simpl; try lia; auto. apply IHk. lia. Qed.

(* the penalty factor that applies to row i: the single shared factor, or Σ_i *)
Definition sigma_at (Σ : list R) (i : nat) : R := match Σ with [σ] => σ | _ => nth i Σ 0 end.
Lemma expand_sigma_nth Σ m i : (i < m)%nat -> nth i (expand_sigma Σ m) 0 = sigma_at Σ i.
Proof. intros Hi. unfold expand_sigma, sigma_at. destruct Σ as [|σ [|σ' Σ']]; try reflexivity. now apply nth_repeat_lt. Qed.
Lemma expand_sigma_length (Σ : list R) m : length Σ = 1%nat \/ length Σ = m -> length (expand_sigma Σ m) = m.
Proof.
  unfold expand_sigma. destruct Σ as [|σ [|σ' Σ']]; intros [H|H]; simpl in *; try lia; try (rewrite repeat_length; lia).
Qed.

Section Components.
  Variable P : problem (T:=R).
  Variables (x y Σ : list R) (m i : nat).
  Hypothesis Hg : length (pg P x) = m.
  Hypothesis Hy : length y = m.
  Hypothesis Hlb : length (plb P) = m.
  Hypothesis Hub : length (pub P) = m.
  Hypothesis HΣ : length Σ = 1%nat \/ length Σ = m.
  Hypothesis Hi : (i < m)%nat.

  Let gi := nth i (pg P x) 0.
  Let yi := nth i y 0.
  Let σi := sigma_at Σ i.
  Let li := nth i (plb P) None.
  Let ui := nth i (pub P) None.

  Lemma zeta_def_nth : nth i (zeta_def P x y Σ) 0 = gi + yi / σi.
  Proof.
    unfold zeta_def, zeta_of. pose proof (expand_sigma_length Σ m HΣ) as HL. rewrite Hy.
    rewrite (map3_nth _ _ _ _ i 0 0 0 0) by lia. rewrite expand_sigma_nth by lia. reflexivity.
  Qed.
  Lemma yhat_def_nth : nth i (yhat_def P x y Σ) 0 = σi * projdiff1 li ui (gi + yi / σi).
  Proof.
    pose proof zeta_def_nth as Hz. unfold yhat_def, yhat_of.
    pose proof (expand_sigma_length Σ m HΣ) as HL.
    assert (length (zeta_def P x y Σ) = m).
    { unfold zeta_def, zeta_of. rewrite Hy. apply map3_length_eq; auto. }
    rewrite Hy in *. rewrite (map4_nth _ _ _ _ _ i None None 0 0 0) by lia.
    rewrite expand_sigma_nth by lia. rewrite Hz. reflexivity.
  Qed.

  (* err = (ŷ − y)/Σ = g − Π_D(g + y/Σ): the slack error written back by the inner solvers *)
  Lemma yhat_err_identity_nth : σi <> 0 ->
    (nth i (yhat_def P x y Σ) 0 - yi) / σi = gi - proj1 li ui (gi + yi / σi).
  Proof. intros Hs. rewrite yhat_def_nth. now apply yhat1_err_identity. Qed.
  Lemma yhat_sign_nth : 0 <= σi ->
    (li = None -> 0 <= nth i (yhat_def P x y Σ) 0) /\ (ui = None -> nth i (yhat_def P x y Σ) 0 <= 0) /\
    (box_ne li ui -> in_box li ui (gi + yi / σi) -> nth i (yhat_def P x y Σ) 0 = 0).
  Proof. intros Hs. rewrite yhat_def_nth. now apply yhat1_sign. Qed.
End Components.

(* ================= ∇ψ is the derivative of ψ: 1-D penalty, and ψ along any line ================= *)
Lemma projdiff1_quad l u z δ : box_ne l u ->
  - (δ * δ) <= projdiff1 l u (z + δ) * projdiff1 l u (z + δ) - projdiff1 l u z * projdiff1 l u z
               - 2 * projdiff1 l u z * δ <= δ * δ.
Proof.
  intros Hne. unfold projdiff1, proj1. destruct l as [l|], u as [u|]; cbn [clamp_lo clamp_hi box_ne] in *; numR; rbool; split; nra.
Qed.

Definition pen1 (l u : option R) (σ z : R) : R := / 2 * σ * (projdiff1 l u z * projdiff1 l u z).

Lemma pen1_derivative l u σ z : box_ne l u -> 0 <= σ ->
  derivable_pt_lim (pen1 l u σ) z (σ * projdiff1 l u z).
Proof.
  intros Hne Hs eps Heps.
  assert (Hd : 0 < eps / (σ + 1)) by (apply Rdiv_lt_0_compat; lra).
  exists (mkposreal _ Hd). intros h Hh0 Hh. cbn [pos] in Hh.
  pose proof (projdiff1_quad l u z h Hne) as [Q1 Q2].
  unfold pen1.
  set (a := projdiff1 l u z) in *. set (b := projdiff1 l u (z + h)) in *.
  replace ((/ 2 * σ * (b * b) - / 2 * σ * (a * a)) / h - σ * a)
    with ((/ 2 * σ) * ((b * b - a * a - 2 * a * h) / h)) by (field; exact Hh0).
  assert (Hb : Rabs ((b * b - a * a - 2 * a * h) / h) <= Rabs h).
  { unfold Rdiv. rewrite Rabs_mult, Rabs_inv.
    pose proof (Rabs_pos_lt h Hh0) as Hp.
    apply Rmult_le_reg_r with (Rabs h); [exact Hp|].
    rewrite Rmult_assoc, Rinv_l, Rmult_1_r by lra.
    rewrite <- Rabs_mult. rewrite (Rabs_pos_eq (h * h)) by nra.
    apply Rabs_le. lra. }
  rewrite Rabs_mult. rewrite (Rabs_pos_eq (/ 2 * σ)) by nra.
  set (t := eps / (σ + 1)) in *.
  assert (Ht : eps = t * (σ + 1)) by (unfold t; field; lra).
  pose proof (Rabs_pos h). 
  assert (/ 2 * σ * Rabs ((b * b - a * a - 2 * a * h) / h) <= / 2 * σ * t) by (apply Rmult_le_compat_l; nra).
  nra.
Qed.

(* ---- along a line t ↦ x + t·e (one coordinate, or any direction): ψ(t) = F t + Σ_j pen1_j (G_j t + y_j/σ_j) ---- *)
Record prow := { r_l : option R; r_u : option R; r_σ : R; r_y : R; r_G : R -> R; r_G' : R }.
Fixpoint pen_sum (rows : list prow) (t : R) : R :=
  match rows with
  | [] => 0
  | r :: rows' => pen1 (r_l r) (r_u r) (r_σ r) (r_G r t + r_y r / r_σ r) + pen_sum rows' t
  end.
(* Σ_j G_j'(t) ŷ_j(t),  ŷ_j = σ_j (ζ_j − Πζ_j) *)
Fixpoint jac_yhat (rows : list prow) (t : R) : R :=
  match rows with
  | [] => 0
  | r :: rows' => r_G' r * (r_σ r * projdiff1 (r_l r) (r_u r) (r_G r t + r_y r / r_σ r)) + jac_yhat rows' t
  end.
Definition row_ok (t : R) (r : prow) : Prop :=
  box_ne (r_l r) (r_u r) /\ 0 <= r_σ r /\ derivable_pt_lim (r_G r) t (r_G' r).

Lemma pen_sum_derivative rows t : Forall (row_ok t) rows ->
  derivable_pt_lim (pen_sum rows) t (jac_yhat rows t).
Proof.
  induction 1 as [|r rows (Hne & Hs & HG) _ IH]; cbn [pen_sum jac_yhat].
  - apply derivable_pt_lim_const.
  - apply (derivable_pt_lim_plus (fun t => pen1 (r_l r) (r_u r) (r_σ r) (r_G r t + r_y r / r_σ r)) (pen_sum rows));
      [|exact IH].
    rewrite Rmult_comm.
    apply (derivable_pt_lim_comp (fun t => r_G r t + r_y r / r_σ r) (pen1 (r_l r) (r_u r) (r_σ r))).
    + replace (r_G' r) with (r_G' r + 0) by ring.
      apply (derivable_pt_lim_plus (r_G r) (fun _ => r_y r / r_σ r)); [exact HG|apply derivable_pt_lim_const].
    + apply pen1_derivative; assumption.
Qed.

(* ψ along the line and its derivative: F' + Σ_j G_j' ŷ_j  — the component of ∇f + ∇g·ŷ in that direction *)
Lemma psi_line_derivative (F : R -> R) (F' : R) rows t :
  derivable_pt_lim F t F' -> Forall (row_ok t) rows ->
  derivable_pt_lim (fun s => F s + pen_sum rows s) t (F' + jac_yhat rows t).
Proof. intros HF Hr. apply (derivable_pt_lim_plus F (pen_sum rows)); [exact HF|now apply pen_sum_derivative]. Qed.

(* the penalty of psi_def is this sum of 1-D penalties *)
Lemma half_dist2_as_pen1 lb ub Σv ζ :
  half * dist2_of lb ub Σv ζ = sumr (map4 (fun l u σ z => pen1 l u σ z) lb ub Σv ζ).
Proof.
  unfold dist2_of. revert ub Σv ζ; induction lb as [|l lb IH]; intros [|u ub] [|σ Σv] [|z ζ]; cbn [map4 sumr];
    try (unfold half; numR; lra).
  rewrite <- IH. unfold pen1, half. numR. lra.
Qed.

(* ================= ProblemWithCounters and the provider mask ================= *)
(* a class that has a provides_eval_hess_ψ member: the wrapper reports exactly the wrapped problem's mask *)
Lemma counters_prov_transparent prov c : counters_prov true prov c = prov c.
Proof. destruct c; reflexivity. Qed.
(* ... hence every evaluation through the wrapper is the evaluation of the wrapped problem *)
Lemma counters_transparent_hess (P : problem (T:=R)) prov m x y Σ scale v :
  te_hess_psi_prod P (counters_prov true prov) m x y Σ scale v = te_hess_psi_prod P prov m x y Σ scale v.
Proof. unfold te_hess_psi_prod. now rewrite !counters_prov_transparent. Qed.

(* a class with provides_eval_hess_ψ_prod but WITHOUT provides_eval_hess_ψ: the opt-out is lost in the wrapper.
   Witness: m = 0, ∇²L·v supplied (returns [1]), ∇²ψ·v not supplied (its body returns [] when called anyway):
   directly the product is the available Some [1]; through the wrapper the unsupplied member is called. *)
Definition refute_problem : problem (T:=R) :=
  {| pf := fun _ => 0; pgrad_f := fun _ => []; pg := fun _ => []; pgrad_g_prod := fun _ _ => []; plb := []; pub := [];
     uf_grad_f := fun _ => (0, []); uf_g := fun _ => (0, []); ugrad_f_grad_g_prod := fun _ _ => ([], []);
     ugrad_L := fun _ _ => []; upsi := fun _ _ _ => (0, []); ugrad_psi := fun _ _ _ => [];
     upsi_grad_psi := fun _ _ _ => (0, []);
     uhess_L_prod := fun _ _ _ _ => [1]; uhess_psi_prod := fun _ _ _ _ _ => [] |}.
Definition refute_prov (c : fn) : bool := match c with Fhess_L_prod => true | _ => false end.

Lemma counters_hess_psi_prod_opt_out_lost :
  exists (P : problem (T:=R)) prov,
    prov Fhess_psi_prod = false /\
    te_hess_psi_prod P prov 0 [] [] [] 1 [1] = (Some (uhess_L_prod P [] [] 1 [1]), [Fhess_L_prod]) /\
    te_hess_psi_prod P (counters_prov false prov) 0 [] [] [] 1 [1]
      = (Some (uhess_psi_prod P [] [] [] 1 [1]), [Fhess_psi_prod]) /\
    fst (te_hess_psi_prod P (counters_prov false prov) 0 [] [] [] 1 [1]) <> fst (te_hess_psi_prod P prov 0 [] [] [] 1 [1]).
Proof.
  exists refute_problem, refute_prov. repeat split; try reflexivity. cbn. intros H. discriminate H.
Qed.
