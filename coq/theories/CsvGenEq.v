(* CsvGenEq.v — every definition of the GENERATED file coq/gen/CsvGen.v (translate/gen_csv.py, regenerated from csv.tpp / print.tpp
   on every run) is tied to the hand model Csv.v.
   The generated reader keeps the C++ object (array s, fill level bufidx, keep_reading); the hand model keeps the window
   s[0 .. bufidx).  `rabs` is that abstraction; every member function is shown to commute with it (same stream, same error,
   abstracted result), under the object invariant bufidx <= |s| (the array has 65 cells, bufidx <= 64) which every function
   is shown to preserve.  std::from_chars is the parameter `fc`; the model's `parse` is `parse_of fc`. *)
From Coq Require Import List Ascii Bool Arith Lia.
From Alpaqa Require Import Csv CsvProofs CsvGenLib CsvGen CsvGenInst.
Import ListNotations.

Definition rabs (s : list ascii) (bufidx : nat) (kp : bool) : reader := mkR (firstn bufidx s) kp.

(* ------------------------------------------------------------------------------------------------ constants *)
Lemma g_bufmaxsize_is_model : g_bufmaxsize = bufmax.
Proof. reflexivity. Qed.
Lemma g_end_is_model : g_end = nl.
Proof. reflexivity. Qed.

(* ------------------------------------------------------------------------------------------------ lists *)
Lemma firstn_cput : forall s off xs, off <= length s -> firstn (off + length xs) (cput s off xs) = firstn off s ++ xs.
Proof.
  intros. unfold cput. rewrite app_assoc.
  rewrite firstn_app. rewrite app_length, firstn_length, Nat.min_l by assumption.
  replace (off + length xs - (off + length xs)) with 0 by lia. rewrite firstn_O, app_nil_r.
  apply firstn_all2. rewrite app_length, firstn_length, Nat.min_l by assumption. lia.
Qed.

Lemma cput_length_ge : forall s off xs, off <= length s -> off + length xs <= length (cput s off xs).
Proof. intros. unfold cput. rewrite !app_length, firstn_length, Nat.min_l by assumption. lia. Qed.

Lemma is_nil_firstn : forall (s : list ascii) n, n <= length s -> is_nil (firstn n s) = Nat.eqb n 0.
Proof. intros. destruct n; [reflexivity|]. destruct s; simpl in *; [lia|reflexivity]. Qed.

Lemma skipn_firstn_slice : forall (s : list ascii) a b, skipn a (firstn b s) = firstn (b - a) (skipn a s).
Proof. intros. rewrite skipn_firstn_comm. reflexivity. Qed.

Lemma firstn_cmove : forall s a b, b <= length s -> firstn (b - a) (cmove s a b) = skipn a (firstn b s).
Proof.
  intros. unfold cmove. rewrite skipn_firstn_slice.
  rewrite firstn_app. rewrite firstn_firstn, Nat.min_id.
  assert (L : length (firstn (b - a) (skipn a s)) = b - a) by (rewrite firstn_length, skipn_length; lia).
  rewrite L, Nat.sub_diag, firstn_O, app_nil_r. reflexivity.
Qed.

Lemma skipn_S_cons : forall (l : list ascii) k c tl, skipn k l = c :: tl -> skipn (S k) l = tl.
Proof.
  induction l; intros k c tl E; destruct k; simpl in *; try discriminate.
  - inversion E. reflexivity.
  - apply (IHl _ _ _ E).
Qed.

Lemma cmove_length : forall s a b, b <= length s -> length (cmove s a b) = length s.
Proof. intros. unfold cmove. rewrite app_length, firstn_length, !skipn_length. lia. Qed.

(* ------------------------------------------------------------------------------------------------ read_chunk *)
Lemma g_read_chunk_is_model : forall V (fc : list ascii -> fc_result V) s bufidx kp is, bufidx <= length s ->
  match g_read_chunk fc s bufidx kp is with
  | (is', inl e) => read_chunk (rabs s bufidx kp) is = (is', inl e)
  | (is', inr (s', bufidx', kp')) => read_chunk (rabs s bufidx kp) is = (is', inr (rabs s' bufidx' kp')) /\ bufidx' <= length s'
  end.
Proof.
  intros V fc s bufidx kp is H. unfold g_read_chunk, read_chunk, rabs. cbn [buf Csv.keep].
  rewrite firstn_length, Nat.min_l by assumption. rewrite negb_involutive.
  destruct (failb is) eqn:F; [reflexivity|].
  change g_bufmaxsize with bufmax. rewrite (Nat.eqb_sym bufmax bufidx).
  destruct (Nat.eqb bufidx bufmax) eqn:E; [split; [reflexivity|assumption]|].
  replace (Nat.pred (bufmax - bufidx + 1)) with (bufmax - bufidx) by lia.
  destruct (s_getn (bufmax - bufidx) is) as [a s1] eqn:G. rewrite negb_involutive.
  destruct (failb s1) eqn:F1; [reflexivity|].
  destruct (s_peek s1) as [c s2] eqn:P. cbn [Nat.add].
  split.
  - unfold oceq. change g_end with nl. rewrite firstn_cput by assumption. reflexivity.
  - apply cput_length_ge. assumption.
Qed.

(* ------------------------------------------------------------------------------------------------ read_single *)
Lemma g_read_single_is_model : forall V (fc : list ascii -> fc_result V) s bufend v0, bufend <= length s ->
  g_read_single fc s 0 bufend v0
  = match read_single (parse_of fc) (firstn bufend s) with Some (x, k) => inr (k, x) | None => inl EConversion end.
Proof.
  intros V fc s bufend v0 H. unfold g_read_single, read_single, parse_of, cslice, cnth.
  destruct bufend as [|n].
  - simpl. destruct (fc []); reflexivity.
  - destruct s as [|c s]; [simpl in H; lia|]. cbn [Nat.eqb negb andb nth firstn skipn Nat.sub].
    change (ascii_of_nat 43) with plus.
    destruct (Ascii.eqb c plus).
    + rewrite Nat.sub_0_r. change (skipn 1 (c :: s)) with s. destruct (fc (firstn n s)); reflexivity.
    + change (skipn 0 (c :: s)) with (c :: s). change (firstn (S n) (c :: s)) with (c :: firstn n s).
      destruct (fc (c :: firstn n s)); reflexivity.
Qed.

(* from_chars never reads beyond `last` *)
Definition fc_bound {V} (fc : list ascii -> fc_result V) : Prop := forall l, fc_adv (fc l) <= length l.

Lemma read_single_bound : forall V (fc : list ascii -> fc_result V) b x k, fc_bound fc -> read_single (parse_of fc) b = Some (x, k) -> k <= length b.
Proof.
  intros V fc b x k HB. unfold read_single, parse_of. destruct b as [|c b'].
  - specialize (HB []). destruct (fc []); intros E; inversion E; subst. simpl in HB. assumption.
  - destruct (Ascii.eqb c plus).
    + specialize (HB b'). destruct (fc b'); intros E; inversion E; subst. simpl in *. lia.
    + specialize (HB (c :: b')). destruct (fc (c :: b')); intros E; inversion E; subst. simpl in *. lia.
Qed.

(* ------------------------------------------------------------------------------------------------ read *)
Lemma cbind_eta3 : forall (x : cres (list ascii * nat * bool)),
  cbind x (fun is '(s, b, k) => (is, inr (s, b, k))) = x.
Proof. intros [is [e|[[s b] k]]]; reflexivity. Qed.

Lemma g_read_is_model : forall V (fc : list ascii -> fc_result V) garbage s bufidx kp is sep, fc_bound fc -> bufidx <= length s ->
  match g_read fc garbage s bufidx kp is sep with
  | (is', inl e) => read (parse_of fc) sep (rabs s bufidx kp) is = (is', inl e)
  | (is', inr (v, s', bufidx', kp')) =>
      read (parse_of fc) sep (rabs s bufidx kp) is = (is', inr (v, rabs s' bufidx' kp')) /\ bufidx' <= length s'
  end.
Proof.
  intros V fc garbage s bufidx kp is sep HB H. unfold g_read, read. rewrite cbind_eta3.
  change (Csv.keep (rabs s bufidx kp)) with kp.
  assert (C : match (if kp then g_read_chunk fc s bufidx kp is else (is, inr (s, bufidx, kp))) with
              | (is', inl e) => (if kp then read_chunk (rabs s bufidx kp) is else (is, inr (rabs s bufidx kp))) = (is', inl e)
              | (is', inr (s', bufidx', kp')) =>
                  (if kp then read_chunk (rabs s bufidx kp) is else (is, inr (rabs s bufidx kp))) = (is', inr (rabs s' bufidx' kp'))
                  /\ bufidx' <= length s'
              end).
  { destruct kp; [apply g_read_chunk_is_model; assumption|split; [reflexivity|assumption]]. }
  destruct (if kp then g_read_chunk fc s bufidx kp is else (is, inr (s, bufidx, kp))) as [is1 [e|[[s1 b1] k1]]].
  - rewrite C. reflexivity.
  - destruct C as [C H1]. rewrite C. cbn [cbind]. cbv zeta. cbn [Nat.add].
    rewrite g_read_single_is_model by assumption. unfold rabs. cbn [buf Csv.keep].
    destruct (read_single (parse_of fc) (firstn b1 s1)) as [[x k]|] eqn:RS; [|reflexivity].
    pose proof (read_single_bound _ _ _ _ _ HB RS) as KB. rewrite firstn_length, Nat.min_l in KB by assumption.
    cbn [clift]. rewrite !firstn_length, !Nat.min_l by assumption.
    destruct (Nat.eqb k b1) eqn:EK.
    + apply Nat.eqb_eq in EK. subst k. cbn [negb andb].
      destruct k1; [reflexivity|]. cbn [andb].
      rewrite skipn_all2 by (rewrite firstn_length; lia). split; [reflexivity|lia].
    + apply Nat.eqb_neq in EK. cbn [negb andb].
      assert (KL : k < b1) by lia.
      rewrite skipn_firstn_slice.
      destruct (skipn k s1) as [|c tl] eqn:SK.
      { exfalso. assert (length (skipn k s1) = 0) by (rewrite SK; reflexivity). rewrite skipn_length in H0. lia. }
      replace (b1 - k) with (S (b1 - S k)) by lia. cbn [firstn].
      assert (CN : cnth s1 k = c).
      { unfold cnth. rewrite <- (firstn_skipn k s1) at 1. rewrite SK, app_nth2; rewrite firstn_length, Nat.min_l by lia; [|lia].
        rewrite Nat.sub_diag. reflexivity. }
      rewrite CN. destruct (Ascii.eqb c sep); cbn [negb]; [|reflexivity].
      split.
      * rewrite Nat.sub_0_r, Nat.add_1_r. rewrite firstn_cmove by assumption. rewrite skipn_firstn_slice.
        rewrite (skipn_S_cons _ _ _ _ SK). reflexivity.
      * rewrite cmove_length by assumption. lia.
Qed.

(* ------------------------------------------------------------------------------------------------ next_line, done *)
Lemma g_next_line_is_model : forall V (fc : list ascii -> fc_result V) s bufidx kp is, bufidx <= length s ->
  g_next_line fc s bufidx kp is = next_line (rabs s bufidx kp) is.
Proof.
  intros V fc s bufidx kp is H. unfold g_next_line, next_line, rabs. cbn [buf].
  rewrite is_nil_firstn by assumption.
  destruct bufidx as [|n]; [|reflexivity]. cbn [Nat.ltb Nat.leb Nat.eqb negb].
  destruct (eofb is); cbn [negb]; [reflexivity|].
  destruct (s_get1 is) as [c s1]. unfold oceq. change g_end with nl.
  destruct c as [c|]; [destruct (Ascii.eqb c nl)|]; reflexivity.
Qed.

Lemma g_done_is_model : forall V (fc : list ascii -> fc_result V) s bufidx kp is, bufidx <= length s ->
  g_done fc s bufidx kp is = done (rabs s bufidx kp) is.
Proof.
  intros V fc s bufidx kp is H. unfold g_done, done, rabs. cbn [buf].
  rewrite is_nil_firstn by assumption.
  destruct (s_peek is) as [c s1]. unfold oceq. change g_end with nl. reflexivity.
Qed.

(* ------------------------------------------------------------------------------------------------ printing *)
Lemma g_print_elem_is_model : forall V (to_chars : V -> list ascii) (signbit isnan : V -> bool) v,
  g_print_elem to_chars signbit isnan v = print_elem to_chars (fun v => signbit v || isnan v) v.
Proof.
  intros. unfold g_print_elem, print_elem. change (ascii_of_nat 43) with plus.
  destruct (signbit v), (isnan v); reflexivity.
Qed.

(* the precision print_csv uses is max_digits10 OF THE VALUE'S TYPE: what the round-trip hypothesis
   `parse (to_chars v) = Some (v, all of it)` of C17_print_read_roundtrip is about *)
Lemma g_print_precision_is_model : g_print_precision_follows_value_type = true.
Proof. reflexivity. Qed.

(* ------------------------------------------------------------------------------------------------ whole rows *)
(* the row readers of CsvGenInst.v (hand-transcribed loops around the GENERATED member functions) against Csv.v *)
Definition srel (st : gstate) (rd : reader) : Prop := let '(s, b, k) := st in rd = rabs s b k /\ b <= length s.

Definition crel {A B} (RA : A -> B -> Prop) (x : cres A) (y : cres B) : Prop :=
  match x, y with
  | (i1, inl e1), (i2, inl e2) => i1 = i2 /\ e1 = e2
  | (i1, inr a), (i2, inr b) => i1 = i2 /\ RA a b
  | _, _ => False
  end.

Lemma crel_bind : forall A B A' B' (RA : A -> B -> Prop) (RB : A' -> B' -> Prop) x y f g,
  crel RA x y -> (forall is a b, RA a b -> crel RB (f is a) (g is b)) -> crel RB (cbind x f) (cbind y g).
Proof.
  intros A B A' B' RA RB [i1 [e1|a]] [i2 [e2|b]] f g H HF; simpl in *; try contradiction.
  - exact H.
  - destruct H as [-> H]. apply HF. exact H.
Qed.

Lemma crel_eq : forall A (x y : cres A), crel eq x y -> x = y.
Proof. intros A [i1 [e1|a]] [i2 [e2|b]] H; simpl in H; try contradiction; destruct H; subst; reflexivity. Qed.

Section Rows.
Context {V : Type}.
Variable fc : list ascii -> fc_result V.
Variable garbage : V.
Variable sep : ascii.
Hypothesis HB : fc_bound fc.
Let P := parse_of fc.

Lemma gchunk_rel : forall st rd is, srel st rd -> crel srel (gchunk fc st is) (read_chunk rd is).
Proof.
  intros [[s b] k] rd is [-> H]. unfold gchunk. pose proof (g_read_chunk_is_model V fc s b k is H) as M.
  destruct (g_read_chunk fc s b k is) as [i1 [e|[[s1 b1] k1]]].
  - rewrite M. simpl. auto.
  - destruct M as [-> M]. simpl. auto.
Qed.

Lemma gread_rel : forall st rd is, srel st rd ->
  crel (fun a b => fst a = fst b /\ srel (snd a) (snd b)) (gread fc garbage sep st is) (read P sep rd is).
Proof.
  intros [[s b] k] rd is [-> H]. unfold gread. pose proof (g_read_is_model V fc garbage s b k is sep HB H) as M.
  destruct (g_read fc garbage s b k is sep) as [i1 [e|[[[v s1] b1] k1]]].
  - unfold P. rewrite M. simpl. auto.
  - destruct M as [M M']. unfold P. rewrite M. simpl. auto.
Qed.

Lemma gnext_eq : forall st rd is, srel st rd -> gnext fc st is = next_line rd is.
Proof. intros [[s b] k] rd is [-> H]. apply g_next_line_is_model. assumption. Qed.

Lemma gdone_eq : forall st rd is, srel st rd -> gdone fc st is = done rd is.
Proof. intros [[s b] k] rd is [-> H]. apply g_done_is_model. assumption. Qed.

Lemma gdrain_rel : forall fuel st rd is, srel st rd -> crel srel (gdrain fc fuel st is) (drain fuel rd is).
Proof.
  induction fuel; intros [[s b] k] rd is [-> H]; simpl; [auto|].
  destruct k.
  - change (match read_chunk {| buf := []; keep := true |} is with
            | (s1, inl e) => (s1, inl e) | (s2, inr rd1) => drain fuel rd1 s2 end)
      with (cbind (read_chunk {| buf := []; keep := true |} is) (fun s9 rd9 => drain fuel rd9 s9)).
    eapply crel_bind; [apply (gchunk_rel (s, 0, true)); split; [reflexivity|lia]|].
    intros. apply IHfuel. assumption.
  - simpl. split; [reflexivity|]. split; [reflexivity|assumption].
Qed.

Lemma srel_buf : forall s b k rd, srel (s, b, k) rd ->
  match buf rd with [] => b = 0 | c :: _ => b <> 0 /\ c = cnth s 0 end /\ keep rd = k.
Proof.
  intros s b k rd [-> H]. unfold rabs. cbn [buf keep]. split; [|reflexivity].
  destruct b; [reflexivity|]. destruct s; simpl in *; [lia|]. split; [lia|reflexivity].
Qed.

Lemma gskip_loop_rel : forall fuel st rd is, srel st rd -> crel srel (gskip_loop fc fuel st is) (skip_loop fuel rd is).
Proof.
  induction fuel; intros st rd is H; cbn [gskip_loop skip_loop]; [simpl; auto|].
  destruct (eofb is); [simpl; auto|].
  pose proof (gchunk_rel st rd is H) as C.
  destruct (gchunk fc st is) as [i1 [e1|[[s1 b1] k1]]], (read_chunk rd is) as [i2 [e2|rd1]]; simpl in C; try contradiction; [exact C|].
  destruct C as [<- C]. cbn [cbind].
  destruct (srel_buf _ _ _ _ C) as [B K].
  destruct (buf rd1) as [|c tl] eqn:EB.
  - subst b1. simpl. auto.
  - destruct B as [B ->]. apply Nat.eqb_neq in B. rewrite B. cbn [orb].
    destruct (Ascii.eqb (cnth s1 0) hash); cbn [negb]; [|simpl; auto].
    pose proof (gdrain_rel (S (length (rest i1))) (s1, b1, k1) rd1 i1 C) as D.
    destruct (gdrain fc (S (length (rest i1))) (s1, b1, k1) i1) as [i3 [e3|[[s2 b2] k2]]],
             (drain (S (length (rest i1))) rd1 i1) as [i4 [e4|rd2]]; simpl in D; try contradiction; [exact D|].
    destruct D as [<- D]. cbn [cbind].
    assert (R3 : srel (s2, 0, k2) {| buf := []; keep := keep rd2 |}).
    { destruct D as [-> D]. split; [reflexivity|lia]. }
    rewrite (gnext_eq _ _ _ R3).
    destruct (next_line {| buf := []; keep := keep rd2 |} i3) as [i5 [e5|u]]; cbn [cbind]; [simpl; auto|].
    apply IHfuel. exact R3.
Qed.

Lemma gskip_comments_rel : forall st rd is, srel st rd -> crel srel (gskip_comments fc st is) (skip_comments rd is).
Proof.
  intros st rd is H. unfold gskip_comments, skip_comments.
  destruct (eofb is); [simpl; auto|].
  destruct (s_peek is) as [c i1]. unfold oceq. change g_end with nl.
  destruct (match c with Some c' => Ascii.eqb c' nl | None => false end); [simpl; auto|].
  apply gskip_loop_rel. assumption.
Qed.

Definition vrel (a : list V * gstate) (b : list V * reader) : Prop := fst a = fst b /\ srel (snd a) (snd b).

Lemma gread_n_rel : forall n st rd is acc, srel st rd -> crel vrel (gread_n fc garbage sep n st is acc) (read_n P sep n rd is acc).
Proof.
  induction n; intros st rd is acc H; simpl; [split; [reflexivity|split; [reflexivity|assumption]]|].
  pose proof (gread_rel st rd is H) as C.
  destruct (gread fc garbage sep st is) as [i1 [e1|[v1 st1]]], (read P sep rd is) as [i2 [e2|[v2 rd1]]]; simpl in C; try contradiction; [exact C|].
  destruct C as [<- [<- C]]. cbn [cbind]. apply IHn. assumption.
Qed.

Lemma gread_all_rel : forall fuel st rd is acc, srel st rd -> crel vrel (gread_all fc garbage sep fuel st is acc) (read_all P sep fuel rd is acc).
Proof.
  induction fuel; intros st rd is acc H; simpl; [auto|].
  rewrite (gdone_eq _ _ _ H). destruct (done rd is) as [i0 d].
  destruct d; [split; [reflexivity|split; [reflexivity|assumption]]|].
  pose proof (gread_rel st rd i0 H) as C.
  destruct (gread fc garbage sep st i0) as [i1 [e1|[v1 st1]]], (read P sep rd i0) as [i2 [e2|[v2 rd1]]]; simpl in C; try contradiction; [exact C|].
  destruct C as [<- [<- C]]. cbn [cbind]. apply IHfuel. assumption.
Qed.

Lemma gfinish_rel : forall x y, crel vrel x y -> gfinish fc x = finish_row y.
Proof.
  intros [i1 [e1|[vs st]]] [i2 [e2|[vs' rd]]] H; simpl in H; try contradiction.
  - destruct H; subst. reflexivity.
  - destruct H as [<- [E R]]. simpl in E, R. subst vs'. unfold gfinish, finish_row. cbn [cbind].
    rewrite (gnext_eq _ _ _ R). destruct (next_line rd i1) as [i3 [e|u]]; reflexivity.
Qed.

Lemma srel0 : srel gstate0 reader0.
Proof. split; [reflexivity|simpl; lia]. Qed.

Theorem generated_read_row_impl_is_model : forall n is, g_read_row_impl fc garbage sep n is = read_row_impl P sep n is.
Proof.
  intros. unfold g_read_row_impl, read_row_impl.
  pose proof (gskip_comments_rel gstate0 reader0 is srel0) as C.
  destruct (gskip_comments fc gstate0 is) as [i1 [e1|st]], (skip_comments reader0 is) as [i2 [e2|rd]]; simpl in C; try contradiction.
  - destruct C; subst. reflexivity.
  - destruct C as [<- C]. cbn [cbind]. apply gfinish_rel. apply gread_n_rel. assumption.
Qed.

Theorem generated_read_row_std_vector_is_model : forall is, g_read_row_std_vector fc garbage sep is = read_row_std_vector P sep is.
Proof.
  intros. unfold g_read_row_std_vector, read_row_std_vector.
  pose proof (gskip_comments_rel gstate0 reader0 is srel0) as C.
  destruct (gskip_comments fc gstate0 is) as [i1 [e1|st]], (skip_comments reader0 is) as [i2 [e2|rd]]; simpl in C; try contradiction.
  - destruct C; subst. reflexivity.
  - destruct C as [<- C]. cbn [cbind]. apply gfinish_rel. apply gread_all_rel. assumption.
Qed.
End Rows.

(* ------------------------------------------------------------------------------------------------ the property, on the generated code *)
Lemma parse_of_bound : forall V (fc : list ascii -> fc_result V), fc_bound fc -> forall l v k, parse_of fc l = Some (v, k) -> k <= length l.
Proof. intros V fc HB l v k. unfold parse_of. specialize (HB l). destruct (fc l); intros E; inversion E; subst. exact HB. Qed.

Theorem generated_chunked_equals_spec64_vector :
  forall (V : Type) (fc : list ascii -> fc_result V) (garbage : V) (sep : ascii) (numch : ascii -> bool),
  fc_bound fc ->
  (forall a c b, numch c = false -> parse_of fc (a ++ c :: b) = parse_of fc a) ->
  numch sep = false -> numch plus = true ->
  forall cs line t, row_wf cs line ->
  match spec_row64 (parse_of fc) sep line with
  | Some vs => g_read_row_std_vector fc garbage sep (gs (comment_block cs ++ line ++ nl :: t)) = (gs t, inr vs)
  | None => exists e s', g_read_row_std_vector fc garbage sep (gs (comment_block cs ++ line ++ nl :: t)) = (s', inl e) /\ Tail s' t
  end.
Proof.
  intros V fc garbage sep numch HB HL Hs Hp cs line t HW.
  rewrite generated_read_row_std_vector_is_model by assumption.
  exact (@read_row_std_vector_spec64 V (parse_of fc) sep numch (parse_of_bound V fc HB) HL Hs Hp cs line t HW).
Qed.

Theorem generated_chunked_equals_spec64_fixed :
  forall (V : Type) (fc : list ascii -> fc_result V) (garbage : V) (sep : ascii) (numch : ascii -> bool),
  fc_bound fc ->
  (forall a c b, numch c = false -> parse_of fc (a ++ c :: b) = parse_of fc a) ->
  parse_of fc [] = None ->
  numch sep = false -> numch plus = true ->
  forall n cs line t, row_wf cs line ->
  match spec_row64_n (parse_of fc) sep n line with
  | Some vs => g_read_row_impl fc garbage sep n (gs (comment_block cs ++ line ++ nl :: t)) = (gs t, inr vs)
  | None => exists e s', g_read_row_impl fc garbage sep n (gs (comment_block cs ++ line ++ nl :: t)) = (s', inl e) /\ Tail s' t
  end.
Proof.
  intros V fc garbage sep numch HB HL HN Hs Hp n cs line t HW.
  rewrite generated_read_row_impl_is_model by assumption.
  exact (@read_row_impl_spec64 V (parse_of fc) sep numch (parse_of_bound V fc HB) HL HN Hs Hp n cs line t HW).
Qed.
