(* StopPromptNbt.v — the unpolled initial step-size loop of PANOC (`while (L < L_max && qub_violated) { γ /= 2; L *= 2; ... }`) makes at
   most nL passes when L_init > 0 and L_max <= L_init 2^nL; hence the start-up bound of C19_panoc_stop_before_start is an explicit
   constant of the parameters: a PANOC solve started with the request visible costs at most 5 + nL oracle calls.  Over R. *)
From Coq Require Import Reals List ZArith Lra Lia Bool Arith Psatz.
From Flocq Require Import Raux.
From Alpaqa Require Import Num NumR Vec Prox SolverStatus SolverKernels StopChain StopChainProofs Panoc StopPrompt.
Import ListNotations.
Local Open Scope R_scope.

Section Nbt.
  Variable psi_grad_full : list R -> R * list R * list R.
  Variable psi_yhat : list R -> R * list R.
  Variable grad_L : list R -> list R -> list R.
  Variable grad_psi : list R -> list R.
  Variables (lb ub : list (option R)) (l1 : list R).
  Variable dir_apply : nat -> iterate (T:=R) -> option (list R).
  Variable has_initial : bool.
  Variable stop_req : counters -> bool.
  Variable time_up : counters -> bool.
  Variable P : params (T:=R).
  Variables (x_in y_in Σ errz_in : list R).
  Variable ls_fuel : nat.
  Notation it := (iterate (T:=R)).
  Notation initqub := (init_qub psi_grad_full psi_yhat lb ub l1 P).
  Notation panoc_ := (panoc psi_grad_full psi_yhat grad_L grad_psi lb ub l1 dir_apply has_initial stop_req time_up P x_in y_in Σ errz_in ls_fuel).

  Lemma iL_next (i : it) : iL (eval_psih psi_grad_full psi_yhat P (eval_prox lb ub l1 (halve_it i))) = iL i * 2.
  Proof.
    unfold eval_psih. destruct (p_eager P); cbn [iL eval_prox]; unfold halve_it, halve_step, set_gamma_L; cbn [iL snd fst];
      cbv [n2 nmul nadd n1 NumR]; lra.
  Qed.

  Lemma init_qub_halvings : forall fuel (nL : nat) (i : it) c z i' c' z', 0 < iL i -> p_Lmax P <= iL i * 2 ^ nL ->
    initqub fuel i c z = Some (i', c', z') -> (s_stepsize_bt z' <= s_stepsize_bt z + nL)%nat.
  Proof.
    induction fuel as [|fuel IH]; intros nL i c z i' c' z' Hpos HL; cbn [init_qub];
      change (@nltb R NumR) with Rlt_bool; destruct (Rlt_bool_spec (iL i) (p_Lmax P)) as [Hlt|Hge]; cbn [andb];
      try destruct (it_qub_violated P i); try discriminate; try (intros E; inversion E; subst; lia).
    destruct nL as [|nL]; [exfalso; cbn [pow] in HL; lra|].
    intros E. apply (IH nL) in E.
    - unfold inc_sbt in E. cbn [s_stepsize_bt] in E. lia.
    - rewrite iL_next. lra.
    - rewrite iL_next. cbn [pow] in HL. lra.
  Qed.

  Definition Linit : R := iL (fst (init_L psi_grad_full grad_psi P x_in)).

  Hypothesis Hsticky : sticky stop_req.

  (* a PANOC solve started with the request visible: at most 5 + nL oracle calls, nL = number of doublings from L_init to L_max *)
  Theorem panoc_stop_before_start_explicit (nL : nat) fuel o : panoc_ fuel = Done o -> stop_req cnt0 = true ->
    0 < Linit -> p_Lmax P <= Linit * 2 ^ nL ->
    (evals (out_cnt o) <= 5 + nL)%nat /\ out_iterations o = 0%nat /\ c_polls (out_cnt o) = 1%nat /\ c_dir (out_cnt o) = 0%nat /\
    out_status o <> StBusy.
  Proof.
    intros Hr H0 Hpos HL.
    destruct (panoc_stop_before_start _ _ _ _ _ _ _ _ _ _ _ _ _ _ _ _ _ Hsticky fuel o Hr H0) as (A1 & A2 & A3 & A4 & A5 & A6 & A7 & A8).
    destruct (panoc_done_start _ _ _ _ _ _ _ _ _ _ _ _ _ _ _ _ _ fuel o Hr) as (s0 & Hs0 & Hl).
    assert (Hs : stop_req (top_cnt P s0) = true).
    { apply (Hsticky cnt0); [|exact H0]. pose proof (top_adv P s0) as Ta. cnt_solve. }
    destruct fuel as [|fuel]; [discriminate|]. cbn [loop] in Hl.
    destruct (pass_exit_at_request psi_grad_full psi_yhat grad_L grad_psi lb ub l1 dir_apply has_initial stop_req time_up P x_in y_in Σ errz_in ls_fuel s0 Hs) as (Ep & _). rewrite Ep in Hl. injection Hl as Eo.
    destruct (pass_exit_facts psi_yhat grad_L grad_psi lb ub l1 P x_in y_in Σ errz_in s0
                (top_status grad_L grad_psi lb ub l1 stop_req time_up P s0)) as (_ & _ & _ & F4 & _). cbv zeta in F4. rewrite Eo in F4.
    destruct Hs0 as (i0 & c0 & i3 & c1 & z1 & E0 & _ & Eq & ->). cbn [st_stats] in F4.
    assert (HLi : Linit = iL i0) by (unfold Linit; rewrite E0; reflexivity).
    apply (init_qub_halvings _ nL) in Eq.
    - cbn [stats0 s_stepsize_bt] in Eq. rewrite F4 in A8. repeat split; try assumption. lia.
    - unfold eval_psih. destruct (p_eager P); cbn [iL eval_prox set_gamma_L]; rewrite <- HLi; exact Hpos.
    - unfold eval_psih. destruct (p_eager P); cbn [iL eval_prox set_gamma_L]; rewrite <- HLi; exact HL.
  Qed.
End Nbt.
