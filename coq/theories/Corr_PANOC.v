(* Corr_PANOC.v — whole-run correspondence: Panoc.panoc at binary64 against PANOCSolver<ScriptedDirection>::operator()
   as run by harness/drv_solve.cpp.  The oracles of Panoc.v are instantiated with
     - the problem family of drv_solve (VProblem): f = ½x'Qx + c'x + Σ w_i x_i⁴/4, g_i = A_i x + d_i x_{i mod n}², boxes C, D, l1,
       and the DEFAULT compositions of type-erased-problem.tpp for eval_ψ, eval_ψ_grad_ψ, eval_grad_ψ, eval_grad_L
       (calc_ŷ_dᵀŷ from AugLag.v), operation order as in the C++;
     - the ScriptedDirection of drv_solve.cpp (kinds 0..9, kind 6 = its LCG);
     - stop_req from the driver's injection points (stop() inside evaluation #E / callback #C / direction call #D);
     - time_up constant (max_time = 0 ns or unlimited).
   The model's whole trajectory (every progress-callback record, final status, outputs, counters, evaluation counts)
   must equal the implementation's. *)
From Coq Require Import Floats List ZArith Bool Arith.
From Alpaqa Require Import Num NumF Vec Prox SolverStatus SolverKernels AugLag Panoc.
Import ListNotations.

Section Family.
  Context {T : Type} `{Num T}.
  Local Open Scope num_scope.
  Variables (n : nat) (Q : list (list T)) (c w : list T) (A : list (list T)) (d : list T).

  Definition four : T := nofZ 4.
  (* eval_f: v = 0.5 * x.dot(Q*x) + c.dot(x); v += w(i)*x(i)*x(i)*x(i)*x(i)/4 *)
  Definition vp_f (x : list T) : T :=
    let Qx := map (fun row => vdot row x) Q in
    fold_left (fun v wx => v + fst wx * snd wx * snd wx * snd wx * snd wx / four) (combine w x)
              (half * vdot x Qx + vdot c x).
  (* eval_grad_f: gr = Q*x + c; gr(i) += w(i)*x(i)*x(i)*x(i) *)
  Definition vp_grad_f (x : list T) : list T :=
    map3 (fun row ci wx => (vdot row x + ci) + fst wx * snd wx * snd wx * snd wx) Q c (combine w x).
  (* eval_g: g = A*x; g(i) += d(i)*x(i%n)*x(i%n) *)
  Definition vp_g (x : list T) : list T :=
    map3 (fun row di i => let xj := nth (i mod n) x n0 in vdot row x + di * xj * xj) A d (seq 0 (length A)).
  (* eval_grad_g_prod: gr = A'y; gr(i%n) += 2*d(i)*x(i%n)*y(i) *)
  Fixpoint upd_nth (j : nat) (f : T -> T) (v : list T) : list T :=
    match v, j with
    | [], _ => []
    | a :: v', O => f a :: v'
    | a :: v', S j' => a :: upd_nth j' f v'
    end.
  Definition col (j : nat) : list T := map (fun row => nth j row n0) A.
  Definition vp_grad_g_prod (x y : list T) : list T :=
    let base := map (fun j => vdot (col j) y) (seq 0 n) in
    fold_left (fun gr idy => let '(i, di, yi) := idy in
                 let j := (i mod n)%nat in upd_nth j (fun a => a + n2 * di * nth j x n0 * yi) gr)
              (combine (combine (seq 0 (length d)) d) y) base.

  Variables (Dlb Dub : list (option T)).
  Definition vprob : problem :=
    {| pf := vp_f; pgrad_f := vp_grad_f; pg := vp_g; pgrad_g_prod := vp_grad_g_prod; plb := Dlb; pub := Dub;
       uf_grad_f := fun _ => (n0, []); uf_g := fun _ => (n0, []);
       ugrad_f_grad_g_prod := fun _ _ => ([], []); ugrad_L := fun _ _ => [];
       upsi := fun _ _ _ => (n0, []); ugrad_psi := fun _ _ _ => [];
       upsi_grad_psi := fun _ _ _ => (n0, []);
       uhess_L_prod := fun _ _ _ _ => []; uhess_psi_prod := fun _ _ _ _ _ => [] |}.

  Variables (y Σ : list T).
  (* default_eval_grad_L *)
  Definition o_grad_L (x yh : list T) : list T :=
    match yh with [] => vp_grad_f x | _ => vadd (vp_grad_f x) (vp_grad_g_prod x yh) end.
  (* default_eval_ψ: (ψ, ŷ) *)
  Definition o_psi_yhat (x : list T) : T * list T :=
    match y with
    | [] => (vp_f x, [])
    | _ => let g := vp_g x in let fx := vp_f x in
           let cy := fst (calc_yhat vprob g y Σ) in
           (fx + half * fst cy, snd cy)
    end.
  (* default_eval_ψ_grad_ψ: (ψ, ∇ψ, work_m = ŷ) *)
  Definition o_psi_grad_full (x : list T) : T * list T * list T :=
    match y with
    | [] => (vp_f x, vp_grad_f x, [])
    | _ => let r := o_psi_yhat x in (fst r, o_grad_L x (snd r), snd r)
    end.
  (* default_eval_grad_ψ *)
  Definition o_grad_psi (x : list T) : list T :=
    match y with
    | [] => vp_grad_f x
    | _ => o_grad_L x (snd (fst (calc_yhat vprob (vp_g x) y Σ)))
    end.
End Family.

Local Open Scope float_scope.

(* ---------------------------------------------------------------- ScriptedDirection of drv_solve.cpp *)
Definition lcg_next (s : Z) : Z := ((s * 1103515245 + 12345) mod 4294967296)%Z.
Fixpoint lcg_iter (k : nat) (s : Z) : Z := match k with O => s | S k' => lcg_iter k' (lcg_next s) end.
Fixpoint lcg_vec (k : nat) (s : Z) : list float :=
  match k with
  | O => []
  | S k' => let s' := lcg_next s in
            (f_ofZ (Z.land (Z.shiftr s' 8) 65535) / 32768 - 1) :: lcg_vec k' s'
  end.
Definition kind_at (script : list nat) (j : nat) : nat :=
  match script with [] => 0%nat | _ => nth (j mod length script) script 0%nat end.
Fixpoint count6 (script : list nat) (j : nat) : nat :=      (* number of kind-6 calls among calls 0..j-1 *)
  match j with O => 0%nat | S j' => (count6 script j' + (if Nat.eqb (kind_at script j') 6 then 1 else 0))%nat end.
Definition scripted (script : list nat) (n : nat) (j : nat) (it : iterate (T:=float)) : option (list float) :=
  match kind_at script j with
  | 0%nat => None
  | 1%nat => Some (ip it)
  | 2%nat => Some (map (fun v => 3 * v) (ip it))
  | 3%nat => Some (map (fun v => 10 * v) (igrad it))
  | 4%nat => Some (map (fun v => 0x1.7d784p+26 * v) (ip it))                 (* 1e8 *)
  | 5%nat => Some (repeat nan n)
  | 6%nat => Some (lcg_vec n (lcg_iter (n * count6 script j) 12345%Z))
  | 7%nat => Some (map (fun v => (- igam it) * v) (igrad it))
  | 9%nat => Some (map (fun v => 0x1.4e718d7d7625ap+664 * v) (ip it)) (* 1e200 *)
  | _ => Some (repeat 0 n)
  end.

(* ---------------------------------------------------------------- cases *)
(* one callback record as reported by the driver *)
Record xrec := mkX { x_k : nat; x_status : status; x_x : list float; x_p : list float; x_nsqp : float; x_xh : list float;
                     x_yh : list float; x_phi : float; x_psi : float; x_grad : list float; x_psih : float; x_gradh : list float;
                     x_L : float; x_gamma : float; x_eps : float; x_tau : float; x_q : list float }.

Inductive pcase :=
| PCase (n : nat) (Q : list (list float)) (c w : list float) (A : list (list float)) (d : list float)
        (Clb Cub Dlb Dub l1 : list float) (x0 y0 S0 : list float)
        (prm : params (T:=float)) (script : list nat) (initial : bool)
        (stop_eval stop_cb stop_dir : Z) (time0 : bool) (fuel lsfuel : nat)
        (* what the implementation did *)
        (status : status) (iterations : nat) (eps : float) (x_out y_out errz : list float)
        (ist : list nat)        (* stepsize_backtracks linesearch_backtracks linesearch_failures lbfgs_failures tau_1_accepted count_tau *)
        (fst_ : list float)     (* sum_tau final_gamma final_psi final_h final_phi *)
        (evals dircalls cbs : nat) (recs : list xrec).

Definition evals_of (m : nat) (c : counters) : nat :=
  match m with
  | O => (2 * c_pg c + c_py c + c_gl c + c_gpsi c)%nat
  | _ => (4 * c_pg c + 2 * c_py c + 2 * c_gl c + 3 * c_gpsi c)%nat
  end.
Definition after (limit : Z) (count : nat) : bool := (0 <=? limit)%Z && (limit <? Z.of_nat count)%Z.

Definition run_case (cs : pcase) : result (T:=float) :=
  match cs with
  | PCase n Q c w A d Clb Cub Dlb Dub l1 x0 y0 S0 prm script initial se sc sd time0 fuel lsfuel _ _ _ _ _ _ _ _ _ _ _ _ =>
      let dlb := map lb_of_float Dlb in let dub := map ub_of_float Dub in
      let m := length y0 in
      panoc (o_psi_grad_full n Q c w A d dlb dub y0 S0) (o_psi_yhat n Q c w A d dlb dub y0 S0)
            (o_grad_L n Q c w A d) (o_grad_psi n Q c w A d dlb dub y0 S0)
            (map lb_of_float Clb) (map ub_of_float Cub) l1
            (scripted script n) initial
            (fun cn => after se (evals_of m cn) || after sc (c_cb cn) || after sd (c_dir cn))
            (fun _ => time0)
            prm x0 y0 S0 (repeat nan m) lsfuel fuel
  end.

Definition rec_of (r : cbrec (T:=float)) : xrec :=
  let i := r_it r in
  mkX (r_k r) (r_status r) (ix i) (ip i) (ipp i) (ixh i) (iyh i) (it_fbe i) (ipsi i) (igrad i) (ipsih i)
      (if ihave i then igradh i else []) (iL i) (igam i) (r_eps r) (r_tau r) (r_q r).

Definition rec_agree (a b : xrec) : bool :=
  Nat.eqb (x_k a) (x_k b) && status_eqb (x_status a) (x_status b) && vfeq (x_x a) (x_x b) && vfeq (x_p a) (x_p b) &&
  feq (x_nsqp a) (x_nsqp b) && vfeq (x_xh a) (x_xh b) && vfeq (x_yh a) (x_yh b) && feq (x_phi a) (x_phi b) &&
  feq (x_psi a) (x_psi b) && vfeq (x_grad a) (x_grad b) && feq (x_psih a) (x_psih b) && vfeq (x_gradh a) (x_gradh b) &&
  feq (x_L a) (x_L b) && feq (x_gamma a) (x_gamma b) && feq (x_eps a) (x_eps b) && feq (x_tau a) (x_tau b) &&
  (* q is uninitialised memory in the C++ until the first successful apply: the model has [] there *)
  (match x_q a with [] => true | _ => vfeq (x_q a) (x_q b) end).

Definition ist_of (o : outputs (T:=float)) : list nat :=
  let s := out_stats o in [s_stepsize_bt s; s_ls_bt s; s_ls_fail s; s_dir_fail s; s_tau1 s; s_count_tau s].
Definition fst_of (o : outputs (T:=float)) : list float :=
  let f := out_final o in [s_sum_tau (out_stats o); igam f; ipsih f; ih f; it_fbe f].

Definition chkpanoc (cs : pcase) : bool :=
  match cs with
  | PCase n Q c w A d Clb Cub Dlb Dub l1 x0 y0 S0 prm script initial se sc sd time0 fuel lsfuel
          status iterations eps x_out y_out errz ist fst_ evals dircalls cbs recs =>
      match run_case cs with
      | Done o =>
          status_eqb (out_status o) status && Nat.eqb (out_iterations o) iterations && feq (out_eps o) eps &&
          vfeq (out_x o) x_out && vfeq (out_y o) y_out && vfeq (out_errz o) errz &&
          list_agree Nat.eqb (ist_of o) ist && vfeq (fst_of o) fst_ &&
          Nat.eqb (evals_of (length y0) (out_cnt o)) evals && Nat.eqb (c_dir (out_cnt o)) dircalls && Nat.eqb (c_cb (out_cnt o)) cbs &&
          list_agree rec_agree (map rec_of (out_log o)) recs
      | NotFiniteL _ =>
          (* Stats{} with status NotFinite; nothing written, no callback *)
          status_eqb StNotFinite status && Nat.eqb 0 iterations && feq infinity eps &&
          vfexact x0 x_out && vfexact y0 y_out && vfexact (repeat nan (length y0)) errz &&
          list_agree Nat.eqb [0; 0; 0; 0; 0; 0]%nat ist && Nat.eqb 0 cbs && match recs with [] => true | _ => false end
      | OutOfFuel => false
      end
  end.

Definition case_m (cs : pcase) : nat :=
  match cs with
  | PCase n Q c w A d Clb Cub Dlb Dub l1 x0 y0 S0 prm script initial se sc sd time0 fuel lsfuel
          status iterations eps x_out y_out errz ist fst_ evals dircalls cbs recs => length y0
  end.

(* printable summary of the model run (dump of the first disagreeing case) *)
Definition modelpanoc (cs : pcase) :=
  match run_case cs with
  | Done o => (Some (out_status o, out_iterations o, out_eps o, (out_x o, out_y o, out_errz o), (ist_of o, fst_of o)),
               (evals_of (case_m cs) (out_cnt o),
                c_dir (out_cnt o), c_cb (out_cnt o), c_polls (out_cnt o)),
               map rec_of (out_log o))
  | NotFiniteL L => (None, (0, 0, 0, 0)%nat, [mkX 0 StNotFinite [] [] L [] [] 0 0 [] 0 [] L 0 0 0 []])
  | OutOfFuel => (None, (1, 1, 1, 1)%nat, [])
  end.
