(* Corr_C04.v — correspondence cases for C04: the model AugLag.v run at binary64 on the problem family
   `quad_problem` with provider mask `bits`, compared with what the real interface (TypeErasedProblem,
   reached directly / through ProblemWithCounters / as FunctionalProblem) returned, including the call log. *)
From Coq Require Import Floats List ZArith Bool PeanoNat.
From Alpaqa Require Import Num NumF Vec Prox AugLag VtableGen.
Import ListNotations.

Definition obs04 := (float * list float * list float * list nat)%type.

(* route 0: MaskProblem directly / through ProblemWithCounters (also: class without provides_eval_hess_ψ, directly);
   route 1: FunctionalProblem — does not log eval_proj_diff_g (inherited from BoxConstrProblem);
   route 2: ProblemWithCounters over a class that has provides_eval_hess_ψ_prod but no provides_eval_hess_ψ member;
   route 3: alpaqa::CasADiProblem (harness/drv_casadi.cpp) loaded from a generated CasADi-ABI shared object whose functions are the
            closed forms of this family (harness/cas_closed_forms.h, operation order of drv_C04); `bits` = the members CasADiProblem
            provides for the functions the shared object exports (f_grad_f always; never f_g / grad_f_grad_g_prod); the log lists
            the GENERATED FUNCTIONS entered (numbering of drv_casadi: 0 f, 1 f_grad_f, 2 g, 3 grad_g_prod, 5 grad_L, 6 hess_L_prod,
            8 psi, 9 psi_grad_psi, 10 hess_psi_prod) *)
Inductive c04case :=
| C04 (route : nat) (Q : list (list float)) (c : list float) (A At : list (list float))
      (b w lb ub x y Σ : list float) (bits : nat) (scale : float) (v : list float) (obs : list obs04).

Definition codes (filt : bool) (l : list fn) : list nat :=
  map fn_code (if filt then filter (fun c => negb (Nat.eqb (fn_code c) 4)) l else l).

(* which generated function a member of CasADiProblem enters: eval_grad_f and eval_f_grad_f both evaluate f_grad_f, eval_grad_ψ
   forwards to eval_ψ_grad_ψ, eval_g / eval_grad_g_prod return without a call when m = 0, eval_proj_diff_g is inherited.
   f_g / grad_f_grad_g_prod are never supplied by CasADiProblem (codes 12, 13 would show up as a disagreement). *)
Definition cas_code (m0 : bool) (c : fn) : list nat :=
  match c with
  | Ff => [0] | Fgrad_f => [1] | Ff_grad_f => [1]
  | Fg => if m0 then [] else [2]
  | Fgrad_g_prod => if m0 then [] else [3]
  | Fproj_diff_g => []
  | Ff_g => [12] | Fgrad_f_grad_g_prod => [13]
  | Fgrad_L => [5] | Fpsi => [8] | Fgrad_psi => [9] | Fpsi_grad_psi => [9]
  | Fhess_L_prod => [6] | Fhess_psi_prod => [10]
  end%nat.
Definition route_log (route m : nat) (l : list fn) : list nat :=
  if Nat.eqb route 3 then flat_map (cas_code (Nat.eqb m 0)) l else codes (Nat.eqb route 1) l.

Definition model04 (cs : c04case) : list obs04 :=
  match cs with
  | C04 route Q c A At b w lb ub x y Σ bits scale v _ =>
      let P0 := quad_problem Q c A At b w (map lb_of_float lb) (map ub_of_float ub) in
      (* the driver's class poisons the output of a Hessian product it does not provide *)
      let P := if Nat.testbit bits 8 then P0 else
               {| pf := pf P0; pgrad_f := pgrad_f P0; pg := pg P0; pgrad_g_prod := pgrad_g_prod P0; plb := plb P0; pub := pub P0;
                  uf_grad_f := uf_grad_f P0; uf_g := uf_g P0; ugrad_f_grad_g_prod := ugrad_f_grad_g_prod P0;
                  ugrad_L := ugrad_L P0; upsi := upsi P0; ugrad_psi := ugrad_psi P0; upsi_grad_psi := upsi_grad_psi P0;
                  uhess_L_prod := uhess_L_prod P0;
                  uhess_psi_prod := fun _ _ _ _ v => map (fun _ => nan) v |} in
      let pr := if Nat.eqb route 2 then counters_prov false (prov_of_bits bits) else prov_of_bits bits in
      let L := route_log route (length b) in
      let z := 0%float in
      let e0 := te_f_grad_f P pr x in
      let e1 := te_f_g P pr x in
      let e2 := te_grad_f_grad_g_prod P pr x y in
      let e3 := te_grad_L P pr x y in
      let e4 := te_psi P pr x y Σ in
      let e5 := te_grad_psi P pr x y Σ in
      let e6 := te_psi_grad_psi P pr x y Σ in
      let e7 := calc_yhat P (pg P x) y Σ in
      let e8 := te_hess_psi_prod P pr (length b) x y Σ scale v in
      [ (fst (fst e0), snd (fst e0), [], L (snd e0));
        (fst (fst e1), snd (fst e1), [], L (snd e1));
        (z, fst (fst e2), snd (fst e2), L (snd e2));
        (z, fst e3, [], L (snd e3));
        (fst (fst e4), snd (fst e4), [], L (snd e4));
        (z, fst e5, [], L (snd e5));
        (fst (fst e6), snd (fst e6), [], L (snd e6));
        (fst (fst e7), snd (fst e7), [], L (snd e7));
        (match fst e8 with Some _ => 1%float | None => z end,
         match fst e8 with Some h => h | None => [] end, [], L (snd e8)) ]
  end.

(* the same observation computed with the terms GENERATED from the sources (coq/gen/VtableGen.v); the driver fills the
   ŷ buffer with NaN before the call, so an untouched buffer of size m shows up as NaN *)
Definition model04g (cs : c04case) : list obs04 :=
  match cs with
  | C04 route Q c A At b w lb ub x y Σ bits scale v _ =>
      let P0 := quad_problem Q c A At b w (map lb_of_float lb) (map ub_of_float ub) in
      (* the driver's class poisons the output of a Hessian product it does not provide *)
      let P := if Nat.testbit bits 8 then P0 else
               {| pf := pf P0; pgrad_f := pgrad_f P0; pg := pg P0; pgrad_g_prod := pgrad_g_prod P0; plb := plb P0; pub := pub P0;
                  uf_grad_f := uf_grad_f P0; uf_g := uf_g P0; ugrad_f_grad_g_prod := ugrad_f_grad_g_prod P0;
                  ugrad_L := ugrad_L P0; upsi := upsi P0; ugrad_psi := ugrad_psi P0; upsi_grad_psi := upsi_grad_psi P0;
                  uhess_L_prod := uhess_L_prod P0;
                  uhess_psi_prod := fun _ _ _ _ v => map (fun _ => nan) v |} in
      let pr := if Nat.eqb route 2 then counters_prov false (prov_of_bits bits) else prov_of_bits bits in
      let L := route_log route (length b) in
      let z := 0%float in
      let e0 := gvt_eval_f_grad_f P pr x in
      let e1 := gvt_eval_f_g P pr x in
      let e2 := gvt_eval_grad_f_grad_g_prod P pr x y in
      let e3 := gvt_eval_grad_L P pr x y in
      let e4 := gvt_eval_psi P pr x y Σ (map (fun _ => nan) y) in
      let e5 := gvt_eval_grad_psi P pr x y Σ in
      let e6 := gvt_eval_psi_grad_psi P pr x y Σ in
      let e7 := gcalc P (pg P x) y Σ in
      let e8 := gvt_eval_hess_psi_prod P pr (length b) x y Σ scale v in
      [ (fst (fst e0), snd (fst e0), [], L (snd e0));
        (fst (fst e1), snd (fst e1), [], L (snd e1));
        (z, fst (fst e2), snd (fst e2), L (snd e2));
        (z, fst e3, [], L (snd e3));
        (fst (fst e4), snd (fst e4), [], L (snd e4));
        (z, fst e5, [], L (snd e5));
        (fst (fst e6), snd (fst e6), [], L (snd e6));
        (fst (fst e7), snd (fst e7), [], L (snd e7));
        (match fst e8 with Some _ => 1%float | None => z end,
         match fst e8 with Some h => h | None => [] end, [], L (snd e8)) ]
  end.

(* the call log is compared as a multiset (how often each user member was called): the order of independent
   calls inside a default composition is not part of the property *)
Definition hist (l : list nat) : list nat := map (fun k => count_occ Nat.eq_dec l k) (seq 0 14).
Definition obs_agree (a b : obs04) : bool :=
  let '(s, v1, v2, l) := a in let '(s', v1', v2', l') := b in
  feq s s' && vfeq v1 v1' && vfeq v2 v2' && list_agree Nat.eqb (hist l) (hist l').

Definition chk04 (cs : c04case) : bool :=
  match cs with
  | C04 _ _ _ _ _ _ _ _ _ _ _ _ _ _ _ obs => list_agree obs_agree (model04 cs) obs
  end.

Definition chk04g (cs : c04case) : bool :=
  match cs with
  | C04 _ _ _ _ _ _ _ _ _ _ _ _ _ _ _ obs => list_agree obs_agree (model04g cs) obs
  end.
