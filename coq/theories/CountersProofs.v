(* CountersProofs.v — proofs about Counters.v (shared evaluation counters of the counting wrappers). *)
From Coq Require Import List Arith Bool Lia String.
From Alpaqa Require Import Counters.
Import ListNotations.

Ltac deq :=
  repeat match goal with
  | |- context [?a =? ?b] => destruct (Nat.eqb_spec a b)
  | H : context [?a =? ?b] |- _ => destruct (Nat.eqb_spec a b)
  | |- context [?a <? ?b] => destruct (Nat.ltb_spec a b)
  | H : context [?a <? ?b] |- _ => destruct (Nat.ltb_spec a b)
  end.

(** refinement invariant between the heap model (after `run`) and the pointer-free specification *)
Record Inv (h : list op) (st : state) : Prop := mkInv {
  inv_nw  : nwr st = nw h;
  inv_ptr : forall w, w < nw h -> exists b, b < nbl st /\ ptr st w = Some b;
  inv_sh  : forall a b, a < nw h -> b < nw h -> (shares h a b = true <-> ptr st a = ptr st b);
  inv_cnt : forall w b f, w < nw h -> ptr st w = Some b -> heap st b f = count h w f
}.

Lemma inv_init : Inv [] init.
Proof. constructor; simpl; intros; try lia; reflexivity. Qed.

Lemma step_new : forall h st, Inv h st ->
  exists st', step ResetZeroesBlock st ONew = Some st' /\ Inv (ONew :: h) st'.
Proof.
  intros h st [Hn Hp Hs Hc]. eexists; split; [reflexivity|].
  constructor; simpl.
  - now rewrite Hn.
  - intros w Hw. unfold upd. rewrite Hn. destruct (Nat.eqb_spec w (nw h)).
    + eexists; split; [|reflexivity]. lia.
    + destruct (Hp w) as [b [Hb E]]; [lia|]. exists b; split; [lia|assumption].
  - intros a b Ha Hb. unfold upd. rewrite Hn.
    destruct (Nat.eqb_spec a (nw h)), (Nat.eqb_spec b (nw h)); simpl; subst.
    + rewrite Nat.eqb_refl. tauto.
    + destruct (Hp b) as [b0 [Hb0 E]]; [lia|]. rewrite E.
      destruct (Nat.eqb_spec (nw h) b); [lia|]. split; [discriminate|]. intros X; inversion X; lia.
    + destruct (Hp a) as [b0 [Hb0 E]]; [lia|]. rewrite E.
      destruct (Nat.eqb_spec a (nw h)); [lia|]. split; [discriminate|]. intros X; inversion X; lia.
    + apply Hs; lia.
  - intros w b f Hw. unfold upd. rewrite Hn. destruct (Nat.eqb_spec w (nw h)).
    + intros X; inversion X; subst. rewrite Nat.eqb_refl. reflexivity.
    + intros E. destruct (Hp w) as [b0 [Hb0 E0]]; [lia|]. rewrite E in E0; inversion E0; subst.
      destruct (Nat.eqb_spec b0 (nbl st)); [lia|]. apply Hc; [lia|assumption].
Qed.

Lemma step_call : forall h st w f, Inv h st -> w < nw h ->
  exists st', step ResetZeroesBlock st (OCall w f) = Some st' /\ Inv (OCall w f :: h) st'.
Proof.
  intros h st w f [Hn Hp Hs Hc] Hw. simpl. rewrite Hn.
  destruct (Nat.ltb_spec w (nw h)); [|lia].
  destruct (Hp w Hw) as [bw [Hbw Ew]]. rewrite Ew.
  eexists; split; [reflexivity|]. constructor; simpl; auto.
  intros v b g Hv Ev. unfold upd, inc.
  destruct (Nat.eqb_spec b bw).
  - subst b. assert (S : shares h v w = true) by (apply Hs; auto; congruence). rewrite S.
    rewrite andb_true_r. destruct (Nat.eqb_spec g f); rewrite (Hc v bw g Hv Ev); lia.
  - assert (S : shares h v w = false).
    { destruct (shares h v w) eqn:E; [|reflexivity]. apply Hs in E; auto. congruence. }
    rewrite S, andb_false_r. rewrite (Hc v b g Hv Ev). lia.
Qed.

Lemma step_copy : forall h st s, Inv h st -> s < nw h ->
  exists st', step ResetZeroesBlock st (OCopy s) = Some st' /\ Inv (OCopy s :: h) st'.
Proof.
  intros h st s [Hn Hp Hs Hc] Hw. simpl. rewrite Hn.
  destruct (Nat.ltb_spec s (nw h)); [|lia].
  eexists; split; [reflexivity|].
  assert (R : forall x, x < S (nw h) -> (if x =? nw h then s else x) < nw h
              /\ upd (ptr st) (nw h) (ptr st s) x = ptr st (if x =? nw h then s else x)).
  { intros x Hx. unfold upd. destruct (Nat.eqb_spec x (nw h)); split; auto; lia. }
  constructor; simpl.
  - reflexivity.
  - intros w Hw'. destruct (R w Hw') as [R1 R2]. rewrite R2. apply Hp; auto.
  - intros a b Ha Hb. destruct (R a Ha) as [A1 A2], (R b Hb) as [B1 B2]. rewrite A2, B2. apply Hs; auto.
  - intros w b f Hw'. destruct (R w Hw') as [R1 R2]. rewrite R2. intros E. apply Hc; auto.
Qed.

Lemma step_assign : forall h st d s, Inv h st -> d < nw h -> s < nw h ->
  exists st', step ResetZeroesBlock st (OAssign d s) = Some st' /\ Inv (OAssign d s :: h) st'.
Proof.
  intros h st d s [Hn Hp Hs Hc] Hd Hw. simpl. rewrite Hn.
  destruct (Nat.ltb_spec d (nw h)); [|lia]. destruct (Nat.ltb_spec s (nw h)); [|lia]. simpl.
  eexists; split; [reflexivity|].
  assert (R : forall x, x < nw h -> (if x =? d then s else x) < nw h
              /\ upd (ptr st) d (ptr st s) x = ptr st (if x =? d then s else x)).
  { intros x Hx. unfold upd. destruct (Nat.eqb_spec x d); split; auto; lia. }
  constructor; simpl; auto.
  - intros w Hw'. destruct (R w Hw') as [R1 R2]. rewrite R2. apply Hp; auto.
  - intros a b Ha Hb. destruct (R a Ha) as [A1 A2], (R b Hb) as [B1 B2]. rewrite A2, B2. apply Hs; auto.
  - intros w b f Hw'. destruct (R w Hw') as [R1 R2]. rewrite R2. intros E. apply Hc; auto.
Qed.

Lemma step_decouple : forall h st w, Inv h st -> w < nw h ->
  exists st', step ResetZeroesBlock st (ODecouple w) = Some st' /\ Inv (ODecouple w :: h) st'.
Proof.
  intros h st w [Hn Hp Hs Hc] Hw. simpl. rewrite Hn.
  destruct (Nat.ltb_spec w (nw h)); [|lia].
  destruct (Hp w Hw) as [bw [Hbw Ew]]. rewrite Ew.
  eexists; split; [reflexivity|]. constructor; simpl; auto.
  - intros v Hv. unfold upd. destruct (Nat.eqb_spec v w).
    + eexists; split; [|reflexivity]. lia.
    + destruct (Hp v Hv) as [b [Hb E]]. exists b; split; [lia|assumption].
  - intros a b Ha Hb. unfold upd.
    destruct (Nat.eqb_spec a w), (Nat.eqb_spec b w); simpl; subst.
    + rewrite Nat.eqb_refl. tauto.
    + destruct (Hp b Hb) as [b0 [Hb0 E]]. rewrite E.
      destruct (Nat.eqb_spec w b); [lia|]. split; [discriminate|]. intros X; inversion X; lia.
    + destruct (Hp a Ha) as [b0 [Hb0 E]]. rewrite E.
      destruct (Nat.eqb_spec a w); [lia|]. split; [discriminate|]. intros X; inversion X; lia.
    + apply Hs; auto.
  - intros v b f Hv. unfold upd. destruct (Nat.eqb_spec v w).
    + intros X; inversion X; subst. rewrite Nat.eqb_refl. apply Hc; auto.
    + intros E. destruct (Hp v Hv) as [b0 [Hb0 E0]]. rewrite E in E0; inversion E0; subst.
      destruct (Nat.eqb_spec b0 (nbl st)); [lia|]. apply Hc; auto.
Qed.

Lemma step_reset : forall h st w, Inv h st -> w < nw h ->
  exists st', step ResetZeroesBlock st (OReset w) = Some st' /\ Inv (OReset w :: h) st'.
Proof.
  intros h st w [Hn Hp Hs Hc] Hw. simpl. rewrite Hn.
  destruct (Nat.ltb_spec w (nw h)); [|lia].
  destruct (Hp w Hw) as [bw [Hbw Ew]]. rewrite Ew.
  eexists; split; [reflexivity|]. constructor; simpl; auto.
  intros v b g Hv Ev. unfold upd, zero_block.
  destruct (Nat.eqb_spec b bw).
  - subst b. assert (S : shares h v w = true) by (apply Hs; auto; congruence). now rewrite S.
  - assert (S : shares h v w = false).
    { destruct (shares h v w) eqn:E; [|reflexivity]. apply Hs in E; auto. congruence. }
    rewrite S. apply Hc; auto.
Qed.

(** MAIN REFINEMENT: with the documented reset, every well-formed history runs without undefined behaviour and
    ends in a state that satisfies the invariant. *)
Theorem refine : forall h, wf h -> exists st, run ResetZeroesBlock h = Some st /\ Inv h st.
Proof.
  induction h as [|o h IH]; intros W.
  - exists init; split; [reflexivity|apply inv_init].
  - destruct o; simpl in W.
    + destruct (IH W) as [st [R I]]. destruct (step_new h st I) as [st' [S I']].
      exists st'; split; [simpl; rewrite R; exact S|exact I'].
    + destruct W as [W1 W]. destruct (IH W) as [st [R I]]. destruct (step_call h st w f I W1) as [st' [S I']].
      exists st'; split; [simpl run; rewrite R; exact S|exact I'].
    + destruct W as [W1 W]. destruct (IH W) as [st [R I]]. destruct (step_copy h st w I W1) as [st' [S I']].
      exists st'; split; [simpl run; rewrite R; exact S|exact I'].
    + destruct W as [W1 [W2 W]]. destruct (IH W) as [st [R I]].
      destruct (step_assign h st d s I W1 W2) as [st' [S I']].
      exists st'; split; [simpl run; rewrite R; exact S|exact I'].
    + destruct W as [W1 W]. destruct (IH W) as [st [R I]]. destruct (step_decouple h st w I W1) as [st' [S I']].
      exists st'; split; [simpl run; rewrite R; exact S|exact I'].
    + destruct W as [W1 W]. destruct (IH W) as [st [R I]]. destruct (step_reset h st w I W1) as [st' [S I']].
      exists st'; split; [simpl run; rewrite R; exact S|exact I'].
Qed.

(** the counters read what the specification says, for every history *)
Theorem counter_counts_calls : forall h, wf h ->
  exists st, run ResetZeroesBlock h = Some st /\ nwr st = nw h /\
    forall w f, w < nw h -> read st w f = Some (count h w f).
Proof.
  intros h W. destruct (refine h W) as [st [R [Hn Hp Hs Hc]]]. exists st; repeat split; auto.
  intros w f Hw. unfold read. destruct (Hp w Hw) as [b [Hb E]]. rewrite E. f_equal. apply Hc; auto.
Qed.

(** two wrappers point to the same block exactly when the specification says they share *)
Theorem sharing_refines : forall h, wf h ->
  exists st, run ResetZeroesBlock h = Some st /\
    forall a b, a < nw h -> b < nw h -> (shares h a b = true <-> ptr st a = ptr st b).
Proof.
  intros h W. destruct (refine h W) as [st [R [Hn Hp Hs Hc]]]. exists st; split; auto.
Qed.

(** resetting (documented semantics) never makes a wrapper unusable: no well-formed history hits UB *)
Theorem reset_keeps_usable : forall h, wf h -> run ResetZeroesBlock h <> None.
Proof. intros h W. destruct (refine h W) as [st [R _]]. congruence. Qed.

(** the shipped reset and the documented reset agree on histories that never reset *)
Lemma step_modes_agree : forall st o, (match o with OReset _ => False | _ => True end) ->
  step ResetNullsPointer st o = step ResetZeroesBlock st o.
Proof. intros st [] H; simpl in *; auto; contradiction. Qed.

Theorem impl_without_reset : forall h, no_reset h -> run ResetNullsPointer h = run ResetZeroesBlock h.
Proof.
  induction h as [|o h IH]; intros N; [reflexivity|].
  simpl. assert (N' : no_reset h) by (destruct o; simpl in N; auto; contradiction).
  rewrite (IH N'). destruct (run ResetZeroesBlock h); auto.
  apply step_modes_agree. destruct o; simpl in N; auto.
Qed.

Corollary impl_counts_without_reset : forall h, wf h -> no_reset h ->
  exists st, run ResetNullsPointer h = Some st /\ forall w f, w < nw h -> read st w f = Some (count h w f).
Proof.
  intros h W N. rewrite (impl_without_reset h N).
  destruct (counter_counts_calls h W) as [st [R [_ C]]]. exists st; auto.
Qed.

(* ------------------------------------------------------------------------------------------------ *)
(** * Properties of the specification itself (they say that `count`/`shares` mean what C20 states) *)

Lemma shares_refl : forall h w, wf h -> w < nw h -> shares h w w = true.
Proof.
  intros h w W Hw. destruct (refine h W) as [st [R [Hn Hp Hs Hc]]]. apply Hs; auto.
Qed.

Lemma shares_sym : forall h a b, wf h -> a < nw h -> b < nw h -> shares h a b = shares h b a.
Proof.
  intros h a b W Ha Hb. destruct (refine h W) as [st [R [Hn Hp Hs Hc]]].
  destruct (shares h a b) eqn:E1, (shares h b a) eqn:E2; auto.
  - apply Hs in E1; auto. symmetry in E1. apply Hs in E1; auto. congruence.
  - apply Hs in E2; auto. symmetry in E2. apply Hs in E2; auto. congruence.
Qed.

Lemma shares_trans : forall h a b c, wf h -> a < nw h -> b < nw h -> c < nw h ->
  shares h a b = true -> shares h b c = true -> shares h a c = true.
Proof.
  intros h a b c W Ha Hb Hc' E1 E2. destruct (refine h W) as [st [R [Hn Hp Hs Hc]]].
  apply Hs; auto. apply Hs in E1; auto. apply Hs in E2; auto. congruence.
Qed.

(** wrappers that share read the same values *)
Lemma sharers_read_equal : forall h a b f, wf h -> a < nw h -> b < nw h ->
  shares h a b = true -> count h a f = count h b f.
Proof.
  intros h a b f W Ha Hb E. destruct (refine h W) as [st [R [Hn Hp Hs Hc]]].
  apply Hs in E; auto. destruct (Hp a Ha) as [ba [_ Ea]]. destruct (Hp b Hb) as [bb [_ Eb]].
  rewrite <- (Hc a ba f Ha Ea), <- (Hc b bb f Hb Eb). congruence.
Qed.

(** a call increments exactly the called counter, for exactly the sharers *)
Lemma call_increments : forall h w f v g,
  count (OCall w f :: h) v g = count h v g + (if (g =? f) && shares h v w then 1 else 0).
Proof. reflexivity. Qed.

(** copy: the new wrapper (index nw h) shares with its source and starts from the source's values *)
Lemma copy_shares : forall h s, wf h -> s < nw h ->
  shares (OCopy s :: h) (nw h) s = true /\ forall f, count (OCopy s :: h) (nw h) f = count h s f.
Proof.
  intros h s W Hs. simpl. rewrite Nat.eqb_refl. destruct (Nat.eqb_spec s (nw h)); [lia|].
  split; [apply shares_refl; auto|reflexivity].
Qed.

(** ... and a later call through either of them is seen by both *)
Lemma copy_then_call_seen_by_both : forall h s f, wf h -> s < nw h ->
  count (OCall s f :: OCopy s :: h) (nw h) f = S (count h s f) /\
  count (OCall (nw h) f :: OCopy s :: h) s f = S (count h s f).
Proof.
  intros h s f W Hs.
  assert (W' : wf (OCopy s :: h)) by (simpl; auto).
  destruct (copy_shares h s W Hs) as [S1 C1].
  split.
  - rewrite call_increments, Nat.eqb_refl, S1, C1. simpl. lia.
  - rewrite call_increments, Nat.eqb_refl.
    rewrite (shares_sym (OCopy s :: h) s (nw h) W'); [|simpl; lia|simpl; lia].
    rewrite S1. simpl. destruct (Nat.eqb_spec s (nw h)); lia.
Qed.

(** decouple: values are preserved, and the wrapper no longer shares with anybody else *)
Lemma decouple_copies_then_separates : forall h w, wf h -> w < nw h ->
  (forall v f, count (ODecouple w :: h) v f = count h v f) /\
  (forall v, v <> w -> shares (ODecouple w :: h) w v = false /\ shares (ODecouple w :: h) v w = false) /\
  (forall v f g, v <> w -> count (OCall w g :: ODecouple w :: h) v f = count h v f) /\
  (forall v f g, v <> w -> count (OCall v g :: ODecouple w :: h) w f = count h w f).
Proof.
  intros h w W Hw. split; [|split; [|split]].
  - reflexivity.
  - intros v Hv. split.
    + simpl. rewrite Nat.eqb_refl. simpl. destruct (Nat.eqb_spec w v); congruence.
    + simpl. rewrite Nat.eqb_refl. rewrite orb_true_r. destruct (Nat.eqb_spec v w); congruence.
  - intros v f g Hv. rewrite call_increments. simpl shares. rewrite Nat.eqb_refl, orb_true_r.
    destruct (Nat.eqb_spec v w); [congruence|]. rewrite andb_false_r. simpl. lia.
  - intros v f g Hv. rewrite call_increments. simpl shares. rewrite Nat.eqb_refl. simpl.
    destruct (Nat.eqb_spec w v); [congruence|]. rewrite andb_false_r. simpl. lia.
Qed.

(** after a reset, k calls read k: "each counter equals the number of calls made since the last reset" *)
Lemma calls_after_reset : forall k h w f, wf h -> w < nw h ->
  wf (repeat (OCall w f) k ++ OReset w :: h) /\
  nw (repeat (OCall w f) k ++ OReset w :: h) = nw h /\
  count (repeat (OCall w f) k ++ OReset w :: h) w f = k.
Proof.
  induction k; intros h w f W Hw.
  - simpl. rewrite (shares_refl h w W Hw). auto.
  - destruct (IHk h w f W Hw) as [W' [N' C']]. simpl app.
    split; [|split].
    + simpl. rewrite N'. auto.
    + simpl. exact N'.
    + change (repeat (OCall w f) (S k) ++ OReset w :: h) with (OCall w f :: (repeat (OCall w f) k ++ OReset w :: h)).
      rewrite call_increments, C', Nat.eqb_refl, shares_refl; auto; [simpl; lia|lia].
Qed.

(** ... and a reset through one wrapper is seen by every sharer *)
Lemma reset_reaches_sharers : forall h w v f, shares h v w = true -> count (OReset w :: h) v f = 0.
Proof. intros. simpl. now rewrite H. Qed.

(** closed form for copy-only histories: every wrapper reads the total number of calls *)
Lemma only_call_copy_wf_nonempty : forall h, only_call_copy h -> 0 < nw h.
Proof.
  induction h as [|o h IH]; simpl; [tauto|].
  destruct o; try tauto; intros H; try (specialize (IH H)); try lia.
Qed.

Lemma only_call_copy_all_share : forall h, wf h -> only_call_copy h ->
  forall a b, a < nw h -> b < nw h -> shares h a b = true.
Proof.
  induction h as [|o h IH]; [simpl; tauto|].
  intros W O a b Ha Hb. destruct o.
  - destruct h; [|simpl in O; tauto]. simpl in *. assert (a = 0) by lia. assert (b = 0) by lia. subst. reflexivity.
  - simpl in *. destruct W as [_ W]. apply IH; auto.
  - simpl in *. destruct W as [Hw W].
    apply IH; auto; [destruct (Nat.eqb_spec a (nw h))|destruct (Nat.eqb_spec b (nw h))]; lia.
  - simpl in *. destruct W as [Hd [Hs W]].
    apply IH; auto; [destruct (Nat.eqb_spec a d)|destruct (Nat.eqb_spec b d)]; lia.
  - simpl in O. tauto.
  - simpl in O. tauto.
Qed.

Theorem copies_read_total_calls : forall h, wf h -> only_call_copy h ->
  forall w f, w < nw h -> count h w f = ncalls h f.
Proof.
  induction h as [|o h IH]; [simpl; tauto|].
  intros W O w f Hw. destruct o.
  - destruct h; [|simpl in O; tauto]. simpl in *. assert (w = 0) by lia. subst. reflexivity.
  - simpl in W. destruct W as [Hw0 W]. simpl in O. simpl in Hw.
    rewrite call_increments. simpl ncalls. rewrite (IH W O w f Hw).
    rewrite (only_call_copy_all_share h W O w w0 Hw Hw0). now rewrite andb_true_r.
  - simpl in *. destruct W as [Hs W]. apply IH; auto. destruct (Nat.eqb_spec w (nw h)); lia.
  - simpl in *. destruct W as [Hd [Hs W]]. apply IH; auto. destruct (Nat.eqb_spec w d); lia.
  - simpl in O. tauto.
  - simpl in O. tauto.
Qed.

(* ------------------------------------------------------------------------------------------------ *)
(** * The shipped reset (`evaluations.reset()` on the shared_ptr) violates the property *)

(** construct, reset, call: the call dereferences a null pointer *)
Theorem reset_nulls_then_call_is_ub :
  exists h, wf h /\ no_reset h = False /\ run ResetNullsPointer h = None.
Proof. exists [OCall 0 0; OReset 0; ONew]. simpl. repeat split; lia. Qed.

(** construct, reset, decouple: same *)
Theorem reset_nulls_then_decouple_is_ub : run ResetNullsPointer [ODecouple 0; OReset 0; ONew] = None.
Proof. reflexivity. Qed.

(** construct, call, copy, reset the original: the copy still reads 1 although it shared with the reset wrapper
    (documented: "Affects all instances that share the same evaluations") *)
Theorem reset_nulls_does_not_reach_sharers :
  exists h st w f, wf h /\ run ResetNullsPointer h = Some st /\ w < nw h /\
                   read st w f <> Some (count h w f).
Proof.
  exists [OReset 0; OCopy 0; OCall 0 0; ONew].
  eexists. exists 1, 0. split; [simpl; lia|]. split; [reflexivity|]. split; [simpl; lia|].
  vm_compute. discriminate.
Qed.

(* ------------------------------------------------------------------------------------------------ *)
(** * Soundness of the table checkers (generic in the table: the tables themselves are generated) *)

Lemma forallb_In : forall {A} (p : A -> bool) l, forallb p l = true -> forall x, In x l -> p x = true.
Proof. intros A p l H x Hx. rewrite forallb_forall in H. auto. Qed.

Lemma ostr_eqb_sound : forall a b, ostr_eqb a b = true -> a = Some b.
Proof. intros [s|] b; simpl; [|discriminate]. intros H. apply String.eqb_eq in H. now subst. Qed.

Lemma strs_eqb_sound : forall a b, strs_eqb a b = true -> a = b.
Proof.
  induction a as [|x a IH]; destruct b as [|y b]; simpl; try discriminate; auto.
  intros H. apply andb_true_iff in H as [H1 H2]. apply String.eqb_eq in H1. subst. f_equal. auto.
Qed.

Lemma counts_own_sound : forall e, counts_own e = true ->
  forall c, f_counter e = Some c -> f_name e = ("eval_" ++ c)%string /\ f_timer e = Some c.
Proof.
  unfold counts_own. intros e H c E. rewrite E in H. apply andb_true_iff in H as [H1 H2].
  apply String.eqb_eq in H1. apply ostr_eqb_sound in H2. auto.
Qed.

Lemma forwards_same_sound : forall e, forwards_same e = true -> f_callee e = f_name e /\ f_args e = f_params e.
Proof.
  unfold forwards_same. intros e H. apply andb_true_iff in H as [H1 H2].
  apply String.eqb_eq in H1. apply strs_eqb_sound in H2. auto.
Qed.

Lemma requires_own_sound : forall e, requires_own e = true -> forall s, f_requires e = Some s -> s = f_name e.
Proof.
  unfold requires_own, ostr_eqb_or_none. intros e H s E. rewrite E in H. now apply String.eqb_eq in H.
Qed.

Lemma field_uses_one_sound : forall unparsed fields tbl, fields_used_once unparsed fields tbl = true ->
  forall c, In c fields -> ~ In c unparsed -> field_uses tbl c = 1.
Proof.
  unfold fields_used_once. intros unparsed fields tbl H c Hc Hn.
  apply (forallb_In _ _ H) in Hc. apply orb_true_iff in Hc as [Hc|Hc].
  - exfalso. apply Hn. apply existsb_exists in Hc as [x [Hx E]]. apply String.eqb_eq in E. now subst.
  - now apply Nat.eqb_eq in Hc.
Qed.
