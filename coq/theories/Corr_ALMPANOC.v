(* Corr_ALMPANOC.v — whole-run correspondence of the COMPOSED model AlmPanoc.alm_panoc (ALM outer loop of Alm.v running the whole-loop PANOC
   model of Panoc.v on a problem seen through the vtable of AugLag.v) at binary64 against the real
   ALMSolver<PANOCSolver<ScriptedDirection>>::operator() as run by harness/drv_solve.cpp (mode "alm" / "alm_nosigma").
   Instantiation:
     - problem = the drv_solve family (Corr_PANOC.vprob: f, ∇f, g, ∇g·y, D), provider mask = bits 1..7 of the driver's flags integer;
       a supplied member returns what the default composition returns (VProblemProv delegates to a type-erased view of the plain
       problem) and leaves NaN in the caller's work buffers: wm_supplied = NaN vector;
     - ScriptedDirection with the GLOBAL apply index (its script position and LCG state persist across inner solves);
     - stop() injected at a cumulative evaluation / callback / direction-call index (the flag is never cleared);
       the two evaluations of ALM's automatic penalty initialisation precede the first inner solve;
     - clocks never expire; nanv = NaN.
   Compared: final status, outer_iterations, ε, δ, norm_penalty, inner_convergence_failures, sum of inner iterations, x, y, Σ written back,
   evaluation / direction-call / callback counts and EVERY progress-callback record of every inner solve
   (k, outer, x, x̂, p, γ, L, τ, ε, φ, ψ, ∇ψ, ψ̂, ∇ψ̂, ŷ, q, Σ, y). *)
From Coq Require Import Floats List ZArith Bool Arith.
From Alpaqa Require Import Num NumF Vec Prox SolverStatus SolverKernels AugLag Panoc Alm AlmCompose AlmPanoc Corr_PANOC.
Import ListNotations.

Arguments co_trace {T W Lg} _.
Arguments co_final {T W Lg} _.
Arguments co_x {T W Lg} _.
Arguments co_logs {T W Lg} _.
Arguments co_w {T W Lg} _.

Section Defaults.
  Context {T : Type} `{Num T}.
  Definition none_prov (c : fn) : bool := negb (fn_optional c).
  (* a problem whose optional combined members are the library's default compositions of its own basic functions *)
  Definition with_defaults (B : problem (T:=T)) : problem (T:=T) :=
    {| pf := pf B; pgrad_f := pgrad_f B; pg := pg B; pgrad_g_prod := pgrad_g_prod B; plb := plb B; pub := pub B;
       uf_grad_f := fun x => fst (te_f_grad_f B none_prov x);
       uf_g := fun x => fst (te_f_g B none_prov x);
       ugrad_f_grad_g_prod := fun x y => fst (te_grad_f_grad_g_prod B none_prov x y);
       ugrad_L := fun x y => fst (te_grad_L B none_prov x y);
       upsi := fun x y Σ => fst (te_psi B none_prov x y Σ);
       ugrad_psi := fun x y Σ => fst (te_grad_psi B none_prov x y Σ);
       upsi_grad_psi := fun x y Σ => fst (te_psi_grad_psi B none_prov x y Σ);
       uhess_L_prod := uhess_L_prod B; uhess_psi_prod := uhess_psi_prod B |}.
  Definition mkAP (tol dtol Delta ipen ipenf itol rho theta M maxpen minpen : T) (maxit : nat) (single : bool) : alm_params (T:=T) :=
    {| p_tol := tol; p_dual_tol := dtol; p_Delta := Delta; p_init_pen := ipen; p_init_pen_factor := ipenf; p_init_tol := itol;
       p_rho := rho; p_theta := theta; p_M := M; p_max_pen := maxpen; p_min_pen := minpen; Alm.p_max_iter := maxit; p_single := single |}.
End Defaults.

Local Open Scope float_scope.

(* one callback record as reported by the driver under ALM *)
Record arec := mkA { a_outer : nat; a_Sigma : list float; a_y : list float; a_x : xrec }.

Inductive apcase :=
| APCase (n : nat) (Q : list (list float)) (c w : list float) (A : list (list float)) (d : list float)
         (Clb Cub Dlb Dub l1 : list float) (split provbits : nat) (x0 y0 S0 : list float) (user_sigma : bool)
         (prm : params (T:=float)) (ap : alm_params (T:=float)) (script : list nat) (initial : bool)
         (stop_eval stop_cb stop_dir : Z) (fuel lsfuel ofuel : nat)
         (* what the implementation did *)
         (status : Alm.status) (outer : nat) (eps delta norm_pen : float) (fails iters : nat)
         (x_out y_out S_out : list float) (evals dircalls cbs : nat) (recs : list arec).

(* evaluations ALM itself makes before the first inner solve (initialize_penalty: eval_f, eval_g) *)
Definition alm_pre_evals (m : nat) (ap : alm_params (T:=float)) (user_sigma : bool) (S0 : list float) : nat :=
  if Nat.eqb (Alm.p_max_iter ap) 0 || Nat.eqb m 0 then 0%nat
  else if (user_sigma && sigma_accepted S0) || (0 <? p_init_pen ap) then 0%nat else 2%nat.
(* evaluations of compute_kkt_error after the run (eval_grad_L, eval_g) *)
Definition kkt_evals (m : nat) : nat := match m with O => 2%nat | _ => 3%nat end.

Definition run_ap (cs : apcase) : option (cout (T:=float) counters (result (T:=float))) :=
  match cs with
  | APCase n Q c w A d Clb Cub Dlb Dub l1 split provbits x0 y0 S0 user_sigma prm ap script initial se sc sd fuel lsfuel ofuel
           _ _ _ _ _ _ _ _ _ _ _ _ _ _ =>
      let dlb := map lb_of_float Dlb in let dub := map ub_of_float Dub in
      let m := length y0 in
      let Pb := with_defaults (vprob n Q c w A d dlb dub) in
      let off := alm_pre_evals m ap user_sigma S0 in
      alm_panoc Pb (prov_of_bits provbits) (fun _ => repeat nan m) (map lb_of_float Clb) (map ub_of_float Cub) l1 split
                (scripted script n) initial
                (fun cn => after se (evals_of m cn + off) || after sc (c_cb cn) || after sd (c_dir cn))
                (fun _ => false) (fun _ => false) prm ap lsfuel fuel ofuel nan
                (if user_sigma then Some S0 else None) y0 x0
  end.

Definition arec_agree (a b : arec) : bool :=
  Nat.eqb (a_outer a) (a_outer b) && vfeq (a_Sigma a) (a_Sigma b) && vfeq (a_y a) (a_y b) && rec_agree (a_x a) (a_x b).

(* the records of all inner solves, in order: the log of solve i with the (outer index, Σ, y) of trace record i *)
Fixpoint model_recs (logs : list (result (T:=float))) (tr : list (iter_rec (T:=float))) : list arec :=
  match logs, tr with
  | lg :: logs', rc :: tr' =>
      (match lg with
       | Done o => map (fun r => mkA (it_i rc) (it_Sigma rc) (it_y rc) (rec_of r)) (out_log o)
       | _ => []
       end) ++ model_recs logs' tr'
  | _, _ => []
  end.

Definition oinf (o : option float) : float := match o with Some v => v | None => infinity end.

Definition chkalmpanoc (cs : apcase) : bool :=
  match cs with
  | APCase n Q c w A d Clb Cub Dlb Dub l1 split provbits x0 y0 S0 user_sigma prm ap script initial se sc sd fuel lsfuel ofuel
           status outer eps delta norm_pen fails iters x_out y_out S_out evals dircalls cbs recs =>
      match run_ap cs with
      | None => false
      | Some co =>
          let f := co_final co in
          let m := length y0 in
          Alm.status_eqb (f_status f) status && Nat.eqb (f_outer f) outer && feq (oinf (f_eps f)) eps && feq (oinf (f_delta f)) delta &&
          feq (f_norm_pen f) norm_pen && Nat.eqb (f_fails f) fails && Nat.eqb (f_iters f) iters &&
          vfeq (co_x co) x_out && vfeq (f_y f) y_out &&
          vfeq (match f_Sigma f with Some s => if user_sigma then s else S0 | None => S0 end) S_out &&
          Nat.eqb (evals_of m (co_w co) + alm_pre_evals m ap user_sigma S0 + kkt_evals m) evals &&
          Nat.eqb (c_dir (co_w co)) dircalls && Nat.eqb (c_cb (co_w co)) cbs &&
          list_agree arec_agree (model_recs (co_logs co) (co_trace co)) recs
      end
  end.

(* printable summary of the model run (dump of the first disagreeing case) *)
Definition modelalmpanoc (cs : apcase) :=
  match cs with
  | APCase n Q c w A d Clb Cub Dlb Dub l1 split provbits x0 y0 S0 user_sigma prm ap script initial se sc sd fuel lsfuel ofuel
           status outer eps delta norm_pen fails iters x_out y_out S_out evals dircalls cbs recs =>
      match run_ap cs with
      | None => (None, (0, 0, 0)%nat, [])
      | Some co =>
          let f := co_final co in
          let m := length y0 in
          (Some (f_status f, f_outer f, (oinf (f_eps f), oinf (f_delta f), f_norm_pen f), (f_fails f, f_iters f),
                 (co_x co, f_y f, f_Sigma f)),
           ((evals_of m (co_w co) + alm_pre_evals m ap user_sigma S0 + kkt_evals m)%nat, c_dir (co_w co), c_cb (co_w co)),
           model_recs (co_logs co) (co_trace co))
      end
  end.
