(* SteihaugGenLib.v — what the GENERATED file coq/gen/SteihaugGen.v (translate/gen_steihaug.py) is written with.  No proofs here.
     gcopysign   std::copysign (magnitude of x, sign bit of s; the sign bit of a zero is observed through 1/s)
     gnan        NaN<config_t>
     while_fuel  `while (true) { body }` with the body as a step function  result + state;  None = out of fuel *)
From Coq Require Import List ZArith Bool.
From Alpaqa Require Import Num.
Import ListNotations.

Section Lib.
  Context {T : Type} `{Num T}.
  Local Open Scope num_scope.
  Definition gsignbit (s : T) : bool := (s <? n0) || ((s =? n0) && (n1 / s <? n0)).
  Definition gcopysign (x s : T) : T := if gsignbit s then - (nabs x) else nabs x.
  Definition gnan : T := n0 / n0.
End Lib.

Fixpoint while_fuel {S R : Type} (fuel : nat) (step : S -> R + S) (s : S) : option R :=
  match fuel with
  | O => None
  | Datatypes.S f => match step s with
                     | inl r => Some r
                     | inr s' => while_fuel f step s'
                     end
  end.
