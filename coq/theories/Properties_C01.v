(* Properties_C01.v — C01: ALM 'Converged' certifies an approximate KKT point of the user's problem.
   Chain of reasoning, each link a theorem:
     ALM Converged  =>  last inner solve Converged, its eps <= tolerance, ||e||inf <= dual tolerance       (C07 model of alm.tpp)
     inner Converged <=> eps <= tol (generated status chain), eps = ||p/gamma + grad psi(x) - grad psi(x_hat)||inf (criterion kernel)
     x_hat = Pi_C(x - gamma grad psi(x)), y_hat = Sigma(zeta - Pi_D zeta), e = (y_hat - y)/Sigma, grad psi(x_hat) = grad f + grad g y_hat
        (exit data of every inner solver: tied per run by the C03/C05/C06 correspondences, gradient by C04)
     =>  dist(-(grad f(x_hat)+grad g(x_hat) y_hat), N_C(x_hat)) <= eps,  dist(g(x_hat), D) <= ||e||inf,  complementarity.           *)
From Coq Require Import Reals List ZArith Bool Lra.
From Alpaqa Require Import Num NumR Vec Prox ProxProofs ProxVec SolverStatus SolverKernels SolverKernelsProofs KktProofs
     StopChain StopChainProofs Alm AlmProofs.
Import ListNotations.
Local Open Scope R_scope.

(* stationarity: residual <= tol  =>  -grad psi(x_hat) within tol of the normal cone of C at x_hat, componentwise (max norm) *)
Theorem C01_approx_kkt_stationarity : forall lb ub γ (x grad gradh : list R) (tol : R) n,
  0 < γ -> length lb = n -> length ub = n -> length x = n -> length grad = n -> length gradh = n ->
  (forall i, (i < n)%nat -> box_ne (nth i lb None) (nth i ub None)) ->
  let step := proj_grad_step lb ub γ x grad in
  let xh := fst (fst step) in let p := snd (fst step) in
  vnorminf (kkt_residual γ p grad gradh) <= tol ->
  forall i, (i < n)%nat ->
    exists r, (forall u, in_box (nth i lb None) (nth i ub None) u -> r * (u - nth i xh 0) <= 0) /\
              Rabs (- nth i gradh 0 - r) <= tol.
Proof. exact approx_kkt_stationarity. Qed.
Print Assumptions C01_approx_kkt_stationarity.

(* constraint violation: g(x_hat) - e is in D, so dist(g(x_hat), D) <= |e| <= ||e||inf <= dual tolerance *)
Theorem C01_constraint_violation : forall lb ub g y σ, 0 < σ -> box_ne lb ub ->
  exists z, in_box lb ub z /\ Rabs (g - z) = Rabs (errz1 (yhat1 lb ub g y σ) y σ).
Proof. exact dist_g_D_le_e. Qed.
Theorem C01_norm_bounds_components : forall (v : list R) (t : R), vnorminf v <= t -> Forall (fun x => Rabs x <= t) v.
Proof. exact vnorminf_le_bound. Qed.
Print Assumptions C01_constraint_violation.
Print Assumptions C01_norm_bounds_components.

(* complementarity: y_i > 0 only where g_i - ub_i = e_i (so within the dual tolerance of the upper bound); symmetric for < 0 *)
Theorem C01_positive_multiplier_near_upper : forall lb ub g y σ, 0 < σ -> box_ne lb ub -> 0 < yhat1 lb ub g y σ ->
  exists u, ub = Some u /\ g - u = errz1 (yhat1 lb ub g y σ) y σ.
Proof. exact yhat_pos_near_upper. Qed.
Theorem C01_negative_multiplier_near_lower : forall lb ub g y σ, 0 < σ -> box_ne lb ub -> yhat1 lb ub g y σ < 0 ->
  exists l, lb = Some l /\ g - l = errz1 (yhat1 lb ub g y σ) y σ.
Proof. exact yhat_neg_near_lower. Qed.
Print Assumptions C01_positive_multiplier_near_upper.

(* ALM level (model of alm.tpp, all inner-outcome scripts): Converged <=> the last inner solve converged with eps <= tolerance and
   ||e||inf <= dual tolerance; the reported eps and delta are those of that solve *)
Theorem C01_alm_converged_iff : forall (P : alm_params) pb f0 g0 nanv Σ0 y0 script,
  p_max_iter P <> 0%nat -> pb_m pb <> 0%nat ->
  f_exhausted (snd (alm_run P pb f0 g0 nanv Σ0 y0 script)) = false ->
  exists (pre : list iter_rec) (r : iter_rec), fst (alm_run P pb f0 g0 nanv Σ0 y0 script) = pre ++ [r] /\
    let f := snd (alm_run P pb f0 g0 nanv Σ0 y0 script) in
    (f_status f = Converged <->
     ir_status (it_res r) = Converged /\ ir_eps (it_res r) <= p_tol P /\ it_norm r <= p_dual_tol P) /\
    f_eps f = Some (ir_eps (it_res r)) /\ f_delta f = Some (it_norm r) /\ it_norm r = vnorminf (it_err r).
Proof. exact run_converged_iff. Qed.
Print Assumptions C01_alm_converged_iff.

(* inner level (status chain generated from the code): Converged <=> eps <= the tolerance ALM passed in *)
Theorem C01_inner_converged_iff : forall (opts_tol eps : R) te it mi np mnp sr,
  stop_status_helpers opts_tol eps te it mi np mnp sr = StConverged <-> nleb eps (eff_tol opts_tol) = true.
Proof. exact converged_iff. Qed.

(* the library's KKT-error utility: its stationarity number is a lower bound of the distance to the normal cone, hence <= eps *)
Theorem C01_kkt_utility_stationarity : forall lb ub x gL r, box_ne lb ub -> in_box lb ub x ->
  (forall u, in_box lb ub u -> r * (u - x) <= 0) ->
  Rabs (proj1 lb ub (x - gL) - x) <= Rabs (- gL - r).
Proof. exact kkt_utility_stationarity_le_dist. Qed.
Print Assumptions C01_kkt_utility_stationarity.

Example C01_nonvacuous :
  box_ne (Some 0) (Some 1) /\ in_box (Some 0) (Some 1) 1 /\ (forall u, in_box (Some 0) (Some 1) u -> 3 * (u - 1) <= 0) /\
  proj1 (Some 0) (Some 1) (1 - (-3)) = 1.
Proof.
  unfold box_ne, in_box, lb_ok, ub_ok, proj1; cbn [clamp_lo clamp_hi]. numR.
  repeat split; try lra; [intros u [? ?]; lra|rbool; lra].
Qed.
