(* Properties_C01.v — C01: ALM 'Converged' certifies an approximate KKT point of the user's problem.
   Chain of reasoning, each link a theorem:
     ALM Converged  =>  last inner solve Converged, its eps <= tolerance, ||e||inf <= dual tolerance       (C07 model of alm.tpp)
     inner Converged <=> eps <= tol (generated status chain), eps = ||p/gamma + grad psi(x) - grad psi(x_hat)||inf (criterion kernel)
     x_hat = Pi_C(x - gamma grad psi(x)), y_hat = Sigma(zeta - Pi_D zeta), e = (y_hat - y)/Sigma, grad psi(x_hat) = grad f + grad g y_hat
        (exit data of every inner solver: tied per run by the C03/C05/C06 correspondences, gradient by C04)
     =>  dist(-(grad f(x_hat)+grad g(x_hat) y_hat), N_C(x_hat)) <= eps,  dist(g(x_hat), D) <= ||e||inf,  complementarity.           *)
From Coq Require Import Reals List ZArith Bool Lra.
(* first: the short names of these modules (params, apply, L_init, reachable, Inv, …) must not shadow Panoc's, which the statements below use *)
From Alpaqa Require Import FistaLoop FistaLoopProofs FistaLen Pantr PantrProofs PantrLen.
From Alpaqa Require Import Lbfgs.
From Alpaqa Require Import Num NumR Vec Prox ProxProofs ProxVec SolverStatus SolverKernels SolverKernelsProofs KktProofs
     StopChain StopChainProofs Alm AlmProofs
     AugLag AugLagProofs Panoc PanocProofs PanocLen AlmCompose AlmComposeProofs AlmComposeKkt AlmPanoc AlmPanocProofs
     ZeroFpr ZeroFprProofs ZeroFprLen AlmZeroFpr AlmZeroFprProofs
     Directions PanocDir PanocDirProofs PanocDirLen AlmPanocDir AlmPanocDirProofs
     AlmPantr AlmPantrProofs AlmFista AlmFistaProofs AlmPanocDirRefine.
Import ListNotations.
Local Open Scope R_scope.

(* stationarity: residual <= tol  =>  -grad psi(x_hat) within tol of the normal cone of C at x_hat, componentwise (max norm) *)
Theorem C01_approx_kkt_stationarity : forall lb ub γ (x grad gradh : list R) (tol : R) n,
  0 < γ -> length lb = n -> length ub = n -> length x = n -> length grad = n -> length gradh = n ->
  (forall i, (i < n)%nat -> box_ne (nth i lb None) (nth i ub None)) ->
  let step := proj_grad_step lb ub γ x grad in
  let xh := fst (fst step) in let p := snd (fst step) in
  vnorminf (kkt_residual γ p grad gradh) <= tol ->
  forall i, (i < n)%nat ->
    exists r, (forall u, in_box (nth i lb None) (nth i ub None) u -> r * (u - nth i xh 0) <= 0) /\
              Rabs (- nth i gradh 0 - r) <= tol.
Proof. exact approx_kkt_stationarity. Qed.
Print Assumptions C01_approx_kkt_stationarity.

(* constraint violation: g(x_hat) - e is in D, so dist(g(x_hat), D) <= |e| <= ||e||inf <= dual tolerance *)
Theorem C01_constraint_violation : forall lb ub g y σ, 0 < σ -> box_ne lb ub ->
  exists z, in_box lb ub z /\ Rabs (g - z) = Rabs (errz1 (yhat1 lb ub g y σ) y σ).
Proof. exact dist_g_D_le_e. Qed.
Theorem C01_norm_bounds_components : forall (v : list R) (t : R), vnorminf v <= t -> Forall (fun x => Rabs x <= t) v.
Proof. exact vnorminf_le_bound. Qed.
Print Assumptions C01_constraint_violation.
Print Assumptions C01_norm_bounds_components.

(* complementarity: y_i > 0 only where g_i - ub_i = e_i (so within the dual tolerance of the upper bound); symmetric for < 0 *)
Theorem C01_positive_multiplier_near_upper : forall lb ub g y σ, 0 < σ -> box_ne lb ub -> 0 < yhat1 lb ub g y σ ->
  exists u, ub = Some u /\ g - u = errz1 (yhat1 lb ub g y σ) y σ.
Proof. exact yhat_pos_near_upper. Qed.
Theorem C01_negative_multiplier_near_lower : forall lb ub g y σ, 0 < σ -> box_ne lb ub -> yhat1 lb ub g y σ < 0 ->
  exists l, lb = Some l /\ g - l = errz1 (yhat1 lb ub g y σ) y σ.
Proof. exact yhat_neg_near_lower. Qed.
Print Assumptions C01_positive_multiplier_near_upper.

(* ALM level (model of alm.tpp, all inner-outcome scripts): Converged <=> the last inner solve converged with eps <= tolerance and
   ||e||inf <= dual tolerance; the reported eps and delta are those of that solve *)
Theorem C01_alm_converged_iff : forall (P : alm_params) pb f0 g0 nanv Σ0 y0 script,
  Alm.p_max_iter P <> 0%nat -> pb_m pb <> 0%nat ->
  f_exhausted (snd (alm_run P pb f0 g0 nanv Σ0 y0 script)) = false ->
  exists (pre : list iter_rec) (r : iter_rec), fst (alm_run P pb f0 g0 nanv Σ0 y0 script) = pre ++ [r] /\
    let f := snd (alm_run P pb f0 g0 nanv Σ0 y0 script) in
    (f_status f = Converged <->
     ir_status (it_res r) = Converged /\ ir_eps (it_res r) <= p_tol P /\ it_norm r <= p_dual_tol P) /\
    f_eps f = Some (ir_eps (it_res r)) /\ f_delta f = Some (it_norm r) /\ it_norm r = vnorminf (it_err r).
Proof. exact run_converged_iff. Qed.
Print Assumptions C01_alm_converged_iff.

(* inner level (status chain generated from the code): Converged <=> eps <= the tolerance ALM passed in *)
Theorem C01_inner_converged_iff : forall (opts_tol eps : R) te it mi np mnp sr,
  stop_status_helpers opts_tol eps te it mi np mnp sr = StConverged <-> nleb eps (eff_tol opts_tol) = true.
Proof. exact converged_iff. Qed.

(* the library's KKT-error utility: its stationarity number is a lower bound of the distance to the normal cone, hence <= eps *)
Theorem C01_kkt_utility_stationarity : forall lb ub x gL r, box_ne lb ub -> in_box lb ub x ->
  (forall u, in_box lb ub u -> r * (u - x) <= 0) ->
  Rabs (proj1 lb ub (x - gL) - x) <= Rabs (- gL - r).
Proof. exact kkt_utility_stationarity_le_dist. Qed.
Print Assumptions C01_kkt_utility_stationarity.

Example C01_nonvacuous :
  box_ne (Some 0) (Some 1) /\ in_box (Some 0) (Some 1) 1 /\ (forall u, in_box (Some 0) (Some 1) u -> 3 * (u - 1) <= 0) /\
  proj1 (Some 0) (Some 1) (1 - (-3)) = 1.
Proof.
  unfold box_ne, in_box, lb_ok, ub_ok, proj1; cbn [clamp_lo clamp_hi]. numR.
  repeat split; try lra; [intros u [? ?]; lra|rbool; lra].
Qed.

(* ================================================================================================================================
   END-TO-END.  The links above are composed for the executable model of ALMSolver<PANOCSolver<Direction>>:
     AlmPanoc.alm_panoc = the ALM outer loop (Alm.v, composed by AlmCompose.v) calling the whole-loop PANOC model (Panoc.v) on a problem
     given by its four basic functions f, ∇f, g, ∇g·y and the box D (AugLag.v: the inner solver sees ψ, ŷ, ∇ψ, ∇L through the vtable, i.e. the
     problem's own member where `prov` says it supplies one, otherwise the default composition of type-erased-problem.tpp).
   The whole-run correspondence Corr_ALMPANOC.chkalmpanoc (lib/vf/props/ALMPANOC.py) ties alm_panoc at binary64 to the real solver stack. *)

(* (1) the composed run IS Alm.alm_run on the script of inner outcomes it produces (so every theorem of C07 applies to it), the script
   is never exhausted, and every record of the trace was produced by one call of the inner solver on exactly the data the record
   shows (outer index, y, Σ, tolerance, err_z buffer), the calls being chained through the primal buffer x and the world w.
   For EVERY inner solver. *)
Theorem C01_composed_run_is_alm_run : forall (W Lg : Type)
    (inner : W -> nat -> list R -> list R -> list R -> R -> list R -> option (inner_res (T:=R) * list R * Lg * W))
    (P : alm_params) (pb : alm_problem) (fuel : nat) (f0 : R) (g0 : list R) (nanv : R) (Σ0 : option (list R))
    (y0 x0 : list R) (w0 : W) (co : cout W Lg),
  c_run W Lg inner P pb fuel f0 g0 nanv Σ0 y0 x0 w0 = Some co ->
  exists script : list (inner_res (T:=R)),
    co_trace co = fst (alm_run P pb f0 g0 nanv Σ0 y0 script) /\
    co_final co = snd (alm_run P pb f0 g0 nanv Σ0 y0 script) /\
    f_exhausted (co_final co) = false /\
    called W Lg inner x0 w0 (co_trace co) (co_x co) (co_w co) /\
    length (co_logs co) = length script /\ (Alm.p_max_iter P <> 0%nat -> script <> []).
Proof. exact c_run_spec. Qed.
Print Assumptions C01_composed_run_is_alm_run.

(* what `called` says about the last record: it was returned by an inner solve whose primal output is the x of the composed run *)
Theorem C01_last_record_is_last_inner_solve : forall (W Lg : Type)
    (inner : W -> nat -> list R -> list R -> list R -> R -> list R -> option (inner_res (T:=R) * list R * Lg * W))
    (Q : list R -> Prop),
  (forall w i x y Σ tol e r x' lg w', Q x -> inner w i x y Σ tol e = Some (r, x', lg, w') -> Q x') ->
  forall pre rc x0 w0 xf wf, Q x0 -> called W Lg inner x0 w0 (pre ++ [rc]) xf wf ->
    exists x w lg, Q x /\ inner w (it_i rc) x (it_y rc) (it_Sigma rc) (it_tol rc) (it_err_in rc) = Some (it_res rc, xf, lg, wf).
Proof. exact called_last. Qed.
Print Assumptions C01_last_record_is_last_inner_solve.

(* (2) PANOC inner contract with dimensions: for arbitrary stop / clock / direction oracles, length-preserving gradient oracles and a
   direction provider returning n-vectors, a run that ends Converged under ApproxKKT returns x̂ = Π_C(x − γ∇ψ(x)) with x, ∇ψ(x), ∇ψ(x̂) of
   length n, ε the residual, and the ∇ψ(x̂) of the criterion is eval_grad_L(x̂, ŷ(x̂)) — or, with eager gradient evaluation, the gradient
   output of eval_ψ_grad_ψ(x̂) / eval_grad_ψ(x̂) (never a composition with whatever a supplied eval_ψ_grad_ψ left in work_m). *)
Theorem C01_panoc_inner_contract_with_dimensions :
  forall (psi_grad_full : list R -> R * list R * list R) (psi_yhat : list R -> R * list R) (grad_L : list R -> list R -> list R)
    (grad_psi : list R -> list R) (lb ub : list (option R)) (l1 : list R) (dir_apply : nat -> iterate (T:=R) -> option (list R))
    (has_initial : bool) (stop_req time_up : counters -> bool) (P : params (T:=R)) (x_in y_in Σ errz_in : list R) (ls_fuel n : nat),
  l1 = [] -> length lb = n -> length ub = n -> length x_in = n ->
  (forall x, length x = n -> length (snd (psi_grad psi_grad_full x)) = n) ->
  (forall x yh, length x = n -> length (grad_L x yh) = n) ->
  (forall x, length x = n -> length (grad_psi x) = n) ->
  (forall j i q, dir_apply j i = Some q -> length q = n) ->
  forall (fuel : nat) (o : outputs (T:=R)),
  panoc psi_grad_full psi_yhat grad_L grad_psi lb ub l1 dir_apply has_initial stop_req time_up P x_in y_in Σ errz_in ls_fuel fuel = Done o ->
  out_status o = StConverged -> p_crit P = ApproxKKT ->
  exists (x grad gradh : list R) (γ : R),
    let step := proj_grad_step lb ub γ x grad in
    length x = n /\ length grad = n /\ length gradh = n /\
    out_x o = fst (fst step) /\ length (out_x o) = n /\
    out_y o = snd (psi_yhat (out_x o)) /\
    (if p_eager P then gradh = snd (psi_grad psi_grad_full (out_x o)) \/ gradh = grad_psi (out_x o) else gradh = grad_L (out_x o) (out_y o)) /\
    out_errz o = match errz_in with [] => [] | _ => vdiv (vsub (out_y o) y_in) Σ end /\
    out_eps o = vnorminf (kkt_residual γ (snd (fst step)) grad gradh) /\
    out_eps o <= eff_tol (o_tol P) /\
    (0 < p_Lgamma P -> 0 < L_init psi_grad_full grad_psi P x_in -> 0 < γ).
Proof. exact panoc_inner_contract_len. Qed.
Print Assumptions C01_panoc_inner_contract_with_dimensions.

(* (3) THE end-to-end theorem.  Hypotheses, and why each is there:
     provider_ok / grad_g_prod_empty_ok   members the problem supplies itself return the closed forms; ∇g(x)·[] adds nothing (C04's obligations)
     l1 = [], p_crit = ApproxKKT          the property's text (l1 term off, default stopping rule)
     0 < Lγ_factor; L_0 > 0 or 0 < L_min <= L_max   the step size γ = Lγ/L of every inner solve is positive (L_init > 0 is PROVED from this)
     lengths, nonempty rows of C and D    dimensions n, m; user functions and the direction provider return vectors of those dimensions
     max_iter <> 0                        otherwise ALM returns MaxIter at once
     m <> 0 -> sigma_inv …                positive initial penalties (AlmProofs.initial_sigma_ok derives it from parameter ranges)
     m = 0 -> 0 < tolerance               with m = 0 ALM passes params.tolerance straight to the inner solver, which replaces a
                                          non-positive tolerance by 1e-8 and reports Converged for ε <= 1e-8 > tolerance: ALM forwards that status
   NOT needed: any hypothesis on eager_gradient_eval / a supplied eval_ψ_grad_ψ, on the direction's values, on stop / clock oracles,
   on fuel (the statement is about completed runs), on the other ALM / PANOC parameters. *)
Theorem C01_alm_panoc_converged_is_kkt :
  forall (Pb : problem (T:=R)) (prov : fn -> bool) (wm_supplied : list R -> list R) (Clb Cub : list (option R)) (l1 : list R)
    (split : nat) (dir : nat -> iterate (T:=R) -> option (list R)) (has_initial : bool) (stop_req time_up : counters -> bool)
    (outer_oot : nat -> bool) (PP : params (T:=R)) (AP : alm_params (T:=R)) (ls_fuel inner_fuel n m : nat),
  provider_ok Pb prov ->
  grad_g_prod_empty_ok Pb ->
  l1 = [] ->
  p_crit PP = ApproxKKT ->
  0 < p_Lgamma PP ->
  0 < p_L0 PP \/ 0 < p_Lmin PP <= p_Lmax PP ->
  length Clb = n -> length Cub = n -> Forall2 box_ne Clb Cub ->
  (forall x, length x = n -> length (pgrad_f Pb x) = n) ->
  (forall x y, length x = n -> length (pgrad_g_prod Pb x y) = n) ->
  (forall x, length x = n -> length (pg Pb x) = m) ->
  length (plb Pb) = m -> length (pub Pb) = m -> Forall2 box_ne (plb Pb) (pub Pb) ->
  (forall j i q, dir j i = Some q -> length q = n) ->
  forall (outer_fuel : nat) (nanv : R) (Σ0 : option (list R)) (y0 x0 : list R) (co : cout counters (result (T:=R))),
  length x0 = n -> length y0 = m ->
  Alm.p_max_iter AP <> 0%nat ->
  (m <> 0%nat -> sigma_inv AP m (initial_sigma AP m (pf Pb x0) (pg Pb x0) Σ0)) ->
  (m = 0%nat -> 0 < p_tol AP) ->
  alm_panoc Pb prov wm_supplied Clb Cub l1 split dir has_initial stop_req time_up outer_oot PP AP ls_fuel inner_fuel outer_fuel nanv Σ0 y0 x0
    = Some co ->
  f_status (co_final co) = Converged ->
  let x := co_x co in
  let y := f_y (co_final co) in
  length x = n /\ length y = m /\
  (* x in C *)
  (forall i, (i < n)%nat -> in_box (nth i Clb None) (nth i Cub None) (nth i x 0)) /\
  (* stationarity: -(∇f(x) + ∇g(x) y) within `tolerance` (max norm) of the normal cone of C at x *)
  (forall i, (i < n)%nat -> exists r,
      (forall u, in_box (nth i Clb None) (nth i Cub None) u -> r * (u - nth i x 0) <= 0) /\
      Rabs (- nth i (vadd (pgrad_f Pb x) (pgrad_g_prod Pb x y)) 0 - r) <= p_tol AP) /\
  (* feasibility: dist∞(g(x), D) <= dual_tolerance *)
  (forall i, (i < m)%nat -> exists z,
      in_box (nth i (plb Pb) None) (nth i (pub Pb) None) z /\ Rabs (nth i (pg Pb x) 0 - z) <= p_dual_tol AP) /\
  (* complementarity: y_i > 0 (< 0) only where g_i(x) is within dual_tolerance of its upper (lower) bound *)
  (forall i, (i < m)%nat ->
      (0 < nth i y 0 -> exists u, nth i (pub Pb) None = Some u /\ Rabs (nth i (pg Pb x) 0 - u) <= p_dual_tol AP) /\
      (nth i y 0 < 0 -> exists l, nth i (plb Pb) None = Some l /\ Rabs (nth i (pg Pb x) 0 - l) <= p_dual_tol AP)).
Proof. exact alm_panoc_converged_is_kkt. Qed.
Print Assumptions C01_alm_panoc_converged_is_kkt.

(* the penalty hypothesis from parameter ranges *)
Theorem C01_initial_penalties_ok : forall (P : alm_params (T:=R)) m f0 g0 Σ0,
  0 < p_min_pen P <= p_max_pen P -> p_init_pen P <= p_max_pen P ->
  (forall s, Σ0 = Some s -> sigma_accepted s = true ->
     length s = m /\ Forall (fun x => 0 < x <= p_max_pen P) s /\ (p_single P = true -> uniform s)) ->
  sigma_inv P m (initial_sigma P m f0 g0 Σ0).
Proof. exact sigma_inv_of_params. Qed.
Print Assumptions C01_initial_penalties_ok.

(* non-vacuity: a concrete problem (n = 1, m = 1: minimise x s.t. x in [0,1], g(x) = x <= 0, from x0 = 0, y0 = 0) and parameters that
   satisfy every hypothesis of the theorem and on which the composed model returns Converged (after one outer iteration, x = 0, y = 0;
   the stationarity witness is the multiplier r = -1 of the active bound x >= 0) *)
Example C01_alm_panoc_nonvacuous :
  (provider_ok nvPb nvprov /\ grad_g_prod_empty_ok nvPb /\ p_crit nvPP = ApproxKKT /\ 0 < p_Lgamma nvPP /\
   (0 < p_L0 nvPP \/ 0 < p_Lmin nvPP <= p_Lmax nvPP) /\ Forall2 box_ne [Some 0] [Some 1] /\ Forall2 box_ne (plb nvPb) (pub nvPb) /\
   (forall x, length x = 1%nat -> length (pgrad_f nvPb x) = 1%nat) /\ (forall x y, length x = 1%nat -> length (pgrad_g_prod nvPb x y) = 1%nat) /\
   (forall x, length x = 1%nat -> length (pg nvPb x) = 1%nat) /\ (forall j i q, nv_dir j i = Some q -> length q = 1%nat) /\
   Alm.p_max_iter nvAP <> 0%nat /\ sigma_inv nvAP 1 (initial_sigma nvAP 1 (pf nvPb [0]) (pg nvPb [0]) None)) /\
  exists co,
    alm_panoc nvPb nvprov (fun _ => []) [Some 0] [Some 1] [] 0 nv_dir false nv_never nv_never (fun _ => false) nvPP nvAP 5 5 3 0 None [0] [0] = Some co /\
    f_status (co_final co) = Converged /\ co_x co = [0] /\ f_y (co_final co) = [0].
Proof. exact (conj nv_hypotheses nv_converged). Qed.

(* ================================================================================================================================
   END-TO-END FOR THE OTHER INNER SOLVERS AND THE SHIPPED DEFAULT STACK.
   (4) The part of (3) that only uses the inner contract is a GENERIC lemma over AlmCompose (AlmComposeKkt.v): for ANY inner solver
   (a function W -> … -> option (inner_res * x * log * W)), if every call that ends Converged satisfies `inner_contract_kkt`
     — x̂ = Π_C(x − γ∇) for n-vectors x, ∇ and γ > 0;  y = ŷ(x̂) [closed form of C04 for the (y, Σ) handed over];  err_z = (ŷ − y)/Σ;
       ε = ‖p/γ + (∇f(x̂) + ∇g(x̂)ᵀŷ) − ∇‖∞;  ε <= the effective tolerance;  the primal buffer keeps length n after EVERY call —
   then a Converged composed run returns an approximate KKT point of the user's problem.  (3) and (5)–(9) are its instances. *)
Theorem C01_inner_contract_suffices :
  forall (W Lg : Type)
    (inner : W -> nat -> list R -> list R -> list R -> R -> list R -> option (inner_res (T:=R) * list R * Lg * W))
    (Pb : problem (T:=R)) (Clb Cub : list (option R)) (split : nat) (AP : alm_params (T:=R)) (n m : nat),
  length Clb = n -> length Cub = n -> Forall2 box_ne Clb Cub ->
  (forall x, length x = n -> length (pgrad_f Pb x) = n) ->
  (forall x y, length x = n -> length (pgrad_g_prod Pb x y) = n) ->
  (forall x, length x = n -> length (pg Pb x) = m) ->
  length (plb Pb) = m -> length (pub Pb) = m -> Forall2 box_ne (plb Pb) (pub Pb) ->
  (* the inner contract *)
  (forall w i x y Σ tol errz r x' lg w', length x = n ->
     inner w i x y Σ tol errz = Some (r, x', lg, w') ->
     length x' = n /\
     (ir_status r = Converged ->
        let yh := yhat_def Pb x' y Σ in
        ir_y r = Some yh /\
        ir_err r = Some (match errz with [] => [] | _ => vdiv (vsub yh y) Σ end) /\
        exists (xx grad : list R) (γ : R),
          let step := proj_grad_step Clb Cub γ xx grad in
          0 < γ /\ length xx = n /\ length grad = n /\ x' = fst (fst step) /\
          ir_eps r = vnorminf (kkt_residual γ (snd (fst step)) grad (grad_L_def Pb x' yh)) /\
          ir_eps r <= eff_tol tol)) ->
  forall (outer_fuel : nat) (nanv : R) (Σ0 : option (list R)) (y0 x0 : list R) (w0 : W) (co : cout W Lg),
  length x0 = n -> length y0 = m ->
  Alm.p_max_iter AP <> 0%nat ->
  (m <> 0%nat -> sigma_inv AP m (initial_sigma AP m (pf Pb x0) (pg Pb x0) Σ0)) ->
  (m = 0%nat -> 0 < p_tol AP) ->
  c_run W Lg inner AP (kkt_pb Pb split) outer_fuel (pf Pb x0) (pg Pb x0) nanv Σ0 y0 x0 w0 = Some co ->
  f_status (co_final co) = Converged ->
  let x := co_x co in
  let y := f_y (co_final co) in
  length x = n /\ length y = m /\
  (* x in C *)
  (forall i, (i < n)%nat -> in_box (nth i Clb None) (nth i Cub None) (nth i x 0)) /\
  (* stationarity: -(∇f(x) + ∇g(x) y) within `tolerance` (max norm) of the normal cone of C at x *)
  (forall i, (i < n)%nat -> exists r,
      (forall u, in_box (nth i Clb None) (nth i Cub None) u -> r * (u - nth i x 0) <= 0) /\
      Rabs (- nth i (vadd (pgrad_f Pb x) (pgrad_g_prod Pb x y)) 0 - r) <= p_tol AP) /\
  (* feasibility: dist∞(g(x), D) <= dual_tolerance *)
  (forall i, (i < m)%nat -> exists z,
      in_box (nth i (plb Pb) None) (nth i (pub Pb) None) z /\ Rabs (nth i (pg Pb x) 0 - z) <= p_dual_tol AP) /\
  (* complementarity: y_i > 0 (< 0) only where g_i(x) is within dual_tolerance of its upper (lower) bound *)
  (forall i, (i < m)%nat ->
      (0 < nth i y 0 -> exists u, nth i (pub Pb) None = Some u /\ Rabs (nth i (pg Pb x) 0 - u) <= p_dual_tol AP) /\
      (nth i y 0 < 0 -> exists l, nth i (plb Pb) None = Some l /\ Rabs (nth i (pg Pb x) 0 - l) <= p_dual_tol AP)).
Proof. exact compose_converged_is_kkt. Qed.
Print Assumptions C01_inner_contract_suffices.

(* (5) ZeroFPR inner contract with dimensions (ZeroFprLen.v: length invariant of the ZeroFPR loop, structure of PanocLen.v) *)
Theorem C01_zerofpr_inner_contract_with_dimensions :
  forall (psi_grad_full : list R -> R * list R * list R) (psi_yhat : list R -> R * list R) (grad_L : list R -> list R -> list R)
    (grad_psi : list R -> list R) (lb ub : list (option R)) (l1 : list R)
    (dir_apply : nat -> iterate (T:=R) -> proxit (T:=R) -> option (list R))
    (has_initial : bool) (stop_req time_up : counters -> bool) (P : Panoc.params (T:=R)) (x_in y_in Σ errz_in : list R) (ls_fuel n : nat),
  l1 = [] -> length lb = n -> length ub = n -> length x_in = n ->
  (forall x, length x = n -> length (snd (psi_grad psi_grad_full x)) = n) ->
  (forall x yh, length x = n -> length (grad_L x yh) = n) ->
  (forall j i px q, dir_apply j i px = Some q -> length q = n) ->
  forall (fuel : nat) (o : outputs (T:=R)),
  zerofpr psi_grad_full psi_yhat grad_L grad_psi lb ub l1 dir_apply has_initial stop_req time_up P x_in y_in Σ errz_in ls_fuel fuel = Done o ->
  out_status o = StConverged -> p_crit P = ApproxKKT ->
  exists (x grad : list R) (γ : R),
    let step := proj_grad_step lb ub γ x grad in
    let gradh := grad_L (out_x o) (out_y o) in
    length x = n /\ length grad = n /\
    out_x o = fst (fst step) /\ length (out_x o) = n /\
    out_y o = snd (psi_yhat (out_x o)) /\
    out_errz o = match errz_in with [] => [] | _ => vdiv (vsub (out_y o) y_in) Σ end /\
    out_eps o = vnorminf (kkt_residual γ (snd (fst step)) grad gradh) /\
    out_eps o <= eff_tol (o_tol P) /\
    (0 < p_Lgamma P -> 0 < L_init psi_grad_full grad_psi P x_in -> 0 < γ).
Proof. exact zerofpr_inner_contract_len. Qed.
Print Assumptions C01_zerofpr_inner_contract_with_dimensions.

(* (6) END-TO-END for ALMSolver<ZeroFPRSolver<Direction>> (AlmZeroFpr.alm_zerofpr; tied to the real stack by Corr_ALMSTACKS).
   Hypotheses as in (3) — ZeroFPR reads the same PANOCParams-like record; it has no eager mode and its ∇ψ(x̂) is always
   eval_grad_L(x̂, ŷ(x̂)), so nothing about eval_grad_ψ's output lengths is needed; the direction oracle (which also sees the prox iterate)
   must return n-vectors. *)
Theorem C01_alm_zerofpr_converged_is_kkt :
  forall (Pb : problem (T:=R)) (prov : fn -> bool) (wm_supplied : list R -> list R) (Clb Cub : list (option R)) (l1 : list R)
    (split : nat) (dir : nat -> iterate (T:=R) -> proxit (T:=R) -> option (list R)) (has_initial : bool) (stop_req time_up : counters -> bool)
    (outer_oot : nat -> bool) (PP : Panoc.params (T:=R)) (AP : alm_params (T:=R)) (ls_fuel inner_fuel n m : nat),
  provider_ok Pb prov ->
  grad_g_prod_empty_ok Pb ->
  l1 = [] ->
  p_crit PP = ApproxKKT ->
  0 < p_Lgamma PP ->
  0 < p_L0 PP \/ 0 < p_Lmin PP <= p_Lmax PP ->
  length Clb = n -> length Cub = n -> Forall2 box_ne Clb Cub ->
  (forall x, length x = n -> length (pgrad_f Pb x) = n) ->
  (forall x y, length x = n -> length (pgrad_g_prod Pb x y) = n) ->
  (forall x, length x = n -> length (pg Pb x) = m) ->
  length (plb Pb) = m -> length (pub Pb) = m -> Forall2 box_ne (plb Pb) (pub Pb) ->
  (forall j i px q, dir j i px = Some q -> length q = n) ->
  forall (outer_fuel : nat) (nanv : R) (Σ0 : option (list R)) (y0 x0 : list R) (co : cout counters (result (T:=R))),
  length x0 = n -> length y0 = m ->
  Alm.p_max_iter AP <> 0%nat ->
  (m <> 0%nat -> sigma_inv AP m (initial_sigma AP m (pf Pb x0) (pg Pb x0) Σ0)) ->
  (m = 0%nat -> 0 < p_tol AP) ->
  alm_zerofpr Pb prov wm_supplied Clb Cub l1 split dir has_initial stop_req time_up outer_oot PP AP ls_fuel inner_fuel outer_fuel nanv Σ0 y0 x0
    = Some co ->
  f_status (co_final co) = Converged ->
  let x := co_x co in
  let y := f_y (co_final co) in
  length x = n /\ length y = m /\
  (* x in C *)
  (forall i, (i < n)%nat -> in_box (nth i Clb None) (nth i Cub None) (nth i x 0)) /\
  (* stationarity: -(∇f(x) + ∇g(x) y) within `tolerance` (max norm) of the normal cone of C at x *)
  (forall i, (i < n)%nat -> exists r,
      (forall u, in_box (nth i Clb None) (nth i Cub None) u -> r * (u - nth i x 0) <= 0) /\
      Rabs (- nth i (vadd (pgrad_f Pb x) (pgrad_g_prod Pb x y)) 0 - r) <= p_tol AP) /\
  (* feasibility: dist∞(g(x), D) <= dual_tolerance *)
  (forall i, (i < m)%nat -> exists z,
      in_box (nth i (plb Pb) None) (nth i (pub Pb) None) z /\ Rabs (nth i (pg Pb x) 0 - z) <= p_dual_tol AP) /\
  (* complementarity: y_i > 0 (< 0) only where g_i(x) is within dual_tolerance of its upper (lower) bound *)
  (forall i, (i < m)%nat ->
      (0 < nth i y 0 -> exists u, nth i (pub Pb) None = Some u /\ Rabs (nth i (pg Pb x) 0 - u) <= p_dual_tol AP) /\
      (nth i y 0 < 0 -> exists l, nth i (plb Pb) None = Some l /\ Rabs (nth i (pg Pb x) 0 - l) <= p_dual_tol AP)).
Proof. exact alm_zerofpr_converged_is_kkt. Qed.
Print Assumptions C01_alm_zerofpr_converged_is_kkt.

Example C01_alm_zerofpr_nonvacuous :
  exists co,
    alm_zerofpr nvPb nvprov (fun _ => []) [Some 0] [Some 1] [] 0 nv_zdir false nv_never nv_never (fun _ => false) nvPP nvAP 5 5 3 0 None [0] [0] = Some co /\
    f_status (co_final co) = Converged /\ co_x co = [0] /\ f_y (co_final co) = [0].
Proof. exact nv_zconverged. Qed.

(* (7) THE SHIPPED DEFAULT STACK, generically: ALMSolver<PANOCSolver<DirectionProviderT>> for EVERY provider (Directions.dirops: a state
   machine initialize / update / apply / changed_γ / reset) that keeps dimensions.  The composed model AlmPanocDir.alm_panoc_dir threads
   (cumulative counters, provider state) through the inner solves: the provider PERSISTS across inner solves as the C++ object does and
   `initialize` is called at k = 0 of every inner solve.  Obtained from the refinement theorem PANOCDIR_refines_oracle_model (every
   provider run IS a run of the oracle model for the oracle "j-th apply result of that run"), the PANOC inner contract (2) — whose
   direction-length hypothesis is DISCHARGED by the length invariant of PanocDirLen.v — and the generic lemma (4).
   No hypothesis on the provider state d0 the first solve starts from, nor on what an inner solve inherits from the previous one. *)
Theorem C01_alm_panoc_provider_converged_is_kkt :
  forall (Pb : problem (T:=R)) (prov : fn -> bool) (wm_supplied : list R -> list R) (Clb Cub : list (option R)) (l1 : list R)
    (split : nat) (D : Type) (ops : dirops R D) (stop_req time_up : counters -> bool)
    (outer_oot : nat -> bool) (PP : Panoc.params (T:=R)) (AP : alm_params (T:=R)) (ls_fuel inner_fuel n m : nat),
  provider_ok Pb prov ->
  grad_g_prod_empty_ok Pb ->
  l1 = [] ->
  p_crit PP = ApproxKKT ->
  0 < p_Lgamma PP ->
  0 < p_L0 PP \/ 0 < p_Lmin PP <= p_Lmax PP ->
  length Clb = n -> length Cub = n -> Forall2 box_ne Clb Cub ->
  (forall x, length x = n -> length (pgrad_f Pb x) = n) ->
  (forall x y, length x = n -> length (pgrad_g_prod Pb x y) = n) ->
  (forall x, length x = n -> length (pg Pb x) = m) ->
  length (plb Pb) = m -> length (pub Pb) = m -> Forall2 box_ne (plb Pb) (pub Pb) ->
  (* the provider keeps dimensions: some predicate Iv on its states is established by initialize, preserved by the other operations,
     and under it apply returns — when it returns true — a vector of length n; each when handed vectors of length n *)
  forall (Iv : D -> Prop),
  (forall d y S γ x xh p g d', length x = n -> length xh = n -> length p = n -> length g = n ->
     d_initialize D ops d y S γ x xh p g = Some d' -> Iv d') ->
  (forall d γ γn x xn p pn g gn, Iv d ->
     length x = n -> length xn = n -> length p = n -> length pn = n -> length g = n -> length gn = n ->
     Iv (snd (d_update D ops d γ γn x xn p pn g gn))) ->
  (forall d γ x xh p g q b q' d', Iv d -> length x = n -> length xh = n -> length p = n -> length g = n ->
     d_apply D ops d γ x xh p g q = Some (b, q', d') -> Iv d' /\ (b = true -> length q' = n)) ->
  (forall d a b, Iv d -> Iv (d_changed_gamma D ops d a b)) ->
  (forall d, Iv d -> Iv (d_reset D ops d)) ->
  forall (d0 : D) (outer_fuel : nat) (nanv : R) (Σ0 : option (list R)) (y0 x0 : list R) (co : cout (counters * D) (resultD D)),
  length x0 = n -> length y0 = m ->
  Alm.p_max_iter AP <> 0%nat ->
  (m <> 0%nat -> sigma_inv AP m (initial_sigma AP m (pf Pb x0) (pg Pb x0) Σ0)) ->
  (m = 0%nat -> 0 < p_tol AP) ->
  alm_panoc_dir Pb prov wm_supplied Clb Cub l1 split D ops stop_req time_up outer_oot PP AP ls_fuel inner_fuel d0 outer_fuel nanv Σ0 y0 x0
    = Some co ->
  f_status (co_final co) = Converged ->
  let x := co_x co in
  let y := f_y (co_final co) in
  length x = n /\ length y = m /\
  (* x in C *)
  (forall i, (i < n)%nat -> in_box (nth i Clb None) (nth i Cub None) (nth i x 0)) /\
  (* stationarity: -(∇f(x) + ∇g(x) y) within `tolerance` (max norm) of the normal cone of C at x *)
  (forall i, (i < n)%nat -> exists r,
      (forall u, in_box (nth i Clb None) (nth i Cub None) u -> r * (u - nth i x 0) <= 0) /\
      Rabs (- nth i (vadd (pgrad_f Pb x) (pgrad_g_prod Pb x y)) 0 - r) <= p_tol AP) /\
  (* feasibility: dist∞(g(x), D) <= dual_tolerance *)
  (forall i, (i < m)%nat -> exists z,
      in_box (nth i (plb Pb) None) (nth i (pub Pb) None) z /\ Rabs (nth i (pg Pb x) 0 - z) <= p_dual_tol AP) /\
  (* complementarity: y_i > 0 (< 0) only where g_i(x) is within dual_tolerance of its upper (lower) bound *)
  (forall i, (i < m)%nat ->
      (0 < nth i y 0 -> exists u, nth i (pub Pb) None = Some u /\ Rabs (nth i (pg Pb x) 0 - u) <= p_dual_tol AP) /\
      (nth i y 0 < 0 -> exists l, nth i (plb Pb) None = Some l /\ Rabs (nth i (pg Pb x) 0 - l) <= p_dual_tol AP)).
Proof. exact alm_panoc_dir_converged_is_kkt. Qed.
Print Assumptions C01_alm_panoc_provider_converged_is_kkt.

(* LBFGSDirection keeps dimensions (from Lbfgs.v / LbfgsProofs.v: the ring buffer invariant, every stored pair (s, y) has length n, and
   apply is the two-loop recursion over the stored pairs — so it returns a vector of the length of p), for every LBFGSParams *)
Theorem C01_lbfgs_direction_keeps_dimensions : forall (n : nat) (pw : R -> R -> R) (LP : Lbfgs.params R) (rescale : bool),
  let ops := lbfgs_dir n pw LP rescale in let Iv := lbfgs_Iv n LP in
  (forall d y S γ x xh p g d', length x = n -> length xh = n -> length p = n -> length g = n ->
     d_initialize _ ops d y S γ x xh p g = Some d' -> Iv d') /\
  (forall d γ γn x xn p pn g gn, Iv d ->
     length x = n -> length xn = n -> length p = n -> length pn = n -> length g = n -> length gn = n ->
     Iv (snd (d_update _ ops d γ γn x xn p pn g gn))) /\
  (forall d γ x xh p g q b q' d', Iv d -> length x = n -> length xh = n -> length p = n -> length g = n ->
     d_apply _ ops d γ x xh p g q = Some (b, q', d') -> Iv d' /\ (b = true -> length q' = n)) /\
  (forall d a b, Iv d -> Iv (d_changed_gamma _ ops d a b)) /\
  (forall d, Iv d -> Iv (d_reset _ ops d)).
Proof. exact lbfgs_dir_keeps_dimensions. Qed.
Print Assumptions C01_lbfgs_direction_keeps_dimensions.

(* (8) THE DEFAULT STACK ALMSolver<PANOCSolver<LBFGSDirection>>: no hypothesis about the direction at all — every LBFGSParams (memory,
   CBFGS, both step-size policies, force_pos_def), rescale_on_step_size_changes on/off, std::pow arbitrary, any provider state d0 to
   start from.  (memory < 1 makes `initialize` throw: the model then has no completed run, the statement is about completed runs.) *)
Theorem C01_alm_panoc_lbfgs_converged_is_kkt :
  forall (Pb : problem (T:=R)) (prov : fn -> bool) (wm_supplied : list R -> list R) (Clb Cub : list (option R)) (l1 : list R)
    (split : nat) (pw : R -> R -> R) (LP : Lbfgs.params R) (rescale : bool) (stop_req time_up : counters -> bool)
    (outer_oot : nat -> bool) (PP : Panoc.params (T:=R)) (AP : alm_params (T:=R)) (ls_fuel inner_fuel n m : nat),
  provider_ok Pb prov ->
  grad_g_prod_empty_ok Pb ->
  l1 = [] ->
  p_crit PP = ApproxKKT ->
  0 < p_Lgamma PP ->
  0 < p_L0 PP \/ 0 < p_Lmin PP <= p_Lmax PP ->
  length Clb = n -> length Cub = n -> Forall2 box_ne Clb Cub ->
  (forall x, length x = n -> length (pgrad_f Pb x) = n) ->
  (forall x y, length x = n -> length (pgrad_g_prod Pb x y) = n) ->
  (forall x, length x = n -> length (pg Pb x) = m) ->
  length (plb Pb) = m -> length (pub Pb) = m -> Forall2 box_ne (plb Pb) (pub Pb) ->
  forall (d0 : Lbfgs.state R) (outer_fuel : nat) (nanv : R) (Σ0 : option (list R)) (y0 x0 : list R)
    (co : cout (counters * Lbfgs.state R) (resultD (Lbfgs.state R))),
  length x0 = n -> length y0 = m ->
  Alm.p_max_iter AP <> 0%nat ->
  (m <> 0%nat -> sigma_inv AP m (initial_sigma AP m (pf Pb x0) (pg Pb x0) Σ0)) ->
  (m = 0%nat -> 0 < p_tol AP) ->
  alm_panoc_dir Pb prov wm_supplied Clb Cub l1 split (Lbfgs.state R) (lbfgs_dir n pw LP rescale) stop_req time_up outer_oot PP AP
                ls_fuel inner_fuel d0 outer_fuel nanv Σ0 y0 x0 = Some co ->
  f_status (co_final co) = Converged ->
  let x := co_x co in
  let y := f_y (co_final co) in
  length x = n /\ length y = m /\
  (* x in C *)
  (forall i, (i < n)%nat -> in_box (nth i Clb None) (nth i Cub None) (nth i x 0)) /\
  (* stationarity: -(∇f(x) + ∇g(x) y) within `tolerance` (max norm) of the normal cone of C at x *)
  (forall i, (i < n)%nat -> exists r,
      (forall u, in_box (nth i Clb None) (nth i Cub None) u -> r * (u - nth i x 0) <= 0) /\
      Rabs (- nth i (vadd (pgrad_f Pb x) (pgrad_g_prod Pb x y)) 0 - r) <= p_tol AP) /\
  (* feasibility: dist∞(g(x), D) <= dual_tolerance *)
  (forall i, (i < m)%nat -> exists z,
      in_box (nth i (plb Pb) None) (nth i (pub Pb) None) z /\ Rabs (nth i (pg Pb x) 0 - z) <= p_dual_tol AP) /\
  (* complementarity: y_i > 0 (< 0) only where g_i(x) is within dual_tolerance of its upper (lower) bound *)
  (forall i, (i < m)%nat ->
      (0 < nth i y 0 -> exists u, nth i (pub Pb) None = Some u /\ Rabs (nth i (pg Pb x) 0 - u) <= p_dual_tol AP) /\
      (nth i y 0 < 0 -> exists l, nth i (plb Pb) None = Some l /\ Rabs (nth i (pg Pb x) 0 - l) <= p_dual_tol AP)).
Proof. exact alm_panoc_lbfgs_converged_is_kkt. Qed.
Print Assumptions C01_alm_panoc_lbfgs_converged_is_kkt.

(* non-vacuity of (7)/(8): the instance of C01_alm_panoc_nonvacuous with LBFGSDirection (memory 5) as the provider, started from the
   default-constructed (unsized) provider: the composed model returns Converged after one outer iteration, x = 0, y = 0 *)
Example C01_alm_panoc_lbfgs_nonvacuous :
  exists co,
    alm_panoc_dir nvPb nvprov (fun _ => []) [Some 0] [Some 1] [] 0 (Lbfgs.state R) (lbfgs_dir 1 nv_pw nvLP false) nv_never nv_never (fun _ => false)
                  nvPP nvAP 5 5 (lbfgs_unsized (T:=R)) 3 0 None [0] [0] = Some co /\
    f_status (co_final co) = Converged /\ co_x co = [0] /\ f_y (co_final co) = [0].
Proof. exact nvD_converged. Qed.

(* (9) PANTR and FISTA *)
(* END-TO-END for ALM∘PANTR (composed executable model AlmPantr.alm_pantr): same conclusion as C01_alm_panoc_converged_is_kkt.
   Hypotheses, each genuinely needed:
     provider_ok, grad_g_prod_empty_ok, l1 = []            as for PANOC
     stop_crit = ApproxKKT, 0 < Lγ                          as for PANOC (of PANTRParams)
     0 < L_0  \/  0 < L_min <= L_max                        PANTR uses PANOC's initial Lipschitz estimate: L > 0, hence γ > 0
     the dimension hypotheses                               as for PANOC
     direction.apply leaves an n-vector in q whenever the FBS iterate it is handed sits at an n-vector (the accepted candidate is x̂ₖ + q)
     ALM hypotheses                                         as for PANOC
   NOT needed: anything on the TR radii / ratio thresholds, on the model value q_model, on compute_ratio_using_new_stepsize,
   update_direction_on_prox_step, disable_acceleration, on eval_grad_L's / eval_grad_ψ's / eval_ψ's output lengths, on fuel. *)
Theorem C01_alm_pantr_converged_is_kkt :
  forall (Pb : problem (T:=R)) (prov : fn -> bool) (wm_supplied : list R -> list R) (Clb Cub : list (option R)) (l1 : list R)
    (split : nat) (tr_dir : nat -> iterate (T:=R) -> R -> list R * R) (has_initial : bool) (stop_req time_up : counters -> bool)
    (outer_oot : nat -> bool) (TP : trparams (T:=R)) (AP : alm_params (T:=R)) (bt_fuel inner_fuel n m : nat),
  provider_ok Pb prov ->
  grad_g_prod_empty_ok Pb ->
  l1 = [] ->
  p_crit (tp_base TP) = ApproxKKT ->
  0 < p_Lgamma (tp_base TP) ->
  0 < p_L0 (tp_base TP) \/ 0 < p_Lmin (tp_base TP) <= p_Lmax (tp_base TP) ->
  length Clb = n -> length Cub = n -> Forall2 box_ne Clb Cub ->
  (forall x, length x = n -> length (pgrad_f Pb x) = n) ->
  (forall x y, length x = n -> length (pgrad_g_prod Pb x y) = n) ->
  (forall x, length x = n -> length (pg Pb x) = m) ->
  length (plb Pb) = m -> length (pub Pb) = m -> Forall2 box_ne (plb Pb) (pub Pb) ->
  (forall j px Δ, length (ix px) = n -> length (fst (tr_dir j px Δ)) = n) ->
  forall (outer_fuel : nat) (nanv : R) (Σ0 : option (list R)) (y0 x0 : list R) (co : cout counters (tresult (T:=R))),
  length x0 = n -> length y0 = m ->
  Alm.p_max_iter AP <> 0%nat ->
  (m <> 0%nat -> sigma_inv AP m (initial_sigma AP m (pf Pb x0) (pg Pb x0) Σ0)) ->
  (m = 0%nat -> 0 < p_tol AP) ->
  alm_pantr Pb prov wm_supplied Clb Cub l1 split tr_dir has_initial stop_req time_up outer_oot TP AP bt_fuel inner_fuel outer_fuel nanv Σ0 y0 x0
    = Some co ->
  f_status (co_final co) = Converged ->
  let x := co_x co in
  let y := f_y (co_final co) in
  length x = n /\ length y = m /\
  (* x in C *)
  (forall i, (i < n)%nat -> in_box (nth i Clb None) (nth i Cub None) (nth i x 0)) /\
  (* stationarity: -(∇f(x) + ∇g(x) y) within `tolerance` (max norm) of the normal cone of C at x *)
  (forall i, (i < n)%nat -> exists r,
      (forall u, in_box (nth i Clb None) (nth i Cub None) u -> r * (u - nth i x 0) <= 0) /\
      Rabs (- nth i (vadd (pgrad_f Pb x) (pgrad_g_prod Pb x y)) 0 - r) <= p_tol AP) /\
  (* feasibility: dist∞(g(x), D) <= dual_tolerance *)
  (forall i, (i < m)%nat -> exists z,
      in_box (nth i (plb Pb) None) (nth i (pub Pb) None) z /\ Rabs (nth i (pg Pb x) 0 - z) <= p_dual_tol AP) /\
  (* complementarity: y_i > 0 (< 0) only where g_i(x) is within dual_tolerance of its upper (lower) bound *)
  (forall i, (i < m)%nat ->
      (0 < nth i y 0 -> exists u, nth i (pub Pb) None = Some u /\ Rabs (nth i (pg Pb x) 0 - u) <= p_dual_tol AP) /\
      (nth i y 0 < 0 -> exists l, nth i (plb Pb) None = Some l /\ Rabs (nth i (pg Pb x) 0 - l) <= p_dual_tol AP)).
Proof. exact alm_pantr_converged_is_kkt. Qed.
Print Assumptions C01_alm_pantr_converged_is_kkt.

(* END-TO-END for ALM∘FISTA (composed executable model AlmFista.alm_fista): same conclusion.
   Hypotheses, each genuinely needed:
     provider_ok, grad_g_prod_empty_ok, l1 = [], stop_crit = ApproxKKT, 0 < Lγ, dimensions, ALM hypotheses      as for PANOC
     0 < L_min <= L_max  \/  (L_min <> L_max /\ 0 < L_0)    the initial L is positive, hence γ > 0:  L = L_max in fixed-step mode
                                                            (L_min == L_max), else L_0 if L_0 > 0, else the estimate clamped to [L_min, L_max]
   NOT needed: anything on disable_acceleration, on fixed-step vs backtracking mode beyond the line above, on max_no_progress,
   on eval_ψ's / eval_grad_L's output lengths, on the stop / clock oracles, on fuel. *)
Theorem C01_alm_fista_converged_is_kkt :
  forall (Pb : problem (T:=R)) (prov : fn -> bool) (Clb Cub : list (option R)) (l1 : list R)
    (split : nat) (stop_req time_up : fcounters -> bool)
    (outer_oot : nat -> bool) (FP : fparams (T:=R)) (AP : alm_params (T:=R)) (bt_fuel inner_fuel n m : nat),
  provider_ok Pb prov ->
  grad_g_prod_empty_ok Pb ->
  l1 = [] ->
  fp_crit FP = ApproxKKT ->
  0 < fp_Lgamma FP ->
  0 < fp_Lmin FP <= fp_Lmax FP \/ (fp_Lmin FP <> fp_Lmax FP /\ 0 < fp_L0 FP) ->
  length Clb = n -> length Cub = n -> Forall2 box_ne Clb Cub ->
  (forall x, length x = n -> length (pgrad_f Pb x) = n) ->
  (forall x y, length x = n -> length (pgrad_g_prod Pb x y) = n) ->
  (forall x, length x = n -> length (pg Pb x) = m) ->
  length (plb Pb) = m -> length (pub Pb) = m -> Forall2 box_ne (plb Pb) (pub Pb) ->
  forall (outer_fuel : nat) (nanv : R) (Σ0 : option (list R)) (y0 x0 : list R) (co : cout fcounters (fresult (T:=R))),
  length x0 = n -> length y0 = m ->
  Alm.p_max_iter AP <> 0%nat ->
  (m <> 0%nat -> sigma_inv AP m (initial_sigma AP m (pf Pb x0) (pg Pb x0) Σ0)) ->
  (m = 0%nat -> 0 < p_tol AP) ->
  alm_fista Pb prov Clb Cub l1 split stop_req time_up outer_oot FP AP bt_fuel inner_fuel outer_fuel nanv Σ0 y0 x0 = Some co ->
  f_status (co_final co) = Converged ->
  let x := co_x co in
  let y := f_y (co_final co) in
  length x = n /\ length y = m /\
  (forall i, (i < n)%nat -> in_box (nth i Clb None) (nth i Cub None) (nth i x 0)) /\
  (forall i, (i < n)%nat -> exists r,
      (forall u, in_box (nth i Clb None) (nth i Cub None) u -> r * (u - nth i x 0) <= 0) /\
      Rabs (- nth i (vadd (pgrad_f Pb x) (pgrad_g_prod Pb x y)) 0 - r) <= p_tol AP) /\
  (forall i, (i < m)%nat -> exists z,
      in_box (nth i (plb Pb) None) (nth i (pub Pb) None) z /\ Rabs (nth i (pg Pb x) 0 - z) <= p_dual_tol AP) /\
  (forall i, (i < m)%nat ->
      (0 < nth i y 0 -> exists u, nth i (pub Pb) None = Some u /\ Rabs (nth i (pg Pb x) 0 - u) <= p_dual_tol AP) /\
      (nth i y 0 < 0 -> exists l, nth i (plb Pb) None = Some l /\ Rabs (nth i (pg Pb x) 0 - l) <= p_dual_tol AP)).
Proof. exact alm_fista_converged_is_kkt. Qed.
Print Assumptions C01_alm_fista_converged_is_kkt.

(* non-vacuity of the two theorems above: the concrete problem of C01_alm_panoc_nonvacuous (n = 1, m = 1), with PANTR resp. FISTA
   (backtracking mode, acceleration on) as inner solver: every hypothesis holds and the composed model returns Converged *)
Example C01_alm_pantr_nonvacuous :
  (provider_ok nvPb nvprov /\ grad_g_prod_empty_ok nvPb /\ p_crit (tp_base nvTP) = ApproxKKT /\ 0 < p_Lgamma (tp_base nvTP) /\
   (0 < p_L0 (tp_base nvTP) \/ 0 < p_Lmin (tp_base nvTP) <= p_Lmax (tp_base nvTP)) /\
   Forall2 box_ne [Some 0] [Some 1] /\ Forall2 box_ne (plb nvPb) (pub nvPb) /\
   (forall x, length x = 1%nat -> length (pgrad_f nvPb x) = 1%nat) /\ (forall x y, length x = 1%nat -> length (pgrad_g_prod nvPb x y) = 1%nat) /\
   (forall x, length x = 1%nat -> length (pg nvPb x) = 1%nat) /\
   (forall j px Δ, length (ix px) = 1%nat -> length (fst (nv_trdir j px Δ)) = 1%nat) /\
   Alm.p_max_iter nvAP <> 0%nat /\ sigma_inv nvAP 1 (initial_sigma nvAP 1 (pf nvPb [0]) (pg nvPb [0]) None)) /\
  exists co,
    alm_pantr nvPb nvprov (fun _ => []) [Some 0] [Some 1] [] 0 nv_trdir false nv_never nv_never (fun _ => false) nvTP nvAP 5 5 3 0 None [0] [0] = Some co /\
    f_status (co_final co) = Converged /\ co_x co = [0] /\ f_y (co_final co) = [0].
Proof. exact (conj nv_thypotheses nv_tconverged). Qed.
Print Assumptions C01_alm_pantr_nonvacuous.

Example C01_alm_fista_nonvacuous :
  (provider_ok nvPb nvprov /\ grad_g_prod_empty_ok nvPb /\ fp_crit nvFP = ApproxKKT /\ 0 < fp_Lgamma nvFP /\
   (0 < fp_Lmin nvFP <= fp_Lmax nvFP \/ (fp_Lmin nvFP <> fp_Lmax nvFP /\ 0 < fp_L0 nvFP)) /\
   Forall2 box_ne [Some 0] [Some 1] /\ Forall2 box_ne (plb nvPb) (pub nvPb) /\
   (forall x, length x = 1%nat -> length (pgrad_f nvPb x) = 1%nat) /\ (forall x y, length x = 1%nat -> length (pgrad_g_prod nvPb x y) = 1%nat) /\
   (forall x, length x = 1%nat -> length (pg nvPb x) = 1%nat) /\
   Alm.p_max_iter nvAP <> 0%nat /\ sigma_inv nvAP 1 (initial_sigma nvAP 1 (pf nvPb [0]) (pg nvPb [0]) None)) /\
  exists co,
    alm_fista nvPb nvprov [Some 0] [Some 1] [] 0 nv_fnever nv_fnever (fun _ => false) nvFP nvAP 5 3 3 0 None [0] [0] = Some co /\
    f_status (co_final co) = Converged /\ co_x co = [0] /\ f_y (co_final co) = [0].
Proof. exact (conj nv_fhypotheses nv_fconverged). Qed.
Print Assumptions C01_alm_fista_nonvacuous.

(* (10) REFINEMENT of whole composed runs: every run of the shipped-stack model (ALM ∘ PANOC with ANY stateful provider, any initial
   provider state) IS a run of the oracle-direction model alm_panoc of (3), for the oracle "the j-th apply call of the whole ALM run
   (GLOBAL index across inner solves) returned what the provider returned there": same ALM trace (every record), same final statistics
   and status, same x, same cumulative counters; the inner logs agree up to the q field of τ = 0 records.  So every theorem about
   alm_panoc that holds for every direction oracle holds for the shipped stacks (lifts PANOCDIR_refines_oracle_model through the
   composition; (7) is the instance of this transfer for the KKT certificate, proved there directly from the inner contract). *)
Theorem C01_alm_panoc_provider_refines_oracle_model :
  forall (Pb : problem (T:=R)) (prov : fn -> bool) (wm_supplied : list R -> list R) (Clb Cub : list (option R)) (l1 : list R)
    (split : nat) (D : Type) (ops : dirops R D) (stop_req time_up : counters -> bool)
    (outer_oot : nat -> bool) (PP : Panoc.params (T:=R)) (AP : alm_params (T:=R)) (ls_fuel inner_fuel : nat)
    (d0 : D) (outer_fuel : nat) (nanv : R) (Σ0 : option (list R)) (y0 x0 : list R) (coD : cout (counters * D) (resultD D)),
  alm_panoc_dir Pb prov wm_supplied Clb Cub l1 split D ops stop_req time_up outer_oot PP AP ls_fuel inner_fuel d0 outer_fuel nanv Σ0 y0 x0
    = Some coD ->
  exists co : cout counters (result (T:=R)),
    alm_panoc Pb prov wm_supplied Clb Cub l1 split
              (fun j _ => nth j (traces D (co_logs coD)) None)      (* the oracle: j-th apply result of the whole run *)
              (d_has_initial D ops) stop_req time_up outer_oot PP AP ls_fuel inner_fuel outer_fuel nanv Σ0 y0 x0 = Some co /\
    co_trace co = co_trace coD /\ co_final co = co_final coD /\ co_x co = co_x coD /\ co_w co = fst (co_w coD) /\
    Forall2 (log_sim D) (co_logs coD) (co_logs co).
Proof. exact alm_panoc_dir_refines. Qed.
Print Assumptions C01_alm_panoc_provider_refines_oracle_model.

(* ====================================================================================================================================
   (11)–(15) ALL FOUR SHIPPED DIRECTION PROVIDERS under ALM∘PANOC and ALM∘ZeroFPR.
   `kkt_point Pb Clb Cub n m tol dtol x y` abbreviates the conclusion of the end-to-end theorems above (C01_kkt_point_unfolds).
   A provider "keeps dimensions" (DirLen.dir_len n D ops I0 Iv): there are predicates I0 (the provider as constructed) and Iv on its states
   such that on n-vectors initialize — if it returns — establishes Iv from a state satisfying I0 or Iv, update / changed_γ / reset preserve
   Iv, and apply — if it returns — preserves Iv and, when it returns true, leaves an n-vector in q.  Unlike the five obligations of (7)
   this lets initialize depend on the state it finds, which AndersonDirection needs (resize keeps same-sized storage).
   The composed models thread (cumulative counters, provider) through the inner solves; "the provider is sane (I0 or Iv)" is an invariant
   of that world (an inner solve that exits before its first initialize hands the provider on untouched). *)
From Alpaqa Require Import LMQR DirWf DirLen PanocDirLenW AlmComposeKktW AlmPanocDirW
     ZeroFprDir ZeroFprDirProofs ZeroFprDirLen AlmZeroFprDir AlmZeroFprDirProofs AlmZeroFprDirRefine.

Theorem C01_kkt_point_unfolds : forall (Pb : problem (T:=R)) (Clb Cub : list (option R)) (n m : nat) (tol dtol : R) (x y : list R),
  kkt_point Pb Clb Cub n m tol dtol x y <->
  (length x = n /\ length y = m /\
   (* x in C *)
   (forall i, (i < n)%nat -> in_box (nth i Clb None) (nth i Cub None) (nth i x 0)) /\
   (* stationarity: -(∇f(x) + ∇g(x) y) within tol (max norm) of the normal cone of C at x *)
   (forall i, (i < n)%nat -> exists r,
       (forall u, in_box (nth i Clb None) (nth i Cub None) u -> r * (u - nth i x 0) <= 0) /\
       Rabs (- nth i (vadd (pgrad_f Pb x) (pgrad_g_prod Pb x y)) 0 - r) <= tol) /\
   (* feasibility: dist∞(g(x), D) <= dtol *)
   (forall i, (i < m)%nat -> exists z,
       in_box (nth i (plb Pb) None) (nth i (pub Pb) None) z /\ Rabs (nth i (pg Pb x) 0 - z) <= dtol) /\
   (* complementarity: y_i > 0 (< 0) only where g_i(x) is within dtol of its upper (lower) bound *)
   (forall i, (i < m)%nat ->
       (0 < nth i y 0 -> exists u, nth i (pub Pb) None = Some u /\ Rabs (nth i (pg Pb x) 0 - u) <= dtol) /\
       (nth i y 0 < 0 -> exists l, nth i (plb Pb) None = Some l /\ Rabs (nth i (pg Pb x) 0 - l) <= dtol))).
Proof. intros. reflexivity. Qed.
Print Assumptions C01_kkt_point_unfolds.

(* what "keeps dimensions" says, field by field *)
Theorem C01_dir_len_unfolds : forall (n : nat) (D : Type) (ops : dirops R D) (I0 Iv : D -> Prop),
  dir_len n D ops I0 Iv <->
  ((forall d y S γ x xh p g d', I0 d \/ Iv d -> length x = n -> length xh = n -> length p = n -> length g = n ->
      d_initialize D ops d y S γ x xh p g = Some d' -> Iv d') /\
   (forall d γ γn x xn p pn g gn, Iv d ->
      length x = n -> length xn = n -> length p = n -> length pn = n -> length g = n -> length gn = n ->
      Iv (snd (d_update D ops d γ γn x xn p pn g gn))) /\
   (forall d γ x xh p g q b q' d', Iv d -> length x = n -> length xh = n -> length p = n -> length g = n ->
      d_apply D ops d γ x xh p g q = Some (b, q', d') -> Iv d' /\ (b = true -> length q' = n)) /\
   (forall d a b, Iv d -> Iv (d_changed_gamma D ops d a b)) /\
   (forall d, Iv d -> Iv (d_reset D ops d))).
Proof.
  intros. split; [intros [A B C E F]; split; [exact A|split; [exact B|split; [exact C|split; [exact E|exact F]]]]|intros (A & B & C & E & F); constructor; assumption].
Qed.
Print Assumptions C01_dir_len_unfolds.

(* (11) the four shipped providers keep dimensions; hypotheses = the providers' own preconditions only:
     LBFGSDirection: none (memory < 1 makes initialize throw);  NoopDirection: none;
     AndersonDirection: memory >= 1 (any n, incl. n = 0; I0 holds for the default-constructed provider: C01_anderson_as_constructed);
     StructuredLBFGSDirection: none (memory < 1 or a failing capability check make initialize throw, CBFGS makes apply_masked throw;
     dir_len only speaks about calls that return) *)
Theorem C01_shipped_providers_keep_dimensions : forall (n : nat),
  (forall pw (LP : Lbfgs.params R) rescale, dir_len n (Lbfgs.state R) (lbfgs_dir n pw LP rescale) (fun _ => True) (LIv n LP)) /\
  dir_len n unit (noop_dir (T:=R)) (fun _ => True) (fun _ => True) /\
  (forall mem mdf rescale, (1 <= mem)%nat -> dir_len n (aast R) (anderson_dir n mem mdf rescale) (anderson_I0 n) (anderson_Iv n)) /\
  (forall pw (LP : Lbfgs.params R) lb ub l1 Dlb Dub prov_inactive prov_hess_L prov_hess_psi prov_box_D prov_grad_gi
          grad_psi_at hess_L_prod hess_psi_prod eval_g grad_gi cbrt_eps hvf fd full_aug use_scaled,
     dir_len n (sdstate (T:=R))
             (struct_dir n pw LP lb ub l1 Dlb Dub prov_inactive prov_hess_L prov_hess_psi prov_box_D prov_grad_gi
                         grad_psi_at hess_L_prod hess_psi_prod eval_g grad_gi cbrt_eps hvf fd full_aug use_scaled)
             (fun _ => True) (SIv n LP)).
Proof.
  intros n. split; [exact (lbfgs_len n)|]. split; [exact (noop_len n)|]. split; [exact (anderson_len n)|exact (struct_len_all n)].
Qed.
Print Assumptions C01_shipped_providers_keep_dimensions.

Theorem C01_anderson_as_constructed : forall n mem mdf, anderson_I0 n (anderson_unsized (T:=R) mem mdf).
Proof. exact anderson_unsized_I0. Qed.
Print Assumptions C01_anderson_as_constructed.

Section ShippedStacks.
  Variable Pb : problem (T:=R).
  Variable prov : fn -> bool.
  Variable wm_supplied : list R -> list R.
  Variables (Clb Cub : list (option R)) (l1 : list R).
  Variable split : nat.
  Variables (stop_req time_up : counters -> bool) (outer_oot : nat -> bool).
  Variable PP : Panoc.params (T:=R).
  Variable from_prox : bool.                 (* ZeroFPRParams::update_direction_from_prox_step (ZeroFPR theorems only) *)
  Variable AP : alm_params (T:=R).
  Variables (ls_fuel inner_fuel n m : nat).
  (* the hypotheses of C01_alm_panoc_converged_is_kkt / C01_alm_zerofpr_converged_is_kkt, each genuinely needed (see there) *)
  Hypothesis Hprov : provider_ok Pb prov.
  Hypothesis Hempty : grad_g_prod_empty_ok Pb.
  Hypothesis Hl1 : l1 = [].
  Hypothesis Hcrit : p_crit PP = ApproxKKT.
  Hypothesis HLg : 0 < p_Lgamma PP.
  Hypothesis HL : 0 < p_L0 PP \/ 0 < p_Lmin PP <= p_Lmax PP.
  Hypothesis HClb : length Clb = n.
  Hypothesis HCub : length Cub = n.
  Hypothesis HCne : Forall2 box_ne Clb Cub.
  Hypothesis Hgf : forall x, length x = n -> length (pgrad_f Pb x) = n.
  Hypothesis Hgg : forall x y, length x = n -> length (pgrad_g_prod Pb x y) = n.
  Hypothesis Hg : forall x, length x = n -> length (pg Pb x) = m.
  Hypothesis HDlb : length (plb Pb) = m.
  Hypothesis HDub : length (pub Pb) = m.
  Hypothesis HDne : Forall2 box_ne (plb Pb) (pub Pb).

  (* the ALM-level hypotheses on one run, as in (3) *)
  Definition alm_run_hyps (Σ0 : option (list R)) (y0 x0 : list R) : Prop :=
    length x0 = n /\ length y0 = m /\ Alm.p_max_iter AP <> 0%nat /\
    (m <> 0%nat -> sigma_inv AP m (initial_sigma AP m (pf Pb x0) (pg Pb x0) Σ0)) /\
    (m = 0%nat -> 0 < p_tol AP).

  (* (12) ALM ∘ PANOC, every provider that keeps dimensions in the sense of dir_len *)
  Theorem C01_alm_panoc_dirlen_provider_converged_is_kkt :
    forall (D : Type) (ops : dirops R D) (I0 Iv : D -> Prop), dir_len n D ops I0 Iv ->
    forall (d0 : D) outer_fuel nanv Σ0 y0 x0 co, I0 d0 \/ Iv d0 -> alm_run_hyps Σ0 y0 x0 ->
    alm_panoc_dir Pb prov wm_supplied Clb Cub l1 split D ops stop_req time_up outer_oot PP AP ls_fuel inner_fuel d0 outer_fuel nanv Σ0 y0 x0
      = Some co ->
    f_status (co_final co) = Converged ->
    kkt_point Pb Clb Cub n m (p_tol AP) (p_dual_tol AP) (co_x co) (f_y (co_final co)).
  Proof.
    intros D ops I0 Iv HDL d0 outer_fuel nanv Σ0 y0 x0 co Hd0 (H1 & H2 & H3 & H4 & H5).
    exact (alm_panoc_dirlen_converged_is_kkt Pb prov wm_supplied Clb Cub l1 split D ops stop_req time_up outer_oot PP AP ls_fuel inner_fuel n m
             Hprov Hempty Hl1 Hcrit HLg HL HClb HCub HCne Hgf Hgg Hg HDlb HDub HDne I0 Iv HDL d0 outer_fuel nanv Σ0 y0 x0 co Hd0 H1 H2 H3 H4 H5).
  Qed.

  (* ALMSolver<PANOCSolver<AndersonDirection>>: memory >= 1; every min_div_fac, rescale_on_step_size_changes;
     started from the provider as constructed (C01_anderson_as_constructed) or as an earlier run left it *)
  Theorem C01_alm_panoc_anderson_converged_is_kkt :
    forall (mem : nat) (mdf : R) (rescale : bool), (1 <= mem)%nat ->
    forall (d0 : aast R) outer_fuel nanv Σ0 y0 x0 co, anderson_I0 n d0 \/ anderson_Iv n d0 -> alm_run_hyps Σ0 y0 x0 ->
    alm_panoc_dir Pb prov wm_supplied Clb Cub l1 split (aast R) (anderson_dir n mem mdf rescale) stop_req time_up outer_oot PP AP
                  ls_fuel inner_fuel d0 outer_fuel nanv Σ0 y0 x0 = Some co ->
    f_status (co_final co) = Converged ->
    kkt_point Pb Clb Cub n m (p_tol AP) (p_dual_tol AP) (co_x co) (f_y (co_final co)).
  Proof.
    intros mem mdf rescale Hmem d0 outer_fuel nanv Σ0 y0 x0 co Hd0 (H1 & H2 & H3 & H4 & H5).
    exact (alm_panoc_anderson_converged_is_kkt Pb prov wm_supplied Clb Cub l1 split stop_req time_up outer_oot PP AP ls_fuel inner_fuel n m
             Hprov Hempty Hl1 Hcrit HLg HL HClb HCub HCne Hgf Hgg Hg HDlb HDub HDne mem mdf rescale Hmem d0 outer_fuel nanv Σ0 y0 x0 co Hd0 H1 H2 H3 H4 H5).
  Qed.

  (* ALMSolver<PANOCSolver<StructuredLBFGSDirection>>: NO hypothesis about the direction — every LBFGSParams and direction parameter
     (Hessian-vector term in all variants with ARBITRARY Hessian / gradient members, both failure policies), every box / l1 data the
     provider is given, any provider state d0.  The provider's throw conditions (memory < 1, a failing capability check of initialize,
     CBFGS in apply_masked) need not be excluded: a run in which a provider call throws has no result, the statement is about completed runs *)
  Theorem C01_alm_panoc_struclbfgs_converged_is_kkt :
    forall pw (LP : Lbfgs.params R) slb sub sl1 Dlb Dub prov_inactive prov_hess_L prov_hess_psi prov_box_D prov_grad_gi
           grad_psi_at hess_L_prod hess_psi_prod eval_g grad_gi cbrt_eps hvf fd full_aug use_scaled
           (d0 : sdstate (T:=R)) outer_fuel nanv Σ0 y0 x0 co, alm_run_hyps Σ0 y0 x0 ->
    alm_panoc_dir Pb prov wm_supplied Clb Cub l1 split (sdstate (T:=R))
                  (struct_dir n pw LP slb sub sl1 Dlb Dub prov_inactive prov_hess_L prov_hess_psi prov_box_D prov_grad_gi
                              grad_psi_at hess_L_prod hess_psi_prod eval_g grad_gi cbrt_eps hvf fd full_aug use_scaled)
                  stop_req time_up outer_oot PP AP ls_fuel inner_fuel d0 outer_fuel nanv Σ0 y0 x0 = Some co ->
    f_status (co_final co) = Converged ->
    kkt_point Pb Clb Cub n m (p_tol AP) (p_dual_tol AP) (co_x co) (f_y (co_final co)).
  Proof.
    intros pw LP slb sub sl1 Dlb Dub b1 b2 b3 b4 b5 f1 f2 f3 f4 f5 ce hvf fd fa us d0 outer_fuel nanv Σ0 y0 x0 co (H1 & H2 & H3 & H4 & H5).
    exact (alm_panoc_struclbfgs_converged_is_kkt Pb prov wm_supplied Clb Cub l1 split stop_req time_up outer_oot PP AP ls_fuel inner_fuel n m
             Hprov Hempty Hl1 Hcrit HLg HL HClb HCub HCne Hgf Hgg Hg HDlb HDub HDne pw LP slb sub sl1 Dlb Dub b1 b2 b3 b4 b5 f1 f2 f3 f4 f5 ce hvf fd fa us
             d0 outer_fuel nanv Σ0 y0 x0 co H1 H2 H3 H4 H5).
  Qed.

  (* (13) ALM ∘ ZeroFPR with a stateful provider (AlmZeroFprDir.alm_zerofpr_dir), generically *)
  Theorem C01_alm_zerofpr_provider_converged_is_kkt :
    forall (D : Type) (ops : dirops R D) (I0 Iv : D -> Prop), dir_len n D ops I0 Iv ->
    forall (d0 : D) outer_fuel nanv Σ0 y0 x0 co, I0 d0 \/ Iv d0 -> alm_run_hyps Σ0 y0 x0 ->
    alm_zerofpr_dir Pb prov wm_supplied Clb Cub l1 split D ops stop_req time_up outer_oot PP from_prox AP ls_fuel inner_fuel d0
                    outer_fuel nanv Σ0 y0 x0 = Some co ->
    f_status (co_final co) = Converged ->
    kkt_point Pb Clb Cub n m (p_tol AP) (p_dual_tol AP) (co_x co) (f_y (co_final co)).
  Proof.
    intros D ops I0 Iv HDL d0 outer_fuel nanv Σ0 y0 x0 co Hd0 (H1 & H2 & H3 & H4 & H5).
    exact (alm_zerofpr_dir_converged_is_kkt Pb prov wm_supplied Clb Cub l1 split D ops stop_req time_up outer_oot PP from_prox AP ls_fuel inner_fuel n m
             Hprov Hempty Hl1 Hcrit HLg HL HClb HCub HCne Hgf Hgg Hg HDlb HDub HDne I0 Iv HDL d0 outer_fuel nanv Σ0 y0 x0 co Hd0 H1 H2 H3 H4 H5).
  Qed.

  (* ALMSolver<ZeroFPRSolver<LBFGSDirection>>: NO hypothesis about the direction (every LBFGSParams, CBFGS, rescaling, any provider state) *)
  Theorem C01_alm_zerofpr_lbfgs_converged_is_kkt :
    forall pw (LP : Lbfgs.params R) (rescale : bool) (d0 : Lbfgs.state R) outer_fuel nanv Σ0 y0 x0 co, alm_run_hyps Σ0 y0 x0 ->
    alm_zerofpr_dir Pb prov wm_supplied Clb Cub l1 split (Lbfgs.state R) (lbfgs_dir n pw LP rescale) stop_req time_up outer_oot PP from_prox AP
                    ls_fuel inner_fuel d0 outer_fuel nanv Σ0 y0 x0 = Some co ->
    f_status (co_final co) = Converged ->
    kkt_point Pb Clb Cub n m (p_tol AP) (p_dual_tol AP) (co_x co) (f_y (co_final co)).
  Proof.
    intros pw LP rescale d0 outer_fuel nanv Σ0 y0 x0 co (H1 & H2 & H3 & H4 & H5).
    exact (alm_zerofpr_lbfgs_converged_is_kkt Pb prov wm_supplied Clb Cub l1 split stop_req time_up outer_oot PP from_prox AP ls_fuel inner_fuel n m
             Hprov Hempty Hl1 Hcrit HLg HL HClb HCub HCne Hgf Hgg Hg HDlb HDub HDne pw LP rescale d0 outer_fuel nanv Σ0 y0 x0 co H1 H2 H3 H4 H5).
  Qed.

  Theorem C01_alm_zerofpr_noop_converged_is_kkt :
    forall (d0 : unit) outer_fuel nanv Σ0 y0 x0 co, alm_run_hyps Σ0 y0 x0 ->
    alm_zerofpr_dir Pb prov wm_supplied Clb Cub l1 split unit (noop_dir (T:=R)) stop_req time_up outer_oot PP from_prox AP
                    ls_fuel inner_fuel d0 outer_fuel nanv Σ0 y0 x0 = Some co ->
    f_status (co_final co) = Converged ->
    kkt_point Pb Clb Cub n m (p_tol AP) (p_dual_tol AP) (co_x co) (f_y (co_final co)).
  Proof.
    intros d0 outer_fuel nanv Σ0 y0 x0 co (H1 & H2 & H3 & H4 & H5).
    exact (alm_zerofpr_noop_converged_is_kkt Pb prov wm_supplied Clb Cub l1 split stop_req time_up outer_oot PP from_prox AP ls_fuel inner_fuel n m
             Hprov Hempty Hl1 Hcrit HLg HL HClb HCub HCne Hgf Hgg Hg HDlb HDub HDne d0 outer_fuel nanv Σ0 y0 x0 co H1 H2 H3 H4 H5).
  Qed.

  Theorem C01_alm_zerofpr_anderson_converged_is_kkt :
    forall (mem : nat) (mdf : R) (rescale : bool), (1 <= mem)%nat ->
    forall (d0 : aast R) outer_fuel nanv Σ0 y0 x0 co, anderson_I0 n d0 \/ anderson_Iv n d0 -> alm_run_hyps Σ0 y0 x0 ->
    alm_zerofpr_dir Pb prov wm_supplied Clb Cub l1 split (aast R) (anderson_dir n mem mdf rescale) stop_req time_up outer_oot PP from_prox AP
                    ls_fuel inner_fuel d0 outer_fuel nanv Σ0 y0 x0 = Some co ->
    f_status (co_final co) = Converged ->
    kkt_point Pb Clb Cub n m (p_tol AP) (p_dual_tol AP) (co_x co) (f_y (co_final co)).
  Proof.
    intros mem mdf rescale Hmem d0 outer_fuel nanv Σ0 y0 x0 co Hd0 (H1 & H2 & H3 & H4 & H5).
    exact (alm_zerofpr_anderson_converged_is_kkt Pb prov wm_supplied Clb Cub l1 split stop_req time_up outer_oot PP from_prox AP ls_fuel inner_fuel n m
             Hprov Hempty Hl1 Hcrit HLg HL HClb HCub HCne Hgf Hgg Hg HDlb HDub HDne mem mdf rescale Hmem d0 outer_fuel nanv Σ0 y0 x0 co Hd0 H1 H2 H3 H4 H5).
  Qed.

  Theorem C01_alm_zerofpr_struclbfgs_converged_is_kkt :
    forall pw (LP : Lbfgs.params R) slb sub sl1 Dlb Dub prov_inactive prov_hess_L prov_hess_psi prov_box_D prov_grad_gi
           grad_psi_at hess_L_prod hess_psi_prod eval_g grad_gi cbrt_eps hvf fd full_aug use_scaled
           (d0 : sdstate (T:=R)) outer_fuel nanv Σ0 y0 x0 co, alm_run_hyps Σ0 y0 x0 ->
    alm_zerofpr_dir Pb prov wm_supplied Clb Cub l1 split (sdstate (T:=R))
                    (struct_dir n pw LP slb sub sl1 Dlb Dub prov_inactive prov_hess_L prov_hess_psi prov_box_D prov_grad_gi
                                grad_psi_at hess_L_prod hess_psi_prod eval_g grad_gi cbrt_eps hvf fd full_aug use_scaled)
                    stop_req time_up outer_oot PP from_prox AP ls_fuel inner_fuel d0 outer_fuel nanv Σ0 y0 x0 = Some co ->
    f_status (co_final co) = Converged ->
    kkt_point Pb Clb Cub n m (p_tol AP) (p_dual_tol AP) (co_x co) (f_y (co_final co)).
  Proof.
    intros pw LP slb sub sl1 Dlb Dub b1 b2 b3 b4 b5 f1 f2 f3 f4 f5 ce hvf fd fa us d0 outer_fuel nanv Σ0 y0 x0 co (H1 & H2 & H3 & H4 & H5).
    exact (alm_zerofpr_struclbfgs_converged_is_kkt Pb prov wm_supplied Clb Cub l1 split stop_req time_up outer_oot PP from_prox AP ls_fuel inner_fuel n m
             Hprov Hempty Hl1 Hcrit HLg HL HClb HCub HCne Hgf Hgg Hg HDlb HDub HDne pw LP slb sub sl1 Dlb Dub b1 b2 b3 b4 b5 f1 f2 f3 f4 f5 ce hvf fd fa us
             d0 outer_fuel nanv Σ0 y0 x0 co H1 H2 H3 H4 H5).
  Qed.

  (* (14) the provider object survives: after ANY completed ALM run (whatever its status) from a sane provider, the provider is sane again
     and the primal buffer holds an n-vector — a second operator() call on the same solver object is covered by (12)/(13) again *)
  Theorem C01_alm_zerofpr_provider_stays_sane :
    forall (D : Type) (ops : dirops R D) (I0 Iv : D -> Prop), dir_len n D ops I0 Iv ->
    forall (d0 : D) outer_fuel nanv Σ0 y0 x0 co, I0 d0 \/ Iv d0 -> length x0 = n ->
    alm_zerofpr_dir Pb prov wm_supplied Clb Cub l1 split D ops stop_req time_up outer_oot PP from_prox AP ls_fuel inner_fuel d0
                    outer_fuel nanv Σ0 y0 x0 = Some co ->
    (I0 (snd (co_w co)) \/ Iv (snd (co_w co))) /\ length (co_x co) = n.
  Proof.
    intros D ops I0 Iv HDL.
    exact (alm_zerofpr_dir_keeps_provider Pb prov wm_supplied Clb Cub l1 split D ops stop_req time_up outer_oot PP from_prox AP ls_fuel inner_fuel n m
             Hprov Hempty Hl1 Hcrit HLg HL HClb HCub Hgf Hgg Hg HDlb HDub I0 Iv HDL).
  Qed.
  Theorem C01_alm_panoc_provider_stays_sane :
    forall (D : Type) (ops : dirops R D) (I0 Iv : D -> Prop), dir_len n D ops I0 Iv ->
    forall (d0 : D) outer_fuel nanv Σ0 y0 x0 co, I0 d0 \/ Iv d0 -> length x0 = n ->
    alm_panoc_dir Pb prov wm_supplied Clb Cub l1 split D ops stop_req time_up outer_oot PP AP ls_fuel inner_fuel d0
                  outer_fuel nanv Σ0 y0 x0 = Some co ->
    (I0 (snd (co_w co)) \/ Iv (snd (co_w co))) /\ length (co_x co) = n.
  Proof.
    intros D ops I0 Iv HDL.
    exact (alm_panoc_dirlen_keeps_provider Pb prov wm_supplied Clb Cub l1 split D ops stop_req time_up outer_oot PP AP ls_fuel inner_fuel n m
             Hprov Hempty Hl1 Hcrit HLg HL HClb HCub Hgf Hgg Hg HDlb HDub I0 Iv HDL).
  Qed.
End ShippedStacks.
Print Assumptions C01_alm_panoc_dirlen_provider_converged_is_kkt.
Print Assumptions C01_alm_panoc_anderson_converged_is_kkt.
Print Assumptions C01_alm_panoc_struclbfgs_converged_is_kkt.
Print Assumptions C01_alm_zerofpr_provider_converged_is_kkt.
Print Assumptions C01_alm_zerofpr_lbfgs_converged_is_kkt.
Print Assumptions C01_alm_zerofpr_noop_converged_is_kkt.
Print Assumptions C01_alm_zerofpr_anderson_converged_is_kkt.
Print Assumptions C01_alm_zerofpr_struclbfgs_converged_is_kkt.
Print Assumptions C01_alm_zerofpr_provider_stays_sane.
Print Assumptions C01_alm_panoc_provider_stays_sane.

(* (15) REFINEMENT of whole composed runs, ZeroFPR: every run of ALM ∘ ZeroFPR with ANY stateful provider (any initial state, both values
   of update_direction_from_prox_step) IS a run of the oracle-direction model alm_zerofpr of (6) for the oracle "the j-th apply call of the
   whole ALM run returned what the provider returned there" — same ALM trace, final statistics, x, cumulative counters; inner logs up to
   the q field of τ = 0 records.  So every theorem about alm_zerofpr for every direction oracle holds for the shipped ZeroFPR stacks. *)
Theorem C01_alm_zerofpr_provider_refines_oracle_model :
  forall (Pb : problem (T:=R)) (prov : fn -> bool) (wm_supplied : list R -> list R) (Clb Cub : list (option R)) (l1 : list R)
    (split : nat) (D : Type) (ops : dirops R D) (stop_req time_up : counters -> bool)
    (outer_oot : nat -> bool) (PP : Panoc.params (T:=R)) (from_prox : bool) (AP : alm_params (T:=R)) (ls_fuel inner_fuel : nat)
    (d0 : D) (outer_fuel : nat) (nanv : R) (Σ0 : option (list R)) (y0 x0 : list R) (coD : cout (counters * D) (zresultD D)),
  alm_zerofpr_dir Pb prov wm_supplied Clb Cub l1 split D ops stop_req time_up outer_oot PP from_prox AP ls_fuel inner_fuel d0 outer_fuel nanv Σ0 y0 x0
    = Some coD ->
  exists co : cout counters (result (T:=R)),
    alm_zerofpr Pb prov wm_supplied Clb Cub l1 split
                (fun j _ _ => nth j (ztraces D (co_logs coD)) None)      (* the oracle: j-th apply result of the whole run *)
                (d_has_initial D ops) stop_req time_up outer_oot PP AP ls_fuel inner_fuel outer_fuel nanv Σ0 y0 x0 = Some co /\
    co_trace co = co_trace coD /\ co_final co = co_final coD /\ co_x co = co_x coD /\ co_w co = fst (co_w coD) /\
    Forall2 (zlog_sim D) (co_logs coD) (co_logs co).
Proof. exact alm_zerofpr_dir_refines. Qed.
Print Assumptions C01_alm_zerofpr_provider_refines_oracle_model.

(* non-vacuity of (13): the instance of C01_alm_panoc_nonvacuous with ZeroFPR + LBFGSDirection (memory 5), from the default-constructed
   provider: the composed model returns Converged after one outer iteration, x = 0, y = 0 *)
Example C01_alm_zerofpr_lbfgs_nonvacuous :
  exists co,
    alm_zerofpr_dir nvPb nvprov (fun _ => []) [Some 0] [Some 1] [] 0 (Lbfgs.state R) (lbfgs_dir 1 nvz_pw nvzLP false) nv_never nv_never (fun _ => false)
                    nvPP false nvAP 5 5 (lbfgs_unsized (T:=R)) 3 0 None [0] [0] = Some co /\
    f_status (co_final co) = Converged /\ co_x co = [0] /\ f_y (co_final co) = [0].
Proof. exact nvzD_converged. Qed.

(* ====================================================================================================================================
   (16)–(19) THE SHIPPED PANTR STACK ALMSolver<PANTRSolver<NewtonTRDirection>> (composed model AlmPantrDir.alm_pantr_dir: the ALM outer
   loop running PantrDir.pantrD — the PANTR loop with a STATEFUL trust-region direction provider; the provider object persists across
   inner solves like the C++ member, `initialize` is called at k = 0 of every inner solve with that solve's y and Σ; the trust radius is
   local to one inner solve).
   A TR provider "keeps dimensions" (PantrDirLen.trdir_len n D ops I0 Iv): on n-vectors initialize — if it returns — establishes Iv
   from a state satisfying I0 or Iv, update / changed_γ / reset preserve Iv, and apply — if it returns — preserves Iv and leaves an
   n-vector in q.  This REPLACES the direction-oracle hypothesis of C01_alm_pantr_converged_is_kkt (which quantifies over all call
   indices and so cannot be met by the finite call log of a run): the dimension invariant is proved on the provider loop itself
   (PantrDirLen.v), the inner contract comes through the refinement PANTRDIR_refines_oracle_model. *)
From Alpaqa Require Import Steihaug DirectionsTR PantrDir PantrDirProofs PantrDirLen AlmPantrDir AlmPantrDirProofs AlmPantrDirRefine.

(* what "keeps dimensions" says for a TR provider, field by field *)
Theorem C01_trdir_len_unfolds : forall (n : nat) (D : Type) (ops : trdirops R D) (I0 Iv : D -> Prop),
  trdir_len n D ops I0 Iv <->
  ((forall d y S γ x xh p g d', I0 d \/ Iv d -> length x = n -> length xh = n -> length p = n -> length g = n ->
      td_initialize D ops d y S γ x xh p g = Some d' -> Iv d') /\
   (forall d γ γn x xn p pn g gn, Iv d ->
      length x = n -> length xn = n -> length p = n -> length pn = n -> length g = n -> length gn = n ->
      Iv (snd (td_update D ops d γ γn x xn p pn g gn))) /\
   (forall d γ x xh p g Δ q q' v d', Iv d -> length x = n -> length xh = n -> length p = n -> length g = n ->
      td_apply D ops d γ x xh p g Δ q = Some (q', v, d') -> Iv d' /\ length q' = n) /\
   (forall d a b, Iv d -> Iv (td_changed_gamma D ops d a b)) /\
   (forall d, Iv d -> Iv (td_reset D ops d))).
Proof.
  intros. split; [intros [A B C E F]; split; [exact A|split; [exact B|split; [exact C|split; [exact E|exact F]]]]|intros (A & B & C & E & F); constructor; assumption].
Qed.
Print Assumptions C01_trdir_len_unfolds.

(* (16) NewtonTRDirection keeps dimensions — NO hypothesis: every NewtonTRDirectionParams (hessian_vec_factor, exact Hessian products or
   finite differences, every perturbation size), every SteihaugCGParams and iteration-cap conversion, arbitrary eval_grad_ψ /
   eval_hess_ψ_prod members and capability flags, any box / l1 data: apply returns q with q(K) = p(K), q(J) = the CG step scattered
   back, a vector of the length of p whatever SteihaugCG::solve produced *)
Theorem C01_newtontr_keeps_dimensions : forall (n : nat) (lb ub : list (option R)) (l1 : list R)
    (prov_inactive prov_hess_L prov_hess_psi m_is_zero : bool)
    (grad_psi_at : list R -> list R -> list R -> list R) (hess_psi_prod : list R -> list R -> list R -> R -> list R -> list R)
    (hvf : R) (fd : bool) (fd_step cg_ts cg_tsr : R) (cg_tmax : option R) (cg_max_iter : nat -> Z) (eps_mach : R),
  trdir_len n (ntrstate R)
            (newton_tr_dir lb ub l1 prov_inactive prov_hess_L prov_hess_psi m_is_zero grad_psi_at hess_psi_prod
                           hvf fd fd_step cg_ts cg_tsr cg_tmax cg_max_iter eps_mach)
            (fun _ => True) (fun _ => True).
Proof. exact ntr_len. Qed.
Print Assumptions C01_newtontr_keeps_dimensions.

Section ShippedPantr.
  Variable Pb : problem (T:=R).
  Variable prov : fn -> bool.
  Variable wm_supplied : list R -> list R.
  Variables (Clb Cub : list (option R)) (l1 : list R).
  Variable split : nat.
  Variables (stop_req time_up : counters -> bool) (outer_oot : nat -> bool).
  Variable TP : trparams (T:=R).             (* PANTRParams *)
  Variable AP : alm_params (T:=R).
  Variables (bt_fuel inner_fuel n m : nat).
  (* the hypotheses of C01_alm_pantr_converged_is_kkt WITHOUT the one on the direction oracle, each genuinely needed (see there) *)
  Hypothesis Hprov : provider_ok Pb prov.
  Hypothesis Hempty : grad_g_prod_empty_ok Pb.
  Hypothesis Hl1 : l1 = [].
  Hypothesis Hcrit : p_crit (tp_base TP) = ApproxKKT.
  Hypothesis HLg : 0 < p_Lgamma (tp_base TP).
  Hypothesis HL : 0 < p_L0 (tp_base TP) \/ 0 < p_Lmin (tp_base TP) <= p_Lmax (tp_base TP).
  Hypothesis HClb : length Clb = n.
  Hypothesis HCub : length Cub = n.
  Hypothesis HCne : Forall2 box_ne Clb Cub.
  Hypothesis Hgf : forall x, length x = n -> length (pgrad_f Pb x) = n.
  Hypothesis Hgg : forall x y, length x = n -> length (pgrad_g_prod Pb x y) = n.
  Hypothesis Hg : forall x, length x = n -> length (pg Pb x) = m.
  Hypothesis HDlb : length (plb Pb) = m.
  Hypothesis HDub : length (pub Pb) = m.
  Hypothesis HDne : Forall2 box_ne (plb Pb) (pub Pb).

  (* the ALM-level hypotheses on one run, as in (3) *)
  Definition alm_run_hyps_tr (Σ0 : option (list R)) (y0 x0 : list R) : Prop :=
    length x0 = n /\ length y0 = m /\ Alm.p_max_iter AP <> 0%nat /\
    (m <> 0%nat -> sigma_inv AP m (initial_sigma AP m (pf Pb x0) (pg Pb x0) Σ0)) /\
    (m = 0%nat -> 0 < p_tol AP).

  (* (17) ALM ∘ PANTR with a stateful TR provider, generically: every provider that keeps dimensions, from a sane state *)
  Theorem C01_alm_pantr_provider_converged_is_kkt :
    forall (D : Type) (ops : trdirops R D) (I0 Iv : D -> Prop), trdir_len n D ops I0 Iv ->
    forall (d0 : D) outer_fuel nanv Σ0 y0 x0 co, I0 d0 \/ Iv d0 -> alm_run_hyps_tr Σ0 y0 x0 ->
    alm_pantr_dir Pb prov wm_supplied Clb Cub l1 split D ops stop_req time_up outer_oot TP AP bt_fuel inner_fuel d0 outer_fuel nanv Σ0 y0 x0
      = Some co ->
    f_status (co_final co) = Converged ->
    kkt_point Pb Clb Cub n m (p_tol AP) (p_dual_tol AP) (co_x co) (f_y (co_final co)).
  Proof.
    intros D ops I0 Iv HDL d0 outer_fuel nanv Σ0 y0 x0 co Hd0 (H1 & H2 & H3 & H4 & H5).
    exact (alm_pantr_dir_converged_is_kkt Pb prov wm_supplied Clb Cub l1 split D ops stop_req time_up outer_oot TP AP bt_fuel inner_fuel n m
             Hprov Hempty Hl1 Hcrit HLg HL HClb HCub HCne Hgf Hgg Hg HDlb HDub HDne I0 Iv HDL d0 outer_fuel nanv Σ0 y0 x0 co Hd0 H1 H2 H3 H4 H5).
  Qed.

  (* (18) ALMSolver<PANTRSolver<NewtonTRDirection>> — the stack the library ships: NO hypothesis about the direction.  Exact Hessian
     products (fd = false) and finite differences (fd = true), every hessian_vec_factor / finite_diff_stepsize, every SteihaugCGParams,
     ARBITRARY eval_grad_ψ / eval_hess_ψ_prod members (no symmetry, no linearity, no length assumption), any capability flags, any box /
     l1 data handed to the provider, any provider state d0.  The provider's own throw conditions (initialize: no Hessian member without
     finite differences, no eval_inactive_indices_res_lna; apply: radius not finite or below ε_mach) need not be excluded: a run in which a
     provider call throws has no result (None), the statement is about completed runs. *)
  Theorem C01_alm_pantr_newtontr_converged_is_kkt :
    forall (dlb dub : list (option R)) (dl1 : list R) (prov_inactive prov_hess_L prov_hess_psi m_is_zero : bool)
           (grad_psi_at : list R -> list R -> list R -> list R) (hess_psi_prod : list R -> list R -> list R -> R -> list R -> list R)
           (hvf : R) (fd : bool) (fd_step cg_ts cg_tsr : R) (cg_tmax : option R) (cg_max_iter : nat -> Z) (eps_mach : R)
           (d0 : ntrstate R) outer_fuel nanv Σ0 y0 x0 co, alm_run_hyps_tr Σ0 y0 x0 ->
    alm_pantr_dir Pb prov wm_supplied Clb Cub l1 split (ntrstate R)
                  (newton_tr_dir dlb dub dl1 prov_inactive prov_hess_L prov_hess_psi m_is_zero grad_psi_at hess_psi_prod
                                 hvf fd fd_step cg_ts cg_tsr cg_tmax cg_max_iter eps_mach)
                  stop_req time_up outer_oot TP AP bt_fuel inner_fuel d0 outer_fuel nanv Σ0 y0 x0 = Some co ->
    f_status (co_final co) = Converged ->
    kkt_point Pb Clb Cub n m (p_tol AP) (p_dual_tol AP) (co_x co) (f_y (co_final co)).
  Proof.
    intros dlb dub dl1 b1 b2 b3 b4 f1 f2 hvf fd fs ts tsr tm mi em d0 outer_fuel nanv Σ0 y0 x0 co (H1 & H2 & H3 & H4 & H5).
    exact (alm_pantr_newtontr_converged_is_kkt Pb prov wm_supplied Clb Cub l1 split stop_req time_up outer_oot TP AP bt_fuel inner_fuel n m
             Hprov Hempty Hl1 Hcrit HLg HL HClb HCub HCne Hgf Hgg Hg HDlb HDub HDne dlb dub dl1 b1 b2 b3 b4 f1 f2 hvf fd fs ts tsr tm mi em
             d0 outer_fuel nanv Σ0 y0 x0 co H1 H2 H3 H4 H5).
  Qed.

  (* the provider object survives: after ANY completed ALM run (whatever its status) from a sane provider, the provider is sane again
     and the primal buffer holds an n-vector — a second operator() call on the same solver object is covered by (17) again *)
  Theorem C01_alm_pantr_provider_stays_sane :
    forall (D : Type) (ops : trdirops R D) (I0 Iv : D -> Prop), trdir_len n D ops I0 Iv ->
    forall (d0 : D) outer_fuel nanv Σ0 y0 x0 co, I0 d0 \/ Iv d0 -> length x0 = n ->
    alm_pantr_dir Pb prov wm_supplied Clb Cub l1 split D ops stop_req time_up outer_oot TP AP bt_fuel inner_fuel d0
                  outer_fuel nanv Σ0 y0 x0 = Some co ->
    (I0 (snd (co_w co)) \/ Iv (snd (co_w co))) /\ length (co_x co) = n.
  Proof.
    intros D ops I0 Iv HDL.
    exact (alm_pantr_dir_keeps_provider Pb prov wm_supplied Clb Cub l1 split D ops stop_req time_up outer_oot TP AP bt_fuel inner_fuel n m
             Hprov Hempty Hl1 Hcrit HLg HL HClb HCub Hgf Hgg Hg HDlb HDub I0 Iv HDL).
  Qed.
End ShippedPantr.
Print Assumptions C01_alm_pantr_provider_converged_is_kkt.
Print Assumptions C01_alm_pantr_newtontr_converged_is_kkt.
Print Assumptions C01_alm_pantr_provider_stays_sane.

(* (19) REFINEMENT of whole composed runs, PANTR: every run of ALM ∘ PANTR with ANY stateful TR provider (any initial state) IS a run of
   the oracle-direction model alm_pantr of (8) for the oracle "the j-th apply call of the whole ALM run (global index, across inner
   solves) returned the (q, model value) the provider returned there" — same ALM trace, final statistics, x, cumulative counters, and the
   SAME inner results (outputs, statistics, counters, whole callback logs incl. q, Δ, ρ).  So every theorem about alm_pantr for every
   direction oracle (C07's invariants, C19's stop theorems) holds for the shipped stack ALMSolver<PANTRSolver<NewtonTRDirection>>. *)
Theorem C01_alm_pantr_provider_refines_oracle_model :
  forall (Pb : problem (T:=R)) (prov : fn -> bool) (wm_supplied : list R -> list R) (Clb Cub : list (option R)) (l1 : list R)
    (split : nat) (D : Type) (ops : trdirops R D) (stop_req time_up : counters -> bool)
    (outer_oot : nat -> bool) (TP : trparams (T:=R)) (AP : alm_params (T:=R)) (bt_fuel inner_fuel : nat)
    (d0 : D) (outer_fuel : nat) (nanv : R) (Σ0 : option (list R)) (y0 x0 : list R) (coD : cout (counters * D) (tresultD (T:=R) D)),
  alm_pantr_dir Pb prov wm_supplied Clb Cub l1 split D ops stop_req time_up outer_oot TP AP bt_fuel inner_fuel d0 outer_fuel nanv Σ0 y0 x0
    = Some coD ->
  exists co : cout counters (tresult (T:=R)),
    alm_pantr Pb prov wm_supplied Clb Cub l1 split
              (fun j _ _ => match nth_error (tcalls D (co_logs coD)) j with Some c => (tc_q c, tc_val c) | None => ([], 0) end)
              (td_has_initial D ops) stop_req time_up outer_oot TP AP bt_fuel inner_fuel outer_fuel nanv Σ0 y0 x0 = Some co /\
    co_trace co = co_trace coD /\ co_final co = co_final coD /\ co_x co = co_x coD /\ co_w co = fst (co_w coD) /\
    Forall2 (tlog_sim D) (co_logs coD) (co_logs co).
Proof. exact alm_pantr_dir_refines. Qed.
Print Assumptions C01_alm_pantr_provider_refines_oracle_model.

(* non-vacuity of (18): the instance of C01_alm_panoc_nonvacuous with PANTR + NewtonTRDirection (default NewtonTRDirectionParams and
   SteihaugCGParams, exact Hessian products), from the default-constructed provider: the composed model returns Converged after one outer
   iteration, x = 0, y = 0 *)
Example C01_alm_pantr_newtontr_nonvacuous :
  exists co,
    alm_pantr_dir nvPb nvprov (fun _ => []) [Some 0] [Some 1] [] 0 (ntrstate R) nvt_ntr nv_never nv_never (fun _ => false) nvTP nvAP 5 5
                  (ntr_new (T:=R)) 3 0 None [0] [0] = Some co /\
    f_status (co_final co) = Converged /\ co_x co = [0] /\ f_y (co_final co) = [0].
Proof. exact nvtD_converged. Qed.
Print Assumptions C01_alm_pantr_newtontr_nonvacuous.
