(* Properties_FISTA.v — loop invariants of the WHOLE FISTA solver loop (FistaLoop.fista = FISTASolver::operator()), over R,
   for every problem oracle (ψ, ŷ, ∇ψ, ∇L arbitrary functions that may even depend on the history of calls), every stop / clock
   oracle and every parameter set.  Only `exact` + Print Assumptions here; the proofs are in FistaLoopProofs.v.  The model is built
   on the kernels GENERATED from fista.tpp (gen/FistaGen.v) and the GENERATED status chain (gen/StopChain.v); the whole-run
   correspondence (Corr_FISTA.chkfista, lib/vf/props/FISTA.py) ties FistaLoop.fista at binary64 to the real solver. *)
From Coq Require Import Reals List ZArith Bool Lra.
From Flocq Require Import Raux.
From Alpaqa Require Import Num NumR Vec Prox ProxProofs SolverStatus SolverKernels SolverKernelsProofs DescentProofs
                           StopChain StopChainProofs KktProofs FistaGen FistaLoop FistaLoopProofs.
Import ListNotations.
Local Open Scope R_scope.

Section FISTA.
  (* the outside world: nothing is assumed about any of these *)
  Variable psi_grad : fcounters -> list R -> R * list R.    (* eval_ψ_grad_ψ: (ψ, ∇ψ) *)
  Variable psi_yhat : fcounters -> list R -> R * list R.    (* eval_ψ: (ψ, ŷ) *)
  Variable grad_L : fcounters -> list R -> list R -> list R.  (* eval_grad_L *)
  Variable grad_psi : fcounters -> list R -> list R.        (* eval_grad_ψ (fixed-step mode, initial Lipschitz estimate) *)
  Variables (lb ub : list (option R)) (l1 : list R).        (* C and the l1 weights of the prox step *)
  Variable stop_req : fcounters -> bool.                    (* stop_requested() at each stop check *)
  Variable time_up : fcounters -> bool.
  Variable P : fparams (T:=R).
  Variables (x_in y_in Σ errz_in : list R).
  Variable bt_fuel : nat.

  Notation run := (fista psi_grad psi_yhat grad_L grad_psi lb ub l1 stop_req time_up P x_in y_in Σ errz_in bt_fuel).
  Notation Reachable := (reachable psi_grad psi_yhat grad_L grad_psi lb ub l1 stop_req time_up P x_in y_in Σ errz_in bt_fuel).
  Notation Step := (fpass_step psi_yhat grad_L lb ub l1 P bt_fuel).
  Notation Pass := (fpass psi_grad psi_yhat grad_L grad_psi lb ub l1 stop_req time_up P x_in y_in Σ errz_in bt_fuel).
  Notation Checked := (checked psi_grad psi_yhat grad_L grad_psi lb ub l1 P).
  Notation Final_ok := (final_ok psi_grad psi_yhat grad_L grad_psi lb ub l1 P).
  Notation Glrel0 := (glrel0 psi_grad grad_psi P x_in).
  Notation Qub_ok := (qub_ok P).
  Notation Rec_ok := (rec_ok psi_grad psi_yhat grad_L grad_psi lb ub l1 P x_in).
  Notation Chain := (chain psi_grad grad_psi P x_in).
  Notation Linit := (L_init psi_grad grad_psi P x_in).
  Notation fixed := (ffixed P).
  Notation need := (fneed P).

  (* (a)+(b)+(c)+(e): at EVERY evaluation of the stop check the iterate that the criterion, the status chain and the progress callback
     look at (the result of the first half of a pass: prox step, ψ(x̂)/ŷ, ∇ψ(x̂), backtracking) is consistent, satisfies the QUB test
     or has L >= L_max, has (γ, L) obtained from the initial pair by halvings/doublings only (L = L_max in fixed-step mode), k <= max_iter *)
  Theorem FISTA_invariant_at_every_stop_check : forall s curr c bt, Reachable s -> Step s = Some (curr, c, bt) ->
    Checked curr /\ Qub_ok curr /\ Glrel0 curr /\ (fixed = true -> jL curr = fp_Lmax P) /\ (fs_k s <= fp_max_iter P)%nat.
  Proof. exact (reachable_check psi_grad psi_yhat grad_L grad_psi lb ub l1 stop_req time_up P x_in y_in Σ errz_in bt_fuel). Qed.

  (* what `checked` says, spelled out: x̂ = x + p is the prox step for γ at (x, ∇ψ(x)); ∇ψ [and ψ in backtracking mode] are the oracle's at x;
     ψ(x̂), ŷ are the oracle's at x̂ whenever they are evaluated inside the loop (always, except fixed-step mode with a criterion that
     does not need ∇ψ(x̂)); ∇ψ(x̂) = eval_grad_L(x̂, ŷ) for THIS x̂ and ŷ when the criterion needs it *)
  Theorem FISTA_checked_means : forall i : fiter (T:=R), Checked i ->
    jxh i = vadd (jx i) (jp i) /\
    eval_prox_grad_step lb ub l1 (jgam i) (jx i) (jgrad i) = (jxh i, jp i, jh i) /\
    jpp i = vsqnorm (jp i) /\ jgp i = vdot (jp i) (jgrad i) /\
    (fixed = true -> exists c, jgrad i = grad_psi c (jx i)) /\
    (fixed = false -> exists c, (jpsi i, jgrad i) = psi_grad c (jx i)) /\
    (fixed = false \/ need = true -> exists c, (jpsih i, jyh i) = psi_yhat c (jxh i)) /\
    (need = true -> exists c, jgradh i = grad_L c (jxh i) (jyh i)).
  Proof. exact (checked_explicit psi_grad psi_yhat grad_L grad_psi lb ub l1 stop_req time_up P x_in y_in Σ errz_in bt_fuel). Qed.

  (* the iterate the exit block reads ALWAYS carries ψ(x̂), ŷ evaluated at its x̂ (late evaluation in fixed-step mode) *)
  Theorem FISTA_final_means : forall i : fiter (T:=R), Final_ok i ->
    jxh i = vadd (jx i) (jp i) /\
    eval_prox_grad_step lb ub l1 (jgam i) (jx i) (jgrad i) = (jxh i, jp i, jh i) /\
    (exists c, (jpsih i, jyh i) = psi_yhat c (jxh i)) /\
    (need = true -> exists c, jgradh i = grad_L c (jxh i) (jyh i)).
  Proof. exact (final_ok_explicit psi_grad psi_yhat grad_L grad_psi lb ub l1 stop_req time_up P x_in y_in Σ errz_in bt_fuel). Qed.

  (* (b) γ·L *)
  Theorem FISTA_gamma_times_L : forall i : fiter (T:=R), Linit <> 0 -> Glrel0 i -> jgam i * jL i = fp_Lgamma P.
  Proof. exact (glrel0_product_factor psi_grad psi_yhat grad_L grad_psi lb ub l1 stop_req time_up P x_in y_in Σ errz_in bt_fuel). Qed.
  Theorem FISTA_gamma_nonincreasing : forall a b : fiter (T:=R), halved a b -> 0 < jgam a -> 0 < jgam b <= jgam a.
  Proof. exact (halved_nonincreasing psi_grad psi_yhat grad_L grad_psi lb ub l1 stop_req time_up P x_in y_in Σ errz_in bt_fuel). Qed.

  (* (c) the quadratic upper bound as the code tests it (generated expression), or L >= L_max *)
  Theorem FISTA_qub_or_Lmax : forall i : fiter (T:=R), Qub_ok i ->
    fp_Lmax P <= jL i \/ jpsih i <= jpsi i + jgp i + 1 / 2 * jL i * jpp i + (1 + Rabs (jpsi i)) * fp_qub_tol P.
  Proof. exact (qub_ok_explicit psi_grad psi_yhat grad_L grad_psi lb ub l1 stop_req time_up P x_in y_in Σ errz_in bt_fuel). Qed.

  (* whole runs: every progress-callback record is ok (checked, QUB-or-L_max, γL, k <= max_iter), consecutive records are linked
     (Busy, k+1, γ only halved, t' = t_next t, x_{k+1} = x̂_k without acceleration / the generated extrapolation of x̂_k and x̂_{k-1}
     with it; record 0 has k = 0, t = 1, x = the caller's x), the last record is the final stop check *)
  Theorem FISTA_records : forall fuel o, run fuel = FDone o ->
    Forall Rec_ok (fo_log o) /\ Chain (rev (fo_log o)) /\
    exists cf t, hd_error (rev (fo_log o)) = Some (mkFCb (fo_iterations o) cf t (fo_eps o) (fo_status o)) /\ Checked cf.
  Proof. exact (fista_records psi_grad psi_yhat grad_L grad_psi lb ub l1 stop_req time_up P x_in y_in Σ errz_in bt_fuel). Qed.

  (* fixed-step mode: every record has L = L_max and γ = Lγ_factor / L_max (no backtracking) *)
  Theorem FISTA_fixed_step_records : forall r : fcbrec (T:=R), Rec_ok r -> fixed = true -> fp_Lmax P <> 0 ->
    jL (fr_it r) = fp_Lmax P /\ jgam (fr_it r) = fp_Lgamma P / fp_Lmax P.
  Proof. exact (rec_ok_fixed psi_grad psi_yhat grad_L grad_psi lb ub l1 stop_req time_up P x_in y_in Σ errz_in bt_fuel). Qed.

  (* fixed-step mode with a criterion that does not need ∇ψ(x̂) (as the code is): EVERY progress callback — the final one included — is
     shown a ŷ buffer that has never been written (model: []; C++: uninitialised memory) and ψ_hat = NaN, because ψ(x̂)/ŷ are evaluated
     only in the exit block, after the last callback; the written-back y IS eval_ψ's ŷ at the returned x (FISTA_exit) *)
  Theorem FISTA_fixed_step_callbacks_without_multipliers : forall r : fcbrec (T:=R), Rec_ok r -> fixed = true -> need = false ->
    jyh (fr_it r) = [] /\ jpsih (fr_it r) = nnan.
  Proof. exact (rec_ok_late psi_grad psi_yhat grad_L grad_psi lb ub l1 stop_req time_up P x_in y_in Σ errz_in bt_fuel). Qed.

  (* momentum: with the recurrence GENERATED from the source, t_0 = 1, t_k >= (k+2)/2 and t_{k+1} (t_{k+1} - 1) = t_k² along the records
     (this is the theorem that stops compiling when the recurrence in fista.tpp loses the square, cf. fix 0f469d161) *)
  Theorem FISTA_momentum : forall fuel o, run fuel = FDone o ->
    Forall (fun r => 1 <= fr_t r /\ (INR (fr_k r) + 2) / 2 <= fr_t r) (fo_log o) /\
    (forall pre r r' post, fo_log o = pre ++ r :: r' :: post -> fr_t r' * (fr_t r' - 1) = fr_t r * fr_t r /\ fr_k r' = S (fr_k r)) /\
    (forall r post, fo_log o = r :: post -> fr_t r = 1 /\ fr_k r = 0%nat).
  Proof. exact (fista_momentum psi_grad psi_yhat grad_L grad_psi lb ub l1 stop_req time_up P x_in y_in Σ errz_in bt_fuel). Qed.

  (* (e) *)
  Theorem FISTA_status_clauses : forall fuel o, run fuel = FDone o ->
    (fo_iterations o <= fp_max_iter P)%nat /\
    fo_status o <> StBusy /\
    (fo_status o = StMaxIter -> fo_iterations o = fp_max_iter P) /\
    (fo_status o = StConverged <-> fo_eps o <= eff_tol (fp_tol P)) /\
    (fo_status o = StInterrupted -> exists c, stop_req c = true) /\
    (fo_status o = StMaxTime -> exists c, time_up c = true) /\
    (fo_status o = StNoProgress -> exists np, (fp_max_no_progress P < np)%nat).
  Proof. exact (fista_status_clauses psi_grad psi_yhat grad_L grad_psi lb ub l1 stop_req time_up P x_in y_in Σ errz_in bt_fuel). Qed.

  (* (f) exit: C03's relations — in EVERY mode y_out = ŷ evaluated at x_out = x̂ = x + p of the iterate the criterion certified *)
  Theorem FISTA_exit : forall fuel o, run fuel = FDone o ->
    exists cf : fiter (T:=R), Checked cf /\ Qub_ok cf /\ Glrel0 cf /\ fo_eps o = fit_eps lb ub l1 P cf /\
      Final_ok (fo_final o) /\ jx (fo_final o) = jx cf /\ jxh (fo_final o) = jxh cf /\ jp (fo_final o) = jp cf /\ gl_of (fo_final o) = gl_of cf /\
      (overwrites (fo_status o) (fp_always P) = true ->
         fo_x o = jxh cf /\ jxh cf = vadd (jx cf) (jp cf) /\
         fo_y o = jyh (fo_final o) /\ (exists c, (jpsih (fo_final o), fo_y o) = psi_yhat c (fo_x o)) /\
         fo_errz o = match errz_in with [] => [] | _ => vdiv (vsub (fo_y o) y_in) Σ end) /\
      (overwrites (fo_status o) (fp_always P) = false -> fo_x o = x_in /\ fo_y o = y_in /\ fo_errz o = errz_in).
  Proof. exact (fista_exit psi_grad psi_yhat grad_L grad_psi lb ub l1 stop_req time_up P x_in y_in Σ errz_in bt_fuel). Qed.

  (* (f) the inner-solver contract of DESIGN §4 / C01 *)
  Theorem FISTA_inner_contract : forall fuel o, run fuel = FDone o ->
    fo_status o = StConverged -> fp_crit P = ApproxKKT -> l1 = [] ->
    exists (x grad gradh : list R) (γ : R),
      let step := proj_grad_step lb ub γ x grad in
      fo_x o = fst (fst step) /\
      (exists c ψh, (ψh, fo_y o) = psi_yhat c (fo_x o)) /\
      (exists c, gradh = grad_L c (fo_x o) (fo_y o)) /\
      fo_errz o = match errz_in with [] => [] | _ => vdiv (vsub (fo_y o) y_in) Σ end /\
      fo_eps o = vnorminf (kkt_residual γ (snd (fst step)) grad gradh) /\
      fo_eps o <= eff_tol (fp_tol P) /\
      ((fixed = true /\ exists c, grad = grad_psi c x) \/ (fixed = false /\ exists c ψ, (ψ, grad) = psi_grad c x)) /\
      (0 < fp_Lgamma P -> 0 < Linit -> 0 < γ) /\
      (Linit <> 0 -> exists L, γ * L = fp_Lgamma P).
  Proof. exact (fista_inner_contract psi_grad psi_yhat grad_L grad_psi lb ub l1 stop_req time_up P x_in y_in Σ errz_in bt_fuel). Qed.

  (* (g) termination: with a finite L_max reached from L > 0 after nL doublings the backtracking loop makes at most nL passes; hence no
     pass of any run reports FFuel when bt_fuel > nL, and — since k <= max_iter — the whole run completes within max_iter + 1 passes *)
  Theorem FISTA_backtracking_terminates : forall (cL : R) (nL : nat), 0 < cL -> fp_Lmax P <= cL * 2 ^ nL ->
    forall a fuel (i : fiter (T:=R)) c bt ch, jL i = cL * 2 ^ a -> (a <= nL)%nat -> (nL - a + 1 <= fuel)%nat ->
    fbacktrack psi_yhat lb ub l1 P fuel i c bt ch <> None.
  Proof. exact (backtrack_terminates psi_grad psi_yhat grad_L grad_psi lb ub l1 stop_req time_up P x_in y_in Σ errz_in bt_fuel). Qed.
  Theorem FISTA_pass_never_out_of_fuel : forall (nL : nat) s, Reachable s ->
    0 < Linit -> fp_Lmax P <= Linit * 2 ^ nL -> (nL + 1 <= bt_fuel)%nat -> Pass s <> FFuel.
  Proof. exact (reachable_pass_never_out_of_fuel psi_grad psi_yhat grad_L grad_psi lb ub l1 stop_req time_up P x_in y_in Σ errz_in bt_fuel). Qed.
  Theorem FISTA_terminates : forall (nL : nat), 0 < Linit -> fp_Lmax P <= Linit * 2 ^ nL -> (nL + 1 <= bt_fuel)%nat ->
    forall fuel, (fp_max_iter P < fuel)%nat -> run fuel <> FOutOfFuel.
  Proof. exact (fista_terminates psi_grad psi_yhat grad_L grad_psi lb ub l1 stop_req time_up P x_in y_in Σ errz_in bt_fuel). Qed.
  Theorem FISTA_completes : forall (nL : nat), 0 < Linit -> fp_Lmax P <= Linit * 2 ^ nL -> (nL + 1 <= bt_fuel)%nat ->
    forall fuel, (fp_max_iter P < fuel)%nat -> exists o, run fuel = FDone o.
  Proof. exact (fista_completes psi_grad psi_yhat grad_L grad_psi lb ub l1 stop_req time_up P x_in y_in Σ errz_in bt_fuel). Qed.
End FISTA.

(* the data of the contract give C01's stationarity bound: dist∞(-∇ψ(x̂), N_C(x̂)) <= tolerance *)
Theorem FISTA_contract_gives_stationarity : forall lb ub γ (x grad gradh : list R) (tol : R) n,
  0 < γ -> length lb = n -> length ub = n -> length x = n -> length grad = n -> length gradh = n ->
  (forall i, (i < n)%nat -> box_ne (nth i lb None) (nth i ub None)) ->
  let step := proj_grad_step lb ub γ x grad in
  let xh := fst (fst step) in let p := snd (fst step) in
  vnorminf (kkt_residual γ p grad gradh) <= tol ->
  forall i, (i < n)%nat ->
    exists r, (forall u, in_box (nth i lb None) (nth i ub None) u -> r * (u - nth i xh 0) <= 0) /\
              Rabs (- nth i gradh 0 - r) <= tol.
Proof. exact approx_kkt_stationarity. Qed.

Print Assumptions FISTA_invariant_at_every_stop_check.
Print Assumptions FISTA_checked_means.
Print Assumptions FISTA_final_means.
Print Assumptions FISTA_gamma_times_L.
Print Assumptions FISTA_gamma_nonincreasing.
Print Assumptions FISTA_qub_or_Lmax.
Print Assumptions FISTA_records.
Print Assumptions FISTA_fixed_step_records.
Print Assumptions FISTA_fixed_step_callbacks_without_multipliers.
Print Assumptions FISTA_momentum.
Print Assumptions FISTA_status_clauses.
Print Assumptions FISTA_exit.
Print Assumptions FISTA_inner_contract.
Print Assumptions FISTA_contract_gives_stationarity.
Print Assumptions FISTA_backtracking_terminates.
Print Assumptions FISTA_pass_never_out_of_fuel.
Print Assumptions FISTA_terminates.
Print Assumptions FISTA_completes.

(* non-vacuity: the hypothesis `run fuel = FDone o` is satisfiable over R — concrete runs in fixed-step mode (L_min = L_max = 1) with
   constant oracles: max_iter = 0 (one pass, ψ(x̂)/ŷ evaluated late) and max_iter = 3 *)
Definition nv_P (mi : nat) : fparams (T:=R) := mkFParams mi 10 0 (1/1000000) (1/1000000) (1/2) 1 1 ProjGradNorm 0 false true 0.
Definition nv_run (mi : nat) := fista (T:=R) (fun _ _ => (0, [0])) (fun _ _ => (7, [])) (fun _ _ _ => [0]) (fun _ _ => [0]) [None] [None] []
                        (fun _ => false) (fun _ => false) (nv_P mi) [3] [] [] [] 1 (S mi).
Example FISTA_nonvacuous : forall mi, exists o, nv_run mi = FDone o /\ (fo_iterations o <= mi)%nat /\ fo_status o <> StBusy.
Proof.
  intros mi.
  assert (nv_Linit : L_init (fun _ _ => (0, [0])) (fun _ _ => [0]) (nv_P mi) [3] = 1).
  { unfold L_init, finit_L, ffixed, nv_P. cbn [fp_Lmin fp_Lmax].
    change (@neqb R NumR 1 1) with (Req_bool 1 1). rewrite Req_bool_true by reflexivity. reflexivity. }
  destruct (FISTA_completes (fun _ _ => (0, [0])) (fun _ _ => (7, [])) (fun _ _ _ => [0]) (fun _ _ => [0]) [None] [None] []
              (fun _ => false) (fun _ => false) (nv_P mi) [3] [] [] [] 1 0%nat) with (fuel := S mi) as [o Ho].
  - rewrite nv_Linit. lra.
  - rewrite nv_Linit. cbn. lra.
  - auto.
  - cbn. auto.
  - exists o. split; [exact Ho|].
    destruct (FISTA_status_clauses _ _ _ _ _ _ _ _ _ _ _ _ _ _ _ _ _ Ho) as (H1 & H2 & _). split; assumption.
Qed.
