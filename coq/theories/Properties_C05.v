(* Properties_C05.v — C05: the inner solvers decrease the forward-backward envelope; the step size never grows. *)
From Coq Require Import Reals List ZArith Bool Lra.
From Flocq Require Import Raux.
From Alpaqa Require Import Num NumR Vec Prox ProxProofs SolverStatus SolverKernels SolverKernelsProofs DescentProofs.
Import ListNotations.
Local Open Scope R_scope.

(* (1) accelerated step accepted by the line search (τ > 0): the negated loop condition IS the sufficient decrease with the
       strictness factor β — there is no other way out of the search with τ > 0 (checked by correspondence case RLs) *)
Theorem C05_accelerated_step_descent : forall β γ L φ pp φnext tol,
  ls_violated false β γ L φ pp φnext tol = false ->
  φnext <= φ - β * (1 - γ * L) / (2 * γ) * pp + (1 + Rabs φ) * tol.
Proof. exact ls_accept_descent. Qed.
Print Assumptions C05_accelerated_step_descent.

(* (2) plain forward-backward step (τ = 0): QUB at the reported iterate => envelope at x̂ with ANY new step size γ' decreases by
       (1-γL)/(2γ)‖p‖², for every box C and every ψ, ∇ψ (arbitrary numbers: nothing is assumed about the user's functions) *)
Theorem C05_safe_step_descent : forall lb ub γ γ' L tol (x grad xh gradxh : list R) (ψx ψxh : R),
  0 < γ -> 0 < γ' ->
  length lb = length xh -> length ub = length xh -> length gradxh = length xh ->
  all_in_box lb ub xh ->
  let p := snd (fst (proj_grad_step lb ub γ x grad)) in
  let pp := vsqnorm p in let gp := vdot grad p in
  qub_violated ψx ψxh gp L pp tol = false ->
  let p' := snd (fst (proj_grad_step lb ub γ' xh gradxh)) in
  fbe ψxh 0 (vsqnorm p') γ' (vdot gradxh p')
    <= fbe ψx 0 pp γ gp - (1 - γ * L) / (2 * γ) * pp + (1 + Rabs ψx) * tol.
Proof. exact safe_step_envelope_descent. Qed.
Print Assumptions C05_safe_step_descent.

(* scalar core of (2) also with an l1 term (box containing 0): prox minimality against the competitor u = z *)
Theorem C05_envelope_le_cost_component : forall lb ub λ γ z g,
  0 <= λ -> 0 < γ -> lb_ok lb 0 -> ub_ok ub 0 -> in_box lb ub z ->
  let o := proj1 lb ub (l1_prox1 λ γ (z - γ * g)) in
  g * (o - z) + (o - z)² / (2 * γ) + λ * Rabs o <= λ * Rabs z.
Proof. exact fbe_component_le. Qed.
Print Assumptions C05_envelope_le_cost_component.

(* (3) trust-region step accepted with ratio >= threshold >= 0 and negative model value: non-increase *)
Theorem C05_trust_region_accept_nonincrease : forall φprox φcand qmodel tol Lγ thr,
  qmodel < 0 -> 0 <= thr -> thr <= tr_ratio false φprox φcand qmodel tol Lγ ->
  φcand <= φprox + (1 + Rabs φprox) * tol.
Proof. exact tr_accept_nonincrease. Qed.
Print Assumptions C05_trust_region_accept_nonincrease.

(* (4) step size: any number of backtracking steps keeps γ·L and never increases γ *)
Theorem C05_gamma_times_L_constant : forall j γ L, fst (halve_n j (γ, L)) * snd (halve_n j (γ, L)) = γ * L.
Proof. exact halve_n_product. Qed.
Theorem C05_gamma_nonincreasing : forall j γ L, 0 < γ -> 0 < fst (halve_n j (γ, L)) <= γ.
Proof. exact halve_n_nonincreasing. Qed.
Print Assumptions C05_gamma_times_L_constant.
Print Assumptions C05_gamma_nonincreasing.

(* forced line search: the descent test is skipped by construction (documented behaviour of force_linesearch) *)
Theorem C05_forced_linesearch_skips_test : forall β γ L φ pp φnext tol, ls_violated true β γ L φ pp φnext tol = false.
Proof. exact ls_forced. Qed.

Example C05_nonvacuous :
  ls_violated false (95/100) (1/2) 1 10 4 5 0 = false /\ qub_violated 10 5 (-4) 1 4 0 = false /\
  all_in_box [Some 0] [Some 2] [1].
Proof.
  unfold ls_violated, ls_rhs, ls_sigma, qub_violated, qub_rhs, nhalf1, all_in_box. numR.
  rewrite (Rabs_pos_eq 10) by lra. rewrite ?one_plus_one. replace (2 * (1 / 2)) with 1 by lra.
  split; [|split].
  - destruct (Rlt_bool_spec (10 - 95 / 100 * (1 - 1 / 2 * 1) / 1 * 4 + (1 + 10) * 0) 5) as [Hc|Hc]; [exfalso; lra|reflexivity].
  - destruct (Rlt_bool_spec (10 + -4 + 1 / 2 * 1 * 4 + (1 + 10) * 0) 5) as [Hc|Hc]; [exfalso; lra|reflexivity].
  - constructor; [|constructor]. unfold in_box, lb_ok, ub_ok, box_ne; cbn. repeat split; lra.
Qed.
