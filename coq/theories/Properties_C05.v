(* Properties_C05.v — C05: the inner solvers decrease the forward-backward envelope; the step size never grows. *)
From Coq Require Import Reals List ZArith Bool Lra.
From Flocq Require Import Raux.
From Alpaqa Require Import Num NumR Vec Prox ProxProofs SolverStatus SolverKernels SolverKernelsProofs DescentProofs.
From Alpaqa Require Import Pantr KernelsGen KernelsGenEq.
Import ListNotations.
Local Open Scope R_scope.

(* (1) accelerated step accepted by the line search (τ > 0): the negated loop condition IS the sufficient decrease with the
       strictness factor β — there is no other way out of the search with τ > 0 (checked by correspondence case RLs) *)
Theorem C05_accelerated_step_descent : forall β γ L φ pp φnext tol,
  ls_violated false β γ L φ pp φnext tol = false ->
  φnext <= φ - β * (1 - γ * L) / (2 * γ) * pp + (1 + Rabs φ) * tol.
Proof. exact ls_accept_descent. Qed.
Print Assumptions C05_accelerated_step_descent.

(* (2) plain forward-backward step (τ = 0): QUB at the reported iterate => envelope at x̂ with ANY new step size γ' decreases by
       (1-γL)/(2γ)‖p‖², for every box C and every ψ, ∇ψ (arbitrary numbers: nothing is assumed about the user's functions) *)
Theorem C05_safe_step_descent : forall lb ub γ γ' L tol (x grad xh gradxh : list R) (ψx ψxh : R),
  0 < γ -> 0 < γ' ->
  length lb = length xh -> length ub = length xh -> length gradxh = length xh ->
  all_in_box lb ub xh ->
  let p := snd (fst (proj_grad_step lb ub γ x grad)) in
  let pp := vsqnorm p in let gp := vdot grad p in
  qub_violated ψx ψxh gp L pp tol = false ->
  let p' := snd (fst (proj_grad_step lb ub γ' xh gradxh)) in
  fbe ψxh 0 (vsqnorm p') γ' (vdot gradxh p')
    <= fbe ψx 0 pp γ gp - (1 - γ * L) / (2 * γ) * pp + (1 + Rabs ψx) * tol.
Proof. exact safe_step_envelope_descent. Qed.
Print Assumptions C05_safe_step_descent.

(* scalar core of (2) also with an l1 term (box containing 0): prox minimality against the competitor u = z *)
Theorem C05_envelope_le_cost_component : forall lb ub λ γ z g,
  0 <= λ -> 0 < γ -> lb_ok lb 0 -> ub_ok ub 0 -> in_box lb ub z ->
  let o := proj1 lb ub (l1_prox1 λ γ (z - γ * g)) in
  g * (o - z) + (o - z)² / (2 * γ) + λ * Rabs o <= λ * Rabs z.
Proof. exact fbe_component_le. Qed.
Print Assumptions C05_envelope_le_cost_component.

(* (3) trust-region step accepted with ratio >= threshold >= 0 and negative model value: non-increase *)
Theorem C05_trust_region_accept_nonincrease : forall φprox φcand qmodel tol Lγ thr,
  qmodel < 0 -> 0 <= thr -> thr <= tr_ratio false φprox φcand qmodel tol Lγ ->
  φcand <= φprox + (1 + Rabs φprox) * tol.
Proof. exact tr_accept_nonincrease. Qed.
Print Assumptions C05_trust_region_accept_nonincrease.

(* (4) step size: any number of backtracking steps keeps γ·L and never increases γ *)
Theorem C05_gamma_times_L_constant : forall j γ L, fst (halve_n j (γ, L)) * snd (halve_n j (γ, L)) = γ * L.
Proof. exact halve_n_product. Qed.
Theorem C05_gamma_nonincreasing : forall j γ L, 0 < γ -> 0 < fst (halve_n j (γ, L)) <= γ.
Proof. exact halve_n_nonincreasing. Qed.
Print Assumptions C05_gamma_times_L_constant.
Print Assumptions C05_gamma_nonincreasing.

(* forced line search: the descent test is skipped by construction (documented behaviour of force_linesearch) *)
Theorem C05_forced_linesearch_skips_test : forall β γ L φ pp φnext tol, ls_violated true β γ L φ pp φnext tol = false.
Proof. exact ls_forced. Qed.

Example C05_nonvacuous :
  ls_violated false (95/100) (1/2) 1 10 4 5 0 = false /\ qub_violated 10 5 (-4) 1 4 0 = false /\
  all_in_box [Some 0] [Some 2] [1].
Proof.
  unfold ls_violated, ls_rhs, ls_sigma, qub_violated, qub_rhs, nhalf1, all_in_box. numR.
  rewrite (Rabs_pos_eq 10) by lra. rewrite ?one_plus_one. replace (2 * (1 / 2)) with 1 by lra.
  split; [|split].
  - destruct (Rlt_bool_spec (10 - 95 / 100 * (1 - 1 / 2 * 1) / 1 * 4 + (1 + 10) * 0) 5) as [Hc|Hc]; [exfalso; lra|reflexivity].
  - destruct (Rlt_bool_spec (10 + -4 + 1 / 2 * 1 * 4 + (1 + 10) * 0) 5) as [Hc|Hc]; [exfalso; lra|reflexivity].
  - constructor; [|constructor]. unfold in_box, lb_ok, ub_ok, box_ne; cbn. repeat split; lra.
Qed.

(* ======================================================================================================================
   The same statements for the kernels GENERATED from the C++ on every run (gen/KernelsGen.v, translate/gen_kernels.py):
   one definition per solver file and lambda, each proved equal to the hand kernel in KernelsGenEq.v — so a change of one
   solver's copy of fbe / qub_violated / linesearch_violated / the halving or τ-update statements breaks the theorem of that
   solver here. *)
Theorem C05_gen_panoc_accelerated_step_descent : forall β tol cψ ch cpp cγ cgp cL nψ nh npp nγ ngp,
  g_panoc_ls_violated false β tol cψ ch cpp cγ cgp cL nψ nh npp nγ ngp = false ->
  g_panoc_fbe nψ nh npp nγ ngp
    <= g_panoc_fbe cψ ch cpp cγ cgp - β * (1 - cγ * cL) / (2 * cγ) * cpp + (1 + Rabs (g_panoc_fbe cψ ch cpp cγ cgp)) * tol.
Proof. exact gen_panoc_ls_accept_descent. Qed.
Theorem C05_gen_panoc_linesearch_is_model : forall force β tol cψ ch cpp cγ cgp cL nψ nh npp nγ ngp,
  g_panoc_ls_violated force β tol cψ ch cpp cγ cgp cL nψ nh npp nγ ngp
  = ls_violated force β cγ cL (fbe cψ ch cpp cγ cgp) cpp (fbe nψ nh npp nγ ngp) tol.
Proof. exact gen_panoc_ls_violated_eq. Qed.
Theorem C05_gen_zerofpr_accelerated_step_descent : forall β tol cψ ch cpp cγ cgp cL nψ nh npp nγ ngp,
  g_zerofpr_ls_violated false β tol cψ ch cpp cγ cgp cL nψ nh npp nγ ngp = false ->
  g_zerofpr_fbe nψ nh npp nγ ngp
    <= g_zerofpr_fbe cψ ch cpp cγ cgp - β * (1 - cγ * cL) / (2 * cγ) * cpp + (1 + Rabs (g_zerofpr_fbe cψ ch cpp cγ cgp)) * tol.
Proof. exact gen_zerofpr_ls_accept_descent. Qed.
Theorem C05_gen_zerofpr_linesearch_is_model : forall force β tol cψ ch cpp cγ cgp cL nψ nh npp nγ ngp,
  g_zerofpr_ls_violated force β tol cψ ch cpp cγ cgp cL nψ nh npp nγ ngp
  = ls_violated force β cγ cL (fbe cψ ch cpp cγ cgp) cpp (fbe nψ nh npp nγ ngp) tol.
Proof. exact gen_zerofpr_ls_violated_eq. Qed.
Theorem C05_gen_ocp_accelerated_step_descent : forall force β tol cψ cpp cγ cgp cL nψ npp nγ ngp,
  g_ocp_ls_violated force β tol cψ cpp cγ cgp cL nψ npp nγ ngp = false ->
  g_ocp_fbe nψ npp nγ ngp <= g_ocp_fbe cψ cpp cγ cgp - β * (1 - cγ * cL) / (2 * cγ) * cpp + (1 + Rabs (g_ocp_fbe cψ cpp cγ cgp)) * tol.
Proof. exact gen_ocp_ls_accept_descent. Qed.
Theorem C05_gen_panoc_safe_step_descent : forall lb ub γ γ' L tol (x grad xh gradxh : list R) (ψx ψxh : R),
  0 < γ -> 0 < γ' ->
  length lb = length xh -> length ub = length xh -> length gradxh = length xh ->
  all_in_box lb ub xh ->
  let p := snd (fst (proj_grad_step lb ub γ x grad)) in
  let pp := vsqnorm p in let gp := vdot grad p in
  g_panoc_qub_violated ψx ψxh gp L pp tol = false ->
  let p' := snd (fst (proj_grad_step lb ub γ' xh gradxh)) in
  g_panoc_fbe ψxh 0 (vsqnorm p') γ' (vdot gradxh p')
    <= g_panoc_fbe ψx 0 pp γ gp - (1 - γ * L) / (2 * γ) * pp + (1 + Rabs ψx) * tol.
Proof. exact gen_panoc_safe_step_descent. Qed.
Theorem C05_gen_panoc_qub_is_model : forall ψx ψxh gp L pp tol, g_panoc_qub_violated ψx ψxh gp L pp tol = qub_violated ψx ψxh gp L pp tol.
Proof. exact gen_panoc_qub_violated_eq. Qed.
Theorem C05_gen_panoc_fbe_is_model : forall ψx hxh pp γ gp, g_panoc_fbe ψx hxh pp γ gp = fbe ψx hxh pp γ gp.
Proof. exact gen_panoc_fbe_eq. Qed.
Theorem C05_gen_zerofpr_safe_step_descent : forall lb ub γ γ' L tol (x grad xh gradxh : list R) (ψx ψxh : R),
  0 < γ -> 0 < γ' ->
  length lb = length xh -> length ub = length xh -> length gradxh = length xh ->
  all_in_box lb ub xh ->
  let p := snd (fst (proj_grad_step lb ub γ x grad)) in
  let pp := vsqnorm p in let gp := vdot grad p in
  g_zerofpr_qub_violated ψx ψxh gp L pp tol = false ->
  let p' := snd (fst (proj_grad_step lb ub γ' xh gradxh)) in
  g_zerofpr_fbe ψxh 0 (vsqnorm p') γ' (vdot gradxh p')
    <= g_zerofpr_fbe ψx 0 pp γ gp - (1 - γ * L) / (2 * γ) * pp + (1 + Rabs ψx) * tol.
Proof. exact gen_zerofpr_safe_step_descent. Qed.
Theorem C05_gen_zerofpr_qub_is_model : forall ψx ψxh gp L pp tol, g_zerofpr_qub_violated ψx ψxh gp L pp tol = qub_violated ψx ψxh gp L pp tol.
Proof. exact gen_zerofpr_qub_violated_eq. Qed.
Theorem C05_gen_zerofpr_fbe_is_model : forall ψx hxh pp γ gp, g_zerofpr_fbe ψx hxh pp γ gp = fbe ψx hxh pp γ gp.
Proof. exact gen_zerofpr_fbe_eq. Qed.
Theorem C05_gen_pantr_safe_step_descent : forall lb ub γ γ' L tol (x grad xh gradxh : list R) (ψx ψxh : R),
  0 < γ -> 0 < γ' ->
  length lb = length xh -> length ub = length xh -> length gradxh = length xh ->
  all_in_box lb ub xh ->
  let p := snd (fst (proj_grad_step lb ub γ x grad)) in
  let pp := vsqnorm p in let gp := vdot grad p in
  g_pantr_qub_violated ψx ψxh gp L pp tol = false ->
  let p' := snd (fst (proj_grad_step lb ub γ' xh gradxh)) in
  g_pantr_fbe ψxh 0 (vsqnorm p') γ' (vdot gradxh p')
    <= g_pantr_fbe ψx 0 pp γ gp - (1 - γ * L) / (2 * γ) * pp + (1 + Rabs ψx) * tol.
Proof. exact gen_pantr_safe_step_descent. Qed.
Theorem C05_gen_pantr_qub_is_model : forall ψx ψxh gp L pp tol, g_pantr_qub_violated ψx ψxh gp L pp tol = qub_violated ψx ψxh gp L pp tol.
Proof. exact gen_pantr_qub_violated_eq. Qed.
Theorem C05_gen_pantr_fbe_is_model : forall ψx hxh pp γ gp, g_pantr_fbe ψx hxh pp γ gp = fbe ψx hxh pp γ gp.
Proof. exact gen_pantr_fbe_eq. Qed.
Theorem C05_gen_panoc_init_gamma_times_L_constant : forall γ L, g_panoc_halve_gamma_init γ * g_panoc_halve_L_init L = γ * L.
Proof. exact gen_panoc_halve_init_product. Qed.
Theorem C05_gen_panoc_init_gamma_decreases : forall γ, 0 < γ -> 0 < g_panoc_halve_gamma_init γ < γ.
Proof. exact gen_panoc_halve_init_decreases. Qed.
Theorem C05_gen_panoc_ls_gamma_times_L_constant : forall γ L, g_panoc_halve_gamma_ls γ * g_panoc_halve_L_ls L = γ * L.
Proof. exact gen_panoc_halve_ls_product. Qed.
Theorem C05_gen_panoc_ls_gamma_decreases : forall γ, 0 < γ -> 0 < g_panoc_halve_gamma_ls γ < γ.
Proof. exact gen_panoc_halve_ls_decreases. Qed.
Theorem C05_gen_zerofpr_init_gamma_times_L_constant : forall γ L, g_zerofpr_halve_gamma_init γ * g_zerofpr_halve_L_init L = γ * L.
Proof. exact gen_zerofpr_halve_init_product. Qed.
Theorem C05_gen_zerofpr_init_gamma_decreases : forall γ, 0 < γ -> 0 < g_zerofpr_halve_gamma_init γ < γ.
Proof. exact gen_zerofpr_halve_init_decreases. Qed.
Theorem C05_gen_zerofpr_ls_gamma_times_L_constant : forall γ L, g_zerofpr_halve_gamma_ls γ * g_zerofpr_halve_L_ls L = γ * L.
Proof. exact gen_zerofpr_halve_ls_product. Qed.
Theorem C05_gen_zerofpr_ls_gamma_decreases : forall γ, 0 < γ -> 0 < g_zerofpr_halve_gamma_ls γ < γ.
Proof. exact gen_zerofpr_halve_ls_decreases. Qed.
Theorem C05_gen_pantr_bt_gamma_times_L_constant : forall γ L, g_pantr_halve_gamma_bt γ * g_pantr_halve_L_bt L = γ * L.
Proof. exact gen_pantr_halve_bt_product. Qed.
Theorem C05_gen_pantr_bt_gamma_decreases : forall γ, 0 < γ -> 0 < g_pantr_halve_gamma_bt γ < γ.
Proof. exact gen_pantr_halve_bt_decreases. Qed.
Theorem C05_gen_ocp_init_gamma_times_L_constant : forall γ L, g_ocp_halve_gamma_init γ * g_ocp_halve_L_init L = γ * L.
Proof. exact gen_ocp_halve_init_product. Qed.
Theorem C05_gen_ocp_init_gamma_decreases : forall γ, 0 < γ -> 0 < g_ocp_halve_gamma_init γ < γ.
Proof. exact gen_ocp_halve_init_decreases. Qed.
Theorem C05_gen_ocp_ls_gamma_times_L_constant : forall γ L, g_ocp_halve_gamma_ls γ * g_ocp_halve_L_ls L = γ * L.
Proof. exact gen_ocp_halve_ls_product. Qed.
Theorem C05_gen_ocp_ls_gamma_decreases : forall γ, 0 < γ -> 0 < g_ocp_halve_gamma_ls γ < γ.
Proof. exact gen_ocp_halve_ls_decreases. Qed.
Theorem C05_gen_panoc_tau_update_shrinks : forall τ factor τmin, 0 < factor < 1 -> 0 < τ -> 0 <= g_panoc_tau_update τ factor τmin < τ.
Proof. exact gen_panoc_tau_update_shrinks. Qed.
Theorem C05_gen_zerofpr_tau_update_shrinks : forall τ factor τmin, 0 < τ -> 0 <= g_zerofpr_tau_update τ factor τmin < τ.
Proof. exact gen_zerofpr_tau_update_shrinks. Qed.
Theorem C05_gen_ocp_tau_update_shrinks : forall τ factor τmin, 0 < τ -> 0 <= g_ocp_tau_update τ factor τmin < τ.
Proof. exact gen_ocp_tau_update_shrinks. Qed.
Theorem C05_gen_pantr_accept_nonincrease : forall pψ ph ppp pγ pgp cψ ch cpp cγ cgp qm tol Lγ thr,
  qm < 0 -> 0 <= thr -> g_pantr_accept (g_pantr_ratio false pψ ph ppp pγ pgp cψ ch cpp cγ cgp qm tol Lγ) thr = true ->
  g_pantr_fbe cψ ch cpp cγ cgp <= g_pantr_fbe pψ ph ppp pγ pgp + (1 + Rabs (g_pantr_fbe pψ ph ppp pγ pgp)) * tol.
Proof. exact gen_pantr_accept_nonincrease. Qed.
Theorem C05_gen_pantr_radius_is_model : forall (TP : trparams (T:=R)) q ρ old,
  g_pantr_radius_clip (g_pantr_updated_radius q ρ old (tp_thr_good TP) (tp_thr_acc TP) (tp_rf_good TP) (tp_rf_acc TP) (tp_rf_rej TP))
                      (tp_min_radius TP) = updated_radius TP q ρ old.
Proof. exact gen_pantr_updated_radius_eq. Qed.
Print Assumptions C05_gen_panoc_accelerated_step_descent.
Print Assumptions C05_gen_zerofpr_safe_step_descent.
Print Assumptions C05_gen_pantr_accept_nonincrease.
