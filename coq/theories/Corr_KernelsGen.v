(* Corr_KernelsGen.v — translation validation of translate/gen_kernels.py at binary64: the GENERATED definitions of
   gen/KernelsGen.v (not the hand kernels) are evaluated on the inputs of the real functions and compared with what the
   implementation returned / decided:
     KCrit / KNeeds   direct calls of PANOCHelpers::calc_error_stop_crit / stop_crit_requires_grad_ψx̂ (drv_C06)
     KFbe KQub KLs KHalve KTau   callback records of real PANOC / ZeroFPR / PANTR runs (drv_solve), per solver copy:
                      solver = 0 panoc.tpp, 1 zerofpr.tpp, 2 pantr.tpp
   Independent of SolverKernels.v (only the enumeration `stopcrit` is shared). *)
From Coq Require Import Floats List ZArith Bool.
From Alpaqa Require Import Num NumF Vec Prox SolverStatus SolverKernels KernelsGen.
Import ListNotations.
Local Open Scope float_scope.

Inductive kgcase :=
| KCrit (c : stopcrit) (lb ub l1 p : list float) (γ : float) (x xh yh grad gradh : list float) (eps : float)
| KNeeds (c : stopcrit) (b : bool)
(* reported envelope value = generated fbe of the reported members (∇ψᵀp recomputed from the reported vectors) *)
| KFbe (solver : nat) (ψx hxh pp γ : float) (grad p : list float) (φ : float)
(* a reported iterate with L < L_max does not violate the generated QUB test *)
| KQub (solver : nat) (ψx ψxh : float) (grad p : list float) (L pp tol : float)
(* an accepted accelerated step (τ > 0) does not violate the generated line-search test, evaluated on the members of both iterates *)
| KLs (solver : nat) (β tol cψ ch cpp cγ cL : float) (cgrad cp : list float) (nψ nh npp nγ : float) (ngrad np : list float)
(* the step-size change between consecutive reported iterates is j applications of the generated halving kernels *)
| KHalve (solver : nat) (γ L γ' L' : float)
(* a reported line-search coefficient is 0 or is reached from 1 by the generated τ update *)
| KTau (solver : nat) (factor τmin τ : float).

Definition kg_fbe (solver : nat) : float -> float -> float -> float -> float -> float :=
  match solver with O => g_panoc_fbe | S O => g_zerofpr_fbe | _ => g_pantr_fbe end.
Definition kg_qub (solver : nat) : float -> float -> float -> float -> float -> float -> bool :=
  match solver with O => g_panoc_qub_violated | S O => g_zerofpr_qub_violated | _ => g_pantr_qub_violated end.
Definition kg_halve (solver : nat) (γL : float * float) : float * float :=
  match solver with
  | O => (g_panoc_halve_gamma_ls (fst γL), g_panoc_halve_L_ls (snd γL))
  | S O => (g_zerofpr_halve_gamma_ls (fst γL), g_zerofpr_halve_L_ls (snd γL))
  | _ => (g_pantr_halve_gamma_bt (fst γL), g_pantr_halve_L_bt (snd γL))
  end.
Definition kg_tau (solver : nat) : float -> float -> float -> float :=
  match solver with O => g_panoc_tau_update | _ => g_zerofpr_tau_update end.

Fixpoint kg_halve_reach (fuel solver : nat) (γL target : float * float) : bool :=
  (PrimFloat.eqb (fst γL) (fst target) && PrimFloat.eqb (snd γL) (snd target)) ||
  match fuel with O => false | S f => kg_halve_reach f solver (kg_halve solver γL) target end.
Fixpoint kg_tau_reach (fuel solver : nat) (factor τmin cur τ : float) : bool :=
  PrimFloat.eqb cur τ ||
  match fuel with
  | O => false
  | S f => if PrimFloat.eqb cur 0 then false else kg_tau_reach f solver factor τmin (kg_tau solver cur factor τmin) τ
  end.

Definition modelkg (c : kgcase) : float :=
  match c with
  | KCrit cr lb ub l1 p γ x xh yh g gh _ => g_crit_eps cr (map lb_of_float lb) (map ub_of_float ub) l1 p γ x xh yh g gh
  | KFbe s ψx hxh pp γ grad p _ => kg_fbe s ψx hxh pp γ (vdot p grad)
  | _ => 0
  end.

Definition chkkg (c : kgcase) : bool :=
  match c with
  | KCrit _ _ _ _ _ _ _ _ _ _ _ e => feq (modelkg c) e
  | KNeeds cr b => Bool.eqb (g_crit_needs_gradh cr) b
  | KFbe _ _ _ _ _ _ _ φ => feq (modelkg c) φ
  | KQub s ψx ψxh grad p L pp tol => negb (kg_qub s ψx ψxh (vdot p grad) L pp tol)
  | KLs s β tol cψ ch cpp cγ cL cgrad cp nψ nh npp nγ ngrad np =>
      negb (match s with
            | O => g_panoc_ls_violated false β tol cψ ch cpp cγ (vdot cp cgrad) cL nψ nh npp nγ (vdot np ngrad)
            | _ => g_zerofpr_ls_violated false β tol cψ ch cpp cγ (vdot cp cgrad) cL nψ nh npp nγ (vdot np ngrad)
            end)
  | KHalve s γ L γ' L' => kg_halve_reach 1100 s (γ, L) (γ', L')
  | KTau s factor τmin τ => PrimFloat.eqb τ 0 || kg_tau_reach 1100 s factor τmin 1 τ
  end.
