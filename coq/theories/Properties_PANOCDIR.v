(* Properties_PANOCDIR.v — PANOC with the SHIPPED direction providers inside the model.
   PanocDir.panocD is the loop of Panoc.v with a stateful provider (Directions.dirops: initialize / update / apply / changed_γ / reset
   threaded exactly where panoc.tpp calls them).  PANOCDIR_refines_oracle_model: for EVERY provider (any state machine, in particular
   the four models of Directions.v) every run of panocD is a run of the verified oracle model Panoc.panoc, for the oracle
   "the j-th apply returned what the provider returned in that run".  Hence every theorem of Properties_PANOC.v (stated for every
   direction oracle) holds for PANOCSolver<LBFGSDirection | StructuredLBFGSDirection | AndersonDirection | NoopDirection>; the
   transported statements are given for every provider and instantiated for LBFGSDirection.
   Only `exact` + Print Assumptions here; proofs in PanocDirProofs.v.  Tie to the real code: Corr_PANOCDIR.chkpanocdir
   (lib/vf/props/PANOCDIR.py): whole runs of the real solver with the real providers against panocD at binary64. *)
From Coq Require Import Reals List ZArith Bool Lra.
From Flocq Require Import Raux.
From Alpaqa Require Import Num NumR Vec Prox ProxProofs SolverStatus SolverKernels StopChain StopChainProofs KktProofs
                           Lbfgs LbfgsProofs Panoc PanocProofs Directions PanocDir PanocDirProofs PanocDirLbfgs.
Import ListNotations.
Local Open Scope R_scope.

Section PANOCDIR.
  (* the outside world: nothing is assumed about any of these *)
  Variable psi_grad_full : list R -> R * list R * list R.
  Variable psi_yhat : list R -> R * list R.
  Variable grad_L : list R -> list R -> list R.
  Variable grad_psi : list R -> list R.
  Variables (lb ub : list (option R)) (l1 : list R).
  Variable stop_req : counters -> bool.
  Variable time_up : counters -> bool.
  Variable P : Panoc.params (T:=R).
  Variables (x_in y_in Σ errz_in : list R).
  Variable ls_fuel : nat.

  Notation runD D ops d0 := (panocD psi_grad_full psi_yhat grad_L grad_psi lb ub l1 D ops stop_req time_up P x_in y_in Σ errz_in ls_fuel d0).
  Notation run O hi := (panoc psi_grad_full psi_yhat grad_L grad_psi lb ub l1 O hi stop_req time_up P x_in y_in Σ errz_in ls_fuel).
  Notation ReachableD D ops d0 := (reachableD psi_grad_full psi_yhat grad_L grad_psi lb ub l1 D ops stop_req time_up P x_in y_in Σ errz_in ls_fuel d0).
  Notation Reachable O hi := (reachable psi_grad_full psi_yhat grad_L grad_psi lb ub l1 O hi stop_req time_up P x_in y_in Σ errz_in ls_fuel).
  Notation Consistent := (consistent psi_grad_full psi_yhat grad_L grad_psi lb ub l1 P).
  Notation Check_iterate := (check_iterate grad_L grad_psi P).
  Notation Glrel0 := (glrel0 psi_grad_full grad_psi P x_in).
  Notation Qub_ok := (qub_ok P).
  Notation Rec_ok := (rec_ok psi_grad_full psi_yhat grad_L grad_psi lb ub l1 P x_in).
  Notation Chain := (chain P).

  (* THE REFINEMENT: for every provider state type D, every provider ops, every initial provider state d0 and every completed run of
     PANOC-with-that-provider there is a direction oracle — the sequence of results of the provider's apply calls in that run — for which
     the verified oracle model Panoc.panoc returns the same outputs (out_sim: status, iterations, ε, x, y, err_z, final iterate,
     statistics, all event counters, and the progress-callback log record by record up to the content of the buffer q in records
     with τ = 0). *)
  Theorem PANOCDIR_refines_oracle_model : forall (D : Type) (ops : dirops R D) (d0 : D) fuel oD,
    runD D ops d0 fuel = DoneD D oD ->
    exists (dir_apply : nat -> iterate (T:=R) -> option (list R)) o,
      (forall j it, dir_apply j it = nth j (od_trace D oD) None) /\
      run dir_apply (d_has_initial D ops) fuel = Done o /\ out_sim (od_out D oD) o.
  Proof. exact (fun D ops d0 => panocD_refines_R psi_grad_full psi_yhat grad_L grad_psi lb ub l1 D ops stop_req time_up P x_in y_in Σ errz_in ls_fuel d0). Qed.

  (* what out_sim / cb_sim say, spelled out *)
  Theorem PANOCDIR_out_sim_means : forall o o' : outputs (T:=R), out_sim o o' ->
    out_status o = out_status o' /\ out_iterations o = out_iterations o' /\ out_eps o = out_eps o' /\
    out_x o = out_x o' /\ out_y o = out_y o' /\ out_errz o = out_errz o' /\ out_final o = out_final o' /\
    out_stats o = out_stats o' /\ out_cnt o = out_cnt o' /\
    Forall2 (fun r r' : cbrec (T:=R) => r_k r = r_k r' /\ r_it r = r_it r' /\ r_tau r = r_tau r' /\ r_eps r = r_eps r' /\
                                        r_status r = r_status r' /\ (r_q r = r_q r' \/ r_tau r = 0)) (out_log o) (out_log o').
  Proof. exact (fun o o' H => H). Qed.

  (* the run that stops before the loop (non-finite Lipschitz estimate) does not involve the provider *)
  Theorem PANOCDIR_notfinite : forall (D : Type) (ops : dirops R D) (d0 : D) fuel L dir_apply,
    runD D ops d0 fuel = NotFiniteLD D L -> run dir_apply (d_has_initial D ops) fuel = NotFiniteL L.
  Proof. exact (fun D ops d0 fuel L O => panocD_notfinite psi_grad_full psi_yhat grad_L grad_psi lb ub l1 D ops stop_req time_up P x_in y_in Σ errz_in ls_fuel d0 fuel L O). Qed.

  (* every state at the top of `while (true)` of PANOC-with-provider is (up to q) a reachable state of the oracle model *)
  Theorem PANOCDIR_reachable_refines : forall (D : Type) (ops : dirops R D) (d0 : D) sD, ReachableD D ops d0 sD ->
    exists dir_apply s, Reachable dir_apply (d_has_initial D ops) s /\ st_sim (sd_st D sD) s.
  Proof.
    exact (fun D ops d0 sD H =>
             let '(ex_intro _ s Hs) := reachableD_refines psi_grad_full psi_yhat grad_L grad_psi lb ub l1 D ops stop_req time_up P x_in y_in Σ errz_in ls_fuel d0 sD H [] in
             ex_intro _ _ (ex_intro _ s Hs)).
  Qed.

  (* ---------------- the theorems of Properties_PANOC.v, for every provider ---------------- *)
  Theorem PANOCDIR_invariant_at_every_stop_check : forall (D : Type) (ops : dirops R D) (d0 : D) sD, ReachableD D ops d0 sD ->
    let s := sd_st D sD in
    Consistent (Check_iterate s) /\ Qub_ok (Check_iterate s) /\ Glrel0 (Check_iterate s) /\
    (need_gradh P = true -> ihave (Check_iterate s) = true) /\ (st_k s <= p_max_iter P)%nat.
  Proof. exact (fun D ops d0 => panocD_check psi_grad_full psi_yhat grad_L grad_psi lb ub l1 D ops stop_req time_up P x_in y_in Σ errz_in ls_fuel d0). Qed.

  Theorem PANOCDIR_records : forall (D : Type) (ops : dirops R D) (d0 : D) fuel oD, runD D ops d0 fuel = DoneD D oD ->
    let o := od_out D oD in Forall Rec_ok (out_log o) /\ Chain (rev (out_log o)).
  Proof. exact (fun D ops d0 => panocD_records psi_grad_full psi_yhat grad_L grad_psi lb ub l1 D ops stop_req time_up P x_in y_in Σ errz_in ls_fuel d0). Qed.

  Theorem PANOCDIR_status_clauses : forall (D : Type) (ops : dirops R D) (d0 : D) fuel oD, runD D ops d0 fuel = DoneD D oD ->
    let o := od_out D oD in
    (out_iterations o <= p_max_iter P)%nat /\
    out_status o <> StBusy /\
    (out_status o = StMaxIter -> out_iterations o = p_max_iter P) /\
    (out_status o = StConverged <-> out_eps o <= eff_tol (o_tol P)) /\
    (out_status o = StInterrupted -> exists c, stop_req c = true) /\
    (out_status o = StMaxTime -> exists c, time_up c = true) /\
    (out_status o = StNoProgress -> exists np, (p_max_no_progress P < np)%nat).
  Proof. exact (fun D ops d0 => panocD_status_clauses psi_grad_full psi_yhat grad_L grad_psi lb ub l1 D ops stop_req time_up P x_in y_in Σ errz_in ls_fuel d0). Qed.

  Theorem PANOCDIR_exit : forall (D : Type) (ops : dirops R D) (d0 : D) fuel oD, runD D ops d0 fuel = DoneD D oD ->
    let o := od_out D oD in
    exists cf : iterate (T:=R), Consistent cf /\ Qub_ok cf /\ Glrel0 cf /\ (need_gradh P = true -> ihave cf = true) /\
      out_eps o = it_eps lb ub l1 P cf /\
      (overwrites (out_status o) (o_always P) = true ->
         out_x o = ixh cf /\ ixh cf = vadd (ix cf) (ip cf) /\
         out_y o = snd (psi_yhat (out_x o)) /\
         out_errz o = match errz_in with [] => [] | _ => vdiv (vsub (out_y o) y_in) Σ end) /\
      (overwrites (out_status o) (o_always P) = false -> out_x o = x_in /\ out_y o = y_in /\ out_errz o = errz_in).
  Proof. exact (fun D ops d0 => panocD_exit psi_grad_full psi_yhat grad_L grad_psi lb ub l1 D ops stop_req time_up P x_in y_in Σ errz_in ls_fuel d0). Qed.

  (* inner_contract_panoc of DESIGN §4 / C01, for every provider *)
  Theorem PANOCDIR_inner_contract : forall (D : Type) (ops : dirops R D) (d0 : D) fuel oD, runD D ops d0 fuel = DoneD D oD ->
    let o := od_out D oD in
    out_status o = StConverged -> p_crit P = ApproxKKT -> l1 = [] ->
    exists (x grad gradh : list R) (γ : R),
      let step := proj_grad_step lb ub γ x grad in
      out_x o = fst (fst step) /\
      out_y o = snd (psi_yhat (out_x o)) /\
      is_gradh psi_grad_full grad_L grad_psi P (out_x o) (snd (psi_hat_of psi_grad_full psi_yhat P (out_x o))) gradh /\
      out_errz o = match errz_in with [] => [] | _ => vdiv (vsub (out_y o) y_in) Σ end /\
      out_eps o = vnorminf (kkt_residual γ (snd (fst step)) grad gradh) /\
      out_eps o <= eff_tol (o_tol P) /\
      (exists ψ, val_x psi_grad_full psi_yhat grad_L grad_psi P x ψ grad) /\
      (0 < p_Lgamma P -> 0 < L_init psi_grad_full grad_psi P x_in -> 0 < γ) /\
      (L_init psi_grad_full grad_psi P x_in <> 0 -> exists L, γ * L = p_Lgamma P).
  Proof. exact (fun D ops d0 => panocD_inner_contract psi_grad_full psi_yhat grad_L grad_psi lb ub l1 D ops stop_req time_up P x_in y_in Σ errz_in ls_fuel d0). Qed.

  (* provider invariants: a predicate that initialize establishes and update / apply / changed_γ / reset preserve holds for the provider
     at the top of every pass with k > 0, i.e. at every call the loop makes after initialize *)
  Theorem PANOCDIR_provider_invariant : forall (D : Type) (ops : dirops R D) (d0 : D) (Iv : D -> Prop),
    (forall d y S γ x xh p g d', d_initialize D ops d y S γ x xh p g = Some d' -> Iv d') ->
    (forall d γ γn x xn p pn g gn, Iv d -> Iv (snd (d_update D ops d γ γn x xn p pn g gn))) ->
    (forall d γ x xh p g q b q' d', Iv d -> d_apply D ops d γ x xh p g q = Some (b, q', d') -> Iv d') ->
    (forall d a b, Iv d -> Iv (d_changed_gamma D ops d a b)) ->
    (forall d, Iv d -> Iv (d_reset D ops d)) ->
    forall sD, ReachableD D ops d0 sD -> st_k (sd_st D sD) = 0%nat \/ Iv (sd_dir D sD).
  Proof. exact (fun D ops d0 => reachableD_I psi_grad_full psi_yhat grad_L grad_psi lb ub l1 D ops stop_req time_up P x_in y_in Σ errz_in ls_fuel d0). Qed.

  (* ---------------- PANOCSolver<LBFGSDirection>: n, std::pow, all LBFGSParams and rescale_on_step_size_changes arbitrary ---------------- *)
  Section LBFGS.
    Variables (n : nat) (pw : R -> R -> R) (LP : Lbfgs.params R) (rescale : bool).
    Notation Dl := (Lbfgs.state R).
    Notation lbfgs := (lbfgs_dir n pw LP rescale).

    Corollary PANOCDIR_LBFGS_invariant_at_every_stop_check : forall sD, ReachableD Dl lbfgs lbfgs_unsized sD ->
      let s := sd_st Dl sD in
      Consistent (Check_iterate s) /\ Qub_ok (Check_iterate s) /\ Glrel0 (Check_iterate s) /\
      (need_gradh P = true -> ihave (Check_iterate s) = true) /\ (st_k s <= p_max_iter P)%nat.
    Proof. exact (PANOCDIR_invariant_at_every_stop_check Dl lbfgs lbfgs_unsized). Qed.

    Corollary PANOCDIR_LBFGS_exit_contract : forall fuel oD, runD Dl lbfgs lbfgs_unsized fuel = DoneD Dl oD ->
      let o := od_out Dl oD in
      out_status o = StConverged -> p_crit P = ApproxKKT -> l1 = [] ->
      exists (x grad gradh : list R) (γ : R),
        let step := proj_grad_step lb ub γ x grad in
        out_x o = fst (fst step) /\
        out_y o = snd (psi_yhat (out_x o)) /\
        is_gradh psi_grad_full grad_L grad_psi P (out_x o) (snd (psi_hat_of psi_grad_full psi_yhat P (out_x o))) gradh /\
        out_errz o = match errz_in with [] => [] | _ => vdiv (vsub (out_y o) y_in) Σ end /\
        out_eps o = vnorminf (kkt_residual γ (snd (fst step)) grad gradh) /\
        out_eps o <= eff_tol (o_tol P) /\
        (exists ψ, val_x psi_grad_full psi_yhat grad_L grad_psi P x ψ grad) /\
        (0 < p_Lgamma P -> 0 < L_init psi_grad_full grad_psi P x_in -> 0 < γ) /\
        (L_init psi_grad_full grad_psi P x_in <> 0 -> exists L, γ * L = p_Lgamma P).
    Proof. exact (PANOCDIR_inner_contract Dl lbfgs lbfgs_unsized). Qed.

    (* C09 composed with the loop: at every iteration k > 0 of every run, whatever happened before (accepted / rejected updates, resets,
       step-size changes with or without rescaling), LBFGSDirection::apply fails iff the history is empty (then q = p) and otherwise
       returns the dense BFGS inverse-Hessian operator of the stored pairs applied to p *)
    Corollary PANOCDIR_LBFGS_direction_is_dense_bfgs : forall sD, ReachableD Dl lbfgs lbfgs_unsized sD -> (0 < st_k (sd_st Dl sD))%nat ->
      let st := sd_dir Dl sD in
      forall γ x xh p g q,
        exists r, d_apply Dl lbfgs st γ x xh p g q = Some r /\
          if is_empty st then r = (false, p, st)
          else fst (fst r) = true /\ snd (fst r) = Hbfgs (pairs st) (doc_γ LP (pairs st) γ) p.
    Proof. exact (lbfgs_direction_is_dense_bfgs psi_grad_full psi_yhat grad_L grad_psi lb ub l1 stop_req time_up P x_in y_in Σ errz_in ls_fuel n pw LP rescale). Qed.

    Corollary PANOCDIR_LBFGS_records_and_status : forall fuel oD, runD Dl lbfgs lbfgs_unsized fuel = DoneD Dl oD ->
      let o := od_out Dl oD in
      Forall Rec_ok (out_log o) /\ Chain (rev (out_log o)) /\
      (out_iterations o <= p_max_iter P)%nat /\ out_status o <> StBusy /\
      (out_status o = StConverged <-> out_eps o <= eff_tol (o_tol P)).
    Proof.
      exact (fun fuel oD E =>
               let '(conj A B) := PANOCDIR_records Dl lbfgs lbfgs_unsized fuel oD E in
               let '(conj C1 (conj C2 (conj _ (conj C4 _)))) := PANOCDIR_status_clauses Dl lbfgs lbfgs_unsized fuel oD E in
               conj A (conj B (conj C1 (conj C2 C4)))).
    Qed.
  End LBFGS.
End PANOCDIR.

Print Assumptions PANOCDIR_refines_oracle_model.
Print Assumptions PANOCDIR_out_sim_means.
Print Assumptions PANOCDIR_notfinite.
Print Assumptions PANOCDIR_reachable_refines.
Print Assumptions PANOCDIR_invariant_at_every_stop_check.
Print Assumptions PANOCDIR_records.
Print Assumptions PANOCDIR_status_clauses.
Print Assumptions PANOCDIR_exit.
Print Assumptions PANOCDIR_inner_contract.
Print Assumptions PANOCDIR_provider_invariant.
Print Assumptions PANOCDIR_LBFGS_direction_is_dense_bfgs.
Print Assumptions PANOCDIR_LBFGS_invariant_at_every_stop_check.
Print Assumptions PANOCDIR_LBFGS_exit_contract.
Print Assumptions PANOCDIR_LBFGS_records_and_status.

(* StructuredLBFGSDirection's index set J over R = the C15 model of eval_inactive_indices_res_lna *)
Theorem PANOCDIR_STRUCT_index_set_is_C15_model : forall (lb ub : list (option R)) l1 γ x g,
  inactive_indices_x lb ub l1 γ x g = inactive_indices lb ub l1 γ x g.
Proof. exact inactive_indices_x_is_C15_model. Qed.
Print Assumptions PANOCDIR_STRUCT_index_set_is_C15_model.

(* non-vacuity: `runD ... = DoneD oD` and `ReachableD ...` are satisfiable over R for PANOC<LBFGSDirection>
   (constant oracles, max_iter = 0: the run is the initialisation, one stop check and the exit block) *)
Definition nvD_P : Panoc.params (T:=R) := mkParams 0 10 1 (1/1000000) (1/1000000) (1/2) 1 1 ProjGradNorm 0 0 (1/2) (1/2) (1/4) false false false false true 0.
Definition nvD_LP : Lbfgs.params R :=
  {| Lbfgs.p_memory := 3; Lbfgs.p_min_div_fac := 0; Lbfgs.p_min_abs_s := 0; Lbfgs.p_cbfgs_α := 1; Lbfgs.p_cbfgs_ϵ := 0;
     Lbfgs.p_force_pos_def := true; Lbfgs.p_curvature := true |}.
Definition nvD_run := panocD (T:=R) (fun _ => (0, [0], [])) (fun _ => (0, [])) (fun _ _ => [0]) (fun _ => [0]) [None] [None] []
                        (Lbfgs.state R) (lbfgs_dir 1 (fun _ _ => 1) nvD_LP false) (fun _ => false) (fun _ => false) nvD_P [0] [] [] [] 1 lbfgs_unsized 1.
Example PANOCDIR_nonvacuous : exists oD, nvD_run = DoneD _ oD /\ out_iterations (od_out _ oD) = 0%nat /\ out_status (od_out _ oD) <> StBusy /\ od_trace _ oD = [].
Proof.
  unfold nvD_run, panocD, init_L, nvD_P. cbn [p_L0 fst snd psi_grad].
  change (@nleb R NumR 1 (@n0 R NumR)) with (Rle_bool 1 0).
  destruct (Rle_bool_spec 1 0) as [H|_]; [lra|].
  cbn [iL nfinite NumR negb].
  cbv [eval_prox eval_psih set_gamma_L p_eager cnt_psih p_Lgamma iL igam ix igrad ixh ip iyh ipsi ipsih ipp igp ih ihave igradh
       eval_prox_grad_step proj_grad_step map5 proj_step1 clamp_hi clamp_lo osub option_map vadd map2 fst snd].
  cbn [init_qub iL p_Lmax]. change (@nltb R NumR 1 1) with (Rlt_bool 1 1).
  destruct (Rlt_bool_spec 1 1) as [H|_]; [lra|]. cbn [andb].
  cbn [loopD]. unfold passD. cbn [sd_st sd_dir sd_rej sd_trace st_curr ihave need_gradh p_crit crit_needs_gradh andb st_cnt st_k st_np p_max_iter p_max_no_progress o_tol].
  unfold stop_status_helpers. cbn [Nat.eqb].
  match goal with |- context [if nleb ?a ?b then _ else _] => destruct (nleb a b) end.
  all: cbv [exit_block overwrites o_always ixh iyh]; eexists; split; [reflexivity|]; cbn [od_out od_trace out_iterations out_status]; repeat split; try discriminate.
Qed.
